import Prism.Check.C02

/-! Kernel-checked chunks (generated boiler-plate, see lib/gen_static.py). -/
namespace Prism.C02

theorem encp3_k144 : enc16ChunkOk .p3 144 = true := by decide +kernel
theorem encp3_k145 : enc16ChunkOk .p3 145 = true := by decide +kernel
theorem encp3_k146 : enc16ChunkOk .p3 146 = true := by decide +kernel
theorem encp3_k147 : enc16ChunkOk .p3 147 = true := by decide +kernel
theorem encp3_k148 : enc16ChunkOk .p3 148 = true := by decide +kernel
theorem encp3_k149 : enc16ChunkOk .p3 149 = true := by decide +kernel
theorem encp3_k150 : enc16ChunkOk .p3 150 = true := by decide +kernel
theorem encp3_k151 : enc16ChunkOk .p3 151 = true := by decide +kernel
theorem encp3_k152 : enc16ChunkOk .p3 152 = true := by decide +kernel
theorem encp3_k153 : enc16ChunkOk .p3 153 = true := by decide +kernel
theorem encp3_k154 : enc16ChunkOk .p3 154 = true := by decide +kernel
theorem encp3_k155 : enc16ChunkOk .p3 155 = true := by decide +kernel
theorem encp3_k156 : enc16ChunkOk .p3 156 = true := by decide +kernel
theorem encp3_k157 : enc16ChunkOk .p3 157 = true := by decide +kernel
theorem encp3_k158 : enc16ChunkOk .p3 158 = true := by decide +kernel
theorem encp3_k159 : enc16ChunkOk .p3 159 = true := by decide +kernel

theorem encp3_file9 : ∀ k, 144 ≤ k → k < 160 → enc16ChunkOk .p3 k = true := by
  intro k h1 h2
  have h : k = 144 ∨ k = 145 ∨ k = 146 ∨ k = 147 ∨ k = 148 ∨ k = 149 ∨ k = 150 ∨ k = 151 ∨ k = 152 ∨ k = 153 ∨ k = 154 ∨ k = 155 ∨ k = 156 ∨ k = 157 ∨ k = 158 ∨ k = 159 := by omega
  rcases h with rfl | rfl | rfl | rfl | rfl | rfl | rfl | rfl | rfl | rfl | rfl | rfl | rfl | rfl | rfl | rfl
  · exact encp3_k144
  · exact encp3_k145
  · exact encp3_k146
  · exact encp3_k147
  · exact encp3_k148
  · exact encp3_k149
  · exact encp3_k150
  · exact encp3_k151
  · exact encp3_k152
  · exact encp3_k153
  · exact encp3_k154
  · exact encp3_k155
  · exact encp3_k156
  · exact encp3_k157
  · exact encp3_k158
  · exact encp3_k159

end Prism.C02
