import Prism.Check.C02

/-! Kernel-checked chunks (generated boiler-plate, see lib/gen_static.py). -/
namespace Prism.C02

theorem encprophoto_k0 : enc16ChunkOk .prophoto 0 = true := by decide +kernel
theorem encprophoto_k1 : enc16ChunkOk .prophoto 1 = true := by decide +kernel
theorem encprophoto_k2 : enc16ChunkOk .prophoto 2 = true := by decide +kernel
theorem encprophoto_k3 : enc16ChunkOk .prophoto 3 = true := by decide +kernel
theorem encprophoto_k4 : enc16ChunkOk .prophoto 4 = true := by decide +kernel
theorem encprophoto_k5 : enc16ChunkOk .prophoto 5 = true := by decide +kernel
theorem encprophoto_k6 : enc16ChunkOk .prophoto 6 = true := by decide +kernel
theorem encprophoto_k7 : enc16ChunkOk .prophoto 7 = true := by decide +kernel
theorem encprophoto_k8 : enc16ChunkOk .prophoto 8 = true := by decide +kernel
theorem encprophoto_k9 : enc16ChunkOk .prophoto 9 = true := by decide +kernel
theorem encprophoto_k10 : enc16ChunkOk .prophoto 10 = true := by decide +kernel
theorem encprophoto_k11 : enc16ChunkOk .prophoto 11 = true := by decide +kernel
theorem encprophoto_k12 : enc16ChunkOk .prophoto 12 = true := by decide +kernel
theorem encprophoto_k13 : enc16ChunkOk .prophoto 13 = true := by decide +kernel
theorem encprophoto_k14 : enc16ChunkOk .prophoto 14 = true := by decide +kernel
theorem encprophoto_k15 : enc16ChunkOk .prophoto 15 = true := by decide +kernel

theorem encprophoto_file0 : ∀ k, 0 ≤ k → k < 16 → enc16ChunkOk .prophoto k = true := by
  intro k h1 h2
  have h : k = 0 ∨ k = 1 ∨ k = 2 ∨ k = 3 ∨ k = 4 ∨ k = 5 ∨ k = 6 ∨ k = 7 ∨ k = 8 ∨ k = 9 ∨ k = 10 ∨ k = 11 ∨ k = 12 ∨ k = 13 ∨ k = 14 ∨ k = 15 := by omega
  rcases h with rfl | rfl | rfl | rfl | rfl | rfl | rfl | rfl | rfl | rfl | rfl | rfl | rfl | rfl | rfl | rfl
  · exact encprophoto_k0
  · exact encprophoto_k1
  · exact encprophoto_k2
  · exact encprophoto_k3
  · exact encprophoto_k4
  · exact encprophoto_k5
  · exact encprophoto_k6
  · exact encprophoto_k7
  · exact encprophoto_k8
  · exact encprophoto_k9
  · exact encprophoto_k10
  · exact encprophoto_k11
  · exact encprophoto_k12
  · exact encprophoto_k13
  · exact encprophoto_k14
  · exact encprophoto_k15

end Prism.C02
