import Prism.Check.C02

/-! Kernel-checked chunks (generated boiler-plate, see lib/gen_static.py). -/
namespace Prism.C02

theorem encprophoto_k16 : enc16ChunkOk .prophoto 16 = true := by decide +kernel
theorem encprophoto_k17 : enc16ChunkOk .prophoto 17 = true := by decide +kernel
theorem encprophoto_k18 : enc16ChunkOk .prophoto 18 = true := by decide +kernel
theorem encprophoto_k19 : enc16ChunkOk .prophoto 19 = true := by decide +kernel
theorem encprophoto_k20 : enc16ChunkOk .prophoto 20 = true := by decide +kernel
theorem encprophoto_k21 : enc16ChunkOk .prophoto 21 = true := by decide +kernel
theorem encprophoto_k22 : enc16ChunkOk .prophoto 22 = true := by decide +kernel
theorem encprophoto_k23 : enc16ChunkOk .prophoto 23 = true := by decide +kernel
theorem encprophoto_k24 : enc16ChunkOk .prophoto 24 = true := by decide +kernel
theorem encprophoto_k25 : enc16ChunkOk .prophoto 25 = true := by decide +kernel
theorem encprophoto_k26 : enc16ChunkOk .prophoto 26 = true := by decide +kernel
theorem encprophoto_k27 : enc16ChunkOk .prophoto 27 = true := by decide +kernel
theorem encprophoto_k28 : enc16ChunkOk .prophoto 28 = true := by decide +kernel
theorem encprophoto_k29 : enc16ChunkOk .prophoto 29 = true := by decide +kernel
theorem encprophoto_k30 : enc16ChunkOk .prophoto 30 = true := by decide +kernel
theorem encprophoto_k31 : enc16ChunkOk .prophoto 31 = true := by decide +kernel

theorem encprophoto_file1 : ∀ k, 16 ≤ k → k < 32 → enc16ChunkOk .prophoto k = true := by
  intro k h1 h2
  have h : k = 16 ∨ k = 17 ∨ k = 18 ∨ k = 19 ∨ k = 20 ∨ k = 21 ∨ k = 22 ∨ k = 23 ∨ k = 24 ∨ k = 25 ∨ k = 26 ∨ k = 27 ∨ k = 28 ∨ k = 29 ∨ k = 30 ∨ k = 31 := by omega
  rcases h with rfl | rfl | rfl | rfl | rfl | rfl | rfl | rfl | rfl | rfl | rfl | rfl | rfl | rfl | rfl | rfl
  · exact encprophoto_k16
  · exact encprophoto_k17
  · exact encprophoto_k18
  · exact encprophoto_k19
  · exact encprophoto_k20
  · exact encprophoto_k21
  · exact encprophoto_k22
  · exact encprophoto_k23
  · exact encprophoto_k24
  · exact encprophoto_k25
  · exact encprophoto_k26
  · exact encprophoto_k27
  · exact encprophoto_k28
  · exact encprophoto_k29
  · exact encprophoto_k30
  · exact encprophoto_k31

end Prism.C02
