import Prism.Check.C02

/-! Kernel-checked chunks (generated boiler-plate, see lib/gen_static.py). -/
namespace Prism.C02

theorem encprophoto_k160 : enc16ChunkOk .prophoto 160 = true := by decide +kernel
theorem encprophoto_k161 : enc16ChunkOk .prophoto 161 = true := by decide +kernel
theorem encprophoto_k162 : enc16ChunkOk .prophoto 162 = true := by decide +kernel
theorem encprophoto_k163 : enc16ChunkOk .prophoto 163 = true := by decide +kernel
theorem encprophoto_k164 : enc16ChunkOk .prophoto 164 = true := by decide +kernel
theorem encprophoto_k165 : enc16ChunkOk .prophoto 165 = true := by decide +kernel
theorem encprophoto_k166 : enc16ChunkOk .prophoto 166 = true := by decide +kernel
theorem encprophoto_k167 : enc16ChunkOk .prophoto 167 = true := by decide +kernel
theorem encprophoto_k168 : enc16ChunkOk .prophoto 168 = true := by decide +kernel
theorem encprophoto_k169 : enc16ChunkOk .prophoto 169 = true := by decide +kernel
theorem encprophoto_k170 : enc16ChunkOk .prophoto 170 = true := by decide +kernel
theorem encprophoto_k171 : enc16ChunkOk .prophoto 171 = true := by decide +kernel
theorem encprophoto_k172 : enc16ChunkOk .prophoto 172 = true := by decide +kernel
theorem encprophoto_k173 : enc16ChunkOk .prophoto 173 = true := by decide +kernel
theorem encprophoto_k174 : enc16ChunkOk .prophoto 174 = true := by decide +kernel
theorem encprophoto_k175 : enc16ChunkOk .prophoto 175 = true := by decide +kernel

theorem encprophoto_file10 : ∀ k, 160 ≤ k → k < 176 → enc16ChunkOk .prophoto k = true := by
  intro k h1 h2
  have h : k = 160 ∨ k = 161 ∨ k = 162 ∨ k = 163 ∨ k = 164 ∨ k = 165 ∨ k = 166 ∨ k = 167 ∨ k = 168 ∨ k = 169 ∨ k = 170 ∨ k = 171 ∨ k = 172 ∨ k = 173 ∨ k = 174 ∨ k = 175 := by omega
  rcases h with rfl | rfl | rfl | rfl | rfl | rfl | rfl | rfl | rfl | rfl | rfl | rfl | rfl | rfl | rfl | rfl
  · exact encprophoto_k160
  · exact encprophoto_k161
  · exact encprophoto_k162
  · exact encprophoto_k163
  · exact encprophoto_k164
  · exact encprophoto_k165
  · exact encprophoto_k166
  · exact encprophoto_k167
  · exact encprophoto_k168
  · exact encprophoto_k169
  · exact encprophoto_k170
  · exact encprophoto_k171
  · exact encprophoto_k172
  · exact encprophoto_k173
  · exact encprophoto_k174
  · exact encprophoto_k175

end Prism.C02
