import Prism.Check.C02

/-! Kernel-checked chunks (generated boiler-plate, see lib/gen_static.py). -/
namespace Prism.C02

theorem encprophoto_k176 : enc16ChunkOk .prophoto 176 = true := by decide +kernel
theorem encprophoto_k177 : enc16ChunkOk .prophoto 177 = true := by decide +kernel
theorem encprophoto_k178 : enc16ChunkOk .prophoto 178 = true := by decide +kernel
theorem encprophoto_k179 : enc16ChunkOk .prophoto 179 = true := by decide +kernel
theorem encprophoto_k180 : enc16ChunkOk .prophoto 180 = true := by decide +kernel
theorem encprophoto_k181 : enc16ChunkOk .prophoto 181 = true := by decide +kernel
theorem encprophoto_k182 : enc16ChunkOk .prophoto 182 = true := by decide +kernel
theorem encprophoto_k183 : enc16ChunkOk .prophoto 183 = true := by decide +kernel
theorem encprophoto_k184 : enc16ChunkOk .prophoto 184 = true := by decide +kernel
theorem encprophoto_k185 : enc16ChunkOk .prophoto 185 = true := by decide +kernel
theorem encprophoto_k186 : enc16ChunkOk .prophoto 186 = true := by decide +kernel
theorem encprophoto_k187 : enc16ChunkOk .prophoto 187 = true := by decide +kernel
theorem encprophoto_k188 : enc16ChunkOk .prophoto 188 = true := by decide +kernel
theorem encprophoto_k189 : enc16ChunkOk .prophoto 189 = true := by decide +kernel
theorem encprophoto_k190 : enc16ChunkOk .prophoto 190 = true := by decide +kernel
theorem encprophoto_k191 : enc16ChunkOk .prophoto 191 = true := by decide +kernel

theorem encprophoto_file11 : ∀ k, 176 ≤ k → k < 192 → enc16ChunkOk .prophoto k = true := by
  intro k h1 h2
  have h : k = 176 ∨ k = 177 ∨ k = 178 ∨ k = 179 ∨ k = 180 ∨ k = 181 ∨ k = 182 ∨ k = 183 ∨ k = 184 ∨ k = 185 ∨ k = 186 ∨ k = 187 ∨ k = 188 ∨ k = 189 ∨ k = 190 ∨ k = 191 := by omega
  rcases h with rfl | rfl | rfl | rfl | rfl | rfl | rfl | rfl | rfl | rfl | rfl | rfl | rfl | rfl | rfl | rfl
  · exact encprophoto_k176
  · exact encprophoto_k177
  · exact encprophoto_k178
  · exact encprophoto_k179
  · exact encprophoto_k180
  · exact encprophoto_k181
  · exact encprophoto_k182
  · exact encprophoto_k183
  · exact encprophoto_k184
  · exact encprophoto_k185
  · exact encprophoto_k186
  · exact encprophoto_k187
  · exact encprophoto_k188
  · exact encprophoto_k189
  · exact encprophoto_k190
  · exact encprophoto_k191

end Prism.C02
