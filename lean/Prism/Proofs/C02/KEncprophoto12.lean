import Prism.Check.C02

/-! Kernel-checked chunks (generated boiler-plate, see lib/gen_static.py). -/
namespace Prism.C02

theorem encprophoto_k192 : enc16ChunkOk .prophoto 192 = true := by decide +kernel
theorem encprophoto_k193 : enc16ChunkOk .prophoto 193 = true := by decide +kernel
theorem encprophoto_k194 : enc16ChunkOk .prophoto 194 = true := by decide +kernel
theorem encprophoto_k195 : enc16ChunkOk .prophoto 195 = true := by decide +kernel
theorem encprophoto_k196 : enc16ChunkOk .prophoto 196 = true := by decide +kernel
theorem encprophoto_k197 : enc16ChunkOk .prophoto 197 = true := by decide +kernel
theorem encprophoto_k198 : enc16ChunkOk .prophoto 198 = true := by decide +kernel
theorem encprophoto_k199 : enc16ChunkOk .prophoto 199 = true := by decide +kernel
theorem encprophoto_k200 : enc16ChunkOk .prophoto 200 = true := by decide +kernel
theorem encprophoto_k201 : enc16ChunkOk .prophoto 201 = true := by decide +kernel
theorem encprophoto_k202 : enc16ChunkOk .prophoto 202 = true := by decide +kernel
theorem encprophoto_k203 : enc16ChunkOk .prophoto 203 = true := by decide +kernel
theorem encprophoto_k204 : enc16ChunkOk .prophoto 204 = true := by decide +kernel
theorem encprophoto_k205 : enc16ChunkOk .prophoto 205 = true := by decide +kernel
theorem encprophoto_k206 : enc16ChunkOk .prophoto 206 = true := by decide +kernel
theorem encprophoto_k207 : enc16ChunkOk .prophoto 207 = true := by decide +kernel

theorem encprophoto_file12 : ∀ k, 192 ≤ k → k < 208 → enc16ChunkOk .prophoto k = true := by
  intro k h1 h2
  have h : k = 192 ∨ k = 193 ∨ k = 194 ∨ k = 195 ∨ k = 196 ∨ k = 197 ∨ k = 198 ∨ k = 199 ∨ k = 200 ∨ k = 201 ∨ k = 202 ∨ k = 203 ∨ k = 204 ∨ k = 205 ∨ k = 206 ∨ k = 207 := by omega
  rcases h with rfl | rfl | rfl | rfl | rfl | rfl | rfl | rfl | rfl | rfl | rfl | rfl | rfl | rfl | rfl | rfl
  · exact encprophoto_k192
  · exact encprophoto_k193
  · exact encprophoto_k194
  · exact encprophoto_k195
  · exact encprophoto_k196
  · exact encprophoto_k197
  · exact encprophoto_k198
  · exact encprophoto_k199
  · exact encprophoto_k200
  · exact encprophoto_k201
  · exact encprophoto_k202
  · exact encprophoto_k203
  · exact encprophoto_k204
  · exact encprophoto_k205
  · exact encprophoto_k206
  · exact encprophoto_k207

end Prism.C02
