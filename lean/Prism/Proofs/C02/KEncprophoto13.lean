import Prism.Check.C02

/-! Kernel-checked chunks (generated boiler-plate, see lib/gen_static.py). -/
namespace Prism.C02

theorem encprophoto_k208 : enc16ChunkOk .prophoto 208 = true := by decide +kernel
theorem encprophoto_k209 : enc16ChunkOk .prophoto 209 = true := by decide +kernel
theorem encprophoto_k210 : enc16ChunkOk .prophoto 210 = true := by decide +kernel
theorem encprophoto_k211 : enc16ChunkOk .prophoto 211 = true := by decide +kernel
theorem encprophoto_k212 : enc16ChunkOk .prophoto 212 = true := by decide +kernel
theorem encprophoto_k213 : enc16ChunkOk .prophoto 213 = true := by decide +kernel
theorem encprophoto_k214 : enc16ChunkOk .prophoto 214 = true := by decide +kernel
theorem encprophoto_k215 : enc16ChunkOk .prophoto 215 = true := by decide +kernel
theorem encprophoto_k216 : enc16ChunkOk .prophoto 216 = true := by decide +kernel
theorem encprophoto_k217 : enc16ChunkOk .prophoto 217 = true := by decide +kernel
theorem encprophoto_k218 : enc16ChunkOk .prophoto 218 = true := by decide +kernel
theorem encprophoto_k219 : enc16ChunkOk .prophoto 219 = true := by decide +kernel
theorem encprophoto_k220 : enc16ChunkOk .prophoto 220 = true := by decide +kernel
theorem encprophoto_k221 : enc16ChunkOk .prophoto 221 = true := by decide +kernel
theorem encprophoto_k222 : enc16ChunkOk .prophoto 222 = true := by decide +kernel
theorem encprophoto_k223 : enc16ChunkOk .prophoto 223 = true := by decide +kernel

theorem encprophoto_file13 : ∀ k, 208 ≤ k → k < 224 → enc16ChunkOk .prophoto k = true := by
  intro k h1 h2
  have h : k = 208 ∨ k = 209 ∨ k = 210 ∨ k = 211 ∨ k = 212 ∨ k = 213 ∨ k = 214 ∨ k = 215 ∨ k = 216 ∨ k = 217 ∨ k = 218 ∨ k = 219 ∨ k = 220 ∨ k = 221 ∨ k = 222 ∨ k = 223 := by omega
  rcases h with rfl | rfl | rfl | rfl | rfl | rfl | rfl | rfl | rfl | rfl | rfl | rfl | rfl | rfl | rfl | rfl
  · exact encprophoto_k208
  · exact encprophoto_k209
  · exact encprophoto_k210
  · exact encprophoto_k211
  · exact encprophoto_k212
  · exact encprophoto_k213
  · exact encprophoto_k214
  · exact encprophoto_k215
  · exact encprophoto_k216
  · exact encprophoto_k217
  · exact encprophoto_k218
  · exact encprophoto_k219
  · exact encprophoto_k220
  · exact encprophoto_k221
  · exact encprophoto_k222
  · exact encprophoto_k223

end Prism.C02
