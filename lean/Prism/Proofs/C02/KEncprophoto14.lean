import Prism.Check.C02

/-! Kernel-checked chunks (generated boiler-plate, see lib/gen_static.py). -/
namespace Prism.C02

theorem encprophoto_k224 : enc16ChunkOk .prophoto 224 = true := by decide +kernel
theorem encprophoto_k225 : enc16ChunkOk .prophoto 225 = true := by decide +kernel
theorem encprophoto_k226 : enc16ChunkOk .prophoto 226 = true := by decide +kernel
theorem encprophoto_k227 : enc16ChunkOk .prophoto 227 = true := by decide +kernel
theorem encprophoto_k228 : enc16ChunkOk .prophoto 228 = true := by decide +kernel
theorem encprophoto_k229 : enc16ChunkOk .prophoto 229 = true := by decide +kernel
theorem encprophoto_k230 : enc16ChunkOk .prophoto 230 = true := by decide +kernel
theorem encprophoto_k231 : enc16ChunkOk .prophoto 231 = true := by decide +kernel
theorem encprophoto_k232 : enc16ChunkOk .prophoto 232 = true := by decide +kernel
theorem encprophoto_k233 : enc16ChunkOk .prophoto 233 = true := by decide +kernel
theorem encprophoto_k234 : enc16ChunkOk .prophoto 234 = true := by decide +kernel
theorem encprophoto_k235 : enc16ChunkOk .prophoto 235 = true := by decide +kernel
theorem encprophoto_k236 : enc16ChunkOk .prophoto 236 = true := by decide +kernel
theorem encprophoto_k237 : enc16ChunkOk .prophoto 237 = true := by decide +kernel
theorem encprophoto_k238 : enc16ChunkOk .prophoto 238 = true := by decide +kernel
theorem encprophoto_k239 : enc16ChunkOk .prophoto 239 = true := by decide +kernel

theorem encprophoto_file14 : ∀ k, 224 ≤ k → k < 240 → enc16ChunkOk .prophoto k = true := by
  intro k h1 h2
  have h : k = 224 ∨ k = 225 ∨ k = 226 ∨ k = 227 ∨ k = 228 ∨ k = 229 ∨ k = 230 ∨ k = 231 ∨ k = 232 ∨ k = 233 ∨ k = 234 ∨ k = 235 ∨ k = 236 ∨ k = 237 ∨ k = 238 ∨ k = 239 := by omega
  rcases h with rfl | rfl | rfl | rfl | rfl | rfl | rfl | rfl | rfl | rfl | rfl | rfl | rfl | rfl | rfl | rfl
  · exact encprophoto_k224
  · exact encprophoto_k225
  · exact encprophoto_k226
  · exact encprophoto_k227
  · exact encprophoto_k228
  · exact encprophoto_k229
  · exact encprophoto_k230
  · exact encprophoto_k231
  · exact encprophoto_k232
  · exact encprophoto_k233
  · exact encprophoto_k234
  · exact encprophoto_k235
  · exact encprophoto_k236
  · exact encprophoto_k237
  · exact encprophoto_k238
  · exact encprophoto_k239

end Prism.C02
