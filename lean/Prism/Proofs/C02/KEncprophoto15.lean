import Prism.Check.C02

/-! Kernel-checked chunks (generated boiler-plate, see lib/gen_static.py). -/
namespace Prism.C02

theorem encprophoto_k240 : enc16ChunkOk .prophoto 240 = true := by decide +kernel
theorem encprophoto_k241 : enc16ChunkOk .prophoto 241 = true := by decide +kernel
theorem encprophoto_k242 : enc16ChunkOk .prophoto 242 = true := by decide +kernel
theorem encprophoto_k243 : enc16ChunkOk .prophoto 243 = true := by decide +kernel
theorem encprophoto_k244 : enc16ChunkOk .prophoto 244 = true := by decide +kernel
theorem encprophoto_k245 : enc16ChunkOk .prophoto 245 = true := by decide +kernel
theorem encprophoto_k246 : enc16ChunkOk .prophoto 246 = true := by decide +kernel
theorem encprophoto_k247 : enc16ChunkOk .prophoto 247 = true := by decide +kernel
theorem encprophoto_k248 : enc16ChunkOk .prophoto 248 = true := by decide +kernel
theorem encprophoto_k249 : enc16ChunkOk .prophoto 249 = true := by decide +kernel
theorem encprophoto_k250 : enc16ChunkOk .prophoto 250 = true := by decide +kernel
theorem encprophoto_k251 : enc16ChunkOk .prophoto 251 = true := by decide +kernel
theorem encprophoto_k252 : enc16ChunkOk .prophoto 252 = true := by decide +kernel
theorem encprophoto_k253 : enc16ChunkOk .prophoto 253 = true := by decide +kernel
theorem encprophoto_k254 : enc16ChunkOk .prophoto 254 = true := by decide +kernel
theorem encprophoto_k255 : enc16ChunkOk .prophoto 255 = true := by decide +kernel

theorem encprophoto_file15 : ∀ k, 240 ≤ k → k < 256 → enc16ChunkOk .prophoto k = true := by
  intro k h1 h2
  have h : k = 240 ∨ k = 241 ∨ k = 242 ∨ k = 243 ∨ k = 244 ∨ k = 245 ∨ k = 246 ∨ k = 247 ∨ k = 248 ∨ k = 249 ∨ k = 250 ∨ k = 251 ∨ k = 252 ∨ k = 253 ∨ k = 254 ∨ k = 255 := by omega
  rcases h with rfl | rfl | rfl | rfl | rfl | rfl | rfl | rfl | rfl | rfl | rfl | rfl | rfl | rfl | rfl | rfl
  · exact encprophoto_k240
  · exact encprophoto_k241
  · exact encprophoto_k242
  · exact encprophoto_k243
  · exact encprophoto_k244
  · exact encprophoto_k245
  · exact encprophoto_k246
  · exact encprophoto_k247
  · exact encprophoto_k248
  · exact encprophoto_k249
  · exact encprophoto_k250
  · exact encprophoto_k251
  · exact encprophoto_k252
  · exact encprophoto_k253
  · exact encprophoto_k254
  · exact encprophoto_k255

end Prism.C02
