import Prism.Check.C02

/-! Kernel-checked chunks (generated boiler-plate, see lib/gen_static.py). -/
namespace Prism.C02

theorem encprophoto_k32 : enc16ChunkOk .prophoto 32 = true := by decide +kernel
theorem encprophoto_k33 : enc16ChunkOk .prophoto 33 = true := by decide +kernel
theorem encprophoto_k34 : enc16ChunkOk .prophoto 34 = true := by decide +kernel
theorem encprophoto_k35 : enc16ChunkOk .prophoto 35 = true := by decide +kernel
theorem encprophoto_k36 : enc16ChunkOk .prophoto 36 = true := by decide +kernel
theorem encprophoto_k37 : enc16ChunkOk .prophoto 37 = true := by decide +kernel
theorem encprophoto_k38 : enc16ChunkOk .prophoto 38 = true := by decide +kernel
theorem encprophoto_k39 : enc16ChunkOk .prophoto 39 = true := by decide +kernel
theorem encprophoto_k40 : enc16ChunkOk .prophoto 40 = true := by decide +kernel
theorem encprophoto_k41 : enc16ChunkOk .prophoto 41 = true := by decide +kernel
theorem encprophoto_k42 : enc16ChunkOk .prophoto 42 = true := by decide +kernel
theorem encprophoto_k43 : enc16ChunkOk .prophoto 43 = true := by decide +kernel
theorem encprophoto_k44 : enc16ChunkOk .prophoto 44 = true := by decide +kernel
theorem encprophoto_k45 : enc16ChunkOk .prophoto 45 = true := by decide +kernel
theorem encprophoto_k46 : enc16ChunkOk .prophoto 46 = true := by decide +kernel
theorem encprophoto_k47 : enc16ChunkOk .prophoto 47 = true := by decide +kernel

theorem encprophoto_file2 : ∀ k, 32 ≤ k → k < 48 → enc16ChunkOk .prophoto k = true := by
  intro k h1 h2
  have h : k = 32 ∨ k = 33 ∨ k = 34 ∨ k = 35 ∨ k = 36 ∨ k = 37 ∨ k = 38 ∨ k = 39 ∨ k = 40 ∨ k = 41 ∨ k = 42 ∨ k = 43 ∨ k = 44 ∨ k = 45 ∨ k = 46 ∨ k = 47 := by omega
  rcases h with rfl | rfl | rfl | rfl | rfl | rfl | rfl | rfl | rfl | rfl | rfl | rfl | rfl | rfl | rfl | rfl
  · exact encprophoto_k32
  · exact encprophoto_k33
  · exact encprophoto_k34
  · exact encprophoto_k35
  · exact encprophoto_k36
  · exact encprophoto_k37
  · exact encprophoto_k38
  · exact encprophoto_k39
  · exact encprophoto_k40
  · exact encprophoto_k41
  · exact encprophoto_k42
  · exact encprophoto_k43
  · exact encprophoto_k44
  · exact encprophoto_k45
  · exact encprophoto_k46
  · exact encprophoto_k47

end Prism.C02
