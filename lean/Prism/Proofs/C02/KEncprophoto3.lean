import Prism.Check.C02

/-! Kernel-checked chunks (generated boiler-plate, see lib/gen_static.py). -/
namespace Prism.C02

theorem encprophoto_k48 : enc16ChunkOk .prophoto 48 = true := by decide +kernel
theorem encprophoto_k49 : enc16ChunkOk .prophoto 49 = true := by decide +kernel
theorem encprophoto_k50 : enc16ChunkOk .prophoto 50 = true := by decide +kernel
theorem encprophoto_k51 : enc16ChunkOk .prophoto 51 = true := by decide +kernel
theorem encprophoto_k52 : enc16ChunkOk .prophoto 52 = true := by decide +kernel
theorem encprophoto_k53 : enc16ChunkOk .prophoto 53 = true := by decide +kernel
theorem encprophoto_k54 : enc16ChunkOk .prophoto 54 = true := by decide +kernel
theorem encprophoto_k55 : enc16ChunkOk .prophoto 55 = true := by decide +kernel
theorem encprophoto_k56 : enc16ChunkOk .prophoto 56 = true := by decide +kernel
theorem encprophoto_k57 : enc16ChunkOk .prophoto 57 = true := by decide +kernel
theorem encprophoto_k58 : enc16ChunkOk .prophoto 58 = true := by decide +kernel
theorem encprophoto_k59 : enc16ChunkOk .prophoto 59 = true := by decide +kernel
theorem encprophoto_k60 : enc16ChunkOk .prophoto 60 = true := by decide +kernel
theorem encprophoto_k61 : enc16ChunkOk .prophoto 61 = true := by decide +kernel
theorem encprophoto_k62 : enc16ChunkOk .prophoto 62 = true := by decide +kernel
theorem encprophoto_k63 : enc16ChunkOk .prophoto 63 = true := by decide +kernel

theorem encprophoto_file3 : ∀ k, 48 ≤ k → k < 64 → enc16ChunkOk .prophoto k = true := by
  intro k h1 h2
  have h : k = 48 ∨ k = 49 ∨ k = 50 ∨ k = 51 ∨ k = 52 ∨ k = 53 ∨ k = 54 ∨ k = 55 ∨ k = 56 ∨ k = 57 ∨ k = 58 ∨ k = 59 ∨ k = 60 ∨ k = 61 ∨ k = 62 ∨ k = 63 := by omega
  rcases h with rfl | rfl | rfl | rfl | rfl | rfl | rfl | rfl | rfl | rfl | rfl | rfl | rfl | rfl | rfl | rfl
  · exact encprophoto_k48
  · exact encprophoto_k49
  · exact encprophoto_k50
  · exact encprophoto_k51
  · exact encprophoto_k52
  · exact encprophoto_k53
  · exact encprophoto_k54
  · exact encprophoto_k55
  · exact encprophoto_k56
  · exact encprophoto_k57
  · exact encprophoto_k58
  · exact encprophoto_k59
  · exact encprophoto_k60
  · exact encprophoto_k61
  · exact encprophoto_k62
  · exact encprophoto_k63

end Prism.C02
