import Prism.Check.C02

/-! Kernel-checked chunks (generated boiler-plate, see lib/gen_static.py). -/
namespace Prism.C02

theorem encprophoto_k64 : enc16ChunkOk .prophoto 64 = true := by decide +kernel
theorem encprophoto_k65 : enc16ChunkOk .prophoto 65 = true := by decide +kernel
theorem encprophoto_k66 : enc16ChunkOk .prophoto 66 = true := by decide +kernel
theorem encprophoto_k67 : enc16ChunkOk .prophoto 67 = true := by decide +kernel
theorem encprophoto_k68 : enc16ChunkOk .prophoto 68 = true := by decide +kernel
theorem encprophoto_k69 : enc16ChunkOk .prophoto 69 = true := by decide +kernel
theorem encprophoto_k70 : enc16ChunkOk .prophoto 70 = true := by decide +kernel
theorem encprophoto_k71 : enc16ChunkOk .prophoto 71 = true := by decide +kernel
theorem encprophoto_k72 : enc16ChunkOk .prophoto 72 = true := by decide +kernel
theorem encprophoto_k73 : enc16ChunkOk .prophoto 73 = true := by decide +kernel
theorem encprophoto_k74 : enc16ChunkOk .prophoto 74 = true := by decide +kernel
theorem encprophoto_k75 : enc16ChunkOk .prophoto 75 = true := by decide +kernel
theorem encprophoto_k76 : enc16ChunkOk .prophoto 76 = true := by decide +kernel
theorem encprophoto_k77 : enc16ChunkOk .prophoto 77 = true := by decide +kernel
theorem encprophoto_k78 : enc16ChunkOk .prophoto 78 = true := by decide +kernel
theorem encprophoto_k79 : enc16ChunkOk .prophoto 79 = true := by decide +kernel

theorem encprophoto_file4 : ∀ k, 64 ≤ k → k < 80 → enc16ChunkOk .prophoto k = true := by
  intro k h1 h2
  have h : k = 64 ∨ k = 65 ∨ k = 66 ∨ k = 67 ∨ k = 68 ∨ k = 69 ∨ k = 70 ∨ k = 71 ∨ k = 72 ∨ k = 73 ∨ k = 74 ∨ k = 75 ∨ k = 76 ∨ k = 77 ∨ k = 78 ∨ k = 79 := by omega
  rcases h with rfl | rfl | rfl | rfl | rfl | rfl | rfl | rfl | rfl | rfl | rfl | rfl | rfl | rfl | rfl | rfl
  · exact encprophoto_k64
  · exact encprophoto_k65
  · exact encprophoto_k66
  · exact encprophoto_k67
  · exact encprophoto_k68
  · exact encprophoto_k69
  · exact encprophoto_k70
  · exact encprophoto_k71
  · exact encprophoto_k72
  · exact encprophoto_k73
  · exact encprophoto_k74
  · exact encprophoto_k75
  · exact encprophoto_k76
  · exact encprophoto_k77
  · exact encprophoto_k78
  · exact encprophoto_k79

end Prism.C02
