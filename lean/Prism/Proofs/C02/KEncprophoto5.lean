import Prism.Check.C02

/-! Kernel-checked chunks (generated boiler-plate, see lib/gen_static.py). -/
namespace Prism.C02

theorem encprophoto_k80 : enc16ChunkOk .prophoto 80 = true := by decide +kernel
theorem encprophoto_k81 : enc16ChunkOk .prophoto 81 = true := by decide +kernel
theorem encprophoto_k82 : enc16ChunkOk .prophoto 82 = true := by decide +kernel
theorem encprophoto_k83 : enc16ChunkOk .prophoto 83 = true := by decide +kernel
theorem encprophoto_k84 : enc16ChunkOk .prophoto 84 = true := by decide +kernel
theorem encprophoto_k85 : enc16ChunkOk .prophoto 85 = true := by decide +kernel
theorem encprophoto_k86 : enc16ChunkOk .prophoto 86 = true := by decide +kernel
theorem encprophoto_k87 : enc16ChunkOk .prophoto 87 = true := by decide +kernel
theorem encprophoto_k88 : enc16ChunkOk .prophoto 88 = true := by decide +kernel
theorem encprophoto_k89 : enc16ChunkOk .prophoto 89 = true := by decide +kernel
theorem encprophoto_k90 : enc16ChunkOk .prophoto 90 = true := by decide +kernel
theorem encprophoto_k91 : enc16ChunkOk .prophoto 91 = true := by decide +kernel
theorem encprophoto_k92 : enc16ChunkOk .prophoto 92 = true := by decide +kernel
theorem encprophoto_k93 : enc16ChunkOk .prophoto 93 = true := by decide +kernel
theorem encprophoto_k94 : enc16ChunkOk .prophoto 94 = true := by decide +kernel
theorem encprophoto_k95 : enc16ChunkOk .prophoto 95 = true := by decide +kernel

theorem encprophoto_file5 : ∀ k, 80 ≤ k → k < 96 → enc16ChunkOk .prophoto k = true := by
  intro k h1 h2
  have h : k = 80 ∨ k = 81 ∨ k = 82 ∨ k = 83 ∨ k = 84 ∨ k = 85 ∨ k = 86 ∨ k = 87 ∨ k = 88 ∨ k = 89 ∨ k = 90 ∨ k = 91 ∨ k = 92 ∨ k = 93 ∨ k = 94 ∨ k = 95 := by omega
  rcases h with rfl | rfl | rfl | rfl | rfl | rfl | rfl | rfl | rfl | rfl | rfl | rfl | rfl | rfl | rfl | rfl
  · exact encprophoto_k80
  · exact encprophoto_k81
  · exact encprophoto_k82
  · exact encprophoto_k83
  · exact encprophoto_k84
  · exact encprophoto_k85
  · exact encprophoto_k86
  · exact encprophoto_k87
  · exact encprophoto_k88
  · exact encprophoto_k89
  · exact encprophoto_k90
  · exact encprophoto_k91
  · exact encprophoto_k92
  · exact encprophoto_k93
  · exact encprophoto_k94
  · exact encprophoto_k95

end Prism.C02
