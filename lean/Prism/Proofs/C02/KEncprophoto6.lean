import Prism.Check.C02

/-! Kernel-checked chunks (generated boiler-plate, see lib/gen_static.py). -/
namespace Prism.C02

theorem encprophoto_k96 : enc16ChunkOk .prophoto 96 = true := by decide +kernel
theorem encprophoto_k97 : enc16ChunkOk .prophoto 97 = true := by decide +kernel
theorem encprophoto_k98 : enc16ChunkOk .prophoto 98 = true := by decide +kernel
theorem encprophoto_k99 : enc16ChunkOk .prophoto 99 = true := by decide +kernel
theorem encprophoto_k100 : enc16ChunkOk .prophoto 100 = true := by decide +kernel
theorem encprophoto_k101 : enc16ChunkOk .prophoto 101 = true := by decide +kernel
theorem encprophoto_k102 : enc16ChunkOk .prophoto 102 = true := by decide +kernel
theorem encprophoto_k103 : enc16ChunkOk .prophoto 103 = true := by decide +kernel
theorem encprophoto_k104 : enc16ChunkOk .prophoto 104 = true := by decide +kernel
theorem encprophoto_k105 : enc16ChunkOk .prophoto 105 = true := by decide +kernel
theorem encprophoto_k106 : enc16ChunkOk .prophoto 106 = true := by decide +kernel
theorem encprophoto_k107 : enc16ChunkOk .prophoto 107 = true := by decide +kernel
theorem encprophoto_k108 : enc16ChunkOk .prophoto 108 = true := by decide +kernel
theorem encprophoto_k109 : enc16ChunkOk .prophoto 109 = true := by decide +kernel
theorem encprophoto_k110 : enc16ChunkOk .prophoto 110 = true := by decide +kernel
theorem encprophoto_k111 : enc16ChunkOk .prophoto 111 = true := by decide +kernel

theorem encprophoto_file6 : ∀ k, 96 ≤ k → k < 112 → enc16ChunkOk .prophoto k = true := by
  intro k h1 h2
  have h : k = 96 ∨ k = 97 ∨ k = 98 ∨ k = 99 ∨ k = 100 ∨ k = 101 ∨ k = 102 ∨ k = 103 ∨ k = 104 ∨ k = 105 ∨ k = 106 ∨ k = 107 ∨ k = 108 ∨ k = 109 ∨ k = 110 ∨ k = 111 := by omega
  rcases h with rfl | rfl | rfl | rfl | rfl | rfl | rfl | rfl | rfl | rfl | rfl | rfl | rfl | rfl | rfl | rfl
  · exact encprophoto_k96
  · exact encprophoto_k97
  · exact encprophoto_k98
  · exact encprophoto_k99
  · exact encprophoto_k100
  · exact encprophoto_k101
  · exact encprophoto_k102
  · exact encprophoto_k103
  · exact encprophoto_k104
  · exact encprophoto_k105
  · exact encprophoto_k106
  · exact encprophoto_k107
  · exact encprophoto_k108
  · exact encprophoto_k109
  · exact encprophoto_k110
  · exact encprophoto_k111

end Prism.C02
