import Prism.Check.C02

/-! Kernel-checked chunks (generated boiler-plate, see lib/gen_static.py). -/
namespace Prism.C02

theorem encprophoto_k112 : enc16ChunkOk .prophoto 112 = true := by decide +kernel
theorem encprophoto_k113 : enc16ChunkOk .prophoto 113 = true := by decide +kernel
theorem encprophoto_k114 : enc16ChunkOk .prophoto 114 = true := by decide +kernel
theorem encprophoto_k115 : enc16ChunkOk .prophoto 115 = true := by decide +kernel
theorem encprophoto_k116 : enc16ChunkOk .prophoto 116 = true := by decide +kernel
theorem encprophoto_k117 : enc16ChunkOk .prophoto 117 = true := by decide +kernel
theorem encprophoto_k118 : enc16ChunkOk .prophoto 118 = true := by decide +kernel
theorem encprophoto_k119 : enc16ChunkOk .prophoto 119 = true := by decide +kernel
theorem encprophoto_k120 : enc16ChunkOk .prophoto 120 = true := by decide +kernel
theorem encprophoto_k121 : enc16ChunkOk .prophoto 121 = true := by decide +kernel
theorem encprophoto_k122 : enc16ChunkOk .prophoto 122 = true := by decide +kernel
theorem encprophoto_k123 : enc16ChunkOk .prophoto 123 = true := by decide +kernel
theorem encprophoto_k124 : enc16ChunkOk .prophoto 124 = true := by decide +kernel
theorem encprophoto_k125 : enc16ChunkOk .prophoto 125 = true := by decide +kernel
theorem encprophoto_k126 : enc16ChunkOk .prophoto 126 = true := by decide +kernel
theorem encprophoto_k127 : enc16ChunkOk .prophoto 127 = true := by decide +kernel

theorem encprophoto_file7 : ∀ k, 112 ≤ k → k < 128 → enc16ChunkOk .prophoto k = true := by
  intro k h1 h2
  have h : k = 112 ∨ k = 113 ∨ k = 114 ∨ k = 115 ∨ k = 116 ∨ k = 117 ∨ k = 118 ∨ k = 119 ∨ k = 120 ∨ k = 121 ∨ k = 122 ∨ k = 123 ∨ k = 124 ∨ k = 125 ∨ k = 126 ∨ k = 127 := by omega
  rcases h with rfl | rfl | rfl | rfl | rfl | rfl | rfl | rfl | rfl | rfl | rfl | rfl | rfl | rfl | rfl | rfl
  · exact encprophoto_k112
  · exact encprophoto_k113
  · exact encprophoto_k114
  · exact encprophoto_k115
  · exact encprophoto_k116
  · exact encprophoto_k117
  · exact encprophoto_k118
  · exact encprophoto_k119
  · exact encprophoto_k120
  · exact encprophoto_k121
  · exact encprophoto_k122
  · exact encprophoto_k123
  · exact encprophoto_k124
  · exact encprophoto_k125
  · exact encprophoto_k126
  · exact encprophoto_k127

end Prism.C02
