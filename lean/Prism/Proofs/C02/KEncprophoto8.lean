import Prism.Check.C02

/-! Kernel-checked chunks (generated boiler-plate, see lib/gen_static.py). -/
namespace Prism.C02

theorem encprophoto_k128 : enc16ChunkOk .prophoto 128 = true := by decide +kernel
theorem encprophoto_k129 : enc16ChunkOk .prophoto 129 = true := by decide +kernel
theorem encprophoto_k130 : enc16ChunkOk .prophoto 130 = true := by decide +kernel
theorem encprophoto_k131 : enc16ChunkOk .prophoto 131 = true := by decide +kernel
theorem encprophoto_k132 : enc16ChunkOk .prophoto 132 = true := by decide +kernel
theorem encprophoto_k133 : enc16ChunkOk .prophoto 133 = true := by decide +kernel
theorem encprophoto_k134 : enc16ChunkOk .prophoto 134 = true := by decide +kernel
theorem encprophoto_k135 : enc16ChunkOk .prophoto 135 = true := by decide +kernel
theorem encprophoto_k136 : enc16ChunkOk .prophoto 136 = true := by decide +kernel
theorem encprophoto_k137 : enc16ChunkOk .prophoto 137 = true := by decide +kernel
theorem encprophoto_k138 : enc16ChunkOk .prophoto 138 = true := by decide +kernel
theorem encprophoto_k139 : enc16ChunkOk .prophoto 139 = true := by decide +kernel
theorem encprophoto_k140 : enc16ChunkOk .prophoto 140 = true := by decide +kernel
theorem encprophoto_k141 : enc16ChunkOk .prophoto 141 = true := by decide +kernel
theorem encprophoto_k142 : enc16ChunkOk .prophoto 142 = true := by decide +kernel
theorem encprophoto_k143 : enc16ChunkOk .prophoto 143 = true := by decide +kernel

theorem encprophoto_file8 : ∀ k, 128 ≤ k → k < 144 → enc16ChunkOk .prophoto k = true := by
  intro k h1 h2
  have h : k = 128 ∨ k = 129 ∨ k = 130 ∨ k = 131 ∨ k = 132 ∨ k = 133 ∨ k = 134 ∨ k = 135 ∨ k = 136 ∨ k = 137 ∨ k = 138 ∨ k = 139 ∨ k = 140 ∨ k = 141 ∨ k = 142 ∨ k = 143 := by omega
  rcases h with rfl | rfl | rfl | rfl | rfl | rfl | rfl | rfl | rfl | rfl | rfl | rfl | rfl | rfl | rfl | rfl
  · exact encprophoto_k128
  · exact encprophoto_k129
  · exact encprophoto_k130
  · exact encprophoto_k131
  · exact encprophoto_k132
  · exact encprophoto_k133
  · exact encprophoto_k134
  · exact encprophoto_k135
  · exact encprophoto_k136
  · exact encprophoto_k137
  · exact encprophoto_k138
  · exact encprophoto_k139
  · exact encprophoto_k140
  · exact encprophoto_k141
  · exact encprophoto_k142
  · exact encprophoto_k143

end Prism.C02
