import Prism.Check.C02

/-! Kernel-checked chunks (generated boiler-plate, see lib/gen_static.py). -/
namespace Prism.C02

theorem encprophoto_k144 : enc16ChunkOk .prophoto 144 = true := by decide +kernel
theorem encprophoto_k145 : enc16ChunkOk .prophoto 145 = true := by decide +kernel
theorem encprophoto_k146 : enc16ChunkOk .prophoto 146 = true := by decide +kernel
theorem encprophoto_k147 : enc16ChunkOk .prophoto 147 = true := by decide +kernel
theorem encprophoto_k148 : enc16ChunkOk .prophoto 148 = true := by decide +kernel
theorem encprophoto_k149 : enc16ChunkOk .prophoto 149 = true := by decide +kernel
theorem encprophoto_k150 : enc16ChunkOk .prophoto 150 = true := by decide +kernel
theorem encprophoto_k151 : enc16ChunkOk .prophoto 151 = true := by decide +kernel
theorem encprophoto_k152 : enc16ChunkOk .prophoto 152 = true := by decide +kernel
theorem encprophoto_k153 : enc16ChunkOk .prophoto 153 = true := by decide +kernel
theorem encprophoto_k154 : enc16ChunkOk .prophoto 154 = true := by decide +kernel
theorem encprophoto_k155 : enc16ChunkOk .prophoto 155 = true := by decide +kernel
theorem encprophoto_k156 : enc16ChunkOk .prophoto 156 = true := by decide +kernel
theorem encprophoto_k157 : enc16ChunkOk .prophoto 157 = true := by decide +kernel
theorem encprophoto_k158 : enc16ChunkOk .prophoto 158 = true := by decide +kernel
theorem encprophoto_k159 : enc16ChunkOk .prophoto 159 = true := by decide +kernel

theorem encprophoto_file9 : ∀ k, 144 ≤ k → k < 160 → enc16ChunkOk .prophoto k = true := by
  intro k h1 h2
  have h : k = 144 ∨ k = 145 ∨ k = 146 ∨ k = 147 ∨ k = 148 ∨ k = 149 ∨ k = 150 ∨ k = 151 ∨ k = 152 ∨ k = 153 ∨ k = 154 ∨ k = 155 ∨ k = 156 ∨ k = 157 ∨ k = 158 ∨ k = 159 := by omega
  rcases h with rfl | rfl | rfl | rfl | rfl | rfl | rfl | rfl | rfl | rfl | rfl | rfl | rfl | rfl | rfl | rfl
  · exact encprophoto_k144
  · exact encprophoto_k145
  · exact encprophoto_k146
  · exact encprophoto_k147
  · exact encprophoto_k148
  · exact encprophoto_k149
  · exact encprophoto_k150
  · exact encprophoto_k151
  · exact encprophoto_k152
  · exact encprophoto_k153
  · exact encprophoto_k154
  · exact encprophoto_k155
  · exact encprophoto_k156
  · exact encprophoto_k157
  · exact encprophoto_k158
  · exact encprophoto_k159

end Prism.C02
