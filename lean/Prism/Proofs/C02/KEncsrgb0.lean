import Prism.Check.C02

/-! Kernel-checked chunks (generated boiler-plate, see lib/gen_static.py). -/
namespace Prism.C02

theorem encsrgb_k0 : enc16ChunkOk .srgb 0 = true := by decide +kernel
theorem encsrgb_k1 : enc16ChunkOk .srgb 1 = true := by decide +kernel
theorem encsrgb_k2 : enc16ChunkOk .srgb 2 = true := by decide +kernel
theorem encsrgb_k3 : enc16ChunkOk .srgb 3 = true := by decide +kernel
theorem encsrgb_k4 : enc16ChunkOk .srgb 4 = true := by decide +kernel
theorem encsrgb_k5 : enc16ChunkOk .srgb 5 = true := by decide +kernel
theorem encsrgb_k6 : enc16ChunkOk .srgb 6 = true := by decide +kernel
theorem encsrgb_k7 : enc16ChunkOk .srgb 7 = true := by decide +kernel
theorem encsrgb_k8 : enc16ChunkOk .srgb 8 = true := by decide +kernel
theorem encsrgb_k9 : enc16ChunkOk .srgb 9 = true := by decide +kernel
theorem encsrgb_k10 : enc16ChunkOk .srgb 10 = true := by decide +kernel
theorem encsrgb_k11 : enc16ChunkOk .srgb 11 = true := by decide +kernel
theorem encsrgb_k12 : enc16ChunkOk .srgb 12 = true := by decide +kernel
theorem encsrgb_k13 : enc16ChunkOk .srgb 13 = true := by decide +kernel
theorem encsrgb_k14 : enc16ChunkOk .srgb 14 = true := by decide +kernel
theorem encsrgb_k15 : enc16ChunkOk .srgb 15 = true := by decide +kernel

theorem encsrgb_file0 : ∀ k, 0 ≤ k → k < 16 → enc16ChunkOk .srgb k = true := by
  intro k h1 h2
  have h : k = 0 ∨ k = 1 ∨ k = 2 ∨ k = 3 ∨ k = 4 ∨ k = 5 ∨ k = 6 ∨ k = 7 ∨ k = 8 ∨ k = 9 ∨ k = 10 ∨ k = 11 ∨ k = 12 ∨ k = 13 ∨ k = 14 ∨ k = 15 := by omega
  rcases h with rfl | rfl | rfl | rfl | rfl | rfl | rfl | rfl | rfl | rfl | rfl | rfl | rfl | rfl | rfl | rfl
  · exact encsrgb_k0
  · exact encsrgb_k1
  · exact encsrgb_k2
  · exact encsrgb_k3
  · exact encsrgb_k4
  · exact encsrgb_k5
  · exact encsrgb_k6
  · exact encsrgb_k7
  · exact encsrgb_k8
  · exact encsrgb_k9
  · exact encsrgb_k10
  · exact encsrgb_k11
  · exact encsrgb_k12
  · exact encsrgb_k13
  · exact encsrgb_k14
  · exact encsrgb_k15

end Prism.C02
