import Prism.Check.C02

/-! Kernel-checked chunks (generated boiler-plate, see lib/gen_static.py). -/
namespace Prism.C02

theorem encsrgb_k16 : enc16ChunkOk .srgb 16 = true := by decide +kernel
theorem encsrgb_k17 : enc16ChunkOk .srgb 17 = true := by decide +kernel
theorem encsrgb_k18 : enc16ChunkOk .srgb 18 = true := by decide +kernel
theorem encsrgb_k19 : enc16ChunkOk .srgb 19 = true := by decide +kernel
theorem encsrgb_k20 : enc16ChunkOk .srgb 20 = true := by decide +kernel
theorem encsrgb_k21 : enc16ChunkOk .srgb 21 = true := by decide +kernel
theorem encsrgb_k22 : enc16ChunkOk .srgb 22 = true := by decide +kernel
theorem encsrgb_k23 : enc16ChunkOk .srgb 23 = true := by decide +kernel
theorem encsrgb_k24 : enc16ChunkOk .srgb 24 = true := by decide +kernel
theorem encsrgb_k25 : enc16ChunkOk .srgb 25 = true := by decide +kernel
theorem encsrgb_k26 : enc16ChunkOk .srgb 26 = true := by decide +kernel
theorem encsrgb_k27 : enc16ChunkOk .srgb 27 = true := by decide +kernel
theorem encsrgb_k28 : enc16ChunkOk .srgb 28 = true := by decide +kernel
theorem encsrgb_k29 : enc16ChunkOk .srgb 29 = true := by decide +kernel
theorem encsrgb_k30 : enc16ChunkOk .srgb 30 = true := by decide +kernel
theorem encsrgb_k31 : enc16ChunkOk .srgb 31 = true := by decide +kernel

theorem encsrgb_file1 : ∀ k, 16 ≤ k → k < 32 → enc16ChunkOk .srgb k = true := by
  intro k h1 h2
  have h : k = 16 ∨ k = 17 ∨ k = 18 ∨ k = 19 ∨ k = 20 ∨ k = 21 ∨ k = 22 ∨ k = 23 ∨ k = 24 ∨ k = 25 ∨ k = 26 ∨ k = 27 ∨ k = 28 ∨ k = 29 ∨ k = 30 ∨ k = 31 := by omega
  rcases h with rfl | rfl | rfl | rfl | rfl | rfl | rfl | rfl | rfl | rfl | rfl | rfl | rfl | rfl | rfl | rfl
  · exact encsrgb_k16
  · exact encsrgb_k17
  · exact encsrgb_k18
  · exact encsrgb_k19
  · exact encsrgb_k20
  · exact encsrgb_k21
  · exact encsrgb_k22
  · exact encsrgb_k23
  · exact encsrgb_k24
  · exact encsrgb_k25
  · exact encsrgb_k26
  · exact encsrgb_k27
  · exact encsrgb_k28
  · exact encsrgb_k29
  · exact encsrgb_k30
  · exact encsrgb_k31

end Prism.C02
