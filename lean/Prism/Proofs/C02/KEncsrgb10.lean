import Prism.Check.C02

/-! Kernel-checked chunks (generated boiler-plate, see lib/gen_static.py). -/
namespace Prism.C02

theorem encsrgb_k160 : enc16ChunkOk .srgb 160 = true := by decide +kernel
theorem encsrgb_k161 : enc16ChunkOk .srgb 161 = true := by decide +kernel
theorem encsrgb_k162 : enc16ChunkOk .srgb 162 = true := by decide +kernel
theorem encsrgb_k163 : enc16ChunkOk .srgb 163 = true := by decide +kernel
theorem encsrgb_k164 : enc16ChunkOk .srgb 164 = true := by decide +kernel
theorem encsrgb_k165 : enc16ChunkOk .srgb 165 = true := by decide +kernel
theorem encsrgb_k166 : enc16ChunkOk .srgb 166 = true := by decide +kernel
theorem encsrgb_k167 : enc16ChunkOk .srgb 167 = true := by decide +kernel
theorem encsrgb_k168 : enc16ChunkOk .srgb 168 = true := by decide +kernel
theorem encsrgb_k169 : enc16ChunkOk .srgb 169 = true := by decide +kernel
theorem encsrgb_k170 : enc16ChunkOk .srgb 170 = true := by decide +kernel
theorem encsrgb_k171 : enc16ChunkOk .srgb 171 = true := by decide +kernel
theorem encsrgb_k172 : enc16ChunkOk .srgb 172 = true := by decide +kernel
theorem encsrgb_k173 : enc16ChunkOk .srgb 173 = true := by decide +kernel
theorem encsrgb_k174 : enc16ChunkOk .srgb 174 = true := by decide +kernel
theorem encsrgb_k175 : enc16ChunkOk .srgb 175 = true := by decide +kernel

theorem encsrgb_file10 : ∀ k, 160 ≤ k → k < 176 → enc16ChunkOk .srgb k = true := by
  intro k h1 h2
  have h : k = 160 ∨ k = 161 ∨ k = 162 ∨ k = 163 ∨ k = 164 ∨ k = 165 ∨ k = 166 ∨ k = 167 ∨ k = 168 ∨ k = 169 ∨ k = 170 ∨ k = 171 ∨ k = 172 ∨ k = 173 ∨ k = 174 ∨ k = 175 := by omega
  rcases h with rfl | rfl | rfl | rfl | rfl | rfl | rfl | rfl | rfl | rfl | rfl | rfl | rfl | rfl | rfl | rfl
  · exact encsrgb_k160
  · exact encsrgb_k161
  · exact encsrgb_k162
  · exact encsrgb_k163
  · exact encsrgb_k164
  · exact encsrgb_k165
  · exact encsrgb_k166
  · exact encsrgb_k167
  · exact encsrgb_k168
  · exact encsrgb_k169
  · exact encsrgb_k170
  · exact encsrgb_k171
  · exact encsrgb_k172
  · exact encsrgb_k173
  · exact encsrgb_k174
  · exact encsrgb_k175

end Prism.C02
