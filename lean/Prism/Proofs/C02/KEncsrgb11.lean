import Prism.Check.C02

/-! Kernel-checked chunks (generated boiler-plate, see lib/gen_static.py). -/
namespace Prism.C02

theorem encsrgb_k176 : enc16ChunkOk .srgb 176 = true := by decide +kernel
theorem encsrgb_k177 : enc16ChunkOk .srgb 177 = true := by decide +kernel
theorem encsrgb_k178 : enc16ChunkOk .srgb 178 = true := by decide +kernel
theorem encsrgb_k179 : enc16ChunkOk .srgb 179 = true := by decide +kernel
theorem encsrgb_k180 : enc16ChunkOk .srgb 180 = true := by decide +kernel
theorem encsrgb_k181 : enc16ChunkOk .srgb 181 = true := by decide +kernel
theorem encsrgb_k182 : enc16ChunkOk .srgb 182 = true := by decide +kernel
theorem encsrgb_k183 : enc16ChunkOk .srgb 183 = true := by decide +kernel
theorem encsrgb_k184 : enc16ChunkOk .srgb 184 = true := by decide +kernel
theorem encsrgb_k185 : enc16ChunkOk .srgb 185 = true := by decide +kernel
theorem encsrgb_k186 : enc16ChunkOk .srgb 186 = true := by decide +kernel
theorem encsrgb_k187 : enc16ChunkOk .srgb 187 = true := by decide +kernel
theorem encsrgb_k188 : enc16ChunkOk .srgb 188 = true := by decide +kernel
theorem encsrgb_k189 : enc16ChunkOk .srgb 189 = true := by decide +kernel
theorem encsrgb_k190 : enc16ChunkOk .srgb 190 = true := by decide +kernel
theorem encsrgb_k191 : enc16ChunkOk .srgb 191 = true := by decide +kernel

theorem encsrgb_file11 : ∀ k, 176 ≤ k → k < 192 → enc16ChunkOk .srgb k = true := by
  intro k h1 h2
  have h : k = 176 ∨ k = 177 ∨ k = 178 ∨ k = 179 ∨ k = 180 ∨ k = 181 ∨ k = 182 ∨ k = 183 ∨ k = 184 ∨ k = 185 ∨ k = 186 ∨ k = 187 ∨ k = 188 ∨ k = 189 ∨ k = 190 ∨ k = 191 := by omega
  rcases h with rfl | rfl | rfl | rfl | rfl | rfl | rfl | rfl | rfl | rfl | rfl | rfl | rfl | rfl | rfl | rfl
  · exact encsrgb_k176
  · exact encsrgb_k177
  · exact encsrgb_k178
  · exact encsrgb_k179
  · exact encsrgb_k180
  · exact encsrgb_k181
  · exact encsrgb_k182
  · exact encsrgb_k183
  · exact encsrgb_k184
  · exact encsrgb_k185
  · exact encsrgb_k186
  · exact encsrgb_k187
  · exact encsrgb_k188
  · exact encsrgb_k189
  · exact encsrgb_k190
  · exact encsrgb_k191

end Prism.C02
