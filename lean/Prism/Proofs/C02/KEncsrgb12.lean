import Prism.Check.C02

/-! Kernel-checked chunks (generated boiler-plate, see lib/gen_static.py). -/
namespace Prism.C02

theorem encsrgb_k192 : enc16ChunkOk .srgb 192 = true := by decide +kernel
theorem encsrgb_k193 : enc16ChunkOk .srgb 193 = true := by decide +kernel
theorem encsrgb_k194 : enc16ChunkOk .srgb 194 = true := by decide +kernel
theorem encsrgb_k195 : enc16ChunkOk .srgb 195 = true := by decide +kernel
theorem encsrgb_k196 : enc16ChunkOk .srgb 196 = true := by decide +kernel
theorem encsrgb_k197 : enc16ChunkOk .srgb 197 = true := by decide +kernel
theorem encsrgb_k198 : enc16ChunkOk .srgb 198 = true := by decide +kernel
theorem encsrgb_k199 : enc16ChunkOk .srgb 199 = true := by decide +kernel
theorem encsrgb_k200 : enc16ChunkOk .srgb 200 = true := by decide +kernel
theorem encsrgb_k201 : enc16ChunkOk .srgb 201 = true := by decide +kernel
theorem encsrgb_k202 : enc16ChunkOk .srgb 202 = true := by decide +kernel
theorem encsrgb_k203 : enc16ChunkOk .srgb 203 = true := by decide +kernel
theorem encsrgb_k204 : enc16ChunkOk .srgb 204 = true := by decide +kernel
theorem encsrgb_k205 : enc16ChunkOk .srgb 205 = true := by decide +kernel
theorem encsrgb_k206 : enc16ChunkOk .srgb 206 = true := by decide +kernel
theorem encsrgb_k207 : enc16ChunkOk .srgb 207 = true := by decide +kernel

theorem encsrgb_file12 : ∀ k, 192 ≤ k → k < 208 → enc16ChunkOk .srgb k = true := by
  intro k h1 h2
  have h : k = 192 ∨ k = 193 ∨ k = 194 ∨ k = 195 ∨ k = 196 ∨ k = 197 ∨ k = 198 ∨ k = 199 ∨ k = 200 ∨ k = 201 ∨ k = 202 ∨ k = 203 ∨ k = 204 ∨ k = 205 ∨ k = 206 ∨ k = 207 := by omega
  rcases h with rfl | rfl | rfl | rfl | rfl | rfl | rfl | rfl | rfl | rfl | rfl | rfl | rfl | rfl | rfl | rfl
  · exact encsrgb_k192
  · exact encsrgb_k193
  · exact encsrgb_k194
  · exact encsrgb_k195
  · exact encsrgb_k196
  · exact encsrgb_k197
  · exact encsrgb_k198
  · exact encsrgb_k199
  · exact encsrgb_k200
  · exact encsrgb_k201
  · exact encsrgb_k202
  · exact encsrgb_k203
  · exact encsrgb_k204
  · exact encsrgb_k205
  · exact encsrgb_k206
  · exact encsrgb_k207

end Prism.C02
