import Prism.Check.C02

/-! Kernel-checked chunks (generated boiler-plate, see lib/gen_static.py). -/
namespace Prism.C02

theorem encsrgb_k208 : enc16ChunkOk .srgb 208 = true := by decide +kernel
theorem encsrgb_k209 : enc16ChunkOk .srgb 209 = true := by decide +kernel
theorem encsrgb_k210 : enc16ChunkOk .srgb 210 = true := by decide +kernel
theorem encsrgb_k211 : enc16ChunkOk .srgb 211 = true := by decide +kernel
theorem encsrgb_k212 : enc16ChunkOk .srgb 212 = true := by decide +kernel
theorem encsrgb_k213 : enc16ChunkOk .srgb 213 = true := by decide +kernel
theorem encsrgb_k214 : enc16ChunkOk .srgb 214 = true := by decide +kernel
theorem encsrgb_k215 : enc16ChunkOk .srgb 215 = true := by decide +kernel
theorem encsrgb_k216 : enc16ChunkOk .srgb 216 = true := by decide +kernel
theorem encsrgb_k217 : enc16ChunkOk .srgb 217 = true := by decide +kernel
theorem encsrgb_k218 : enc16ChunkOk .srgb 218 = true := by decide +kernel
theorem encsrgb_k219 : enc16ChunkOk .srgb 219 = true := by decide +kernel
theorem encsrgb_k220 : enc16ChunkOk .srgb 220 = true := by decide +kernel
theorem encsrgb_k221 : enc16ChunkOk .srgb 221 = true := by decide +kernel
theorem encsrgb_k222 : enc16ChunkOk .srgb 222 = true := by decide +kernel
theorem encsrgb_k223 : enc16ChunkOk .srgb 223 = true := by decide +kernel

theorem encsrgb_file13 : ∀ k, 208 ≤ k → k < 224 → enc16ChunkOk .srgb k = true := by
  intro k h1 h2
  have h : k = 208 ∨ k = 209 ∨ k = 210 ∨ k = 211 ∨ k = 212 ∨ k = 213 ∨ k = 214 ∨ k = 215 ∨ k = 216 ∨ k = 217 ∨ k = 218 ∨ k = 219 ∨ k = 220 ∨ k = 221 ∨ k = 222 ∨ k = 223 := by omega
  rcases h with rfl | rfl | rfl | rfl | rfl | rfl | rfl | rfl | rfl | rfl | rfl | rfl | rfl | rfl | rfl | rfl
  · exact encsrgb_k208
  · exact encsrgb_k209
  · exact encsrgb_k210
  · exact encsrgb_k211
  · exact encsrgb_k212
  · exact encsrgb_k213
  · exact encsrgb_k214
  · exact encsrgb_k215
  · exact encsrgb_k216
  · exact encsrgb_k217
  · exact encsrgb_k218
  · exact encsrgb_k219
  · exact encsrgb_k220
  · exact encsrgb_k221
  · exact encsrgb_k222
  · exact encsrgb_k223

end Prism.C02
