import Prism.Check.C02

/-! Kernel-checked chunks (generated boiler-plate, see lib/gen_static.py). -/
namespace Prism.C02

theorem encsrgb_k224 : enc16ChunkOk .srgb 224 = true := by decide +kernel
theorem encsrgb_k225 : enc16ChunkOk .srgb 225 = true := by decide +kernel
theorem encsrgb_k226 : enc16ChunkOk .srgb 226 = true := by decide +kernel
theorem encsrgb_k227 : enc16ChunkOk .srgb 227 = true := by decide +kernel
theorem encsrgb_k228 : enc16ChunkOk .srgb 228 = true := by decide +kernel
theorem encsrgb_k229 : enc16ChunkOk .srgb 229 = true := by decide +kernel
theorem encsrgb_k230 : enc16ChunkOk .srgb 230 = true := by decide +kernel
theorem encsrgb_k231 : enc16ChunkOk .srgb 231 = true := by decide +kernel
theorem encsrgb_k232 : enc16ChunkOk .srgb 232 = true := by decide +kernel
theorem encsrgb_k233 : enc16ChunkOk .srgb 233 = true := by decide +kernel
theorem encsrgb_k234 : enc16ChunkOk .srgb 234 = true := by decide +kernel
theorem encsrgb_k235 : enc16ChunkOk .srgb 235 = true := by decide +kernel
theorem encsrgb_k236 : enc16ChunkOk .srgb 236 = true := by decide +kernel
theorem encsrgb_k237 : enc16ChunkOk .srgb 237 = true := by decide +kernel
theorem encsrgb_k238 : enc16ChunkOk .srgb 238 = true := by decide +kernel
theorem encsrgb_k239 : enc16ChunkOk .srgb 239 = true := by decide +kernel

theorem encsrgb_file14 : ∀ k, 224 ≤ k → k < 240 → enc16ChunkOk .srgb k = true := by
  intro k h1 h2
  have h : k = 224 ∨ k = 225 ∨ k = 226 ∨ k = 227 ∨ k = 228 ∨ k = 229 ∨ k = 230 ∨ k = 231 ∨ k = 232 ∨ k = 233 ∨ k = 234 ∨ k = 235 ∨ k = 236 ∨ k = 237 ∨ k = 238 ∨ k = 239 := by omega
  rcases h with rfl | rfl | rfl | rfl | rfl | rfl | rfl | rfl | rfl | rfl | rfl | rfl | rfl | rfl | rfl | rfl
  · exact encsrgb_k224
  · exact encsrgb_k225
  · exact encsrgb_k226
  · exact encsrgb_k227
  · exact encsrgb_k228
  · exact encsrgb_k229
  · exact encsrgb_k230
  · exact encsrgb_k231
  · exact encsrgb_k232
  · exact encsrgb_k233
  · exact encsrgb_k234
  · exact encsrgb_k235
  · exact encsrgb_k236
  · exact encsrgb_k237
  · exact encsrgb_k238
  · exact encsrgb_k239

end Prism.C02
