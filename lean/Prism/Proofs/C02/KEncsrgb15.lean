import Prism.Check.C02

/-! Kernel-checked chunks (generated boiler-plate, see lib/gen_static.py). -/
namespace Prism.C02

theorem encsrgb_k240 : enc16ChunkOk .srgb 240 = true := by decide +kernel
theorem encsrgb_k241 : enc16ChunkOk .srgb 241 = true := by decide +kernel
theorem encsrgb_k242 : enc16ChunkOk .srgb 242 = true := by decide +kernel
theorem encsrgb_k243 : enc16ChunkOk .srgb 243 = true := by decide +kernel
theorem encsrgb_k244 : enc16ChunkOk .srgb 244 = true := by decide +kernel
theorem encsrgb_k245 : enc16ChunkOk .srgb 245 = true := by decide +kernel
theorem encsrgb_k246 : enc16ChunkOk .srgb 246 = true := by decide +kernel
theorem encsrgb_k247 : enc16ChunkOk .srgb 247 = true := by decide +kernel
theorem encsrgb_k248 : enc16ChunkOk .srgb 248 = true := by decide +kernel
theorem encsrgb_k249 : enc16ChunkOk .srgb 249 = true := by decide +kernel
theorem encsrgb_k250 : enc16ChunkOk .srgb 250 = true := by decide +kernel
theorem encsrgb_k251 : enc16ChunkOk .srgb 251 = true := by decide +kernel
theorem encsrgb_k252 : enc16ChunkOk .srgb 252 = true := by decide +kernel
theorem encsrgb_k253 : enc16ChunkOk .srgb 253 = true := by decide +kernel
theorem encsrgb_k254 : enc16ChunkOk .srgb 254 = true := by decide +kernel
theorem encsrgb_k255 : enc16ChunkOk .srgb 255 = true := by decide +kernel

theorem encsrgb_file15 : ∀ k, 240 ≤ k → k < 256 → enc16ChunkOk .srgb k = true := by
  intro k h1 h2
  have h : k = 240 ∨ k = 241 ∨ k = 242 ∨ k = 243 ∨ k = 244 ∨ k = 245 ∨ k = 246 ∨ k = 247 ∨ k = 248 ∨ k = 249 ∨ k = 250 ∨ k = 251 ∨ k = 252 ∨ k = 253 ∨ k = 254 ∨ k = 255 := by omega
  rcases h with rfl | rfl | rfl | rfl | rfl | rfl | rfl | rfl | rfl | rfl | rfl | rfl | rfl | rfl | rfl | rfl
  · exact encsrgb_k240
  · exact encsrgb_k241
  · exact encsrgb_k242
  · exact encsrgb_k243
  · exact encsrgb_k244
  · exact encsrgb_k245
  · exact encsrgb_k246
  · exact encsrgb_k247
  · exact encsrgb_k248
  · exact encsrgb_k249
  · exact encsrgb_k250
  · exact encsrgb_k251
  · exact encsrgb_k252
  · exact encsrgb_k253
  · exact encsrgb_k254
  · exact encsrgb_k255

end Prism.C02
