import Prism.Check.C02

/-! Kernel-checked chunks (generated boiler-plate, see lib/gen_static.py). -/
namespace Prism.C02

theorem encsrgb_k32 : enc16ChunkOk .srgb 32 = true := by decide +kernel
theorem encsrgb_k33 : enc16ChunkOk .srgb 33 = true := by decide +kernel
theorem encsrgb_k34 : enc16ChunkOk .srgb 34 = true := by decide +kernel
theorem encsrgb_k35 : enc16ChunkOk .srgb 35 = true := by decide +kernel
theorem encsrgb_k36 : enc16ChunkOk .srgb 36 = true := by decide +kernel
theorem encsrgb_k37 : enc16ChunkOk .srgb 37 = true := by decide +kernel
theorem encsrgb_k38 : enc16ChunkOk .srgb 38 = true := by decide +kernel
theorem encsrgb_k39 : enc16ChunkOk .srgb 39 = true := by decide +kernel
theorem encsrgb_k40 : enc16ChunkOk .srgb 40 = true := by decide +kernel
theorem encsrgb_k41 : enc16ChunkOk .srgb 41 = true := by decide +kernel
theorem encsrgb_k42 : enc16ChunkOk .srgb 42 = true := by decide +kernel
theorem encsrgb_k43 : enc16ChunkOk .srgb 43 = true := by decide +kernel
theorem encsrgb_k44 : enc16ChunkOk .srgb 44 = true := by decide +kernel
theorem encsrgb_k45 : enc16ChunkOk .srgb 45 = true := by decide +kernel
theorem encsrgb_k46 : enc16ChunkOk .srgb 46 = true := by decide +kernel
theorem encsrgb_k47 : enc16ChunkOk .srgb 47 = true := by decide +kernel

theorem encsrgb_file2 : ∀ k, 32 ≤ k → k < 48 → enc16ChunkOk .srgb k = true := by
  intro k h1 h2
  have h : k = 32 ∨ k = 33 ∨ k = 34 ∨ k = 35 ∨ k = 36 ∨ k = 37 ∨ k = 38 ∨ k = 39 ∨ k = 40 ∨ k = 41 ∨ k = 42 ∨ k = 43 ∨ k = 44 ∨ k = 45 ∨ k = 46 ∨ k = 47 := by omega
  rcases h with rfl | rfl | rfl | rfl | rfl | rfl | rfl | rfl | rfl | rfl | rfl | rfl | rfl | rfl | rfl | rfl
  · exact encsrgb_k32
  · exact encsrgb_k33
  · exact encsrgb_k34
  · exact encsrgb_k35
  · exact encsrgb_k36
  · exact encsrgb_k37
  · exact encsrgb_k38
  · exact encsrgb_k39
  · exact encsrgb_k40
  · exact encsrgb_k41
  · exact encsrgb_k42
  · exact encsrgb_k43
  · exact encsrgb_k44
  · exact encsrgb_k45
  · exact encsrgb_k46
  · exact encsrgb_k47

end Prism.C02
