import Prism.Check.C02

/-! Kernel-checked chunks (generated boiler-plate, see lib/gen_static.py). -/
namespace Prism.C02

theorem encsrgb_k48 : enc16ChunkOk .srgb 48 = true := by decide +kernel
theorem encsrgb_k49 : enc16ChunkOk .srgb 49 = true := by decide +kernel
theorem encsrgb_k50 : enc16ChunkOk .srgb 50 = true := by decide +kernel
theorem encsrgb_k51 : enc16ChunkOk .srgb 51 = true := by decide +kernel
theorem encsrgb_k52 : enc16ChunkOk .srgb 52 = true := by decide +kernel
theorem encsrgb_k53 : enc16ChunkOk .srgb 53 = true := by decide +kernel
theorem encsrgb_k54 : enc16ChunkOk .srgb 54 = true := by decide +kernel
theorem encsrgb_k55 : enc16ChunkOk .srgb 55 = true := by decide +kernel
theorem encsrgb_k56 : enc16ChunkOk .srgb 56 = true := by decide +kernel
theorem encsrgb_k57 : enc16ChunkOk .srgb 57 = true := by decide +kernel
theorem encsrgb_k58 : enc16ChunkOk .srgb 58 = true := by decide +kernel
theorem encsrgb_k59 : enc16ChunkOk .srgb 59 = true := by decide +kernel
theorem encsrgb_k60 : enc16ChunkOk .srgb 60 = true := by decide +kernel
theorem encsrgb_k61 : enc16ChunkOk .srgb 61 = true := by decide +kernel
theorem encsrgb_k62 : enc16ChunkOk .srgb 62 = true := by decide +kernel
theorem encsrgb_k63 : enc16ChunkOk .srgb 63 = true := by decide +kernel

theorem encsrgb_file3 : ∀ k, 48 ≤ k → k < 64 → enc16ChunkOk .srgb k = true := by
  intro k h1 h2
  have h : k = 48 ∨ k = 49 ∨ k = 50 ∨ k = 51 ∨ k = 52 ∨ k = 53 ∨ k = 54 ∨ k = 55 ∨ k = 56 ∨ k = 57 ∨ k = 58 ∨ k = 59 ∨ k = 60 ∨ k = 61 ∨ k = 62 ∨ k = 63 := by omega
  rcases h with rfl | rfl | rfl | rfl | rfl | rfl | rfl | rfl | rfl | rfl | rfl | rfl | rfl | rfl | rfl | rfl
  · exact encsrgb_k48
  · exact encsrgb_k49
  · exact encsrgb_k50
  · exact encsrgb_k51
  · exact encsrgb_k52
  · exact encsrgb_k53
  · exact encsrgb_k54
  · exact encsrgb_k55
  · exact encsrgb_k56
  · exact encsrgb_k57
  · exact encsrgb_k58
  · exact encsrgb_k59
  · exact encsrgb_k60
  · exact encsrgb_k61
  · exact encsrgb_k62
  · exact encsrgb_k63

end Prism.C02
