import Prism.Check.C02

/-! Kernel-checked chunks (generated boiler-plate, see lib/gen_static.py). -/
namespace Prism.C02

theorem encsrgb_k64 : enc16ChunkOk .srgb 64 = true := by decide +kernel
theorem encsrgb_k65 : enc16ChunkOk .srgb 65 = true := by decide +kernel
theorem encsrgb_k66 : enc16ChunkOk .srgb 66 = true := by decide +kernel
theorem encsrgb_k67 : enc16ChunkOk .srgb 67 = true := by decide +kernel
theorem encsrgb_k68 : enc16ChunkOk .srgb 68 = true := by decide +kernel
theorem encsrgb_k69 : enc16ChunkOk .srgb 69 = true := by decide +kernel
theorem encsrgb_k70 : enc16ChunkOk .srgb 70 = true := by decide +kernel
theorem encsrgb_k71 : enc16ChunkOk .srgb 71 = true := by decide +kernel
theorem encsrgb_k72 : enc16ChunkOk .srgb 72 = true := by decide +kernel
theorem encsrgb_k73 : enc16ChunkOk .srgb 73 = true := by decide +kernel
theorem encsrgb_k74 : enc16ChunkOk .srgb 74 = true := by decide +kernel
theorem encsrgb_k75 : enc16ChunkOk .srgb 75 = true := by decide +kernel
theorem encsrgb_k76 : enc16ChunkOk .srgb 76 = true := by decide +kernel
theorem encsrgb_k77 : enc16ChunkOk .srgb 77 = true := by decide +kernel
theorem encsrgb_k78 : enc16ChunkOk .srgb 78 = true := by decide +kernel
theorem encsrgb_k79 : enc16ChunkOk .srgb 79 = true := by decide +kernel

theorem encsrgb_file4 : ∀ k, 64 ≤ k → k < 80 → enc16ChunkOk .srgb k = true := by
  intro k h1 h2
  have h : k = 64 ∨ k = 65 ∨ k = 66 ∨ k = 67 ∨ k = 68 ∨ k = 69 ∨ k = 70 ∨ k = 71 ∨ k = 72 ∨ k = 73 ∨ k = 74 ∨ k = 75 ∨ k = 76 ∨ k = 77 ∨ k = 78 ∨ k = 79 := by omega
  rcases h with rfl | rfl | rfl | rfl | rfl | rfl | rfl | rfl | rfl | rfl | rfl | rfl | rfl | rfl | rfl | rfl
  · exact encsrgb_k64
  · exact encsrgb_k65
  · exact encsrgb_k66
  · exact encsrgb_k67
  · exact encsrgb_k68
  · exact encsrgb_k69
  · exact encsrgb_k70
  · exact encsrgb_k71
  · exact encsrgb_k72
  · exact encsrgb_k73
  · exact encsrgb_k74
  · exact encsrgb_k75
  · exact encsrgb_k76
  · exact encsrgb_k77
  · exact encsrgb_k78
  · exact encsrgb_k79

end Prism.C02
