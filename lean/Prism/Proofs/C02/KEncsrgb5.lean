import Prism.Check.C02

/-! Kernel-checked chunks (generated boiler-plate, see lib/gen_static.py). -/
namespace Prism.C02

theorem encsrgb_k80 : enc16ChunkOk .srgb 80 = true := by decide +kernel
theorem encsrgb_k81 : enc16ChunkOk .srgb 81 = true := by decide +kernel
theorem encsrgb_k82 : enc16ChunkOk .srgb 82 = true := by decide +kernel
theorem encsrgb_k83 : enc16ChunkOk .srgb 83 = true := by decide +kernel
theorem encsrgb_k84 : enc16ChunkOk .srgb 84 = true := by decide +kernel
theorem encsrgb_k85 : enc16ChunkOk .srgb 85 = true := by decide +kernel
theorem encsrgb_k86 : enc16ChunkOk .srgb 86 = true := by decide +kernel
theorem encsrgb_k87 : enc16ChunkOk .srgb 87 = true := by decide +kernel
theorem encsrgb_k88 : enc16ChunkOk .srgb 88 = true := by decide +kernel
theorem encsrgb_k89 : enc16ChunkOk .srgb 89 = true := by decide +kernel
theorem encsrgb_k90 : enc16ChunkOk .srgb 90 = true := by decide +kernel
theorem encsrgb_k91 : enc16ChunkOk .srgb 91 = true := by decide +kernel
theorem encsrgb_k92 : enc16ChunkOk .srgb 92 = true := by decide +kernel
theorem encsrgb_k93 : enc16ChunkOk .srgb 93 = true := by decide +kernel
theorem encsrgb_k94 : enc16ChunkOk .srgb 94 = true := by decide +kernel
theorem encsrgb_k95 : enc16ChunkOk .srgb 95 = true := by decide +kernel

theorem encsrgb_file5 : ∀ k, 80 ≤ k → k < 96 → enc16ChunkOk .srgb k = true := by
  intro k h1 h2
  have h : k = 80 ∨ k = 81 ∨ k = 82 ∨ k = 83 ∨ k = 84 ∨ k = 85 ∨ k = 86 ∨ k = 87 ∨ k = 88 ∨ k = 89 ∨ k = 90 ∨ k = 91 ∨ k = 92 ∨ k = 93 ∨ k = 94 ∨ k = 95 := by omega
  rcases h with rfl | rfl | rfl | rfl | rfl | rfl | rfl | rfl | rfl | rfl | rfl | rfl | rfl | rfl | rfl | rfl
  · exact encsrgb_k80
  · exact encsrgb_k81
  · exact encsrgb_k82
  · exact encsrgb_k83
  · exact encsrgb_k84
  · exact encsrgb_k85
  · exact encsrgb_k86
  · exact encsrgb_k87
  · exact encsrgb_k88
  · exact encsrgb_k89
  · exact encsrgb_k90
  · exact encsrgb_k91
  · exact encsrgb_k92
  · exact encsrgb_k93
  · exact encsrgb_k94
  · exact encsrgb_k95

end Prism.C02
