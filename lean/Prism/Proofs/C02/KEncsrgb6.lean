import Prism.Check.C02

/-! Kernel-checked chunks (generated boiler-plate, see lib/gen_static.py). -/
namespace Prism.C02

theorem encsrgb_k96 : enc16ChunkOk .srgb 96 = true := by decide +kernel
theorem encsrgb_k97 : enc16ChunkOk .srgb 97 = true := by decide +kernel
theorem encsrgb_k98 : enc16ChunkOk .srgb 98 = true := by decide +kernel
theorem encsrgb_k99 : enc16ChunkOk .srgb 99 = true := by decide +kernel
theorem encsrgb_k100 : enc16ChunkOk .srgb 100 = true := by decide +kernel
theorem encsrgb_k101 : enc16ChunkOk .srgb 101 = true := by decide +kernel
theorem encsrgb_k102 : enc16ChunkOk .srgb 102 = true := by decide +kernel
theorem encsrgb_k103 : enc16ChunkOk .srgb 103 = true := by decide +kernel
theorem encsrgb_k104 : enc16ChunkOk .srgb 104 = true := by decide +kernel
theorem encsrgb_k105 : enc16ChunkOk .srgb 105 = true := by decide +kernel
theorem encsrgb_k106 : enc16ChunkOk .srgb 106 = true := by decide +kernel
theorem encsrgb_k107 : enc16ChunkOk .srgb 107 = true := by decide +kernel
theorem encsrgb_k108 : enc16ChunkOk .srgb 108 = true := by decide +kernel
theorem encsrgb_k109 : enc16ChunkOk .srgb 109 = true := by decide +kernel
theorem encsrgb_k110 : enc16ChunkOk .srgb 110 = true := by decide +kernel
theorem encsrgb_k111 : enc16ChunkOk .srgb 111 = true := by decide +kernel

theorem encsrgb_file6 : ∀ k, 96 ≤ k → k < 112 → enc16ChunkOk .srgb k = true := by
  intro k h1 h2
  have h : k = 96 ∨ k = 97 ∨ k = 98 ∨ k = 99 ∨ k = 100 ∨ k = 101 ∨ k = 102 ∨ k = 103 ∨ k = 104 ∨ k = 105 ∨ k = 106 ∨ k = 107 ∨ k = 108 ∨ k = 109 ∨ k = 110 ∨ k = 111 := by omega
  rcases h with rfl | rfl | rfl | rfl | rfl | rfl | rfl | rfl | rfl | rfl | rfl | rfl | rfl | rfl | rfl | rfl
  · exact encsrgb_k96
  · exact encsrgb_k97
  · exact encsrgb_k98
  · exact encsrgb_k99
  · exact encsrgb_k100
  · exact encsrgb_k101
  · exact encsrgb_k102
  · exact encsrgb_k103
  · exact encsrgb_k104
  · exact encsrgb_k105
  · exact encsrgb_k106
  · exact encsrgb_k107
  · exact encsrgb_k108
  · exact encsrgb_k109
  · exact encsrgb_k110
  · exact encsrgb_k111

end Prism.C02
