import Prism.Check.C02

/-! Kernel-checked chunks (generated boiler-plate, see lib/gen_static.py). -/
namespace Prism.C02

theorem encsrgb_k112 : enc16ChunkOk .srgb 112 = true := by decide +kernel
theorem encsrgb_k113 : enc16ChunkOk .srgb 113 = true := by decide +kernel
theorem encsrgb_k114 : enc16ChunkOk .srgb 114 = true := by decide +kernel
theorem encsrgb_k115 : enc16ChunkOk .srgb 115 = true := by decide +kernel
theorem encsrgb_k116 : enc16ChunkOk .srgb 116 = true := by decide +kernel
theorem encsrgb_k117 : enc16ChunkOk .srgb 117 = true := by decide +kernel
theorem encsrgb_k118 : enc16ChunkOk .srgb 118 = true := by decide +kernel
theorem encsrgb_k119 : enc16ChunkOk .srgb 119 = true := by decide +kernel
theorem encsrgb_k120 : enc16ChunkOk .srgb 120 = true := by decide +kernel
theorem encsrgb_k121 : enc16ChunkOk .srgb 121 = true := by decide +kernel
theorem encsrgb_k122 : enc16ChunkOk .srgb 122 = true := by decide +kernel
theorem encsrgb_k123 : enc16ChunkOk .srgb 123 = true := by decide +kernel
theorem encsrgb_k124 : enc16ChunkOk .srgb 124 = true := by decide +kernel
theorem encsrgb_k125 : enc16ChunkOk .srgb 125 = true := by decide +kernel
theorem encsrgb_k126 : enc16ChunkOk .srgb 126 = true := by decide +kernel
theorem encsrgb_k127 : enc16ChunkOk .srgb 127 = true := by decide +kernel

theorem encsrgb_file7 : ∀ k, 112 ≤ k → k < 128 → enc16ChunkOk .srgb k = true := by
  intro k h1 h2
  have h : k = 112 ∨ k = 113 ∨ k = 114 ∨ k = 115 ∨ k = 116 ∨ k = 117 ∨ k = 118 ∨ k = 119 ∨ k = 120 ∨ k = 121 ∨ k = 122 ∨ k = 123 ∨ k = 124 ∨ k = 125 ∨ k = 126 ∨ k = 127 := by omega
  rcases h with rfl | rfl | rfl | rfl | rfl | rfl | rfl | rfl | rfl | rfl | rfl | rfl | rfl | rfl | rfl | rfl
  · exact encsrgb_k112
  · exact encsrgb_k113
  · exact encsrgb_k114
  · exact encsrgb_k115
  · exact encsrgb_k116
  · exact encsrgb_k117
  · exact encsrgb_k118
  · exact encsrgb_k119
  · exact encsrgb_k120
  · exact encsrgb_k121
  · exact encsrgb_k122
  · exact encsrgb_k123
  · exact encsrgb_k124
  · exact encsrgb_k125
  · exact encsrgb_k126
  · exact encsrgb_k127

end Prism.C02
