import Prism.Check.C02

/-! Kernel-checked chunks (generated boiler-plate, see lib/gen_static.py). -/
namespace Prism.C02

theorem encsrgb_k128 : enc16ChunkOk .srgb 128 = true := by decide +kernel
theorem encsrgb_k129 : enc16ChunkOk .srgb 129 = true := by decide +kernel
theorem encsrgb_k130 : enc16ChunkOk .srgb 130 = true := by decide +kernel
theorem encsrgb_k131 : enc16ChunkOk .srgb 131 = true := by decide +kernel
theorem encsrgb_k132 : enc16ChunkOk .srgb 132 = true := by decide +kernel
theorem encsrgb_k133 : enc16ChunkOk .srgb 133 = true := by decide +kernel
theorem encsrgb_k134 : enc16ChunkOk .srgb 134 = true := by decide +kernel
theorem encsrgb_k135 : enc16ChunkOk .srgb 135 = true := by decide +kernel
theorem encsrgb_k136 : enc16ChunkOk .srgb 136 = true := by decide +kernel
theorem encsrgb_k137 : enc16ChunkOk .srgb 137 = true := by decide +kernel
theorem encsrgb_k138 : enc16ChunkOk .srgb 138 = true := by decide +kernel
theorem encsrgb_k139 : enc16ChunkOk .srgb 139 = true := by decide +kernel
theorem encsrgb_k140 : enc16ChunkOk .srgb 140 = true := by decide +kernel
theorem encsrgb_k141 : enc16ChunkOk .srgb 141 = true := by decide +kernel
theorem encsrgb_k142 : enc16ChunkOk .srgb 142 = true := by decide +kernel
theorem encsrgb_k143 : enc16ChunkOk .srgb 143 = true := by decide +kernel

theorem encsrgb_file8 : ∀ k, 128 ≤ k → k < 144 → enc16ChunkOk .srgb k = true := by
  intro k h1 h2
  have h : k = 128 ∨ k = 129 ∨ k = 130 ∨ k = 131 ∨ k = 132 ∨ k = 133 ∨ k = 134 ∨ k = 135 ∨ k = 136 ∨ k = 137 ∨ k = 138 ∨ k = 139 ∨ k = 140 ∨ k = 141 ∨ k = 142 ∨ k = 143 := by omega
  rcases h with rfl | rfl | rfl | rfl | rfl | rfl | rfl | rfl | rfl | rfl | rfl | rfl | rfl | rfl | rfl | rfl
  · exact encsrgb_k128
  · exact encsrgb_k129
  · exact encsrgb_k130
  · exact encsrgb_k131
  · exact encsrgb_k132
  · exact encsrgb_k133
  · exact encsrgb_k134
  · exact encsrgb_k135
  · exact encsrgb_k136
  · exact encsrgb_k137
  · exact encsrgb_k138
  · exact encsrgb_k139
  · exact encsrgb_k140
  · exact encsrgb_k141
  · exact encsrgb_k142
  · exact encsrgb_k143

end Prism.C02
