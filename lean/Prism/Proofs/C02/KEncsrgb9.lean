import Prism.Check.C02

/-! Kernel-checked chunks (generated boiler-plate, see lib/gen_static.py). -/
namespace Prism.C02

theorem encsrgb_k144 : enc16ChunkOk .srgb 144 = true := by decide +kernel
theorem encsrgb_k145 : enc16ChunkOk .srgb 145 = true := by decide +kernel
theorem encsrgb_k146 : enc16ChunkOk .srgb 146 = true := by decide +kernel
theorem encsrgb_k147 : enc16ChunkOk .srgb 147 = true := by decide +kernel
theorem encsrgb_k148 : enc16ChunkOk .srgb 148 = true := by decide +kernel
theorem encsrgb_k149 : enc16ChunkOk .srgb 149 = true := by decide +kernel
theorem encsrgb_k150 : enc16ChunkOk .srgb 150 = true := by decide +kernel
theorem encsrgb_k151 : enc16ChunkOk .srgb 151 = true := by decide +kernel
theorem encsrgb_k152 : enc16ChunkOk .srgb 152 = true := by decide +kernel
theorem encsrgb_k153 : enc16ChunkOk .srgb 153 = true := by decide +kernel
theorem encsrgb_k154 : enc16ChunkOk .srgb 154 = true := by decide +kernel
theorem encsrgb_k155 : enc16ChunkOk .srgb 155 = true := by decide +kernel
theorem encsrgb_k156 : enc16ChunkOk .srgb 156 = true := by decide +kernel
theorem encsrgb_k157 : enc16ChunkOk .srgb 157 = true := by decide +kernel
theorem encsrgb_k158 : enc16ChunkOk .srgb 158 = true := by decide +kernel
theorem encsrgb_k159 : enc16ChunkOk .srgb 159 = true := by decide +kernel

theorem encsrgb_file9 : ∀ k, 144 ≤ k → k < 160 → enc16ChunkOk .srgb k = true := by
  intro k h1 h2
  have h : k = 144 ∨ k = 145 ∨ k = 146 ∨ k = 147 ∨ k = 148 ∨ k = 149 ∨ k = 150 ∨ k = 151 ∨ k = 152 ∨ k = 153 ∨ k = 154 ∨ k = 155 ∨ k = 156 ∨ k = 157 ∨ k = 158 ∨ k = 159 := by omega
  rcases h with rfl | rfl | rfl | rfl | rfl | rfl | rfl | rfl | rfl | rfl | rfl | rfl | rfl | rfl | rfl | rfl
  · exact encsrgb_k144
  · exact encsrgb_k145
  · exact encsrgb_k146
  · exact encsrgb_k147
  · exact encsrgb_k148
  · exact encsrgb_k149
  · exact encsrgb_k150
  · exact encsrgb_k151
  · exact encsrgb_k152
  · exact encsrgb_k153
  · exact encsrgb_k154
  · exact encsrgb_k155
  · exact encsrgb_k156
  · exact encsrgb_k157
  · exact encsrgb_k158
  · exact encsrgb_k159

end Prism.C02
