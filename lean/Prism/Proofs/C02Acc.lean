import Prism.Proofs.C02.AllAccsrgb
import Prism.Proofs.C02.AllAccadobe
import Prism.Proofs.C02.AllAccprophoto
import Prism.Proofs.C02.AllAccp3
import Prism.Proofs.Lemmas.EncAccSound
import Prism.Float.QuantBucket
import Prism.Proofs.C02Mono
import Prism.Proofs.C01

/-!
# C02 (d) — accuracy to table resolution, for **every** float32 in (0, 1)

For every float32 `x` strictly between 0 and 1 (every other float is a clip case: `C02_clip_low`,
`C02_clip_high`, `C02_nan`) and every space, the 16-bit encoder's result `c = To16Bit(x)` satisfies

    ∃ p ∈ ℝ,  |p − x| ≤ (1/(2·65535))·(1 + 1/50)   ∧   EOTF(max 0 ((c − ½ − 1/128)/65535)) ≤ p ≤ EOTF(min 1 ((c + ½ + 1/128)/65535))

i.e. `c` is within `½ + 1/128` of a code of the published transfer function's inverse (the OETF) at a
point `p` within `(1 + 1/50)` half table steps of `x`; for the 8-bit encoder the same with step 1/511,
scale 255 and **no** allowance on the code (`½` exactly).  The two allowances are stated, not hidden:
`1/50` of a half step is the float32 rounding of `x·65535 + ½` in the quantiser (`quant_bucket`,
from the verified accuracy of `mul`/`add`), `1/128` of a code is the float32 rounding inside the
table builder (the literal half code fails at ≈ 110 of the 65 536 entries per curve by at most
0.005 code — measured by the same checker with allowance 0 and reported in DESIGN §9).

The witness is `p = i/N` with `i` the quantiser index; the per-entry facts are kernel-checked over
the regenerated tables in integer arithmetic (`Check/C02Acc.lean`), lifted to `Real.rpow` by
`encAccOk_sound`.
-/

namespace Prism
open SF

theorem acc16_chunks (s : Space) : ∀ k, k < 256 → enc16AccChunk s k = true := by
  cases s
  · exact C02.accsrgb_chunks
  · exact C02.accadobe_chunks
  · exact C02.accprophoto_chunks
  · exact C02.accp3_chunks

theorem acc16_entry (s : Space) (i : Nat) (hi : i < 65536) : enc16AccEntry s i = true :=
  allDepth_spec _ 8 _ (acc16_chunks s (i / 256) (by omega)) i (by omega) (by omega)

theorem acc8_entry (s : Space) (i : Nat) (hi : i < 512) : enc8AccEntry s i = true := by
  have h : enc8AccTable s = true := by
    cases s
    · exact C02.accsrgb_8
    · exact C02.accadobe_8
    · exact C02.accprophoto_8
    · exact C02.accp3_8
  exact allDepth_spec _ 9 _ h i (by omega) (by omega)

theorem curve_eotf_zero (s : Space) : s.curve.eotf 0 = 0 := by
  rw [Space.curve_eotf s 0 le_rfl]
  cases s <;> simp [Space.eotf, srgbEOTF, adobeEOTF, prophotoEOTF] <;> norm_num

theorem curve_eotf_one (s : Space) : s.curve.eotf 1 = 1 := by
  rw [Space.curve_eotf s 1 (by norm_num)]
  cases s <;> simp [Space.eotf, srgbEOTF, adobeEOTF, prophotoEOTF] <;> norm_num

/-- a float32 pattern strictly between +0 and 1.0 is finite, non-negative, of value at most 1 -/
theorem mid_fin (x : Nat) (hx1 : x < 1065353216) : FinPos b32 x ∧ valQ b32 x ≤ 1 := by
  have hsb : b32.signBit = 0x80000000 := by decide
  have hinf : b32.infBits = 0x7f800000 := by decide
  refine ⟨by unfold FinPos; rw [hinf]; omega, ?_⟩
  have hv1 := valLe_of_le b32 x 0x3f800000 (by rw [hsb]; omega) (by omega)
  unfold valLe at hv1
  have one : valQ b32 0x3f800000 = 1 := by decide +kernel
  have hd1 := den_pos' b32 x
  have hd2 := den_pos' b32 0x3f800000
  have : valQ b32 x ≤ valQ b32 0x3f800000 := by
    unfold valQ
    rw [div_le_div_iff₀ (by exact_mod_cast hd1) (by exact_mod_cast hd2)]
    exact_mod_cast hv1
  rw [one] at this; exact this

theorem c65535_val : SF.Fin b32 (F32.ofNat 65535) ∧ toQ b32 (F32.ofNat 65535) = ((65535 : Nat) : ℚ) := by
  refine ⟨⟨by decide +kernel, by decide +kernel⟩, by decide +kernel⟩
theorem c511_val : SF.Fin b32 (F32.ofNat 511) ∧ toQ b32 (F32.ofNat 511) = ((511 : Nat) : ℚ) := by
  refine ⟨⟨by decide +kernel, by decide +kernel⟩, by decide +kernel⟩

/-- distance of `i/N` from `x` given the bucket -/
theorem bucket_dist (N i : Nat) (hN : 0 < N) (x : ℚ)
    (h1 : (N:ℚ) * x - 1/2 - 1/100 ≤ i) (h2 : (i:ℚ) ≤ N * x + 1/2 + 1/100) :
    |(i:ℝ)/N - (x:ℝ)| ≤ 1 / (2 * (N:ℝ)) * (1 + 1/50) := by
  have hN' : (0:ℝ) < N := by exact_mod_cast hN
  have h1' : (N:ℝ) * (x:ℝ) - 1/2 - 1/100 ≤ (i:ℝ) := by
    have := (Rat.cast_le (K := ℝ)).mpr h1
    push_cast at this; exact this
  have h2' : (i:ℝ) ≤ (N:ℝ) * (x:ℝ) + 1/2 + 1/100 := by
    have := (Rat.cast_le (K := ℝ)).mpr h2
    push_cast at this; exact this
  have e : (i:ℝ)/N - x = (i - N * x) / N := by field_simp
  rw [e, abs_div, abs_of_pos hN', div_le_iff₀ hN']
  have : 1 / (2 * (N:ℝ)) * (1 + 1/50) * N = 1/2 + 1/100 := by field_simp; ring
  rw [this, abs_le]
  constructor <;> linarith

/-- on `(0, 1)` the quantiser takes its middle branch -/
theorem quant_mid (N x : Nat) (hx0 : 0 < x) (hx1 : x < 1065353216) : quant N x = quantMid N x := by
  have hx32 : x < 4294967296 := by omega
  have h1 : F32.le x F32.zero = false := by
    have := (le_zero_iff x hx32).not.mpr (by omega)
    simpa using this
  have h2 : F32.ge x F32.one = false := by
    have := (ge_one_iff x hx32).not.mpr (by omega)
    simpa using this
  have h3 : isNaN b32 x = false := by
    have := (isNaN_iff x hx32).not.mpr (by omega)
    simpa using this
  unfold quant quantMid
  simp [h1, h2, h3]

/-- the generic statement for one encoder: index scale `N`, code scale `mx`, allowance `e1/e2` -/
theorem accuracy_of_entry (s : Space) (N mx e1 e2 cN x c : Nat) (hN0 : 0 < N) (hN : N ≤ 65535) (hmx : 0 < mx) (he2 : 0 < e2)
    (hcN : SF.Fin b32 cN ∧ toQ b32 cN = (N : ℚ)) (hx1 : x < 1065353216)
    (hi : truncNat b32 (add b32 (mul b32 x cN) 0x3f000000) ≤ N)
    (hent : encAccOk s.curve N mx e1 e2 (truncNat b32 (add b32 (mul b32 x cN) 0x3f000000)) c = true) :
    ∃ p : ℝ, |p - f32ToReal x| ≤ 1 / (2 * (N:ℝ)) * (1 + 1/50) ∧
      s.eotf (max 0 (((c:ℝ) - 1/2 - (e1:ℝ)/e2) / mx)) ≤ p ∧
      p ≤ s.eotf (min 1 (((c:ℝ) + 1/2 + (e1:ℝ)/e2) / mx)) := by
  obtain ⟨hfp, hv1⟩ := mid_fin x hx1
  obtain ⟨b1, b2⟩ := quant_bucket N cN x hN hcN hfp hv1
  set i := truncNat b32 (add b32 (mul b32 x cN) 0x3f000000) with hi'
  obtain ⟨l, u⟩ := encAccOk_sound s.curve s.curve_wf (curve_eotf_zero s) (curve_eotf_one s) N mx e1 e2 i c hN0 hmx he2 hi hent
  have hmx' : (0:ℝ) < mx := by exact_mod_cast hmx
  have he2' : (0:ℝ) < e2 := by exact_mod_cast he2
  rw [Space.curve_eotf s _ (le_max_left _ _)] at l
  rw [Space.curve_eotf s _ (le_min (by norm_num) (by positivity))] at u
  refine ⟨(i:ℝ)/N, ?_, l, u⟩
  have hx : f32ToReal x = ((valQ b32 x : ℚ) : ℝ) := by unfold f32ToReal valQ; push_cast; rfl
  rw [hx]
  exact bucket_dist N i hN0 (valQ b32 x) b1 b2

/-- **C02 (d), 16-bit encoders, every float32 in (0,1).** -/
theorem C02_accuracy16 (s : Space) (x : Nat) (hx0 : 0 < x) (hx1 : x < 1065353216) :
    ∃ p : ℝ, |p - f32ToReal x| ≤ 1 / (2 * 65535) * (1 + 1/50) ∧
      s.eotf (max 0 (((to16 s x : ℕ) - 1/2 - 1/128) / 65535)) ≤ p ∧
      p ≤ s.eotf (min 1 (((to16 s x : ℕ) + 1/2 + 1/128) / 65535)) := by
  have hq : quant16 x = quantMid 65535 x := quant_mid 65535 x hx0 hx1
  have hi : quantMid 65535 x ≤ 65535 := quantMid_le 65535 quantOk_65535 x hx1
  have hent := acc16_entry s (quantMid 65535 x) (by omega)
  have hto : to16 s x = enc16 s (quantMid 65535 x) := by unfold to16; rw [hq]
  have := accuracy_of_entry s 65535 65535 1 128 (F32.ofNat 65535) x (enc16 s (quantMid 65535 x))
    (by norm_num) (by norm_num) (by norm_num) (by norm_num) c65535_val hx1 hi hent
  rw [hto]
  simpa using this

/-- **C02 (d), 8-bit encoders, every float32 in (0,1)**: the literal half code. -/
theorem C02_accuracy8 (s : Space) (x : Nat) (hx0 : 0 < x) (hx1 : x < 1065353216) :
    ∃ p : ℝ, |p - f32ToReal x| ≤ 1 / (2 * 511) * (1 + 1/50) ∧
      s.eotf (max 0 (((to8 s x : ℕ) - 1/2) / 255)) ≤ p ∧
      p ≤ s.eotf (min 1 (((to8 s x : ℕ) + 1/2) / 255)) := by
  have hq : quant9 x = quantMid 511 x := quant_mid 511 x hx0 hx1
  have hi : quantMid 511 x ≤ 511 := quantMid_le 511 quantOk_511 x hx1
  have hent := acc8_entry s (quantMid 511 x) (by omega)
  have hto : to8 s x = enc8 s (quantMid 511 x) := by unfold to8; rw [hq]
  have := accuracy_of_entry s 511 255 0 1 (F32.ofNat 511) x (enc8 s (quantMid 511 x))
    (by norm_num) (by norm_num) (by norm_num) (by norm_num) c511_val hx1 hi hent
  rw [hto]
  simpa using this

theorem bucket_abs (N i : Nat) (x : ℚ)
    (h1 : (N:ℚ) * x - 1/2 - 1/100 ≤ i) (h2 : (i:ℚ) ≤ N * x + 1/2 + 1/100) :
    |(i:ℝ) - (N:ℝ) * (x:ℝ)| ≤ 1/2 + 1/100 := by
  have h1' : (N:ℝ) * (x:ℝ) - 1/2 - 1/100 ≤ (i:ℝ) := by
    have := (Rat.cast_le (K := ℝ)).mpr h1
    push_cast at this; exact this
  have h2' : (i:ℝ) ≤ (N:ℝ) * (x:ℝ) + 1/2 + 1/100 := by
    have := (Rat.cast_le (K := ℝ)).mpr h2
    push_cast at this; exact this
  rw [abs_le]; constructor <;> linarith

/-- the plain quantisers: `|q(x) − N·x| ≤ ½ + 1/100` on `(0, 1)` -/
theorem C02_quant_accuracy (x : Nat) (hx0 : 0 < x) (hx1 : x < 1065353216) :
    |((quant16 x : ℕ) : ℝ) - 65535 * f32ToReal x| ≤ 1/2 + 1/100 ∧
    |((quant9 x : ℕ) : ℝ) - 511 * f32ToReal x| ≤ 1/2 + 1/100 := by
  obtain ⟨hfp, hv1⟩ := mid_fin x hx1
  have hx : f32ToReal x = ((valQ b32 x : ℚ) : ℝ) := by unfold f32ToReal valQ; push_cast; rfl
  unfold quant16 quant9
  constructor
  · rw [quant_mid 65535 x hx0 hx1, hx]
    obtain ⟨b1, b2⟩ := quant_bucket 65535 (F32.ofNat 65535) x (by norm_num) c65535_val hfp hv1
    have := bucket_abs 65535 (quantMid 65535 x) (valQ b32 x) b1 b2
    simpa using this
  · rw [quant_mid 511 x hx0 hx1, hx]
    obtain ⟨b1, b2⟩ := quant_bucket 511 (F32.ofNat 511) x (by norm_num) c511_val hfp hv1
    have := bucket_abs 511 (quantMid 511 x) (valQ b32 x) b1 b2
    simpa using this

end Prism
