import Prism.Float.SFLemmas
import Prism.Model.Color
import Prism.Proofs.C02

/-!
# C02: the quantisers are monotone and in range for every float32

`quant N x = trunc (fl (fl (x · N) + ½))` between its clamps.  With rounding proved monotone
(`Prism/Float/SFLemmas.lean`) the middle branch is monotone in the bit pattern; its value at the
largest float below 1 is `N` (kernel evaluation), which gives the range.
-/

namespace Prism
open SF

/-- the middle branch of `linear.NormalisedToNBit` -/
def quantMid (N v : Nat) : Nat := F32.trunc (F32.add (F32.mul v (F32.ofNat N)) F32.half)

def pred1 : Nat := 0x3f7fffff

theorem b32_consts : b32.signBit = 2147483648 ∧ b32.infBits = 2139095040 := by decide

/-- the middle branch is monotone on `(0, 1)` as long as the intermediate results at the top of the
interval are finite (checked by evaluation for the three `N` in use) -/
theorem quantMid_mono (N : Nat) (hc : FinPos b32 (F32.ofNat N))
    (hY : FinPos b32 (F32.mul pred1 (F32.ofNat N)))
    (hZ : FinPos b32 (F32.add (F32.mul pred1 (F32.ofNat N)) F32.half))
    (x x' : Nat) (h : x ≤ x') (hx' : x' ≤ pred1) : quantMid N x ≤ quantMid N x' := by
  have hp : FinPos b32 pred1 := by unfold FinPos; decide
  have hh : FinPos b32 F32.half := by unfold FinPos; decide
  have hfx' : FinPos b32 x' := by unfold FinPos at *; rw [b32_consts.2] at *; unfold pred1 at hx'; omega
  have m1 : F32.mul x (F32.ofNat N) ≤ F32.mul x' (F32.ofNat N) := mul_mono b32 b32_ok x x' _ hfx' hc h
  have m2 : F32.mul x' (F32.ofNat N) ≤ F32.mul pred1 (F32.ofNat N) := mul_mono b32 b32_ok x' pred1 _ hp hc hx'
  have f1 : FinPos b32 (F32.mul x' (F32.ofNat N)) := by unfold FinPos at *; omega
  have a1 : F32.add (F32.mul x (F32.ofNat N)) F32.half ≤ F32.add (F32.mul x' (F32.ofNat N)) F32.half :=
    add_mono b32 b32_ok _ _ _ f1 hh m1
  have a2 : F32.add (F32.mul x' (F32.ofNat N)) F32.half ≤ F32.add (F32.mul pred1 (F32.ofNat N)) F32.half :=
    add_mono b32 b32_ok _ _ _ hY hh m2
  have f2 : FinPos b32 (F32.add (F32.mul x' (F32.ofNat N)) F32.half) := by unfold FinPos at *; omega
  exact trunc_mono b32 b32_ok _ _ f2 a1

theorem isNaN_iff (x : Nat) (hx : x < 4294967296) :
    isNaN b32 x = true ↔ (2139095040 < x ∧ x < 2147483648) ∨ 4286578688 < x := by
  unfold isNaN absBits
  rw [b32_consts.1, b32_consts.2, Nat.blt_eq]
  omega

theorem le_zero_iff (x : Nat) (hx : x < 4294967296) :
    F32.le x F32.zero = true ↔ x = 0 ∨ (2147483648 ≤ x ∧ x ≤ 4286578688) := by
  unfold F32.le SF.le SF.lt SF.eq F32.zero isNaN isZero isNeg absBits
  simp only [force_eq, b32_consts.1, b32_consts.2]
  by_cases h1 : x < 2147483648
  · have hm : x % 2147483648 = x := Nat.mod_eq_of_lt h1
    have hb : Nat.ble 2147483648 x = false := ble_false (by omega)
    by_cases h2 : 2139095040 < x
    · have : Nat.blt 2139095040 x = true := Nat.blt_eq.mpr h2
      simp [hm, hb, this]; omega
    · have : Nat.blt 2139095040 x = false := blt_false h2
      by_cases h3 : x = 0
      · subst h3; simp
      · simp [hm, hb, this, h3]; omega
  · have hm : x % 2147483648 = x - 2147483648 := by omega
    have hb : Nat.ble 2147483648 x = true := ble_true (by omega)
    by_cases h2 : 2139095040 < x - 2147483648
    · have : Nat.blt 2139095040 (x - 2147483648) = true := Nat.blt_eq.mpr h2
      simp [hm, hb, this]; omega
    · have : Nat.blt 2139095040 (x - 2147483648) = false := blt_false h2
      by_cases h3 : x - 2147483648 = 0
      · simp [hm, hb, this, h3]; omega
      · simp [hm, hb, this, h3]; omega

theorem ge_one_iff (x : Nat) (hx : x < 4294967296) :
    F32.ge x F32.one = true ↔ (1065353216 ≤ x ∧ x ≤ 2139095040) := by
  unfold F32.ge SF.ge SF.le SF.lt SF.eq F32.one isNaN isZero isNeg absBits
  simp only [force_eq, b32_consts.1, b32_consts.2]
  have hk : Nat.ble 2147483648 1065353216 = false := by decide
  have hk2 : 1065353216 % 2147483648 = 1065353216 := by decide
  by_cases h1 : x < 2147483648
  · have hm : x % 2147483648 = x := Nat.mod_eq_of_lt h1
    have hb : Nat.ble 2147483648 x = false := ble_false (by omega)
    by_cases h2 : 2139095040 < x
    · have : Nat.blt 2139095040 x = true := Nat.blt_eq.mpr h2
      simp [hk, hk2, hm, hb, this]; omega
    · have : Nat.blt 2139095040 x = false := blt_false h2
      by_cases h3 : 1065353216 < x
      · have h4 : Nat.blt 1065353216 x = true := Nat.blt_eq.mpr h3
        simp [hk, hk2, hm, hb, this, h4]; omega
      · have h4 : Nat.blt 1065353216 x = false := blt_false h3
        by_cases h5 : x = 1065353216
        · subst h5; simp
        · have h6 : ¬ (1065353216 = x) := fun h => h5 h.symm
          simp [hk, hk2, hm, hb, this, h4, h6]; omega
  · have hm : x % 2147483648 = x - 2147483648 := by omega
    have hb : Nat.ble 2147483648 x = true := ble_true (by omega)
    by_cases h2 : 2139095040 < x - 2147483648
    · have : Nat.blt 2139095040 (x - 2147483648) = true := Nat.blt_eq.mpr h2
      simp [hk, hk2, hm, hb, this]; omega
    · have : Nat.blt 2139095040 (x - 2147483648) = false := blt_false h2
      have h6 : ¬ (1065353216 = x) := by omega
      simp [hk, hk2, hm, hb, this, h6]; omega

/-- classification of a 32-bit pattern by the quantiser's branches -/
theorem quant_cases (N x : Nat) (hx : x < 4294967296) :
    quant N x = 0 ∨ (quant N x = N ∧ 1065353216 ≤ x ∧ x ≤ 2139095040) ∨
    (0 < x ∧ x < 1065353216 ∧ quant N x = quantMid N x) := by
  unfold quant quantMid
  by_cases h1 : F32.le x F32.zero = true
  · left; simp [h1]
  · have h1' : F32.le x F32.zero = false := by simpa using h1
    by_cases h2 : F32.ge x F32.one = true
    · right; left
      exact ⟨by simp [h1', h2], (ge_one_iff x hx).mp h2⟩
    · have h2' : F32.ge x F32.one = false := by simpa using h2
      by_cases h3 : isNaN b32 x = true
      · left; simp [h1', h2', h3, nanToUInt]
      · have h3' : isNaN b32 x = false := by simpa using h3
        right; right
        have a1 := (le_zero_iff x hx).not.mp h1
        have a2 := (ge_one_iff x hx).not.mp h2
        have a3 := (isNaN_iff x hx).not.mp h3
        refine ⟨by omega, by omega, by simp [h1', h2', h3']⟩

/-- `x ≤ y` as floats, for a positive non-NaN `x`: `y` is positive, not NaN, and at least `x` as a pattern -/
theorem le_of_pos (x y : Nat) (hy : y < 4294967296) (h0 : 0 < x) (hx : x ≤ 2139095040)
    (h : F32.le x y = true) : x ≤ y ∧ y ≤ 2139095040 := by
  unfold F32.le SF.le SF.lt SF.eq isNaN isZero isNeg absBits at h
  simp only [force_eq, b32_consts.1, b32_consts.2] at h
  have hmx : x % 2147483648 = x := Nat.mod_eq_of_lt (by omega)
  have hbx : Nat.ble 2147483648 x = false := ble_false (by omega)
  have hnx : Nat.blt 2139095040 x = false := blt_false (by omega)
  have hx0 : ¬ x = 0 := by omega
  by_cases h1 : y < 2147483648
  · have hm : y % 2147483648 = y := Nat.mod_eq_of_lt h1
    have hb : Nat.ble 2147483648 y = false := ble_false (by omega)
    by_cases h2 : 2139095040 < y
    · have : Nat.blt 2139095040 y = true := Nat.blt_eq.mpr h2
      simp [hmx, hbx, hnx, hm, hb, this] at h
    · have : Nat.blt 2139095040 y = false := blt_false h2
      simp [hmx, hbx, hnx, hx0, hm, hb, this] at h
      omega
  · have hm : y % 2147483648 = y - 2147483648 := by omega
    have hb : Nat.ble 2147483648 y = true := ble_true (by omega)
    by_cases h2 : 2139095040 < y - 2147483648
    · have : Nat.blt 2139095040 (y - 2147483648) = true := Nat.blt_eq.mpr h2
      simp [hmx, hbx, hnx, hm, hb, this] at h
    · have : Nat.blt 2139095040 (y - 2147483648) = false := blt_false h2
      simp [hmx, hbx, hnx, hx0, hm, hb, this] at h
      omega

/-- the three quantisers in use: constants finite, and the middle branch reaches exactly `N` at the
largest float below 1 (kernel evaluation of the softfloat) -/
def quantOk (N : Nat) : Bool :=
  Nat.blt (F32.ofNat N) 2139095040 && Nat.blt (F32.mul pred1 (F32.ofNat N)) 2139095040 &&
  Nat.blt (F32.add (F32.mul pred1 (F32.ofNat N)) F32.half) 2139095040 && quantMid N pred1 == N

theorem quantOk_255 : quantOk 255 = true := by decide +kernel
theorem quantOk_511 : quantOk 511 = true := by decide +kernel
theorem quantOk_65535 : quantOk 65535 = true := by decide +kernel

theorem quantMid_le (N : Nat) (hN : quantOk N = true) (x : Nat) (hx : x < 1065353216) : quantMid N x ≤ N := by
  unfold quantOk at hN
  simp only [Bool.and_eq_true, Nat.blt_eq, beq_iff_eq] at hN
  obtain ⟨⟨⟨h1, h2⟩, h3⟩, h4⟩ := hN
  have := quantMid_mono N (by unfold FinPos; rw [b32_consts.2]; exact h1) (by unfold FinPos; rw [b32_consts.2]; exact h2)
    (by unfold FinPos; rw [b32_consts.2]; exact h3) x pred1 (by unfold pred1; omega) (Nat.le_refl _)
  omega

/-- **C02 (range).** For every float32 bit pattern the quantiser's result is at most `N`. -/
theorem quant_le (N : Nat) (hN : quantOk N = true) (x : Nat) (hx : x < 4294967296) : quant N x ≤ N := by
  rcases quant_cases N x hx with h | ⟨h, _⟩ | ⟨_, h2, h3⟩
  · omega
  · omega
  · rw [h3]; exact quantMid_le N hN x h2

/-- **C02 (monotone).** For all float32 `x ≤ y` (IEEE order; so neither is NaN) the quantiser's result
does not decrease. -/
theorem quant_mono (N : Nat) (hN : quantOk N = true) (x y : Nat) (hx : x < 4294967296) (hy : y < 4294967296)
    (h : F32.le x y = true) : quant N x ≤ quant N y := by
  rcases quant_cases N x hx with hx0 | ⟨hxN, hx1, hx2⟩ | ⟨hx1, hx2, hx3⟩
  · omega
  · -- x ≥ 1: so is y
    obtain ⟨h1, h2⟩ := le_of_pos x y hy (by omega) hx2 h
    rcases quant_cases N y hy with hy0 | ⟨hyN, _, _⟩ | ⟨_, hy2, _⟩
    · -- y ≥ 1 is in the clamp-high branch: its result is N; reach it through ge_one_iff
      have hge : F32.ge y F32.one = true := (ge_one_iff y hy).mpr ⟨by omega, h2⟩
      have hle : ¬ (F32.le y F32.zero = true) := by
        rw [le_zero_iff y hy]; omega
      have : quant N y = N := by
        unfold quant; simp [hle, hge]
      have hq := quant_le N hN x hx
      -- quant N y = 0 = N would still give the inequality; conclude directly
      omega
    · omega
    · omega
  · -- 0 < x < 1
    obtain ⟨h1, h2⟩ := le_of_pos x y hy hx1 (by omega) h
    rw [hx3]
    rcases quant_cases N y hy with hy0 | ⟨hyN, _, _⟩ | ⟨_, hy2, hy3⟩
    · -- y > 0 non-NaN cannot be in a zero branch unless it is the middle branch giving 0 — use the branches
      by_cases hyo : y < 1065353216
      · have hle : ¬ (F32.le y F32.zero = true) := by rw [le_zero_iff y hy]; omega
        have hge : ¬ (F32.ge y F32.one = true) := by rw [ge_one_iff y hy]; omega
        have hnan : ¬ (isNaN b32 y = true) := by rw [isNaN_iff y hy]; omega
        have : quant N y = quantMid N y := by unfold quant quantMid; simp [hle, hge, hnan]
        rw [this]
        unfold quantOk at hN
        simp only [Bool.and_eq_true, Nat.blt_eq, beq_iff_eq] at hN
        obtain ⟨⟨⟨k1, k2⟩, k3⟩, _⟩ := hN
        exact quantMid_mono N (by unfold FinPos; rw [b32_consts.2]; exact k1) (by unfold FinPos; rw [b32_consts.2]; exact k2)
          (by unfold FinPos; rw [b32_consts.2]; exact k3) x y h1 (by unfold pred1; omega)
      · have hge : F32.ge y F32.one = true := (ge_one_iff y hy).mpr ⟨by omega, h2⟩
        have hle : ¬ (F32.le y F32.zero = true) := by rw [le_zero_iff y hy]; omega
        have : quant N y = N := by unfold quant; simp [hle, hge]
        rw [this]; exact quantMid_le N hN x hx2
    · rw [hyN]; exact quantMid_le N hN x hx2
    · rw [hy3]
      unfold quantOk at hN
      simp only [Bool.and_eq_true, Nat.blt_eq, beq_iff_eq] at hN
      obtain ⟨⟨⟨k1, k2⟩, k3⟩, _⟩ := hN
      exact quantMid_mono N (by unfold FinPos; rw [b32_consts.2]; exact k1) (by unfold FinPos; rw [b32_consts.2]; exact k2)
        (by unfold FinPos; rw [b32_consts.2]; exact k3) x y h1 (by unfold pred1; omega)

/-- **C02 (quantisers: monotone and in range, every float32).** For the three plain quantisers
`NormalisedTo8Bit`, `NormalisedTo9Bit`, `NormalisedTo16Bit` and all float32 bit patterns `x`, `y`:
the result is at most the maximum code, and `x ≤ y` (IEEE order) implies `q x ≤ q y`. -/
theorem C02_quant_range (x : Nat) (hx : x < 4294967296) : quant8 x ≤ 255 ∧ quant9 x ≤ 511 ∧ quant16 x ≤ 65535 :=
  ⟨quant_le 255 quantOk_255 x hx, quant_le 511 quantOk_511 x hx, quant_le 65535 quantOk_65535 x hx⟩

theorem C02_quant_mono (x y : Nat) (hx : x < 4294967296) (hy : y < 4294967296) (h : F32.le x y = true) :
    quant8 x ≤ quant8 y ∧ quant9 x ≤ quant9 y ∧ quant16 x ≤ quant16 y :=
  ⟨quant_mono 255 quantOk_255 x y hx hy h, quant_mono 511 quantOk_511 x y hx hy h, quant_mono 65535 quantOk_65535 x y hx hy h⟩

/-- **C02 (encoders: monotone, every float32).** For each space, `To8Bit` and `To16Bit` never decrease
as the float32 argument increases — the quantiser is monotone (rounding is monotone) and the
regenerated tables are monotone (kernel-checked). -/
theorem C02_encoder_mono (s : Space) (x y : Nat) (hx : x < 4294967296) (hy : y < 4294967296) (h : F32.le x y = true) :
    to8 s x ≤ to8 s y ∧ to16 s x ≤ to16 s y := by
  have hm := C02_quant_mono x y hx hy h
  have hr := C02_quant_range y hy
  constructor
  · unfold to8; exact C02_enc8_mono s _ _ hm.2.1 (by omega)
  · unfold to16; exact C02_enc16_mono s _ _ hm.2.2 (by omega)

/-- **C02 (encoders: in range, every float32).** -/
theorem C02_encoder_range (s : Space) (x : Nat) (hx : x < 4294967296) : to8 s x ≤ 255 ∧ to16 s x ≤ 65535 := by
  have hr := C02_quant_range x hx
  have he := enc_endpoints s
  constructor
  · unfold to8
    have := C02_enc8_mono s (quant9 x) 511 hr.2.1 (by omega)
    omega
  · unfold to16
    have := C02_enc16_mono s (quant16 x) 65535 hr.2.2 (by omega)
    omega

/-- non-vacuity: 0.25 ≤ 0.5 as floats -/
example : F32.le 0x3e800000 0x3f000000 = true := by decide +kernel

end Prism
