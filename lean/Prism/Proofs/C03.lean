import Prism.Check.C03

/-!
# C03 — each RGB space's XYZ transform is the one fixed by its primaries and white point (partial)

Exact rational arithmetic (core `Rat`, evaluated by the kernel) on the regenerated float32
coefficients and declared chromaticities.

Partial: the *floating-point evaluation* error of `ToXYZ`/`ColorFromXYZ` on arbitrary inputs
(the 2·10⁻⁶ round-trip clause for all float32 triples) is not proved — it needs the verified
rounding-error calculus of DESIGN §3.3, which is not built; it is measured by the harness on the
2¹⁸ / 2²⁴ lattice and random triples against the bit-exact model on every run.
-/

namespace Prism

/-- **C03 (declared = published).** Every declared primary and white chromaticity is within half
a unit of the last published digit of the standard's value. -/
theorem C03_chromaticities_published (s : Space) : chromaOk s = true := by
  cases s <;> decide +kernel

/-- **C03 (coefficients).** The RGB→XYZ coefficients are within 10⁻⁷ of the matrix fixed by the
declared primaries and white point (exact rational derivation), and the XYZ→RGB coefficients
within 10⁻⁶ of its exact inverse. -/
theorem C03_coefficients (s : Space) : coefOk s = true := by
  cases s <;> decide +kernel

/-- **C03 (inverse, white).** As exact linear maps the two coefficient sets are mutually inverse
within 10⁻⁶, and linear `(1,1,1)` maps to the declared white point with `Y = 1` within 10⁻⁶. -/
theorem C03_inverse_and_white (s : Space) : inverseOk s = true := by
  cases s <;> decide +kernel

/-- `ToXYZ` is a linear map: the model evaluates `x·a + y·b + z·c` per row with fixed coefficients
and no clamp, so out-of-range inputs pass through — stated on the model's definition -/
theorem C03_toXYZ_is_matrix (s : Space) (c : Lin) : toXYZ s c = mat3Apply (toXYZCoef s) c.r c.g c.b := rfl
theorem C03_fromXYZ_is_matrix (s : Space) (x y z : Nat) :
    fromXYZ s x y z = (let (r, g, b) := mat3Apply (fromXYZCoef s) x y z; ⟨r, g, b⟩) := rfl

end Prism
