import Prism.Float.ErrCalc
import Prism.Model.Color
import Prism.Check.C03

/-!
# C03 (iv) — the float32 evaluation of `ToXYZ` / `ColorFromXYZ`, for every float32 input

The model functions `toXYZ`/`fromXYZ` (three `x·a + y·b + z·c` rows in binary32, in the source's
evaluation order, with the regenerated coefficients) are expressions of the verified error
calculus (`Prism/Float/ErrCalc.lean`).  One kernel evaluation of the calculus per space and channel
then bounds, for **every** triple of finite float32 bit patterns with `|·| ≤ M` (any `M ≤ 2¹⁰⁰`):

* RGB → XYZ → RGB returns the input within `2·10⁻⁶·M + 10⁻⁴⁰`            (`C03_roundtrip_rgb`)
* XYZ → RGB → XYZ returns the input within `τ·M + 10⁻⁴⁰` on the XYZ box     (`C03_roundtrip_xyz`)
* `ToXYZ` is within `10⁻⁶·M`-scale of the exact matrix fixed by the declared primaries

with no clamp anywhere (the bound is proportional to `M`: out-of-range colours pass through).
-/

namespace Prism
open SF SF.EC

def cS (b : Nat) : Ex := .const .s b

/-- `dot3 x y z a b c` as an expression -/
def dotE (x y z : Ex) (a b c : Nat) : Ex :=
  .add .s (.add .s (.mul .s x (cS a)) (.mul .s y (cS b))) (.mul .s z (cS c))

/-- `mat3Apply m x y z` as three expressions -/
def matE (m : List Nat) (x y z : Ex) : Ex × Ex × Ex :=
  match m with
  | [a0,a1,a2,b0,b1,b2,c0,c1,c2] => (dotE x y z a0 a1 a2, dotE x y z b0 b1 b2, dotE x y z c0 c1 c2)
  | _ => (cS 0, cS 0, cS 0)

def toXYZE (s : Space) : Ex × Ex × Ex := matE (toXYZCoef s) (.var 0) (.var 1) (.var 2)
def fromXYZE (s : Space) : Ex × Ex × Ex := matE (fromXYZCoef s) (.var 0) (.var 1) (.var 2)
/-- RGB → XYZ → RGB -/
def rtRgbE (s : Space) : Ex × Ex × Ex :=
  let p := toXYZE s
  matE (fromXYZCoef s) p.1 p.2.1 p.2.2
/-- XYZ → RGB → XYZ -/
def rtXyzE (s : Space) : Ex × Ex × Ex :=
  let p := fromXYZE s
  matE (toXYZCoef s) p.1 p.2.1 p.2.2

def envOf (r g b : Nat) : Nat → Nat
  | 0 => r
  | 1 => g
  | 2 => b
  | _ => 0

/-- the model's functions are the expressions (definitional unfolding, per space) -/
theorem toXYZ_is_expr (s : Space) (r g b : Nat) :
    toXYZ s ⟨r, g, b⟩ = (evalSF (envOf r g b) (toXYZE s).1, evalSF (envOf r g b) (toXYZE s).2.1,
      evalSF (envOf r g b) (toXYZE s).2.2) := by
  cases s <;> rfl

theorem fromXYZ_is_expr (s : Space) (x y z : Nat) :
    fromXYZ s x y z = ⟨evalSF (envOf x y z) (fromXYZE s).1, evalSF (envOf x y z) (fromXYZE s).2.1,
      evalSF (envOf x y z) (fromXYZE s).2.2⟩ := by
  cases s <;> rfl

theorem rtRgb_is_expr (s : Space) (r g b : Nat) :
    (let p := toXYZ s ⟨r, g, b⟩; fromXYZ s p.1 p.2.1 p.2.2) =
      ⟨evalSF (envOf r g b) (rtRgbE s).1, evalSF (envOf r g b) (rtRgbE s).2.1, evalSF (envOf r g b) (rtRgbE s).2.2⟩ := by
  cases s <;> rfl

theorem rtXyz_is_expr (s : Space) (x y z : Nat) :
    (let c := fromXYZ s x y z; toXYZ s c) =
      (evalSF (envOf x y z) (rtXyzE s).1, evalSF (envOf x y z) (rtXyzE s).2.1, evalSF (envOf x y z) (rtXyzE s).2.2) := by
  cases s <;> rfl

/-- the k-th component of a triple of expressions -/
def comp (p : Ex × Ex × Ex) : Nat → Ex
  | 0 => p.1
  | 1 => p.2.1
  | _ => p.2.2

/-- Boolean check: the calculus bounds the distance of every component `k` of `p` from the exact
linear form `Σ (rows k)ᵢ·xᵢ` by `sl·M + cn` on the box `|xᵢ| ≤ M·mᵢ`, `M ≤ 2¹⁰⁰` -/
def rowsOk (p : Ex × Ex × Ex) (rows : Nat → List ℚ) (m : List ℚ) (sl cn : ℚ) : Bool :=
  (List.range 3).all fun k =>
    match targetBound (comp p k) (rows k) m (2 ^ 100) with
    | some (a, c) => decide (a ≤ sl) && decide (c ≤ cn)
    | none => false

theorem rowsOk_sound (p : Ex × Ex × Ex) (rows : Nat → List ℚ) (m : List ℚ) (sl cn : ℚ)
    (h : rowsOk p rows m sl cn = true)
    (hm : ∀ j, 0 ≤ m.getD j 0) (M : ℚ) (hM0 : 0 ≤ M) (hM : M ≤ 2 ^ 100) (env : Nat → Nat)
    (henv : ∀ i, Fin b32 (env i) ∧ |toQ b32 (env i)| ≤ M * m.getD i 0) (k : Nat) (hk : k < 3) :
    Fin b32 (evalSF env (comp p k)) ∧
      |toQ b32 (evalSF env (comp p k)) - linSum (rows k) 0 (fun i => toQ b32 (env i))| ≤ sl * M + cn := by
  unfold rowsOk at h
  rw [List.all_eq_true] at h
  have hk' := h k (by simp; omega)
  split at hk'
  · rename_i a c hb
    simp only [Bool.and_eq_true, decide_eq_true_eq] at hk'
    have := targetBound_sound _ _ _ _ _ _ hb M env hM0 hM hm henv
    refine ⟨this.1, this.2.trans ?_⟩
    have : a * M ≤ sl * M := mul_le_mul_of_nonneg_right hk'.1 hM0
    linarith
  · exact absurd hk' (by simp)

/-- the box hypothesis for three variables -/
theorem env3 (r g b : Nat) (M : ℚ) (m0 m1 m2 : ℚ) (hM0 : 0 ≤ M)
    (hr : Fin b32 r ∧ |toQ b32 r| ≤ M * m0) (hg : Fin b32 g ∧ |toQ b32 g| ≤ M * m1)
    (hb : Fin b32 b ∧ |toQ b32 b| ≤ M * m2) (hm2 : 0 ≤ m2) :
    ∀ i, Fin b32 (envOf r g b i) ∧ |toQ b32 (envOf r g b i)| ≤ M * [m0, m1, m2].getD i 0 := by
  intro i
  match i with
  | 0 => exact hr
  | 1 => exact hg
  | 2 => exact hb
  | n + 3 =>
    have hz : toQ b32 0 = 0 := by unfold toQ; rw [valQ_zero]; simp
    have he : envOf r g b (n + 3) = 0 := rfl
    rw [he]
    refine ⟨⟨by decide, by decide⟩, ?_⟩
    simp [hz]

end Prism

namespace Prism
open SF SF.EC

def unitRows (k : Nat) : List ℚ := unitL k

/-- row `k` of an exact matrix -/
def qmRow (m : QM) : Nat → List ℚ
  | 0 => [m.1.1, m.1.2.1, m.1.2.2]
  | 1 => [m.2.1.1, m.2.1.2.1, m.2.1.2.2]
  | _ => [m.2.2.1, m.2.2.2.1, m.2.2.2.2]

/-- kernel evaluation of the calculus: RGB→XYZ→RGB on the cube `[-M, M]³` -/
theorem rtRgb_ok (s : Space) : rowsOk (rtRgbE s) unitRows [1, 1, 1] (19 / 10000000) (1 / 10 ^ 40) = true := by
  cases s <;> decide +kernel

/-- kernel evaluation: XYZ→RGB→XYZ on the box `|X| ≤ 0.97M, |Y| ≤ M, |Z| ≤ 1.1M` (it contains the
image of the cube `[-M, M]³` of every supported space) -/
theorem rtXyz_ok (s : Space) : rowsOk (rtXyzE s) unitRows [97 / 100, 1, 11 / 10] (11 / 10000000) (1 / 10 ^ 40) = true := by
  cases s <;> decide +kernel

/-- kernel evaluation: float `ToXYZ` against the exact matrix fixed by the declared primaries and white -/
theorem toXYZ_ok (s : Space) : rowsOk (toXYZE s) (qmRow (refMatrix s)) [1, 1, 1] (5 / 10000000) (1 / 10 ^ 40) = true := by
  cases s <;> decide +kernel

/-- kernel evaluation: float `ColorFromXYZ` against the exact inverse of that matrix -/
theorem fromXYZ_ok (s : Space) : rowsOk (fromXYZE s) (qmRow (qinv (refMatrix s))) [97 / 100, 1, 11 / 10] (25 / 10000000) (1 / 10 ^ 40) = true := by
  cases s <;> decide +kernel

theorem m111 : ∀ j, (0:ℚ) ≤ [(1:ℚ), 1, 1].getD j 0 := by
  intro j; match j with
  | 0 => simp
  | 1 => simp
  | 2 => simp
  | n + 3 => simp
theorem mXYZ : ∀ j, (0:ℚ) ≤ [(97 / 100 : ℚ), 1, 11 / 10].getD j 0 := by
  intro j; match j with
  | 0 => norm_num
  | 1 => simp
  | 2 => norm_num
  | n + 3 => simp

/-- **C03 (iv), RGB → XYZ → RGB, every float32.**  For every space and every triple of finite
float32 bit patterns with `|r|, |g|, |b| ≤ M` (any `0 ≤ M ≤ 2¹⁰⁰` — in range, out of range, negative:
nothing clamps), converting to XYZ and back returns finite floats within `1.9·10⁻⁶·M + 10⁻⁴⁰` of the
input, per channel. -/
theorem C03_roundtrip_rgb (s : Space) (r g b : Nat) (M : ℚ) (hM0 : 0 ≤ M) (hM : M ≤ 2 ^ 100)
    (hr : Fin b32 r ∧ |toQ b32 r| ≤ M) (hg : Fin b32 g ∧ |toQ b32 g| ≤ M) (hb : Fin b32 b ∧ |toQ b32 b| ≤ M) :
    let p := toXYZ s ⟨r, g, b⟩
    let c := fromXYZ s p.1 p.2.1 p.2.2
    (Fin b32 c.r ∧ |toQ b32 c.r - toQ b32 r| ≤ 19 / 10000000 * M + 1 / 10 ^ 40) ∧
    (Fin b32 c.g ∧ |toQ b32 c.g - toQ b32 g| ≤ 19 / 10000000 * M + 1 / 10 ^ 40) ∧
    (Fin b32 c.b ∧ |toQ b32 c.b - toQ b32 b| ≤ 19 / 10000000 * M + 1 / 10 ^ 40) := by
  intro p c
  have he : c = _ := rtRgb_is_expr s r g b
  have henv := env3 r g b M 1 1 1 hM0 (by simpa using hr) (by simpa using hg) (by simpa using hb) (by norm_num)
  have h := fun k hk => rowsOk_sound (rtRgbE s) unitRows [1, 1, 1] _ _ (rtRgb_ok s) m111 M hM0 hM (envOf r g b) henv k hk
  have h0 := h 0 (by omega)
  have h1 := h 1 (by omega)
  have h2 := h 2 (by omega)
  simp only [unitRows, linSum_unitL, comp] at h0 h1 h2
  rw [he]
  exact ⟨h0, h1, h2⟩

/-- the in-range instance: inputs in `[-1, 1]³` come back within `2·10⁻⁶` -/
theorem C03_roundtrip_rgb_unit (s : Space) (r g b : Nat)
    (hr : Fin b32 r ∧ |toQ b32 r| ≤ 1) (hg : Fin b32 g ∧ |toQ b32 g| ≤ 1) (hb : Fin b32 b ∧ |toQ b32 b| ≤ 1) :
    let p := toXYZ s ⟨r, g, b⟩
    let c := fromXYZ s p.1 p.2.1 p.2.2
    |toQ b32 c.r - toQ b32 r| ≤ 2 / 1000000 ∧ |toQ b32 c.g - toQ b32 g| ≤ 2 / 1000000 ∧
      |toQ b32 c.b - toQ b32 b| ≤ 2 / 1000000 := by
  intro p c
  have h := C03_roundtrip_rgb s r g b 1 (by norm_num) (by norm_num) hr hg hb
  simp only at h
  obtain ⟨⟨_, h0⟩, ⟨_, h1⟩, ⟨_, h2⟩⟩ := h
  have e : (19:ℚ) / 10000000 * 1 + 1 / 10 ^ 40 ≤ 2 / 1000000 := by norm_num
  exact ⟨h0.trans e, h1.trans e, h2.trans e⟩

/-- **C03 (iv), XYZ → RGB → XYZ, every float32** in the box `|X| ≤ 0.97M, |Y| ≤ M, |Z| ≤ 1.1M`
(it contains the image of the cube `[-M, M]³` under every supported space's matrix). -/
theorem C03_roundtrip_xyz (s : Space) (x y z : Nat) (M : ℚ) (hM0 : 0 ≤ M) (hM : M ≤ 2 ^ 100)
    (hx : Fin b32 x ∧ |toQ b32 x| ≤ M * (97 / 100)) (hy : Fin b32 y ∧ |toQ b32 y| ≤ M * 1)
    (hz : Fin b32 z ∧ |toQ b32 z| ≤ M * (11 / 10)) :
    let c := fromXYZ s x y z
    let p := toXYZ s c
    (Fin b32 p.1 ∧ |toQ b32 p.1 - toQ b32 x| ≤ 11 / 10000000 * M + 1 / 10 ^ 40) ∧
    (Fin b32 p.2.1 ∧ |toQ b32 p.2.1 - toQ b32 y| ≤ 11 / 10000000 * M + 1 / 10 ^ 40) ∧
    (Fin b32 p.2.2 ∧ |toQ b32 p.2.2 - toQ b32 z| ≤ 11 / 10000000 * M + 1 / 10 ^ 40) := by
  intro c p
  have he : p = _ := rtXyz_is_expr s x y z
  have henv := env3 x y z M _ _ _ hM0 hx hy hz (by norm_num)
  have h := fun k hk => rowsOk_sound (rtXyzE s) unitRows _ _ _ (rtXyz_ok s) mXYZ M hM0 hM (envOf x y z) henv k hk
  have h0 := h 0 (by omega)
  have h1 := h 1 (by omega)
  have h2 := h 2 (by omega)
  simp only [unitRows, linSum_unitL, comp] at h0 h1 h2
  rw [he]
  exact ⟨h0, h1, h2⟩

/-- exact image of a triple under an exact matrix row -/
def rowApply (row : List ℚ) (r g b : ℚ) : ℚ := row.getD 0 0 * r + row.getD 1 0 * g + row.getD 2 0 * b

theorem linSum_row3 (a0 a1 a2 : ℚ) (x : Nat → ℚ) : linSum [a0, a1, a2] 0 x = a0 * x 0 + a1 * x 1 + a2 * x 2 := by
  simp [linSum]; ring

theorem linSum_qmRow (m : QM) (k : Nat) (x : Nat → ℚ) :
    linSum (qmRow m k) 0 x = rowApply (qmRow m k) (x 0) (x 1) (x 2) := by
  match k with
  | 0 => simp [qmRow, rowApply, linSum_row3]
  | 1 => simp [qmRow, rowApply, linSum_row3]
  | n + 2 => simp [qmRow, rowApply, linSum_row3]

/-- **C03 (ii)–(iii) in floating point, every float32.**  `ToXYZ` evaluated in float32 is within
`5·10⁻⁷·M` of the exact linear map fixed by the declared primaries and white point (`refMatrix`,
derived in exact rationals from the chromaticities alone) — so linear `(1,1,1)` lands within `5·10⁻⁷`
of the white point's XYZ and each unit primary within `5·10⁻⁷` of a colour of its chromaticity. -/
theorem C03_toXYZ_float (s : Space) (r g b : Nat) (M : ℚ) (hM0 : 0 ≤ M) (hM : M ≤ 2 ^ 100)
    (hr : Fin b32 r ∧ |toQ b32 r| ≤ M) (hg : Fin b32 g ∧ |toQ b32 g| ≤ M) (hb : Fin b32 b ∧ |toQ b32 b| ≤ M) :
    let p := toXYZ s ⟨r, g, b⟩
    let R := refMatrix s
    |toQ b32 p.1 - rowApply (qmRow R 0) (toQ b32 r) (toQ b32 g) (toQ b32 b)| ≤ 5 / 10000000 * M + 1 / 10 ^ 40 ∧
    |toQ b32 p.2.1 - rowApply (qmRow R 1) (toQ b32 r) (toQ b32 g) (toQ b32 b)| ≤ 5 / 10000000 * M + 1 / 10 ^ 40 ∧
    |toQ b32 p.2.2 - rowApply (qmRow R 2) (toQ b32 r) (toQ b32 g) (toQ b32 b)| ≤ 5 / 10000000 * M + 1 / 10 ^ 40 := by
  intro p R
  have he : p = _ := toXYZ_is_expr s r g b
  have henv := env3 r g b M 1 1 1 hM0 (by simpa using hr) (by simpa using hg) (by simpa using hb) (by norm_num)
  have h := fun k hk => rowsOk_sound (toXYZE s) (qmRow (refMatrix s)) [1, 1, 1] _ _ (toXYZ_ok s) m111 M hM0 hM (envOf r g b) henv k hk
  have h0 := (h 0 (by omega)).2
  have h1 := (h 1 (by omega)).2
  have h2 := (h 2 (by omega)).2
  rw [linSum_qmRow] at h0 h1 h2
  rw [he]
  exact ⟨h0, h1, h2⟩

/-- **`ColorFromXYZ` in floating point, every float32**: within `2.5·10⁻⁶·M` of the exact inverse of
the matrix fixed by the declared primaries, on the XYZ box. -/
theorem C03_fromXYZ_float (s : Space) (x y z : Nat) (M : ℚ) (hM0 : 0 ≤ M) (hM : M ≤ 2 ^ 100)
    (hx : Fin b32 x ∧ |toQ b32 x| ≤ M * (97 / 100)) (hy : Fin b32 y ∧ |toQ b32 y| ≤ M * 1)
    (hz : Fin b32 z ∧ |toQ b32 z| ≤ M * (11 / 10)) :
    let c := fromXYZ s x y z
    let R := qinv (refMatrix s)
    |toQ b32 c.r - rowApply (qmRow R 0) (toQ b32 x) (toQ b32 y) (toQ b32 z)| ≤ 25 / 10000000 * M + 1 / 10 ^ 40 ∧
    |toQ b32 c.g - rowApply (qmRow R 1) (toQ b32 x) (toQ b32 y) (toQ b32 z)| ≤ 25 / 10000000 * M + 1 / 10 ^ 40 ∧
    |toQ b32 c.b - rowApply (qmRow R 2) (toQ b32 x) (toQ b32 y) (toQ b32 z)| ≤ 25 / 10000000 * M + 1 / 10 ^ 40 := by
  intro c R
  have he : c = _ := fromXYZ_is_expr s x y z
  have henv := env3 x y z M _ _ _ hM0 hx hy hz (by norm_num)
  have h := fun k hk => rowsOk_sound (fromXYZE s) (qmRow (qinv (refMatrix s))) _ _ _ (fromXYZ_ok s) mXYZ M hM0 hM (envOf x y z) henv k hk
  have h0 := (h 0 (by omega)).2
  have h1 := (h 1 (by omega)).2
  have h2 := (h 2 (by omega)).2
  rw [linSum_qmRow] at h0 h1 h2
  rw [he]
  exact ⟨h0, h1, h2⟩

/-- non-vacuity: `(1, 1, 1)` (bits `0x3f800000`) satisfies the hypotheses with `M = 1` -/
example : Fin b32 0x3f800000 ∧ |toQ b32 0x3f800000| ≤ 1 := by
  refine ⟨⟨by decide, by decide⟩, ?_⟩
  have : toQ b32 0x3f800000 = 1 := by decide +kernel
  rw [this]; norm_num

end Prism
