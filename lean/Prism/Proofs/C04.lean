import Prism.Check.C03
import Prism.Proofs.C14

/-!
# C04 — cross-space pixel conversion agrees with an independent colorimetric reference (partial)

The documented pipeline is `decode (C01) → ToXYZ (C03) → Bradford (C12) → FromXYZ (C03) → encode
(C02)`.  Proved here, in exact rational arithmetic on regenerated data: for all 16 ordered pairs
the *linear* part of the pipeline — the product of the code's three matrices — is within
2·10⁻⁶ of the colorimetric reference `M_d⁻¹ · Bradford(W_s → W_d) · M_s` built from the declared
chromaticities alone; the two adaptation matrices the pairs use are the Bradford transform of
the declared whites; alpha passes through exactly.

Partial: the end-to-end statement for all 2³² pixels additionally needs the float evaluation
error of the pipeline (≈ 5·10⁻⁷, measured) and C02's per-index accuracy clause, which are not
proved; the harness evaluates the end-to-end statement against an independent float64
reference on every pixel it runs (worst distance from the reference interval is in the evidence).
-/

namespace Prism

/-- **C04 (linear part, all 16 pairs).** -/
theorem C04_linear_part_matches_reference : allPairsOk = true := by decide +kernel

/-- **C04 (adaptation matrices).** The D65→D50 and D50→D65 matrices the code computes are within
10⁻⁶ of the exact Bradford transform between the declared white points. -/
theorem C04_adaptation_matrices : adaptOk = true := by decide +kernel

/-- **C04 (alpha unchanged).** `ToNRGBA` writes `quant8 (A/255) = A` for every 8-bit alpha. -/
theorem C04_alpha (a : Nat) (ha : a < 256) : quant8 (F32.div (F32.ofNat a) f255) = a :=
  C14_alpha8_roundtrip a ha

/-- same-space conversion uses the identity adaptation -/
theorem C04_same_space_no_adaptation (s : Space) : pairAdaptQ s s = qident := by
  cases s <;> decide +kernel

end Prism
