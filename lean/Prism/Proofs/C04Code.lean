import Prism.Proofs.C04Compose
import Prism.Proofs.C04
import Prism.Proofs.C02Acc
import Prism.Proofs.C13Float

/-!
# C04 — the code that comes out, against the real-valued colorimetric reference, for every opaque 8-bit pixel

Composition of `C04_value_at_encoder` (the float32 value handed to the destination encoder is within
`5.3·10⁻⁶` of the reference `M_d⁻¹·Bradford·M_s·EOTF_s(R/255, G/255, B/255)` over ℝ) with C02's clip and
accuracy clauses for the 8-bit encoder: for all 16 ordered pairs and all 2²⁴ opaque pixels, each output
code `k` satisfies

    EOTF_d(max 0 ((k − ½)/255)) ≤ p ≤ EOTF_d(min 1 ((k + ½)/255))

for some `p` within half a step of the encoder's 9-bit table (`(1/1022)(1 + 1/50)`) plus `5.3·10⁻⁶` of the
reference value clipped to `[0, 1]` — "within the encoder's stated tolerance of the independent reference",
out-of-gamut values clip to 0 or 255 — and alpha is returned unchanged.
-/

namespace Prism
open SF SF.EC Prism.Ops

/-- `eq` on finite operands: equal values -/
theorem eq_sem (f : Fmt) (a b : Nat) (h : SF.eq f a b = true) : toQ f a = toQ f b := by
  unfold SF.eq at h
  simp only [force_eq] at h
  by_cases hn : (isNaN f a || isNaN f b) = true
  · rw [if_pos hn] at h; exact Bool.noConfusion h
  rw [if_neg hn] at h
  by_cases hz : (isZero f a && isZero f b) = true
  · rw [Bool.and_eq_true] at hz
    have za : valQ f a = 0 := by
      have : absBits f a = 0 := by unfold isZero at hz; simpa using hz.1
      rw [← valQ_abs, this, valQ_zero]
    have zb : valQ f b = 0 := by
      have : absBits f b = 0 := by unfold isZero at hz; simpa using hz.2
      rw [← valQ_abs, this, valQ_zero]
    unfold toQ; rw [za, zb]; simp
  · rw [if_neg hz] at h
    have : a = b := by simpa using h
    rw [this]

theorem le_sem (f : Fmt) (a b : Nat) (ha : Fin f a) (hb : Fin f b) :
    (SF.le f a b = true → toQ f a ≤ toQ f b) ∧ (SF.le f a b = false → toQ f b ≤ toQ f a) := by
  have hs := lt_sem f a b ha hb
  unfold SF.le
  constructor
  · intro h
    rw [Bool.or_eq_true] at h
    rcases h with h | h
    · exact hs.1 h
    · exact le_of_eq (eq_sem f a b h)
  · intro h
    rw [Bool.or_eq_false_iff] at h
    exact hs.2 h.1

theorem zero_val : Fin b32 F32.zero ∧ toQ b32 F32.zero = 0 := ⟨⟨by decide +kernel, by decide +kernel⟩, by decide +kernel⟩
theorem one_val : Fin b32 F32.one ∧ toQ b32 F32.one = 1 := ⟨⟨by decide +kernel, by decide +kernel⟩, by decide +kernel⟩

/-- a finite float32 that is neither `≤ 0` nor `≥ 1` is a positive pattern below the pattern of 1.0 -/
theorem mid_pattern (x : Nat) (hx : Fin b32 x) (h0 : F32.le x F32.zero = false) (h1 : F32.ge x F32.one = false) :
    0 < x ∧ x < 1065353216 := by
  obtain ⟨nx, _⟩ := fin_flags b32 x hx
  have hsb : b32.signBit = 0x80000000 := by decide
  have hinf : b32.infBits = 0x7f800000 := by decide
  -- not negative, not zero
  have hpos : isNeg b32 x = false ∧ isZero b32 x = false := by
    unfold F32.le SF.le SF.lt SF.eq at h0
    simp only [force_eq, nx, Bool.false_or, Bool.false_eq_true, if_false] at h0
    have nz : isNaN b32 F32.zero = false := by decide
    have zz : isZero b32 F32.zero = true := by decide
    have gz : isNeg b32 F32.zero = false := by decide
    simp only [nz, zz, gz, Bool.or_false, Bool.and_true, Bool.false_eq_true, if_false, Bool.not_false] at h0
    cases hzx : isZero b32 x
    · cases hnx : isNeg b32 x
      · exact ⟨rfl, rfl⟩
      · simp [hzx, hnx] at h0
    · simp [hzx] at h0
  obtain ⟨hneg, hzero⟩ := hpos
  have hlt : x < b32.signBit := by
    unfold isNeg at hneg
    exact Nat.not_le.mp (fun hle => by rw [Nat.ble_eq_true_of_le hle] at hneg; exact Bool.noConfusion hneg)
  have habs : absBits b32 x = x := Nat.mod_eq_of_lt hlt
  have hx0 : 0 < x := by
    unfold isZero at hzero
    rw [habs] at hzero
    exact Nat.pos_of_ne_zero (by simpa using hzero)
  refine ⟨hx0, ?_⟩
  -- below one
  unfold F32.ge SF.ge SF.le SF.lt SF.eq at h1
  have n1 : isNaN b32 F32.one = false := by decide
  have z1 : isZero b32 F32.one = false := by decide
  have g1 : isNeg b32 F32.one = false := by decide
  have a1 : absBits b32 F32.one = 1065353216 := by decide
  simp only [force_eq, nx, n1, z1, g1, hneg, a1, habs, Bool.or_self, Bool.false_and, Bool.false_eq_true, if_false, Bool.not_false,
    Bool.and_true, Bool.and_false, Bool.not_true, Bool.or_eq_false_iff] at h1
  obtain ⟨hb, he⟩ := h1
  have h2 : x ≤ 1065353216 := le_of_blt_false hb
  have h3 : x ≠ 1065353216 := by
    intro hc
    have : (F32.one == x) = true := by rw [hc]; decide
    rw [this] at he; exact Bool.noConfusion he
  omega

theorem eotf_bounds (s : Space) (v : ℝ) (h0 : 0 ≤ v) (h1 : v ≤ 1) : 0 ≤ s.eotf v ∧ s.eotf v ≤ 1 := by
  have srgb : 0 ≤ srgbEOTF v ∧ srgbEOTF v ≤ 1 := by
    unfold srgbEOTF
    split
    · constructor
      · positivity
      · rw [div_le_one (by norm_num)]; linarith
    · have hb0 : 0 ≤ (v + 0.055) / 1.055 := by positivity
      have hb1 : (v + 0.055) / 1.055 ≤ 1 := by rw [div_le_one (by norm_num)]; linarith
      exact ⟨Real.rpow_nonneg hb0 _, Real.rpow_le_one hb0 hb1 (by norm_num)⟩
  cases s
  · exact srgb
  · exact ⟨Real.rpow_nonneg h0 _, Real.rpow_le_one h0 h1 (by norm_num)⟩
  · show 0 ≤ prophotoEOTF v ∧ prophotoEOTF v ≤ 1
    unfold prophotoEOTF
    split
    · constructor
      · positivity
      · rw [div_le_one (by norm_num)]; linarith
    · exact ⟨Real.rpow_nonneg h0 _, Real.rpow_le_one h0 h1 (by norm_num)⟩
  · exact srgb

theorem space_eotf_zero (s : Space) : s.eotf 0 = 0 := by
  rw [← Space.curve_eotf s 0 le_rfl]; exact curve_eotf_zero s
theorem space_eotf_one (s : Space) : s.eotf 1 = 1 := by
  rw [← Space.curve_eotf s 1 (by norm_num)]; exact curve_eotf_one s

/-- the reference value clipped to the encodable range -/
noncomputable def clamp01 (v : ℝ) : ℝ := max 0 (min 1 v)

/-- the encoder's tolerance in linear light: half a step of its 9-bit table (+2 %) plus the pipeline's `5.3·10⁻⁶` -/
noncomputable def tol8 : ℝ := 1 / (2 * 511) * (1 + 1 / 50) + 53 / 10000000

/-- **From the value at the encoder to the code.** -/
theorem code_of_value (dst : Space) (x : Nat) (hx : Fin b32 x) (vs : ℝ)
    (h : |((toQ b32 x : ℚ) : ℝ) - vs| ≤ 53 / 10000000) :
    ∃ p : ℝ, |p - clamp01 vs| ≤ tol8 ∧
      dst.eotf (max 0 (((to8 dst x : ℕ) - 1 / 2) / 255)) ≤ p ∧
      p ≤ dst.eotf (min 1 (((to8 dst x : ℕ) + 1 / 2) / 255)) := by
  obtain ⟨fz, vz⟩ := zero_val
  obtain ⟨fo, vo⟩ := one_val
  have htol : (53:ℝ) / 10000000 ≤ tol8 := by unfold tol8; norm_num
  cases h0 : F32.le x F32.zero
  · cases h1 : F32.ge x F32.one
    · -- strictly inside: C02 (d)
      obtain ⟨hx0, hx1⟩ := mid_pattern x hx h0 h1
      obtain ⟨p, hp, lo, hi⟩ := C02_accuracy8 dst x hx0 hx1
      refine ⟨p, ?_, lo, hi⟩
      obtain ⟨fp, vle⟩ := mid_fin x hx1
      obtain ⟨_, hq⟩ := finPos_fin b32 b32_ok x fp
      have hval : ((toQ b32 x : ℚ) : ℝ) = f32ToReal x := by
        rw [hq]; unfold valQ f32ToReal; push_cast; rfl
      have hv0 : 0 ≤ f32ToReal x := by rw [← hval, hq]; exact_mod_cast valQ_nonneg b32 x
      have hv1 : f32ToReal x ≤ 1 := by rw [← hval, hq]; exact_mod_cast vle
      rw [hval] at h
      -- clamping does not increase the distance to a point of [0,1]
      have hcl : |f32ToReal x - clamp01 vs| ≤ 53 / 10000000 := by
        unfold clamp01
        have := abs_le.mp h
        rw [abs_le]
        constructor
        · have : max 0 (min 1 vs) ≤ max 0 vs := max_le_max le_rfl (min_le_right _ _)
          have h2 : max 0 vs ≤ f32ToReal x + 53 / 10000000 := max_le (by linarith) (by linarith)
          linarith
        · have h2 : min 1 vs ≤ max 0 (min 1 vs) := le_max_right _ _
          have h3 : f32ToReal x - 53 / 10000000 ≤ min 1 vs := le_min (by linarith) (by linarith)
          linarith
      have t := abs_sub_le p (f32ToReal x) (clamp01 vs)
      unfold tol8
      linarith
    · -- x ≥ 1: clipped to 255
      obtain ⟨_, k255, _⟩ := C02_clip_high dst 511 x h0 h1
      have hge : (1:ℚ) ≤ toQ b32 x := by
        have := (le_sem b32 F32.one x fo hx).1 (by simpa [F32.ge, SF.ge] using h1)
        rwa [vo] at this
      have hgeR : (1:ℝ) ≤ ((toQ b32 x : ℚ) : ℝ) := by exact_mod_cast hge
      refine ⟨1, ?_, ?_, ?_⟩
      · unfold clamp01
        have := (abs_le.mp h).2
        have hvs : 1 - 53 / 10000000 ≤ vs := by linarith
        have hm : min 1 vs ≤ 1 := min_le_left _ _
        have hm2 : 1 - 53 / 10000000 ≤ min 1 vs := le_min (by norm_num) hvs
        have hmax : max 0 (min 1 vs) = min 1 vs := max_eq_right (by linarith)
        rw [hmax, abs_of_nonneg (by linarith)]
        linarith
      · rw [k255]
        have hb := eotf_bounds dst (max 0 ((((255:ℕ):ℝ) - 1 / 2) / 255)) (le_max_left _ _)
          (max_le (by norm_num) (by push_cast; norm_num))
        exact hb.2
      · rw [k255]
        have : min (1:ℝ) ((((255:ℕ):ℝ) + 1 / 2) / 255) = 1 := min_eq_left (by push_cast; norm_num)
        rw [this, space_eotf_one]
  · -- x ≤ 0: clipped to 0
    obtain ⟨_, k0, _⟩ := C02_clip_low dst 511 x h0
    have hle : toQ b32 x ≤ 0 := by
      have := (le_sem b32 x F32.zero hx fz).1 (by simpa [F32.le] using h0)
      rwa [vz] at this
    have hleR : ((toQ b32 x : ℚ) : ℝ) ≤ 0 := by exact_mod_cast hle
    refine ⟨0, ?_, ?_, ?_⟩
    · unfold clamp01
      have := (abs_le.mp h).1
      have hvs : vs ≤ 53 / 10000000 := by linarith
      have h2 : max 0 (min 1 vs) ≤ 53 / 10000000 := max_le (by norm_num) (le_trans (min_le_right _ _) hvs)
      have h3 : 0 ≤ max 0 (min 1 vs) := le_max_left _ _
      rw [zero_sub, abs_neg, abs_of_nonneg h3]
      linarith
    · rw [k0]
      have : max (0:ℝ) ((((0:ℕ):ℝ) - 1 / 2) / 255) = 0 := max_eq_left (by push_cast; norm_num)
      rw [this, space_eotf_zero]
    · rw [k0]
      have hb := eotf_bounds dst (min 1 ((((0:ℕ):ℝ) + 1 / 2) / 255)) (le_min (by norm_num) (by push_cast; norm_num)) (min_le_left _ _)
      exact hb.1


/-- the values handed to the encoder are finite float32 numbers -/
theorem C04_value_fin (src dst : Space) (R G B : Nat) (hR : R < 256) (hG : G < 256) (hB : B < 256) :
    let c := pipeLin src dst (pairAdapt src dst) (fromNRGBA src R G B 255).1
    Fin b32 c.r ∧ Fin b32 c.g ∧ Fin b32 c.b := by
  intro c
  obtain ⟨fR, bR, _⟩ := dec8_fin src R hR
  obtain ⟨fG, bG, _⟩ := dec8_fin src G hG
  obtain ⟨fB, bB, _⟩ := dec8_fin src B hB
  have hp := C04_pipeline_linear src dst (dec8 src R) (dec8 src G) (dec8 src B) 1 (by norm_num) (by norm_num)
    ⟨fR, bR⟩ ⟨fG, bG⟩ ⟨fB, bB⟩
  simp only at hp
  exact ⟨hp.1.1, hp.2.1.1, hp.2.2.1⟩

/-- **C04 (the code that comes out; every opaque 8-bit pixel, all 16 ordered pairs).**  Each channel's code `k`
brackets, through the destination's published EOTF at `k ± ½`, a point `p` within the encoder's tolerance
(`tol8`: half a step of its 9-bit table + 2 %, plus `5.3·10⁻⁶`) of the independent real-valued reference
clipped to `[0, 1]`; alpha comes out as it went in. -/
theorem C04_code_accuracy (src dst : Space) (R G B : Nat) (hR : R < 256) (hG : G < 256) (hB : B < 256) :
    let px := convertPixel src dst (pairAdapt src dst) R G B 255
    let M := pairRef src dst
    let e := fun (x : Nat) => src.eotf ((x : ℝ) / 255)
    (∃ p : ℝ, |p - clamp01 (rowApplyR (qmRow M 0) (e R) (e G) (e B))| ≤ tol8 ∧
      dst.eotf (max 0 (((px.r : ℕ) - 1 / 2) / 255)) ≤ p ∧ p ≤ dst.eotf (min 1 (((px.r : ℕ) + 1 / 2) / 255))) ∧
    (∃ p : ℝ, |p - clamp01 (rowApplyR (qmRow M 1) (e R) (e G) (e B))| ≤ tol8 ∧
      dst.eotf (max 0 (((px.g : ℕ) - 1 / 2) / 255)) ≤ p ∧ p ≤ dst.eotf (min 1 (((px.g : ℕ) + 1 / 2) / 255))) ∧
    (∃ p : ℝ, |p - clamp01 (rowApplyR (qmRow M 2) (e R) (e G) (e B))| ≤ tol8 ∧
      dst.eotf (max 0 (((px.b : ℕ) - 1 / 2) / 255)) ≤ p ∧ p ≤ dst.eotf (min 1 (((px.b : ℕ) + 1 / 2) / 255))) ∧
    px.a = 255 := by
  intro px M e
  have hv := C04_value_at_encoder src dst R G B hR hG hB
  have hf := C04_value_fin src dst R G B hR hG hB
  simp only at hv hf
  have hpx : px = toNRGBA dst (pipeLin src dst (pairAdapt src dst) (fromNRGBA src R G B 255).1) (fromNRGBA src R G B 255).2 :=
    convertPixel_eq src dst _ R G B 255
  rw [hpx]
  refine ⟨code_of_value dst _ hf.1 _ hv.1, code_of_value dst _ hf.2.1 _ hv.2.1, code_of_value dst _ hf.2.2 _ hv.2.2, ?_⟩
  exact C04_alpha 255 (by norm_num)


end Prism
