import Prism.Proofs.C04Float
import Prism.Proofs.C01

/-!
# C04 — what reaches the encoder, against the real-valued colorimetric reference, for every 8-bit pixel

Composition of two results that were proved separately:

* C01: every decode-table entry is within `3·10⁻⁷` of the published EOTF **over ℝ**;
* C04 (linear stage): for every triple of finite float32 inputs the float pipeline is within
  `4·10⁻⁶` of the exact reference matrix applied to those inputs.

Hence, for all 16 ordered pairs and **all 2²⁴ opaque 8-bit pixels** `(R, G, B)`: the linear value the
pipeline hands to the destination encoder is within `5.3·10⁻⁶` of

    M_dst⁻¹ · Bradford(W_src → W_dst) · M_src · EOTF_src(R/255, G/255, B/255)        (over ℝ)

— the independent reference the property names, built from the standards' formulas and the declared
chromaticities only.  (Clause left to C02(d): the encoder's half-code accuracy.)
-/

namespace Prism
open SF SF.EC Prism.Ops

/-- a row of rationals applied to three reals -/
noncomputable def rowApplyR (row : List ℚ) (r g b : ℝ) : ℝ :=
  ((row.getD 0 0 : ℚ) : ℝ) * r + ((row.getD 1 0 : ℚ) : ℝ) * g + ((row.getD 2 0 : ℚ) : ℝ) * b

theorem rowApply_cast (row : List ℚ) (r g b : ℚ) :
    ((rowApply row r g b : ℚ) : ℝ) = rowApplyR row (r : ℝ) (g : ℝ) (b : ℝ) := by
  unfold rowApply rowApplyR; push_cast; ring

/-- absolute row sums of every pair's reference matrix are at most 4 -/
def refRowsOk (src dst : Space) : Bool :=
  (List.range 3).all fun k =>
    let row := qmRow (pairRef src dst) k
    decide (qabs (row.getD 0 0) + qabs (row.getD 1 0) + qabs (row.getD 2 0) ≤ 4)

theorem refRows_ok (src dst : Space) : refRowsOk src dst = true := by
  cases src <;> cases dst <;> decide +kernel

theorem pqabs_eq (x : ℚ) : Prism.qabs x = |x| := by
  unfold Prism.qabs
  split
  · rename_i h; rw [abs_of_neg h]
  · rename_i h; rw [abs_of_nonneg (not_lt.mp h)]

theorem rowApplyR_lipschitz (row : List ℚ) (r g b r' g' b' e : ℝ)
    (hr : |r - r'| ≤ e) (hg : |g - g'| ≤ e) (hb : |b - b'| ≤ e)
    (hrow : qabs (row.getD 0 0) + qabs (row.getD 1 0) + qabs (row.getD 2 0) ≤ 4) :
    |rowApplyR row r g b - rowApplyR row r' g' b'| ≤ 4 * e := by
  unfold rowApplyR
  have he : 0 ≤ e := (abs_nonneg _).trans hr
  rw [pqabs_eq, pqabs_eq, pqabs_eq] at hrow
  have hrow' : |((row.getD 0 0 : ℚ) : ℝ)| + |((row.getD 1 0 : ℚ) : ℝ)| + |((row.getD 2 0 : ℚ) : ℝ)| ≤ 4 := by
    have : ((|row.getD 0 0| + |row.getD 1 0| + |row.getD 2 0| : ℚ) : ℝ) ≤ ((4 : ℚ) : ℝ) := by exact_mod_cast hrow
    push_cast at this
    simpa using this
  set a0 := ((row.getD 0 0 : ℚ) : ℝ)
  set a1 := ((row.getD 1 0 : ℚ) : ℝ)
  set a2 := ((row.getD 2 0 : ℚ) : ℝ)
  have e1 : a0 * r + a1 * g + a2 * b - (a0 * r' + a1 * g' + a2 * b') = a0 * (r - r') + a1 * (g - g') + a2 * (b - b') := by ring
  rw [e1]
  calc |a0 * (r - r') + a1 * (g - g') + a2 * (b - b')|
      ≤ |a0 * (r - r')| + |a1 * (g - g')| + |a2 * (b - b')| :=
        (abs_add_le _ _).trans (add_le_add (abs_add_le _ _) le_rfl)
    _ = |a0| * |r - r'| + |a1| * |g - g'| + |a2| * |b - b'| := by rw [abs_mul, abs_mul, abs_mul]
    _ ≤ |a0| * e + |a1| * e + |a2| * e :=
        add_le_add (add_le_add (mul_le_mul_of_nonneg_left hr (abs_nonneg _)) (mul_le_mul_of_nonneg_left hg (abs_nonneg _)))
          (mul_le_mul_of_nonneg_left hb (abs_nonneg _))
    _ = (|a0| + |a1| + |a2|) * e := by ring
    _ ≤ 4 * e := mul_le_mul_of_nonneg_right hrow' he

/-- a decode-table entry is a finite non-negative float of value at most 1 -/
theorem dec8_fin (s : Space) (v : Nat) (hv : v < 256) :
    Fin b32 (dec8 s v) ∧ |toQ b32 (dec8 s v)| ≤ 1 ∧ ((toQ b32 (dec8 s v) : ℚ) : ℝ) = f32ToReal (dec8 s v) := by
  have hle : dec8 s v ≤ 0x3f800000 := by
    by_cases h : v = 255
    · subst h; exact Nat.le_of_eq (C01_endpoints s).2.2.2
    · have := C01_strict_mono8 s v 255 (by omega) (by omega)
      rw [(C01_endpoints s).2.2.2] at this
      omega
  have hsb : b32.signBit = 0x80000000 := by decide
  have hinf : b32.infBits = 0x7f800000 := by decide
  have habs : absBits b32 (dec8 s v) = dec8 s v := by
    unfold absBits; rw [hsb]; exact Nat.mod_eq_of_lt (by omega)
  have hneg : isNeg b32 (dec8 s v) = false := by
    unfold isNeg; rw [hsb]; exact ble_false (by omega)
  have hfin : Fin b32 (dec8 s v) := ⟨by rw [habs, hinf]; omega, by rw [hsb]; omega⟩
  have hq : toQ b32 (dec8 s v) = valQ b32 (dec8 s v) := by unfold toQ; rw [hneg]; simp
  refine ⟨hfin, ?_, ?_⟩
  · rw [abs_toQ]
    have hv1 := valLe_of_le b32 (dec8 s v) 0x3f800000 (by rw [hsb]; omega) hle
    unfold valLe at hv1
    have one : valQ b32 0x3f800000 = 1 := by decide +kernel
    have hd1 := den_pos' b32 (dec8 s v)
    have hd2 := den_pos' b32 0x3f800000
    have : valQ b32 (dec8 s v) ≤ valQ b32 0x3f800000 := by
      unfold valQ
      rw [div_le_div_iff₀ (by exact_mod_cast hd1) (by exact_mod_cast hd2)]
      exact_mod_cast hv1
    rw [one] at this; exact this
  · rw [hq]; unfold valQ f32ToReal; push_cast; rfl

/-- **C04 (value at the encoder, every opaque 8-bit pixel, all 16 pairs).** -/
theorem C04_value_at_encoder (src dst : Space) (R G B : Nat) (hR : R < 256) (hG : G < 256) (hB : B < 256) :
    let c := pipeLin src dst (pairAdapt src dst) (fromNRGBA src R G B 255).1
    let M := pairRef src dst
    let e := fun (x : Nat) => src.eotf ((x : ℝ) / 255)
    |((toQ b32 c.r : ℚ) : ℝ) - rowApplyR (qmRow M 0) (e R) (e G) (e B)| ≤ 53 / 10000000 ∧
    |((toQ b32 c.g : ℚ) : ℝ) - rowApplyR (qmRow M 1) (e R) (e G) (e B)| ≤ 53 / 10000000 ∧
    |((toQ b32 c.b : ℚ) : ℝ) - rowApplyR (qmRow M 2) (e R) (e G) (e B)| ≤ 53 / 10000000 := by
  intro c M e
  obtain ⟨fR, bR, cR⟩ := dec8_fin src R hR
  obtain ⟨fG, bG, cG⟩ := dec8_fin src G hG
  obtain ⟨fB, bB, cB⟩ := dec8_fin src B hB
  have hl : (fromNRGBA src R G B 255).1 = ⟨dec8 src R, dec8 src G, dec8 src B⟩ := rfl
  have hp := C04_pipeline_linear src dst (dec8 src R) (dec8 src G) (dec8 src B) 1 (by norm_num) (by norm_num)
    ⟨fR, bR⟩ ⟨fG, bG⟩ ⟨fB, bB⟩
  simp only at hp
  have aR := C01_dec8_accurate src R hR
  have aG := C01_dec8_accurate src G hG
  have aB := C01_dec8_accurate src B hB
  rw [← cR] at aR; rw [← cG] at aG; rw [← cB] at aB
  have hrows := refRows_ok src dst
  unfold refRowsOk at hrows
  rw [List.all_eq_true] at hrows
  have key : ∀ k, k < 3 → ∀ (x : ℚ), |x - rowApply (qmRow M k) (toQ b32 (dec8 src R)) (toQ b32 (dec8 src G)) (toQ b32 (dec8 src B))|
        ≤ 4 / 1000000 * 1 + 1 / 10 ^ 40 →
      |(x : ℝ) - rowApplyR (qmRow M k) (e R) (e G) (e B)| ≤ 53 / 10000000 := by
    intro k hk x hx
    have hrow := hrows k (by simp; omega)
    simp only [decide_eq_true_eq] at hrow
    have lip : |rowApplyR (qmRow M k) ((toQ b32 (dec8 src R) : ℚ) : ℝ) ((toQ b32 (dec8 src G) : ℚ) : ℝ) ((toQ b32 (dec8 src B) : ℚ) : ℝ) -
        rowApplyR (qmRow M k) (e R) (e G) (e B)| ≤ 4 * (3 / 10000000) :=
      rowApplyR_lipschitz (qmRow M k) _ _ _ _ _ _ _ aR aG aB hrow
    have hx' : |(x : ℝ) - rowApplyR (qmRow M k) ((toQ b32 (dec8 src R) : ℚ) : ℝ) ((toQ b32 (dec8 src G) : ℚ) : ℝ) ((toQ b32 (dec8 src B) : ℚ) : ℝ)|
        ≤ 4 / 1000000 * 1 + 1 / 10 ^ 40 := by
      rw [← rowApply_cast]
      have : ((|x - rowApply (qmRow M k) (toQ b32 (dec8 src R)) (toQ b32 (dec8 src G)) (toQ b32 (dec8 src B))| : ℚ) : ℝ)
          ≤ ((4 / 1000000 * 1 + 1 / 10 ^ 40 : ℚ) : ℝ) := by exact_mod_cast hx
      push_cast at this
      exact this
    have tri := abs_sub_le (x : ℝ) (rowApplyR (qmRow M k) ((toQ b32 (dec8 src R) : ℚ) : ℝ) ((toQ b32 (dec8 src G) : ℚ) : ℝ) ((toQ b32 (dec8 src B) : ℚ) : ℝ))
      (rowApplyR (qmRow M k) (e R) (e G) (e B))
    have num : (4:ℝ) / 1000000 * 1 + 1 / 10 ^ 40 + 4 * (3 / 10000000) ≤ 53 / 10000000 := by norm_num
    linarith
  have hc : c = pipeLin src dst (pairAdapt src dst) ⟨dec8 src R, dec8 src G, dec8 src B⟩ := by
    show pipeLin src dst (pairAdapt src dst) (fromNRGBA src R G B 255).1 = _
    rw [hl]
  rw [hc]
  exact ⟨key 0 (by omega) _ hp.1.2, key 1 (by omega) _ hp.2.1.2, key 2 (by omega) _ hp.2.2.2⟩

end Prism
