import Prism.Proofs.C03Float
import Prism.Driver.FloatOps

/-!
# C04 — the linear stage of the cross-space pipeline in floating point, for every float32

`convertPixel src dst` (the documented pipeline) is `decode → [ToXYZ → (Apply) → ColorFromXYZ] → encode`.
The bracketed stage is a linear float program — float32 matrix, float32→float64, float64 Bradford
matrix, float64→float32, float32 matrix — hence an expression of the verified error calculus.  For
all 16 ordered pairs one kernel evaluation bounds, for **every** triple of finite float32 inputs with
`|·| ≤ M`, the distance between what the code computes and the *exact colorimetric reference*

    M_dst⁻¹ · Bradford(W_src → W_dst) · M_src        (exact rationals from the declared chromaticities)

by `ε_pipe·M + 10⁻⁴⁰` with `ε_pipe = 4·10⁻⁶` (`C04_pipeline_linear`).  With `M = 1` (decoded table
values lie in `[0,1]`, C01) this is the `ε_pipe` of DESIGN §4 C04.
-/

namespace Prism
open SF SF.EC Prism.Ops

def cD (b : Nat) : Ex := .const .d b

/-- `ChromaticAdaptation.Apply` for a fixed matrix given as 9 float64 in Go's `m[col][row]` order:
`ToV` (float32→float64), `MulV`, `ColorFromV` (float64→float32) -/
def applyE (l : List Nat) (p : Ex × Ex × Ex) : Ex × Ex × Ex :=
  match l with
  | [m00, m01, m02, m10, m11, m12, m20, m21, m22] =>
    let x := Ex.cvt .s .d p.1
    let y := Ex.cvt .s .d p.2.1
    let z := Ex.cvt .s .d p.2.2
    let row := fun (a b c : Nat) =>
      Ex.cvt .d .s (.add .d (.add .d (.mul .d (cD a) x) (.mul .d (cD b) y)) (.mul .d (cD c) z))
    (row m00 m10 m20, row m01 m11 m21, row m02 m12 m22)
  | _ => (cS 0, cS 0, cS 0)

/-- the regenerated adaptation matrix a pair uses (`none`: same white point, no adaptation) -/
def pairAdaptL (src dst : Space) : Option (List Nat) :=
  match src, dst with
  | .prophoto, .prophoto => none
  | .prophoto, _ => some Gen.adaptD50toD65
  | _, .prophoto => some Gen.adaptD65toD50
  | _, _ => none

/-- the linear stage of `convertPixel` -/
def pipeLin (src dst : Space) (ad : Option Mat.M3) (l : Lin) : Lin :=
  let xyz := toXYZ src l
  let xyz := match ad with
    | none => xyz
    | some m => Xyz.apply m xyz
  fromXYZ dst xyz.1 xyz.2.1 xyz.2.2

theorem convertPixel_eq (src dst : Space) (ad : Option Mat.M3) (r g b a : Nat) :
    convertPixel src dst ad r g b a =
      toNRGBA dst (pipeLin src dst ad (fromNRGBA src r g b a).1) (fromNRGBA src r g b a).2 := rfl

/-- the model's own computation of the adaptation (`Xyz.adaptXYY` on the declared whites, in
softfloat binary64) yields exactly the regenerated matrices of the real code -/
theorem pairAdapt_eq (src dst : Space) : pairAdapt src dst = (pairAdaptL src dst).map listToM3 := by
  cases src <;> cases dst <;> decide +kernel

def pipeE (src dst : Space) : Ex × Ex × Ex :=
  let p := toXYZE src
  let q := match pairAdaptL src dst with
    | none => p
    | some l => applyE l p
  matE (fromXYZCoef dst) q.1 q.2.1 q.2.2

theorem pipeLin_is_expr (src dst : Space) (r g b : Nat) :
    pipeLin src dst ((pairAdaptL src dst).map listToM3) ⟨r, g, b⟩ =
      ⟨evalSF (envOf r g b) (pipeE src dst).1, evalSF (envOf r g b) (pipeE src dst).2.1,
       evalSF (envOf r g b) (pipeE src dst).2.2⟩ := by
  cases src <;> cases dst <;> rfl

/-- the colorimetric reference for a pair: exact rationals from the declared chromaticities and the
exact Bradford transform (the same reference `Check/C03.pairOk` uses) -/
def pairRef (src dst : Space) : QM :=
  let adaptRef := if declared src 3 == declared dst 3 then qident else adaptExact (whiteXYZ src) (whiteXYZ dst)
  qmulM (qinv (refMatrix dst)) (qmulM adaptRef (refMatrix src))

theorem pipe_ok (src dst : Space) :
    rowsOk (pipeE src dst) (qmRow (pairRef src dst)) [1, 1, 1] (4 / 1000000) (1 / 10 ^ 40) = true := by
  cases src <;> cases dst <;> decide +kernel

/-- **C04 (linear stage, every float32, all 16 pairs).**  For every ordered pair of spaces and every
triple of finite float32 linear components with `|·| ≤ M ≤ 2¹⁰⁰`, the float pipeline `ToXYZ → (Bradford
Apply in float64) → ColorFromXYZ` returns finite floats within `4·10⁻⁶·M + 10⁻⁴⁰` of the exact
colorimetric reference `M_dst⁻¹·Bradford·M_src` applied to the same components. -/
theorem C04_pipeline_linear (src dst : Space) (r g b : Nat) (M : ℚ) (hM0 : 0 ≤ M) (hM : M ≤ 2 ^ 100)
    (hr : Fin b32 r ∧ |toQ b32 r| ≤ M) (hg : Fin b32 g ∧ |toQ b32 g| ≤ M) (hb : Fin b32 b ∧ |toQ b32 b| ≤ M) :
    let c := pipeLin src dst (pairAdapt src dst) ⟨r, g, b⟩
    let R := pairRef src dst
    (Fin b32 c.r ∧ |toQ b32 c.r - rowApply (qmRow R 0) (toQ b32 r) (toQ b32 g) (toQ b32 b)| ≤ 4 / 1000000 * M + 1 / 10 ^ 40) ∧
    (Fin b32 c.g ∧ |toQ b32 c.g - rowApply (qmRow R 1) (toQ b32 r) (toQ b32 g) (toQ b32 b)| ≤ 4 / 1000000 * M + 1 / 10 ^ 40) ∧
    (Fin b32 c.b ∧ |toQ b32 c.b - rowApply (qmRow R 2) (toQ b32 r) (toQ b32 g) (toQ b32 b)| ≤ 4 / 1000000 * M + 1 / 10 ^ 40) := by
  intro c R
  have he : c = ⟨evalSF (envOf r g b) (pipeE src dst).1, evalSF (envOf r g b) (pipeE src dst).2.1,
       evalSF (envOf r g b) (pipeE src dst).2.2⟩ := by
    show pipeLin src dst (pairAdapt src dst) ⟨r, g, b⟩ = _
    rw [pairAdapt_eq]; exact pipeLin_is_expr src dst r g b
  have henv := env3 r g b M 1 1 1 hM0 (by simpa using hr) (by simpa using hg) (by simpa using hb) (by norm_num)
  have h := fun k hk => rowsOk_sound (pipeE src dst) (qmRow (pairRef src dst)) [1, 1, 1] _ _ (pipe_ok src dst) m111 M hM0 hM (envOf r g b) henv k hk
  have h0 := h 0 (by omega)
  have h1 := h 1 (by omega)
  have h2 := h 2 (by omega)
  rw [linSum_qmRow] at h0 h1 h2
  rw [he]
  exact ⟨h0, h1, h2⟩

/-- same-space conversion: the reference is the identity up to the inverse pair's exact product,
so the linear stage returns its input within `4·10⁻⁶·M` (the round trip of C03 is the sharper statement) -/
theorem C04_same_space_reference (s : Space) : pairRef s s = qmulM (qinv (refMatrix s)) (qmulM qident (refMatrix s)) := by
  cases s <;> decide +kernel

end Prism
