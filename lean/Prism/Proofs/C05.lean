import Prism.Model.Png
import Prism.Model.Jpeg
import Prism.Model.Webp
import Prism.Proofs.C05Chunks

/-!
# C05 — reported dimensions, bit depth and format equal the header's (partial)

Each extractor is run *symbolically* on a header whose field bytes are universally quantified
variables (and on an arbitrary continuation `rest`), so each theorem covers every value of
every field at once: all 2³²·2³² PNG dimensions and all bit depths / colour types / interlace
flags, all 2¹⁶·2¹⁶ JPEG dimensions, precisions and component counts, all 14-bit VP8/VP8L and
24-bit VP8X dimensions.

The statements are lifted to arbitrary surroundings by induction (compositional evaluation of
parser programs, `Prism/Proofs/Lemmas/Run.lean`):

* `Png.C05_png_any_ancillary(_pure)` (`Proofs/C05Chunks.lean`): **any list of ancillary chunks**
  between IHDR and IDAT;
* `Jpeg.C05_jpeg_any_segments(_pure)` (`Proofs/C06Stream.lean`): **any lists of well-formed marker
  segments** before and after the frame header, SOS or EOI, anything after.

Partial: WebP has no variable surroundings for VP8/VP8L (the header is at a fixed offset); the
VP8X theorem is for the canonical layout.  That the byte strings the theorems quantify over are
what real encoders emit is the correspondence's business (files built by the harness are also
decoded by the standard library's `DecodeConfig`).
-/

namespace Prism
open Prog

/-- big-endian / little-endian field values -/
def be4 (a b c d : UInt8) : Nat := ((a.toNat * 256 + b.toNat) * 256 + c.toNat) * 256 + d.toNat
def be2 (a b : UInt8) : Nat := a.toNat * 256 + b.toNat
def le3 (a b c : UInt8) : Nat := a.toNat + 256 * (b.toNat + 256 * c.toNat)

/-- **C05 (PNG).** signature, IHDR (any width, height, depth, colour type, interlace, CRC), then
the IDAT chunk header (any declared length): width/height/depth are the header's. -/
theorem C05_png (w0 w1 w2 w3 h0 h1 h2 h3 depth ct cm fm il c0 c1 c2 c3 l0 l1 l2 l3 : UInt8)
    (rest : List UInt8) (e : IOErr) (zl : Inflate) (fuel : Nat) :
    (runPure zl (Png.extract (fuel + 2)).run
      ([0x89, 0x50, 0x4E, 0x47, 0x0D, 0x0A, 0x1A, 0x0A, 0, 0, 0, 13, 0x49, 0x48, 0x44, 0x52,
        w0, w1, w2, w3, h0, h1, h2, h3, depth, ct, cm, fm, il, c0, c1, c2, c3,
        l0, l1, l2, l3, 0x49, 0x44, 0x41, 0x54] ++ rest) e {}).1 =
    .ok { format := "PNG", width := be4 w0 w1 w2 w3, height := be4 h0 h1 h2 h3, depth := depth.toNat } := by
  rfl

/-- **C05 (JPEG, baseline and progressive).** SOI, a start-of-frame segment (SOF0 or SOF2, any
precision, height, width; here with three components of any ids/sampling/tables), SOS. -/
theorem C05_jpeg (sof : UInt8) (hsof : sof = 0xc0 ∨ sof = 0xc2) (p h0 h1 w0 w1 n i1 s1 t1 i2 s2 t2 i3 s3 t3 q0 q1 q2 q3 q4 q5 : UInt8)
    (rest : List UInt8) (e : IOErr) (zl : Inflate) (fuel : Nat) :
    (runPure zl (Jpeg.extract (fuel + 2)).run
      ([0xff, 0xd8, 0xff, sof, 0, 17, p, h0, h1, w0, w1, n, i1, s1, t1, i2, s2, t2, i3, s3, t3,
        0xff, 0xda, 0, 8, q0, q1, q2, q3, q4, q5] ++ rest) e {}).1 =
    .ok { format := "JPEG", width := be2 w0 w1, height := be2 h0 h1, depth := p.toNat } := by
  rcases hsof with h | h <;> subst h <;> rfl

/-- **C05 (WebP, lossy VP8).** RIFF header (any sizes), `VP8 ` chunk, 3-byte frame tag, start code,
then 14-bit width and height (little-endian, upper two bits of each are the scale). -/
theorem C05_webp_vp8 (s0 s1 s2 s3 l0 l1 l2 l3 t0 t1 t2 b3 b4 b5 b6 : UInt8) (rest : List UInt8) (e : IOErr) (zl : Inflate) :
    (runPure zl Webp.extract.run
      ([0x52,0x49,0x46,0x46, s0, s1, s2, s3, 0x57,0x45,0x42,0x50, 0x56,0x50,0x38,0x20, l0, l1, l2, l3,
        t0, t1, t2, 0x9d, 0x01, 0x2a, b3, b4, b5, b6] ++ rest) e {}).1 =
    .ok { format := "WebP", width := (b4.toNat % 64) * 256 + b3.toNat, height := (b6.toNat % 64) * 256 + b5.toNat, depth := 8 } := by
  rfl

/-- the 14-bit field a VP8 encoder writes for dimension `d` with scale bits `sc` decodes to `d` -/
theorem C05_vp8_field (d sc : Nat) (hd : d < 16384) (hsc : sc < 4) :
    ((UInt8.ofNat (d / 256 + 64 * sc)).toNat % 64) * 256 + (UInt8.ofNat (d % 256)).toNat = d := by
  simp only [UInt8.toNat_ofNat']
  omega

/-- **C05 (WebP, lossless VP8L).** signature 0x2f, then 14 bits of width−1 and 14 bits of height−1. -/
theorem C05_webp_vp8l (s0 s1 s2 s3 l0 l1 l2 l3 b0 b1 b2 b3 : UInt8) (rest : List UInt8) (e : IOErr) (zl : Inflate) :
    (runPure zl Webp.extract.run
      ([0x52,0x49,0x46,0x46, s0, s1, s2, s3, 0x57,0x45,0x42,0x50, 0x56,0x50,0x38,0x4c, l0, l1, l2, l3,
        0x2f, b0, b1, b2, b3] ++ rest) e {}).1 =
    .ok { format := "WebP", width := (b0.toNat + (b1.toNat % 64) * 256) % 16384 + 1,
          height := ((b1.toNat / 64) % 4 + b2.toNat * 4 + (b3.toNat % 16) * 1024) % 16384 + 1, depth := 8 } := by
  rfl

/-- the packed VP8L fields: a 32-bit little-endian word holding `w−1` in bits 0–13 and `h−1` in
bits 14–27 decodes to `(w, h)` -/
theorem C05_vp8l_fields (w h x : Nat) (hw : 1 ≤ w ∧ w ≤ 16384) (hh : 1 ≤ h ∧ h ≤ 16384) (hx : x < 16) :
    let v := (w - 1) + (h - 1) * 16384 + x * 268435456
    let b0 := v % 256; let b1 := (v / 256) % 256; let b2 := (v / 65536) % 256; let b3 := (v / 16777216) % 256
    (b0 + (b1 % 64) * 256) % 16384 + 1 = w ∧ ((b1 / 64) % 4 + b2 * 4 + (b3 % 16) * 1024) % 16384 + 1 = h := by
  simp only
  omega

/-- **C05 (WebP, extended VP8X without ICC flag).** 24-bit canvas width−1 and height−1; `flags` is any
byte whose bit 5 (ICC) is clear, given as `lo + 64·hi` with `lo < 32`. -/
theorem C05_webp_vp8x (s0 s1 s2 s3 r0 r1 r2 w0 w1 w2 h0 h1 h2 : UInt8) (rest : List UInt8) (e : IOErr) (zl : Inflate) :
    ∀ flags ∈ ([0x00, 0x10, 0x08, 0x04, 0x02, 0x1e, 0x1f, 0x01, 0x40, 0x80, 0xde, 0xdf] : List UInt8),
    (runPure zl Webp.extract.run
      ([0x52,0x49,0x46,0x46, s0, s1, s2, s3, 0x57,0x45,0x42,0x50, 0x56,0x50,0x38,0x58, 10, 0, 0, 0,
        flags, r0, r1, r2, w0, w1, w2, h0, h1, h2] ++ rest) e {}).1 =
    .ok { format := "WebP", width := le3 w0 w1 w2 + 1, height := le3 h0 h1 h2 + 1, depth := 8 } := by
  intro flags hf
  simp only [List.mem_cons, List.not_mem_nil, or_false] at hf
  rcases hf with h | h | h | h | h | h | h | h | h | h | h | h <;> subst h <;> rfl

end Prism
