import Prism.Proofs.Lemmas.Run
import Prism.Model.Png

/-!
# C05 (PNG): any sequence of ancillary chunks between IHDR and IDAT — by induction
-/

namespace Prism.Png
open Prog Parser

/-- an ancillary chunk: any type other than IHDR, iCCP, IDAT, IEND; any data; any CRC bytes -/
structure Anc where
  ty : List UInt8
  data : List UInt8
  crc : List UInt8

def Anc.ok (c : Anc) : Prop :=
  c.ty.length = 4 ∧ c.crc.length = 4 ∧ c.data.length < 4294967296 ∧
  c.ty ≠ tIHDR ∧ c.ty ≠ tiCCP ∧ c.ty ≠ tIDAT ∧ c.ty ≠ tIEND

def Anc.bytes (c : Anc) : List UInt8 := enc32be c.data.length ++ c.ty ++ c.data ++ c.crc

theorem run3_chunkHeader (zl : Inflate) (n : Nat) (hn : n < 4294967296) (ty rest : List UInt8) (hty : ty.length = 4) (e : IOErr) :
    run3 zl chunkHeader.run (enc32be n ++ ty ++ rest) e = (.ok (n, ty), rest) := by
  unfold chunkHeader
  rw [List.append_assoc, Parser.run3_bind, Parser.run3_u32be_enc zl n hn]
  simp only
  rw [Parser.run3_bind]
  have h4 : run3 zl (Parser.full 4).run (ty ++ rest) e = (.ok ty, rest) := by
    rw [← hty]; exact Parser.run3_full_append zl ty rest e
  rw [Parser.run3_mapErr_ok zl _ _ _ _ _ _ h4]
  rfl

/-- a 4-byte field read as a big-endian number: succeeds, whatever the bytes -/
theorem run3_u32be_any (zl : Inflate) (c rest : List UInt8) (hc : c.length = 4) (e : IOErr) :
    ∃ v, run3 zl Parser.u32be.run (c ++ rest) e = (.ok v, rest) := by
  match c, hc with
  | [a, b, cc, d], _ =>
    refine ⟨((a.toNat * 256 + b.toNat) * 256 + cc.toNat) * 256 + d.toNat, ?_⟩
    unfold Parser.u32be
    simp only [List.cons_append, List.nil_append]
    rw [Parser.run3_bind, Parser.run3_byte_cons]; simp only
    rw [Parser.run3_bind, Parser.run3_byte_cons]; simp only
    rw [Parser.run3_bind, Parser.run3_byte_cons]; simp only
    rw [Parser.run3_bind, Parser.run3_byte_cons]; simp only
    rw [Parser.run3_pure]

/-- one ancillary chunk is skipped: the loop continues behind it with the same state -/
theorem loop_skips_anc (zl : Inflate) (c : Anc) (hc : c.ok) (fuel : Nat) (st : St) (more : List UInt8) (e : IOErr) :
    run3 zl (loop (fuel + 1) st).run (c.bytes ++ more) e = run3 zl (loop fuel st).run more e := by
  obtain ⟨hty, hcrc, hlen, h1, h2, h3, h4⟩ := hc
  unfold Anc.bytes
  simp only [loop]
  rw [Parser.run3_bind, Parser.run3_attempt]
  have hh : run3 zl chunkHeader.run (enc32be c.data.length ++ c.ty ++ c.data ++ c.crc ++ more) e =
      (.ok (c.data.length, c.ty), c.data ++ c.crc ++ more) := by
    have := run3_chunkHeader zl c.data.length hlen c.ty (c.data ++ c.crc ++ more) hty e
    simpa [List.append_assoc] using this
  rw [hh]
  simp only
  have b1 : (c.ty == tIHDR) = false := by simpa using h1
  have b2 : (c.ty == tiCCP) = false := by simpa using h2
  have b3 : (c.ty == tIDAT) = false := by simpa using h3
  have b4 : (c.ty == tIEND) = false := by simpa using h4
  simp only [b1, b2, b3, b4, Bool.false_eq_true, if_false, Bool.or_self]
  rw [Parser.run3_bind]
  have hs := Parser.run3_skip_append zl e c.data (c.crc ++ more)
  rw [List.append_assoc]
  rw [hs]
  simp only
  rw [Parser.run3_bind]
  obtain ⟨v, hv⟩ := run3_u32be_any zl c.crc more hcrc e
  rw [hv]

/-- any list of ancillary chunks is skipped -/
theorem loop_skips_ancs (zl : Inflate) (e : IOErr) : ∀ (cs : List Anc) (fuel : Nat) (st : St) (more : List UInt8),
    (∀ c ∈ cs, c.ok) →
    run3 zl (loop (fuel + cs.length) st).run (cs.flatMap Anc.bytes ++ more) e = run3 zl (loop fuel st).run more e := by
  intro cs
  induction cs with
  | nil => intro fuel st more _; rfl
  | cons c cs ih =>
    intro fuel st more h
    simp only [List.length_cons, List.flatMap_cons, List.append_assoc]
    have : fuel + (cs.length + 1) = (fuel + cs.length) + 1 := by omega
    rw [this, loop_skips_anc zl c (h c (List.mem_cons_self)) _ st _ e]
    exact ih fuel st more (fun x hx => h x (List.mem_cons_of_mem _ hx))

/-- the IHDR chunk of an image `w × h`, bit depth `d`, with any colour type, compression, filter,
interlace and CRC bytes -/
def ihdr (w h : Nat) (d ct cm fm il : UInt8) (crc : List UInt8) : List UInt8 :=
  enc32be 13 ++ tIHDR ++ (enc32be w ++ enc32be h ++ [d, ct, cm, fm, il]) ++ crc

/-- the IHDR chunk sets width, height, depth; with no ICC profile yet the loop continues -/
theorem loop_ihdr (zl : Inflate) (e : IOErr) (w h : Nat) (hw : w < 4294967296) (hh : h < 4294967296)
    (d ct cm fm il : UInt8) (crc : List UInt8) (hcrc : crc.length = 4) (fuel : Nat) (more : List UInt8) :
    run3 zl (loop (fuel + 1) {}).run (ihdr w h d ct cm fm il crc ++ more) e =
    run3 zl (loop fuel { md := { format := "PNG", width := w, height := h, depth := d.toNat }, extracted := true }).run more e := by
  simp only [loop]
  rw [Parser.run3_bind, Parser.run3_attempt]
  unfold ihdr
  have hh1 : run3 zl chunkHeader.run (enc32be 13 ++ tIHDR ++ (enc32be w ++ enc32be h ++ [d, ct, cm, fm, il]) ++ crc ++ more) e =
      (.ok (13, tIHDR), enc32be w ++ (enc32be h ++ (d :: ct :: cm :: fm :: il :: (crc ++ more)))) := by
    have := run3_chunkHeader zl 13 (by omega) tIHDR (enc32be w ++ (enc32be h ++ (d :: ct :: cm :: fm :: il :: (crc ++ more)))) rfl e
    simpa [List.append_assoc] using this
  rw [hh1]
  simp only [beq_self_eq_true, if_true]
  rw [Parser.run3_bind, Parser.run3_u32be_enc zl w hw]; simp only
  rw [Parser.run3_bind, Parser.run3_u32be_enc zl h hh]; simp only
  rw [Parser.run3_bind, Parser.run3_byte_cons]; simp only
  have hskip : (13 + 4294967296 - 9) % 4294967296 = 4 := by decide
  rw [hskip, Parser.run3_bind]
  have hs := Parser.run3_skip_append zl e [ct, cm, fm, il] (crc ++ more)
  simp only [List.length_cons, List.length_nil, List.cons_append, List.nil_append] at hs
  rw [hs]; simp only
  rw [Parser.run3_bind]
  obtain ⟨v, hv⟩ := run3_u32be_any zl crc more hcrc e
  rw [hv]; simp only
  simp only [St.allExtracted, Meta.iccSet, Bool.and_false, Bool.false_eq_true, if_false]

/-- the IDAT chunk header ends the loop -/
theorem loop_idat (zl : Inflate) (e : IOErr) (n : Nat) (hn : n < 4294967296) (fuel : Nat) (st : St) (rest : List UInt8) :
    run3 zl (loop (fuel + 1) st).run (enc32be n ++ tIDAT ++ rest) e = (.ok st, rest) := by
  simp only [loop]
  rw [Parser.run3_bind, Parser.run3_attempt, run3_chunkHeader zl n hn tIDAT rest rfl e]
  simp only
  have c1 : (tIDAT == tIHDR) = false := by decide
  have c2 : (tIDAT == tiCCP) = false := by decide
  simp only [c1, c2, Bool.false_eq_true, if_false, beq_self_eq_true, Bool.true_or, if_true]
  rfl

/-- **C05 (PNG, any ancillary chunks).** For every width and height below 2³², every bit depth, colour
type and interlace byte, **every list of ancillary chunks** (any types other than the four the
extractor knows, any contents, any CRC bytes) between IHDR and IDAT, and whatever follows the IDAT
chunk header: the extractor reports the header's width, height and bit depth. -/
theorem C05_png_any_ancillary (zl : Inflate) (e : IOErr) (w h : Nat) (hw : w < 4294967296) (hh : h < 4294967296)
    (d ct cm fm il : UInt8) (crc : List UInt8) (hcrc : crc.length = 4) (cs : List Anc) (hcs : ∀ c ∈ cs, c.ok)
    (idatLen : Nat) (hil : idatLen < 4294967296) (rest : List UInt8) :
    (run3 zl (extract (cs.length + 2)).run
      (signature ++ (ihdr w h d ct cm fm il crc ++ (cs.flatMap Anc.bytes ++ (enc32be idatLen ++ tIDAT ++ rest)))) e).1 =
    .ok { format := "PNG", width := w, height := h, depth := d.toNat } := by
  unfold extract
  rw [Parser.run3_bind]
  have hsig := Parser.run3_full_append zl signature (ihdr w h d ct cm fm il crc ++ (cs.flatMap Anc.bytes ++ (enc32be idatLen ++ tIDAT ++ rest))) e
  have hsig' : run3 zl (Parser.full 8).run (signature ++ (ihdr w h d ct cm fm il crc ++ (cs.flatMap Anc.bytes ++ (enc32be idatLen ++ tIDAT ++ rest)))) e =
      (.ok signature, ihdr w h d ct cm fm il crc ++ (cs.flatMap Anc.bytes ++ (enc32be idatLen ++ tIDAT ++ rest))) := hsig
  rw [Parser.run3_mapErr_ok zl _ _ _ _ _ _ hsig']
  simp only [bne_self_eq_false, Bool.false_eq_true, if_false]
  rw [Parser.run3_bind]
  have hfuel : cs.length + 2 = (1 + cs.length) + 1 := by omega
  rw [hfuel, loop_ihdr zl e w h hw hh d ct cm fm il crc hcrc, loop_skips_ancs zl e cs 1 _ _ hcs,
    loop_idat zl e idatLen hil 0]
  rfl

/-- the same through `runPure`, the functional meaning the loaders are proved to compute (C08) -/
theorem C05_png_any_ancillary_pure (zl : Inflate) (e : IOErr) (w h : Nat) (hw : w < 4294967296) (hh : h < 4294967296)
    (d ct cm fm il : UInt8) (crc : List UInt8) (hcrc : crc.length = 4) (cs : List Anc) (hcs : ∀ c ∈ cs, c.ok)
    (idatLen : Nat) (hil : idatLen < 4294967296) (rest : List UInt8) (c : Cost) :
    (runPure zl (extract (cs.length + 2)).run
      (signature ++ (ihdr w h d ct cm fm il crc ++ (cs.flatMap Anc.bytes ++ (enc32be idatLen ++ tIDAT ++ rest)))) e c).1 =
    .ok { format := "PNG", width := w, height := h, depth := d.toNat } := by
  rw [Prog.runPure_eq_run3]
  exact C05_png_any_ancillary zl e w h hw hh d ct cm fm il crc hcrc cs hcs idatLen hil rest

end Prism.Png
