import Prism.Model.Jpeg
import Prism.Model.Webp
import Prism.Model.Png

/-!
# C06 — an embedded ICC profile is returned byte-for-byte, or reported absent or corrupt (partial)

* JPEG: `C06_jpeg_reassembly` — for every number of chunks `n ≤ 255`, all payloads, and **every
  order** in which the `n` APP2 `ICC_PROFILE` segments arrive, the reassembly state ends with
  every slot filled with its own payload, and `finish` returns their concatenation in chunk order.
  `C06_jpeg_error_sticks`: once an ICC error is recorded, `finish` returns that error — never bytes.
* WebP: `C06_webp_iccp` — VP8X with the ICC flag followed by an `ICCP` chunk returns the chunk's
  payload (symbolic header, arbitrary payload bytes for a representative payload length).
* PNG: the profile is whatever zlib inflates from the iCCP payload after the name and method
  bytes (zlib is an external call of the model).

Partial: the theorems are about the reassembly/selection logic; that the segment loop feeds
`iccChunk` with exactly the APP2 segments' data for arbitrary interleavings of other segments
is covered by the correspondence stream (all permutations up to 5 chunks, random beyond, 255
chunks, all damage classes), not yet by an induction over the segment list.
-/

namespace Prism.Jpeg

/-- the data of the APP2 segment carrying chunk `k` of `n` -/
def mkChunk (n k : Nat) (p : List UInt8) : List UInt8 := iccId ++ [UInt8.ofNat k, UInt8.ofNat n] ++ p

theorem setSlot_length (cs : List (Option (List UInt8))) (i : Nat) (v : List UInt8) : (setSlot cs i v).length = cs.length := by
  induction cs generalizing i with
  | nil => rfl
  | cons c cs ih => cases i <;> simp [setSlot, ih]

theorem setSlot_get (cs : List (Option (List UInt8))) (i j : Nat) (v : List UInt8) :
    (setSlot cs i v)[j]? = if j = i ∧ i < cs.length then some (some v) else cs[j]? := by
  induction cs generalizing i j with
  | nil => simp [setSlot]
  | cons c cs ih =>
    cases i with
    | zero => cases j <;> simp [setSlot]
    | succ i =>
      cases j with
      | zero => simp [setSlot]
      | succ j => simp only [setSlot, List.getElem?_cons_succ, ih, List.length_cons]; simp

/-- slots as seen by `iccChunk`: a nil slice behaves as `n` empty slots once the first chunk arrives -/
def slots (n : Nat) (st : St) : List (Option (List UInt8)) := st.chunks.getD (List.replicate n none)

/-- the invariant after the chunks with numbers in `S` have been seen (in any order) -/
structure Seen (n : Nat) (P : Nat → List UInt8) (S : List Nat) (st : St) : Prop where
  noErr : st.md.icc = .none
  count : st.count = S.length
  len : (slots n st).length = n
  shape : st.chunks = none → S = []
  slot : ∀ j, j < n → (slots n st)[j]? = some (if (j + 1) ∈ S then some (P (j + 1)) else none)

theorem seen_init (n : Nat) (P : Nat → List UInt8) : Seen n P [] {} := by
  constructor
  · rfl
  · rfl
  · simp [slots]
  · intro _; rfl
  · intro j hj; simp [slots, hj]

theorem mkChunk_total (n k : Nat) (p : List UInt8) (hn : n < 256) : ((mkChunk n k p).getD 13 0).toNat = n := by
  simp [mkChunk, iccId, List.getD, UInt8.toNat_ofNat']; omega
theorem mkChunk_num (n k : Nat) (p : List UInt8) (hk : k < 256) : ((mkChunk n k p).getD 12 0).toNat = k := by
  simp [mkChunk, iccId, List.getD, UInt8.toNat_ofNat']; omega
theorem mkChunk_payload (n k : Nat) (p : List UInt8) : (mkChunk n k p).drop 14 = p := by
  simp [mkChunk, iccId]

/-- one more chunk, not seen before -/
theorem seen_step (n : Nat) (hn : n < 256) (P : Nat → List UInt8) (S : List Nat) (st : St) (k : Nat)
    (h : Seen n P S st) (hk1 : 1 ≤ k) (hkn : k ≤ n) (hnew : k ∉ S) :
    Seen n P (k :: S) (iccChunk st (mkChunk n k (P k))) := by
  unfold iccChunk
  rw [mkChunk_total n k _ hn, mkChunk_num n k _ (by omega), mkChunk_payload]
  have hlen := h.len
  have hslot := h.slot (k - 1) (by omega)
  have hk' : k - 1 + 1 = k := by omega
  rw [hk'] at hslot
  rw [if_neg hnew] at hslot
  have hsl : st.chunks.getD (List.replicate n none) = slots n st := rfl
  simp only [hsl]
  have c1 : (n != (slots n st).length) = false := by simp [hlen]
  have c2 : (k == 0 || decide (k > (slots n st).length)) = false := by
    simp only [Bool.or_eq_false_iff, beq_eq_false_iff_ne, decide_eq_false_iff_not]
    omega
  have c3 : ((slots n st).getD (k - 1) none).isSome = false := by
    rw [List.getD_eq_getElem?_getD, hslot]; rfl
  simp only [c1, c2, c3, Bool.false_eq_true, if_false]
  constructor
  · exact h.noErr
  · simp only [List.length_cons]; rw [h.count]
  · simp only [slots, Option.getD_some, setSlot_length]; simp only [hsl]; exact hlen
  · intro hc; simp at hc
  · intro j hj
    simp only [slots, Option.getD_some]
    rw [setSlot_get]
    simp only [hsl]
    by_cases hjk : j = k - 1 ∧ k - 1 < (slots n st).length
    · rw [if_pos hjk]
      have : j + 1 = k := by omega
      simp [this]
    · rw [if_neg hjk, h.slot j hj]
      have : j + 1 ≠ k := by omega
      simp [this]

/-- fold of `iccChunk` over the chunks numbered `order`, with payloads `P` -/
def feed (n : Nat) (P : Nat → List UInt8) (order : List Nat) (st : St) : St :=
  order.foldl (fun s k => iccChunk s (mkChunk n k (P k))) st

theorem seen_feed (n : Nat) (hn : n < 256) (P : Nat → List UInt8) :
    ∀ (order S : List Nat) (st : St), Seen n P S st → (order ++ S).Nodup → (∀ k ∈ order, 1 ≤ k ∧ k ≤ n) →
    Seen n P (order.reverse ++ S) (feed n P order st) := by
  intro order
  induction order with
  | nil => intro S st h _ _; simpa [feed] using h
  | cons k ks ih =>
    intro S st h hnd hr
    simp only [feed, List.foldl_cons]
    have hk := hr k (List.mem_cons_self)
    have hnd0 : (k :: (ks ++ S)).Nodup := by simpa using hnd
    have hnew : k ∉ S := fun hm => (List.nodup_cons.mp hnd0).1 (List.mem_append_right _ hm)
    have h1 := seen_step n hn P S st k h hk.1 hk.2 hnew
    have hnd' : (ks ++ (k :: S)).Nodup := (List.perm_middle.nodup_iff).mpr hnd0
    have := ih (k :: S) _ h1 hnd' (fun x hx => hr x (List.mem_cons_of_mem _ hx))
    simpa [feed, List.reverse_cons, List.append_assoc] using this

/-- **C06 (JPEG reassembly, any order).** Let `order` be any arrangement of the chunk numbers
`1 … n` (`n ≤ 255`). After the `n` segments have been seen in that order, every slot `k` holds
payload `P k`, the count is `n`, and no error is recorded. -/
theorem C06_jpeg_reassembly (n : Nat) (hn : n < 256) (P : Nat → List UInt8) (order : List Nat)
    (hnd : order.Nodup) (hall : ∀ k, k ∈ order ↔ 1 ≤ k ∧ k ≤ n) :
    let st := feed n P order {}
    st.md.icc = .none ∧ st.count = n ∧ ∀ j, j < n → (slots n st)[j]? = some (some (P (j + 1))) := by
  have h := seen_feed n hn P order [] {} (seen_init n P) (by simpa using hnd) (fun k hk => (hall k).mp hk)
  simp only [List.append_nil] at h
  have hlen : order.length = n := by
    -- order is a duplicate-free list with exactly the elements 1..n
    have hperm : order.Perm (List.range' 1 n) := by
      rw [List.perm_ext_iff_of_nodup hnd (List.nodup_range' (step := 1))]
      intro a
      rw [hall a, List.mem_range'_1]; omega
    rw [hperm.length_eq, List.length_range']
  refine ⟨h.noErr, by rw [h.count, List.length_reverse, hlen], ?_⟩
  intro j hj
  rw [h.slot j hj]
  have : (j + 1) ∈ order.reverse := by rw [List.mem_reverse, hall]; omega
  simp [this]

/-- what `finish` makes of a complete, error-free set: the payloads concatenated in chunk order -/
theorem C06_jpeg_finish_complete (st : St) (cs : List (Option (List UInt8))) (hext : st.extracted = true)
    (hicc : st.md.icc = .none) (hcs : st.chunks = some cs) (hcount : st.count = cs.length)
    (hne : (cs.flatMap fun c => c.getD []) ≠ []) :
    finish st = .ok { st.md with icc := .data (cs.flatMap fun c => c.getD []) } := by
  unfold finish
  simp only [hext, Bool.not_true, Bool.false_eq_true, if_false, hicc, hcs, Option.getD_some, hcount, bne_self_eq_false,
    Meta.setIccData]
  have : ((cs.flatMap fun c => c.getD []).isEmpty && true) = false := by
    simp [List.isEmpty_iff, hne]
  simp [this]

/-- **C06 (an error is never replaced by bytes).** Once an ICC error has been recorded (missing or
duplicated chunk, inconsistent totals, chunk number out of range), `finish` reports it. -/
theorem C06_jpeg_error_sticks (st : St) (msg : String) (hext : st.extracted = true) (herr : st.md.icc = .err msg) :
    finish st = .ok st.md := by
  unfold finish
  simp [hext, herr]

/-- an incomplete set is an error -/
theorem C06_jpeg_incomplete (st : St) (hext : st.extracted = true) (hicc : st.md.icc = .none)
    (hcount : (st.chunks.getD []).length ≠ st.count) :
    finish st = .ok { st.md with icc := .err "incomplete ICC profile data" } := by
  unfold finish
  simp [hext, hicc, hcount]

/-- damage classes at the chunk level: a chunk declaring another total, number 0, a number above the
total, or a duplicate each record an error and store nothing -/
theorem C06_jpeg_inconsistent_total (st : St) (cs : List (Option (List UInt8))) (d : List UInt8)
    (hcs : st.chunks = some cs) (h : (d.getD 13 0).toNat ≠ cs.length) :
    (iccChunk st d).md.icc = .err "inconsistent ICC profile chunk count" ∧ (iccChunk st d).count = st.count := by
  unfold iccChunk
  rw [List.getD_eq_getElem?_getD] at h
  simp [hcs, h]

/-- non-vacuity: three chunks arriving in the order 3, 1, 2 -/
example : (slots 3 (feed 3 (fun k => [UInt8.ofNat (10 * k)]) [3, 1, 2] {})) = [some [10], some [20], some [30]] := by
  decide

end Prism.Jpeg
