import Prism.Proofs.C05Chunks

/-!
# C06 (PNG): the iCCP chunk's profile, among any ancillary chunks — by induction

zlib is an external call of the model (`Inflate`): the theorem says *which bytes* are handed to
it (exactly the chunk payload after the name, its NUL and the method byte) and that its answer
is what the extractor returns.
-/

namespace Prism.Png
open Prog Parser

theorem run3_profileName (zl : Inflate) (e : IOErr) : ∀ (name : List UInt8) (fuel acc : Nat) (rest : List UInt8),
    (∀ b ∈ name, b ≠ 0) → name.length < fuel →
    run3 zl (profileName fuel acc).run (name ++ 0 :: rest) e = (.ok (acc + name.length), rest) := by
  intro name
  induction name with
  | nil =>
    intro fuel acc rest _ hf
    cases fuel with
    | zero => omega
    | succ fuel =>
      simp only [profileName, List.nil_append]
      rw [Parser.run3_bind, Parser.run3_byte_cons]
      rfl
  | cons b name ih =>
    intro fuel acc rest hnz hf
    cases fuel with
    | zero => simp at hf
    | succ fuel =>
      simp only [profileName, List.cons_append]
      rw [Parser.run3_bind, Parser.run3_byte_cons]
      have hb : (b == 0) = false := by
        have := hnz b List.mem_cons_self
        simpa using this
      simp only [hb, Bool.false_eq_true, if_false]
      rw [ih fuel (acc + 1) rest (fun x hx => hnz x (List.mem_cons_of_mem _ hx)) (by simp at hf; omega)]
      simp only [List.length_cons]
      congr 2
      omega

theorem run3_inflate (zl : Inflate) (z inp : List UInt8) (e : IOErr) :
    run3 zl (Parser.inflate z).run inp e = (.ok (zl z), inp) := rfl

/-- the iCCP chunk: profile name (1–79 bytes, no NUL), NUL, compression method 0, the compressed
stream, CRC -/
def iccp (name z crc : List UInt8) : List UInt8 :=
  enc32be (name.length + 2 + z.length) ++ tiCCP ++ (name ++ 0 :: 0 :: z) ++ crc

/-- the iCCP chunk with a profile that inflates: the loop ends with that profile -/
theorem loop_iccp_ok (zl : Inflate) (e : IOErr) (name z crc p : List UInt8) (hname : name.length ≤ 79)
    (hnz : ∀ b ∈ name, b ≠ 0) (hz : 0 < z.length) (hlen : name.length + 2 + z.length < 4294967296)
    (hcrc : crc.length = 4) (hp : zl z = .ok p) (hpne : p ≠ [])
    (fuel : Nat) (md : Meta) (more : List UInt8) :
    run3 zl (loop (fuel + 1) { md := md, extracted := true }).run (iccp name z crc ++ more) e =
      (.ok { md := { md with icc := .data p }, extracted := true }, more) := by
  simp only [loop]
  rw [Parser.run3_bind, Parser.run3_attempt]
  unfold iccp
  have hh : run3 zl chunkHeader.run (enc32be (name.length + 2 + z.length) ++ tiCCP ++ (name ++ 0 :: 0 :: z) ++ crc ++ more) e =
      (.ok (name.length + 2 + z.length, tiCCP), name ++ 0 :: (0 :: (z ++ (crc ++ more)))) := by
    have := run3_chunkHeader zl (name.length + 2 + z.length) hlen tiCCP (name ++ 0 :: (0 :: (z ++ (crc ++ more)))) rfl e
    simpa [List.append_assoc] using this
  rw [hh]
  simp only
  have c1 : (tiCCP == tIHDR) = false := by decide
  simp only [c1, Bool.false_eq_true, if_false, beq_self_eq_true, if_true]
  rw [Parser.run3_bind, run3_profileName zl e name 80 0 _ hnz (by omega)]
  simp only [Nat.zero_add]
  have c2 : ¬ (name.length > 79) := by omega
  simp only [c2, if_false]
  rw [Parser.run3_bind, Parser.run3_byte_cons]
  simp only [bne_self_eq_false, Bool.false_eq_true, if_false]
  have c3 : ¬ (name.length + 2 ≥ name.length + 2 + z.length) := by omega
  simp only [c3, if_false]
  have hsub : name.length + 2 + z.length - (name.length + 2) = z.length := by omega
  rw [hsub, Parser.run3_bind]
  have hb := Parser.run3_bytesN_append zl z (crc ++ more) e
  rw [Parser.run3_mapErr_ok zl _ _ _ _ _ _ hb]
  simp only
  rw [Parser.run3_bind]
  obtain ⟨v, hv⟩ := run3_u32be_any zl crc more hcrc e
  rw [hv]
  simp only
  rw [Parser.run3_bind, run3_inflate, hp]
  simp only
  have hset : md.setIccData p true = { md with icc := .data p } := by
    unfold Meta.setIccData
    have : p.isEmpty = false := by
      cases p with
      | nil => exact absurd rfl hpne
      | cons _ _ => rfl
    simp [this]
  have hall : ({ md := md.setIccData p true, extracted := true } : St).allExtracted = true := by
    rw [hset]; rfl
  simp only [hall, if_true]
  rw [hset]
  rfl

/-- the iCCP chunk with a stream zlib rejects: the error is recorded and the loop goes on -/
theorem loop_iccp_err (zl : Inflate) (e : IOErr) (name z crc : List UInt8) (msg : String) (hname : name.length ≤ 79)
    (hnz : ∀ b ∈ name, b ≠ 0) (hz : 0 < z.length) (hlen : name.length + 2 + z.length < 4294967296)
    (hcrc : crc.length = 4) (hp : zl z = .error msg)
    (fuel : Nat) (st : St) (more : List UInt8) :
    run3 zl (loop (fuel + 1) st).run (iccp name z crc ++ more) e =
      run3 zl (loop fuel { st with md := { st.md with icc := .err msg } }).run more e := by
  simp only [loop]
  rw [Parser.run3_bind, Parser.run3_attempt]
  unfold iccp
  have hh : run3 zl chunkHeader.run (enc32be (name.length + 2 + z.length) ++ tiCCP ++ (name ++ 0 :: 0 :: z) ++ crc ++ more) e =
      (.ok (name.length + 2 + z.length, tiCCP), name ++ 0 :: (0 :: (z ++ (crc ++ more)))) := by
    have := run3_chunkHeader zl (name.length + 2 + z.length) hlen tiCCP (name ++ 0 :: (0 :: (z ++ (crc ++ more)))) rfl e
    simpa [List.append_assoc] using this
  rw [hh]
  simp only
  have c1 : (tiCCP == tIHDR) = false := by decide
  simp only [c1, Bool.false_eq_true, if_false, beq_self_eq_true, if_true]
  rw [Parser.run3_bind, run3_profileName zl e name 80 0 _ hnz (by omega)]
  simp only [Nat.zero_add]
  have c2 : ¬ (name.length > 79) := by omega
  simp only [c2, if_false]
  rw [Parser.run3_bind, Parser.run3_byte_cons]
  simp only [bne_self_eq_false, Bool.false_eq_true, if_false]
  have c3 : ¬ (name.length + 2 ≥ name.length + 2 + z.length) := by omega
  simp only [c3, if_false]
  have hsub : name.length + 2 + z.length - (name.length + 2) = z.length := by omega
  rw [hsub, Parser.run3_bind]
  have hb := Parser.run3_bytesN_append zl z (crc ++ more) e
  rw [Parser.run3_mapErr_ok zl _ _ _ _ _ _ hb]
  simp only
  rw [Parser.run3_bind]
  obtain ⟨v, hv⟩ := run3_u32be_any zl crc more hcrc e
  rw [hv]
  simp only
  rw [Parser.run3_bind, run3_inflate, hp]

/-- **C06 (PNG).** Any dimensions and depth, **any ancillary chunks** between IHDR and iCCP, any profile
name of 1–79 non-NUL bytes (0 bytes too), any compressed stream `z` that inflates to a non-empty
profile `p`, any CRC bytes, anything after: the extractor hands exactly `z` to zlib and returns `p`. -/
theorem C06_png_iccp (zl : Inflate) (e : IOErr) (w h : Nat) (hw : w < 4294967296) (hh : h < 4294967296)
    (d ct cm fm il : UInt8) (crc : List UInt8) (hcrc : crc.length = 4) (cs : List Anc) (hcs : ∀ c ∈ cs, c.ok)
    (name z crc2 p : List UInt8) (hname : name.length ≤ 79) (hnz : ∀ b ∈ name, b ≠ 0) (hz : 0 < z.length)
    (hlen : name.length + 2 + z.length < 4294967296) (hcrc2 : crc2.length = 4) (hp : zl z = .ok p) (hpne : p ≠ [])
    (rest : List UInt8) :
    (run3 zl (extract (cs.length + 2)).run
      (signature ++ (ihdr w h d ct cm fm il crc ++ (cs.flatMap Anc.bytes ++ (iccp name z crc2 ++ rest)))) e).1 =
    .ok { format := "PNG", width := w, height := h, depth := d.toNat, icc := .data p } := by
  unfold extract
  rw [Parser.run3_bind]
  have hsig' : run3 zl (Parser.full 8).run (signature ++ (ihdr w h d ct cm fm il crc ++ (cs.flatMap Anc.bytes ++ (iccp name z crc2 ++ rest)))) e =
      (.ok signature, ihdr w h d ct cm fm il crc ++ (cs.flatMap Anc.bytes ++ (iccp name z crc2 ++ rest))) :=
    Parser.run3_full_append zl signature _ e
  rw [Parser.run3_mapErr_ok zl _ _ _ _ _ _ hsig']
  simp only [bne_self_eq_false, Bool.false_eq_true, if_false]
  rw [Parser.run3_bind]
  have hfuel : cs.length + 2 = (1 + cs.length) + 1 := by omega
  rw [hfuel, loop_ihdr zl e w h hw hh d ct cm fm il crc hcrc, loop_skips_ancs zl e cs 1 _ _ hcs,
    loop_iccp_ok zl e name z crc2 p hname hnz hz hlen hcrc2 hp hpne 0 _]
  rfl

/-- **C06 (PNG, corrupt profile).** The same stream with a compressed stream zlib rejects, then any
ancillary chunks and IDAT: the metadata is returned, the profile is reported as an error — never bytes. -/
theorem C06_png_iccp_corrupt (zl : Inflate) (e : IOErr) (w h : Nat) (hw : w < 4294967296) (hh : h < 4294967296)
    (d ct cm fm il : UInt8) (crc : List UInt8) (hcrc : crc.length = 4) (cs cs2 : List Anc) (hcs : ∀ c ∈ cs, c.ok)
    (hcs2 : ∀ c ∈ cs2, c.ok)
    (name z crc2 : List UInt8) (msg : String) (hname : name.length ≤ 79) (hnz : ∀ b ∈ name, b ≠ 0) (hz : 0 < z.length)
    (hlen : name.length + 2 + z.length < 4294967296) (hcrc2 : crc2.length = 4) (hp : zl z = .error msg)
    (idatLen : Nat) (hil : idatLen < 4294967296) (rest : List UInt8) :
    (run3 zl (extract (cs.length + cs2.length + 3)).run
      (signature ++ (ihdr w h d ct cm fm il crc ++ (cs.flatMap Anc.bytes ++ (iccp name z crc2 ++
        (cs2.flatMap Anc.bytes ++ (enc32be idatLen ++ tIDAT ++ rest)))))) e).1 =
    .ok { format := "PNG", width := w, height := h, depth := d.toNat, icc := .err msg } := by
  unfold extract
  rw [Parser.run3_bind]
  have hsig' : run3 zl (Parser.full 8).run (signature ++ (ihdr w h d ct cm fm il crc ++ (cs.flatMap Anc.bytes ++ (iccp name z crc2 ++
        (cs2.flatMap Anc.bytes ++ (enc32be idatLen ++ tIDAT ++ rest)))))) e =
      (.ok signature, ihdr w h d ct cm fm il crc ++ (cs.flatMap Anc.bytes ++ (iccp name z crc2 ++
        (cs2.flatMap Anc.bytes ++ (enc32be idatLen ++ tIDAT ++ rest))))) :=
    Parser.run3_full_append zl signature _ e
  rw [Parser.run3_mapErr_ok zl _ _ _ _ _ _ hsig']
  simp only [bne_self_eq_false, Bool.false_eq_true, if_false]
  rw [Parser.run3_bind]
  have hfuel : cs.length + cs2.length + 3 = ((1 + cs2.length + 1) + cs.length) + 1 := by omega
  rw [hfuel, loop_ihdr zl e w h hw hh d ct cm fm il crc hcrc, loop_skips_ancs zl e cs _ _ _ hcs,
    loop_iccp_err zl e name z crc2 msg hname hnz hz hlen hcrc2 hp, loop_skips_ancs zl e cs2 1 _ _ hcs2,
    loop_idat zl e idatLen hil 0]
  rfl

end Prism.Png
