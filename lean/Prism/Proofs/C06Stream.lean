import Prism.Proofs.Lemmas.JpegRun
import Prism.Proofs.C06

/-!
# C05 / C06 (JPEG): arbitrary segment sequences — by induction over the segment list

`Item.apply` is the decision the segment loop takes on one segment (type, data); `absLoop` folds it
over a list of segments with the loop's early exit.  `loop_items` shows that the extractor's loop,
run on the *bytes* of any list of well-formed segments followed by SOS or EOI, computes `absLoop`.
The property theorems are then statements about `absLoop`.
-/

namespace Prism.Jpeg
open Prog Parser

/-- a segment as it appears in the stream: marker type and data (empty for stand-alone markers) -/
structure Item where
  t : UInt8
  d : List UInt8

def Item.bytes (it : Item) : List UInt8 :=
  if standalone it.t.toNat then markerBytes it.t else segBytes it.t it.d

/-- well-formed, not a terminator (SOS / EOI), and a frame header long enough to hold its fixed fields -/
def Item.ok (it : Item) : Prop :=
  (standalone it.t.toNat = true ∧ it.d = [] ∧ it.t.toNat ≠ 0xd9) ∨
  (withLength it.t.toNat = true ∧ it.d.length + 2 < 65536 ∧ it.t.toNat ≠ 0xda ∧
    ((it.t.toNat = 0xc0 ∨ it.t.toNat = 0xc2) → 5 ≤ it.d.length))

/-- the loop's decision on one segment: the new state and whether the loop exits -/
def applySeg (st : St) (ty : Nat) (d : List UInt8) : St × Bool :=
  if ty == 0xc0 || ty == 0xc2 then
    match d with
    | d0 :: d1 :: d2 :: d3 :: d4 :: _ =>
      let st' := { st with md := { st.md with depth := d0.toNat, height := d1.toNat * 256 + d2.toNat,
                                              width := d3.toNat * 256 + d4.toNat }, extracted := true }
      (st', st'.allExtracted)
    | _ => (st, false)
  else if ty == 0xe2 then
    if d.length < iccId.length + 2 then (st, false)
    else if d.take 12 != iccId then (st, false)
    else if st.md.iccSet then (st, false)
    else
      let st' := iccChunk st d
      (st', !st'.md.iccSet && st'.allExtracted)
  else (st, false)

def absLoop : List Item → St → St
  | [], st => st
  | it :: rest, st =>
    let r := applySeg st it.t.toNat it.d
    if r.2 then r.1 else absLoop rest r.1

theorem run3_readSegment_item (zl : Inflate) (it : Item) (h : it.ok) (rest : List UInt8) (e : IOErr) :
    run3 zl readSegment.run (it.bytes ++ rest) e = (.ok (it.t.toNat, it.d), rest) := by
  unfold Item.bytes
  rcases h with ⟨hs, hd, _⟩ | ⟨hw, hl, _, _⟩
  · rw [if_pos hs, hd]; exact run3_readSegment_marker zl it.t hs rest e
  · rw [if_neg (by rw [withLength_not_standalone _ hw]; simp)]
    exact run3_readSegment_len zl it.t it.d hw hl rest e

/-- one segment: the loop either exits with the new state or continues with it -/
theorem loop_item (zl : Inflate) (e : IOErr) (it : Item) (h : it.ok) (fuel : Nat) (st : St) (more : List UInt8) :
    run3 zl (loop (fuel + 1) st).run (it.bytes ++ more) e =
      if (applySeg st it.t.toNat it.d).2 then (.ok (.done (applySeg st it.t.toNat it.d).1), more)
      else run3 zl (loop fuel (applySeg st it.t.toNat it.d).1).run more e := by
  simp only [loop]
  rw [Parser.run3_bind, Parser.run3_attempt, run3_readSegment_item zl it h more e]
  simp only
  have hterm : (it.t.toNat == 0xda || it.t.toNat == 0xd9) = false := by
    rcases h with ⟨hs, _, h9⟩ | ⟨hw, _, ha, _⟩
    · have : it.t.toNat ≠ 0xda := by
        intro h; rw [h] at hs; revert hs; decide
      simp [this, h9]
    · have : it.t.toNat ≠ 0xd9 := by
        intro h; rw [h] at hw; revert hw; decide
      simp [this, ha]
  by_cases hsof : (it.t.toNat == 0xc0 || it.t.toNat == 0xc2) = true
  · have h5 : 5 ≤ it.d.length := by
      have hc : it.t.toNat = 0xc0 ∨ it.t.toNat = 0xc2 := by simpa using hsof
      rcases h with ⟨hs, _, _⟩ | ⟨_, _, _, hlen⟩
      · rcases hc with hc | hc <;> (rw [hc] at hs; exact absurd hs (by decide))
      · exact hlen hc
    obtain ⟨d0, d1, d2, d3, d4, tail, hd⟩ : ∃ d0 d1 d2 d3 d4 tail, it.d = d0 :: d1 :: d2 :: d3 :: d4 :: tail := by
      match hm : it.d, h5 with
      | d0 :: d1 :: d2 :: d3 :: d4 :: tail, _ => exact ⟨d0, d1, d2, d3, d4, tail, rfl⟩
    simp only [applySeg, hsof, if_true, hd]
    split <;> rfl
  · have hsof' : (it.t.toNat == 0xc0 || it.t.toNat == 0xc2) = false := by simpa using hsof
    simp only [applySeg, hsof', hterm, Bool.false_eq_true, if_false]
    by_cases he2 : (it.t.toNat == 0xe2) = true
    · simp only [he2, if_true]
      by_cases c1 : it.d.length < iccId.length + 2
      · simp only [c1, if_true, Bool.false_eq_true, if_false]
      · simp only [c1, if_false]
        by_cases c2 : (List.take 12 it.d != iccId) = true
        · simp only [c2, if_true, Bool.false_eq_true, if_false]
        · simp only [c2]
          by_cases c3 : st.md.iccSet = true
          · simp only [c3, if_true, Bool.false_eq_true, if_false]
          · simp only [c3]
            by_cases c4 : (!(iccChunk st it.d).md.iccSet && (iccChunk st it.d).allExtracted) = true
            · simp only [c4, if_true]; rfl
            · simp only [c4, if_false, Bool.false_eq_true]
    · have he2' : (it.t.toNat == 0xe2) = false := by simpa using he2
      simp only [he2', Bool.false_eq_true, if_false]

/-- what ends the segment loop: an SOS segment (any data) or the EOI marker -/
def termOk (tb : List UInt8) : Prop :=
  (∃ d : List UInt8, d.length + 2 < 65536 ∧ tb = segBytes 0xda d) ∨ tb = markerBytes 0xd9

theorem loop_term (zl : Inflate) (e : IOErr) (fuel : Nat) (st : St) (tb : List UInt8) (h : termOk tb) (rest : List UInt8) :
    run3 zl (loop (fuel + 1) st).run (tb ++ rest) e = (.ok (.done st), rest) := by
  simp only [loop]
  rw [Parser.run3_bind, Parser.run3_attempt]
  rcases h with ⟨d, hd, rfl⟩ | rfl
  · rw [run3_readSegment_len zl 0xda d (by decide) hd rest e]
    rfl
  · rw [run3_readSegment_marker zl 0xd9 (by decide) rest e]
    rfl

/-- **the segment loop computes `absLoop`** on the bytes of any list of well-formed segments followed
by a terminator and anything at all -/
theorem loop_items (zl : Inflate) (e : IOErr) (tb rest : List UInt8) (ht : termOk tb) :
    ∀ (items : List Item) (fuel : Nat) (st : St), (∀ it ∈ items, it.ok) →
    ∃ rem, run3 zl (loop (fuel + items.length + 1) st).run (items.flatMap Item.bytes ++ (tb ++ rest)) e =
      (.ok (.done (absLoop items st)), rem) := by
  intro items
  induction items with
  | nil =>
    intro fuel st _
    exact ⟨rest, by simpa [absLoop] using loop_term zl e fuel st tb ht rest⟩
  | cons it items ih =>
    intro fuel st h
    have hf : fuel + (it :: items).length + 1 = (fuel + items.length + 1) + 1 := by simp only [List.length_cons]; omega
    rw [hf, List.flatMap_cons, List.append_assoc, loop_item zl e it (h it List.mem_cons_self)]
    by_cases hs : (applySeg st it.t.toNat it.d).2 = true
    · refine ⟨List.flatMap Item.bytes items ++ (tb ++ rest), ?_⟩
      rw [if_pos hs]
      simp only [absLoop, hs, if_true]
    · rw [if_neg hs]
      obtain ⟨rem, hr⟩ := ih fuel (applySeg st it.t.toNat it.d).1 (fun x hx => h x (List.mem_cons_of_mem _ hx))
      refine ⟨rem, ?_⟩
      rw [hr]
      simp only [absLoop, hs, Bool.false_eq_true, if_false]

/-- **the extractor on any well-formed segment stream**: SOI, any segments, SOS or EOI, anything -/
theorem extract_items (zl : Inflate) (e : IOErr) (tb rest : List UInt8) (ht : termOk tb) (items : List Item)
    (h : ∀ it ∈ items, it.ok) :
    (run3 zl (extract (items.length + 1)).run (markerBytes 0xd8 ++ (items.flatMap Item.bytes ++ (tb ++ rest))) e).1 =
      (match finish (absLoop items {}) with
       | .ok md => .ok md
       | .error err => .error err) := by
  unfold extract
  rw [Parser.run3_bind, run3_readSegment_marker zl 0xd8 (by decide)]
  simp only
  have h8 : ((0xd8 : UInt8).toNat != 0xd8) = false := by decide
  simp only [h8, Bool.false_eq_true, if_false]
  rw [Parser.run3_bind]
  obtain ⟨rem, hr⟩ := loop_items zl e tb rest ht items 0 {} h
  have hf : 0 + items.length + 1 = items.length + 1 := by omega
  rw [hf] at hr
  rw [hr]
  simp only
  cases finish (absLoop items {}) with
  | ok md => rfl
  | error err => rfl

/-! ### Segments the extractor passes over -/

/-- neither a frame header nor an `ICC_PROFILE` APP2 segment -/
def Item.plain (it : Item) : Prop :=
  it.t.toNat ≠ 0xc0 ∧ it.t.toNat ≠ 0xc2 ∧ (it.t.toNat = 0xe2 → it.d.length < 14 ∨ it.d.take 12 ≠ iccId)

theorem applySeg_plain (st : St) (it : Item) (h : it.plain) : applySeg st it.t.toNat it.d = (st, false) := by
  obtain ⟨h0, h2, he⟩ := h
  unfold applySeg
  have c0 : (it.t.toNat == 0xc0 || it.t.toNat == 0xc2) = false := by simp [h0, h2]
  simp only [c0, Bool.false_eq_true, if_false]
  by_cases he2 : it.t.toNat = 0xe2
  · have : (it.t.toNat == 0xe2) = true := by simp [he2]
    simp only [this, if_true]
    rcases he he2 with hl | ht
    · have : it.d.length < iccId.length + 2 := by simpa [iccId] using hl
      simp only [this, if_true]
    · by_cases hl : it.d.length < iccId.length + 2
      · simp only [hl, if_true]
      · have : (List.take 12 it.d != iccId) = true := by simpa using ht
        simp only [hl, if_false, this, if_true]
  · have : (it.t.toNat == 0xe2) = false := by simp [he2]
    simp only [this, Bool.false_eq_true, if_false]

theorem absLoop_plain_append (pre rest : List Item) (st : St) (h : ∀ it ∈ pre, it.plain) :
    absLoop (pre ++ rest) st = absLoop rest st := by
  induction pre with
  | nil => rfl
  | cons it pre ih =>
    simp only [List.cons_append, absLoop, applySeg_plain st it (h it List.mem_cons_self), Bool.false_eq_true, if_false]
    exact ih (fun x hx => h x (List.mem_cons_of_mem _ hx))

theorem absLoop_plain (items : List Item) (st : St) (h : ∀ it ∈ items, it.plain) : absLoop items st = st := by
  have := absLoop_plain_append items [] st h
  simpa [absLoop] using this

theorem be16_val (n : Nat) (hn : n < 65536) :
    (UInt8.ofNat (n / 256 % 256)).toNat * 256 + (UInt8.ofNat (n % 256)).toNat = n := by
  simp only [UInt8.toNat_ofNat']; omega

/-- a frame header segment (SOF0 or SOF2): precision, height, width, then anything -/
def sofItem (t prec : UInt8) (h w : Nat) (tail : List UInt8) : Item := ⟨t, prec :: (enc16be h ++ enc16be w ++ tail)⟩

theorem applySeg_sof (st : St) (t prec : UInt8) (h w : Nat) (tail : List UInt8) (ht : t.toNat = 0xc0 ∨ t.toNat = 0xc2)
    (hh : h < 65536) (hw : w < 65536) :
    applySeg st t.toNat (sofItem t prec h w tail).d =
      ({ st with md := { st.md with depth := prec.toNat, height := h, width := w }, extracted := true },
       ({ st with md := { st.md with depth := prec.toNat, height := h, width := w }, extracted := true } : St).allExtracted) := by
  have e1 := be16_val h hh
  have e2 := be16_val w hw
  have c0 : (t.toNat == 0xc0 || t.toNat == 0xc2) = true := by rcases ht with h | h <;> simp [h]
  unfold applySeg sofItem enc16be
  simp only [c0, if_true, List.cons_append, List.nil_append, e1, e2]

/-- **C05 (JPEG, any segments around the frame header).** -/
theorem absLoop_sof_only (pre post : List Item) (t prec : UInt8) (h w : Nat) (tail : List UInt8)
    (hpre : ∀ it ∈ pre, it.plain) (hpost : ∀ it ∈ post, it.plain)
    (ht : t.toNat = 0xc0 ∨ t.toNat = 0xc2) (hh : h < 65536) (hw : w < 65536) :
    finish (absLoop (pre ++ sofItem t prec h w tail :: post) {}) =
      .ok { format := "JPEG", width := w, height := h, depth := prec.toNat } := by
  rw [absLoop_plain_append pre _ _ hpre]
  have hs := applySeg_sof {} t prec h w tail ht hh hw
  have hd : (sofItem t prec h w tail).t = t := rfl
  simp only [absLoop, hd, hs]
  have hne : (({ ({} : St) with md := { ({} : St).md with depth := prec.toNat, height := h, width := w }, extracted := true } : St).allExtracted) = false := rfl
  simp only [hne, Bool.false_eq_true, if_false]
  rw [absLoop_plain post _ hpost]
  rfl

/-! ### Streams carrying an ICC profile in `n` APP2 segments, in any order, among any other segments -/

/-- the parameters of such a stream: chunk count and payloads, the frame header -/
structure StreamSpec where
  n : Nat
  P : Nat → List UInt8
  t : UInt8
  prec : UInt8
  h : Nat
  w : Nat
  tail : List UInt8

/-- what a position of the stream holds -/
inductive Ev where
  | plain (it : Item)      -- any segment the extractor passes over
  | sof                    -- the frame header
  | chunk (k : Nat)        -- the APP2 segment carrying chunk `k` of `n`

def Ev.item (sp : StreamSpec) : Ev → Item
  | .plain it => it
  | .sof => sofItem sp.t sp.prec sp.h sp.w sp.tail
  | .chunk k => ⟨0xe2, mkChunk sp.n k (sp.P k)⟩

def sofCount : List Ev → Nat
  | [] => 0
  | .sof :: r => sofCount r + 1
  | _ :: r => sofCount r

def chunkNos : List Ev → List Nat
  | [] => []
  | .chunk k :: r => k :: chunkNos r
  | _ :: r => chunkNos r

def md0 : Meta := { format := "JPEG" }
def md1 (sp : StreamSpec) : Meta := { format := "JPEG", width := sp.w, height := sp.h, depth := sp.prec.toNat }
def mdOf (sp : StreamSpec) (b : Bool) : Meta := if b then md1 sp else md0

structure Inv (sp : StreamSpec) (S : List Nat) (b : Bool) (st : St) : Prop where
  seen : Seen sp.n sp.P S st
  ext : st.extracted = b
  md : st.md = mdOf sp b
  nodup : S.Nodup
  range : ∀ k ∈ S, 1 ≤ k ∧ k ≤ sp.n

/-- the final state: every chunk seen, the frame header seen -/
def Complete (sp : StreamSpec) (st : St) : Prop := ∃ S, Inv sp S true st ∧ S.length = sp.n

theorem inv_init (sp : StreamSpec) : Inv sp [] false {} :=
  ⟨seen_init sp.n sp.P, rfl, rfl, List.nodup_nil, by simp⟩

theorem length_of_cover (n : Nat) (S : List Nat) (hnd : S.Nodup) (hr : ∀ k ∈ S, 1 ≤ k ∧ k ≤ n)
    (hc : ∀ k, 1 ≤ k → k ≤ n → k ∈ S) : S.length = n := by
  have hperm : S.Perm (List.range' 1 n) := by
    rw [List.perm_ext_iff_of_nodup hnd (List.nodup_range' (step := 1))]
    intro a
    rw [List.mem_range'_1]
    constructor
    · intro ha; have := hr a ha; omega
    · intro ha; exact hc a ha.1 (by omega)
  rw [hperm.length_eq, List.length_range']

theorem mem_of_full (n : Nat) (S : List Nat) (hnd : S.Nodup) (hr : ∀ k ∈ S, 1 ≤ k ∧ k ≤ n) (hl : S.length = n)
    (k : Nat) (h1 : 1 ≤ k) (hk : k ≤ n) : k ∈ S := by
  apply Classical.byContradiction
  intro hnot
  have hnd' : (k :: S).Nodup := List.nodup_cons.mpr ⟨hnot, hnd⟩
  have hsub : (k :: S) ⊆ List.range' 1 n := by
    intro a ha
    rw [List.mem_range'_1]
    rcases List.mem_cons.mp ha with rfl | ha
    · omega
    · have := hr a ha; omega
  have := hnd'.length_le_of_subset hsub
  simp only [List.length_cons, List.length_range'] at this
  omega

theorem length_of_allExtracted (n : Nat) (P : Nat → List UInt8) (S : List Nat) (st : St) (h : Seen n P S st)
    (ha : st.allExtracted = true) : S.length = n ∧ st.extracted = true := by
  unfold St.allExtracted at ha
  have hl := h.len
  have hc := h.count
  unfold slots at hl
  cases hch : st.chunks with
  | none => rw [hch] at ha; simp at ha
  | some cs =>
    rw [hch] at ha hl
    simp only [Bool.and_eq_true, beq_iff_eq, Option.getD_some] at ha hl
    exact ⟨by omega, ha.1⟩

theorem iccChunk_extracted (st : St) (d : List UInt8) : (iccChunk st d).extracted = st.extracted := by
  unfold iccChunk
  simp only
  split
  · rfl
  · split
    · rfl
    · split <;> rfl

theorem iccChunk_md (st : St) (d : List UInt8) :
    (iccChunk st d).md = { st.md with icc := (iccChunk st d).md.icc } := by
  unfold iccChunk
  simp only
  split
  · rfl
  · split
    · rfl
    · split <;> rfl

theorem mkChunk_length (n k : Nat) (p : List UInt8) : (mkChunk n k p).length = p.length + 14 := by
  simp [mkChunk, iccId]

theorem mkChunk_take (n k : Nat) (p : List UInt8) : (mkChunk n k p).take 12 = iccId := by
  simp [mkChunk, iccId]

/-- one APP2 chunk not seen before: the loop's decision -/
theorem applySeg_chunk (sp : StreamSpec) (hn : sp.n < 256) (S : List Nat) (b : Bool) (st : St) (k : Nat)
    (hi : Inv sp S b st) (hk1 : 1 ≤ k) (hkn : k ≤ sp.n) (hnew : k ∉ S) :
    applySeg st (0xe2 : UInt8).toNat (mkChunk sp.n k (sp.P k)) =
      (iccChunk st (mkChunk sp.n k (sp.P k)), (iccChunk st (mkChunk sp.n k (sp.P k))).allExtracted) ∧
    Inv sp (k :: S) b (iccChunk st (mkChunk sp.n k (sp.P k))) := by
  have hseen := seen_step sp.n hn sp.P S st k hi.seen hk1 hkn hnew
  have hicc0 : st.md.iccSet = false := by unfold Meta.iccSet; rw [hi.seen.noErr]
  have hicc1 : (iccChunk st (mkChunk sp.n k (sp.P k))).md.iccSet = false := by unfold Meta.iccSet; rw [hseen.noErr]
  constructor
  · unfold applySeg
    have c0 : (((0xe2 : UInt8).toNat == 0xc0) || ((0xe2 : UInt8).toNat == 0xc2)) = false := by decide
    have c1 : ((0xe2 : UInt8).toNat == 0xe2) = true := by decide
    have c2 : ¬ ((mkChunk sp.n k (sp.P k)).length < iccId.length + 2) := by rw [mkChunk_length]; simp [iccId]
    have c3 : (List.take 12 (mkChunk sp.n k (sp.P k)) != iccId) = false := by rw [mkChunk_take]; simp
    simp only [c0, c1, c2, c3, hicc0, hicc1, Bool.false_eq_true, if_false, if_true, Bool.not_false, Bool.true_and]
  · refine ⟨hseen, ?_, ?_, ?_, ?_⟩
    · rw [iccChunk_extracted]; exact hi.ext
    · rw [iccChunk_md, hseen.noErr, ← hi.md]
      have := hi.seen.noErr
      cases hmd : st.md with
      | mk f w h d i => rw [hmd] at this; simp only at this; rw [this]
    · exact List.nodup_cons.mpr ⟨hnew, hi.nodup⟩
    · intro x hx
      rcases List.mem_cons.mp hx with rfl | hx
      · exact ⟨hk1, hkn⟩
      · exact hi.range x hx

/-- the frame header: the loop's decision -/
theorem applySeg_sofEv (sp : StreamSpec) (ht : sp.t.toNat = 0xc0 ∨ sp.t.toNat = 0xc2) (hh : sp.h < 65536) (hw : sp.w < 65536)
    (S : List Nat) (st : St) (hi : Inv sp S false st) :
    ∃ st', applySeg st sp.t.toNat (sofItem sp.t sp.prec sp.h sp.w sp.tail).d = (st', st'.allExtracted) ∧ Inv sp S true st' := by
  refine ⟨_, applySeg_sof st sp.t sp.prec sp.h sp.w sp.tail ht hh hw, ?_⟩
  refine ⟨?_, rfl, ?_, hi.nodup, hi.range⟩
  · exact ⟨hi.seen.noErr, hi.seen.count, hi.seen.len, hi.seen.shape, hi.seen.slot⟩
  · show ({ st.md with depth := sp.prec.toNat, height := sp.h, width := sp.w } : Meta) = mdOf sp true
    rw [hi.md]; rfl

/-- **the abstract loop on any stream**: whatever the order of the chunks, wherever the frame header
sits among them, whatever other segments lie between — the loop ends in a complete state -/
theorem absLoop_complete (sp : StreamSpec) (hn : sp.n < 256) (ht : sp.t.toNat = 0xc0 ∨ sp.t.toNat = 0xc2)
    (hh : sp.h < 65536) (hw : sp.w < 65536) :
    ∀ (evs : List Ev) (st : St) (S : List Nat) (b : Bool),
      Inv sp S b st →
      (∀ it, Ev.plain it ∈ evs → it.plain) →
      (chunkNos evs ++ S).Nodup →
      (∀ k ∈ chunkNos evs, 1 ≤ k ∧ k ≤ sp.n) →
      (∀ k, 1 ≤ k → k ≤ sp.n → k ∈ chunkNos evs ∨ k ∈ S) →
      sofCount evs = (if b then 0 else 1) →
      Complete sp (absLoop (evs.map (Ev.item sp)) st) := by
  intro evs
  induction evs with
  | nil =>
    intro st S b hi _ _ _ hcov hsof
    have hb : b = true := by
      cases b with
      | true => rfl
      | false => simp [sofCount] at hsof
    subst hb
    refine ⟨S, hi, length_of_cover sp.n S hi.nodup hi.range ?_⟩
    intro k h1 hk
    rcases hcov k h1 hk with h | h
    · simp [chunkNos] at h
    · exact h
  | cons ev evs ih =>
    intro st S b hi hpl hnd hrg hcov hsof
    cases ev with
    | plain it =>
      have hp : it.plain := hpl it List.mem_cons_self
      simp only [List.map_cons, Ev.item, absLoop, applySeg_plain st it hp, Bool.false_eq_true, if_false]
      exact ih st S b hi (fun x hx => hpl x (List.mem_cons_of_mem _ hx)) (by simpa [chunkNos] using hnd)
        (by simpa [chunkNos] using hrg) (by simpa [chunkNos] using hcov) (by simpa [sofCount] using hsof)
    | sof =>
      have hb : b = false := by
        cases b with
        | false => rfl
        | true => simp [sofCount] at hsof
      subst hb
      have hsof' : sofCount evs = 0 := by simpa [sofCount] using hsof
      obtain ⟨st', hap, hi'⟩ := applySeg_sofEv sp ht hh hw S st hi
      have ht' : (sofItem sp.t sp.prec sp.h sp.w sp.tail).t = sp.t := rfl
      simp only [List.map_cons, Ev.item, absLoop, ht', hap]
      by_cases hstop : st'.allExtracted = true
      · simp only [hstop, if_true]
        exact ⟨S, hi', (length_of_allExtracted sp.n sp.P S st' hi'.seen hstop).1⟩
      · simp only [hstop, Bool.false_eq_true, if_false]
        exact ih st' S true hi' (fun x hx => hpl x (List.mem_cons_of_mem _ hx)) (by simpa [chunkNos] using hnd)
          (by simpa [chunkNos] using hrg) (by simpa [chunkNos] using hcov) (by simpa using hsof')
    | chunk k =>
      have hnd0 : (k :: (chunkNos evs ++ S)).Nodup := by simpa [chunkNos] using hnd
      have hnew : k ∉ S := fun hm => (List.nodup_cons.mp hnd0).1 (List.mem_append_right _ hm)
      have hk : 1 ≤ k ∧ k ≤ sp.n := hrg k (by simp [chunkNos])
      obtain ⟨hap, hi'⟩ := applySeg_chunk sp hn S b st k hi hk.1 hk.2 hnew
      simp only [List.map_cons, Ev.item, absLoop, hap]
      by_cases hstop : (iccChunk st (mkChunk sp.n k (sp.P k))).allExtracted = true
      · simp only [hstop, if_true]
        have hl := length_of_allExtracted sp.n sp.P (k :: S) _ hi'.seen hstop
        have hb : b = true := by rw [← hi'.ext]; exact hl.2
        subst hb
        exact ⟨k :: S, hi', hl.1⟩
      · simp only [hstop, Bool.false_eq_true, if_false]
        refine ih _ (k :: S) b hi' (fun x hx => hpl x (List.mem_cons_of_mem _ hx)) ?_ ?_ ?_ (by simpa [sofCount] using hsof)
        · exact (List.perm_middle.nodup_iff).mpr hnd0
        · intro x hx; exact hrg x (by simp [chunkNos, hx])
        · intro x h1 hx
          rcases hcov x h1 hx with h | h
          · simp only [chunkNos, List.mem_cons] at h
            rcases h with rfl | h
            · exact Or.inr List.mem_cons_self
            · exact Or.inl h
          · exact Or.inr (List.mem_cons_of_mem _ h)

/-- the general form: either the loop left early in a complete state made of chunks of this stream,
or it ran to the terminator having seen every chunk of the stream (and the frame header iff there was one) -/
theorem absLoop_inv (sp : StreamSpec) (hn : sp.n < 256) (ht : sp.t.toNat = 0xc0 ∨ sp.t.toNat = 0xc2)
    (hh : sp.h < 65536) (hw : sp.w < 65536) :
    ∀ (evs : List Ev) (st : St) (S : List Nat) (b : Bool),
      Inv sp S b st →
      (∀ it, Ev.plain it ∈ evs → it.plain) →
      (chunkNos evs ++ S).Nodup →
      (∀ k ∈ chunkNos evs, 1 ≤ k ∧ k ≤ sp.n) →
      sofCount evs ≤ (if b then 0 else 1) →
      (∃ S', Inv sp S' true (absLoop (evs.map (Ev.item sp)) st) ∧ S'.length = sp.n ∧ ∀ k ∈ S', k ∈ chunkNos evs ∨ k ∈ S) ∨
      Inv sp ((chunkNos evs).reverse ++ S) (b || decide (0 < sofCount evs)) (absLoop (evs.map (Ev.item sp)) st) := by
  intro evs
  induction evs with
  | nil =>
    intro st S b hi _ _ _ _
    right
    simpa [chunkNos, sofCount, absLoop] using hi
  | cons ev evs ih =>
    intro st S b hi hpl hnd hrg hsof
    cases ev with
    | plain it =>
      have hp : it.plain := hpl it List.mem_cons_self
      simp only [List.map_cons, Ev.item, absLoop, applySeg_plain st it hp, Bool.false_eq_true, if_false]
      have := ih st S b hi (fun x hx => hpl x (List.mem_cons_of_mem _ hx)) (by simpa [chunkNos] using hnd)
        (by simpa [chunkNos] using hrg) (by simpa [sofCount] using hsof)
      simp only [chunkNos, sofCount]
      exact this
    | sof =>
      have hb : b = false := by
        cases b with
        | false => rfl
        | true => simp [sofCount] at hsof
      subst hb
      have hsof' : sofCount evs = 0 := by simp [sofCount] at hsof; omega
      obtain ⟨st', hap, hi'⟩ := applySeg_sofEv sp ht hh hw S st hi
      have ht' : (sofItem sp.t sp.prec sp.h sp.w sp.tail).t = sp.t := rfl
      simp only [List.map_cons, Ev.item, absLoop, ht', hap]
      by_cases hstop : st'.allExtracted = true
      · simp only [hstop, if_true]
        left
        exact ⟨S, hi', (length_of_allExtracted sp.n sp.P S st' hi'.seen hstop).1, fun k hk => Or.inr hk⟩
      · simp only [hstop, Bool.false_eq_true, if_false]
        have := ih st' S true hi' (fun x hx => hpl x (List.mem_cons_of_mem _ hx)) (by simpa [chunkNos] using hnd)
          (by simpa [chunkNos] using hrg) (by simp [hsof'])
        simp only [chunkNos, sofCount, hsof', Nat.zero_add, Nat.lt_irrefl, decide_false, Bool.or_false, Bool.false_or,
          Nat.lt_add_one, decide_true] at this ⊢
        exact this
    | chunk k =>
      have hnd0 : (k :: (chunkNos evs ++ S)).Nodup := by simpa [chunkNos] using hnd
      have hnew : k ∉ S := fun hm => (List.nodup_cons.mp hnd0).1 (List.mem_append_right _ hm)
      have hk : 1 ≤ k ∧ k ≤ sp.n := hrg k (by simp [chunkNos])
      obtain ⟨hap, hi'⟩ := applySeg_chunk sp hn S b st k hi hk.1 hk.2 hnew
      simp only [List.map_cons, Ev.item, absLoop, hap]
      by_cases hstop : (iccChunk st (mkChunk sp.n k (sp.P k))).allExtracted = true
      · simp only [hstop, if_true]
        have hl := length_of_allExtracted sp.n sp.P (k :: S) _ hi'.seen hstop
        have hb : b = true := by rw [← hi'.ext]; exact hl.2
        subst hb
        left
        refine ⟨k :: S, hi', hl.1, ?_⟩
        intro x hx
        rcases List.mem_cons.mp hx with rfl | hx
        · left; simp [chunkNos]
        · right; exact hx
      · simp only [hstop, Bool.false_eq_true, if_false]
        have := ih _ (k :: S) b hi' (fun x hx => hpl x (List.mem_cons_of_mem _ hx))
          ((List.perm_middle.nodup_iff).mpr hnd0) (fun x hx => hrg x (by simp [chunkNos, hx])) (by simpa [sofCount] using hsof)
        rcases this with ⟨S', h1, h2, h3⟩ | h
        · left
          refine ⟨S', h1, h2, ?_⟩
          intro x hx
          rcases h3 x hx with h | h
          · left; simp [chunkNos, h]
          · rcases List.mem_cons.mp h with rfl | h
            · left; simp [chunkNos]
            · right; exact h
        · right
          simp only [chunkNos, sofCount, List.reverse_cons, List.append_assoc, List.singleton_append]
          exact h

/-- **C06 (JPEG, a chunk is missing).** If the stream carries some but not all of the `n` chunks (in any
order, among any other segments, with the frame header anywhere), the profile is reported as an error
— never as the bytes that did arrive. -/
theorem C06_jpeg_stream_incomplete (zl : Inflate) (e : IOErr) (sp : StreamSpec) (hn : sp.n < 256)
    (ht : sp.t.toNat = 0xc0 ∨ sp.t.toNat = 0xc2) (hh : sp.h < 65536) (hw : sp.w < 65536)
    (evs : List Ev) (hok : ∀ ev ∈ evs, (ev.item sp).ok) (hpl : ∀ it, Ev.plain it ∈ evs → it.plain)
    (hnd : (chunkNos evs).Nodup) (hrg : ∀ k ∈ chunkNos evs, 1 ≤ k ∧ k ≤ sp.n) (hsome : chunkNos evs ≠ [])
    (k0 : Nat) (hk0 : 1 ≤ k0 ∧ k0 ≤ sp.n) (hmiss : k0 ∉ chunkNos evs) (hsof : sofCount evs = 1)
    (tb rest : List UInt8) (htb : termOk tb) :
    (run3 zl (extract (evs.length + 1)).run
      (markerBytes 0xd8 ++ ((evs.map (Ev.item sp)).flatMap Item.bytes ++ (tb ++ rest))) e).1 =
    .ok { md1 sp with icc := .err "incomplete ICC profile data" } := by
  have h1 := extract_items zl e tb rest htb (evs.map (Ev.item sp)) (by
    intro it hit
    obtain ⟨ev, hev, rfl⟩ := List.mem_map.mp hit
    exact hok ev hev)
  rw [List.length_map] at h1
  rw [h1]
  have hinv := absLoop_inv sp hn ht hh hw evs {} [] false (inv_init sp) hpl (by simpa using hnd) hrg (by simp [hsof])
  -- a nodup list inside 1..n that misses k0 has fewer than n elements
  have hshort : ∀ S' : List Nat, S'.Nodup → (∀ k ∈ S', k ∈ chunkNos evs) → S'.length < sp.n := by
    intro S' hnd' hsub
    have hnd2 : (k0 :: S').Nodup := List.nodup_cons.mpr ⟨fun hm => hmiss (hsub k0 hm), hnd'⟩
    have hsub2 : (k0 :: S') ⊆ List.range' 1 sp.n := by
      intro a ha
      rw [List.mem_range'_1]
      rcases List.mem_cons.mp ha with rfl | ha
      · omega
      · have := hrg a (hsub a ha); omega
    have := hnd2.length_le_of_subset hsub2
    simp only [List.length_cons, List.length_range'] at this
    omega
  rcases hinv with ⟨S', hi, hl, hsub⟩ | hi
  · exfalso
    have := hshort S' hi.nodup (fun k hk => by rcases hsub k hk with h | h; exact h; simp at h)
    omega
  · simp only [List.append_nil, Bool.false_or, hsof] at hi
    have hext : (absLoop (evs.map (Ev.item sp)) {}).extracted = true := by rw [hi.ext]; decide
    have hlt := hshort (chunkNos evs).reverse ((List.reverse_perm _).nodup_iff.mpr hnd) (fun k hk => List.mem_reverse.mp hk)
    have hne : (chunkNos evs).reverse ≠ [] := by simpa using hsome
    have hch : ∃ cs, (absLoop (evs.map (Ev.item sp)) {}).chunks = some cs := by
      cases hc : (absLoop (evs.map (Ev.item sp)) {}).chunks with
      | none => exact absurd (hi.seen.shape hc) hne
      | some cs => exact ⟨cs, rfl⟩
    obtain ⟨cs, hcs⟩ := hch
    have hlen : cs.length = sp.n := by
      have := hi.seen.len
      simpa [slots, hcs] using this
    have hcnt := hi.seen.count
    rw [List.length_reverse] at hcnt hlt
    unfold finish
    have hneq : (cs.length != (absLoop (evs.map (Ev.item sp)) {}).count) = true := by
      rw [hcnt, hlen]; simp; omega
    simp only [hext, Bool.not_true, Bool.false_eq_true, if_false, hi.seen.noErr, hcs, Option.getD_some, hneq, if_true]
    rw [hi.md]
    rfl

/-- the profile: the payloads in chunk order -/
def StreamSpec.profile (sp : StreamSpec) : List UInt8 := (List.range sp.n).flatMap fun j => sp.P (j + 1)

/-- a complete state finishes with the frame header's values and the concatenated payloads -/
theorem finish_complete (sp : StreamSpec) (st : St) (h : Complete sp st) :
    finish st = .ok ((md1 sp).setIccData sp.profile true) := by
  obtain ⟨S, hi, hl⟩ := h
  have hslots : slots sp.n st = (List.range sp.n).map fun j => some (sp.P (j + 1)) := by
    apply List.ext_getElem?
    intro j
    by_cases hj : j < sp.n
    · rw [hi.seen.slot j hj]
      have : j + 1 ∈ S := mem_of_full sp.n S hi.nodup hi.range hl (j + 1) (by omega) (by omega)
      simp [this, hj]
    · have h1 : (slots sp.n st)[j]? = none := by
        rw [List.getElem?_eq_none_iff, hi.seen.len]; omega
      have h2 : ((List.range sp.n).map fun j => some (sp.P (j + 1)))[j]? = none := by
        rw [List.getElem?_eq_none_iff, List.length_map, List.length_range]; omega
      rw [h1, h2]
  have hch : st.chunks.getD [] = slots sp.n st := by
    cases hc : st.chunks with
    | none =>
      have := hi.seen.shape hc
      have hn0 : sp.n = 0 := by rw [← hl, this]; rfl
      simp [slots, hc, hn0]
    | some cs => simp [slots, hc]
  unfold finish
  have hext : st.extracted = true := hi.ext
  have hlen : (slots sp.n st).length = st.count := by rw [hi.seen.len, hi.seen.count, hl]
  simp only [hext, Bool.not_true, Bool.false_eq_true, if_false, hi.seen.noErr, hch, hlen, bne_self_eq_false]
  rw [hi.md, hslots]
  congr 2
  simp [StreamSpec.profile, List.flatMap_map]

/-- **C06 (JPEG, byte level).** For every chunk count `n ≤ 255`, all payloads, **every arrangement of
the stream** — the `n` `ICC_PROFILE` APP2 segments in any order, the frame header anywhere among
them, any other well-formed segments (APPn, COM, DQT, DHT, DRI, RSTn, non-ICC APP2 …) anywhere —
terminated by SOS or EOI and followed by anything: the extractor returns the frame header's
dimensions and precision and, as the profile, exactly the payloads concatenated in chunk order. -/
theorem C06_jpeg_stream (zl : Inflate) (e : IOErr) (sp : StreamSpec) (hn : sp.n < 256)
    (ht : sp.t.toNat = 0xc0 ∨ sp.t.toNat = 0xc2) (hh : sp.h < 65536) (hw : sp.w < 65536)
    (evs : List Ev) (hok : ∀ ev ∈ evs, (ev.item sp).ok) (hpl : ∀ it, Ev.plain it ∈ evs → it.plain)
    (hnd : (chunkNos evs).Nodup) (hall : ∀ k, k ∈ chunkNos evs ↔ 1 ≤ k ∧ k ≤ sp.n) (hsof : sofCount evs = 1)
    (tb rest : List UInt8) (htb : termOk tb) :
    (run3 zl (extract (evs.length + 1)).run
      (markerBytes 0xd8 ++ ((evs.map (Ev.item sp)).flatMap Item.bytes ++ (tb ++ rest))) e).1 =
    .ok ((md1 sp).setIccData sp.profile true) := by
  have h1 := extract_items zl e tb rest htb (evs.map (Ev.item sp)) (by
    intro it hit
    obtain ⟨ev, hev, rfl⟩ := List.mem_map.mp hit
    exact hok ev hev)
  rw [List.length_map] at h1
  rw [h1]
  have hc := absLoop_complete sp hn ht hh hw evs {} [] false (inv_init sp) hpl (by simpa using hnd)
    (fun k hk => (hall k).mp hk) (fun k h1 hk => Or.inl ((hall k).mpr ⟨h1, hk⟩)) (by simpa using hsof)
  rw [finish_complete sp _ hc]

/-- **C05 (JPEG, byte level).** Any well-formed segments before and after the frame header (none of
them a frame header or an `ICC_PROFILE` segment), SOS or EOI, anything: width, height and
precision are the frame header's. -/
theorem C05_jpeg_any_segments (zl : Inflate) (e : IOErr) (pre post : List Item) (t prec : UInt8) (h w : Nat) (tail : List UInt8)
    (hpre : ∀ it ∈ pre, it.plain ∧ it.ok) (hpost : ∀ it ∈ post, it.plain ∧ it.ok)
    (ht : t.toNat = 0xc0 ∨ t.toNat = 0xc2) (hh : h < 65536) (hw : w < 65536) (htail : tail.length + 7 < 65536)
    (tb rest : List UInt8) (htb : termOk tb) :
    (run3 zl (extract ((pre ++ sofItem t prec h w tail :: post).length + 1)).run
      (markerBytes 0xd8 ++ ((pre ++ sofItem t prec h w tail :: post).flatMap Item.bytes ++ (tb ++ rest))) e).1 =
    .ok { format := "JPEG", width := w, height := h, depth := prec.toNat } := by
  have hsofok : (sofItem t prec h w tail).ok := by
    right
    refine ⟨?_, ?_, ?_, ?_⟩
    · show withLength t.toNat = true
      rcases ht with h | h <;> (rw [h]; decide)
    · simp [sofItem, enc16be]; omega
    · show t.toNat ≠ 0xda
      rcases ht with h | h <;> omega
    · intro _; simp [sofItem, enc16be]
  have h1 := extract_items zl e tb rest htb (pre ++ sofItem t prec h w tail :: post) (by
    intro it hit
    rcases List.mem_append.mp hit with h | h
    · exact (hpre it h).2
    · rcases List.mem_cons.mp h with rfl | h
      · exact hsofok
      · exact (hpost it h).2)
  rw [h1, absLoop_sof_only pre post t prec h w tail (fun x hx => (hpre x hx).1) (fun x hx => (hpost x hx).1) ht hh hw]


/-- `C06_jpeg_stream` through `runPure`, the functional meaning the loaders are proved to compute (C08) -/
theorem C06_jpeg_stream_pure (zl : Inflate) (e : IOErr) (sp : StreamSpec) (hn : sp.n < 256)
    (ht : sp.t.toNat = 0xc0 ∨ sp.t.toNat = 0xc2) (hh : sp.h < 65536) (hw : sp.w < 65536)
    (evs : List Ev) (hok : ∀ ev ∈ evs, (ev.item sp).ok) (hpl : ∀ it, Ev.plain it ∈ evs → it.plain)
    (hnd : (chunkNos evs).Nodup) (hall : ∀ k, k ∈ chunkNos evs ↔ 1 ≤ k ∧ k ≤ sp.n) (hsof : sofCount evs = 1)
    (tb rest : List UInt8) (htb : termOk tb) (c : Cost) :
    (runPure zl (extract (evs.length + 1)).run
      (markerBytes 0xd8 ++ ((evs.map (Ev.item sp)).flatMap Item.bytes ++ (tb ++ rest))) e c).1 =
    .ok ((md1 sp).setIccData sp.profile true) := by
  rw [Prog.runPure_eq_run3]
  exact C06_jpeg_stream zl e sp hn ht hh hw evs hok hpl hnd hall hsof tb rest htb

theorem C05_jpeg_any_segments_pure (zl : Inflate) (e : IOErr) (pre post : List Item) (t prec : UInt8) (h w : Nat) (tail : List UInt8)
    (hpre : ∀ it ∈ pre, it.plain ∧ it.ok) (hpost : ∀ it ∈ post, it.plain ∧ it.ok)
    (ht : t.toNat = 0xc0 ∨ t.toNat = 0xc2) (hh : h < 65536) (hw : w < 65536) (htail : tail.length + 7 < 65536)
    (tb rest : List UInt8) (htb : termOk tb) (c : Cost) :
    (runPure zl (extract ((pre ++ sofItem t prec h w tail :: post).length + 1)).run
      (markerBytes 0xd8 ++ ((pre ++ sofItem t prec h w tail :: post).flatMap Item.bytes ++ (tb ++ rest))) e c).1 =
    .ok { format := "JPEG", width := w, height := h, depth := prec.toNat } := by
  rw [Prog.runPure_eq_run3]
  exact C05_jpeg_any_segments zl e pre post t prec h w tail hpre hpost ht hh hw htail tb rest htb

/-- non-vacuity: three chunks arriving as 2, 3, 1 with a COM segment, the frame header and a DQT
segment between them; the stream's bytes are evaluated by the extractor itself -/
example :
    let sp : StreamSpec := ⟨3, fun k => [UInt8.ofNat (10 * k), 7], 0xc2, 8, 300, 200, [3, 1, 0x11, 0]⟩
    let evs : List Ev := [.plain ⟨0xfe, [1, 2, 3]⟩, .chunk 2, .chunk 3, .sof, .plain ⟨0xdb, [0, 9]⟩, .chunk 1]
    (run3 (fun _ => .error "none") (extract (evs.length + 1)).run
      (markerBytes 0xd8 ++ ((evs.map (Ev.item sp)).flatMap Item.bytes ++ (markerBytes 0xd9 ++ [1, 2, 3]))) .eof).1 =
    .ok { format := "JPEG", width := 200, height := 300, depth := 8, icc := .data [10, 7, 20, 7, 30, 7] } := by
  intro sp evs
  decide +kernel

end Prism.Jpeg
