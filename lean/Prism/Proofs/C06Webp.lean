import Prism.Proofs.Lemmas.Run
import Prism.Model.Webp

/-!
# C05 / C06 (WebP, VP8X): every flags byte, every ICC payload
-/

namespace Prism.Webp
open Prog Parser

def enc32le (n : Nat) : List UInt8 :=
  [UInt8.ofNat (n % 256), UInt8.ofNat (n / 256 % 256), UInt8.ofNat (n / 65536 % 256), UInt8.ofNat (n / 16777216 % 256)]

theorem run3_u32le_cons (zl : Inflate) (a b c d : UInt8) (rest : List UInt8) (e : IOErr) :
    run3 zl Parser.u32le.run (a :: b :: c :: d :: rest) e =
      (.ok (a.toNat + 256 * (b.toNat + 256 * (c.toNat + 256 * d.toNat))), rest) := by
  unfold Parser.u32le
  rw [Parser.run3_bind, Parser.run3_byte_cons]; simp only
  rw [Parser.run3_bind, Parser.run3_byte_cons]; simp only
  rw [Parser.run3_bind, Parser.run3_byte_cons]; simp only
  rw [Parser.run3_bind, Parser.run3_byte_cons]; simp only
  rw [Parser.run3_pure]

theorem run3_u32le_enc (zl : Inflate) (n : Nat) (hn : n < 4294967296) (rest : List UInt8) (e : IOErr) :
    run3 zl Parser.u32le.run (enc32le n ++ rest) e = (.ok n, rest) := by
  unfold enc32le
  simp only [List.cons_append, List.nil_append]
  rw [run3_u32le_cons]
  simp only [UInt8.toNat_ofNat', Prod.mk.injEq, Except.ok.injEq, and_true]
  omega

theorem run3_u24le_cons (zl : Inflate) (a b c : UInt8) (rest : List UInt8) (e : IOErr) :
    run3 zl Parser.u24le.run (a :: b :: c :: rest) e = (.ok (a.toNat + 256 * (b.toNat + 256 * c.toNat)), rest) := by
  unfold Parser.u24le
  rw [Parser.run3_bind, Parser.run3_byte_cons]; simp only
  rw [Parser.run3_bind, Parser.run3_byte_cons]; simp only
  rw [Parser.run3_bind, Parser.run3_byte_cons]; simp only
  rw [Parser.run3_pure]

/-- a chunk header: 4-byte type, any 4 length bytes -/
theorem run3_chunkHeader_cons (zl : Inflate) (ty : List UInt8) (hty : ty.length = 4) (a b c d : UInt8) (rest : List UInt8) (e : IOErr) :
    run3 zl chunkHeader.run (ty ++ a :: b :: c :: d :: rest) e =
      (.ok (ty, a.toNat + 256 * (b.toNat + 256 * (c.toNat + 256 * d.toNat))), rest) := by
  unfold chunkHeader
  rw [Parser.run3_bind]
  have h4 : run3 zl (Parser.full 4).run (ty ++ a :: b :: c :: d :: rest) e = (.ok ty, a :: b :: c :: d :: rest) := by
    rw [← hty]; exact Parser.run3_full_append zl ty _ e
  rw [Parser.run3_mapErr_ok zl _ _ _ _ _ _ h4]
  simp only
  rw [Parser.run3_bind, run3_u32le_cons]
  rfl

/-- the fixed part of an extended-format file: RIFF header (any size bytes), `WEBP`, the VP8X chunk
header with length 10, flags, three reserved bytes, 24-bit canvas width−1 and height−1 -/
def vp8xPrefix (s0 s1 s2 s3 flags r0 r1 r2 w0 w1 w2 h0 h1 h2 : UInt8) : List UInt8 :=
  tRIFF ++ [s0, s1, s2, s3] ++ tWEBP ++ tVP8X ++ [10, 0, 0, 0] ++ [flags, r0, r1, r2, w0, w1, w2, h0, h1, h2]

def le3 (a b c : UInt8) : Nat := a.toNat + 256 * (b.toNat + 256 * c.toNat)

/-- evaluation up to the ICC decision -/
theorem run3_extract_vp8x (zl : Inflate) (e : IOErr) (s0 s1 s2 s3 flags r0 r1 r2 w0 w1 w2 h0 h1 h2 : UInt8) (more : List UInt8) :
    run3 zl extract.run (vp8xPrefix s0 s1 s2 s3 flags r0 r1 r2 w0 w1 w2 h0 h1 h2 ++ more) e =
      (if (flags.toNat / 32) % 2 == 1 then
        match run3 zl (readICCP 10).run more e with
        | (.ok d, rest) => (.ok (({ format := "WebP", width := le3 w0 w1 w2 + 1, height := le3 h0 h1 h2 + 1, depth := 8 } : Meta).setIccData d false), rest)
        | (.error _, rest) => (.ok { format := "WebP", width := le3 w0 w1 w2 + 1, height := le3 h0 h1 h2 + 1, depth := 8, icc := .err "icc" }, rest)
      else (.ok { format := "WebP", width := le3 w0 w1 w2 + 1, height := le3 h0 h1 h2 + 1, depth := 8 }, more)) := by
  unfold extract vp8xPrefix
  simp only [List.append_assoc, List.cons_append, List.nil_append]
  rw [Parser.run3_bind]
  have q1 := run3_chunkHeader_cons zl tRIFF rfl s0 s1 s2 s3 (tWEBP ++ (tVP8X ++ (10 :: 0 :: 0 :: 0 :: flags :: r0 :: r1 :: r2 :: w0 :: w1 :: w2 :: h0 :: h1 :: h2 :: more))) e
  rw [q1]
  simp only [bne_self_eq_false, Bool.false_eq_true, if_false]
  rw [Parser.run3_bind]
  have q2 : run3 zl (Parser.full 4).run (tWEBP ++ (tVP8X ++ (10 :: 0 :: 0 :: 0 :: flags :: r0 :: r1 :: r2 :: w0 :: w1 :: w2 :: h0 :: h1 :: h2 :: more))) e =
      (.ok tWEBP, tVP8X ++ (10 :: 0 :: 0 :: 0 :: flags :: r0 :: r1 :: r2 :: w0 :: w1 :: w2 :: h0 :: h1 :: h2 :: more)) :=
    Parser.run3_full_append zl tWEBP _ e
  rw [q2]
  simp only [bne_self_eq_false, Bool.false_eq_true, if_false]
  rw [Parser.run3_bind]
  have q3 := run3_chunkHeader_cons zl tVP8X rfl 10 0 0 0 (flags :: r0 :: r1 :: r2 :: w0 :: w1 :: w2 :: h0 :: h1 :: h2 :: more) e
  rw [q3]
  simp only
  have c1 : (tVP8X == tVP8) = false := by decide
  have c2 : (tVP8X == tVP8L) = false := by decide
  simp only [c1, c2, Bool.false_eq_true, if_false, beq_self_eq_true, if_true]
  unfold extended
  have c3 : (((10 : UInt8).toNat + 256 * ((0 : UInt8).toNat + 256 * ((0 : UInt8).toNat + 256 * (0 : UInt8).toNat))) != 10) = false := by decide
  simp only [c3, Bool.false_eq_true, if_false]
  rw [Parser.run3_bind, Parser.run3_byte_cons]
  simp only
  rw [Parser.run3_bind]
  have hs := Parser.run3_skip_append zl e [r0, r1, r2] (w0 :: w1 :: w2 :: h0 :: h1 :: h2 :: more)
  simp only [List.length_cons, List.length_nil, List.cons_append, List.nil_append] at hs
  rw [hs]
  simp only
  rw [Parser.run3_bind, run3_u24le_cons]
  simp only
  rw [Parser.run3_bind, run3_u24le_cons]
  simp only
  by_cases hf : ((flags.toNat / 32) % 2 == 1) = true
  · simp only [hf, if_true]
    rw [Parser.run3_bind, Parser.run3_attempt]
    have c4 : ((10 : UInt8).toNat + 256 * ((0 : UInt8).toNat + 256 * ((0 : UInt8).toNat + 256 * (0 : UInt8).toNat))) = 10 := by decide
    rw [c4]
    cases hr : run3 zl (readICCP 10).run more e with
    | mk r rest =>
      cases r with
      | ok d => rfl
      | error err => rfl
  · simp only [hf, Bool.false_eq_true, if_false]
    rfl

/-- **C05 (WebP VP8X, every flags byte without the ICC bit).** -/
theorem C05_webp_vp8x_any_flags (zl : Inflate) (e : IOErr) (s0 s1 s2 s3 flags r0 r1 r2 w0 w1 w2 h0 h1 h2 : UInt8)
    (hf : (flags.toNat / 32) % 2 = 0) (rest : List UInt8) :
    (run3 zl extract.run (vp8xPrefix s0 s1 s2 s3 flags r0 r1 r2 w0 w1 w2 h0 h1 h2 ++ rest) e).1 =
    .ok { format := "WebP", width := le3 w0 w1 w2 + 1, height := le3 h0 h1 h2 + 1, depth := 8 } := by
  rw [run3_extract_vp8x]
  have : ((flags.toNat / 32) % 2 == 1) = false := by simp [hf]
  simp only [this, Bool.false_eq_true, if_false]

/-- **C06 (WebP).** Every flags byte with the ICC bit, an `ICCP` chunk with **any payload** right after
the VP8X chunk, anything after: the profile is the payload, byte for byte. -/
theorem C06_webp_iccp (zl : Inflate) (e : IOErr) (s0 s1 s2 s3 flags r0 r1 r2 w0 w1 w2 h0 h1 h2 : UInt8)
    (hf : (flags.toNat / 32) % 2 = 1) (p : List UInt8) (hp : p.length < 4294967296) (rest : List UInt8) :
    (run3 zl extract.run (vp8xPrefix s0 s1 s2 s3 flags r0 r1 r2 w0 w1 w2 h0 h1 h2 ++ (tICCP ++ enc32le p.length ++ p ++ rest)) e).1 =
    .ok { format := "WebP", width := le3 w0 w1 w2 + 1, height := le3 h0 h1 h2 + 1, depth := 8, icc := .data p } := by
  rw [run3_extract_vp8x]
  have : ((flags.toNat / 32) % 2 == 1) = true := by simp [hf]
  simp only [this, if_true]
  have hr : run3 zl (readICCP 10).run (tICCP ++ enc32le p.length ++ p ++ rest) e = (.ok p, rest) := by
    unfold readICCP
    have hz : (10 + 4294967296 - 10) % 4294967296 = 0 := by decide
    rw [hz, Parser.run3_bind]
    simp only [Parser.skip]
    rw [Parser.run3_pure]
    simp only
    rw [Parser.run3_bind]
    have hh : run3 zl chunkHeader.run (tICCP ++ enc32le p.length ++ p ++ rest) e = (.ok (tICCP, p.length), p ++ rest) := by
      unfold chunkHeader
      rw [Parser.run3_bind]
      have h4 : run3 zl (Parser.full 4).run (tICCP ++ enc32le p.length ++ p ++ rest) e = (.ok tICCP, enc32le p.length ++ (p ++ rest)) := by
        have := Parser.run3_full_append zl tICCP (enc32le p.length ++ (p ++ rest)) e
        rw [List.append_assoc, List.append_assoc]
        exact this
      rw [Parser.run3_mapErr_ok zl _ _ _ _ _ _ h4]
      simp only
      rw [Parser.run3_bind, run3_u32le_enc zl _ hp]
      rfl
    rw [hh]
    simp only [bne_self_eq_false, Bool.false_eq_true, if_false]
    exact Parser.run3_bytesN_append zl p rest e
  rw [hr]
  simp [Meta.setIccData]

/-- **C06 (WebP, flagged but absent).** The ICC flag set and another chunk where `ICCP` should be: the
dimensions are returned and the profile is reported as an error. -/
theorem C06_webp_iccp_missing (zl : Inflate) (e : IOErr) (s0 s1 s2 s3 flags r0 r1 r2 w0 w1 w2 h0 h1 h2 : UInt8)
    (hf : (flags.toNat / 32) % 2 = 1) (ty : List UInt8) (hty : ty.length = 4) (hne : ty ≠ tICCP) (a b c d : UInt8) (rest : List UInt8) :
    (run3 zl extract.run (vp8xPrefix s0 s1 s2 s3 flags r0 r1 r2 w0 w1 w2 h0 h1 h2 ++ (ty ++ a :: b :: c :: d :: rest)) e).1 =
    .ok { format := "WebP", width := le3 w0 w1 w2 + 1, height := le3 h0 h1 h2 + 1, depth := 8, icc := .err "icc" } := by
  rw [run3_extract_vp8x]
  have : ((flags.toNat / 32) % 2 == 1) = true := by simp [hf]
  simp only [this, if_true]
  have hr : run3 zl (readICCP 10).run (ty ++ a :: b :: c :: d :: rest) e = (.error (.bad "no expected ICCP chunk"), rest) := by
    unfold readICCP
    have hz : (10 + 4294967296 - 10) % 4294967296 = 0 := by decide
    rw [hz, Parser.run3_bind]
    simp only [Parser.skip]
    rw [Parser.run3_pure]
    simp only
    rw [Parser.run3_bind, run3_chunkHeader_cons zl ty hty]
    have : (ty != tICCP) = true := by simpa using hne
    simp only [this, if_true]
    rfl
  rw [hr]

end Prism.Webp
