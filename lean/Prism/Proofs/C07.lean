import Prism.Proofs.Lemmas.Stack

/-!
# C07 — the returned stream always replays the complete original input

`Rd.contents r = (bytes, endErr)` is what reader `r` will deliver: for a source with data `d`
that fails after `k` bytes it is `(d.take k, fault)`; for one that simply ends, `(d, eof)`.
-/

namespace Prism

/-- reading a stream to its end (any request size ≥ 1) yields exactly its contents, then its
terminal error -/
theorem Rd.drain_spec (req : Nat) (hreq : 1 ≤ req) : ∀ (fuel : Nat) (r : Rd) (acc : List (List UInt8)),
    r.contents.1.length < fuel →
    (r.drain fuel req acc).1 = acc.reverse.flatten ++ r.contents.1 ∧
    (r.drain fuel req acc).2.1 = some r.contents.2 := by
  intro fuel
  induction fuel with
  | zero => intro r acc h; omega
  | succ fuel ih =>
    intro r acc h
    unfold Rd.drain
    have h1 := Rd.read_contents r req
    have h2 := Rd.read_err r req
    have h3 := Rd.read_progress r req hreq
    have h4 := Rd.read_exhausted r req
    generalize r.read req = q at h1 h2 h3 h4
    obtain ⟨c, e, r'⟩ := q
    simp only at h1 h2 h3 h4 ⊢
    cases e with
    | some err =>
      simp only
      obtain ⟨a, b⟩ := h2 err rfl
      refine ⟨?_, by rw [b]⟩
      rw [flatten_reverse_cons, h1.1, a]; simp
    | none =>
      simp only
      have hne : r.contents.1 ≠ [] := by
        intro hh; have := (h4 hh).2; simp at this
      have hc := h3 hne
      have hcl : 0 < c.length := List.length_pos_iff.mpr hc
      have hlen : r.contents.1.length = c.length + r'.contents.1.length := by rw [h1.1]; simp
      have := ih r' (c :: acc) (by omega)
      rw [flatten_reverse_cons, h1.2] at this
      refine ⟨?_, this.2⟩
      rw [this.1, h1.1]; simp [List.append_assoc]

/-- **C07 (every loader, every extractor).** For an arbitrary extractor program `p` — so whatever
the metadata code does, including failing, panicking (modelled as an error value) or stopping
early —, an arbitrary reader `r` (any data, any delivery schedule, failing after any number of
bytes) and any zlib behaviour: the stream `Load` returns delivers exactly what `r` would have. -/
theorem C07_replay {α : Type} (zl : Prog.Inflate) (p : Prog α) (r : Rd) :
    (load zl p r).2.contents = r.contents := load_contents zl p r

/-- **C07 (read to the end).** Draining the returned stream yields the source's bytes in order —
all of them when the source ends, those delivered before the failure when it fails — and then
surfaces the source's terminal error. -/
theorem C07_drain {α : Type} (zl : Prog.Inflate) (p : Prog α) (r : Rd) (req : Nat) (hreq : 1 ≤ req) :
    ((load zl p r).2.drain (r.contents.1.length + 1) req []).1 = r.contents.1 ∧
    ((load zl p r).2.drain (r.contents.1.length + 1) req []).2.1 = some r.contents.2 := by
  have h := Rd.drain_spec req hreq (r.contents.1.length + 1) (load zl p r).2 []
    (by rw [C07_replay]; omega)
  rw [C07_replay] at h
  simpa using h

/-- the three format loaders and the auto-detecting loader are instances -/
theorem C07_png (zl : Prog.Inflate) (fuel : Nat) (r : Rd) :
    (load zl (Png.extract fuel).run r).2.contents = r.contents := C07_replay _ _ _
theorem C07_jpeg (zl : Prog.Inflate) (fuel : Nat) (r : Rd) :
    (load zl (Jpeg.extract fuel).run r).2.contents = r.contents := C07_replay _ _ _
theorem C07_webp (zl : Prog.Inflate) (r : Rd) :
    (load zl Webp.extract.run r).2.contents = r.contents := C07_replay _ _ _
theorem C07_auto (zl : Prog.Inflate) (fuel : Nat) (r : Rd) :
    (Auto.load zl fuel r).2.contents = r.contents := (Auto.loadList_spec zl _ r).2

/-- non-vacuity: a source failing after 3 of its bytes, delivering 2 bytes per read; the PNG
loader fails on it, and the returned stream still holds the 3 delivered bytes and the fault -/
example :
    let r := Rd.src { rest := [0x89, 0x50, 0x4e], sched := [2], endErr := .fault }
    (load (fun _ => .error "") (Png.extract 10).run r).2.contents = ([0x89, 0x50, 0x4e], .fault) := by
  decide

end Prism
