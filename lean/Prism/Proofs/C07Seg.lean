import Prism.Proofs.C07

/-!
# C07 — the returned stream under every read segmentation of its consumer

`C07_drain` reads the returned stream with one fixed request size.  Here the consumer issues an **arbitrary** list of request
sizes — any mixture, zero-length requests included (a caller polling with an empty buffer): the bytes delivered, concatenated,
are always a prefix of the source's contents (nothing lost, duplicated or reordered), the stream that remains still holds
exactly the rest, an error is surfaced only when everything has been delivered and is the source's own terminal error, and
as soon as the list contains more positive requests than there are bytes, the terminal error has been surfaced.
-/

namespace Prism

/-- read with the given request sizes until they are used up or an error is surfaced -/
def Rd.drainWith : List Nat → Rd → List UInt8 → List UInt8 × Option IOErr × Rd
  | [], r, acc => (acc, none, r)
  | q :: qs, r, acc =>
    match r.read q with
    | (c, some err, r') => (acc ++ c, some err, r')
    | (c, none, r') => Rd.drainWith qs r' (acc ++ c)

theorem Rd.drainWith_spec : ∀ (reqs : List Nat) (r : Rd) (acc : List UInt8),
    acc ++ r.contents.1 = (r.drainWith reqs acc).1 ++ (r.drainWith reqs acc).2.2.contents.1 ∧
    (r.drainWith reqs acc).2.2.contents.2 = r.contents.2 ∧
    (∀ err, (r.drainWith reqs acc).2.1 = some err → (r.drainWith reqs acc).2.2.contents.1 = [] ∧ err = r.contents.2)
  | [], r, acc => by simp [Rd.drainWith]
  | q :: qs, r, acc => by
    have hc := Rd.read_contents r q
    have he := Rd.read_err r q
    unfold Rd.drainWith
    cases hr : r.read q with
    | mk c rest =>
      cases rest with
      | mk e r' =>
        rw [hr] at hc he
        simp only at hc he
        cases e with
        | some err =>
          simp only
          refine ⟨by rw [hc.1, List.append_assoc], hc.2, ?_⟩
          intro err' h
          simp only [Option.some.injEq] at h
          subst h
          exact he err rfl
        | none =>
          simp only
          have ih := Rd.drainWith_spec qs r' (acc ++ c)
          refine ⟨?_, ?_, ?_⟩
          · rw [← ih.1, hc.1, List.append_assoc]
          · rw [ih.2.1, hc.2]
          · intro err h
            have := ih.2.2 err h
            rw [hc.2] at this
            exact this

/-- enough positive requests surface the terminal error -/
theorem Rd.drainWith_complete : ∀ (reqs : List Nat) (r : Rd) (acc : List UInt8),
    r.contents.1.length < (reqs.filter (fun q => decide (1 ≤ q))).length → (r.drainWith reqs acc).2.1 = some r.contents.2
  | [], r, acc, h => by simp at h
  | q :: qs, r, acc, h => by
    have hc := Rd.read_contents r q
    have he := Rd.read_err r q
    unfold Rd.drainWith
    cases hr : r.read q with
    | mk c rest =>
      cases rest with
      | mk e r' =>
        rw [hr] at hc he
        simp only at hc he
        cases e with
        | some err => simp only; rw [(he err rfl).2]
        | none =>
          simp only
          have hlen : r.contents.1.length = c.length + r'.contents.1.length := by rw [hc.1, List.length_append]
          rw [← hc.2]
          apply Rd.drainWith_complete qs r' (acc ++ c)
          by_cases hq : 1 ≤ q
          · simp only [List.filter_cons, hq, decide_true, if_true, List.length_cons] at h
            by_cases hne : r.contents.1 = []
            · have := (Rd.read_exhausted r q hne).2
              rw [hr] at this
              cases this
            · have hp := Rd.read_progress r q hq hne
              rw [hr] at hp
              simp only at hp
              have : 1 ≤ c.length := by
                cases c with
                | nil => exact absurd rfl hp
                | cons _ _ => simp
              omega
          · simp only [List.filter_cons, hq, decide_false, Bool.false_eq_true, if_false] at h
            omega

/-- **C07 (every read segmentation of the consumer).** For every extractor program, reader, inflate behaviour and every list
of request sizes (zero-length requests included): what has been delivered is a prefix of the source's contents and the
remaining stream holds exactly the rest; a surfaced error means everything was delivered and is the source's own error. -/
theorem C07_any_segmentation {α : Type} (zl : Prog.Inflate) (p : Prog α) (r : Rd) (reqs : List Nat) :
    r.contents.1 = ((load zl p r).2.drainWith reqs []).1 ++ ((load zl p r).2.drainWith reqs []).2.2.contents.1 ∧
    ((load zl p r).2.drainWith reqs []).2.2.contents.2 = r.contents.2 ∧
    (∀ err, ((load zl p r).2.drainWith reqs []).2.1 = some err →
      ((load zl p r).2.drainWith reqs []).1 = r.contents.1 ∧ err = r.contents.2) := by
  have h := Rd.drainWith_spec reqs (load zl p r).2 []
  rw [C07_replay] at h
  simp only [List.nil_append] at h
  refine ⟨h.1, h.2.1, ?_⟩
  intro err he
  have := h.2.2 err he
  refine ⟨?_, this.2⟩
  have h1 := h.1
  rw [this.1, List.append_nil] at h1
  exact h1.symm

/-- **C07 (read to the end, any segmentation).** Once the consumer has issued more positive requests than the source holds
bytes, it has received all of them and the source's terminal error. -/
theorem C07_any_segmentation_complete {α : Type} (zl : Prog.Inflate) (p : Prog α) (r : Rd) (reqs : List Nat)
    (h : r.contents.1.length < (reqs.filter (fun q => decide (1 ≤ q))).length) :
    ((load zl p r).2.drainWith reqs []).1 = r.contents.1 ∧ ((load zl p r).2.drainWith reqs []).2.1 = some r.contents.2 := by
  have hc := Rd.drainWith_complete reqs (load zl p r).2 [] (by rw [C07_replay]; exact h)
  rw [C07_replay] at hc
  exact ⟨((C07_any_segmentation zl p r reqs).2.2 _ hc).1, hc⟩

/-- non-vacuity: zero-length requests before, between and after ordinary ones -/
example :
    let r := Rd.src { rest := [1, 2, 3, 4, 5], sched := [2] }
    ((load (fun _ => .error "") (Png.extract 10).run r).2.drainWith [0, 3, 0, 0, 1, 7, 0, 2] []).1 = [1, 2, 3, 4, 5] := by
  decide

end Prism
