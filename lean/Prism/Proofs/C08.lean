import Prism.Proofs.Lemmas.Stack
import Prism.Model.Icc

/-!
# C08 — extraction results do not depend on how the source reader segments its data
-/

namespace Prism

/-- **C08.** Two readers with the same contents — whatever their delivery schedules, whether
the final bytes come together with end-of-file, however many `MultiReader`/buffer layers are
in front — give every extractor the same result. -/
theorem C08_schedule_independent {α : Type} (zl : Prog.Inflate) (p : Prog α) (r1 r2 : Rd)
    (h : r1.contents = r2.contents) : (load zl p r1).1 = (load zl p r2).1 := by
  rw [load_result, load_result, h]

/-- in particular for sources over the same data with arbitrary schedules -/
theorem C08_sources {α : Type} (zl : Prog.Inflate) (p : Prog α) (data : List UInt8) (e : IOErr)
    (sched1 sched2 : List Nat) (ewd1 ewd2 : Bool) (calls1 calls2 : Nat) :
    (load zl p (.src { rest := data, sched := sched1, endErr := e, eofWithData := ewd1, calls := calls1 })).1 =
    (load zl p (.src { rest := data, sched := sched2, endErr := e, eofWithData := ewd2, calls := calls2 })).1 :=
  C08_schedule_independent zl p _ _ rfl

/-- the result is the extractor's functional meaning on the bytes: a short read is never
mistaken for end of data, because no read size appears on the right-hand side -/
theorem C08_functional {α : Type} (zl : Prog.Inflate) (p : Prog α) (r : Rd) :
    (load zl p r).1 = (Prog.runPure zl p r.contents.1 r.contents.2 {}).1 := load_result zl p r

theorem C08_png (zl : Prog.Inflate) (fuel : Nat) (r1 r2 : Rd) (h : r1.contents = r2.contents) :
    (load zl (Png.extract fuel).run r1).1 = (load zl (Png.extract fuel).run r2).1 := C08_schedule_independent _ _ _ _ h
theorem C08_jpeg (zl : Prog.Inflate) (fuel : Nat) (r1 r2 : Rd) (h : r1.contents = r2.contents) :
    (load zl (Jpeg.extract fuel).run r1).1 = (load zl (Jpeg.extract fuel).run r2).1 := C08_schedule_independent _ _ _ _ h
theorem C08_webp (zl : Prog.Inflate) (r1 r2 : Rd) (h : r1.contents = r2.contents) :
    (load zl Webp.extract.run r1).1 = (load zl Webp.extract.run r2).1 := C08_schedule_independent _ _ _ _ h
/-- the ICC profile reader behind any buffered reader -/
theorem C08_icc (zl : Prog.Inflate) (r1 r2 : Rd) (h : r1.contents = r2.contents) :
    (load zl Icc.readProfile.run r1).1 = (load zl Icc.readProfile.run r2).1 := C08_schedule_independent _ _ _ _ h
theorem C08_auto (zl : Prog.Inflate) (fuel : Nat) (r1 r2 : Rd) (h : r1.contents = r2.contents) :
    (Auto.load zl fuel r1).1 = (Auto.load zl fuel r2).1 := by
  unfold Auto.load
  rw [(Auto.loadList_spec zl _ r1).1, (Auto.loadList_spec zl _ r2).1, h]

/-- non-vacuity: one byte per read, on a tiny WebP header -/
example :
    (load (fun _ => .error "") Webp.extract.run (.src { rest :=
        [0x52,0x49,0x46,0x46, 4,0,0,0, 0x57,0x45,0x42,0x50, 0x56,0x50,0x38,0x4c, 5,0,0,0, 0x2f, 0xff,0x3f,0,0], sched := [1] })).1 =
      .ok { format := "WebP", width := 16384, height := 1, depth := 8 } := by
  rfl

end Prism
