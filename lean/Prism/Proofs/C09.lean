import Prism.Model.Png
import Prism.Model.Jpeg
import Prism.Model.Webp
import Prism.Model.Icc


/-!
# C09 — hostile input cannot crash the caller, hang, or balloon memory (partial)

* Totality: every extractor and the ICC reader are total Lean functions (structural recursion
  on the program / on explicit fuel, accepted by Lean's termination checker), with result type
  `Except PErr _`: on *every* byte string a run ends in a value or an error value — a Go
  run-time panic is one of the error values (`PErr.panic`) exactly where the Go code recovers.
  `Profile.Description` (no `recover` in Go) is modelled by `Icc.description`, a total function
  into `Except`: it has no panic constructor at all, because after the repair no slice
  expression in it can go out of range (`C09_mluc_wrap_is_error`).
* `C09_consumed_le`: no run consumes more than the input holds — work is bounded by input size,
  not by numbers written in it.
* `C09_alloc_lazy`: an incremental read of a declared length `n` is charged for the bytes that
  actually arrive (`≤ 2·|input| + 1024`), whatever `n` says.

Partial: the model counts bytes *requested* by the modelled code; what Go's allocator, GC and
compress/flate do internally is bounded by measurement only (harness: `TotalAlloc` delta and
wall time per case against `64·|input| + 1 MiB + 8·(model's inflate accounting)`).  A global
`steps ≤ c·|input|` theorem for the four extractors is not proved.
-/

namespace Prism
open Prog

/-- **C09 (work is bounded by the input).** Whatever lengths, counts and offsets the input
declares, a run consumes at most the bytes that are there. -/
theorem C09_consumed_le {α : Type} (zl : Inflate) (p : Prog α) :
    ∀ (inp : List UInt8) (e : IOErr) (c : Cost), (runPure zl p inp e c).2.consumed ≤ c.consumed + inp.length := by
  induction p with
  | ret a => intro inp e c; simp [runPure]
  | readByte k ih =>
    intro inp e c
    cases inp with
    | nil => simp only [runPure]; have := ih (.error e) [] e { c with steps := c.steps + 1 }; simpa using this
    | cons b rest =>
      simp only [runPure]
      have := ih (.ok b) rest e { c with consumed := c.consumed + 1, steps := c.steps + 1 }
      simp only [List.length_cons] at this ⊢
      omega
  | readFull n eager k ih =>
    intro inp e c
    simp only [runPure]
    have := ih (readFullResult inp e n).1 (readFullResult inp e n).2 e
      { c with consumed := c.consumed + (if n ≤ inp.length then n else inp.length), steps := c.steps + 1, alloc := c.alloc + readAlloc eager n (if n ≤ inp.length then n else inp.length), efail := c.efail + (if eager && !(decide (n ≤ inp.length)) then n else 0) }
    have hlen : (readFullResult inp e n).2.length + (if n ≤ inp.length then n else inp.length) ≤ inp.length := by
      unfold readFullResult
      by_cases h : n ≤ inp.length
      · simp only [h, if_true, List.length_drop]; omega
      · simp only [h, if_false]; split <;> simp
    simp only at this
    omega
  | inflate z k ih =>
    intro inp e c
    simp only [runPure]
    exact ih (zl z) inp e _

/-- **C09 (a declared length does not drive allocation).** An incremental read (`binary.ReadBytes`)
of `n` declared bytes is charged `2·got + 1024` where `got ≤ |input|` is what arrived —
independent of `n`. -/
theorem C09_alloc_lazy (n got : Nat) : readAlloc false n got = 2 * got + 1024 := rfl

/-- an eager read (`make([]byte, n)` up front) is charged its full declared size: the extractors use
eager reads only for fixed sizes (8, 4, 7, 16 bytes) and for JPEG segments (`n ≤ 65 533`) -/
theorem C09_alloc_eager (n got : Nat) : readAlloc true n got = n := rfl

/-- JPEG segment payload length comes from a 16-bit field: at most 65 533 bytes -/
theorem C09_jpeg_segment_bounded (a b : UInt8) : ((a.toNat * 256 + b.toNat : Nat) : Int) - 2 ≤ 65533 := by
  have ha := a.toNat_lt; have hb := b.toNat_lt
  omega

set_option maxRecDepth 10000 in
/-- **C09 (regression facts, kernel-evaluated; tests, labelled as tests).** The two hostile
profiles that crashed or ballooned the code before the repair: a `mluc` record whose
`offset + length` wraps 2³² is an error (not an out-of-range slice), and a zero-tag profile is
read without a 4 GiB allocation. -/
theorem C09_mluc_wrap_is_error :
    Icc.mluc ([0x6d,0x6c,0x75,0x63, 0,0,0,0, 0,0,0,1, 0,0,0,12, 0x65,0x6e,0x55,0x53, 0xff,0xff,0xff,0xf0, 0,0,0,0x20] ++ List.replicate 16 0) =
      .error "record exceeds tag data length" := by decide +kernel

theorem C09_zero_tag_profile_alloc :
    (runPure (fun _ => .error "") Icc.readTagTable.run [0, 0, 0, 0] .eof {}).2.alloc = 1024 := by decide +kernel

end Prism
