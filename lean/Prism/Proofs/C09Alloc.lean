import Prism.Proofs.C09Cost

/-!
# C09 — the JPEG, WebP and ICC extractors never call the external inflate, so their allocation bounds are unconditional

`NZ p`: no run of `p` changes `zout` (the bytes produced by the external inflate) — whatever the inflate oracle would answer.
It composes through `>>=`, `attempt`, `mapErr`; it holds for every reader primitive; by induction on the segment loop and the
tag-index loop it holds for the three extractors.  Together with `Prog.alloc_le` and the step bounds this gives their
allocation bounds as fixed linear functions of the input length, with no external term.  (The PNG extractor does inflate:
`C09_png_alloc` keeps the term.)
-/

namespace Prism
open Prog

def NZ {α : Type} (p : Parser α) : Prop :=
  ∀ (zl : Inflate) (inp : List UInt8) (e : IOErr) (c : Cost), (pcost zl p inp e c).zout = c.zout

theorem NZ_bind {α β : Type} {x : Parser α} {f : α → Parser β} (hx : NZ x) (hf : ∀ a, NZ (f a)) : NZ (x >>= f) := by
  intro zl inp e c
  rw [Parser.pcost_bind]
  cases h : run3 zl x.run inp e with
  | mk r rest =>
    cases r with
    | ok a => simp only; rw [hf a zl rest e _]; exact hx zl inp e c
    | error err => exact hx zl inp e c

theorem NZ_pure {α : Type} (a : α) : NZ (pure a : Parser α) := fun _ _ _ _ => rfl
theorem NZ_fail {α : Type} (err : PErr) : NZ (Parser.fail err : Parser α) := fun _ _ _ _ => rfl
theorem NZ_of_Free {α : Type} {p : Parser α} (h : Free p) : NZ p := fun zl inp e c => by rw [h zl inp e c]

theorem NZ_byte : NZ Parser.byte := by
  intro zl inp e c
  cases inp <;> rfl

theorem NZ_full (n : Nat) : NZ (Parser.full n) := by
  intro zl inp e c
  unfold pcost Parser.full ExceptT.mk ExceptT.run
  simp only [runPure]
  cases (readFullResult inp e n).1 <;> rfl

theorem NZ_bytesN (n : Nat) : NZ (Parser.bytesN n) := by
  intro zl inp e c
  unfold pcost Parser.bytesN ExceptT.mk ExceptT.run
  simp only [runPure]
  cases (readFullResult inp e n).1 <;> rfl

theorem NZ_skip : ∀ n, NZ (Parser.skip n)
  | 0 => NZ_pure ()
  | n + 1 => by
    have e : (Parser.skip (n + 1)) = (Parser.byte >>= fun _ => Parser.skip n) := rfl
    rw [e]; exact NZ_bind NZ_byte fun _ => NZ_skip n

theorem NZ_mapErr {α : Type} {p : Parser α} (f : PErr → PErr) (h : NZ p) : NZ (Parser.mapErr p f) := by
  intro zl inp e c
  have hc : pcost zl (Parser.mapErr p f) inp e c = pcost zl p inp e c := by
    unfold pcost Parser.mapErr ExceptT.mk ExceptT.run
    rw [Prog.cost_bind]
    cases (run3 zl p inp e).1 <;> rfl
  rw [hc]; exact h zl inp e c

theorem NZ_attempt {α β : Type} {x : Parser α} {K : Except PErr α → Parser β} (hx : NZ x) (hK : ∀ r, NZ (K r)) :
    NZ (Parser.attempt x >>= K) := by
  intro zl inp e c
  rw [Parser.pcost_bind]
  have hcost : pcost zl (Parser.attempt x) inp e c = pcost zl x inp e c := by
    unfold pcost Parser.attempt ExceptT.mk ExceptT.run
    rw [Prog.cost_bind]; rfl
  have hrun : run3 zl (Parser.attempt x).run inp e = (.ok (run3 zl x.run inp e).1, (run3 zl x.run inp e).2) := by
    unfold Parser.attempt ExceptT.mk ExceptT.run
    rw [Prog.run3_bind]; rfl
  rw [hrun, hcost]
  simp only
  rw [hK _ zl _ e _]
  exact hx zl inp e c

theorem NZ_u16be : NZ Parser.u16be := by
  unfold Parser.u16be; exact NZ_bind NZ_byte fun _ => NZ_bind NZ_byte fun _ => NZ_pure _
theorem NZ_u32be : NZ Parser.u32be := by
  unfold Parser.u32be; exact NZ_bind NZ_byte fun _ => NZ_bind NZ_byte fun _ => NZ_bind NZ_byte fun _ => NZ_bind NZ_byte fun _ => NZ_pure _
theorem NZ_u32le : NZ Parser.u32le := by
  unfold Parser.u32le; exact NZ_bind NZ_byte fun _ => NZ_bind NZ_byte fun _ => NZ_bind NZ_byte fun _ => NZ_bind NZ_byte fun _ => NZ_pure _
theorem NZ_u24le : NZ Parser.u24le := by
  unfold Parser.u24le; exact NZ_bind NZ_byte fun _ => NZ_bind NZ_byte fun _ => NZ_bind NZ_byte fun _ => NZ_pure _
theorem NZ_u64be : NZ Parser.u64be := by
  unfold Parser.u64be; exact NZ_bind NZ_u32be fun _ => NZ_bind NZ_u32be fun _ => NZ_pure _

/-! ### WebP -/

theorem NZ_webp_chunkHeader : NZ Webp.chunkHeader := by
  unfold Webp.chunkHeader
  exact NZ_bind (NZ_mapErr _ (NZ_full 4)) fun _ => NZ_bind NZ_u32le fun _ => NZ_pure _

theorem NZ_webp_simple (md : Meta) : NZ (Webp.simple md) := by
  unfold Webp.simple
  refine NZ_bind (NZ_skip 3) fun _ => NZ_bind (NZ_full 7) fun b => ?_
  split
  · split
    · exact NZ_fail _
    · exact NZ_pure _
  · exact NZ_fail _

theorem NZ_webp_lossless (md : Meta) : NZ (Webp.lossless md) := by
  unfold Webp.lossless
  refine NZ_bind NZ_byte fun sig => ?_
  split
  · exact NZ_fail _
  · exact NZ_bind NZ_byte fun _ => NZ_bind NZ_byte fun _ => NZ_bind NZ_byte fun _ => NZ_bind NZ_byte fun _ => NZ_pure _

theorem NZ_webp_readICCP (chunkLen : Nat) : NZ (Webp.readICCP chunkLen) := by
  unfold Webp.readICCP
  refine NZ_bind (NZ_skip _) fun _ => NZ_bind NZ_webp_chunkHeader fun h => ?_
  obtain ⟨ty, len⟩ := h
  simp only
  split
  · exact NZ_fail _
  · exact NZ_bytesN len

theorem NZ_webp_extended (md : Meta) (chunkLen : Nat) : NZ (Webp.extended md chunkLen) := by
  unfold Webp.extended
  split
  · exact NZ_fail _
  · refine NZ_bind NZ_byte fun flags => NZ_bind (NZ_skip 3) fun _ => NZ_bind NZ_u24le fun w => NZ_bind NZ_u24le fun h => ?_
    simp only
    split
    · refine NZ_attempt (NZ_webp_readICCP chunkLen) (fun r => ?_)
      cases r <;> exact NZ_pure _
    · exact NZ_pure _

theorem NZ_webp_extract : NZ Webp.extract := by
  unfold Webp.extract
  refine NZ_bind NZ_webp_chunkHeader fun h => ?_
  obtain ⟨ty, l0⟩ := h
  simp only
  split
  · exact NZ_fail _
  · refine NZ_bind (NZ_full 4) fun cc => ?_
    split
    · exact NZ_fail _
    · refine NZ_bind NZ_webp_chunkHeader fun h2 => ?_
      obtain ⟨fty, len⟩ := h2
      simp only
      split
      · exact NZ_webp_simple _
      · split
        · exact NZ_webp_lossless _
        · split
          · exact NZ_webp_extended _ _
          · exact NZ_fail _

/-- **C09 (WebP: memory is bounded by the input)** — a fixed linear function of the number of input bytes, nothing else. -/
theorem C09_webp_alloc_linear (zl : Inflate) (inp : List UInt8) (e : IOErr) :
    (runPure zl Webp.extract.run inp e {}).2.alloc ≤ 1026 * inp.length + 199677 := by
  have h := C09_webp_alloc zl inp e
  have hz := NZ_webp_extract zl inp e {}
  unfold pcost at hz
  simp only at hz
  rw [hz] at h
  exact h

/-! ### JPEG -/

theorem NZ_makeMarker (t : Nat) : NZ (Jpeg.makeMarker t) := by
  unfold Jpeg.makeMarker
  split
  · exact NZ_pure _
  · split
    · exact NZ_bind NZ_u16be fun _ => NZ_pure _
    · exact NZ_fail _

theorem NZ_readSegment : NZ Jpeg.readSegment := by
  unfold Jpeg.readSegment
  refine NZ_bind NZ_byte fun b => ?_
  split
  · exact NZ_fail _
  · refine NZ_bind NZ_byte fun t => NZ_bind (NZ_makeMarker _) fun h => ?_
    obtain ⟨ty, dl⟩ := h
    simp only
    split
    · exact NZ_bind (NZ_full _) fun _ => NZ_pure _
    · exact NZ_pure _

theorem NZ_jpeg_loop : ∀ (fuel : Nat) (st : Jpeg.St), NZ (Jpeg.loop fuel st)
  | 0, st => by
    have e : Jpeg.loop 0 st = Parser.fail (.bad "model: out of fuel") := rfl
    rw [e]; exact NZ_fail _
  | fuel + 1, st => by
    have ih := NZ_jpeg_loop fuel
    unfold Jpeg.loop
    refine NZ_attempt NZ_readSegment (fun r => ?_)
    cases r with
    | ok h =>
      obtain ⟨ty, d⟩ := h
      simp only
      split
      · split
        · split
          · exact NZ_pure _
          · exact ih _
        · exact NZ_pure _
      · split
        · exact NZ_pure _
        · split
          · split
            · exact ih _
            · split
              · exact ih _
              · split
                · exact ih _
                · split
                  · exact NZ_pure _
                  · exact ih _
          · exact ih _
    | error err =>
      cases err with
      | io e' => cases e' <;> exact NZ_fail _
      | bad m => exact NZ_fail _
      | panic m => exact NZ_fail _

theorem NZ_jpeg_extract (fuel : Nat) : NZ (Jpeg.extract fuel) := by
  unfold Jpeg.extract
  refine NZ_bind NZ_readSegment (fun h => ?_)
  obtain ⟨ty, d⟩ := h
  simp only
  split
  · exact NZ_fail _
  · refine NZ_bind (NZ_jpeg_loop fuel {}) (fun out => ?_)
    cases out with
    | panicked st msg => exact NZ_fail _
    | done st =>
      simp only
      split
      · exact NZ_pure _
      · exact NZ_fail _

/-- **C09 (JPEG: memory is bounded by the input)** — a fixed linear function of the number of input bytes, nothing else. -/
theorem C09_jpeg_alloc_linear (zl : Inflate) (fuel : Nat) (inp : List UInt8) (e : IOErr) :
    (runPure zl (Jpeg.extract fuel).run inp e {}).2.alloc ≤ 2050 * inp.length + 66559 := by
  have h := C09_jpeg_alloc zl fuel inp e
  have hz := NZ_jpeg_extract fuel zl inp e {}
  unfold pcost at hz
  simp only at hz
  rw [hz] at h
  exact h

/-! ### ICC -/

theorem NZ_readHeader : NZ Icc.readHeader := by
  unfold Icc.readHeader
  refine NZ_bind NZ_u32be fun _ => NZ_bind NZ_u32be fun _ => NZ_bind NZ_byte fun _ => NZ_bind NZ_byte fun _ => NZ_bind NZ_byte fun _ =>
    NZ_bind NZ_byte fun _ => NZ_bind NZ_u32be fun _ => NZ_bind NZ_u32be fun _ => NZ_bind NZ_u32be fun _ =>
    NZ_bind NZ_u16be fun _ => NZ_bind NZ_u16be fun _ => NZ_bind NZ_u16be fun _ => NZ_bind NZ_u16be fun _ => NZ_bind NZ_u16be fun _ =>
    NZ_bind NZ_u16be fun _ => NZ_bind NZ_u32be fun sig => ?_
  split
  · exact NZ_fail _
  · exact NZ_bind NZ_u32be fun _ => NZ_bind NZ_u32be fun _ => NZ_bind NZ_u32be fun _ => NZ_bind NZ_u32be fun _ => NZ_bind NZ_u64be fun _ =>
      NZ_bind NZ_u32be fun _ => NZ_bind NZ_u32be fun _ => NZ_bind NZ_u32be fun _ => NZ_bind NZ_u32be fun _ => NZ_bind NZ_u32be fun _ =>
      NZ_bind (NZ_mapErr _ (NZ_full 16)) fun _ =>
      NZ_bind NZ_u32be fun _ => NZ_bind NZ_u32be fun _ => NZ_bind NZ_u32be fun _ => NZ_bind NZ_u32be fun _ => NZ_bind NZ_u32be fun _ =>
      NZ_bind NZ_u32be fun _ => NZ_bind NZ_u32be fun _ => NZ_pure _

theorem NZ_readIndex : ∀ n acc e, NZ (Icc.readIndex n acc e)
  | 0, acc, e => NZ_pure _
  | n + 1, acc, e => by
    unfold Icc.readIndex
    exact NZ_bind NZ_u32be fun _ => NZ_bind NZ_u32be fun _ => NZ_bind NZ_u32be fun _ => NZ_readIndex n _ _

theorem NZ_readTagTable : NZ Icc.readTagTable := by
  unfold Icc.readTagTable
  refine NZ_bind NZ_u32be fun count => NZ_bind (NZ_readIndex count [] 0) fun h => ?_
  obtain ⟨idx, ed⟩ := h
  simp only
  refine NZ_bind (NZ_mapErr _ (NZ_bytesN _)) fun data => ?_
  split
  · exact NZ_pure _
  · exact NZ_fail _

theorem NZ_readProfile : NZ Icc.readProfile := by
  unfold Icc.readProfile
  exact NZ_bind NZ_readHeader fun _ => NZ_bind NZ_readTagTable fun _ => NZ_pure _

/-- **C09 (ICC profile reader: memory is bounded by the input)** — a fixed linear function of the number of input bytes. -/
theorem C09_icc_alloc_linear (zl : Inflate) (inp : List UInt8) (e : IOErr) :
    (runPure zl Icc.readProfile.run inp e {}).2.alloc ≤ 1026 * inp.length + 133118 := by
  have h := C09_icc_alloc zl inp e
  have hz := NZ_readProfile zl inp e {}
  unfold pcost at hz
  simp only at hz
  rw [hz] at h
  exact h

end Prism
