import Prism.Proofs.C09Alloc

/-!
# C09 — PNG: what the external inflate may produce is paid for by the bytes the extractor consumed

`ZB zl R R0 p s`, for an inflate oracle `zl` whose output is at most `R·|payload| + R0` bytes (DEFLATE's expansion bound — an
assumption about compress/zlib, stated as the hypothesis `ZlBound`): along every run of `p`,
`zout' + R·consumed + R0·steps ≤ zout + R·consumed' + R0·steps' + R·s` — the slack `s` stands for bytes consumed earlier in the
same iteration (the iCCP payload is read first, inflated afterwards; the value-dependent slack is discharged with the
postcondition `|z| = n` of the read).  By induction over the chunk loop: the PNG extractor inflates only what it read.
With `C09_png_alloc`: under `ZlBound zl R R0`, allocation is at most `(2050 + 6·R)·|input|`-ish — a fixed linear function.
-/

namespace Prism
open Prog

/-- the assumption about compress/zlib: an inflated payload is at most `R` times its compressed size plus `R0` -/
def ZlBound (zl : Inflate) (R R0 : Nat) : Prop := ∀ z q, zl z = .ok q → q.length ≤ R * z.length + R0

def ZB (zl : Inflate) (R R0 : Nat) {α : Type} (p : Parser α) (s : Nat) : Prop :=
  ∀ (inp : List UInt8) (e : IOErr) (c : Cost),
    (pcost zl p inp e c).zout + R * c.consumed + R0 * c.steps ≤
      c.zout + R * (pcost zl p inp e c).consumed + R0 * (pcost zl p inp e c).steps + R * s

variable {zl : Inflate} {R R0 : Nat}

theorem ZB_of_NZ {α : Type} {p : Parser α} {z k : Nat} (hz : NZ p) (hT : T p z k) : ZB zl R R0 p 0 := by
  intro inp e c
  obtain ⟨_, a2, a3, _, _⟩ := hT zl inp e c
  rw [hz zl inp e c]
  have h1 := Nat.mul_le_mul_left R a2
  have h2 := Nat.mul_le_mul_left R0 a3
  omega

theorem ZB_of_NZ_L {α : Type} {p : Parser α} {s : Nat} (hz : NZ p) (hL : L p s) : ZB zl R R0 p 0 := by
  intro inp e c
  obtain ⟨_, a2, a3, _⟩ := hL zl inp e c
  rw [hz zl inp e c]
  have h1 := Nat.mul_le_mul_left R a2
  have h2 := Nat.mul_le_mul_left R0 a3
  omega

theorem ZB_mono {α : Type} {p : Parser α} {s s' : Nat} (h : ZB zl R R0 p s) (hs : s ≤ s') : ZB zl R R0 p s' := by
  intro inp e c
  have := h inp e c
  have h1 := Nat.mul_le_mul_left R hs
  omega

/-- sequencing after an inflate-free prefix; the slack the continuation needs may depend on the value the prefix produced
(known through a postcondition) and is paid by the `k` bytes the prefix consumed -/
theorem ZB_bind {α β : Type} {x : Parser α} {f : α → Parser β} {Q : α → Prop} {k s' : Nat} (s : α → Nat)
    (hx : T x 0 k) (hz : NZ x) (hQ : Post x Q) (hf : ∀ a, Q a → ZB zl R R0 (f a) (s a)) (hs : ∀ a, Q a → s a ≤ k + s') :
    ZB zl R R0 (x >>= f) s' := by
  intro inp e c
  have h1 := hx zl inp e c
  have hzx := hz zl inp e c
  rw [Parser.pcost_bind]
  cases h : run3 zl x.run inp e with
  | mk r rest =>
    rw [h] at h1
    cases r with
    | ok a =>
      simp only
      have hq : Q a := hQ zl inp e a (by rw [h])
      have b := hf a hq rest e (pcost zl x inp e c)
      simp only [isErr] at h1
      obtain ⟨_, a2, a3, a4, _⟩ := h1
      have a4' := a4 trivial
      have hsa := hs a hq
      have m1 : R * (s a + c.consumed) ≤ R * (s' + (pcost zl x inp e c).consumed) := Nat.mul_le_mul_left R (by omega)
      have m2 := Nat.mul_le_mul_left R0 a3
      rw [Nat.mul_add, Nat.mul_add] at m1
      omega
    | error err =>
      simp only
      obtain ⟨_, a2, a3, _, _⟩ := h1
      have m1 := Nat.mul_le_mul_left R a2
      have m2 := Nat.mul_le_mul_left R0 a3
      omega

/-- the plain case: no postcondition needed -/
theorem ZB_bind0 {α β : Type} {x : Parser α} {f : α → Parser β} {k s s' : Nat}
    (hx : T x 0 k) (hz : NZ x) (hf : ∀ a, ZB zl R R0 (f a) s) (hs : s ≤ k + s') : ZB zl R R0 (x >>= f) s' :=
  ZB_bind (Q := fun _ => True) (fun _ => s) hx hz (fun _ _ _ _ _ => trivial) (fun a _ => hf a) (fun _ _ => hs)

/-- the external inflate of `z`: its output is paid for by `|z|` bytes of slack and the operation itself -/
theorem ZB_inflate {β : Type} (hzl : ZlBound zl R R0) (z : List UInt8) {g : Except String (List UInt8) → Parser β}
    (hg : ∀ r, ZB zl R R0 (g r) 0) : ZB zl R R0 (Parser.inflate z >>= g) z.length := by
  intro inp e c
  rw [Parser.pcost_bind]
  have hr : run3 zl (Parser.inflate z).run inp e = (.ok (zl z), inp) := rfl
  rw [hr]
  simp only
  have b := hg (zl z) inp e (pcost zl (Parser.inflate z) inp e c)
  cases hq : zl z with
  | ok q =>
    have hc : (pcost zl (Parser.inflate z) inp e c).steps = c.steps + 1 ∧ (pcost zl (Parser.inflate z) inp e c).consumed = c.consumed ∧
        (pcost zl (Parser.inflate z) inp e c).zout = c.zout + q.length := by
      unfold pcost Parser.inflate ExceptT.mk ExceptT.run
      simp [runPure, hq]
    obtain ⟨c1, c2, c3⟩ := hc
    rw [hq] at b
    rw [c1, c2, c3] at b
    have := hzl z q hq
    rw [Nat.mul_add] at b
    omega
  | error m =>
    have hc : (pcost zl (Parser.inflate z) inp e c).steps = c.steps + 1 ∧ (pcost zl (Parser.inflate z) inp e c).consumed = c.consumed ∧
        (pcost zl (Parser.inflate z) inp e c).zout = c.zout + 0 := by
      unfold pcost Parser.inflate ExceptT.mk ExceptT.run
      simp [runPure, hq]
    obtain ⟨c1, c2, c3⟩ := hc
    rw [hq] at b
    rw [c1, c2, c3] at b
    rw [Nat.mul_add] at b
    omega

theorem ZB_attempt {α β : Type} {x : Parser α} {K : Except PErr α → Parser β} {k s : Nat}
    (hx : T x 0 k) (hz : NZ x) (hs : s ≤ k) (hok : ∀ a, ZB zl R R0 (K (.ok a)) s) (herr : ∀ err, Free (K (.error err))) :
    ZB zl R R0 (Parser.attempt x >>= K) 0 := by
  intro inp e c
  have h1 := hx zl inp e c
  have hzx := hz zl inp e c
  rw [Parser.pcost_bind]
  have hcost : pcost zl (Parser.attempt x) inp e c = pcost zl x inp e c := by
    unfold pcost Parser.attempt ExceptT.mk ExceptT.run
    rw [Prog.cost_bind]; rfl
  have hrun : run3 zl (Parser.attempt x).run inp e = (.ok (run3 zl x.run inp e).1, (run3 zl x.run inp e).2) := by
    unfold Parser.attempt ExceptT.mk ExceptT.run
    rw [Prog.run3_bind]; rfl
  rw [hrun, hcost]
  simp only
  cases h : (run3 zl x.run inp e).1 with
  | ok a =>
    rw [h] at h1
    simp only [isErr] at h1
    obtain ⟨_, a2, a3, a4, _⟩ := h1
    have a4' := a4 trivial
    have b := hok a (run3 zl x.run inp e).2 e (pcost zl x inp e c)
    have m1 : R * (s + c.consumed) ≤ R * (0 + (pcost zl x inp e c).consumed) := Nat.mul_le_mul_left R (by omega)
    have m2 := Nat.mul_le_mul_left R0 a3
    rw [Nat.mul_add, Nat.mul_add] at m1
    omega
  | error err =>
    rw [h] at h1
    obtain ⟨_, a2, a3, _, _⟩ := h1
    rw [herr err zl (run3 zl x.run inp e).2 e (pcost zl x inp e c)]
    have m1 := Nat.mul_le_mul_left R a2
    have m2 := Nat.mul_le_mul_left R0 a3
    omega

theorem ZB_then_free {α β : Type} {x : Parser α} {f : α → Parser β} {s : Nat} (hx : ZB zl R R0 x s) (hf : ∀ a, Free (f a)) :
    ZB zl R R0 (x >>= f) s := by
  intro inp e c
  rw [Parser.pcost_bind]
  cases h : run3 zl x.run inp e with
  | mk r rest =>
    cases r with
    | ok a => simp only; rw [hf a zl rest e _]; exact hx inp e c
    | error err => exact hx inp e c

/-! ### postconditions of the reads -/

theorem Post_mapErr {α : Type} {p : Parser α} {Q : α → Prop} (f : PErr → PErr) (h : Post p Q) : Post (Parser.mapErr p f) Q := by
  intro zl inp e a ha
  apply h zl inp e a
  have : (run3 zl (Parser.mapErr p f).run inp e).1 =
      match (run3 zl p.run inp e).1 with | .ok a => .ok a | .error err => .error (f err) := by
    unfold Parser.mapErr ExceptT.mk ExceptT.run
    rw [Prog.run3_bind]
    cases hh : (run3 zl p inp e).1 <;> simp [run3, hh]
  rw [this] at ha
  cases hh : (run3 zl p.run inp e).1 with
  | ok b => rw [hh] at ha; simpa using ha
  | error err => rw [hh] at ha; cases ha

theorem Post_bytesN (n : Nat) : Post (Parser.bytesN n) (fun z => z.length = n) := by
  intro zl inp e a ha
  unfold Parser.bytesN ExceptT.mk ExceptT.run at ha
  simp only [run3] at ha
  by_cases h : n ≤ inp.length
  · simp only [readFullResult, h, if_true, run3] at ha
    cases ha
    simp [List.length_take, h]
  · obtain ⟨err, herr⟩ := rfr_err inp e n h
    rw [herr] at ha
    simp [run3] at ha

/-! ### the PNG extractor -/

theorem NZ_png_chunkHeader : NZ Png.chunkHeader := by
  unfold Png.chunkHeader
  exact NZ_bind NZ_u32be fun _ => NZ_bind (NZ_mapErr _ (NZ_full 4)) fun _ => NZ_pure _

theorem NZ_profileName : ∀ n acc, NZ (Png.profileName n acc)
  | 0, acc => NZ_pure acc
  | n + 1, acc => by
    have e : Png.profileName (n + 1) acc = (Parser.byte >>= fun b => if b == 0 then pure acc else Png.profileName n (acc + 1)) := rfl
    rw [e]
    refine NZ_bind NZ_byte fun b => ?_
    by_cases hb : (b == 0) = true
    · simp only [hb, if_true]; exact NZ_pure acc
    · simp only [hb, Bool.false_eq_true, if_false]; exact NZ_profileName n (acc + 1)

theorem ZB_leaf {α : Type} {p : Parser α} {z k : Nat} (s : Nat) (hz : NZ p) (hT : T p z k) : ZB zl R R0 p s :=
  ZB_mono (ZB_of_NZ hz hT) (by omega)

/-- **the chunk loop inflates only what it read** -/
theorem ZB_png_loop (hzl : ZlBound zl R R0) : ∀ (fuel : Nat) (st : Png.St), ZB zl R R0 (Png.loop fuel st) 0
  | 0, st => by
    have e : Png.loop 0 st = Parser.fail (.bad "model: out of fuel") := rfl
    rw [e]; exact ZB_of_NZ (NZ_fail _) (T_fail _)
  | fuel + 1, st => by
    have ih := ZB_png_loop hzl fuel
    unfold Png.loop
    refine ZB_attempt (k := 8) (s := 0) T_chunkHeader NZ_png_chunkHeader (by omega) ?_ ?_
    · rintro ⟨len, ty⟩
      simp only
      split
      · -- IHDR
        refine ZB_bind0 T_u32be NZ_u32be (fun w => ZB_bind0 T_u32be NZ_u32be (fun h => ZB_bind0 T_byte NZ_byte (fun d =>
          ZB_bind0 (T_skip _) (NZ_skip _) (fun _ => ZB_bind0 T_u32be NZ_u32be (fun _ => ?_) (Nat.le_add_left 0 _)) (Nat.le_add_left 0 _))
          (Nat.le_add_left 0 _)) (Nat.le_add_left 0 _)) (Nat.le_add_left 0 _)
        split
        · exact ZB_of_NZ (NZ_pure _) (T_pure _)
        · exact ih _
      · split
        · -- iCCP
          refine ZB_bind0 (s := 0) (T_profileName 80 0) (NZ_profileName 80 0) (fun nameLen => ?_) (Nat.le_add_left 0 _)
          split
          · exact ZB_of_NZ (NZ_fail _) (T_fail _)
          · refine ZB_bind0 (s := 0) T_byte NZ_byte (fun method => ?_) (Nat.le_add_left 0 _)
            split
            · exact ZB_of_NZ (NZ_fail _) (T_fail _)
            · split
              · exact ZB_of_NZ (NZ_fail _) (T_fail _)
              · rename_i hlt
                -- the payload: `len - offset` bytes are read, then (after the CRC) inflated
                refine ZB_bind (Q := fun z => z.length = len - (nameLen + 2)) (fun z => z.length)
                  (T_mapErr _ (T_bytesN _ (by omega))) (NZ_mapErr _ (NZ_bytesN _)) (Post_mapErr _ (Post_bytesN _)) (fun z hzlen => ?_)
                  (fun z hzlen => by omega)
                refine ZB_bind0 (s := z.length) T_u32be NZ_u32be (fun _ => ?_) (by omega)
                refine ZB_inflate hzl z (fun r => ?_)
                cases r with
                | ok p =>
                  simp only
                  split
                  · exact ZB_of_NZ (NZ_pure _) (T_pure _)
                  · exact ih _
                | error msg => exact ih _
        · split
          · exact ZB_of_NZ (NZ_pure _) (T_pure _)
          · exact ZB_bind0 (s := 0) (T_skip _) (NZ_skip _) (fun _ => ZB_bind0 (s := 0) T_u32be NZ_u32be (fun _ => ih _) (Nat.le_add_left 0 _)) (Nat.le_add_left 0 _)
    · intro err
      cases err with
      | io e' => cases e' <;> first | exact Free_pure _ | exact Free_fail _
      | bad m => exact Free_fail _
      | panic m => exact Free_fail _

theorem ZB_png_extract (hzl : ZlBound zl R R0) (fuel : Nat) : ZB zl R R0 (Png.extract fuel) 0 := by
  unfold Png.extract
  refine ZB_bind0 (k := 8) (s := 0) (T_mapErr _ (T_full 8 (by omega))) (NZ_mapErr _ (NZ_full 8)) (fun sig => ?_) (by omega)
  split
  · exact ZB_of_NZ (NZ_fail _) (T_fail _)
  · refine ZB_then_free (ZB_png_loop hzl fuel {}) (fun st => ?_)
    split
    · exact Free_fail _
    · exact Free_pure _

/-- **C09 (PNG inflates only what it read).** If the external inflate expands a payload by at most a factor `R` plus `R0`
(DEFLATE's bound), the bytes it produces over a whole run are at most `R·|input| + R0·(2·|input| + 1)`. -/
theorem C09_png_inflated (zl : Inflate) (R R0 : Nat) (hzl : ZlBound zl R R0) (fuel : Nat) (inp : List UInt8) (e : IOErr) :
    (runPure zl (Png.extract fuel).run inp e {}).2.zout ≤ R * inp.length + R0 * (2 * inp.length + 1) := by
  have h := ZB_png_extract hzl fuel inp e {}
  have h1 := C09_png_steps zl fuel inp e
  have h2 := C09_consumed_le zl (Png.extract fuel).run inp e {}
  unfold pcost at h
  simp only at h h1 h2
  have m1 := Nat.mul_le_mul_left R h2
  have m2 := Nat.mul_le_mul_left R0 h1
  simp only [Nat.zero_add] at m1
  omega

/-- **C09 (PNG: memory is bounded by the input)** — a fixed linear function of the number of input bytes, given DEFLATE's
expansion bound for the external inflate. -/
theorem C09_png_alloc_linear (zl : Inflate) (R R0 : Nat) (hzl : ZlBound zl R R0) (fuel : Nat) (inp : List UInt8) (e : IOErr) :
    (runPure zl (Png.extract fuel).run inp e {}).2.alloc ≤
      (2050 + 2 * R + 4 * R0) * inp.length + (66559 + 2 * R0) := by
  have h := C09_png_alloc zl fuel inp e
  have hz := C09_png_inflated zl R R0 hzl fuel inp e
  have e1 : (2050 + 2 * R + 4 * R0) * inp.length = 2050 * inp.length + 2 * (R * inp.length) + 4 * (R0 * inp.length) := by
    rw [Nat.add_mul, Nat.add_mul, Nat.mul_assoc, Nat.mul_assoc]
  have e2 : R0 * (2 * inp.length + 1) = 2 * (R0 * inp.length) + R0 := by
    rw [Nat.mul_add, Nat.mul_one, Nat.mul_left_comm]
  rw [e1]
  rw [e2] at hz
  omega

/-- the hypothesis is satisfiable, and the statement is not vacuous: an oracle that doubles its payload -/
example : ZlBound (fun z => .ok (z ++ z)) 2 0 := by
  intro z q h
  cases h
  simp [List.length_append]; omega

end Prism
