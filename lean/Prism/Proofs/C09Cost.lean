import Prism.Proofs.C09
import Prism.Proofs.Lemmas.Run
import Prism.Model.Png
import Prism.Model.Webp
import Prism.Model.Jpeg
import Prism.Model.Icc

/-!
# C09 — the number of reader operations is bounded by the input: a cost calculus for parsers, and the PNG extractor

`steps` counts the reader operations a run performs (`ReadByte`, `ReadFull`/`ReadBytes`, the external inflate).  The
judgment `T p z k` says of a parser `p`, for every input, source error, inflate oracle and starting cost:

* `steps' + consumed ≤ steps + consumed' + z + [p failed]` — every operation but at most `z` (the inflate calls) consumes
  at least one byte, except the one operation on which a failing run stops;
* a successful run consumes at least `k` bytes; costs never decrease.

It composes through `>>=` (`T.bind`), holds for the primitives (`byte`, `full`, `bytesN`, `skip n` for **every** `n` — a
declared length of 2³²−1 costs at most the bytes that are there plus one), and gives, by induction on the chunk loop,
`C09_png_steps`: the PNG extractor performs at most `2·consumed + 9 ≤ 2·|input| + 9` operations on **every** byte string.
-/

namespace Prism
open Prog

theorem Prog.cost_bind {α β : Type} (zl : Inflate) (p : Prog α) (f : α → Prog β) :
    ∀ (inp : List UInt8) (e : IOErr) (c : Cost),
      (runPure zl (p.bind f) inp e c).2 =
        (runPure zl (f (run3 zl p inp e).1) (run3 zl p inp e).2 e (runPure zl p inp e c).2).2 := by
  induction p with
  | ret a => intro inp e c; rfl
  | readByte k ih =>
    intro inp e c
    cases inp with
    | nil => simp only [Prog.bind, runPure, run3]; exact ih _ _ _ _
    | cons b rest => simp only [Prog.bind, runPure, run3]; exact ih _ _ _ _
  | readFull n eager k ih => intro inp e c; simp only [Prog.bind, runPure, run3]; exact ih _ _ _ _
  | inflate z k ih => intro inp e c; simp only [Prog.bind, runPure, run3]; exact ih _ _ _ _

/-- the cost of a parser run -/
def pcost {α : Type} (zl : Inflate) (p : Parser α) (inp : List UInt8) (e : IOErr) (c : Cost) : Cost :=
  (runPure zl p.run inp e c).2

def isErr {α : Type} (r : Except PErr α) : Nat := match r with | .ok _ => 0 | .error _ => 1

theorem Parser.pcost_bind {α β : Type} (zl : Inflate) (x : Parser α) (f : α → Parser β) (inp : List UInt8) (e : IOErr) (c : Cost) :
    pcost zl (x >>= f) inp e c =
      match run3 zl x.run inp e with
      | (.ok a, rest) => pcost zl (f a) rest e (pcost zl x inp e c)
      | (.error _, _) => pcost zl x inp e c := by
  unfold pcost
  show (runPure zl (ExceptT.bind x f).run inp e c).2 = _
  unfold ExceptT.bind ExceptT.run ExceptT.mk
  show (runPure zl (Prog.bind x (ExceptT.bindCont f)) inp e c).2 = _
  rw [Prog.cost_bind]
  cases h : run3 zl x inp e with
  | mk r rest =>
    cases r with
    | ok a => rfl
    | error err => rfl

/-- the largest buffer any of the modelled extractors allocates before the bytes for it have arrived (`io.ReadFull` into
`make([]byte, n)`): a JPEG segment, whose length is a 16-bit field -/
def maxEager : Nat := 65535

/-- the cost judgment -/
def T {α : Type} (p : Parser α) (z k : Nat) : Prop :=
  ∀ (zl : Inflate) (inp : List UInt8) (e : IOErr) (c : Cost),
    (pcost zl p inp e c).steps + c.consumed ≤ c.steps + (pcost zl p inp e c).consumed + z + isErr (run3 zl p.run inp e).1 ∧
    c.consumed ≤ (pcost zl p inp e c).consumed ∧ c.steps ≤ (pcost zl p inp e c).steps ∧
    (isErr (run3 zl p.run inp e).1 = 0 → c.consumed + k ≤ (pcost zl p inp e c).consumed) ∧
    (pcost zl p inp e c).efail ≤ c.efail + maxEager * (z + isErr (run3 zl p.run inp e).1)

theorem T_bind {α β : Type} {x : Parser α} {f : α → Parser β} {z1 k1 z2 k2 : Nat}
    (hx : T x z1 k1) (hf : ∀ a, T (f a) z2 k2) : T (x >>= f) (z1 + z2) (k1 + k2) := by
  intro zl inp e c
  have h1 := hx zl inp e c
  rw [Parser.pcost_bind, Parser.run3_bind]
  cases h : run3 zl x.run inp e with
  | mk r rest =>
    rw [h] at h1
    cases r with
    | ok a =>
      simp only
      have h2 := hf a zl rest e (pcost zl x inp e c)
      simp only [isErr] at h1
      obtain ⟨a1, a2, a3, a4, a5⟩ := h1
      obtain ⟨b1, b2, b3, b4, b5⟩ := h2
      have a4' := a4 trivial
      refine ⟨by omega, by omega, by omega, fun hz => ?_, ?_⟩
      · have := b4 hz
        omega
      · rw [Nat.mul_add] at a5 b5 ⊢; rw [Nat.mul_add]; omega
    | error err =>
      simp only [isErr] at h1 ⊢
      obtain ⟨a1, a2, a3, _, a5⟩ := h1
      refine ⟨by omega, a2, a3, fun hz => absurd hz (by simp), ?_⟩
      rw [Nat.mul_add] at a5 ⊢; rw [Nat.mul_add]; omega

theorem T_weaken {α : Type} {p : Parser α} {z k z' k' : Nat} (h : T p z k) (hz : z ≤ z') (hk : k' ≤ k) : T p z' k' := by
  intro zl inp e c
  obtain ⟨a1, a2, a3, a4, a5⟩ := h zl inp e c
  refine ⟨by omega, a2, a3, fun h0 => by have := a4 h0; omega, Nat.le_trans a5 ?_⟩
  exact Nat.add_le_add_left (Nat.mul_le_mul_left _ (by omega)) _

theorem T_pure {α : Type} (a : α) : T (pure a : Parser α) 0 0 := by
  intro zl inp e c
  have h1 : pcost zl (pure a : Parser α) inp e c = c := rfl
  have h2 : run3 zl (pure a : Parser α).run inp e = (.ok a, inp) := rfl
  rw [h1, h2]
  exact ⟨by simp [isErr], Nat.le_refl _, Nat.le_refl _, fun _ => Nat.le_refl _, by simp⟩

theorem T_fail {α : Type} (err : PErr) : T (Parser.fail err : Parser α) 0 0 := by
  intro zl inp e c
  have h1 : pcost zl (Parser.fail err : Parser α) inp e c = c := rfl
  have h2 : run3 zl (Parser.fail err : Parser α).run inp e = (.error err, inp) := rfl
  rw [h1, h2]
  exact ⟨by simp [isErr], Nat.le_refl _, Nat.le_refl _, fun h => absurd h (by simp [isErr]), by simp⟩

theorem T_byte : T Parser.byte 0 1 := by
  intro zl inp e c
  cases inp with
  | nil =>
    have h1 : pcost zl Parser.byte [] e c = { c with steps := c.steps + 1 } := rfl
    have h2 : run3 zl Parser.byte.run [] e = (.error (.io e), []) := rfl
    rw [h1, h2]
    exact ⟨by simp [isErr]; omega, Nat.le_refl _, by simp, fun h => absurd h (by simp [isErr]), by simp⟩
  | cons b rest =>
    have h1 : pcost zl Parser.byte (b :: rest) e c = { c with consumed := c.consumed + 1, steps := c.steps + 1 } := rfl
    have h2 : run3 zl Parser.byte.run (b :: rest) e = (.ok b, rest) := rfl
    rw [h1, h2]
    exact ⟨by simp [isErr]; omega, by simp, by simp, fun _ => by simp, by simp⟩

theorem rfr_err (inp : List UInt8) (e : IOErr) (n : Nat) (h : ¬ n ≤ inp.length) :
    ∃ err, (readFullResult inp e n).1 = .error err := by
  unfold readFullResult
  simp only [h, if_false]
  by_cases he : e = IOErr.eof
  · simp only [he, if_true]
    by_cases hi : inp.isEmpty = true
    · exact ⟨IOErr.eof, by simp [hi]⟩
    · exact ⟨IOErr.unexpectedEof, by simp [hi]⟩
  · exact ⟨e, by simp [he]⟩

theorem T_full (n : Nat) (hn : 1 ≤ n) (hm : n ≤ maxEager := by unfold maxEager; omega) : T (Parser.full n) 0 n := by
  intro zl inp e c
  have h1 : pcost zl (Parser.full n) inp e c =
      { c with consumed := c.consumed + (if n ≤ inp.length then n else inp.length), steps := c.steps + 1, alloc := c.alloc + readAlloc true n (if n ≤ inp.length then n else inp.length), efail := c.efail + (if true && !(decide (n ≤ inp.length)) then n else 0) } := by
    unfold pcost Parser.full ExceptT.mk ExceptT.run
    simp only [runPure]
    cases (readFullResult inp e n).1 <;> rfl
  have h2 : isErr (run3 zl (Parser.full n).run inp e).1 = if n ≤ inp.length then 0 else 1 := by
    unfold Parser.full ExceptT.mk ExceptT.run
    simp only [run3]
    by_cases h : n ≤ inp.length
    · simp [readFullResult, h, run3, isErr]
    · obtain ⟨err, herr⟩ := rfr_err inp e n h
      rw [herr]; simp [run3, isErr, h]
  rw [h1, h2]
  by_cases h : n ≤ inp.length
  · simp only [h, if_true, decide_true, Bool.not_true, Bool.and_false, Bool.false_eq_true, if_false]
    exact ⟨by omega, by omega, by omega, fun _ => by omega, by omega⟩
  · simp only [h, if_false, decide_false, Bool.not_false, Bool.and_true, if_true]
    exact ⟨by omega, by omega, by omega, fun hz => absurd hz (by simp), by simp; exact hm⟩

theorem T_bytesN (n : Nat) (hn : 1 ≤ n) : T (Parser.bytesN n) 0 n := by
  intro zl inp e c
  have h1 : pcost zl (Parser.bytesN n) inp e c =
      { c with consumed := c.consumed + (if n ≤ inp.length then n else inp.length), steps := c.steps + 1, alloc := c.alloc + readAlloc false n (if n ≤ inp.length then n else inp.length) } := by
    unfold pcost Parser.bytesN ExceptT.mk ExceptT.run
    simp only [runPure]
    cases (readFullResult inp e n).1 <;> rfl
  have h2 : isErr (run3 zl (Parser.bytesN n).run inp e).1 = if n ≤ inp.length then 0 else 1 := by
    unfold Parser.bytesN ExceptT.mk ExceptT.run
    simp only [run3]
    by_cases h : n ≤ inp.length
    · simp [readFullResult, h, run3, isErr]
    · obtain ⟨err, herr⟩ := rfr_err inp e n h
      rw [herr]; simp [run3, isErr, h]
  rw [h1, h2]
  by_cases h : n ≤ inp.length
  · simp only [h, if_true]
    exact ⟨by omega, by omega, by omega, fun _ => by omega, by omega⟩
  · simp only [h, if_false]
    exact ⟨by omega, by omega, by omega, fun hz => absurd hz (by simp), by omega⟩

/-- **a declared length costs at most the bytes that are there**: `skip n` for every `n` -/
theorem T_skip : ∀ n, T (Parser.skip n) 0 n
  | 0 => T_pure ()
  | n + 1 => by
    have := T_bind (x := Parser.byte) (f := fun _ => Parser.skip n) T_byte (fun _ => T_skip n)
    have e : (Parser.skip (n + 1)) = (Parser.byte >>= fun _ => Parser.skip n) := rfl
    rw [e]
    exact T_weaken this (by omega) (by omega)

theorem T_u32be : T Parser.u32be 0 4 := by
  unfold Parser.u32be
  exact T_weaken (T_bind T_byte fun _ => T_bind T_byte fun _ => T_bind T_byte fun _ => T_bind T_byte fun _ => T_pure _) (by omega) (by omega)

theorem T_mapErr {α : Type} {p : Parser α} {z k : Nat} (f : PErr → PErr) (h : T p z k) : T (Parser.mapErr p f) z k := by
  intro zl inp e c
  have hc : pcost zl (Parser.mapErr p f) inp e c = pcost zl p inp e c := by
    unfold pcost Parser.mapErr ExceptT.mk ExceptT.run
    rw [Prog.cost_bind]
    cases (run3 zl p inp e).1 <;> rfl
  have hr : isErr (run3 zl (Parser.mapErr p f).run inp e).1 = isErr (run3 zl p.run inp e).1 := by
    unfold Parser.mapErr ExceptT.mk ExceptT.run
    rw [Prog.run3_bind]
    cases hh : (run3 zl p inp e).1 <;> simp [run3, isErr, hh]
  rw [hc, hr]
  exact h zl inp e c

/-- the loop judgment: `steps' + 2·consumed ≤ steps + 2·consumed' + 1 + s` (slack `s` still to be paid for by bytes
consumed earlier in the same iteration) -/
def L {α : Type} (p : Parser α) (s : Nat) : Prop :=
  ∀ (zl : Inflate) (inp : List UInt8) (e : IOErr) (c : Cost),
    (pcost zl p inp e c).steps + 2 * c.consumed ≤ c.steps + 2 * (pcost zl p inp e c).consumed + 1 + s ∧
    c.consumed ≤ (pcost zl p inp e c).consumed ∧ c.steps ≤ (pcost zl p inp e c).steps ∧
    (pcost zl p inp e c).efail ≤ c.efail + maxEager

theorem isErr_le_one {α : Type} (r : Except PErr α) : isErr r ≤ 1 := by cases r <;> simp [isErr]

theorem L_of_T {α : Type} {p : Parser α} {k : Nat} (h : T p 0 k) : L p 0 := by
  intro zl inp e c
  obtain ⟨a1, a2, a3, _, a5⟩ := h zl inp e c
  have : isErr (run3 zl p.run inp e).1 ≤ 1 := isErr_le_one _
  refine ⟨by omega, a2, a3, Nat.le_trans a5 ?_⟩
  have : maxEager * (0 + isErr (run3 zl p.run inp e).1) ≤ maxEager * 1 := Nat.mul_le_mul_left _ (by omega)
  omega

theorem L_mono {α : Type} {p : Parser α} {s s' : Nat} (h : L p s) (hs : s ≤ s') : L p s' := by
  intro zl inp e c
  obtain ⟨a1, a2, a3, a4⟩ := h zl inp e c
  exact ⟨by omega, a2, a3, a4⟩

/-- sequencing after an inflate-free prefix; slack `s ≤ k` is paid by the `k` bytes a successful prefix consumed -/
theorem L_bind {α β : Type} {x : Parser α} {f : α → Parser β} {k s s' : Nat}
    (hx : T x 0 k) (hf : ∀ a, L (f a) s) (hs : s ≤ k + s') : L (x >>= f) s' := by
  intro zl inp e c
  have h1 := hx zl inp e c
  rw [Parser.pcost_bind]
  cases h : run3 zl x.run inp e with
  | mk r rest =>
    rw [h] at h1
    cases r with
    | ok a =>
      simp only
      obtain ⟨b1, b2, b3, b4⟩ := hf a zl rest e (pcost zl x inp e c)
      simp only [isErr] at h1
      obtain ⟨a1, a2, a3, a4, a5⟩ := h1
      have := a4 trivial
      exact ⟨by omega, by omega, by omega, by omega⟩
    | error err =>
      simp only [isErr] at h1 ⊢
      obtain ⟨a1, a2, a3, _, a5⟩ := h1
      exact ⟨by omega, a2, a3, by omega⟩

/-- the external inflate is one operation that consumes nothing: it costs one unit of slack -/
theorem L_inflate {β : Type} (z : List UInt8) {g : Except String (List UInt8) → Parser β} (hg : ∀ r, L (g r) 0) :
    L (Parser.inflate z >>= g) 1 := by
  intro zl inp e c
  rw [Parser.pcost_bind]
  have hr : run3 zl (Parser.inflate z).run inp e = (.ok (zl z), inp) := rfl
  have hc : (pcost zl (Parser.inflate z) inp e c).steps = c.steps + 1 ∧ (pcost zl (Parser.inflate z) inp e c).consumed = c.consumed ∧
      (pcost zl (Parser.inflate z) inp e c).efail = c.efail := ⟨rfl, rfl, rfl⟩
  rw [hr]
  simp only
  obtain ⟨b1, b2, b3, b4⟩ := hg (zl z) zl inp e (pcost zl (Parser.inflate z) inp e c)
  obtain ⟨c1, c2, c3⟩ := hc
  exact ⟨by omega, by omega, by omega, by omega⟩

/-- a parser that performs no operation -/
def Free {α : Type} (p : Parser α) : Prop := ∀ (zl : Inflate) (inp : List UInt8) (e : IOErr) (c : Cost), pcost zl p inp e c = c

theorem Free_pure {α : Type} (a : α) : Free (pure a : Parser α) := fun _ _ _ _ => rfl
theorem Free_fail {α : Type} (err : PErr) : Free (Parser.fail err : Parser α) := fun _ _ _ _ => rfl

/-- `attempt x >>= K`: the caller inspects the outcome; on failure it does nothing more -/
theorem L_attempt {α β : Type} {x : Parser α} {K : Except PErr α → Parser β} {k s : Nat}
    (hx : T x 0 k) (hs : s ≤ k) (hok : ∀ a, L (K (.ok a)) s) (herr : ∀ err, Free (K (.error err))) :
    L (Parser.attempt x >>= K) 0 := by
  intro zl inp e c
  have h1 := hx zl inp e c
  rw [Parser.pcost_bind]
  have hcost : pcost zl (Parser.attempt x) inp e c = pcost zl x inp e c := by
    unfold pcost Parser.attempt ExceptT.mk ExceptT.run
    rw [Prog.cost_bind]; rfl
  have hrun : run3 zl (Parser.attempt x).run inp e = (.ok (run3 zl x.run inp e).1, (run3 zl x.run inp e).2) := by
    unfold Parser.attempt ExceptT.mk ExceptT.run
    rw [Prog.run3_bind]; rfl
  rw [hrun, hcost]
  simp only
  cases h : (run3 zl x.run inp e).1 with
  | ok a =>
    rw [h] at h1
    simp only [isErr] at h1
    obtain ⟨a1, a2, a3, a4, a5⟩ := h1
    have := a4 trivial
    obtain ⟨b1, b2, b3, b4⟩ := hok a zl (run3 zl x.run inp e).2 e (pcost zl x inp e c)
    exact ⟨by omega, by omega, by omega, by omega⟩
  | error err =>
    rw [h] at h1
    simp only [isErr] at h1
    obtain ⟨a1, a2, a3, _, a5⟩ := h1
    rw [herr err zl (run3 zl x.run inp e).2 e (pcost zl x inp e c)]
    exact ⟨by omega, a2, a3, by omega⟩

/-! ### the PNG extractor -/

theorem L_bind1 {α β : Type} {x : Parser α} {f : α → Parser β} {k : Nat}
    (hx : T x 0 k) (hf : ∀ a, L (f a) 1) : L (x >>= f) 1 := L_bind hx hf (by omega)

theorem L_leaf {α : Type} {p : Parser α} (h : L p 0) : L p 1 := L_mono h (by omega)

theorem T_chunkHeader : T Png.chunkHeader 0 8 := by
  unfold Png.chunkHeader
  exact T_weaken (T_bind T_u32be fun _ => T_bind (T_mapErr _ (T_full 4 (by omega))) fun _ => T_pure _) (by omega) (by omega)

theorem T_profileName : ∀ n acc, T (Png.profileName n acc) 0 0
  | 0, acc => T_pure acc
  | n + 1, acc => by
    have e : Png.profileName (n + 1) acc = (Parser.byte >>= fun b => if b == 0 then pure acc else Png.profileName n (acc + 1)) := rfl
    rw [e]
    have hb : ∀ b : UInt8, T (if b == 0 then (pure acc : Parser Nat) else Png.profileName n (acc + 1)) 0 0 := by
      intro b
      by_cases hb : (b == 0) = true
      · simp only [hb, if_true]; exact T_pure acc
      · simp only [hb, Bool.false_eq_true, if_false]; exact T_profileName n (acc + 1)
    exact T_weaken (T_bind T_byte hb) (by omega) (by omega)

/-- **the chunk loop**: at most `2·consumed + 1` operations, for every fuel, state and input -/
theorem L_png_loop : ∀ (fuel : Nat) (st : Png.St), L (Png.loop fuel st) 0
  | 0, st => by
    have e : Png.loop 0 st = Parser.fail (.bad "model: out of fuel") := rfl
    rw [e]; exact L_of_T (T_fail _)
  | fuel + 1, st => by
    have ih := L_png_loop fuel
    unfold Png.loop
    refine L_attempt (k := 8) (s := 1) T_chunkHeader (by omega) ?_ ?_
    · -- a chunk header was read (8 bytes): one unit of slack for the inflate call
      rintro ⟨len, ty⟩
      simp only
      split
      · -- IHDR
        refine L_bind1 T_u32be (fun w => L_bind1 T_u32be (fun h => L_bind1 T_byte (fun d => L_bind1 (T_skip _) (fun _ => L_bind1 T_u32be (fun _ => ?_)))))
        split
        · exact L_leaf (L_of_T (T_pure _))
        · exact L_leaf (ih _)
      · split
        · -- iCCP
          refine L_bind1 (T_profileName 80 0) (fun nameLen => ?_)
          split
          · exact L_leaf (L_of_T (T_fail _))
          · refine L_bind1 T_byte (fun method => ?_)
            split
            · exact L_leaf (L_of_T (T_fail _))
            · split
              · exact L_leaf (L_of_T (T_fail _))
              · rename_i hlt
                refine L_bind1 (T_mapErr _ (T_bytesN _ (by omega))) (fun z => L_bind1 T_u32be (fun _ => ?_))
                refine L_inflate z (fun r => ?_)
                cases r with
                | ok p =>
                  simp only
                  split
                  · exact L_of_T (T_pure _)
                  · exact ih _
                | error msg => exact ih _
        · split
          · exact L_leaf (L_of_T (T_pure _))
          · -- any other chunk: skip its declared length, whatever it says
            exact L_bind1 (T_skip _) (fun _ => L_bind1 T_u32be (fun _ => L_leaf (ih _)))
    · intro err
      cases err with
      | io e' => cases e' <;> first | exact Free_pure _ | exact Free_fail _
      | bad m => exact Free_fail _
      | panic m => exact Free_fail _

theorem L_then_free {α β : Type} {x : Parser α} {f : α → Parser β} {s : Nat} (hx : L x s) (hf : ∀ a, Free (f a)) :
    L (x >>= f) s := by
  intro zl inp e c
  rw [Parser.pcost_bind]
  cases h : run3 zl x.run inp e with
  | mk r rest =>
    cases r with
    | ok a => simp only; rw [hf a zl rest e _]; exact hx zl inp e c
    | error err => exact hx zl inp e c

theorem L_png_extract (fuel : Nat) : L (Png.extract fuel) 0 := by
  unfold Png.extract
  refine L_bind (k := 8) (s := 0) (T_mapErr _ (T_full 8 (by omega))) (fun sig => ?_) (by omega)
  split
  · exact L_of_T (T_fail _)
  · refine L_then_free (L_png_loop fuel {}) (fun st => ?_)
    split
    · exact Free_fail _
    · exact Free_pure _

/-- **C09 (PNG: the work is bounded by the input, not by the numbers written in it).**  On every byte string, for every
source error, every behaviour of the external inflate and every fuel, the PNG extractor performs at most
`2·|input| + 1` reader operations — chunk lengths of 2³²−1, profile names without terminator and any number of
chunks included. -/
theorem C09_png_steps (zl : Inflate) (fuel : Nat) (inp : List UInt8) (e : IOErr) :
    (runPure zl (Png.extract fuel).run inp e {}).2.steps ≤ 2 * inp.length + 1 := by
  obtain ⟨h1, _, _⟩ := L_png_extract fuel zl inp e {}
  have h2 := C09_consumed_le zl (Png.extract fuel).run inp e {}
  unfold pcost at h1
  simp only at h1 h2
  omega

/-! ### the WebP extractor (no loop) -/

/-- `bytesN n` for any `n` (a declared length of zero is one operation that consumes nothing) -/
theorem T_bytesN' (n : Nat) : T (Parser.bytesN n) 1 0 := by
  cases n with
  | zero =>
    intro zl inp e c
    have h1 : pcost zl (Parser.bytesN 0) inp e c = { c with consumed := c.consumed + 0, steps := c.steps + 1, alloc := c.alloc + readAlloc false 0 0 } := by
      unfold pcost Parser.bytesN ExceptT.mk ExceptT.run
      simp only [runPure, Nat.zero_le, if_true]
      cases (readFullResult inp e 0).1 <;> rfl
    rw [h1]
    exact ⟨by simp; omega, by simp, by simp, fun _ => by simp, by simp⟩
  | succ m => exact T_weaken (T_bytesN (m + 1) (by omega)) (by omega) (by omega)

theorem T_u32le : T Parser.u32le 0 4 := by
  unfold Parser.u32le
  exact T_weaken (T_bind T_byte fun _ => T_bind T_byte fun _ => T_bind T_byte fun _ => T_bind T_byte fun _ => T_pure _) (by omega) (by omega)

theorem T_u24le : T Parser.u24le 0 3 := by
  unfold Parser.u24le
  exact T_weaken (T_bind T_byte fun _ => T_bind T_byte fun _ => T_bind T_byte fun _ => T_pure _) (by omega) (by omega)

theorem T_webp_chunkHeader : T Webp.chunkHeader 0 8 := by
  unfold Webp.chunkHeader
  exact T_weaken (T_bind (T_mapErr _ (T_full 4 (by omega))) fun _ => T_bind T_u32le fun _ => T_pure _) (by omega) (by omega)

/-- `attempt x >>= K` with a continuation that performs no operation: the failing operation of `x`, if any, is
charged as one more non-consuming operation -/
theorem T_attempt_free {α β : Type} {x : Parser α} {K : Except PErr α → Parser β} {z k : Nat}
    (hx : T x z k) (hK : ∀ r, Free (K r)) : T (Parser.attempt x >>= K) (z + 1) 0 := by
  intro zl inp e c
  have h1 := hx zl inp e c
  rw [Parser.pcost_bind]
  have hcost : pcost zl (Parser.attempt x) inp e c = pcost zl x inp e c := by
    unfold pcost Parser.attempt ExceptT.mk ExceptT.run
    rw [Prog.cost_bind]; rfl
  have hrun : run3 zl (Parser.attempt x).run inp e = (.ok (run3 zl x.run inp e).1, (run3 zl x.run inp e).2) := by
    unfold Parser.attempt ExceptT.mk ExceptT.run
    rw [Prog.run3_bind]; rfl
  rw [hrun, hcost]
  simp only
  rw [hK _ zl _ e _]
  obtain ⟨a1, a2, a3, _, a5⟩ := h1
  have : isErr (run3 zl x.run inp e).1 ≤ 1 := isErr_le_one _
  refine ⟨by omega, a2, a3, fun _ => by omega, Nat.le_trans a5 ?_⟩
  exact Nat.add_le_add_left (Nat.mul_le_mul_left _ (by omega)) _

theorem T_seq {α β : Type} {x : Parser α} {f : α → Parser β} {z k : Nat}
    (hx : T x 0 k) (hf : ∀ a, T (f a) z 0) : T (x >>= f) z 0 := T_weaken (T_bind hx hf) (by omega) (by omega)

theorem T_lift {α : Type} {p : Parser α} {k : Nat} (z : Nat) (h : T p 0 k) : T p z 0 := T_weaken h (by omega) (by omega)

theorem T_webp_simple (md : Meta) : T (Webp.simple md) 0 0 := by
  unfold Webp.simple
  refine T_seq (T_skip 3) fun _ => T_seq (T_full 7 (by omega)) fun b => ?_
  split
  · split
    · exact T_fail _
    · exact T_pure _
  · exact T_fail _

theorem T_webp_lossless (md : Meta) : T (Webp.lossless md) 0 0 := by
  unfold Webp.lossless
  refine T_seq T_byte fun sig => ?_
  split
  · exact T_fail _
  · exact T_seq T_byte fun _ => T_seq T_byte fun _ => T_seq T_byte fun _ => T_seq T_byte fun _ => T_pure _

theorem T_webp_readICCP (chunkLen : Nat) : T (Webp.readICCP chunkLen) 1 0 := by
  unfold Webp.readICCP
  refine T_seq (T_skip _) fun _ => T_seq T_webp_chunkHeader fun h => ?_
  obtain ⟨ty, len⟩ := h
  simp only
  split
  · exact T_lift 1 (T_fail _)
  · exact T_bytesN' len

theorem T_webp_extended (md : Meta) (chunkLen : Nat) : T (Webp.extended md chunkLen) 2 0 := by
  unfold Webp.extended
  split
  · exact T_lift 2 (T_fail _)
  · refine T_seq T_byte fun flags => T_seq (T_skip 3) fun _ => T_seq T_u24le fun w => T_seq T_u24le fun h => ?_
    simp only
    split
    · refine T_attempt_free (T_webp_readICCP chunkLen) (fun r => ?_)
      cases r <;> exact Free_pure _
    · exact T_lift 2 (T_pure _)

theorem T_webp_extract : T Webp.extract 2 0 := by
  unfold Webp.extract
  refine T_seq T_webp_chunkHeader fun h => ?_
  obtain ⟨ty, l0⟩ := h
  simp only
  split
  · exact T_lift 2 (T_fail _)
  · refine T_seq (T_full 4 (by omega)) fun cc => ?_
    split
    · exact T_lift 2 (T_fail _)
    · refine T_seq T_webp_chunkHeader fun h2 => ?_
      obtain ⟨fty, len⟩ := h2
      simp only
      split
      · exact T_lift 2 (T_webp_simple _)
      · split
        · exact T_lift 2 (T_webp_lossless _)
        · split
          · exact T_webp_extended _ _
          · exact T_lift 2 (T_fail _)

/-- **C09 (WebP).** At most `|input| + 3` reader operations on every byte string. -/
theorem C09_webp_steps (zl : Inflate) (inp : List UInt8) (e : IOErr) :
    (runPure zl Webp.extract.run inp e {}).2.steps ≤ inp.length + 3 := by
  obtain ⟨h1, _, _, _⟩ := T_webp_extract zl inp e {}
  have h2 := C09_consumed_le zl Webp.extract.run inp e {}
  have : isErr (run3 zl Webp.extract.run inp e).1 ≤ 1 := by cases (run3 zl Webp.extract.run inp e).1 <;> simp [isErr]
  unfold pcost at h1
  simp only at h1 h2
  omega

/-! ### the JPEG extractor -/

/-- a postcondition on the value of a successful run -/
def Post {α : Type} (p : Parser α) (Q : α → Prop) : Prop :=
  ∀ (zl : Inflate) (inp : List UInt8) (e : IOErr) (a : α), (run3 zl p.run inp e).1 = .ok a → Q a

theorem Post_pure {α : Type} {Q : α → Prop} (a : α) (h : Q a) : Post (pure a : Parser α) Q := by
  intro zl inp e b hb
  rw [Parser.run3_pure] at hb
  cases hb; exact h

theorem Post_fail {α : Type} {Q : α → Prop} (err : PErr) : Post (Parser.fail err : Parser α) Q := by
  intro zl inp e b hb
  rw [Parser.run3_fail] at hb
  cases hb

theorem Post_bind {α β : Type} {x : Parser α} {f : α → Parser β} {Q : β → Prop}
    (hf : ∀ a, Post (f a) Q) : Post (x >>= f) Q := by
  intro zl inp e b hb
  rw [Parser.run3_bind] at hb
  cases h : run3 zl x.run inp e with
  | mk r rest =>
    rw [h] at hb
    cases r with
    | ok a => exact hf a zl rest e b hb
    | error err => cases hb

theorem Post_bind' {α β : Type} {x : Parser α} {f : α → Parser β} {P : α → Prop} {Q : β → Prop}
    (hx : Post x P) (hf : ∀ a, P a → Post (f a) Q) : Post (x >>= f) Q := by
  intro zl inp e b hb
  rw [Parser.run3_bind] at hb
  cases h : run3 zl x.run inp e with
  | mk r rest =>
    rw [h] at hb
    cases r with
    | ok a => exact hf a (hx zl inp e a (by rw [h])) zl rest e b hb
    | error err => cases hb

theorem Post_u16be : Post Parser.u16be (fun l => l ≤ 65535) := by
  unfold Parser.u16be
  refine Post_bind fun a => Post_bind fun b => Post_pure _ ?_
  have := a.toNat_lt; have := b.toNat_lt
  omega

/-- sequencing when the continuation's judgment needs a fact about the value `x` produced -/
theorem T_bind_post {α β : Type} {x : Parser α} {f : α → Parser β} {Q : α → Prop} {z1 k1 z2 k2 : Nat}
    (hx : T x z1 k1) (hQ : Post x Q) (hf : ∀ a, Q a → T (f a) z2 k2) : T (x >>= f) (z1 + z2) (k1 + k2) := by
  intro zl inp e c
  have h1 := hx zl inp e c
  rw [Parser.pcost_bind, Parser.run3_bind]
  cases h : run3 zl x.run inp e with
  | mk r rest =>
    rw [h] at h1
    cases r with
    | ok a =>
      simp only
      have h2 := hf a (hQ zl inp e a (by rw [h])) zl rest e (pcost zl x inp e c)
      simp only [isErr] at h1
      obtain ⟨a1, a2, a3, a4, a5⟩ := h1
      obtain ⟨b1, b2, b3, b4, b5⟩ := h2
      have a4' := a4 trivial
      refine ⟨by omega, by omega, by omega, fun hz => ?_, ?_⟩
      · have := b4 hz
        omega
      · rw [Nat.mul_add] at a5 b5 ⊢; rw [Nat.mul_add]; omega
    | error err =>
      simp only [isErr] at h1 ⊢
      obtain ⟨a1, a2, a3, _, a5⟩ := h1
      refine ⟨by omega, a2, a3, fun hz => absurd hz (by simp), ?_⟩
      rw [Nat.mul_add] at a5 ⊢; rw [Nat.mul_add]; omega

/-- the data length `makeMarker` computes comes from a 16-bit field -/
theorem Post_makeMarker (t : Nat) : Post (Jpeg.makeMarker t) (fun r => r.2 ≤ 65533) := by
  unfold Jpeg.makeMarker
  split
  · exact Post_pure _ (by simp)
  · split
    · exact Post_bind' Post_u16be fun l hl => Post_pure _ (by simp only; omega)
    · exact Post_fail _

theorem T_u16be : T Parser.u16be 0 2 := by
  unfold Parser.u16be
  exact T_weaken (T_bind T_byte fun _ => T_bind T_byte fun _ => T_pure _) (by omega) (by omega)

theorem T_makeMarker (t : Nat) : T (Jpeg.makeMarker t) 0 0 := by
  unfold Jpeg.makeMarker
  split
  · exact T_pure _
  · split
    · exact T_seq T_u16be fun _ => T_pure _
    · exact T_fail _

theorem T_readSegment : T Jpeg.readSegment 0 0 := by
  unfold Jpeg.readSegment
  refine T_seq T_byte fun b => ?_
  split
  · exact T_fail _
  · refine T_seq T_byte fun t => T_weaken (T_bind_post (z2 := 0) (k2 := 0) (T_makeMarker _) (Post_makeMarker _) fun h hq => ?_) (by omega) (by omega)
    obtain ⟨ty, dl⟩ := h
    simp only at hq ⊢
    split
    · rename_i hpos
      exact T_seq (T_full dl.toNat (by omega) (by unfold maxEager; omega)) fun _ => T_pure _
    · exact T_pure _

/-- **the segment loop**: at most `2·consumed + 1` operations, for every fuel, state and input -/
theorem L_jpeg_loop : ∀ (fuel : Nat) (st : Jpeg.St), L (Jpeg.loop fuel st) 0
  | 0, st => by
    have e : Jpeg.loop 0 st = Parser.fail (.bad "model: out of fuel") := rfl
    rw [e]; exact L_of_T (T_fail _)
  | fuel + 1, st => by
    have ih := L_jpeg_loop fuel
    unfold Jpeg.loop
    refine L_attempt (k := 0) (s := 0) T_readSegment (by omega) ?_ ?_
    · rintro ⟨ty, d⟩
      simp only
      split
      · split
        · split
          · exact L_of_T (T_pure _)
          · exact ih _
        · exact L_of_T (T_pure _)
      · split
        · exact L_of_T (T_pure _)
        · split
          · split
            · exact ih _
            · split
              · exact ih _
              · split
                · exact ih _
                · split
                  · exact L_of_T (T_pure _)
                  · exact ih _
          · exact ih _
    · intro err
      cases err with
      | io e' => cases e' <;> exact Free_fail _
      | bad m => exact Free_fail _
      | panic m => exact Free_fail _

theorem L_jpeg_extract (fuel : Nat) : L (Jpeg.extract fuel) 0 := by
  unfold Jpeg.extract
  refine L_bind (k := 0) (s := 0) T_readSegment (fun h => ?_) (by omega)
  obtain ⟨ty, d⟩ := h
  simp only
  split
  · exact L_of_T (T_fail _)
  · refine L_then_free (L_jpeg_loop fuel {}) (fun out => ?_)
    cases out with
    | panicked st msg => exact Free_fail _
    | done st =>
      simp only
      split
      · exact Free_pure _
      · exact Free_fail _

/-- **C09 (JPEG).** At most `2·|input| + 1` reader operations on every byte string. -/
theorem C09_jpeg_steps (zl : Inflate) (fuel : Nat) (inp : List UInt8) (e : IOErr) :
    (runPure zl (Jpeg.extract fuel).run inp e {}).2.steps ≤ 2 * inp.length + 1 := by
  obtain ⟨h1, _, _⟩ := L_jpeg_extract fuel zl inp e {}
  have h2 := C09_consumed_le zl (Jpeg.extract fuel).run inp e {}
  unfold pcost at h1
  simp only at h1 h2
  omega

/-! ### the ICC profile reader -/

theorem T_u64be : T Parser.u64be 0 0 := by
  unfold Parser.u64be
  exact T_seq T_u32be fun _ => T_seq T_u32be fun _ => T_pure _

theorem T_readHeader : T Icc.readHeader 0 0 := by
  unfold Icc.readHeader
  refine T_seq T_u32be fun _ => T_seq T_u32be fun _ => T_seq T_byte fun _ => T_seq T_byte fun _ => T_seq T_byte fun _ =>
    T_seq T_byte fun _ => T_seq T_u32be fun _ => T_seq T_u32be fun _ => T_seq T_u32be fun _ =>
    T_seq T_u16be fun _ => T_seq T_u16be fun _ => T_seq T_u16be fun _ => T_seq T_u16be fun _ => T_seq T_u16be fun _ =>
    T_seq T_u16be fun _ => T_seq T_u32be fun sig => ?_
  split
  · exact T_fail _
  · exact T_seq T_u32be fun _ => T_seq T_u32be fun _ => T_seq T_u32be fun _ => T_seq T_u32be fun _ => T_seq T_u64be fun _ =>
      T_seq T_u32be fun _ => T_seq T_u32be fun _ => T_seq T_u32be fun _ => T_seq T_u32be fun _ => T_seq T_u32be fun _ =>
      T_seq (T_mapErr _ (T_full 16 (by omega))) fun _ =>
      T_seq T_u32be fun _ => T_seq T_u32be fun _ => T_seq T_u32be fun _ => T_seq T_u32be fun _ => T_seq T_u32be fun _ =>
      T_seq T_u32be fun _ => T_seq T_u32be fun _ => T_pure _

/-- the tag index loop: a declared tag count of 2³²−1 costs at most the bytes that are there -/
theorem T_readIndex : ∀ n acc e, T (Icc.readIndex n acc e) 0 0
  | 0, acc, e => T_pure _
  | n + 1, acc, e => by
    unfold Icc.readIndex
    exact T_seq T_u32be fun _ => T_seq T_u32be fun _ => T_seq T_u32be fun _ => T_readIndex n _ _

theorem T_readTagTable : T Icc.readTagTable 1 0 := by
  unfold Icc.readTagTable
  refine T_seq T_u32be fun count => T_seq (T_readIndex count [] 0) fun h => ?_
  obtain ⟨idx, ed⟩ := h
  simp only
  have hk : ∀ data : List UInt8, T (if ((Icc.dedupLast idx).map fun (x : Nat × Nat × Nat) =>
        let s := (x.2.1 + Icc.u32 - (132 + count * 12) % Icc.u32) % Icc.u32
        let e := (s + x.2.2) % Icc.u32
        if s ≤ e && e ≤ data.length then some (x.1, (data.drop s).take (e - s)) else none).all Option.isSome
      then (pure (((Icc.dedupLast idx).map fun (x : Nat × Nat × Nat) =>
        let s := (x.2.1 + Icc.u32 - (132 + count * 12) % Icc.u32) % Icc.u32
        let e := (s + x.2.2) % Icc.u32
        if s ≤ e && e ≤ data.length then some (x.1, (data.drop s).take (e - s)) else none).filterMap id) : Parser _)
      else Parser.fail (.panic "slice bounds out of range")) 0 0 := by
    intro data
    split
    · exact T_pure _
    · exact T_fail _
  exact T_weaken (T_bind (z2 := 0) (k2 := 0) (T_mapErr _ (T_bytesN' _)) hk) (by omega) (by omega)

theorem T_readProfile : T Icc.readProfile 1 0 := by
  unfold Icc.readProfile
  exact T_seq T_readHeader fun _ => T_weaken (T_bind T_readTagTable fun _ => T_pure _) (by omega) (by omega)

/-- **C09 (ICC profile reader).** At most `|input| + 2` reader operations on every byte string — whatever tag count, offsets
and sizes it declares. -/
theorem C09_icc_steps (zl : Inflate) (inp : List UInt8) (e : IOErr) :
    (runPure zl Icc.readProfile.run inp e {}).2.steps ≤ inp.length + 2 := by
  obtain ⟨h1, _, _, _⟩ := T_readProfile zl inp e {}
  have h2 := C09_consumed_le zl Icc.readProfile.run inp e {}
  have : isErr (run3 zl Icc.readProfile.run inp e).1 ≤ 1 := by cases (run3 zl Icc.readProfile.run inp e).1 <;> simp [isErr]
  unfold pcost at h1
  simp only at h1 h2
  omega


/-! ### allocation: bounded by the input, for every program -/

/-- **every program** (any parser built from the reader operations): what a run requests from the allocator is paid for by
the bytes it consumed (twice over: `bytes.Buffer` doubling), 1 KiB per operation, the buffers it requested up front for
reads that then failed (`efail`), and twice the bytes the external inflate produced (`zout`). -/
theorem Prog.alloc_le {α : Type} (zl : Inflate) (p : Prog α) :
    ∀ (inp : List UInt8) (e : IOErr) (c : Cost),
      (runPure zl p inp e c).2.alloc + 2 * c.consumed + 1024 * c.steps + c.efail + 2 * c.zout ≤
        c.alloc + 2 * (runPure zl p inp e c).2.consumed + 1024 * (runPure zl p inp e c).2.steps +
          (runPure zl p inp e c).2.efail + 2 * (runPure zl p inp e c).2.zout := by
  induction p with
  | ret a => intro inp e c; simp only [runPure]; omega
  | readByte k ih =>
    intro inp e c
    cases inp with
    | nil =>
      simp only [runPure]
      have := ih (.error e) [] e { c with steps := c.steps + 1 }
      simp only at this
      omega
    | cons b rest =>
      simp only [runPure]
      have := ih (.ok b) rest e { c with consumed := c.consumed + 1, steps := c.steps + 1 }
      simp only at this
      omega
  | readFull n eager k ih =>
    intro inp e c
    simp only [runPure]
    have := ih (readFullResult inp e n).1 (readFullResult inp e n).2 e
      { c with consumed := c.consumed + (if n ≤ inp.length then n else inp.length), steps := c.steps + 1, alloc := c.alloc + readAlloc eager n (if n ≤ inp.length then n else inp.length), efail := c.efail + (if eager && !(decide (n ≤ inp.length)) then n else 0) }
    simp only at this
    unfold readAlloc at this ⊢
    cases eager
    · simp only [Bool.false_eq_true, if_false, Bool.false_and] at this ⊢; omega
    · by_cases h : n ≤ inp.length
      · simp only [h, if_true, decide_true, Bool.not_true, Bool.and_false, Bool.false_eq_true, if_false] at this ⊢; omega
      · simp only [h, if_false, if_true, decide_false, Bool.not_false, Bool.and_true] at this ⊢; omega
  | inflate z k ih =>
    intro inp e c
    cases hz : zl z with
    | ok q =>
      simp only [runPure, hz]
      have := ih (.ok q) inp e { c with steps := c.steps + 1, alloc := c.alloc + 2 * q.length + 1024, zout := c.zout + q.length }
      simp only at this
      omega
    | error m =>
      simp only [runPure, hz]
      have := ih (.error m) inp e { c with steps := c.steps + 1, alloc := c.alloc + 2 * 0 + 1024, zout := c.zout + 0 }
      simp only at this
      omega

/-- **C09 (PNG: memory is bounded by the input).**  On every byte string, whatever chunk lengths it declares: the bytes the
PNG extractor requests from the allocator are at most `2050·|input| + 66559`, plus twice what the external inflate
(compress/zlib, not modelled) produced. -/
theorem C09_png_alloc (zl : Inflate) (fuel : Nat) (inp : List UInt8) (e : IOErr) :
    (runPure zl (Png.extract fuel).run inp e {}).2.alloc ≤
      2050 * inp.length + 66559 + 2 * (runPure zl (Png.extract fuel).run inp e {}).2.zout := by
  obtain ⟨_, _, _, h4⟩ := L_png_extract fuel zl inp e {}
  have h1 := C09_png_steps zl fuel inp e
  have h2 := C09_consumed_le zl (Png.extract fuel).run inp e {}
  have h3 := Prog.alloc_le zl (Png.extract fuel).run inp e {}
  unfold pcost maxEager at h4
  simp only at h1 h2 h3 h4
  omega

/-- **C09 (JPEG: memory is bounded by the input)** — a segment's buffer is requested before its bytes arrive, but its size
is a 16-bit field, and a read that fails ends the run. -/
theorem C09_jpeg_alloc (zl : Inflate) (fuel : Nat) (inp : List UInt8) (e : IOErr) :
    (runPure zl (Jpeg.extract fuel).run inp e {}).2.alloc ≤
      2050 * inp.length + 66559 + 2 * (runPure zl (Jpeg.extract fuel).run inp e {}).2.zout := by
  obtain ⟨_, _, _, h4⟩ := L_jpeg_extract fuel zl inp e {}
  have h1 := C09_jpeg_steps zl fuel inp e
  have h2 := C09_consumed_le zl (Jpeg.extract fuel).run inp e {}
  have h3 := Prog.alloc_le zl (Jpeg.extract fuel).run inp e {}
  unfold pcost maxEager at h4
  simp only at h1 h2 h3 h4
  omega

/-- **C09 (WebP: memory is bounded by the input).** -/
theorem C09_webp_alloc (zl : Inflate) (inp : List UInt8) (e : IOErr) :
    (runPure zl Webp.extract.run inp e {}).2.alloc ≤
      1026 * inp.length + 199677 + 2 * (runPure zl Webp.extract.run inp e {}).2.zout := by
  obtain ⟨_, _, _, _, h4⟩ := T_webp_extract zl inp e {}
  have h1 := C09_webp_steps zl inp e
  have h2 := C09_consumed_le zl Webp.extract.run inp e {}
  have h3 := Prog.alloc_le zl Webp.extract.run inp e {}
  have : isErr (run3 zl Webp.extract.run inp e).1 ≤ 1 := isErr_le_one _
  have h5 : maxEager * (2 + isErr (run3 zl Webp.extract.run inp e).1) ≤ 65535 * 3 := Nat.mul_le_mul_left _ (by omega)
  unfold pcost at h4
  simp only at h1 h2 h3 h4
  omega

/-- **C09 (ICC profile reader: memory is bounded by the input)** — whatever tag count, offsets and sizes it declares. -/
theorem C09_icc_alloc (zl : Inflate) (inp : List UInt8) (e : IOErr) :
    (runPure zl Icc.readProfile.run inp e {}).2.alloc ≤
      1026 * inp.length + 133118 + 2 * (runPure zl Icc.readProfile.run inp e {}).2.zout := by
  obtain ⟨_, _, _, _, h4⟩ := T_readProfile zl inp e {}
  have h1 := C09_icc_steps zl inp e
  have h2 := C09_consumed_le zl Icc.readProfile.run inp e {}
  have h3 := Prog.alloc_le zl Icc.readProfile.run inp e {}
  have : isErr (run3 zl Icc.readProfile.run inp e).1 ≤ 1 := isErr_le_one _
  have h5 : maxEager * (1 + isErr (run3 zl Icc.readProfile.run inp e).1) ≤ 65535 * 2 := Nat.mul_le_mul_left _ (by omega)
  unfold pcost at h4
  simp only at h1 h2 h3 h4
  omega

end Prism
