import Prism.Model.Icc

/-!
# C09 — the description accessor returns no more than it was given

`Profile.Description` works on the bytes of the `desc` tag (a slice of the profile, already bounded by the input —
`C09_icc_alloc_linear`).  Here: whatever record counts, offsets and lengths the tag declares, every string the accessor may
return is at most 3/2 times as long as the tag (UTF-16BE → UTF-8: two bytes become at most three; a surrogate pair's four
become four) — for every tag table and every `desc` tag content, any admissible choice of record included.
-/

namespace Prism.Icc

theorem utf8_len_le (c : Nat) (h : c < 0x10000) : (utf8 c).length ≤ 3 := by
  unfold utf8
  split
  · simp
  · split
    · simp
    · simp [h]

theorem utf8_len_le4 (c : Nat) : (utf8 c).length ≤ 4 := by
  unfold utf8
  split
  · simp
  · split
    · simp
    · split <;> simp

theorem units_lt : ∀ (b : List UInt8), ∀ u ∈ units b, u < 0x10000
  | [], u, h => by simp [units] at h
  | [_], u, h => by simp [units] at h
  | a :: b :: rest, u, h => by
    simp only [units, List.mem_cons] at h
    cases h with
    | inl h => have := a.toNat_lt; have := b.toNat_lt; omega
    | inr h => exact units_lt rest u h

theorem units_len : ∀ (b : List UInt8), 2 * (units b).length ≤ b.length
  | [] => by simp [units]
  | [_] => by simp [units]
  | a :: b :: rest => by
    have := units_len rest
    simp only [units, List.length_cons]
    omega

/-- UTF-16 code units → UTF-8 bytes: at most three bytes per unit -/
theorem decode_len : ∀ (n : Nat) (us : List Nat), us.length ≤ n → (∀ u ∈ us, u < 0x10000) →
    ((utf16Decode us).flatMap utf8).length ≤ 3 * us.length
  | _, [], _, _ => by simp [utf16Decode]
  | _, [u], _, h => by
    have hu := h u (by simp)
    unfold utf16Decode
    split
    · simp [utf8]
    · simpa using utf8_len_le u hu
  | 0, _ :: _ :: _, hn, _ => by simp at hn
  | n + 1, u :: v :: rest, hn, h => by
    have hu := h u (by simp)
    have hrest : ∀ x ∈ v :: rest, x < 0x10000 := fun x hx => h x (by simp [hx])
    have hrest2 : ∀ x ∈ rest, x < 0x10000 := fun x hx => h x (by simp [hx])
    have ih1 := decode_len n (v :: rest) (by simp only [List.length_cons] at hn ⊢; omega) hrest
    have ih2 := decode_len n rest (by simp only [List.length_cons] at hn ⊢; omega) hrest2
    unfold utf16Decode
    split
    · simp only [List.flatMap_cons, List.length_append, List.length_cons] at ih1 ⊢
      have := utf8_len_le u hu
      omega
    · split
      · simp only [List.flatMap_cons, List.length_append, List.length_cons] at ih2 ⊢
        have := utf8_len_le4 ((u - 0xd800) * 1024 + (v - 0xdc00) + 0x10000)
        omega
      · simp only [List.flatMap_cons, List.length_append, List.length_cons] at ih1 ⊢
        have := utf8_len_le 0xfffd (by omega)
        omega

theorem decodeUTF16BE_len (b : List UInt8) : 2 * (decodeUTF16BE b).length ≤ 3 * b.length := by
  unfold decodeUTF16BE
  have h1 := decode_len (units b).length (units b) (Nat.le_refl _) (units_lt b)
  have h2 := units_len b
  omega

/-- every record the loop returns holds at most as many bytes as the tag -/
theorem mlucRecords_text_le (data : List UInt8) (rsz : Nat) : ∀ (n : Nat) (rest : List UInt8) (acc out : List Rec),
    (∀ r ∈ acc, r.text.length ≤ data.length) → mlucRecords data rsz n rest acc = .ok out → ∀ r ∈ out, r.text.length ≤ data.length
  | 0, rest, acc, out, hacc, h => by
    simp only [mlucRecords] at h
    cases h
    intro r hr
    exact hacc r (by simpa using hr)
  | n + 1, rest, acc, out, hacc, h => by
    unfold mlucRecords at h
    split at h
    · cases h
    · try simp only at h
      split at h
      · cases h
      · split at h
        · cases h
        · split at h
          · cases h
          · split at h
            · cases h
            · try simp only at h
              split at h
              · cases h
              · refine mlucRecords_text_le data rsz n _ _ out ?_ h
                intro r hr
                simp only [List.mem_cons] at hr
                cases hr with
                | inl hr => rw [hr]; simp only [List.length_take, List.length_drop]; omega
                | inr hr => exact hacc r hr

theorem dedupRecs_subset (rs : List Rec) : ∀ r ∈ dedupRecs rs, r ∈ rs := by
  unfold dedupRecs
  suffices h : ∀ (l acc : List Rec), ∀ r ∈ l.foldl (fun acc r => (acc.filter fun x => !(x.lang == r.lang && x.country == r.country)) ++ [r]) acc,
      r ∈ acc ∨ r ∈ l by
    intro r hr
    cases h rs [] r hr with
    | inl h => simp at h
    | inr h => exact h
  intro l
  induction l with
  | nil => intro acc r hr; left; simpa using hr
  | cons x xs ih =>
    intro acc r hr
    simp only [List.foldl_cons] at hr
    cases ih _ r hr with
    | inl h =>
      simp only [List.mem_append, List.mem_filter, List.mem_singleton] at h
      cases h with
      | inl h => left; exact h.1
      | inr h => right; simp [h]
    | inr h => right; simp [h]

theorem mlucCandidates_len (data : List UInt8) (rs : List Rec) (hrs : ∀ r ∈ rs, r.text.length ≤ data.length) :
    ∀ s ∈ mlucCandidates rs, 2 * s.length ≤ 3 * data.length := by
  intro s hs
  have hdec : ∀ r ∈ dedupRecs rs, 2 * (decodeUTF16BE r.text).length ≤ 3 * data.length := by
    intro r hr
    have h1 := decodeUTF16BE_len r.text
    have h2 := hrs r (dedupRecs_subset rs r hr)
    omega
  unfold mlucCandidates at hs
  simp only at hs
  rw [List.mem_eraseDups] at hs
  simp only [List.mem_append, List.mem_filter, List.mem_map] at hs
  cases hs with
  | inl h =>
    obtain ⟨⟨r, ⟨hr, _⟩, rfl⟩, _⟩ := h
    exact hdec r hr
  | inr h =>
    split at h
    · split at h
      · simp only [List.mem_singleton] at h; rw [h]; simp
      · simp only [List.mem_map] at h
        obtain ⟨r, hr, rfl⟩ := h
        exact hdec r hr
    · simp at h

/-- **C09 (the description accessor returns no more than it was given).** For every tag table: if `Description` succeeds, every
string it may return is at most 3/2 times as long as the `desc` tag's data — whatever counts, offsets and lengths that data
declares. -/
theorem C09_description_bounded (tags : List (Nat × List UInt8)) (cands : List (List UInt8))
    (h : description tags = .ok cands) :
    ∀ s ∈ cands, 2 * s.length ≤ 3 * (((tags.find? fun t => t.1 == sigDesc).map Prod.snd).getD []).length := by
  unfold description at h
  try simp only at h
  generalize ((tags.find? fun t => t.1 == sigDesc).map Prod.snd).getD [] = data at h ⊢
  split at h
  · cases h
  · split at h
    · -- v2 textDescription: a prefix of the tag's bytes
      cases ht : textDescription data with
      | error m => rw [ht] at h; cases h
      | ok s0 =>
        rw [ht] at h
        simp only [Except.map] at h
        cases h
        intro s hs
        simp only [List.mem_singleton] at hs
        rw [hs]
        unfold textDescription at ht
        split at ht
        · cases ht
        · rename_i sig r1 hb1
          split at ht
          · cases ht
          · split at ht
            · cases ht
            · rename_i x r2 hb2
              split at ht
              · cases ht
              · rename_i count r3 hb3
                split at ht
                · cases ht
                · cases ht
                  have l1 : r1.length ≤ data.length := by
                    unfold be32 at hb1; split at hb1 <;> cases hb1; simp only [List.length_cons]; omega
                  have l2 : r2.length ≤ r1.length := by
                    unfold be32 at hb2; split at hb2 <;> cases hb2; simp only [List.length_cons]; omega
                  have l3 : r3.length ≤ r2.length := by
                    unfold be32 at hb3; split at hb3 <;> cases hb3; simp only [List.length_cons]; omega
                  simp only [List.length_take]
                  omega
    · split at h
      · cases hm : mluc data with
        | error m => rw [hm] at h; cases h
        | ok rs =>
          rw [hm] at h
          simp only [Except.map] at h
          cases h
          refine mlucCandidates_len data rs ?_
          unfold mluc at hm
          split at hm
          · cases hm
          · split at hm
            · cases hm
            · split at hm
              · cases hm
              · split at hm
                · cases hm
                · split at hm
                  · cases hm
                  · exact mlucRecords_text_le data _ _ _ [] rs (by simp) hm
      · cases h

end Prism.Icc
