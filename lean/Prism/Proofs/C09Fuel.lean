import Prism.Proofs.C09Cost

/-!
# C09 — the fuel of the modelled loops is never what stops them

The chunk loop of `pngmeta` and the segment loop of `jpegmeta` are plain `for` loops in Go; the model gives them `fuel`
and fails with the artificial error `"model: out of fuel"` when it runs out.  Here: every iteration that goes round again
has consumed at least 8 (PNG: a chunk header) or 2 (JPEG: a marker) bytes, so with `8·fuel > |input|` (resp. `2·fuel`) the
artificial error is **never** the result — the model's loop ends because the input does, like the code's.  The driver runs
the model with `fuel = |input| + 16`.

`G p k`: a successful run of `p` leaves at most `|input| − k` bytes; a failing run's error is not the fuel error (and leaves no
more bytes than it was given).  `FR p n`: on inputs shorter than `n`, `p` does not end in the fuel error.
-/

namespace Prism
open Prog

def fuelErr : PErr := .bad "model: out of fuel"

def G {α : Type} (p : Parser α) (k : Nat) : Prop :=
  ∀ (zl : Inflate) (inp : List UInt8) (e : IOErr),
    match run3 zl p.run inp e with
    | (.ok _, rest) => rest.length + k ≤ inp.length
    | (.error err, rest) => err ≠ fuelErr ∧ rest.length ≤ inp.length

def FR {α : Type} (p : Parser α) (n : Nat) : Prop :=
  ∀ (zl : Inflate) (inp : List UInt8) (e : IOErr), inp.length < n → (run3 zl p.run inp e).1 ≠ .error fuelErr

theorem G_pure {α : Type} (a : α) : G (pure a : Parser α) 0 := by
  intro zl inp e; rw [Parser.run3_pure]; exact Nat.le_refl _

theorem G_fail {α : Type} (err : PErr) (k : Nat) (h : err ≠ fuelErr) : G (Parser.fail err : Parser α) k := by
  intro zl inp e; rw [Parser.run3_fail]; exact ⟨h, Nat.le_refl _⟩

theorem G_weaken {α : Type} {p : Parser α} {k k' : Nat} (h : G p k) (hk : k' ≤ k) : G p k' := by
  intro zl inp e
  have := h zl inp e
  cases hr : run3 zl p.run inp e with
  | mk r rest =>
    rw [hr] at this
    cases r with
    | ok a => simp only at this ⊢; omega
    | error err => exact this

theorem G_bind {α β : Type} {x : Parser α} {f : α → Parser β} {k1 k2 : Nat}
    (hx : G x k1) (hf : ∀ a, G (f a) k2) : G (x >>= f) (k1 + k2) := by
  intro zl inp e
  have h1 := hx zl inp e
  rw [Parser.run3_bind]
  cases hr : run3 zl x.run inp e with
  | mk r rest =>
    rw [hr] at h1
    cases r with
    | ok a =>
      simp only at h1 ⊢
      have h2 := hf a zl rest e
      cases hr2 : run3 zl (f a).run rest e with
      | mk r2 rest2 =>
        rw [hr2] at h2
        cases r2 with
        | ok b => simp only at h2 ⊢; omega
        | error err => simp only at h2 ⊢; exact ⟨h2.1, by omega⟩
    | error err => exact h1

theorem G_seq {α β : Type} {x : Parser α} {f : α → Parser β} {k : Nat}
    (hx : G x k) (hf : ∀ a, G (f a) 0) : G (x >>= f) 0 := G_weaken (G_bind hx hf) (Nat.zero_le _)

theorem io_ne_fuel (e : IOErr) : PErr.io e ≠ fuelErr := by intro h; cases h

theorem G_byte : G Parser.byte 1 := by
  intro zl inp e
  cases inp with
  | nil =>
    have h2 : run3 zl Parser.byte.run [] e = (.error (.io e), []) := rfl
    rw [h2]; exact ⟨io_ne_fuel e, Nat.le_refl _⟩
  | cons b rest =>
    rw [Parser.run3_byte_cons]; simp

theorem rfr_rest_le (inp : List UInt8) (e : IOErr) (n : Nat) : (readFullResult inp e n).2.length ≤ inp.length := by
  unfold readFullResult
  by_cases h : n ≤ inp.length
  · simp only [h, if_true, List.length_drop]; omega
  · simp only [h, if_false]; split <;> simp

theorem G_full (n : Nat) : G (Parser.full n) n := by
  intro zl inp e
  unfold Parser.full ExceptT.mk ExceptT.run
  simp only [run3]
  by_cases h : n ≤ inp.length
  · simp only [readFullResult, h, if_true, run3, List.length_drop]; omega
  · obtain ⟨err, herr⟩ := rfr_err inp e n h
    have hl := rfr_rest_le inp e n
    rw [herr]; simp only [run3]
    exact ⟨io_ne_fuel err, hl⟩

theorem G_bytesN (n : Nat) : G (Parser.bytesN n) n := by
  intro zl inp e
  unfold Parser.bytesN ExceptT.mk ExceptT.run
  simp only [run3]
  by_cases h : n ≤ inp.length
  · simp only [readFullResult, h, if_true, run3, List.length_drop]; omega
  · obtain ⟨err, herr⟩ := rfr_err inp e n h
    have hl := rfr_rest_le inp e n
    rw [herr]; simp only [run3]
    exact ⟨io_ne_fuel err, hl⟩

theorem G_skip : ∀ n, G (Parser.skip n) n
  | 0 => G_pure ()
  | n + 1 => by
    have e : (Parser.skip (n + 1)) = (Parser.byte >>= fun _ => Parser.skip n) := rfl
    rw [e]
    exact G_weaken (G_bind G_byte fun _ => G_skip n) (by omega)

theorem G_inflate (z : List UInt8) : G (Parser.inflate z) 0 := by
  intro zl inp e
  have hr : run3 zl (Parser.inflate z).run inp e = (.ok (zl z), inp) := rfl
  rw [hr]; exact Nat.le_refl _

/-- `mapErr` with a map that never produces the fuel error -/
theorem G_mapErr {α : Type} {p : Parser α} {k : Nat} (f : PErr → PErr) (hf : ∀ err, err ≠ fuelErr → f err ≠ fuelErr) (h : G p k) :
    G (Parser.mapErr p f) k := by
  intro zl inp e
  have h1 := h zl inp e
  have hrun : run3 zl (Parser.mapErr p f).run inp e =
      match run3 zl p.run inp e with
      | (.ok a, rest) => (.ok a, rest)
      | (.error err, rest) => (.error (f err), rest) := by
    unfold Parser.mapErr ExceptT.mk ExceptT.run
    rw [Prog.run3_bind]
    cases hh : run3 zl p inp e with
    | mk r rest => cases r <;> simp [run3]
  rw [hrun]
  cases hr : run3 zl p.run inp e with
  | mk r rest =>
    rw [hr] at h1
    cases r with
    | ok a => exact h1
    | error err => exact ⟨hf err h1.1, h1.2⟩

theorem G_attempt {α : Type} {x : Parser α} {k : Nat} (hx : G x k) : G (Parser.attempt x) 0 := by
  intro zl inp e
  have h1 := hx zl inp e
  rw [Parser.run3_attempt]
  cases hr : run3 zl x.run inp e with
  | mk r rest =>
    rw [hr] at h1
    cases r with
    | ok a => simp only at h1 ⊢; omega
    | error err => simp only at h1 ⊢; exact h1.2

theorem G_u16be : G Parser.u16be 2 := by
  unfold Parser.u16be; exact G_weaken (G_bind G_byte fun _ => G_bind G_byte fun _ => G_pure _) (by omega)
theorem G_u32be : G Parser.u32be 4 := by
  unfold Parser.u32be
  exact G_weaken (G_bind G_byte fun _ => G_bind G_byte fun _ => G_bind G_byte fun _ => G_bind G_byte fun _ => G_pure _) (by omega)

/-! ### FR -/

theorem FR_of_G {α : Type} {p : Parser α} {k : Nat} (n : Nat) (h : G p k) : FR p n := by
  intro zl inp e _
  have h1 := h zl inp e
  cases hr : run3 zl p.run inp e with
  | mk r rest =>
    rw [hr] at h1
    cases r with
    | ok a => simp
    | error err => simp only; intro hh; cases hh; exact h1.1 rfl

theorem FR_bind {α β : Type} {x : Parser α} {f : α → Parser β} {k n : Nat}
    (hx : G x k) (hf : ∀ a, FR (f a) n) : FR (x >>= f) (n + k) := by
  intro zl inp e hlen
  have h1 := hx zl inp e
  rw [Parser.run3_bind]
  cases hr : run3 zl x.run inp e with
  | mk r rest =>
    rw [hr] at h1
    cases r with
    | ok a => simp only at h1 ⊢; exact hf a zl rest e (by omega)
    | error err => simp only; intro hh; cases hh; exact h1.1 rfl

theorem FR_bind0 {α β : Type} {x : Parser α} {f : α → Parser β} {k n : Nat}
    (hx : G x k) (hf : ∀ a, FR (f a) n) : FR (x >>= f) n := by
  have := FR_bind (G_weaken hx (Nat.zero_le k)) hf
  simpa using this

/-- after a loop: a continuation that never produces the fuel error -/
theorem FR_then {α β : Type} {x : Parser α} {f : α → Parser β} {n : Nat}
    (hx : FR x n) (hf : ∀ a, G (f a) 0) : FR (x >>= f) n := by
  intro zl inp e hlen
  have h1 := hx zl inp e hlen
  rw [Parser.run3_bind]
  cases hr : run3 zl x.run inp e with
  | mk r rest =>
    rw [hr] at h1
    cases r with
    | ok a => simp only; exact FR_of_G (rest.length + 1) (hf a) zl rest e (by omega)
    | error err => simp only at h1 ⊢; intro hh; cases hh; exact h1 rfl

/-- `attempt x >>= K`: on success the `k` bytes `x` consumed shorten the input; on failure the caller passes the error on
(or stops) -/
theorem FR_attempt {α β : Type} {x : Parser α} {K : Except PErr α → Parser β} {k n : Nat}
    (hx : G x k) (hok : ∀ a, FR (K (.ok a)) n) (herr : ∀ err, err ≠ fuelErr → G (K (.error err)) 0) :
    FR (Parser.attempt x >>= K) (n + k) := by
  intro zl inp e hlen
  have h1 := hx zl inp e
  rw [Parser.run3_bind, Parser.run3_attempt]
  cases hr : run3 zl x.run inp e with
  | mk r rest =>
    rw [hr] at h1
    cases r with
    | ok a => simp only at h1 ⊢; exact hok a zl rest e (by omega)
    | error err => simp only at h1 ⊢; exact FR_of_G (rest.length + 1) (herr err h1.1) zl rest e (by omega)

/-! ### PNG -/

theorem bad_ne_fuel (m : String) (h : m ≠ "model: out of fuel") : PErr.bad m ≠ fuelErr := by
  intro hh; cases hh; exact h rfl


theorem G_png_chunkHeader : G Png.chunkHeader 8 := by
  unfold Png.chunkHeader
  refine G_weaken (G_bind G_u32be fun _ => G_bind (G_mapErr _ ?_ (G_full 4)) fun _ => G_pure _) (by omega)
  intro err h
  split
  · exact bad_ne_fuel _ (by decide)
  · exact h

theorem G_profileName : ∀ n acc, G (Png.profileName n acc) 0
  | 0, acc => G_pure acc
  | n + 1, acc => by
    have e : Png.profileName (n + 1) acc = (Parser.byte >>= fun b => if b == 0 then pure acc else Png.profileName n (acc + 1)) := rfl
    rw [e]
    refine G_seq G_byte fun b => ?_
    by_cases hb : (b == 0) = true
    · simp only [hb, if_true]; exact G_pure acc
    · simp only [hb, Bool.false_eq_true, if_false]; exact G_profileName n (acc + 1)

theorem FR_png_loop : ∀ (fuel : Nat) (st : Png.St), FR (Png.loop fuel st) (8 * fuel)
  | 0, st => by intro zl inp e h; omega
  | fuel + 1, st => by
    have ih := FR_png_loop fuel
    unfold Png.loop
    have e8 : 8 * (fuel + 1) = 8 * fuel + 8 := by omega
    rw [e8]
    refine FR_attempt G_png_chunkHeader ?_ ?_
    · rintro ⟨len, ty⟩
      simp only
      split
      · refine FR_bind0 G_u32be (fun w => FR_bind0 G_u32be (fun h => FR_bind0 G_byte (fun d => FR_bind0 (G_skip _) (fun _ => FR_bind0 G_u32be (fun _ => ?_)))))
        split
        · exact FR_of_G _ (G_pure _)
        · exact ih _
      · split
        · refine FR_bind0 (G_profileName 80 0) (fun nameLen => ?_)
          split
          · exact FR_of_G _ (G_fail _ 0 (bad_ne_fuel _ (by decide)))
          · refine FR_bind0 G_byte (fun method => ?_)
            split
            · exact FR_of_G _ (G_fail _ 0 (bad_ne_fuel _ (by decide)))
            · split
              · exact FR_of_G _ (G_fail _ 0 (bad_ne_fuel _ (by decide)))
              · refine FR_bind0 (G_mapErr _ ?_ (G_bytesN _)) (fun z => FR_bind0 G_u32be (fun _ => FR_bind0 (G_inflate z) (fun r => ?_)))
                · intro err h
                  split
                  · exact bad_ne_fuel _ (by decide)
                  · exact h
                · cases r with
                  | ok p =>
                    simp only
                    split
                    · exact FR_of_G _ (G_pure _)
                    · exact ih _
                  | error msg => exact ih _
        · split
          · exact FR_of_G _ (G_pure _)
          · exact FR_bind0 (G_skip _) (fun _ => FR_bind0 G_u32be (fun _ => ih _))
    · intro err herr
      cases err with
      | io e' => cases e' <;> first | exact G_pure _ | exact G_fail _ 0 (io_ne_fuel _)
      | bad m => exact G_fail _ 0 herr
      | panic m => exact G_fail _ 0 herr

/-- **C09 (the PNG model's fuel never runs out).** With `8·fuel > |input|`, the artificial out-of-fuel error is not the result:
the modelled chunk loop ends because the input does (or the extractor stops), for every byte string. -/
theorem C09_png_fuel_suffices (zl : Inflate) (fuel : Nat) (inp : List UInt8) (e : IOErr) (h : inp.length < 8 * fuel) :
    (run3 zl (Png.extract fuel).run inp e).1 ≠ .error fuelErr := by
  have : FR (Png.extract fuel) (8 * fuel) := by
    unfold Png.extract
    refine FR_bind0 (G_mapErr _ ?_ (G_full 8)) (fun sig => ?_)
    · intro err h
      split
      · exact bad_ne_fuel _ (by decide)
      · exact h
    · split
      · exact FR_of_G _ (G_fail _ 0 (bad_ne_fuel _ (by decide)))
      · refine FR_then (FR_png_loop fuel {}) (fun st => ?_)
        split
        · exact G_fail _ 0 (bad_ne_fuel _ (by decide))
        · exact G_pure _
  exact this zl inp e h

/-! ### JPEG -/

theorem G_makeMarker (t : Nat) : G (Jpeg.makeMarker t) 0 := by
  unfold Jpeg.makeMarker
  split
  · exact G_pure _
  · split
    · exact G_seq G_u16be fun _ => G_pure _
    · exact G_fail _ 0 (bad_ne_fuel _ (by decide))

/-- a segment is at least its two marker bytes -/
theorem G_readSegment : G Jpeg.readSegment 2 := by
  unfold Jpeg.readSegment
  have e2 : (2 : Nat) = 1 + (1 + 0) := rfl
  rw [e2]
  refine G_bind G_byte fun b => ?_
  split
  · exact G_fail _ _ (bad_ne_fuel _ (by decide))
  · refine G_bind G_byte fun t => G_seq (G_makeMarker _) fun h => ?_
    obtain ⟨ty, dl⟩ := h
    simp only
    split
    · exact G_seq (G_full _) fun _ => G_pure _
    · exact G_pure _

theorem FR_jpeg_loop : ∀ (fuel : Nat) (st : Jpeg.St), FR (Jpeg.loop fuel st) (2 * fuel)
  | 0, st => by intro zl inp e h; omega
  | fuel + 1, st => by
    have ih := FR_jpeg_loop fuel
    unfold Jpeg.loop
    have e2 : 2 * (fuel + 1) = 2 * fuel + 2 := by omega
    rw [e2]
    refine FR_attempt G_readSegment ?_ ?_
    · rintro ⟨ty, d⟩
      simp only
      split
      · split
        · split
          · exact FR_of_G _ (G_pure _)
          · exact ih _
        · exact FR_of_G _ (G_pure _)
      · split
        · exact FR_of_G _ (G_pure _)
        · split
          · split
            · exact ih _
            · split
              · exact ih _
              · split
                · exact ih _
                · split
                  · exact FR_of_G _ (G_pure _)
                  · exact ih _
          · exact ih _
    · intro err herr
      cases err with
      | io e' => cases e' <;> first | exact G_fail _ 0 (bad_ne_fuel _ (by decide)) | exact G_fail _ 0 (io_ne_fuel _)
      | bad m => exact G_fail _ 0 herr
      | panic m => exact G_fail _ 0 herr

theorem finish_ne_fuel (st : Jpeg.St) (err : PErr) (h : Jpeg.finish st = .error err) : err ≠ fuelErr := by
  unfold Jpeg.finish at h
  split at h
  · cases h; exact bad_ne_fuel _ (by decide)
  · split at h
    · cases h
    · simp only at h
      split at h <;> cases h

/-- **C09 (the JPEG model's fuel never runs out).** With `2·fuel > |input|` the artificial out-of-fuel error is not the result. -/
theorem C09_jpeg_fuel_suffices (zl : Inflate) (fuel : Nat) (inp : List UInt8) (e : IOErr) (h : inp.length < 2 * fuel) :
    (run3 zl (Jpeg.extract fuel).run inp e).1 ≠ .error fuelErr := by
  have : FR (Jpeg.extract fuel) (2 * fuel) := by
    unfold Jpeg.extract
    refine FR_bind0 G_readSegment (fun hh => ?_)
    obtain ⟨ty, d⟩ := hh
    simp only
    split
    · exact FR_of_G _ (G_fail _ 0 (bad_ne_fuel _ (by decide)))
    · refine FR_then (FR_jpeg_loop fuel {}) (fun out => ?_)
      cases out with
      | panicked st msg => exact G_fail _ 0 (by intro hh; cases hh)
      | done st =>
        simp only
        cases hf : Jpeg.finish st with
        | ok md => exact G_pure _
        | error err => exact G_fail _ 0 (finish_ne_fuel st err hf)
  exact this zl inp e h

/-- the driver's choice `fuel = |input| + 16` is enough for both loops -/
theorem C09_driver_fuel_suffices (zl : Inflate) (inp : List UInt8) (e : IOErr) :
    (run3 zl (Png.extract (inp.length + 16)).run inp e).1 ≠ .error fuelErr ∧
    (run3 zl (Jpeg.extract (inp.length + 16)).run inp e).1 ≠ .error fuelErr :=
  ⟨C09_png_fuel_suffices zl _ inp e (by omega), C09_jpeg_fuel_suffices zl _ inp e (by omega)⟩

end Prism
