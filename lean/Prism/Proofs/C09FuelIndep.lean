import Prism.Proofs.C09Fuel

/-!
# C09 — with enough fuel, the modelled extractors do not depend on the fuel

`Agree p q n`: on every input shorter than `n`, `p` and `q` have the same outcome and leave the same rest.  By induction over
the loops (the same traversal as `FR_png_loop`, with two fuels): any two fuels `f₁, f₂` with `8·min f₁ f₂ > |input|` (PNG) or
`2·min f₁ f₂ > |input|` (JPEG) give the same result.  So `Png.extract` / `Jpeg.extract` define one function of the input — the
meaning of the Go `for` loop — and `fuel` is only the termination argument.
-/

namespace Prism
open Prog

def Agree {α : Type} (p q : Parser α) (n : Nat) : Prop :=
  ∀ (zl : Inflate) (inp : List UInt8) (e : IOErr), inp.length < n → run3 zl p.run inp e = run3 zl q.run inp e

theorem Agree_refl {α : Type} (p : Parser α) (n : Nat) : Agree p p n := fun _ _ _ _ => rfl

theorem Agree_bind {α β : Type} {x : Parser α} {f g : α → Parser β} {k n : Nat}
    (hx : G x k) (hf : ∀ a, Agree (f a) (g a) n) : Agree (x >>= f) (x >>= g) (n + k) := by
  intro zl inp e hlen
  have h1 := hx zl inp e
  rw [Parser.run3_bind, Parser.run3_bind]
  cases hr : run3 zl x.run inp e with
  | mk r rest =>
    rw [hr] at h1
    cases r with
    | ok a => simp only at h1 ⊢; exact hf a zl rest e (by omega)
    | error err => rfl

theorem Agree_bind0 {α β : Type} {x : Parser α} {f g : α → Parser β} {k n : Nat}
    (hx : G x k) (hf : ∀ a, Agree (f a) (g a) n) : Agree (x >>= f) (x >>= g) n := by
  have := Agree_bind (G_weaken hx (Nat.zero_le k)) hf
  simpa using this

theorem Agree_then {α β : Type} {x y : Parser α} {f : α → Parser β} {n : Nat}
    (hxy : Agree x y n) : Agree (x >>= f) (y >>= f) n := by
  intro zl inp e hlen
  rw [Parser.run3_bind, Parser.run3_bind, hxy zl inp e hlen]

theorem Agree_attempt {α β : Type} {x : Parser α} {K K' : Except PErr α → Parser β} {k n : Nat}
    (hx : G x k) (hok : ∀ a, Agree (K (.ok a)) (K' (.ok a)) n) (herr : ∀ err, K (.error err) = K' (.error err)) :
    Agree (Parser.attempt x >>= K) (Parser.attempt x >>= K') (n + k) := by
  intro zl inp e hlen
  have h1 := hx zl inp e
  rw [Parser.run3_bind, Parser.run3_bind, Parser.run3_attempt]
  cases hr : run3 zl x.run inp e with
  | mk r rest =>
    rw [hr] at h1
    cases r with
    | ok a => simp only at h1 ⊢; exact hok a zl rest e (by omega)
    | error err => simp only; rw [herr err]

theorem Agree_png_loop : ∀ (f1 f2 : Nat) (st : Png.St), Agree (Png.loop f1 st) (Png.loop f2 st) (8 * min f1 f2)
  | 0, _, st => by intro zl inp e h; simp at h
  | _ + 1, 0, st => by intro zl inp e h; simp at h
  | f1 + 1, f2 + 1, st => by
    have ih := Agree_png_loop f1 f2
    have e8 : 8 * min (f1 + 1) (f2 + 1) = 8 * min f1 f2 + 8 := by omega
    rw [e8]
    unfold Png.loop
    refine Agree_attempt G_png_chunkHeader ?_ ?_
    · rintro ⟨len, ty⟩
      simp only
      split
      · refine Agree_bind0 G_u32be (fun w => Agree_bind0 G_u32be (fun h => Agree_bind0 G_byte (fun d => Agree_bind0 (G_skip _) (fun _ => Agree_bind0 G_u32be (fun _ => ?_)))))
        split
        · exact Agree_refl _ _
        · exact ih _
      · split
        · refine Agree_bind0 (G_profileName 80 0) (fun nameLen => ?_)
          split
          · exact Agree_refl _ _
          · refine Agree_bind0 G_byte (fun method => ?_)
            split
            · exact Agree_refl _ _
            · split
              · exact Agree_refl _ _
              · refine Agree_bind0 (G_mapErr _ ?_ (G_bytesN _)) (fun z => Agree_bind0 G_u32be (fun _ => Agree_bind0 (G_inflate z) (fun r => ?_)))
                · intro err h
                  split
                  · exact bad_ne_fuel _ (by decide)
                  · exact h
                · cases r with
                  | ok p =>
                    simp only
                    split
                    · exact Agree_refl _ _
                    · exact ih _
                  | error msg => exact ih _
        · split
          · exact Agree_refl _ _
          · exact Agree_bind0 (G_skip _) (fun _ => Agree_bind0 G_u32be (fun _ => ih _))
    · intro err
      cases err with
      | io e' => cases e' <;> rfl
      | bad m => rfl
      | panic m => rfl

/-- **C09 (the PNG model is one function of the input).** Any two fuels that are both large enough give the same outcome. -/
theorem C09_png_fuel_irrelevant (zl : Inflate) (f1 f2 : Nat) (inp : List UInt8) (e : IOErr)
    (h1 : inp.length < 8 * f1) (h2 : inp.length < 8 * f2) :
    (run3 zl (Png.extract f1).run inp e).1 = (run3 zl (Png.extract f2).run inp e).1 := by
  have : Agree (Png.extract f1) (Png.extract f2) (8 * min f1 f2) := by
    unfold Png.extract
    refine Agree_bind0 (G_mapErr _ ?_ (G_full 8)) (fun sig => ?_)
    · intro err h
      split
      · exact bad_ne_fuel _ (by decide)
      · exact h
    · split
      · exact Agree_refl _ _
      · exact Agree_then (Agree_png_loop f1 f2 {})
  rw [this zl inp e (by omega)]

theorem Agree_jpeg_loop : ∀ (f1 f2 : Nat) (st : Jpeg.St), Agree (Jpeg.loop f1 st) (Jpeg.loop f2 st) (2 * min f1 f2)
  | 0, _, st => by intro zl inp e h; simp at h
  | _ + 1, 0, st => by intro zl inp e h; simp at h
  | f1 + 1, f2 + 1, st => by
    have ih := Agree_jpeg_loop f1 f2
    have e2 : 2 * min (f1 + 1) (f2 + 1) = 2 * min f1 f2 + 2 := by omega
    rw [e2]
    unfold Jpeg.loop
    refine Agree_attempt G_readSegment ?_ ?_
    · rintro ⟨ty, d⟩
      simp only
      split
      · split
        · split
          · exact Agree_refl _ _
          · exact ih _
        · exact Agree_refl _ _
      · split
        · exact Agree_refl _ _
        · split
          · split
            · exact ih _
            · split
              · exact ih _
              · split
                · exact ih _
                · split
                  · exact Agree_refl _ _
                  · exact ih _
          · exact ih _
    · intro err
      cases err with
      | io e' => cases e' <;> rfl
      | bad m => rfl
      | panic m => rfl

/-- **C09 (the JPEG model is one function of the input).** -/
theorem C09_jpeg_fuel_irrelevant (zl : Inflate) (f1 f2 : Nat) (inp : List UInt8) (e : IOErr)
    (h1 : inp.length < 2 * f1) (h2 : inp.length < 2 * f2) :
    (run3 zl (Jpeg.extract f1).run inp e).1 = (run3 zl (Jpeg.extract f2).run inp e).1 := by
  have : Agree (Jpeg.extract f1) (Jpeg.extract f2) (2 * min f1 f2) := by
    unfold Jpeg.extract
    refine Agree_bind0 G_readSegment (fun hh => ?_)
    obtain ⟨ty, d⟩ := hh
    simp only
    split
    · exact Agree_refl _ _
    · exact Agree_then (Agree_jpeg_loop f1 f2 {})
  rw [this zl inp e (by omega)]

end Prism
