import Prism.Model.Image

/-!
# C10 — image linearise/encode is the per-pixel function, everywhere and only there

`transform d f steps` folds the per-pixel steps in the order given.  A schedule of `n` worker
goroutines is some interleaving of the rows' steps, i.e. some permutation of the step list.
-/

namespace Prism.Img

theorem writeBytes_size (a : Array UInt8) (off : Nat) (bs : List UInt8) : (writeBytes a off bs).size = a.size := by
  induction bs generalizing a off with
  | nil => rfl
  | cons b bs ih => simp [writeBytes, ih]

/-- what a store holds after writing `bs` at `off`: the new bytes inside the footprint (as far as
the store reaches), the old ones outside -/
theorem writeBytes_get (a : Array UInt8) (off : Nat) (bs : List UInt8) (j : Nat) :
    (writeBytes a off bs)[j]? =
      if off ≤ j ∧ j < off + bs.length ∧ j < a.size then bs[j - off]? else a[j]? := by
  induction bs generalizing a off with
  | nil =>
    simp only [writeBytes, List.length_nil, Nat.add_zero]
    rw [if_neg (by omega)]
  | cons b bs ih =>
    simp only [writeBytes, List.length_cons]
    rw [ih]
    simp only [Array.size_setIfInBounds]
    by_cases h1 : off + 1 ≤ j ∧ j < off + 1 + bs.length ∧ j < a.size
    · rw [if_pos h1, if_pos (by omega)]
      have : j - off = (j - (off + 1)) + 1 := by omega
      rw [this, List.getElem?_cons_succ]
    · rw [if_neg h1]
      by_cases h2 : off = j
      · subst h2
        by_cases h3 : off < a.size
        · rw [if_pos ⟨Nat.le_refl _, by omega, h3⟩]
          simp [Array.getElem?_setIfInBounds, h3]
        · rw [if_neg (fun h => h3 h.2.2)]
          rw [Array.getElem?_eq_none (by simp; omega), Array.getElem?_eq_none (by omega)]
      · rw [Array.getElem?_setIfInBounds_ne h2]
        rw [if_neg (by omega)]

/-- two stores of equal size that agree at every index are equal -/
theorem array_ext_get? (a b : Array UInt8) (h : ∀ j : Nat, a[j]? = b[j]?) : a = b := by
  apply Array.ext'
  apply List.ext_getElem?
  intro j
  have := h j
  simpa using this

/-- writes with disjoint footprints commute -/
theorem writeBytes_comm (a : Array UInt8) (o1 o2 : Nat) (b1 b2 : List UInt8)
    (hd : o1 + b1.length ≤ o2 ∨ o2 + b2.length ≤ o1) :
    writeBytes (writeBytes a o1 b1) o2 b2 = writeBytes (writeBytes a o2 b2) o1 b1 := by
  apply array_ext_get?
  intro j
  simp only [writeBytes_get, writeBytes_size]
  by_cases h1 : o1 ≤ j ∧ j < o1 + b1.length ∧ j < a.size <;>
  by_cases h2 : o2 ≤ j ∧ j < o2 + b2.length ∧ j < a.size
  · exfalso; omega
  · rw [if_neg h2, if_pos h1, if_pos h1]
  · rw [if_pos h2, if_neg h1, if_pos h2]
  · rw [if_neg h2, if_neg h1, if_neg h1, if_neg h2]

/-- the byte footprint `[lo, hi)` of destination pixel `(dx, dy)` -/
def footLo (k : Kind) (stride start : Nat) (p : Nat × Nat × Px) : Nat := start + p.2.1 * stride + p.1 * k.bpp
theorem pixelBytes_length (k : Kind) (c : Px) : (pixelBytes k c).length = k.bpp := by
  cases k <;> rfl

/-- footprints of two steps are disjoint -/
def Disjoint (k : Kind) (stride start : Nat) (p q : Nat × Nat × Px) : Prop :=
  footLo k stride start p + k.bpp ≤ footLo k stride start q ∨ footLo k stride start q + k.bpp ≤ footLo k stride start p

theorem step_comm (k : Kind) (stride start : Nat) (f : Px → Px) (pix : Array UInt8) (p q : Nat × Nat × Px)
    (h : Disjoint k stride start p q) :
    step k stride start f (step k stride start f pix p) q = step k stride start f (step k stride start f pix q) p := by
  unfold step
  apply writeBytes_comm
  simp only [pixelBytes_length]
  exact h

/-- **C10 (geometry).** Distinct pixels of a `w`-wide image have disjoint footprints whenever the
stride is at least `w · bpp` (sub-images with stride > width included). -/
theorem footprints_disjoint (k : Kind) (stride start w : Nat) (hs : w * k.bpp ≤ stride)
    (p q : Nat × Nat × Px) (hp : p.1 < w) (hq : q.1 < w) (hne : (p.1, p.2.1) ≠ (q.1, q.2.1)) :
    Disjoint k stride start p q := by
  unfold Disjoint footLo
  have hb : 0 < k.bpp := by cases k <;> decide
  obtain ⟨px, py, pc⟩ := p
  obtain ⟨qx, qy, qc⟩ := q
  simp only at hp hq hne ⊢
  have hpx : px * k.bpp + k.bpp ≤ w * k.bpp := by
    have : (px + 1) * k.bpp ≤ w * k.bpp := Nat.mul_le_mul_right _ hp
    rw [Nat.add_mul, Nat.one_mul] at this; exact this
  have hqx : qx * k.bpp + k.bpp ≤ w * k.bpp := by
    have : (qx + 1) * k.bpp ≤ w * k.bpp := Nat.mul_le_mul_right _ hq
    rw [Nat.add_mul, Nat.one_mul] at this; exact this
  rcases Nat.lt_trichotomy py qy with hlt | heq | hgt
  · left
    have : (py + 1) * stride ≤ qy * stride := Nat.mul_le_mul_right _ hlt
    rw [Nat.add_mul, Nat.one_mul] at this
    omega
  · subst heq
    have hx : px ≠ qx := fun h => hne (by rw [h])
    rcases Nat.lt_or_gt_of_ne hx with h | h
    · left
      have : (px + 1) * k.bpp ≤ qx * k.bpp := Nat.mul_le_mul_right _ h
      rw [Nat.add_mul, Nat.one_mul] at this
      omega
    · right
      have : (qx + 1) * k.bpp ≤ px * k.bpp := Nat.mul_le_mul_right _ h
      rw [Nat.add_mul, Nat.one_mul] at this
      omega
  · right
    have : (qy + 1) * stride ≤ py * stride := Nat.mul_le_mul_right _ hgt
    rw [Nat.add_mul, Nat.one_mul] at this
    omega

/-- **C10 (schedule independence).** Any two orders of the same steps — any interleaving of any
number of workers, any parallelism — give the same destination store, provided distinct steps
have disjoint footprints. -/
theorem C10_order_independent (d : Dst) (f : Px → Px) (s1 s2 : List (Nat × Nat × Px)) (hperm : s1.Perm s2)
    (hdis : ∀ p ∈ s1, ∀ q ∈ s1, p ≠ q → Disjoint d.kind d.stride d.start p q) :
    transform d f s1 = transform d f s2 := by
  unfold transform
  apply List.Perm.foldl_eq' hperm
  intro p hp q hq z
  by_cases h : p = q
  · subst h; rfl
  · exact step_comm d.kind d.stride d.start f z p q (hdis p hp q hq h)

/-- a fold of steps leaves index `j` alone when no step's footprint contains it -/
theorem transform_frame (k : Kind) (stride start : Nat) (f : Px → Px) (steps : List (Nat × Nat × Px)) :
    ∀ (pix : Array UInt8) (j : Nat),
    (∀ p ∈ steps, ¬ (footLo k stride start p ≤ j ∧ j < footLo k stride start p + k.bpp)) →
    (steps.foldl (step k stride start f) pix)[j]? = pix[j]? := by
  induction steps with
  | nil => intro pix j _; rfl
  | cons p ps ih =>
    intro pix j h
    simp only [List.foldl_cons]
    rw [ih _ j (fun q hq => h q (List.mem_cons_of_mem _ hq))]
    unfold step
    rw [writeBytes_get, pixelBytes_length]
    have := h p (List.mem_cons_self)
    unfold footLo at this
    rw [if_neg (by omega)]

/-- **C10 (frame).** Every byte of the destination store (parent bytes outside a sub-image
included) that lies in no source pixel's footprint is untouched. -/
theorem C10_frame (d : Dst) (f : Px → Px) (steps : List (Nat × Nat × Px)) (j : Nat)
    (h : ∀ p ∈ steps, ¬ (footLo d.kind d.stride d.start p ≤ j ∧ j < footLo d.kind d.stride d.start p + d.kind.bpp)) :
    (transform d f steps)[j]? = d.pix[j]? :=
  transform_frame d.kind d.stride d.start f steps d.pix j h

/-- **C10 (pointwise).** After the transform, the footprint of each step's destination pixel
holds the destination format's bytes of `f (source pixel)` — the per-colour function applied
to the source pixel, converted by the destination's colour model. -/
theorem C10_pointwise (d : Dst) (f : Px → Px) (steps : List (Nat × Nat × Px))
    (hdis : steps.Pairwise (Disjoint d.kind d.stride d.start)) (p : Nat × Nat × Px) (hp : p ∈ steps)
    (i : Nat) (hi : i < d.kind.bpp) (hin : footLo d.kind d.stride d.start p + i < d.pix.size) :
    (transform d f steps)[footLo d.kind d.stride d.start p + i]? = (pixelBytes d.kind (f p.2.2))[i]? := by
  unfold transform
  generalize d.pix = pix at hin
  induction steps generalizing pix with
  | nil => simp at hp
  | cons q qs ih =>
    simp only [List.foldl_cons]
    rw [List.pairwise_cons] at hdis
    rcases List.mem_cons.mp hp with heq | hmem
    · subst heq
      -- no later step touches p's footprint
      rw [transform_frame d.kind d.stride d.start f qs _ _ (by
        intro r hr
        have := hdis.1 r hr
        unfold Disjoint at this
        omega)]
      unfold step
      rw [writeBytes_get, pixelBytes_length]
      unfold footLo at hin ⊢
      rw [if_pos (by omega)]
      congr 1; omega
    · exact ih hdis.2 hmem _ (by unfold step; rw [writeBytes_size]; exact hin)

/-- **C10 (row striping).** Row `y` is handled by worker `k` iff `y < h` and `k = y mod n`: so for
every `n ≥ 1` (also `n > h`) every row of the source is handled by exactly one of the workers
`0 … n−1`, and no worker handles a row outside the source. -/
theorem C10_rows_partition (n h k y : Nat) : y ∈ workerRows n h k ↔ y < h ∧ y % n = k := by
  unfold workerRows
  simp [List.mem_filter, List.mem_range]

theorem C10_row_has_worker (n h y : Nat) (hn : 0 < n) (hy : y < h) :
    y % n < n ∧ y ∈ workerRows n h (y % n) :=
  ⟨Nat.mod_lt _ hn, (C10_rows_partition n h (y % n) y).mpr ⟨hy, rfl⟩⟩

theorem C10_worker_rows_nodup (n h k : Nat) : (workerRows n h k).Nodup := by
  unfold workerRows
  exact List.Nodup.sublist List.filter_sublist List.nodup_range

/-- non-vacuity: a 2×2 RGBA destination inside a parent with a wider stride; the two pixels of
row 0 have disjoint footprints -/
example : Disjoint .rgba 12 4 (0, 0, default) (1, 0, default) :=
  footprints_disjoint .rgba 12 4 2 (by decide) _ _ (by decide) (by decide) (by decide)

end Prism.Img
