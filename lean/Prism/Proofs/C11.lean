import Prism.Model.Race
import Prism.Gen.Access

/-!
# C11 — safe for concurrent use, including the very first use (partial)

* `C11_summary_ok`: the access summary regenerated from the source is of the accepted shape
  (kernel-evaluated; a new unsynchronised global or a re-introduced fast path changes
  `Prism/Gen/Access.lean` and this fails).
* `C11_guarded_reads_ordered`: for every number of goroutines and every schedule, in the guarded
  protocol every read of the lazily initialised variable happens after the initialising write,
  through the `sync.Once` synchronisation edge.
* `C11_fastpath_race`: the nil-check fast-path protocol has an execution with a data race.

Partial: the memory-model fragment (`Prism/Model/Race.lean`) and the extractor are trusted; the
torn read of a slice header that the race can cause is a runtime behaviour the model names but
cannot exhibit.
-/

namespace Prism.Race

theorem C11_summary_ok : summaryOk Gen.accesses = true := by decide +kernel

theorem C11_no_shared_writes_in_workers : Gen.workerCapturedWrites = [] := by decide

/-- strengthened invariant of the guarded protocol -/
structure Inv2 (s : St) : Prop where
  wroteHas : ∀ g : Nat, s.pcs[g]? = some PC.wrote → ∃ pre post, s.trace = pre ++ [Ev.initWrite g] ++ post
  complHas : s.completed = true → ∃ pre post w, s.trace = pre ++ [Ev.initWrite w] ++ post
  retOrd : ∀ g : Nat, (s.pcs[g]? = some PC.returned ∨ s.pcs[g]? = some PC.done) → ordered s.trace g
  readDone : ∀ g : Nat, Ev.read g ∈ s.trace → s.pcs[g]? = some PC.done

theorem ordered_append {t : List Ev} {g : Nat} (h : ordered t g) (e : List Ev) : ordered (t ++ e) g := by
  obtain ⟨pre, mid, post, w, ht⟩ := h
  exact ⟨pre, mid, post ++ e, w, by rw [ht]; simp [List.append_assoc]⟩

theorem inv2_init (n : Nat) : Inv2 (St.init n) := by
  constructor
  · intro g h
    simp only [St.init, List.getElem?_replicate] at h
    split at h <;> simp at h
  · intro h; simp [St.init] at h
  · intro g h
    simp only [St.init, List.getElem?_replicate] at h
    rcases h with h | h <;> (split at h <;> simp at h)
  · intro g h; simp [St.init] at h

theorem getElem?_setPC (pcs : List PC) (g g' : Nat) (pc : PC) :
    (setPC pcs g pc)[g']? = if g = g' then (if g < pcs.length then some pc else none) else pcs[g']? := by
  unfold setPC
  rw [List.getElem?_set]

theorem inv2_step (s s' : St) (g : Nat) (hi : Inv2 s) (hs : step s g = some s') : Inv2 s' := by
  unfold step at hs
  split at hs
  · simp at hs
  · -- start
    rename_i hpc
    have hlt : g < s.pcs.length := by
      have := List.getElem?_eq_some_iff.mp hpc; exact this.1
    split at hs
    · -- completed: doReturn
      rename_i hc
      simp only [Option.some.injEq] at hs; subst hs
      constructor
      · intro g' h
        simp only [getElem?_setPC] at h
        split at h
        · simp [hlt] at h
        · obtain ⟨pre, post, ht⟩ := hi.wroteHas g' h
          exact ⟨pre, post ++ [Ev.doReturn g], by simp [ht, List.append_assoc]⟩
      · intro _
        obtain ⟨pre, post, w, ht⟩ := hi.complHas hc
        exact ⟨pre, post ++ [Ev.doReturn g], w, by simp [ht, List.append_assoc]⟩
      · intro g' h
        simp only [getElem?_setPC] at h
        by_cases hg : g = g'
        · subst hg
          obtain ⟨pre, post, w, ht⟩ := hi.complHas hc
          exact ⟨pre, post, [], w, by simp [ht, List.append_assoc]⟩
        · simp only [hg, if_false] at h
          exact ordered_append (hi.retOrd g' h) _
      · intro g' h
        simp only [List.mem_append, List.mem_singleton] at h
        rcases h with h | h
        · have := hi.readDone g' h
          simp only [getElem?_setPC]
          by_cases hg : g = g'
          · subst hg; rw [hpc] at this; simp at this
          · simp [hg, this]
        · simp at h
    · split at hs
      · simp at hs
      · -- enter init
        simp only [Option.some.injEq] at hs; subst hs
        constructor
        · intro g' h
          simp only [getElem?_setPC] at h
          split at h
          · simp [hlt] at h
          · obtain ⟨pre, post, ht⟩ := hi.wroteHas g' h
            exact ⟨pre, post ++ [Ev.doEnter g], by simp [ht, List.append_assoc]⟩
        · intro hc
          obtain ⟨pre, post, w, ht⟩ := hi.complHas hc
          exact ⟨pre, post ++ [Ev.doEnter g], w, by simp [ht, List.append_assoc]⟩
        · intro g' h
          simp only [getElem?_setPC] at h
          by_cases hg : g = g'
          · subst hg; simp [hlt] at h
          · simp only [hg, if_false] at h
            exact ordered_append (hi.retOrd g' h) _
        · intro g' h
          simp only [List.mem_append, List.mem_singleton] at h
          rcases h with h | h
          · have := hi.readDone g' h
            simp only [getElem?_setPC]
            by_cases hg : g = g'
            · subst hg; rw [hpc] at this; simp at this
            · simp [hg, this]
          · simp at h
  · -- inInit: the write
    rename_i hpc
    have hlt : g < s.pcs.length := (List.getElem?_eq_some_iff.mp hpc).1
    simp only [Option.some.injEq] at hs; subst hs
    constructor
    · intro g' h
      simp only [getElem?_setPC] at h
      by_cases hg : g = g'
      · subst hg; exact ⟨s.trace, [], by simp⟩
      · simp only [hg, if_false] at h
        obtain ⟨pre, post, ht⟩ := hi.wroteHas g' h
        exact ⟨pre, post ++ [Ev.initWrite g], by simp [ht, List.append_assoc]⟩
    · intro hc
      obtain ⟨pre, post, w, ht⟩ := hi.complHas hc
      exact ⟨pre, post ++ [Ev.initWrite g], w, by simp [ht, List.append_assoc]⟩
    · intro g' h
      simp only [getElem?_setPC] at h
      by_cases hg : g = g'
      · subst hg; simp [hlt] at h
      · simp only [hg, if_false] at h
        exact ordered_append (hi.retOrd g' h) _
    · intro g' h
      simp only [List.mem_append, List.mem_singleton] at h
      rcases h with h | h
      · have := hi.readDone g' h
        simp only [getElem?_setPC]
        by_cases hg : g = g'
        · subst hg; rw [hpc] at this; simp at this
        · simp [hg, this]
      · simp at h
  · -- wrote: f completes, Do returns
    rename_i hpc
    have hlt : g < s.pcs.length := (List.getElem?_eq_some_iff.mp hpc).1
    simp only [Option.some.injEq] at hs; subst hs
    obtain ⟨pre0, post0, ht0⟩ := hi.wroteHas g hpc
    constructor
    · intro g' h
      simp only [getElem?_setPC] at h
      by_cases hg : g = g'
      · subst hg; simp [hlt] at h
      · simp only [hg, if_false] at h
        obtain ⟨pre, post, ht⟩ := hi.wroteHas g' h
        exact ⟨pre, post ++ [Ev.doReturn g], by simp [ht, List.append_assoc]⟩
    · intro _
      exact ⟨pre0, post0 ++ [Ev.doReturn g], g, by simp [ht0, List.append_assoc]⟩
    · intro g' h
      simp only [getElem?_setPC] at h
      by_cases hg : g = g'
      · subst hg
        exact ⟨pre0, post0, [], g, by simp [ht0, List.append_assoc]⟩
      · simp only [hg, if_false] at h
        exact ordered_append (hi.retOrd g' h) _
    · intro g' h
      simp only [List.mem_append, List.mem_singleton] at h
      rcases h with h | h
      · have := hi.readDone g' h
        simp only [getElem?_setPC]
        by_cases hg : g = g'
        · subst hg; rw [hpc] at this; simp at this
        · simp [hg, this]
      · simp at h
  · -- returned: the read
    rename_i hpc
    have hlt : g < s.pcs.length := (List.getElem?_eq_some_iff.mp hpc).1
    simp only [Option.some.injEq] at hs; subst hs
    constructor
    · intro g' h
      simp only [getElem?_setPC] at h
      by_cases hg : g = g'
      · subst hg; simp [hlt] at h
      · simp only [hg, if_false] at h
        obtain ⟨pre, post, ht⟩ := hi.wroteHas g' h
        exact ⟨pre, post ++ [Ev.read g], by simp [ht, List.append_assoc]⟩
    · intro hc
      obtain ⟨pre, post, w, ht⟩ := hi.complHas hc
      exact ⟨pre, post ++ [Ev.read g], w, by simp [ht, List.append_assoc]⟩
    · intro g' h
      simp only [getElem?_setPC] at h
      by_cases hg : g = g'
      · subst hg
        exact ordered_append (hi.retOrd g (Or.inl hpc)) _
      · simp only [hg, if_false] at h
        exact ordered_append (hi.retOrd g' h) _
    · intro g' h
      simp only [List.mem_append, List.mem_singleton] at h
      simp only [getElem?_setPC]
      rcases h with h | h
      · have := hi.readDone g' h
        by_cases hg : g = g'
        · subst hg; rw [hpc] at this; simp at this
        · simp [hg, this]
      · have : g' = g := by simpa using h
        subst this; simp [hlt]
  · simp at hs

theorem inv2_run (sched : List Nat) : ∀ s, Inv2 s → Inv2 (run s sched) := by
  induction sched with
  | nil => intro s h; exact h
  | cons g gs ih =>
    intro s h
    unfold run
    split
    · rename_i s' hs
      exact ih s' (inv2_step s s' g h hs)
    · exact ih s h

/-- **C11 (guarded protocol).** For any number of goroutines and any schedule, every read of the
lazily initialised variable is ordered after the initialising write by the Once's
synchronisation edge: no execution has a data race on it. -/
theorem C11_guarded_reads_ordered (n : Nat) (sched : List Nat) (g : Nat)
    (h : Ev.read g ∈ (run (St.init n) sched).trace) : ordered (run (St.init n) sched).trace g := by
  have hi := inv2_run sched (St.init n) (inv2_init n)
  exact hi.retOrd g (Or.inr (hi.readDone g h))

/-- non-vacuity: with 3 goroutines and a schedule that lets all of them finish, all three read -/
example : (run (St.init 3) [1, 0, 2, 1, 1, 0, 0, 2, 2, 1, 0, 2]).trace.filter (fun e => match e with | .read _ => true | _ => false)
    = [Ev.read 0, Ev.read 2, Ev.read 1] := by decide

/-- **C11 (fast-path variant is racy).** Two goroutines, first use: goroutine 1's unsynchronised
nil check runs right after goroutine 0's initialising write, with no synchronisation between
them — the data race `go test -race` reports on the code before the repair. -/
theorem C11_fastpath_race : racyPair (runB (StB.init 2) [0, 0, 0, 1]).trace = true := by decide

end Prism.Race
