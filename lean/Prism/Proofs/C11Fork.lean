import Prism.Model.ForkJoin
import Prism.Gen.Concurrency

/-!
# C11 — the fork/join of the image transforms: `RunWorkers` returns only after every worker's writes

For every number of workers and **every schedule**: when `RunWorkers` has returned, each worker's work is in the trace
before the return (`C11_forkjoin_all_work_before_return`) — `Wait` is passed only at counter zero, the counter is the number
of workers that are not done (an invariant of every reachable state), and a done worker has worked.  With the per-pixel
disjointness of C10 this is the happens-before edge that makes the caller's reads of the destination race-free.
The variant with `Add` inside the goroutine has a schedule that returns before any work (`C11_add_inside_goroutine_returns_early`).

The tie to the code is `C11_concurrency_surface`: regenerated from the source on every run (go/ast), the library's own
non-test code contains no `go` statement, no channel operation and no `sync` primitive other than `sync.Once`; it reaches
goroutines only through `parallel.RunWorkers`, and that function (in the dependency go.mod pins) has the modelled shape.
-/

namespace Prism.ForkJoin

theorem filter_set_len (p : Nat → Bool) : ∀ (l : List Nat) (i a b : Nat), l[i]? = some a →
    ((l.set i b).filter p).length + (if p a then 1 else 0) = (l.filter p).length + (if p b then 1 else 0)
  | [], i, a, b, h => by simp at h
  | x :: xs, 0, a, b, h => by
    simp only [List.getElem?_cons_zero, Option.some.injEq] at h
    subst h
    simp only [List.set_cons_zero, List.filter_cons]
    by_cases hx : p x <;> by_cases hb : p b <;> simp [hx, hb]
  | x :: xs, i + 1, a, b, h => by
    simp only [List.getElem?_cons_succ] at h
    have ih := filter_set_len p xs i a b h
    simp only [List.set_cons_succ, List.filter_cons]
    by_cases hx : p x <;> simp [hx] <;> omega

def rem (l : List Nat) : Nat := (l.filter (· != 3)).length

theorem rem_set_same (l : List Nat) (i a b : Nat) (h : l[i]? = some a) (ha : a ≠ 3) (hb : b ≠ 3) : rem (l.set i b) = rem l := by
  have := filter_set_len (· != 3) l i a b h
  simp only [bne_iff_ne, ne_eq, ha, hb, not_false_eq_true, if_true] at this
  unfold rem; omega

theorem rem_set_done (l : List Nat) (i a : Nat) (h : l[i]? = some a) (ha : a ≠ 3) : rem (l.set i 3) + 1 = rem l := by
  have := filter_set_len (· != 3) l i a 3 h
  simp only [bne_iff_ne, ne_eq, ha, not_false_eq_true, if_true, not_true_eq_false, if_false] at this
  unfold rem; omega

theorem rem_zero_all (l : List Nat) (h : rem l = 0) : ∀ (i v : Nat), l[i]? = some v → v = 3 := by
  intro i v hv
  unfold rem at h
  have hnil : l.filter (· != 3) = [] := List.eq_nil_of_length_eq_zero h
  rw [List.filter_eq_nil_iff] at hnil
  have hm : v ∈ l := List.mem_of_getElem? hv
  have := hnil v hm
  simpa using this

theorem rem_all_zero (l : List Nat) (h : ∀ x ∈ l, x = 0) : rem l = l.length := by
  unfold rem
  rw [List.filter_eq_self.mpr]
  intro x hx
  rw [h x hx]; decide

structure Inv (s : St) : Prop where
  len : s.wpc.length = s.n
  sp_le : s.spawned ≤ s.n
  mpc_le : s.mpc ≤ 3
  pre : s.mpc = 0 → s.counter = 0 ∧ s.spawned = 0
  unstarted : ∀ i, s.spawned ≤ i → i < s.n → s.wpc[i]? = some 0
  cnt : 1 ≤ s.mpc → s.counter = rem s.wpc
  waiting : 2 ≤ s.mpc → s.spawned = s.n
  worked : ∀ i, (s.wpc[i]? = some 2 ∨ s.wpc[i]? = some 3) → Ev.work i ∈ s.trace
  allDone : s.mpc = 3 → ∀ i, i < s.n → s.wpc[i]? = some 3
  ret : s.mpc = 3 → ∀ i, i < s.n → workBeforeRet s.trace i

theorem inv_init (n : Nat) : Inv (St.init n) := by
  refine ⟨by simp [St.init], by simp [St.init], by simp [St.init], fun _ => by simp [St.init], ?_, by simp [St.init], by simp [St.init], ?_, by simp [St.init], by simp [St.init]⟩
  · intro i _ hi
    have hi' : i < n := hi
    simp [St.init, List.getElem?_replicate, hi']
  · intro i h
    simp only [St.init, List.getElem?_replicate] at h
    split at h <;> simp at h

theorem lt_of_getElem?_some {l : List Nat} {i v : Nat} (h : l[i]? = some v) : i < l.length := by
  rcases Nat.lt_or_ge i l.length with h' | h'
  · exact h'
  · rw [List.getElem?_eq_none h'] at h; cases h

theorem inv_step (s s' : St) (g : Nat) (hi : Inv s) (hs : step s g = some s') : Inv s' := by
  unfold step at hs
  cases g with
  | zero =>
    simp only at hs
    split at hs
    · -- Add(n)
      rename_i h0
      cases hs
      obtain ⟨hc, hsp⟩ := hi.pre h0
      have hall : ∀ x ∈ s.wpc, x = 0 := by
        intro x hx
        obtain ⟨i, hil, hxi⟩ := List.mem_iff_getElem.mp hx
        have := hi.unstarted i (by omega) (by rw [← hi.len]; exact hil)
        rw [List.getElem?_eq_getElem hil] at this
        simp only [Option.some.injEq] at this
        rw [← hxi]; exact this
      refine ⟨hi.len, hi.sp_le, by simp, by simp, hi.unstarted, fun _ => ?_, by simp, fun i h => ?_, by simp, by simp⟩
      · simp only [hc, Nat.zero_add, rem_all_zero s.wpc hall, hi.len]
      · exact List.mem_append_left _ (hi.worked i h)
    · -- spawning
      rename_i h1
      split at hs
      · rename_i hlt
        cases hs
        have hold : s.wpc[s.spawned]? = some 0 := hi.unstarted s.spawned (Nat.le_refl _) hlt
        refine ⟨by simp [hi.len], by simp only; omega, by simp [h1], by simp [h1], fun i h1' h2' => ?_, fun _ => ?_, by simp [h1], fun i h => ?_, by simp [h1], by simp [h1]⟩
        · simp only at h1' h2' ⊢
          rw [List.getElem?_set_ne (by omega)]
          exact hi.unstarted i (by omega) h2'
        · simp only
          rw [rem_set_same s.wpc s.spawned 0 1 hold (by decide) (by decide)]
          exact hi.cnt (by omega)
        · simp only at h ⊢
          by_cases hisp : s.spawned = i
          · subst hisp
            rw [List.getElem?_set_self (by rw [hi.len]; exact hlt)] at h
            rcases h with h | h <;> cases h
          · rw [List.getElem?_set_ne hisp] at h
            exact List.mem_append_left _ (hi.worked i h)
      · rename_i hge
        cases hs
        refine ⟨hi.len, hi.sp_le, by simp, by simp, hi.unstarted, fun _ => hi.cnt (by omega), fun _ => ?_, hi.worked, by simp, by simp⟩
        have := hi.sp_le; simp only; omega
    · -- Wait
      rename_i h2
      split at hs
      · rename_i hz
        cases hs
        have hrem : rem s.wpc = 0 := by rw [← hi.cnt (by omega)]; exact hz
        have hall := rem_zero_all s.wpc hrem
        have hall3 : ∀ i, i < s.n → s.wpc[i]? = some 3 := by
          intro i hin
          have hil : i < s.wpc.length := by rw [hi.len]; exact hin
          have := hall i s.wpc[i] (List.getElem?_eq_getElem hil)
          rw [List.getElem?_eq_getElem hil, this]
        refine ⟨hi.len, hi.sp_le, by simp, by simp, hi.unstarted, fun _ => ?_, fun _ => hi.waiting (by omega), fun i h => ?_, fun _ => hall3, fun _ i hin => ?_⟩
        · simp only; rw [hz, hrem]
        · exact List.mem_append_left _ (hi.worked i h)
        · exact ⟨s.trace, [], by simp, hi.worked i (Or.inr (hall3 i hin))⟩
      · cases hs
    · cases hs
  | succ i =>
    simp only at hs
    split at hs
    · -- the worker runs
      rename_i h1
      cases hs
      have hil := lt_of_getElem?_some h1
      have hin : i < s.n := by rw [← hi.len]; exact hil
      have hm3 : s.mpc ≠ 3 := by
        intro h3; have := hi.allDone h3 i hin; rw [h1] at this; cases this
      have hm1 : 1 ≤ s.mpc := by
        rcases Nat.eq_zero_or_pos s.mpc with h0 | hp
        · have := hi.unstarted i (by rw [(hi.pre h0).2]; exact Nat.zero_le _) hin
          rw [h1] at this; cases this
        · exact hp
      refine ⟨by simp [hi.len], hi.sp_le, hi.mpc_le, fun h0 => by simp only at h0; omega, fun j h1' h2' => ?_, fun _ => ?_, hi.waiting, fun j h => ?_, fun h3 => absurd h3 hm3, fun h3 => absurd h3 hm3⟩
      · simp only
        have hne : i ≠ j := by
          intro hij; subst hij
          have := hi.unstarted i h1' h2'; rw [h1] at this; cases this
        rw [List.getElem?_set_ne hne]
        exact hi.unstarted j h1' h2'
      · simp only
        rw [rem_set_same s.wpc i 1 2 h1 (by decide) (by decide)]
        exact hi.cnt hm1
      · simp only at h ⊢
        by_cases hij : i = j
        · subst hij; simp
        · rw [List.getElem?_set_ne hij] at h
          exact List.mem_append_left _ (hi.worked j h)
    · -- Done()
      rename_i h2
      cases hs
      have hil := lt_of_getElem?_some h2
      have hin : i < s.n := by rw [← hi.len]; exact hil
      have hm3 : s.mpc ≠ 3 := by
        intro h3; have := hi.allDone h3 i hin; rw [h2] at this; cases this
      have hm1 : 1 ≤ s.mpc := by
        rcases Nat.eq_zero_or_pos s.mpc with h0 | hp
        · have := hi.unstarted i (by rw [(hi.pre h0).2]; exact Nat.zero_le _) hin
          rw [h2] at this; cases this
        · exact hp
      have hrem := rem_set_done s.wpc i 2 h2 (by decide)
      refine ⟨by simp [hi.len], hi.sp_le, hi.mpc_le, fun h0 => by simp only at h0; omega, fun j h1' h2' => ?_, fun _ => ?_, hi.waiting, fun j h => ?_, fun h3 => absurd h3 hm3, fun h3 => absurd h3 hm3⟩
      · simp only
        have hne : i ≠ j := by
          intro hij; subst hij
          have := hi.unstarted i h1' h2'; rw [h2] at this; cases this
        rw [List.getElem?_set_ne hne]
        exact hi.unstarted j h1' h2'
      · simp only
        have := hi.cnt hm1
        omega
      · simp only at h ⊢
        by_cases hij : i = j
        · subst hij
          exact List.mem_append_left _ (hi.worked i (Or.inl h2))
        · rw [List.getElem?_set_ne hij] at h
          exact List.mem_append_left _ (hi.worked j h)
    · cases hs

theorem inv_run (sched : List Nat) : ∀ s, Inv s → Inv (run s sched) := by
  induction sched with
  | nil => intro s h; exact h
  | cons g gs ih =>
    intro s h
    simp only [run]
    cases hs : step s g with
    | none => exact ih s h
    | some s' => exact ih s' (inv_step s s' g h hs)

/-- **C11 (fork/join).** For every number of workers `n` and every schedule: if `RunWorkers` has returned, then for every
worker `i < n` its work is in the trace **before** the return. -/
theorem C11_forkjoin_all_work_before_return (n : Nat) (sched : List Nat)
    (hret : (run (St.init n) sched).mpc = 3) :
    ∀ i, i < n → workBeforeRet (run (St.init n) sched).trace i := by
  have hinv := inv_run sched (St.init n) (inv_init n)
  have hn : (run (St.init n) sched).n = n := by
    have : ∀ (sched : List Nat) (s : St), (run s sched).n = s.n := by
      intro sched
      induction sched with
      | nil => intro s; rfl
      | cons g gs ih =>
        intro s
        simp only [run]
        cases hs : step s g with
        | none => exact ih s
        | some s' =>
          simp only
          rw [ih s']
          unfold step at hs
          cases g with
          | zero =>
            simp only at hs
            split at hs
            · cases hs; rfl
            · split at hs <;> cases hs <;> rfl
            · split at hs
              · cases hs; rfl
              · cases hs
            · cases hs
          | succ i =>
            simp only at hs
            split at hs
            · cases hs; rfl
            · cases hs; rfl
            · cases hs
    exact this sched (St.init n)
  intro i hi
  exact hinv.ret hret i (by rw [hn]; exact hi)

/-- the conclusion is not vacuous: a schedule on which two workers run interleaved and `RunWorkers` returns -/
example : (run (St.init 2) [0, 0, 0, 2, 1, 0, 1, 2, 0]).mpc = 3 := by decide

/-- **the variant is wrong**: with `Add(1)` inside the goroutine there is a schedule on which `RunWorkers` returns before any
worker has worked (the caller reaches `Wait` while the counter is still zero) -/
theorem C11_add_inside_goroutine_returns_early :
    (runB (St.init 2) [0, 0, 0, 0, 0]).mpc = 3 ∧ Ev.work 0 ∉ (runB (St.init 2) [0, 0, 0, 0, 0]).trace := by decide

/-- **C11 (the concurrency there is, regenerated from the source).** No `go` statement, no channel, no `sync` primitive but
`Once` in the library's own code; `RunWorkers` in the pinned dependency adds the whole count before spawning, defers `Done`
first in each goroutine and waits last — the shape of `step`. -/
theorem C11_concurrency_surface :
    Gen.goStatements = [] ∧ Gen.channelUses = [] ∧ Gen.syncUses = ["sync.Once"] ∧
    Gen.runWorkersShape = ["add-n-before-spawn", "defer-done-first", "wait-last"] := by decide

end Prism.ForkJoin
