import Prism.Proofs.C11Fork
import Prism.Proofs.C10

/-!
# C11 × C10 — when an image transform returns, every row has been written

The transforms hand `RunWorkers` a closure in which worker `k` of `n` handles the rows `k, k+n, k+2n, …` (`workerRows`, C10).
Putting the fork/join theorem and the striping theorem together: for every parallelism `n ≥ 1`, every image height `h`, every
row `y < h` and **every schedule**, if `RunWorkers` has returned then the work of the one worker that owns row `y` — worker
`y mod n` — is in the trace before the return.
-/

namespace Prism.ForkJoin
open Prism.Img

theorem C11_every_row_written_before_return (n h : Nat) (hn : 0 < n) (sched : List Nat)
    (hret : (run (St.init n) sched).mpc = 3) (y : Nat) (hy : y < h) :
    y ∈ workerRows n h (y % n) ∧ workBeforeRet (run (St.init n) sched).trace (y % n) := by
  obtain ⟨hlt, hmem⟩ := C10_row_has_worker n h y hn hy
  exact ⟨hmem, C11_forkjoin_all_work_before_return n sched hret (y % n) hlt⟩

end Prism.ForkJoin
