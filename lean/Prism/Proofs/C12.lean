import Prism.Proofs.C20

/-!
# C12 — chromatic adaptation maps white to white and composes consistently

`ciexyz.AdaptBetweenXYZWhitePoints` computes `M⁻¹ · diag(ρ(B)/ρ(A)) · M` with `ρ(W) = M·W`
(`M` = the Bradford matrix).  Over any field, for any invertible `M` (here: any `M`, `N` with
`N·M = M·N = 1`) and any white `A` whose cone response has no zero component, the laws below
hold exactly.  The float64 code is the same expression over the bit-exact float model, tied by
the bit-exact correspondence stream; its distance from these exact laws is what the harness
measures on every run (worst case over the illuminant grid is written to the evidence).
-/

namespace Prism.Alg

variable {K : Type} [Field K]
set_option linter.unusedSectionVars false

def diag (d : V3 K) : M3 K := ⟨⟨d.x, 0, 0⟩, ⟨0, d.y, 0⟩, ⟨0, 0, d.z⟩⟩

/-- `AdaptBetweenXYZWhitePoints` with forward matrix `M` and its inverse `N` -/
def adapt (M N : M3 K) (A B : V3 K) : M3 K :=
  let s := mulV M A
  let d := mulV M B
  mulM (mulM N (diag ⟨d.x / s.x, d.y / s.y, d.z / s.z⟩)) M

theorem mulM_assoc (a b c : M3 K) : mulM (mulM a b) c = mulM a (mulM b c) := by
  ext <;> simp only [mulM, transpose, dot] <;> ring

theorem mulV_one (v : V3 K) : mulV (one : M3 K) v = v := by
  ext <;> simp [mulV, one]

theorem one_mulM (m : M3 K) : mulM one m = m := by
  ext <;> simp [mulM, transpose, dot, one]

theorem mulV_diag (d v : V3 K) : mulV (diag d) v = ⟨d.x * v.x, d.y * v.y, d.z * v.z⟩ := by
  ext <;> simp [mulV, diag]

theorem diag_mul_diag (a b : V3 K) : mulM (diag a) (diag b) = diag ⟨a.x * b.x, a.y * b.y, a.z * b.z⟩ := by
  ext <;> simp [mulM, transpose, dot, diag]

/-- a white whose cone response `M·A` has no zero component -/
def Valid (M : M3 K) (A : V3 K) : Prop := (mulV M A).x ≠ 0 ∧ (mulV M A).y ≠ 0 ∧ (mulV M A).z ≠ 0

/-- **C12 (white to white).** The adaptation from `A` to `B` maps `A` onto `B`. -/
theorem C12_white_to_white (M N : M3 K) (hNM : mulM N M = one) (A B : V3 K) (hA : Valid M A) :
    mulV (adapt M N A B) A = B := by
  obtain ⟨hx, hy, hz⟩ := hA
  unfold adapt
  simp only
  rw [C20_mulM_mulV, C20_mulM_mulV, mulV_diag]
  have : (⟨(mulV M B).x / (mulV M A).x * (mulV M A).x, (mulV M B).y / (mulV M A).y * (mulV M A).y,
      (mulV M B).z / (mulV M A).z * (mulV M A).z⟩ : V3 K) = mulV M B := by
    ext <;> simp only <;> field_simp
  rw [this, ← C20_mulM_mulV, hNM, mulV_one]

/-- **C12 (identity).** Adapting `A` to `A` is the identity. -/
theorem C12_identity (M N : M3 K) (hNM : mulM N M = one) (A : V3 K) (hA : Valid M A) :
    adapt M N A A = one := by
  obtain ⟨hx, hy, hz⟩ := hA
  unfold adapt
  simp only
  have : diag (⟨(mulV M A).x / (mulV M A).x, (mulV M A).y / (mulV M A).y, (mulV M A).z / (mulV M A).z⟩ : V3 K) = one := by
    ext <;> simp [diag, one, div_self hx, div_self hy, div_self hz]
  rw [this, C20_mulM_one, hNM]

/-- **C12 (composition).** `A→B` followed by `B→C` equals `A→C`. -/
theorem C12_compose (M N : M3 K) (hMN : mulM M N = one) (A B C : V3 K) (hB : Valid M B) :
    mulM (adapt M N B C) (adapt M N A B) = adapt M N A C := by
  obtain ⟨hx, hy, hz⟩ := hB
  unfold adapt
  simp only
  rw [mulM_assoc (mulM N _) M, ← mulM_assoc M (mulM N _) M, ← mulM_assoc M N, hMN, one_mulM,
    mulM_assoc N, ← mulM_assoc (diag _) (diag _) M, diag_mul_diag, ← mulM_assoc N]
  congr 2
  ext <;> simp only [diag] <;> field_simp

/-- **C12 (inverse).** `A→B` followed by `B→A` is the identity. -/
theorem C12_inverse (M N : M3 K) (hMN : mulM M N = one) (hNM : mulM N M = one) (A B : V3 K)
    (hA : Valid M A) (hB : Valid M B) : mulM (adapt M N B A) (adapt M N A B) = one := by
  rw [C12_compose M N hMN A B A hB, C12_identity M N hNM A hA]

/-- **C12 (linearity).** `Apply` is the matrix-vector product: additive and homogeneous. -/
theorem C12_linear (m : M3 K) (u v : V3 K) (a b : K) :
    mulV m ⟨a * u.x + b * v.x, a * u.y + b * v.y, a * u.z + b * v.z⟩ =
      ⟨a * (mulV m u).x + b * (mulV m v).x, a * (mulV m u).y + b * (mulV m v).y, a * (mulV m u).z + b * (mulV m v).z⟩ := by
  ext <;> simp only [mulV] <;> ring

/-- the Bradford matrix over ℚ is invertible, and D65 has a valid cone response: the hypotheses
are satisfiable by the real thing -/
def bradfordQ : M3 ℚ := ⟨⟨8951/10000, -7502/10000, 389/10000⟩, ⟨2664/10000, 17135/10000, -685/10000⟩, ⟨-1614/10000, 367/10000, 10296/10000⟩⟩

example : det bradfordQ ≠ 0 := by norm_num [det, bradfordQ]
example : Valid bradfordQ (fromXYY (31271/100000) (32902/100000) 1) := by
  refine ⟨?_, ?_, ?_⟩ <;> norm_num [mulV, bradfordQ, fromXYY]

end Prism.Alg
