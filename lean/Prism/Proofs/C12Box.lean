import Prism.Float.IntCalc
import Prism.Model.Xyz
import Prism.Check.C03
import Prism.Proofs.C12

/-!
# C12 — `AdaptBetweenXYZWhitePoints` in floating point, for every pair of whites in a box

The adaptation matrix is a rational function of the two white points (a ratio of cone responses between two
fixed matrices), so the linear calculus of `ErrCalc` does not apply.  With the interval + error calculus of
`IntCalc`: for **every** pair of finite float32 XYZ whites with `X ∈ [0.6, 1.4]`, `Y ∈ [0.9, 1.1]`,
`Z ∈ [0.2, 2.2]` (all CIE standard illuminants A, B, C, D50, D55, D65, D75, E, F2, F7, F11 and the black-body /
daylight locus from about 2400 K to beyond 25000 K), each of the nine float64 entries of the matrix the code
computes is finite and within `adaptTol` of the **exact** Bradford adaptation `adaptExact` (over ℚ, from the
published decimal Bradford coefficients) between those two whites.
-/

namespace Prism
open SF SF.IC
open SF.EC (FT)

abbrev EV := Ex × Ex × Ex
abbrev EM := EV × EV × EV

namespace BoxE

@[inline] def v0 (v : EV) := v.1
@[inline] def v1 (v : EV) := v.2.1
@[inline] def v2 (v : EV) := v.2.2
@[inline] def at_ (m : EM) (i j : Nat) : Ex :=
  let c := match i with | 0 => m.1 | 1 => m.2.1 | _ => m.2.2
  match j with | 0 => c.1 | 1 => c.2.1 | _ => c.2.2

def emul (a b : Ex) : Ex := .mul .d a b
def eadd (a b : Ex) : Ex := .add .d a b

def dot (a b : EV) : Ex := eadd (eadd (emul (v0 a) (v0 b)) (emul (v1 a) (v1 b))) (emul (v2 a) (v2 b))

def transpose (m : EM) : EM :=
  ((at_ m 0 0, at_ m 1 0, at_ m 2 0), (at_ m 0 1, at_ m 1 1, at_ m 2 1), (at_ m 0 2, at_ m 1 2, at_ m 2 2))

def mulV (m : EM) (v : EV) : EV :=
  (eadd (eadd (emul (at_ m 0 0) (v0 v)) (emul (at_ m 1 0) (v1 v))) (emul (at_ m 2 0) (v2 v)),
   eadd (eadd (emul (at_ m 0 1) (v0 v)) (emul (at_ m 1 1) (v1 v))) (emul (at_ m 2 1) (v2 v)),
   eadd (eadd (emul (at_ m 0 2) (v0 v)) (emul (at_ m 1 2) (v1 v))) (emul (at_ m 2 2) (v2 v)))

def mulM (m o : EM) : EM :=
  let t := transpose m
  ((dot t.1 o.1, dot t.2.1 o.1, dot t.2.2 o.1),
   (dot t.1 o.2.1, dot t.2.1 o.2.1, dot t.2.2 o.2.1),
   (dot t.1 o.2.2, dot t.2.1 o.2.2, dot t.2.2 o.2.2))

/-- three consecutive float32 inputs, converted to float64 (`Color.ToV`) -/
def toV (i : Nat) : EV := (.cvt .s .d (.var i), .cvt .s .d (.var (i + 1)), .cvt .s .d (.var (i + 2)))

/-- a float64 constant matrix (column-major, as the model holds it) with the exact rationals it stands for given as rows -/
def constM (m : Mat.M3) (q : QM) : EM :=
  ((.const .d (Mat.at_ m 0 0) q.1.1, .const .d (Mat.at_ m 0 1) q.2.1.1, .const .d (Mat.at_ m 0 2) q.2.2.1),
   (.const .d (Mat.at_ m 1 0) q.1.2.1, .const .d (Mat.at_ m 1 1) q.2.1.2.1, .const .d (Mat.at_ m 1 2) q.2.2.2.1),
   (.const .d (Mat.at_ m 2 0) q.1.2.2, .const .d (Mat.at_ m 2 1) q.2.1.2.2, .const .d (Mat.at_ m 2 2) q.2.2.2.2))

def evalV (env : Nat → Nat) (v : EV) : Mat.V3 := (evalSF env v.1, evalSF env v.2.1, evalSF env v.2.2)
def evalM (env : Nat → Nat) (m : EM) : Mat.M3 := (evalV env m.1, evalV env m.2.1, evalV env m.2.2)

end BoxE

/-- `AdaptBetweenXYZWhitePoints` with the two constant matrices as parameters -/
def adaptGen (bf bi : Mat.M3) (src dst : Nat × Nat × Nat) : Mat.M3 :=
  let s := Mat.mulV bf (Xyz.toV src)
  let d := Mat.mulV bf (Xyz.toV dst)
  let z := F64.zero
  let m : Mat.M3 := ((F64.div (Mat.v0 d) (Mat.v0 s), z, z), (z, F64.div (Mat.v1 d) (Mat.v1 s), z), (z, z, F64.div (Mat.v2 d) (Mat.v2 s)))
  Mat.mulM (Mat.mulM bi m) bf

theorem adaptXYZ_gen (src dst : Nat × Nat × Nat) :
    Xyz.adaptXYZ src dst = adaptGen Xyz.bradfordForward Xyz.bradfordInverse src dst := rfl

open BoxE in
/-- the same on inputs 0..2 (source white) and 3..5 (destination white), as an expression -/
def adaptBoxG (bf bi : Mat.M3) (qf qi : QM) : EM :=
  let f := constM bf qf
  let g := constM bi qi
  let s := mulV f (toV 0)
  let d := mulV f (toV 3)
  let z : Ex := .const .d F64.zero 0
  let m : EM := ((.div .d (v0 d) (v0 s), z, z), (z, .div .d (v1 d) (v1 s), z), (z, z, .div .d (v2 d) (v2 s)))
  mulM (mulM g m) f

/-- the model's function *is* this expression (for any constant matrices: nothing is evaluated) -/
theorem adaptGen_is_expr (bf bi : Mat.M3) (qf qi : QM) (env : Nat → Nat) :
    adaptGen bf bi (env 0, env 1, env 2) (env 3, env 4, env 5) = BoxE.evalM env (adaptBoxG bf bi qf qi) := rfl

/-- the expression of the real code's adaptation: the Bradford matrices as compiled, standing for the published decimals
and their exact inverse -/
def adaptBoxE : EM := adaptBoxG Xyz.bradfordForward Xyz.bradfordInverse bradfordQ (qinv bradfordQ)

theorem adapt_is_box_expr (env : Nat → Nat) :
    Xyz.adaptXYZ (env 0, env 1, env 2) (env 3, env 4, env 5) = BoxE.evalM env adaptBoxE := by
  rw [adaptXYZ_gen]; exact adaptGen_is_expr _ _ _ _ env

/-- the box of whites: `X ∈ [0.6, 1.4]`, `Y ∈ [0.9, 1.1]`, `Z ∈ [0.2, 2.2]` (inputs 0..2 and 3..5) -/
def whiteBox : Nat → ℚ × ℚ := fun i =>
  match i % 3 with
  | 0 => (6 / 10, 14 / 10)
  | 1 => (9 / 10, 11 / 10)
  | _ => (2 / 10, 22 / 10)

def adaptTol : ℚ := 1 / 10 ^ 12

def entryOk (box : Nat → ℚ × ℚ) (tol : ℚ) (e : Ex) : Bool :=
  match absI box e with
  | some (.d, v) => decide (v.err ≤ tol)
  | _ => false

def entries9 (m : EM) : List Ex :=
  [BoxE.at_ m 0 0, BoxE.at_ m 0 1, BoxE.at_ m 0 2, BoxE.at_ m 1 0, BoxE.at_ m 1 1, BoxE.at_ m 1 2, BoxE.at_ m 2 0, BoxE.at_ m 2 1, BoxE.at_ m 2 2]

theorem adapt_box_ok : (entries9 adaptBoxE).all (entryOk whiteBox adaptTol) = true := by decide +kernel

/-- a float32 XYZ white in the box -/
def InWhiteBox (w : Nat × Nat × Nat) : Prop :=
  (Fin b32 w.1 ∧ 6 / 10 ≤ toQ b32 w.1 ∧ toQ b32 w.1 ≤ 14 / 10) ∧
  (Fin b32 w.2.1 ∧ 9 / 10 ≤ toQ b32 w.2.1 ∧ toQ b32 w.2.1 ≤ 11 / 10) ∧
  (Fin b32 w.2.2 ∧ 2 / 10 ≤ toQ b32 w.2.2 ∧ toQ b32 w.2.2 ≤ 22 / 10)

def envOf2 (ws wd : Nat × Nat × Nat) : Nat → Nat := fun i =>
  match i % 6 with
  | 0 => ws.1 | 1 => ws.2.1 | 2 => ws.2.2 | 3 => wd.1 | 4 => wd.2.1 | _ => wd.2.2

theorem envOf2_box (ws wd : Nat × Nat × Nat) (hs : InWhiteBox ws) (hd : InWhiteBox wd) :
    ∀ i, Fin b32 (envOf2 ws wd i) ∧ (whiteBox i).1 ≤ toQ b32 (envOf2 ws wd i) ∧ toQ b32 (envOf2 ws wd i) ≤ (whiteBox i).2 := by
  intro i
  have h6 : i % 6 < 6 := Nat.mod_lt _ (by norm_num)
  unfold envOf2 whiteBox
  rcases (by omega : i % 6 = 0 ∨ i % 6 = 1 ∨ i % 6 = 2 ∨ i % 6 = 3 ∨ i % 6 = 4 ∨ i % 6 = 5) with h | h | h | h | h | h
  · have h3 : i % 3 = 0 := by omega
    simp only [h, h3]; exact hs.1
  · have h3 : i % 3 = 1 := by omega
    simp only [h, h3]; exact hs.2.1
  · have h3 : i % 3 = 2 := by omega
    simp only [h, h3]; exact hs.2.2
  · have h3 : i % 3 = 0 := by omega
    simp only [h, h3]; exact hd.1
  · have h3 : i % 3 = 1 := by omega
    simp only [h, h3]; exact hd.2.1
  · have h3 : i % 3 = 2 := by omega
    simp only [h, h3]; exact hd.2.2

/-- from the kernel check to the statement about one entry -/
theorem entryOk_sound (box : Nat → ℚ × ℚ) (tol : ℚ) (e : Ex) (h : entryOk box tol e = true) (env : Nat → Nat)
    (henv : ∀ i, Fin b32 (env i) ∧ (box i).1 ≤ toQ b32 (env i) ∧ toQ b32 (env i) ≤ (box i).2) :
    Fin b64 (evalSF env e) ∧ |toQ b64 (evalSF env e) - evalQ (fun i => toQ b32 (env i)) e| ≤ tol := by
  unfold entryOk at h
  split at h
  · rename_i v hv
    have s := absI_sound box env henv e _ _ hv
    have hle : v.err ≤ tol := by simpa using h
    exact ⟨s.fin, le_trans s.err hle⟩
  · exact absurd h (by simp)

set_option maxRecDepth 100000 in
/-- the exact value of every entry of the expression is the corresponding entry of the exact Bradford adaptation -/
theorem evalQ_adapt (x : Nat → ℚ) :
    let A := adaptExact (x 0, x 1, x 2) (x 3, x 4, x 5)
    evalQ x (BoxE.at_ adaptBoxE 0 0) = A.1.1 ∧ evalQ x (BoxE.at_ adaptBoxE 0 1) = A.2.1.1 ∧ evalQ x (BoxE.at_ adaptBoxE 0 2) = A.2.2.1 ∧
    evalQ x (BoxE.at_ adaptBoxE 1 0) = A.1.2.1 ∧ evalQ x (BoxE.at_ adaptBoxE 1 1) = A.2.1.2.1 ∧ evalQ x (BoxE.at_ adaptBoxE 1 2) = A.2.2.2.1 ∧
    evalQ x (BoxE.at_ adaptBoxE 2 0) = A.1.2.2 ∧ evalQ x (BoxE.at_ adaptBoxE 2 1) = A.2.1.2.2 ∧ evalQ x (BoxE.at_ adaptBoxE 2 2) = A.2.2.2.2 := by
  simp only [adaptBoxE, adaptBoxG, BoxE.at_, BoxE.mulM, BoxE.mulV, BoxE.dot, BoxE.transpose, BoxE.constM, BoxE.toV,
    BoxE.v0, BoxE.v1, BoxE.v2, BoxE.emul, BoxE.eadd, evalQ, adaptExact, qmulM, qmulV]
  refine ⟨?_, ?_, ?_, ?_, ?_, ?_, ?_, ?_, ?_⟩ <;> trivial

/-- entry `(row r, column c)` of a matrix of rationals given as rows -/
def qmAt (m : QM) (r c : Nat) : ℚ :=
  let row := match r with | 0 => m.1 | 1 => m.2.1 | _ => m.2.2
  match c with | 0 => row.1 | 1 => row.2.1 | _ => row.2.2

/-- **C12 (the adaptation matrix in floating point, every pair of whites in the box).**  Every entry of the
float64 matrix `AdaptBetweenXYZWhitePoints` computes (column `c`, row `r` of Go's column-major `Matrix3`) is finite and
within `10⁻¹²` of the exact Bradford adaptation between the two whites. -/
theorem C12_adapt_float_box (ws wd : Nat × Nat × Nat) (hs : InWhiteBox ws) (hd : InWhiteBox wd)
    (c r : Nat) (hc : c < 3) (hr : r < 3) :
    Fin b64 (Mat.at_ (Xyz.adaptXYZ ws wd) c r) ∧
    |toQ b64 (Mat.at_ (Xyz.adaptXYZ ws wd) c r) -
      qmAt (adaptExact (toQ b32 ws.1, toQ b32 ws.2.1, toQ b32 ws.2.2) (toQ b32 wd.1, toQ b32 wd.2.1, toQ b32 wd.2.2)) r c| ≤ adaptTol := by
  have henv := envOf2_box ws wd hs hd
  have hM : Xyz.adaptXYZ ws wd = BoxE.evalM (envOf2 ws wd) adaptBoxE := adapt_is_box_expr (envOf2 ws wd)
  have hok := adapt_box_ok
  simp only [entries9, List.all_cons, List.all_nil, Bool.and_true, Bool.and_eq_true] at hok
  obtain ⟨k00, k01, k02, k10, k11, k12, k20, k21, k22⟩ := hok
  have hq := evalQ_adapt (fun i => toQ b32 (envOf2 ws wd i))
  simp only at hq
  obtain ⟨q00, q01, q02, q10, q11, q12, q20, q21, q22⟩ := hq
  have hx : ∀ k, k < 6 → (fun i => toQ b32 (envOf2 ws wd i)) k = toQ b32 (envOf2 ws wd k) := fun _ _ => rfl
  rw [hM]
  have e0 : envOf2 ws wd 0 = ws.1 := rfl
  have e1 : envOf2 ws wd 1 = ws.2.1 := rfl
  have e2 : envOf2 ws wd 2 = ws.2.2 := rfl
  have e3 : envOf2 ws wd 3 = wd.1 := rfl
  have e4 : envOf2 ws wd 4 = wd.2.1 := rfl
  have e5 : envOf2 ws wd 5 = wd.2.2 := rfl
  simp only [e0, e1, e2, e3, e4, e5] at q00 q01 q02 q10 q11 q12 q20 q21 q22
  rcases (by omega : c = 0 ∨ c = 1 ∨ c = 2) with rfl | rfl | rfl <;>
  rcases (by omega : r = 0 ∨ r = 1 ∨ r = 2) with rfl | rfl | rfl
  · have := entryOk_sound _ _ _ k00 _ henv; rw [q00] at this; exact this
  · have := entryOk_sound _ _ _ k01 _ henv; rw [q01] at this; exact this
  · have := entryOk_sound _ _ _ k02 _ henv; rw [q02] at this; exact this
  · have := entryOk_sound _ _ _ k10 _ henv; rw [q10] at this; exact this
  · have := entryOk_sound _ _ _ k11 _ henv; rw [q11] at this; exact this
  · have := entryOk_sound _ _ _ k12 _ henv; rw [q12] at this; exact this
  · have := entryOk_sound _ _ _ k20 _ henv; rw [q20] at this; exact this
  · have := entryOk_sound _ _ _ k21 _ henv; rw [q21] at this; exact this
  · have := entryOk_sound _ _ _ k22 _ henv; rw [q22] at this; exact this

/-! ### the exact adaptation maps the source white onto the destination white -/

theorem qmulV_qmulM (A B : QM) (v : Q3) : qmulV (qmulM A B) v = qmulV A (qmulV B v) := by
  obtain ⟨⟨a, b, c⟩, ⟨d, e, f⟩, ⟨g, h, i⟩⟩ := A
  obtain ⟨⟨a', b', c'⟩, ⟨d', e', f'⟩, ⟨g', h', i'⟩⟩ := B
  obtain ⟨x, y, z⟩ := v
  simp only [qmulM, qmulV]
  ext <;> simp <;> ring

theorem qinv_mulV (M : QM) (v : Q3) (h : qdet M ≠ 0) : qmulV (qinv M) (qmulV M v) = v := by
  obtain ⟨⟨a, b, c⟩, ⟨d, e, f⟩, ⟨g, hh, i⟩⟩ := M
  obtain ⟨x, y, z⟩ := v
  simp only [qdet] at h
  simp only [qinv, qmulV, qdet]
  set D := a * (e * i - f * hh) - b * (d * i - f * g) + c * (d * hh - e * g) with hD
  ext
  · show (e * i - f * hh) / D * (a * x + b * y + c * z) + (c * hh - b * i) / D * (d * x + e * y + f * z) + (b * f - c * e) / D * (g * x + hh * y + i * z) = x
    field_simp
    rw [hD]; ring
  · show (f * g - d * i) / D * (a * x + b * y + c * z) + (a * i - c * g) / D * (d * x + e * y + f * z) + (c * d - a * f) / D * (g * x + hh * y + i * z) = y
    field_simp
    rw [hD]; ring
  · show (d * hh - e * g) / D * (a * x + b * y + c * z) + (b * g - a * hh) / D * (d * x + e * y + f * z) + (a * e - b * d) / D * (g * x + hh * y + i * z) = z
    field_simp
    rw [hD]; ring

theorem adaptExact_white (ws wd : Q3)
    (h0 : (qmulV bradfordQ ws).1 ≠ 0) (h1 : (qmulV bradfordQ ws).2.1 ≠ 0) (h2 : (qmulV bradfordQ ws).2.2 ≠ 0) :
    qmulV (adaptExact ws wd) ws = wd := by
  have hdet : qdet bradfordQ ≠ 0 := by norm_num [qdet, bradfordQ]
  unfold adaptExact
  simp only
  rw [qmulV_qmulM, qmulV_qmulM]
  have hD : qmulV (((qmulV bradfordQ wd).1 / (qmulV bradfordQ ws).1, 0, 0), (0, (qmulV bradfordQ wd).2.1 / (qmulV bradfordQ ws).2.1, 0),
      (0, 0, (qmulV bradfordQ wd).2.2 / (qmulV bradfordQ ws).2.2)) (qmulV bradfordQ ws) = qmulV bradfordQ wd := by
    generalize qmulV bradfordQ ws = s at *
    generalize qmulV bradfordQ wd = d
    obtain ⟨s0, s1, s2⟩ := s
    obtain ⟨d0, d1, d2⟩ := d
    simp only [qmulV] at *
    ext <;> simp <;> field_simp
  rw [hD]
  exact qinv_mulV bradfordQ wd hdet

/-! ### `Apply` of the computed matrix, colours in `[−4, 4]³` -/

/-- `ChromaticAdaptation.Apply` before its final conversion to float32: the float64 matrix–vector product -/
def applyGen64 (bf bi : Mat.M3) (src dst c : Nat × Nat × Nat) : Mat.V3 := Mat.mulV (adaptGen bf bi src dst) (Xyz.toV c)

theorem apply_gen (src dst c : Nat × Nat × Nat) :
    Xyz.apply (Xyz.adaptXYZ src dst) c = Xyz.fromV (applyGen64 Xyz.bradfordForward Xyz.bradfordInverse src dst c) := rfl

def applyBoxG (bf bi : Mat.M3) (qf qi : QM) : EV := BoxE.mulV (adaptBoxG bf bi qf qi) (BoxE.toV 6)

theorem applyGen_is_expr (bf bi : Mat.M3) (qf qi : QM) (env : Nat → Nat) :
    applyGen64 bf bi (env 0, env 1, env 2) (env 3, env 4, env 5) (env 6, env 7, env 8) = BoxE.evalV env (applyBoxG bf bi qf qi) := rfl

def applyBoxE : EV := applyBoxG Xyz.bradfordForward Xyz.bradfordInverse bradfordQ (qinv bradfordQ)

/-- whites in the white box (inputs 0..5), colours in `[−4, 4]³` (inputs 6..8) -/
def box9 : Nat → ℚ × ℚ := fun i =>
  if i % 9 < 6 then whiteBox (i % 9) else (-4, 4)

def applyTol : ℚ := 1 / 10 ^ 11

def entryOkM (box : Nat → ℚ × ℚ) (tol : ℚ) (e : Ex) : Bool :=
  match absI box e with
  | some (.d, v) => decide (v.err ≤ tol) && decide (v.fmag ≤ 1000)
  | _ => false

theorem apply_box_ok : [applyBoxE.1, applyBoxE.2.1, applyBoxE.2.2].all (entryOkM box9 applyTol) = true := by decide +kernel

theorem entryOkM_sound (box : Nat → ℚ × ℚ) (tol : ℚ) (e : Ex) (h : entryOkM box tol e = true) (env : Nat → Nat)
    (henv : ∀ i, Fin b32 (env i) ∧ (box i).1 ≤ toQ b32 (env i) ∧ toQ b32 (env i) ≤ (box i).2) :
    Fin b64 (evalSF env e) ∧ |toQ b64 (evalSF env e) - evalQ (fun i => toQ b32 (env i)) e| ≤ tol ∧ |toQ b64 (evalSF env e)| ≤ 1000 := by
  unfold entryOkM at h
  split at h
  · rename_i v hv
    have s := absI_sound box env henv e _ _ hv
    rw [Bool.and_eq_true] at h
    have hle : v.err ≤ tol := by simpa using h.1
    have hm : v.fmag ≤ 1000 := by simpa using h.2
    exact ⟨s.fin, le_trans s.err hle, le_trans s.fabs hm⟩
  · exact absurd h (by simp)

def InColourBox (c : Nat × Nat × Nat) : Prop :=
  (Fin b32 c.1 ∧ -4 ≤ toQ b32 c.1 ∧ toQ b32 c.1 ≤ 4) ∧ (Fin b32 c.2.1 ∧ -4 ≤ toQ b32 c.2.1 ∧ toQ b32 c.2.1 ≤ 4) ∧
  (Fin b32 c.2.2 ∧ -4 ≤ toQ b32 c.2.2 ∧ toQ b32 c.2.2 ≤ 4)

def envOf3 (ws wd c : Nat × Nat × Nat) : Nat → Nat := fun i =>
  match i % 9 with
  | 0 => ws.1 | 1 => ws.2.1 | 2 => ws.2.2 | 3 => wd.1 | 4 => wd.2.1 | 5 => wd.2.2 | 6 => c.1 | 7 => c.2.1 | _ => c.2.2

theorem envOf3_box (ws wd c : Nat × Nat × Nat) (hs : InWhiteBox ws) (hd : InWhiteBox wd) (hc : InColourBox c) :
    ∀ i, Fin b32 (envOf3 ws wd c i) ∧ (box9 i).1 ≤ toQ b32 (envOf3 ws wd c i) ∧ toQ b32 (envOf3 ws wd c i) ≤ (box9 i).2 := by
  intro i
  have h9 : i % 9 < 9 := Nat.mod_lt _ (by norm_num)
  unfold envOf3 box9 whiteBox
  rcases (by omega : i % 9 = 0 ∨ i % 9 = 1 ∨ i % 9 = 2 ∨ i % 9 = 3 ∨ i % 9 = 4 ∨ i % 9 = 5 ∨ i % 9 = 6 ∨ i % 9 = 7 ∨ i % 9 = 8)
    with h | h | h | h | h | h | h | h | h <;> simp only [h]
  · exact hs.1
  · exact hs.2.1
  · exact hs.2.2
  · exact hd.1
  · exact hd.2.1
  · exact hd.2.2
  · exact hc.1
  · exact hc.2.1
  · exact hc.2.2

set_option maxRecDepth 100000 in
theorem evalQ_apply (x : Nat → ℚ) :
    let E := qmulV (adaptExact (x 0, x 1, x 2) (x 3, x 4, x 5)) (x 6, x 7, x 8)
    evalQ x applyBoxE.1 = E.1 ∧ evalQ x applyBoxE.2.1 = E.2.1 ∧ evalQ x applyBoxE.2.2 = E.2.2 := by
  simp only [applyBoxE, applyBoxG, adaptBoxG, BoxE.at_, BoxE.mulM, BoxE.mulV, BoxE.dot, BoxE.transpose, BoxE.constM, BoxE.toV,
    BoxE.v0, BoxE.v1, BoxE.v2, BoxE.emul, BoxE.eadd, evalQ, adaptExact, qmulM, qmulV]
  refine ⟨?_, ?_, ?_⟩ <;> trivial

/-- the final conversion to float32 of a float64 value within `applyTol` of an exact `E` -/
theorem final_f32 (s : Nat) (hs : Fin b64 s) (E : ℚ) (h : |toQ b64 s - E| ≤ applyTol) (hb : |toQ b64 s| ≤ 1000) :
    Fin b32 (cvt b64 b32 s) ∧ |toQ b32 (cvt b64 b32 s) - E| ≤ |E| / 2 ^ 24 + 2 / 10 ^ 11 := by
  have htop : |toQ b64 s| ≤ ((2 ^ 127 : Nat) : ℚ) := by
    refine le_trans hb ?_
    push_cast
    exact le_trans (by norm_num : (1000:ℚ) ≤ 2 ^ 10) (pow_le_pow_right₀ (by norm_num : (1:ℚ) ≤ 2) (by norm_num : 10 ≤ 127))
  obtain ⟨fo, ho⟩ := cvt_acc b64 b32 b64_ok b32_ok (2 ^ 127) top32 s hs htop
  refine ⟨fo, ?_⟩
  have e32 : eps b32 = 1 / 2 ^ 24 := by unfold eps b32; norm_num
  have h32 : eta b32 ≤ 1 / 2 ^ 100 := by
    unfold eta Fmt.K Fmt.bias b32
    rw [div_le_div_iff₀ (by positivity) (by positivity)]
    norm_num
  rw [e32] at ho
  have hS : |toQ b64 s| ≤ |E| + applyTol := by
    have := abs_add_le (toQ b64 s - E) E
    simp only [sub_add_cancel] at this
    linarith
  have t := abs_sub_le (toQ b32 (cvt b64 b32 s)) (toQ b64 s) E
  have h3 : |toQ b64 s| * (1 / 2 ^ 24) ≤ (|E| + applyTol) * (1 / 2 ^ 24) := mul_le_mul_of_nonneg_right hS (by positivity)
  unfold applyTol at *
  have : (1:ℚ) / 10 ^ 11 * (1 / 2 ^ 24) + 1 / 2 ^ 100 + 1 / 10 ^ 11 ≤ 2 / 10 ^ 11 := by norm_num
  have e : (|E| + 1 / 10 ^ 11) * (1 / 2 ^ 24) = |E| / 2 ^ 24 + 1 / 10 ^ 11 * (1 / 2 ^ 24) := by ring
  linarith

/-- **C12 (`Apply` of the computed adaptation, every pair of whites in the box, every colour in `[−2, 2]³`).**  The
result is finite and within one float32 rounding of its own size (+ `2·10⁻¹¹`) of the exact Bradford adaptation between
the two whites applied to the colour. -/
theorem C12_apply_float_box (ws wd c : Nat × Nat × Nat) (hs : InWhiteBox ws) (hd : InWhiteBox wd) (hc : InColourBox c) :
    let out := Xyz.apply (Xyz.adaptXYZ ws wd) c
    let E := qmulV (adaptExact (toQ b32 ws.1, toQ b32 ws.2.1, toQ b32 ws.2.2) (toQ b32 wd.1, toQ b32 wd.2.1, toQ b32 wd.2.2))
      (toQ b32 c.1, toQ b32 c.2.1, toQ b32 c.2.2)
    (Fin b32 out.1 ∧ |toQ b32 out.1 - E.1| ≤ |E.1| / 2 ^ 24 + 2 / 10 ^ 11) ∧
    (Fin b32 out.2.1 ∧ |toQ b32 out.2.1 - E.2.1| ≤ |E.2.1| / 2 ^ 24 + 2 / 10 ^ 11) ∧
    (Fin b32 out.2.2 ∧ |toQ b32 out.2.2 - E.2.2| ≤ |E.2.2| / 2 ^ 24 + 2 / 10 ^ 11) := by
  intro out E
  have henv := envOf3_box ws wd c hs hd hc
  have hout : out = Xyz.fromV (BoxE.evalV (envOf3 ws wd c) applyBoxE) := by
    show Xyz.apply (Xyz.adaptXYZ ws wd) c = _
    rw [apply_gen]
    exact congrArg Xyz.fromV (applyGen_is_expr _ _ _ _ (envOf3 ws wd c))
  have hok := apply_box_ok
  simp only [List.all_cons, List.all_nil, Bool.and_true, Bool.and_eq_true] at hok
  obtain ⟨k0, k1, k2⟩ := hok
  have hq := evalQ_apply (fun i => toQ b32 (envOf3 ws wd c i))
  simp only at hq
  obtain ⟨q0, q1, q2⟩ := hq
  have e0 : envOf3 ws wd c 0 = ws.1 := rfl
  have e1 : envOf3 ws wd c 1 = ws.2.1 := rfl
  have e2 : envOf3 ws wd c 2 = ws.2.2 := rfl
  have e3 : envOf3 ws wd c 3 = wd.1 := rfl
  have e4 : envOf3 ws wd c 4 = wd.2.1 := rfl
  have e5 : envOf3 ws wd c 5 = wd.2.2 := rfl
  have e6 : envOf3 ws wd c 6 = c.1 := rfl
  have e7 : envOf3 ws wd c 7 = c.2.1 := rfl
  have e8 : envOf3 ws wd c 8 = c.2.2 := rfl
  simp only [e0, e1, e2, e3, e4, e5, e6, e7, e8] at q0 q1 q2
  obtain ⟨f0, a0, b0⟩ := entryOkM_sound _ _ _ k0 _ henv
  obtain ⟨f1, a1, b1⟩ := entryOkM_sound _ _ _ k1 _ henv
  obtain ⟨f2, a2, b2⟩ := entryOkM_sound _ _ _ k2 _ henv
  rw [q0] at a0; rw [q1] at a1; rw [q2] at a2
  rw [hout]
  exact ⟨final_f32 _ f0 _ a0 b0, final_f32 _ f1 _ a1 b1, final_f32 _ f2 _ a2 b2⟩

/-- **C12 (white onto white, in floating point).**  For every pair of whites in the box, adapting the source white
lands within `|component|·2⁻²⁴ + 2·10⁻¹¹` — less than `1.4·10⁻⁷` — of the destination white. -/
theorem C12_white_to_white_float (ws wd : Nat × Nat × Nat) (hs : InWhiteBox ws) (hd : InWhiteBox wd) :
    let out := Xyz.apply (Xyz.adaptXYZ ws wd) ws
    |toQ b32 out.1 - toQ b32 wd.1| ≤ 14 / 100000000 ∧ |toQ b32 out.2.1 - toQ b32 wd.2.1| ≤ 14 / 100000000 ∧
    |toQ b32 out.2.2 - toQ b32 wd.2.2| ≤ 14 / 100000000 := by
  intro out
  have hc : InColourBox ws := by
    obtain ⟨⟨f0, l0, u0⟩, ⟨f1, l1, u1⟩, ⟨f2, l2, u2⟩⟩ := hs
    exact ⟨⟨f0, by linarith, by linarith⟩, ⟨f1, by linarith, by linarith⟩, ⟨f2, by linarith, by linarith⟩⟩
  have h := C12_apply_float_box ws wd ws hs hd hc
  simp only at h
  -- cone responses of the source white are positive on the box
  obtain ⟨⟨_, l0, u0⟩, ⟨_, l1, u1⟩, ⟨_, l2, u2⟩⟩ := hs
  have hw := adaptExact_white (toQ b32 ws.1, toQ b32 ws.2.1, toQ b32 ws.2.2) (toQ b32 wd.1, toQ b32 wd.2.1, toQ b32 wd.2.2)
    (by simp only [qmulV, bradfordQ]; apply ne_of_gt; linarith)
    (by simp only [qmulV, bradfordQ]; apply ne_of_gt; linarith)
    (by simp only [qmulV, bradfordQ]; apply ne_of_gt; linarith)
  rw [hw] at h
  obtain ⟨⟨_, h0⟩, ⟨_, h1⟩, ⟨_, h2⟩⟩ := h
  obtain ⟨⟨_, dl0, du0⟩, ⟨_, dl1, du1⟩, ⟨_, dl2, du2⟩⟩ := hd
  have b0 : |toQ b32 wd.1| ≤ 22 / 10 := by rw [abs_le]; constructor <;> linarith
  have b1 : |toQ b32 wd.2.1| ≤ 22 / 10 := by rw [abs_le]; constructor <;> linarith
  have b2 : |toQ b32 wd.2.2| ≤ 22 / 10 := by rw [abs_le]; constructor <;> linarith
  have n : (22:ℚ) / 10 / 2 ^ 24 + 2 / 10 ^ 11 ≤ 14 / 100000000 := by norm_num
  have d0 : |toQ b32 wd.1| / 2 ^ 24 ≤ 22 / 10 / 2 ^ 24 := div_le_div_of_nonneg_right b0 (by positivity)
  have d1 : |toQ b32 wd.2.1| / 2 ^ 24 ≤ 22 / 10 / 2 ^ 24 := div_le_div_of_nonneg_right b1 (by positivity)
  have d2 : |toQ b32 wd.2.2| / 2 ^ 24 ≤ 22 / 10 / 2 ^ 24 := div_le_div_of_nonneg_right b2 (by positivity)
  exact ⟨by linarith, by linarith, by linarith⟩

/-! ### the exact adaptation obeys the field laws of `C12.lean` (bridge between the two matrix representations) -/

/-- rows of rationals → the column-major algebraic matrix of `C20.lean`/`C12.lean` -/
def toAlg (q : QM) : Alg.M3 ℚ :=
  ⟨⟨q.1.1, q.2.1.1, q.2.2.1⟩, ⟨q.1.2.1, q.2.1.2.1, q.2.2.2.1⟩, ⟨q.1.2.2, q.2.1.2.2, q.2.2.2.2⟩⟩

def vAlg (v : Q3) : Alg.V3 ℚ := ⟨v.1, v.2.1, v.2.2⟩

theorem toAlg_bradford : toAlg bradfordQ = Alg.bradfordQ := by
  unfold toAlg bradfordQ Alg.bradfordQ; rfl

theorem bradford_NM : Alg.mulM (toAlg (qinv bradfordQ)) Alg.bradfordQ = Alg.one := by
  ext <;> norm_num [Alg.mulM, Alg.transpose, Alg.dot, Alg.one, toAlg, qinv, qdet, bradfordQ, Alg.bradfordQ]

theorem bradford_MN : Alg.mulM Alg.bradfordQ (toAlg (qinv bradfordQ)) = Alg.one := by
  ext <;> norm_num [Alg.mulM, Alg.transpose, Alg.dot, Alg.one, toAlg, qinv, qdet, bradfordQ, Alg.bradfordQ]

/-- `adaptExact` is `Alg.adapt` with the Bradford matrix and its exact inverse -/
theorem adaptExact_alg (a b : Q3) :
    toAlg (adaptExact a b) = Alg.adapt Alg.bradfordQ (toAlg (qinv bradfordQ)) (vAlg a) (vAlg b) := by
  obtain ⟨a0, a1, a2⟩ := a
  obtain ⟨b0, b1, b2⟩ := b
  rw [← toAlg_bradford]
  unfold adaptExact
  generalize qinv bradfordQ = N
  generalize bradfordQ = M
  obtain ⟨⟨n00, n01, n02⟩, ⟨n10, n11, n12⟩, ⟨n20, n21, n22⟩⟩ := N
  obtain ⟨⟨m00, m01, m02⟩, ⟨m10, m11, m12⟩, ⟨m20, m21, m22⟩⟩ := M
  simp only [qmulM, qmulV, toAlg, Alg.adapt, Alg.mulM, Alg.mulV, Alg.transpose, Alg.dot, Alg.diag, vAlg]

theorem vAlg_valid (w : Q3) (h0 : (6:ℚ) / 10 ≤ w.1 ∧ w.1 ≤ 14 / 10) (h1 : (9:ℚ) / 10 ≤ w.2.1 ∧ w.2.1 ≤ 11 / 10)
    (h2 : (2:ℚ) / 10 ≤ w.2.2 ∧ w.2.2 ≤ 22 / 10) : Alg.Valid Alg.bradfordQ (vAlg w) := by
  unfold Alg.Valid Alg.mulV Alg.bradfordQ vAlg
  refine ⟨?_, ?_, ?_⟩ <;> (simp only; apply ne_of_gt; linarith [h0.1, h0.2, h1.1, h1.2, h2.1, h2.2])

/-- **C12 (exact laws on the box).** For whites in the box the exact adaptation — which the float matrix is within
`10⁻¹²` of, entry by entry — is the identity from a white to itself, composes (`A→B` then `B→C` is `A→C`) and inverts
(`A→B` then `B→A` is the identity). -/
theorem C12_exact_laws (a b c : Q3)
    (ha : ((6:ℚ) / 10 ≤ a.1 ∧ a.1 ≤ 14 / 10) ∧ ((9:ℚ) / 10 ≤ a.2.1 ∧ a.2.1 ≤ 11 / 10) ∧ ((2:ℚ) / 10 ≤ a.2.2 ∧ a.2.2 ≤ 22 / 10))
    (hb : ((6:ℚ) / 10 ≤ b.1 ∧ b.1 ≤ 14 / 10) ∧ ((9:ℚ) / 10 ≤ b.2.1 ∧ b.2.1 ≤ 11 / 10) ∧ ((2:ℚ) / 10 ≤ b.2.2 ∧ b.2.2 ≤ 22 / 10)) :
    toAlg (adaptExact a a) = Alg.one ∧
    Alg.mulM (toAlg (adaptExact b c)) (toAlg (adaptExact a b)) = toAlg (adaptExact a c) ∧
    Alg.mulM (toAlg (adaptExact b a)) (toAlg (adaptExact a b)) = Alg.one := by
  have va := vAlg_valid a ha.1 ha.2.1 ha.2.2
  have vb := vAlg_valid b hb.1 hb.2.1 hb.2.2
  simp only [adaptExact_alg]
  exact ⟨Alg.C12_identity _ _ bradford_NM _ va, Alg.C12_compose _ _ bradford_MN _ _ _ vb,
    Alg.C12_inverse _ _ bradford_MN bradford_NM _ _ va vb⟩

/-- **C12 (identity in floating point).** For every white in the box, every entry of the float64 matrix adapting
the white to itself is within `10⁻¹²` of the identity matrix. -/
theorem C12_identity_float_box (w : Nat × Nat × Nat) (hw : InWhiteBox w) (c r : Nat) (hc : c < 3) (hr : r < 3) :
    |toQ b64 (Mat.at_ (Xyz.adaptXYZ w w) c r) - (if c = r then 1 else 0)| ≤ adaptTol := by
  have h := (C12_adapt_float_box w w hw hw c r hc hr).2
  have hl := (C12_exact_laws (toQ b32 w.1, toQ b32 w.2.1, toQ b32 w.2.2) (toQ b32 w.1, toQ b32 w.2.1, toQ b32 w.2.2) (0, 0, 0)
    ⟨⟨hw.1.2.1, hw.1.2.2⟩, ⟨hw.2.1.2.1, hw.2.1.2.2⟩, ⟨hw.2.2.2.1, hw.2.2.2.2⟩⟩
    ⟨⟨hw.1.2.1, hw.1.2.2⟩, ⟨hw.2.1.2.1, hw.2.1.2.2⟩, ⟨hw.2.2.2.1, hw.2.2.2.2⟩⟩).1
  have hent : qmAt (adaptExact (toQ b32 w.1, toQ b32 w.2.1, toQ b32 w.2.2) (toQ b32 w.1, toQ b32 w.2.1, toQ b32 w.2.2)) r c = (if c = r then 1 else 0) := by
    have h1 := congrArg (fun m => (m.c0.x, m.c0.y, m.c0.z, m.c1.x, m.c1.y, m.c1.z, m.c2.x, m.c2.y, m.c2.z)) hl
    simp only [toAlg, Alg.one, Prod.mk.injEq] at h1
    obtain ⟨e00, e10, e20, e01, e11, e21, e02, e12, e22⟩ := h1
    rcases (by omega : c = 0 ∨ c = 1 ∨ c = 2) with rfl | rfl | rfl <;>
    rcases (by omega : r = 0 ∨ r = 1 ∨ r = 2) with rfl | rfl | rfl <;> simp [qmAt, *]
  rw [hent] at h
  exact h

/-- non-vacuity: the library's own D65 and D50 constants (as float32 bit patterns) are in the box -/
example : InWhiteBox (0x3f735200, 0x3f800000, 0x3f8b5ec8) ∧ InWhiteBox (0x3f76d5d0, 0x3f800000, 0x3f5339c1) := by
  refine ⟨⟨⟨⟨by decide +kernel, by decide +kernel⟩, by decide +kernel, by decide +kernel⟩,
      ⟨⟨by decide +kernel, by decide +kernel⟩, by decide +kernel, by decide +kernel⟩,
      ⟨⟨by decide +kernel, by decide +kernel⟩, by decide +kernel, by decide +kernel⟩⟩,
    ⟨⟨⟨by decide +kernel, by decide +kernel⟩, by decide +kernel, by decide +kernel⟩,
      ⟨⟨by decide +kernel, by decide +kernel⟩, by decide +kernel, by decide +kernel⟩,
      ⟨⟨by decide +kernel, by decide +kernel⟩, by decide +kernel, by decide +kernel⟩⟩⟩

end Prism
