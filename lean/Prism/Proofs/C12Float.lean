import Prism.Proofs.C04Float

/-!
# C12 — `ChromaticAdaptation.Apply` in floating point, for every float32 colour

For the two adaptations the four supported spaces use (D65 → D50 and D50 → D65, the matrices the
real code computes, regenerated bit for bit), `Apply` — float32 → float64, matrix–vector product in
float64, → float32 — is within `3·10⁻⁷·M + 10⁻⁴⁰` of the **exact Bradford adaptation** between the
declared white points applied to the same colour, for every triple of finite float32 components with
`|·| ≤ M ≤ 2¹⁰⁰` (`C12_apply_float`).  In particular it acts linearly up to that bound, and the source
white lands within `3·10⁻⁷·1.1` of the destination white (the exact adaptation maps white to white:
`C12_white_to_white`).  The general statement over all white-point pairs is the field theorem of
`C12.lean` plus the correspondence; this file covers the float evaluation for the library's own pairs.
-/

namespace Prism
open SF SF.EC Prism.Ops

/-- `Apply` of a fixed matrix on three float32 variables -/
def applyOnlyE (l : List Nat) : Ex × Ex × Ex := applyE l (.var 0, .var 1, .var 2)

theorem apply_is_expr (x y z : Nat) :
    (Xyz.apply (listToM3 Gen.adaptD65toD50) (x, y, z) =
      (evalSF (envOf x y z) (applyOnlyE Gen.adaptD65toD50).1, evalSF (envOf x y z) (applyOnlyE Gen.adaptD65toD50).2.1,
       evalSF (envOf x y z) (applyOnlyE Gen.adaptD65toD50).2.2)) ∧
    (Xyz.apply (listToM3 Gen.adaptD50toD65) (x, y, z) =
      (evalSF (envOf x y z) (applyOnlyE Gen.adaptD50toD65).1, evalSF (envOf x y z) (applyOnlyE Gen.adaptD50toD65).2.1,
       evalSF (envOf x y z) (applyOnlyE Gen.adaptD50toD65).2.2)) := ⟨rfl, rfl⟩

/-- the exact Bradford adaptation between the declared whites of two spaces -/
def adaptRefQ (src dst : Space) : QM := adaptExact (whiteXYZ src) (whiteXYZ dst)

theorem apply_ok :
    rowsOk (applyOnlyE Gen.adaptD65toD50) (qmRow (adaptRefQ .srgb .prophoto)) [1, 1, 1] (3 / 10000000) (1 / 10 ^ 40) = true ∧
    rowsOk (applyOnlyE Gen.adaptD50toD65) (qmRow (adaptRefQ .prophoto .srgb)) [1, 1, 1] (3 / 10000000) (1 / 10 ^ 40) = true := by
  constructor <;> decide +kernel

/-- **C12 (`Apply` in floating point, D65 → D50, every float32 colour).** -/
theorem C12_apply_float_D65_D50 (x y z : Nat) (M : ℚ) (hM0 : 0 ≤ M) (hM : M ≤ 2 ^ 100)
    (hx : SF.Fin b32 x ∧ |toQ b32 x| ≤ M) (hy : SF.Fin b32 y ∧ |toQ b32 y| ≤ M) (hz : SF.Fin b32 z ∧ |toQ b32 z| ≤ M) :
    let c := Xyz.apply (listToM3 Gen.adaptD65toD50) (x, y, z)
    let R := adaptRefQ .srgb .prophoto
    (SF.Fin b32 c.1 ∧ |toQ b32 c.1 - rowApply (qmRow R 0) (toQ b32 x) (toQ b32 y) (toQ b32 z)| ≤ 3 / 10000000 * M + 1 / 10 ^ 40) ∧
    (SF.Fin b32 c.2.1 ∧ |toQ b32 c.2.1 - rowApply (qmRow R 1) (toQ b32 x) (toQ b32 y) (toQ b32 z)| ≤ 3 / 10000000 * M + 1 / 10 ^ 40) ∧
    (SF.Fin b32 c.2.2 ∧ |toQ b32 c.2.2 - rowApply (qmRow R 2) (toQ b32 x) (toQ b32 y) (toQ b32 z)| ≤ 3 / 10000000 * M + 1 / 10 ^ 40) := by
  intro c R
  have he : c = _ := (apply_is_expr x y z).1
  have henv := env3 x y z M 1 1 1 hM0 (by simpa using hx) (by simpa using hy) (by simpa using hz) (by norm_num)
  have h := fun k hk => rowsOk_sound (applyOnlyE Gen.adaptD65toD50) (qmRow (adaptRefQ .srgb .prophoto)) [1, 1, 1] _ _ apply_ok.1 m111 M hM0 hM (envOf x y z) henv k hk
  have h0 := h 0 (by omega)
  have h1 := h 1 (by omega)
  have h2 := h 2 (by omega)
  rw [linSum_qmRow] at h0 h1 h2
  rw [he]
  exact ⟨h0, h1, h2⟩

/-- **C12 (`Apply` in floating point, D50 → D65, every float32 colour).** -/
theorem C12_apply_float_D50_D65 (x y z : Nat) (M : ℚ) (hM0 : 0 ≤ M) (hM : M ≤ 2 ^ 100)
    (hx : SF.Fin b32 x ∧ |toQ b32 x| ≤ M) (hy : SF.Fin b32 y ∧ |toQ b32 y| ≤ M) (hz : SF.Fin b32 z ∧ |toQ b32 z| ≤ M) :
    let c := Xyz.apply (listToM3 Gen.adaptD50toD65) (x, y, z)
    let R := adaptRefQ .prophoto .srgb
    (SF.Fin b32 c.1 ∧ |toQ b32 c.1 - rowApply (qmRow R 0) (toQ b32 x) (toQ b32 y) (toQ b32 z)| ≤ 3 / 10000000 * M + 1 / 10 ^ 40) ∧
    (SF.Fin b32 c.2.1 ∧ |toQ b32 c.2.1 - rowApply (qmRow R 1) (toQ b32 x) (toQ b32 y) (toQ b32 z)| ≤ 3 / 10000000 * M + 1 / 10 ^ 40) ∧
    (SF.Fin b32 c.2.2 ∧ |toQ b32 c.2.2 - rowApply (qmRow R 2) (toQ b32 x) (toQ b32 y) (toQ b32 z)| ≤ 3 / 10000000 * M + 1 / 10 ^ 40) := by
  intro c R
  have he : c = _ := (apply_is_expr x y z).2
  have henv := env3 x y z M 1 1 1 hM0 (by simpa using hx) (by simpa using hy) (by simpa using hz) (by norm_num)
  have h := fun k hk => rowsOk_sound (applyOnlyE Gen.adaptD50toD65) (qmRow (adaptRefQ .prophoto .srgb)) [1, 1, 1] _ _ apply_ok.2 m111 M hM0 hM (envOf x y z) henv k hk
  have h0 := h 0 (by omega)
  have h1 := h 1 (by omega)
  have h2 := h 2 (by omega)
  rw [linSum_qmRow] at h0 h1 h2
  rw [he]
  exact ⟨h0, h1, h2⟩

/-- the exact adaptation maps the declared source white exactly onto the declared destination white
(closed rational computation on the regenerated chromaticities) -/
theorem C12_exact_white_to_white :
    qmulV (adaptRefQ .srgb .prophoto) (whiteXYZ .srgb) = whiteXYZ .prophoto ∧
    qmulV (adaptRefQ .prophoto .srgb) (whiteXYZ .prophoto) = whiteXYZ .srgb := by
  constructor <;> decide +kernel

end Prism
