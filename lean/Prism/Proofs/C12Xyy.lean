import Prism.Proofs.C20Box

/-!
# C12 — the xyY constructor (`AdaptBetweenXYYWhitePoints`) on a region of chromaticities

`AdaptBetweenXYYWhitePoints(src, dst)` converts both xyY whites to XYZ in float32 (`ColorFromXYY`) and calls the XYZ
constructor — in the model by definition (`xyy_is_xyz`: the two constructors give the same adaptation).  For
chromaticities in a region of the diagram — a union of 0.01 × 0.01 cells, each checked by the kernel with the interval
calculus — the float32 XYZ whites are finite and lie in the white box of `C12Box`, so the whole of `C12Box` applies to the
xyY constructor too: entries within `10⁻¹²` of the exact Bradford adaptation between the computed whites, white onto
white, identity.
-/

namespace Prism
open SF SF.IC
open SF.EC (FT)

/-- the two constructors give the same adaptation (the xyY one is the XYZ one on `ColorFromXYY` of its arguments) -/
theorem C12_xyy_is_xyz (src dst : Nat × Nat × Nat) :
    Xyz.adaptXYY src dst = Xyz.adaptXYZ (Xyz.fromXYY src.1 src.2.1 src.2.2) (Xyz.fromXYY dst.1 dst.2.1 dst.2.2) := rfl

/-- cell `(i, j)`: `x ∈ [i/100, (i+1)/100]`, `y ∈ [j/100, (j+1)/100]`, luminance exactly 1 (inputs 0, 1, 2) -/
def cellBox (i j : Nat) : Nat → ℚ × ℚ := fun k =>
  match k % 3 with
  | 0 => ((i : ℚ) / 100, ((i : ℚ) + 1) / 100)
  | 1 => ((j : ℚ) / 100, ((j : ℚ) + 1) / 100)
  | _ => (1, 1)

/-- the interval calculus shows the float32 XYZ of every chromaticity in the cell to be inside the white box -/
def cellOk (i j : Nat) : Bool :=
  let ok := fun (e : Ex) (lo hi : ℚ) =>
    match absI (cellBox i j) e with
    | some (.s, v) => decide (lo ≤ v.lo - v.err) && decide (v.hi + v.err ≤ hi)
    | _ => false
  ok (BoxE.fromXYY 0).1 (6 / 10) (14 / 10) && ok (BoxE.fromXYY 0).2.1 (9 / 10) (11 / 10) && ok (BoxE.fromXYY 0).2.2 (2 / 10) (22 / 10)

/-- the accepted cells among `x ∈ [0.24, 0.50]`, `y ∈ [0.24, 0.44]` -/
def regionCells : List (Nat × Nat) :=
  ((List.range 26).flatMap fun a => (List.range 20).map fun b => (24 + a, 24 + b)).filter fun p => cellOk p.1 p.2

theorem regionCells_ok : ∀ p ∈ regionCells, cellOk p.1 p.2 = true := by
  intro p hp
  unfold regionCells at hp
  exact (List.mem_filter.mp hp).2

/-- an xyY white (float32 `x, y, Y`) whose chromaticity lies in an accepted cell, with `Y = 1` -/
def InRegion (w : Nat × Nat × Nat) : Prop :=
  ∃ p ∈ regionCells, Fin b32 w.1 ∧ Fin b32 w.2.1 ∧ Fin b32 w.2.2 ∧
    (p.1 : ℚ) / 100 ≤ toQ b32 w.1 ∧ toQ b32 w.1 ≤ ((p.1 : ℚ) + 1) / 100 ∧
    (p.2 : ℚ) / 100 ≤ toQ b32 w.2.1 ∧ toQ b32 w.2.1 ≤ ((p.2 : ℚ) + 1) / 100 ∧ toQ b32 w.2.2 = 1

theorem region_in_white_box (w : Nat × Nat × Nat) (h : InRegion w) : InWhiteBox (Xyz.fromXYY w.1 w.2.1 w.2.2) := by
  obtain ⟨p, hp, f0, f1, f2, x1, x2, y1, y2, hY⟩ := h
  have hc := regionCells_ok p hp
  set env : Nat → Nat := fun k => match k % 3 with | 0 => w.1 | 1 => w.2.1 | _ => w.2.2 with henvd
  have henv : ∀ k, Fin b32 (env k) ∧ (cellBox p.1 p.2 k).1 ≤ toQ b32 (env k) ∧ toQ b32 (env k) ≤ (cellBox p.1 p.2 k).2 := by
    intro k
    have h3 : k % 3 < 3 := Nat.mod_lt _ (by norm_num)
    simp only [henvd, cellBox]
    rcases (by omega : k % 3 = 0 ∨ k % 3 = 1 ∨ k % 3 = 2) with h | h | h <;> simp only [h]
    · exact ⟨f0, x1, x2⟩
    · exact ⟨f1, y1, y2⟩
    · exact ⟨f2, by rw [hY], by rw [hY]⟩
  have e0 : (Xyz.fromXYY w.1 w.2.1 w.2.2).1 = evalSF env (BoxE.fromXYY 0).1 := rfl
  have e1 : (Xyz.fromXYY w.1 w.2.1 w.2.2).2.1 = evalSF env (BoxE.fromXYY 0).2.1 := rfl
  have e2 : (Xyz.fromXYY w.1 w.2.1 w.2.2).2.2 = evalSF env (BoxE.fromXYY 0).2.2 := rfl
  unfold cellOk at hc
  simp only [Bool.and_eq_true] at hc
  obtain ⟨⟨c0, c1⟩, c2⟩ := hc
  have use : ∀ (e : Ex) (lo hi : ℚ),
      (match absI (cellBox p.1 p.2) e with
        | some (.s, v) => decide (lo ≤ v.lo - v.err) && decide (v.hi + v.err ≤ hi)
        | _ => false) = true →
      Fin b32 (evalSF env e) ∧ lo ≤ toQ b32 (evalSF env e) ∧ toQ b32 (evalSF env e) ≤ hi := by
    intro e lo hi hh
    split at hh
    · rename_i v hv
      have s := absI_sound (cellBox p.1 p.2) env henv e _ _ hv
      rw [Bool.and_eq_true] at hh
      have l1 : lo ≤ v.lo - v.err := by simpa using hh.1
      have l2 : v.hi + v.err ≤ hi := by simpa using hh.2
      have h1 := abs_le.mp s.err
      simp only [FT.fmt] at h1
      exact ⟨s.fin, by linarith [s.lo, h1.1], by linarith [s.hi, h1.2]⟩
    · exact absurd hh (by simp)
  unfold InWhiteBox
  rw [e0, e1, e2]
  exact ⟨use _ _ _ c0, use _ _ _ c1, use _ _ _ c2⟩

/-- **C12 (xyY constructor, every pair of chromaticities in the region).**  The matrix `AdaptBetweenXYYWhitePoints`
computes is, entry by entry, finite and within `10⁻¹²` of the exact Bradford adaptation between the float32 XYZ whites
`ColorFromXYY` produced from the two chromaticities. -/
theorem C12_adapt_xyy_region (src dst : Nat × Nat × Nat) (hs : InRegion src) (hd : InRegion dst)
    (c r : Nat) (hc : c < 3) (hr : r < 3) :
    let ws := Xyz.fromXYY src.1 src.2.1 src.2.2
    let wd := Xyz.fromXYY dst.1 dst.2.1 dst.2.2
    Fin b64 (Mat.at_ (Xyz.adaptXYY src dst) c r) ∧
    |toQ b64 (Mat.at_ (Xyz.adaptXYY src dst) c r) -
      qmAt (adaptExact (toQ b32 ws.1, toQ b32 ws.2.1, toQ b32 ws.2.2) (toQ b32 wd.1, toQ b32 wd.2.1, toQ b32 wd.2.2)) r c| ≤ adaptTol := by
  intro ws wd
  rw [C12_xyy_is_xyz]
  exact C12_adapt_float_box ws wd (region_in_white_box src hs) (region_in_white_box dst hd) c r hc hr

/-- the region is not empty, and contains the cells of D65 (0.3127, 0.3290) and D50 (0.3457, 0.3585) -/
theorem region_has_D65_D50 : (31, 32) ∈ regionCells ∧ (34, 35) ∈ regionCells ∧ 200 ≤ regionCells.length := by decide +kernel

end Prism
