import Prism.Spec.Lab
import Mathlib.Tactic.Linarith
import Mathlib.Tactic.Positivity
import Mathlib.Tactic.FieldSimp
import Mathlib.Tactic.Ring
import Mathlib.Tactic.NormNum
import Mathlib.Algebra.Order.Ring.Basic

/-!
# C13 — CIE Lab conversion matches the CIE definition and round-trips

Exact theorems about the CIE definition over ℝ (`Prism/Spec/Lab.lean`).  The float code
(`Prism/Model/Xyz.lean`: `toLAB`, `fromLAB`) is tied to the Go code bit-for-bit given the
`math.Pow` results it observed, and each observed result is checked against `PowSpec`
(relative error ≤ 2⁻⁴⁸ of the exact cube / cube root) in exact rational arithmetic on every
correspondence line.  The distance between the float `ToLAB` and this real-valued definition is
proved in `C13Float.lean` (forward) and `C13FloatInv.lean` (inverse and round trip) under exactly
that `PowSpec` hypothesis.
-/

namespace Prism.Lab
open Real

theorem eps_pos : (0 : ℝ) < eps := by unfold eps; norm_num
theorem kappa_pos : (0 : ℝ) < kappa := by unfold kappa; norm_num
theorem kappa_mul_eps : kappa * eps = 8 := by unfold kappa eps; norm_num
theorem eps_eq_cube : eps = (6 / 29 : ℝ) ^ 3 := by unfold eps; norm_num

/-- cube root of a cube -/
theorem cbrt_cube {u : ℝ} (hu : 0 ≤ u) : (u ^ 3) ^ ((1 : ℝ) / 3) = u := by
  rw [← Real.rpow_natCast u 3, ← Real.rpow_mul hu]
  norm_num

theorem cube_cbrt {t : ℝ} (ht : 0 ≤ t) : (t ^ ((1 : ℝ) / 3)) ^ 3 = t := by
  rw [← Real.rpow_natCast (t ^ ((1 : ℝ) / 3)) 3, ← Real.rpow_mul ht]
  norm_num

/-- **C13 (junction).** The two branches agree where they meet: `(κ·ε + 16)/116 = ε^(1/3) = 6/29`,
so the conversion is continuous across the linear/cube-root junction. -/
theorem C13_junction : (kappa * eps + 16) / 116 = eps ^ ((1 : ℝ) / 3) := by
  rw [kappa_mul_eps, eps_eq_cube, cbrt_cube (by norm_num)]
  norm_num

theorem f_one : f 1 = 1 := by
  unfold f
  have : (1 : ℝ) > eps := by unfold eps; norm_num
  rw [if_pos this, Real.one_rpow]

/-- **C13 (white).** The reference white maps to `(100, 0, 0)`. -/
theorem C13_white (xn yn zn : ℝ) (hx : xn ≠ 0) (hy : yn ≠ 0) (hz : zn ≠ 0) :
    toLab xn yn zn xn yn zn = ⟨100, 0, 0⟩ := by
  unfold toLab
  rw [div_self hx, div_self hy, div_self hz, f_one]
  norm_num

/-- **C13 (greys).** Any multiple of the white has `a* = b* = 0`. -/
theorem C13_grey (k xn yn zn : ℝ) (hx : xn ≠ 0) (hy : yn ≠ 0) (hz : zn ≠ 0) :
    (toLab (k * xn) (k * yn) (k * zn) xn yn zn).a = 0 ∧ (toLab (k * xn) (k * yn) (k * zn) xn yn zn).b = 0 := by
  unfold toLab
  simp only
  rw [mul_div_assoc, mul_div_assoc, mul_div_assoc, div_self hx, div_self hy, div_self hz]
  constructor <;> ring

/-- the companding function is monotone (both branches are, and they meet at the junction) -/
theorem f_mono {s t : ℝ} (h : s ≤ t) : f s ≤ f t := by
  unfold f
  by_cases hs : s > eps
  · have ht : t > eps := lt_of_lt_of_le hs h
    rw [if_pos hs, if_pos ht]
    exact Real.rpow_le_rpow (le_of_lt (lt_trans eps_pos hs)) h (by norm_num)
  · rw [if_neg hs]
    by_cases ht : t > eps
    · rw [if_pos ht]
      -- linear piece at s ≤ ε is ≤ its value at ε = ε^(1/3) ≤ t^(1/3)
      have h1 : (kappa * s + 16) / 116 ≤ (kappa * eps + 16) / 116 := by
        have : kappa * s ≤ kappa * eps := mul_le_mul_of_nonneg_left (not_lt.mp hs) kappa_pos.le
        linarith
      have h2 : eps ^ ((1 : ℝ) / 3) ≤ t ^ ((1 : ℝ) / 3) :=
        Real.rpow_le_rpow eps_pos.le ht.le (by norm_num)
      rw [C13_junction] at h1
      exact le_trans h1 h2
    · rw [if_neg ht]
      have : kappa * s ≤ kappa * t := mul_le_mul_of_nonneg_left h kappa_pos.le
      linarith

/-- **C13 (L\* is non-decreasing in Y).** -/
theorem C13_L_mono (x z xn yn zn : ℝ) (hyn : 0 < yn) {y y' : ℝ} (h : y ≤ y') :
    (toLab x y z xn yn zn).L ≤ (toLab x y' z xn yn zn).L := by
  unfold toLab
  simp only
  have : f (y / yn) ≤ f (y' / yn) := f_mono (div_le_div_of_nonneg_right h hyn.le)
  linarith

/-- **C13 (round trip).** `finv ∘ f = id`: converting back inverts the conversion, on the whole
real line (negative ratios included). -/
theorem C13_finv_f (t : ℝ) : finv (f t) = t := by
  unfold f
  by_cases ht : t > eps
  · rw [if_pos ht]
    have h0 : 0 ≤ t := le_of_lt (lt_trans eps_pos ht)
    unfold finv
    rw [cube_cbrt h0, if_pos ht]
  · rw [if_neg ht]
    have hle : t ≤ eps := not_lt.mp ht
    set u := (kappa * t + 16) / 116 with hu
    have hub : u ≤ 6 / 29 := by
      have : kappa * t ≤ kappa * eps := mul_le_mul_of_nonneg_left hle kappa_pos.le
      rw [kappa_mul_eps] at this
      rw [hu]; linarith
    have hcube : ¬ u ^ 3 > eps := by
      rw [eps_eq_cube, not_lt]
      -- odd power is monotone
      exact (Odd.pow_le_pow (by decide : Odd 3)).mpr hub
    unfold finv
    rw [if_neg hcube, hu]
    have hk := kappa_pos.ne'
    field_simp
    ring

/-- and the other way round on the range of `f` -/
theorem C13_f_finv (u : ℝ) (hu : 0 ≤ u) : f (finv u) = u := by
  unfold finv
  by_cases h : u ^ 3 > eps
  · rw [if_pos h]
    unfold f
    rw [if_pos h, cbrt_cube hu]
  · rw [if_neg h]
    have hle : u ^ 3 ≤ eps := not_lt.mp h
    have hub : u ≤ 6 / 29 := by
      rw [eps_eq_cube] at hle
      exact (Odd.pow_le_pow (by decide : Odd 3)).mp hle
    have hk := kappa_pos
    have hlin : (116 * u - 16) / kappa ≤ eps := by
      rw [div_le_iff₀ hk, mul_comm eps kappa, kappa_mul_eps]; linarith
    unfold f
    rw [if_neg (not_lt.mpr hlin)]
    field_simp
    ring

/-- non-vacuity: a colour on each side of the junction -/
example : f 0 = 16 / 116 := by
  unfold f; rw [if_neg (by have := eps_pos; linarith)]; simp

end Prism.Lab
