import Prism.Proofs.Lemmas.LabReal
import Prism.Float.QuantBucket
import Prism.Model.Xyz
import Prism.Driver.FloatOps

/-!
# C13 — `Color.ToLAB` in floating point, for every float32 colour and white (given `PowSpec`)

`math.Pow` is an external function: the model receives its observed results as arguments and the
driver validates each used result against `cbrtOk` (`|p³ − r| ≤ 2⁻⁴⁸·r`, exact rational arithmetic) on
every correspondence line.  Under exactly that hypothesis this file proves that the float code —
float32 → float64, division by the white, the branch on `r > ε`, the linear piece or the observed cube
root, `116·fy − 16`, `500·(fx − fy)`, `200·(fy − fz)`, → float32 — is within one float32 rounding (plus
`2⁻³⁰`) of the CIE 1976 definition over ℝ (`Prism.Lab.toLab`), for every finite float32 colour and every
positive finite float32 white (subnormal components included) with `|X/Xn|, |Y/Yn|, |Z/Zn| ≤ 64`; and
hence within `10⁻³` when the ratios lie in `[−2, 64]` (`C13_toLAB_float`).
-/

set_option exponentiation.threshold 2200

namespace Prism
open SF

theorem le_top64 {q : ℚ} (h : q ≤ 2 ^ 130) : q ≤ ((2 ^ 1023 : Nat) : ℚ) := by
  refine le_trans h ?_
  push_cast
  exact pow_le_pow_right₀ (by norm_num : (1:ℚ) ≤ 2) (by norm_num : 130 ≤ 1023)

theorem eps64 : eps b64 = 1 / 2 ^ 53 := by unfold eps b64; norm_num
theorem eta64 : eta b64 = 1 / 2 ^ 1075 := by unfold eta Fmt.K Fmt.bias b64; norm_num

/-- a finite float32 is below `2^128` in magnitude -/
theorem fin32_le (v : Nat) (hv : Fin b32 v) : |toQ b32 v| ≤ 2 ^ 128 := by
  rw [abs_toQ, ← valQ_abs]
  have hs := infBits_lt_signBit b32 b32_ok
  have ha : absBits b32 v < b32.signBit := by have := hv.1; omega
  rw [valQ_eq_w b32 _ ha]
  have hm := wOf_mono b32 (absBits b32 v) b32.infBits (Nat.le_of_lt hv.1)
  have hi : wOf b32 b32.infBits = 2 ^ 128 * 2 ^ b32.K := by decide +kernel
  rw [div_le_iff₀ (by positivity)]
  have : ((wOf b32 (absBits b32 v) : Nat) : ℚ) ≤ ((2 ^ 128 * 2 ^ b32.K : Nat) : ℚ) := by
    rw [← hi]; exact_mod_cast hm
  push_cast at this
  exact this

/-- a positive finite float32 is at least the least subnormal `2^-149` -/
theorem pos32_ge (w : Nat) (hw : Fin b32 w) (h0 : 0 < toQ b32 w) : 1 / 2 ^ 149 ≤ toQ b32 w := by
  have hneg : isNeg b32 w = false := by
    by_contra hc
    have : isNeg b32 w = true := by simpa using hc
    unfold toQ at h0; rw [this] at h0
    have := valQ_nonneg b32 w
    simp at h0; linarith
  have hlt : w < b32.signBit := by
    unfold isNeg at hneg
    by_contra hc
    have : Nat.ble b32.signBit w = true := Nat.ble_eq_true_of_le (Nat.le_of_not_lt hc)
    rw [this] at hneg; exact Bool.noConfusion hneg
  have hq : toQ b32 w = valQ b32 w := by unfold toQ; rw [hneg]; simp
  rw [hq] at h0 ⊢
  rw [valQ_eq_w b32 w hlt] at h0 ⊢
  have hw1 : 1 ≤ wOf b32 w := by
    by_contra hc
    have : wOf b32 w = 0 := by omega
    rw [this] at h0; simp at h0
  have hK : ((2:ℚ) ^ b32.K) = 2 ^ 150 := by unfold Fmt.K Fmt.bias b32; norm_num
  rw [hK, div_le_div_iff₀ (by positivity) (by positivity)]
  have : (1:ℚ) ≤ (wOf b32 w : ℚ) := by exact_mod_cast hw1
  have h2 : (2:ℚ) ≤ (wOf b32 w : ℚ) ∨ (wOf b32 w : ℚ) = 1 := by
    rcases Nat.lt_or_ge (wOf b32 w) 2 with h | h
    · right; have : wOf b32 w = 1 := by omega
      rw [this]; norm_num
    · left; exact_mod_cast h
  rcases h2 with h2 | h2
  · nlinarith
  · -- wOf is always even for a float32 pattern (the least subnormal has w = 2)
    exfalso
    have hev : 2 ∣ wOf b32 w := by
      unfold wOf
      split
      · exact Dvd.dvd.mul_left (by norm_num) _
      · rename_i hne
        have : 1 ≤ w / 2 ^ b32.M := Nat.pos_of_ne_zero hne
        exact Dvd.dvd.mul_left (dvd_pow_self 2 (by omega)) _
    have : wOf b32 w = 1 := by exact_mod_cast h2
    omega

theorem toQ_ne_zero_abs (f : Fmt) (b : Nat) (h : toQ f b ≠ 0) : absBits f b ≠ 0 := by
  intro hc
  apply h
  have : valQ f b = 0 := by rw [← valQ_abs, hc, valQ_zero]
  unfold toQ; rw [this]; simp

theorem le_of_blt_false {x y : Nat} (h : Nat.blt x y = false) : y ≤ x := by
  apply Nat.le_of_not_lt
  intro hl
  rw [← Nat.blt_eq] at hl
  rw [h] at hl
  exact Bool.noConfusion hl

/-- decoding is monotone in the magnitude bits -/
theorem valQ_mono (f : Fmt) (a b : Nat) (h : absBits f a ≤ absBits f b) : valQ f a ≤ valQ f b := by
  have hb : absBits f b < f.signBit := Nat.mod_lt _ (signBit_pos f)
  have hv := valLe_of_le f _ _ hb h
  unfold valLe at hv
  rw [num_abs, num_abs, den_abs, den_abs] at hv
  unfold valQ
  rw [div_le_div_iff₀ (by exact_mod_cast den_pos' f a) (by exact_mod_cast den_pos' f b)]
  exact_mod_cast hv

/-- what the comparison `lt` says about the values of finite operands (weak form: enough wherever the
two sides of a branch agree at the threshold) -/
theorem lt_sem (f : Fmt) (a b : Nat) (ha : Fin f a) (hb : Fin f b) :
    (SF.lt f a b = true → toQ f a ≤ toQ f b) ∧ (SF.lt f a b = false → toQ f b ≤ toQ f a) := by
  obtain ⟨a1, _⟩ := fin_flags f a ha
  obtain ⟨b1, _⟩ := fin_flags f b hb
  have hva := valQ_nonneg f a
  have hvb := valQ_nonneg f b
  unfold SF.lt
  simp only [force_eq, a1, b1, Bool.or_self, Bool.false_eq_true, if_false]
  by_cases hz : (isZero f a && isZero f b) = true
  · simp only [hz, if_true]
    refine ⟨fun h => Bool.noConfusion h, fun _ => ?_⟩
    rw [Bool.and_eq_true] at hz
    have za : valQ f a = 0 := by
      have : absBits f a = 0 := by unfold isZero at hz; simpa using hz.1
      rw [← valQ_abs, this, valQ_zero]
    have zb : valQ f b = 0 := by
      have : absBits f b = 0 := by unfold isZero at hz; simpa using hz.2
      rw [← valQ_abs, this, valQ_zero]
    unfold toQ; rw [za, zb]; simp
  · simp only [hz, Bool.false_eq_true, if_false]
    unfold toQ
    cases hna : isNeg f a <;> cases hnb : isNeg f b <;> simp
    · -- both non-negative
      constructor
      · intro h; exact valQ_mono f a b (Nat.le_of_lt h)
      · intro h; exact valQ_mono f b a (le_of_blt_false h)
    · linarith
    · linarith
    · constructor
      · intro h; exact valQ_mono f b a (Nat.le_of_lt h)
      · intro h; exact valQ_mono f a b (le_of_blt_false h)

theorem valQ_inf64 : valQ b64 b64.infBits = 2 ^ 1024 := by
  have hs := infBits_lt_signBit b64 b64_ok
  rw [valQ_eq_w b64 _ hs]
  have hi : wOf b64 b64.infBits = 2 ^ 1024 * 2 ^ b64.K := by decide +kernel
  rw [hi]; push_cast
  rw [mul_div_assoc, div_self (by positivity), mul_one]
  norm_num

/-- what the driver's `PowSpec` check on an observed `math.Pow(x, 1/3)` result says, for a finite `x ≤ 130` -/
theorem cbrtOk_spec (x p : Nat) (hxle : valQ b64 x ≤ 130) (h : Prism.Ops.cbrtOk x p = true) :
    Fin b64 p ∧ toQ b64 p = valQ b64 p ∧ toQ b64 x = valQ b64 x ∧
    |valQ b64 p ^ 3 - valQ b64 x| ≤ valQ b64 x / 2 ^ 48 := by
  unfold Prism.Ops.cbrtOk at h
  by_cases hfl : (isNaN b64 x || isNaN b64 p || isNeg b64 x || isNeg b64 p) = true
  · rw [if_pos hfl] at h; exact Bool.noConfusion h
  · rw [if_neg hfl] at h
    simp only [Bool.or_eq_true, not_or, Bool.not_eq_true] at hfl
    obtain ⟨⟨⟨nx, np⟩, sx⟩, sp⟩ := hfl
    have hineq : |valQ b64 p ^ 3 - valQ b64 x| ≤ valQ b64 x / 2 ^ 48 := by
      have hdp : (0:ℚ) < den b64 p := by exact_mod_cast den_pos' b64 p
      have hdx : (0:ℚ) < den b64 x := by exact_mod_cast den_pos' b64 x
      simp only [decide_eq_true_eq] at h
      unfold valQ
      have hD : (0:ℚ) < (den b64 p : ℚ) ^ 3 * den b64 x := by positivity
      have e1 : ((num b64 p : ℚ) / den b64 p) ^ 3 - (num b64 x : ℚ) / den b64 x
          = (((num b64 p) ^ 3 * den b64 x : Nat) - ((num b64 x) * (den b64 p) ^ 3 : Nat) : ℚ) / ((den b64 p : ℚ) ^ 3 * den b64 x) := by
        push_cast; field_simp
      have e2 : (num b64 x : ℚ) / den b64 x / 2 ^ 48 = (((num b64 x) * (den b64 p) ^ 3 : Nat) : ℚ) / 2 ^ 48 / ((den b64 p : ℚ) ^ 3 * den b64 x) := by
        push_cast; field_simp
      rw [e1, e2, abs_div, abs_of_pos hD, div_le_div_iff_of_pos_right hD, le_div_iff₀ (by positivity)]
      set l := num b64 p ^ 3 * den b64 x with hl
      set r := num b64 x * den b64 p ^ 3 with hr
      split at h
      · rename_i hge
        have : ((l - r : Nat) : ℚ) = (l : ℚ) - r := by push_cast [Nat.cast_sub hge]; ring
        rw [abs_of_nonneg (by rw [← this]; positivity), ← this]
        exact_mod_cast h
      · rename_i hlt
        have hle : l ≤ r := Nat.le_of_lt (Nat.lt_of_not_le hlt)
        have : ((r - l : Nat) : ℚ) = (r : ℚ) - l := by push_cast [Nat.cast_sub hle]; ring
        rw [abs_sub_comm, abs_of_nonneg (by rw [← this]; positivity), ← this]
        exact_mod_cast h
    have hpq : toQ b64 p = valQ b64 p := by unfold toQ; rw [sp]; simp
    have hxq : toQ b64 x = valQ b64 x := by unfold toQ; rw [sx]; simp
    refine ⟨?_, hpq, hxq, hineq⟩
    -- p is not an infinity: its cube is at most 131
    have hp3 : valQ b64 p ^ 3 ≤ 131 := by
      have := (abs_le.mp hineq).2
      have hx0 := valQ_nonneg b64 x
      have : valQ b64 x / 2 ^ 48 ≤ 1 := by
        rw [div_le_one (by positivity)]; linarith [show (130:ℚ) ≤ 2 ^ 48 by norm_num]
      linarith
    have hp0 := valQ_nonneg b64 p
    have hple : valQ b64 p ≤ 131 := by
      by_contra hc
      have hgt : 131 < valQ b64 p := lt_of_not_ge hc
      nlinarith [sq_nonneg (valQ b64 p)]
    have hs := infBits_lt_signBit b64 b64_ok
    have hnan : absBits b64 p ≤ b64.infBits := by
      unfold isNaN at np
      exact le_of_blt_false np
    have hne : absBits b64 p ≠ b64.infBits := by
      intro hc
      have : valQ b64 p = 2 ^ 1024 := by rw [← valQ_abs, hc, valQ_inf64]
      rw [this] at hple
      have : (131:ℚ) < 2 ^ 1024 := by norm_num
      linarith
    have hlt2 : p < 2 * b64.signBit := by
      unfold isNeg at sp
      have : p < b64.signBit := Nat.not_le.mp (fun hle => by
        rw [Nat.ble_eq_true_of_le hle] at sp; exact Bool.noConfusion sp)
      omega
    exact ⟨by omega, hlt2⟩

/-! ### the constants of `ciexyz/color.go` as the compiler rounds them -/

open Prism.Xyz in
theorem c116_val : Fin b64 c116 ∧ toQ b64 c116 = 116 := ⟨⟨by decide +kernel, by decide +kernel⟩, by decide +kernel⟩
open Prism.Xyz in
theorem c16_val : Fin b64 c16 ∧ toQ b64 c16 = 16 := ⟨⟨by decide +kernel, by decide +kernel⟩, by decide +kernel⟩
open Prism.Xyz in
theorem c500_val : Fin b64 c500 ∧ toQ b64 c500 = 500 := ⟨⟨by decide +kernel, by decide +kernel⟩, by decide +kernel⟩
open Prism.Xyz in
theorem c200_val : Fin b64 c200 ∧ toQ b64 c200 = 200 := ⟨⟨by decide +kernel, by decide +kernel⟩, by decide +kernel⟩
open Prism.Xyz in
theorem cK_val : Fin b64 cK ∧ |toQ b64 cK - 24389 / 27| ≤ 1 / 2 ^ 40 ∧ 0 ≤ toQ b64 cK ∧ toQ b64 cK ≤ 904 :=
  ⟨⟨by decide +kernel, by decide +kernel⟩, by decide +kernel, by decide +kernel, by decide +kernel⟩
open Prism.Xyz in
theorem cE_val : Fin b64 cE ∧ (216:ℚ) / 24389 ≤ toQ b64 cE ∧ toQ b64 cE ≤ 216 / 24389 + 1 / 2 ^ 58 :=
  ⟨⟨by decide +kernel, by decide +kernel⟩, by decide +kernel, by decide +kernel⟩

/-- arithmetic core of the linear piece -/
theorem lin_core (R k m a d e η : ℚ) (hR : |R| ≤ 130) (hk : |k - 24389 / 27| ≤ 1 / 2 ^ 40) (hk0 : 0 ≤ k) (hk1 : k ≤ 904)
    (he0 : 0 < e) (he : e ≤ 1 / 2 ^ 53) (hη0 : 0 ≤ η) (hη : η ≤ e)
    (hm : |m - k * R| ≤ |k * R| * e + η) (ha : |a - (m + 16)| ≤ |m + 16| * e + η)
    (hd : |d - a / 116| ≤ |a / 116| * e + η) :
    |d - ((24389 / 27) * R + 16) / 116| ≤ 1 / 2 ^ 36 ∧ |d| ≤ 1100 := by
  have hkR : |k * R| ≤ 117520 := by
    rw [abs_mul, abs_of_nonneg hk0]
    calc k * |R| ≤ 904 * 130 := mul_le_mul hk1 hR (abs_nonneg _) (by norm_num)
      _ = 117520 := by norm_num
  have hm1 : |m - k * R| ≤ 117521 * e := by nlinarith
  have hmabs : |m + 16| ≤ 117540 := by
    have h1 : |m + 16| ≤ |m - k * R| + |k * R| + 16 := by
      have := abs_add_le (m - k * R) (k * R + 16)
      have h2 := abs_add_le (k * R) 16
      rw [abs_of_pos (by norm_num : (0:ℚ) < 16)] at h2
      have : m + 16 = (m - k * R) + (k * R + 16) := by ring
      rw [this]; linarith
    have : (117521:ℚ) * e ≤ 1 := by nlinarith
    linarith
  have ha1 : |a - (m + 16)| ≤ 117541 * e := by nlinarith
  have haabs : |a| ≤ 117542 := by
    have h1 : |a| ≤ |a - (m + 16)| + |m + 16| := by
      have := abs_add_le (a - (m + 16)) (m + 16); simpa using this
    have : (117541:ℚ) * e ≤ 1 := by nlinarith
    linarith
  have ha116 : |a / 116| ≤ 1014 := by
    rw [abs_div, abs_of_pos (by norm_num : (0:ℚ) < 116), div_le_iff₀ (by norm_num)]
    linarith
  have hd1 : |d - a / 116| ≤ 1015 * e := by nlinarith
  have hkRR : |k * R - 24389 / 27 * R| ≤ 130 / 2 ^ 40 := by
    rw [← sub_mul, abs_mul]
    calc |k - 24389 / 27| * |R| ≤ 1 / 2 ^ 40 * 130 := mul_le_mul hk hR (abs_nonneg _) (by positivity)
      _ = 130 / 2 ^ 40 := by ring
  -- assemble
  have e1 : d - ((24389 / 27) * R + 16) / 116 =
      (d - a / 116) + ((a - (m + 16)) + (m - k * R) + (k * R - 24389 / 27 * R)) / 116 := by ring
  have t1 := abs_add_le (d - a / 116) (((a - (m + 16)) + (m - k * R) + (k * R - 24389 / 27 * R)) / 116)
  have t2 : |((a - (m + 16)) + (m - k * R) + (k * R - 24389 / 27 * R)) / 116| ≤
      (|a - (m + 16)| + |m - k * R| + |k * R - 24389 / 27 * R|) / 116 := by
    rw [abs_div, abs_of_pos (by norm_num : (0:ℚ) < 116)]
    apply div_le_div_of_nonneg_right _ (by norm_num : (0:ℚ) ≤ 116)
    have := abs_add_le ((a - (m + 16)) + (m - k * R)) (k * R - 24389 / 27 * R)
    have := abs_add_le (a - (m + 16)) (m - k * R)
    linarith
  constructor
  · rw [e1]
    have hE : (1015:ℚ) * e + (117541 * e + 117521 * e + 130 / 2 ^ 40) / 116 ≤ 1 / 2 ^ 36 := by
      have : e ≤ 1 / 2 ^ 53 := he
      have h3 : (1015:ℚ) * (1 / 2 ^ 53) + (117541 * (1 / 2 ^ 53) + 117521 * (1 / 2 ^ 53) + 130 / 2 ^ 40) / 116 ≤ 1 / 2 ^ 36 := by norm_num
      nlinarith
    have : (|a - (m + 16)| + |m - k * R| + |k * R - 24389 / 27 * R|) / 116 ≤ (117541 * e + 117521 * e + 130 / 2 ^ 40) / 116 := by
      apply div_le_div_of_nonneg_right _ (by norm_num : (0:ℚ) ≤ 116)
      linarith
    linarith
  · have h1 : |d| ≤ |d - a / 116| + |a / 116| := by
      have := abs_add_le (d - a / 116) (a / 116); simpa using this
    have : (1015:ℚ) * e ≤ 1 := by nlinarith
    linarith

/-- the linear piece `(κ·r + 16)/116` as the code evaluates it in float64 -/
theorem lin_acc (rr : Nat) (hr : Fin b64 rr) (hR : |toQ b64 rr| ≤ 130) :
    Fin b64 (SF.div b64 (SF.add b64 (SF.mul b64 Xyz.cK rr) Xyz.c16) Xyz.c116) ∧
    |toQ b64 (SF.div b64 (SF.add b64 (SF.mul b64 Xyz.cK rr) Xyz.c16) Xyz.c116) - ((24389 / 27) * toQ b64 rr + 16) / 116| ≤ 1 / 2 ^ 36 ∧
    |toQ b64 (SF.div b64 (SF.add b64 (SF.mul b64 Xyz.cK rr) Xyz.c16) Xyz.c116)| ≤ 1100 := by
  obtain ⟨fK, hK, hK0, hK1⟩ := cK_val
  obtain ⟨f16, v16⟩ := c16_val
  obtain ⟨f116, v116⟩ := c116_val
  have he0 := eps_pos b64
  have he : eps b64 ≤ 1 / 2 ^ 53 := by rw [eps64]
  have hη0 := (eta_pos b64).le
  have hη : eta b64 ≤ eps b64 := by rw [eps64, eta64]; norm_num
  have hkR : |toQ b64 Xyz.cK * toQ b64 rr| ≤ 117520 := by
    rw [abs_mul, abs_of_nonneg hK0]
    calc toQ b64 Xyz.cK * |toQ b64 rr| ≤ 904 * 130 := mul_le_mul hK1 hR (abs_nonneg _) (by norm_num)
      _ = 117520 := by norm_num
  obtain ⟨fm, hm⟩ := mul_acc b64 b64_ok (2 ^ 1023) top64 _ _ fK hr (le_top64 (le_trans hkR (by norm_num)))
  have hm1 : |toQ b64 (SF.mul b64 Xyz.cK rr) - toQ b64 Xyz.cK * toQ b64 rr| ≤ 1 := by
    have : (117520:ℚ) * eps b64 + eta b64 ≤ 1 := by rw [eps64, eta64]; norm_num
    nlinarith
  have hmabs : |toQ b64 (SF.mul b64 Xyz.cK rr) + toQ b64 Xyz.c16| ≤ 117540 := by
    rw [v16]
    have h1 := abs_add_le (toQ b64 (SF.mul b64 Xyz.cK rr) - toQ b64 Xyz.cK * toQ b64 rr) (toQ b64 Xyz.cK * toQ b64 rr + 16)
    have h2 := abs_add_le (toQ b64 Xyz.cK * toQ b64 rr) 16
    rw [abs_of_pos (by norm_num : (0:ℚ) < 16)] at h2
    have e : toQ b64 (SF.mul b64 Xyz.cK rr) + 16 = (toQ b64 (SF.mul b64 Xyz.cK rr) - toQ b64 Xyz.cK * toQ b64 rr) + (toQ b64 Xyz.cK * toQ b64 rr + 16) := by ring
    rw [e]; linarith
  obtain ⟨fa, ha⟩ := add_acc b64 b64_ok (2 ^ 1023) top64 _ _ fm f16 (le_top64 (le_trans hmabs (by norm_num)))
  rw [v16] at ha hmabs
  have haabs : |toQ b64 (SF.add b64 (SF.mul b64 Xyz.cK rr) Xyz.c16)| ≤ 117542 := by
    have h1 := abs_add_le (toQ b64 (SF.add b64 (SF.mul b64 Xyz.cK rr) Xyz.c16) - (toQ b64 (SF.mul b64 Xyz.cK rr) + 16)) (toQ b64 (SF.mul b64 Xyz.cK rr) + 16)
    have : (117540:ℚ) * eps b64 + eta b64 ≤ 1 := by rw [eps64, eta64]; norm_num
    have h2 : |toQ b64 (SF.add b64 (SF.mul b64 Xyz.cK rr) Xyz.c16) - (toQ b64 (SF.mul b64 Xyz.cK rr) + 16)| ≤ 1 := by nlinarith
    simp only [sub_add_cancel] at h1
    linarith
  have h116 : absBits b64 Xyz.c116 ≠ 0 := toQ_ne_zero_abs b64 _ (by rw [v116]; norm_num)
  have hq : |toQ b64 (SF.add b64 (SF.mul b64 Xyz.cK rr) Xyz.c16) / toQ b64 Xyz.c116| ≤ 1014 := by
    rw [v116, abs_div, abs_of_pos (by norm_num : (0:ℚ) < 116), div_le_iff₀ (by norm_num)]
    linarith
  obtain ⟨fd, hd⟩ := div_acc b64 b64_ok (2 ^ 1023) top64 _ _ fa f116 h116 (le_top64 (le_trans hq (by norm_num)))
  rw [v116] at hd
  obtain ⟨c1, c2⟩ := lin_core _ _ _ _ _ _ _ hR hK hK0 hK1 he0 he hη0 hη hm ha hd
  exact ⟨fd, c1, c2⟩

/-- the arithmetic core of `ratio_acc`, over abstract rationals -/
theorem ratio_core (x y A B e η : ℚ) (hy : 0 < y) (he0 : 0 < e) (he : e ≤ 1 / 1000) (_hη0 : 0 ≤ η) (hη : η ≤ e * y)
    (hC : |x| ≤ 64 * y) (hA : |A - x| ≤ |x| * e + η) (hB : |B - y| ≤ y * e + η) :
    0 < B ∧ |A / B| ≤ 130 ∧ |A / B - x / y| ≤ 386 * e := by
  have hxa := abs_nonneg x
  have hey : 0 < e * y := mul_pos he0 hy
  have hB1 : |B - y| ≤ 2 * (e * y) := by linarith
  have hBlo : y - 2 * (e * y) ≤ B := by have := (abs_le.mp hB1).1; linarith
  have hy2 : e * y ≤ y / 1000 := by nlinarith
  have hBhalf : y / 2 ≤ B := by linarith
  have hBpos : 0 < B := by linarith
  have hxe : |x| * e ≤ 64 * (e * y) := by nlinarith
  have hA1 : |A - x| ≤ 65 * (e * y) := by linarith
  have hAabs : |A| ≤ 65 * y := by
    have h1 : |A| ≤ |A - x| + |x| := by
      have := abs_add_le (A - x) x; simpa using this
    linarith
  refine ⟨hBpos, ?_, ?_⟩
  · rw [abs_div, abs_of_pos hBpos, div_le_iff₀ hBpos]
    linarith
  · have hyne : y ≠ 0 := ne_of_gt hy
    have hBne : B ≠ 0 := ne_of_gt hBpos
    have hdiff : A / B - x / y = ((A - x) * y - x * (B - y)) / (B * y) := by
      field_simp; ring
    have h1 : |(A - x) * y - x * (B - y)| ≤ |A - x| * y + |x| * |B - y| := by
      have := abs_sub ((A - x) * y) (x * (B - y))
      rw [abs_mul, abs_mul, abs_of_pos hy] at this
      exact this
    have h2 : |A - x| * y ≤ 65 * (e * y) * y := mul_le_mul_of_nonneg_right hA1 hy.le
    have h3 : |x| * |B - y| ≤ (64 * y) * (2 * (e * y)) := mul_le_mul hC hB1 (abs_nonneg _) (by positivity)
    have hnum : |(A - x) * y - x * (B - y)| ≤ 193 * e * (y * y) := by nlinarith
    have hden : y * y / 2 ≤ B * y := by nlinarith
    rw [hdiff, abs_div, abs_of_pos (mul_pos hBpos hy), div_le_iff₀ (mul_pos hBpos hy)]
    have hyy : 0 < y * y := mul_pos hy hy
    nlinarith

/-- `float64(v) / float64(w)` for float32 `v`, positive float32 `w` with `|v| ≤ 64·w`: finite, and within
`2⁻⁴³` of the exact ratio (two conversions, one division) -/
theorem ratio_acc (v w : Nat) (hv : Fin b32 v) (hw : Fin b32 w) (hw0 : 0 < toQ b32 w)
    (hC : |toQ b32 v| ≤ 64 * toQ b32 w) :
    Fin b64 (SF.div b64 (cvt b32 b64 v) (cvt b32 b64 w)) ∧
    |toQ b64 (SF.div b64 (cvt b32 b64 v) (cvt b32 b64 w)) - toQ b32 v / toQ b32 w| ≤ 1 / 2 ^ 43 := by
  have hy1 := pos32_ge w hw hw0
  obtain ⟨fA, hA⟩ := cvt_acc b32 b64 b32_ok b64_ok (2 ^ 1023) top64 v hv
    (le_top64 (le_trans (fin32_le v hv) (by norm_num)))
  obtain ⟨fB, hB⟩ := cvt_acc b32 b64 b32_ok b64_ok (2 ^ 1023) top64 w hw
    (le_top64 (le_trans (fin32_le w hw) (by norm_num)))
  rw [abs_of_pos hw0] at hB
  have he0 : 0 < eps b64 := eps_pos b64
  have hη0 : 0 ≤ eta b64 := (eta_pos b64).le
  have he : eps b64 ≤ 1 / 1000 := by rw [eps64]; norm_num
  have hηy : eta b64 ≤ eps b64 * toQ b32 w := by
    have : eta b64 ≤ eps b64 * (1 / 2 ^ 149) := by rw [eps64, eta64]; norm_num
    exact le_trans this (mul_le_mul_of_nonneg_left hy1 he0.le)
  obtain ⟨hBpos, hq, hq2⟩ := ratio_core _ _ _ _ _ _ hw0 he0 he hη0 hηy hC hA hB
  have hB0 : absBits b64 (cvt b32 b64 w) ≠ 0 := toQ_ne_zero_abs b64 _ (ne_of_gt hBpos)
  obtain ⟨fR, hR⟩ := div_acc b64 b64_ok (2 ^ 1023) top64 _ _ fA fB hB0 (le_top64 (le_trans hq (by norm_num)))
  refine ⟨fR, ?_⟩
  have hηe : eta b64 ≤ eps b64 := by rw [eps64, eta64]; norm_num
  have hR2 : |toQ b64 (SF.div b64 (cvt b32 b64 v) (cvt b32 b64 w)) - toQ b64 (cvt b32 b64 v) / toQ b64 (cvt b32 b64 w)| ≤ 131 * eps b64 := by
    nlinarith
  have htri := abs_sub_le (toQ b64 (SF.div b64 (cvt b32 b64 v) (cvt b32 b64 w))) (toQ b64 (cvt b32 b64 v) / toQ b64 (cvt b32 b64 w)) (toQ b32 v / toQ b32 w)
  have : (517:ℚ) * eps b64 ≤ 1 / 2 ^ 43 := by rw [eps64]; norm_num
  linarith

theorem K_lt : Lab.K ≤ 8 := by unfold Lab.K; norm_num

theorem cbrt_le_five {t : ℝ} (h0 : 0 ≤ t) (h : t ≤ 125) : t ^ ((1:ℝ)/3) ≤ 5 := by
  have := Real.rpow_le_rpow h0 h (by norm_num : (0:ℝ) ≤ 1 / 3)
  have e : (125:ℝ) ^ ((1:ℝ)/3) = 5 := by
    have h := Lab.cbrt_cube (u := 5) (by norm_num)
    have e5 : (5:ℝ) ^ 3 = 125 := by norm_num
    rwa [e5] at h
  rwa [e] at this

/-- **One component of `ToLAB`**: `componentToLAB(v, w)` — with the observed `math.Pow` result accepted by the
driver's `PowSpec` check when the power branch is taken — is finite and within `2⁻³⁴` of the CIE companding
function of the exact ratio `v/w`. -/
theorem comp_acc (v w p : Nat) (hv : Fin b32 v) (hw : Fin b32 w) (hw0 : 0 < toQ b32 w)
    (hC : |toQ b32 v| ≤ 64 * toQ b32 w)
    (hp : (Xyz.componentToLAB v w p).2.2 = true → Ops.cbrtOk (Xyz.componentToLAB v w p).2.1 p = true) :
    Fin b64 (Xyz.componentToLAB v w p).1 ∧
    |((toQ b64 (Xyz.componentToLAB v w p).1 : ℚ) : ℝ) - Lab.f (((toQ b32 v : ℚ) : ℝ) / ((toQ b32 w : ℚ) : ℝ))| ≤ 1 / 2 ^ 34 ∧
    |Lab.f (((toQ b32 v : ℚ) : ℝ) / ((toQ b32 w : ℚ) : ℝ))| ≤ 513 := by
  obtain ⟨fr, hr⟩ := ratio_acc v w hv hw hw0 hC
  obtain ⟨fE, hE1, hE2⟩ := cE_val
  have hρ : |toQ b32 v / toQ b32 w| ≤ 64 := by
    rw [abs_div, abs_of_pos hw0, div_le_iff₀ hw0]; exact hC
  have hRabs : |toQ b64 (SF.div b64 (cvt b32 b64 v) (cvt b32 b64 w))| ≤ 65 := by
    have h1 := abs_add_le (toQ b64 (SF.div b64 (cvt b32 b64 v) (cvt b32 b64 w)) - toQ b32 v / toQ b32 w) (toQ b32 v / toQ b32 w)
    simp only [sub_add_cancel] at h1
    have : (1:ℚ) / 2 ^ 43 ≤ 1 := by norm_num
    linarith
  -- real-valued versions
  have hrR : |((toQ b64 (SF.div b64 (cvt b32 b64 v) (cvt b32 b64 w)) : ℚ) : ℝ) - ((toQ b32 v : ℚ) : ℝ) / ((toQ b32 w : ℚ) : ℝ)| ≤ 1 / 2 ^ 43 := by
    have := (Rat.cast_le (K := ℝ)).mpr hr
    push_cast at this
    exact this
  have hρR : |((toQ b32 v : ℚ) : ℝ) / ((toQ b32 w : ℚ) : ℝ)| ≤ 64 := by
    have := (Rat.cast_le (K := ℝ)).mpr hρ
    push_cast at this
    exact this
  have hRabsR : |((toQ b64 (SF.div b64 (cvt b32 b64 v) (cvt b32 b64 w)) : ℚ) : ℝ)| ≤ 65 := by
    have := (Rat.cast_le (K := ℝ)).mpr hRabs
    push_cast at this
    exact this
  have hfb : |Lab.f (((toQ b32 v : ℚ) : ℝ) / ((toQ b32 w : ℚ) : ℝ))| ≤ 513 := by
    have := Lab.f_abs_le hρR
    have hK := K_lt
    nlinarith
  have hlip := Lab.f_lipschitz (((toQ b32 v : ℚ) : ℝ) / ((toQ b32 w : ℚ) : ℝ)) ((toQ b64 (SF.div b64 (cvt b32 b64 v) (cvt b32 b64 w)) : ℚ) : ℝ)
  have hlip2 : |Lab.f ((toQ b64 (SF.div b64 (cvt b32 b64 v) (cvt b32 b64 w)) : ℚ) : ℝ) - Lab.f (((toQ b32 v : ℚ) : ℝ) / ((toQ b32 w : ℚ) : ℝ))| ≤ 8 / 2 ^ 43 := by
    have hK := K_lt
    have h0 := abs_nonneg (((toQ b64 (SF.div b64 (cvt b32 b64 v) (cvt b32 b64 w)) : ℚ) : ℝ) - ((toQ b32 v : ℚ) : ℝ) / ((toQ b32 w : ℚ) : ℝ))
    nlinarith
  have hcomp : Xyz.componentToLAB v w p =
      if SF.gt b64 (SF.div b64 (cvt b32 b64 v) (cvt b32 b64 w)) Xyz.cE = true then (p, SF.div b64 (cvt b32 b64 v) (cvt b32 b64 w), true)
      else (SF.div b64 (SF.add b64 (SF.mul b64 Xyz.cK (SF.div b64 (cvt b32 b64 v) (cvt b32 b64 w))) Xyz.c16) Xyz.c116, SF.div b64 (cvt b32 b64 v) (cvt b32 b64 w), false) := rfl
  have hsem := lt_sem b64 Xyz.cE (SF.div b64 (cvt b32 b64 v) (cvt b32 b64 w)) fE fr
  have hgtdef : SF.gt b64 (SF.div b64 (cvt b32 b64 v) (cvt b32 b64 w)) Xyz.cE = SF.lt b64 Xyz.cE (SF.div b64 (cvt b32 b64 v) (cvt b32 b64 w)) := rfl
  generalize hrr : SF.div b64 (cvt b32 b64 v) (cvt b32 b64 w) = rr at *
  have hepsq : ((216 / 24389 : ℚ) : ℝ) = Lab.eps := by unfold Lab.eps; push_cast; ring
  cases hgt : SF.gt b64 rr Xyz.cE
  · -- linear piece
    rw [hgt] at hcomp
    simp only [Bool.false_eq_true, if_false] at hcomp
    rw [hcomp] at hp ⊢
    simp only
    rw [hgtdef] at hgt
    have hRle := hsem.2 hgt
    obtain ⟨fd, hd, _⟩ := lin_acc rr fr (le_trans hRabs (by norm_num))
    refine ⟨fd, ?_, hfb⟩
    have hdR : |((toQ b64 (SF.div b64 (SF.add b64 (SF.mul b64 Xyz.cK rr) Xyz.c16) Xyz.c116) : ℚ) : ℝ) - Lab.lin ((toQ b64 rr : ℚ) : ℝ)| ≤ 1 / 2 ^ 36 := by
      have := (Rat.cast_le (K := ℝ)).mpr hd
      push_cast at this
      have e : Lab.lin ((toQ b64 rr : ℚ) : ℝ) = (24389 / 27 * ((toQ b64 rr : ℚ) : ℝ) + 16) / 116 := by
        unfold Lab.lin Lab.kappa; ring
      rw [e]; exact this
    have hRleR : ((toQ b64 rr : ℚ) : ℝ) ≤ Lab.eps + 1 / 2 ^ 58 := by
      have := (Rat.cast_le (K := ℝ)).mpr (le_trans hRle hE2)
      push_cast at this
      rw [← hepsq]; push_cast; exact this
    have hlf : |Lab.lin ((toQ b64 rr : ℚ) : ℝ) - Lab.f ((toQ b64 rr : ℚ) : ℝ)| ≤ 8 / 2 ^ 58 := by
      by_cases hle : ((toQ b64 rr : ℚ) : ℝ) ≤ Lab.eps
      · rw [Lab.f_of_le hle]; simp; positivity
      · have hge : Lab.eps ≤ ((toQ b64 rr : ℚ) : ℝ) := le_of_lt (not_le.mp hle)
        have := Lab.lin_near_f hge
        have hK := K_lt
        nlinarith
    have t1 := abs_sub_le (((toQ b64 (SF.div b64 (SF.add b64 (SF.mul b64 Xyz.cK rr) Xyz.c16) Xyz.c116) : ℚ) : ℝ)) (Lab.lin ((toQ b64 rr : ℚ) : ℝ)) (Lab.f (((toQ b32 v : ℚ) : ℝ) / ((toQ b32 w : ℚ) : ℝ)))
    have t2 := abs_sub_le (Lab.lin ((toQ b64 rr : ℚ) : ℝ)) (Lab.f ((toQ b64 rr : ℚ) : ℝ)) (Lab.f (((toQ b32 v : ℚ) : ℝ) / ((toQ b32 w : ℚ) : ℝ)))
    have : (1:ℝ) / 2 ^ 36 + (8 / 2 ^ 58 + 8 / 2 ^ 43) ≤ 1 / 2 ^ 34 := by norm_num
    linarith
  · -- power branch: the observed cube root
    rw [hgt] at hcomp
    simp only [if_true] at hcomp
    rw [hcomp] at hp ⊢
    simp only at hp ⊢
    rw [hgtdef] at hgt
    have hRge := hsem.1 hgt
    have hvle : valQ b64 rr ≤ 130 := by rw [← abs_toQ]; linarith
    obtain ⟨fp, hpq, hxq, hin⟩ := cbrtOk_spec rr p hvle (hp trivial)
    refine ⟨fp, ?_, hfb⟩
    rw [← hpq, ← hxq] at hin
    have hP0 : (0:ℝ) ≤ ((toQ b64 p : ℚ) : ℝ) := by
      rw [hpq]; exact_mod_cast valQ_nonneg b64 p
    have hRgeR : Lab.eps ≤ ((toQ b64 rr : ℚ) : ℝ) := by
      have := (Rat.cast_le (K := ℝ)).mpr (le_trans hE1 hRge)
      rw [← hepsq]; exact this
    have hinR : |((toQ b64 p : ℚ) : ℝ) ^ 3 - ((toQ b64 rr : ℚ) : ℝ)| ≤ ((toQ b64 rr : ℚ) : ℝ) * (1 / 2 ^ 48) := by
      have := (Rat.cast_le (K := ℝ)).mpr hin
      push_cast at this
      rw [mul_one_div]; exact this
    have hclose := Lab.cbrt_close hRgeR hP0 hinR
    have hR0 : (0:ℝ) ≤ ((toQ b64 rr : ℚ) : ℝ) := le_trans Lab.eps_pos.le hRgeR
    have h5 := cbrt_le_five hR0 (by have := (abs_le.mp hRabsR).2; linarith)
    have hq0 : (0:ℝ) ≤ ((toQ b64 rr : ℚ) : ℝ) ^ ((1:ℝ)/3) := Real.rpow_nonneg hR0 _
    rw [← Lab.f_of_ge hRgeR] at hclose h5 hq0
    have t1 := abs_sub_le (((toQ b64 p : ℚ) : ℝ)) (Lab.f ((toQ b64 rr : ℚ) : ℝ)) (Lab.f (((toQ b32 v : ℚ) : ℝ) / ((toQ b32 w : ℚ) : ℝ)))
    have h48 : Lab.f ((toQ b64 rr : ℚ) : ℝ) * (1 / 2 ^ 48) ≤ 5 / 2 ^ 48 := by nlinarith
    have : (5:ℝ) / 2 ^ 48 + 8 / 2 ^ 43 ≤ 1 / 2 ^ 34 := by norm_num
    linarith


theorem eps32' : eps b32 = 1 / 2 ^ 24 := by unfold eps b32; norm_num
theorem eta32' : eta b32 ≤ 1 / 2 ^ 100 := eta32_le

theorem le_top32 {q : ℚ} (h : q ≤ 2 ^ 100) : q ≤ ((2 ^ 127 : Nat) : ℚ) := by
  refine le_trans h ?_
  push_cast
  exact pow_le_pow_right₀ (by norm_num : (1:ℚ) ≤ 2) (by norm_num : 100 ≤ 127)

/-- the final rounding to float32 of a float64 value `S` that is within `d` of a real target `T` -/
theorem final32 (s : Nat) (hs : Fin b64 s) (T : ℝ) (d : ℝ) (hd0 : 0 ≤ d) (hd : d ≤ 1 / 2 ^ 24) (hT : |T| ≤ 2 ^ 20)
    (h : |((toQ b64 s : ℚ) : ℝ) - T| ≤ d) :
    Fin b32 (cvt b64 b32 s) ∧ |((toQ b32 (cvt b64 b32 s) : ℚ) : ℝ) - T| ≤ |T| / 2 ^ 24 + 1 / 2 ^ 23 := by
  have hS : |((toQ b64 s : ℚ) : ℝ)| ≤ |T| + d := by
    have := abs_add_le (((toQ b64 s : ℚ) : ℝ) - T) T
    simp only [sub_add_cancel] at this
    linarith
  have hSq : |toQ b64 s| ≤ 2 ^ 100 := by
    have h1 : |((toQ b64 s : ℚ) : ℝ)| ≤ 2 ^ 100 := by
      have : (2:ℝ) ^ 20 + 1 / 2 ^ 24 ≤ 2 ^ 100 := by norm_num
      linarith
    have : ((|toQ b64 s| : ℚ) : ℝ) ≤ ((2 ^ 100 : ℚ) : ℝ) := by push_cast; exact h1
    exact (Rat.cast_le (K := ℝ)).mp this
  obtain ⟨fo, ho⟩ := cvt_acc b64 b32 b64_ok b32_ok (2 ^ 127) top32 s hs (le_top32 hSq)
  refine ⟨fo, ?_⟩
  have hoR : |((toQ b32 (cvt b64 b32 s) : ℚ) : ℝ) - ((toQ b64 s : ℚ) : ℝ)| ≤ |((toQ b64 s : ℚ) : ℝ)| * (1 / 2 ^ 24) + 1 / 2 ^ 100 := by
    have h1 : |toQ b32 (cvt b64 b32 s) - toQ b64 s| ≤ |toQ b64 s| * (1 / 2 ^ 24) + 1 / 2 ^ 100 := by
      rw [eps32'] at ho
      have := eta32'
      linarith
    have := (Rat.cast_le (K := ℝ)).mpr h1
    push_cast at this
    exact this
  have t := abs_sub_le (((toQ b32 (cvt b64 b32 s) : ℚ) : ℝ)) (((toQ b64 s : ℚ) : ℝ)) T
  have h3 : |((toQ b64 s : ℚ) : ℝ)| * (1 / 2 ^ 24) ≤ (|T| + d) * (1 / 2 ^ 24) :=
    mul_le_mul_of_nonneg_right hS (by positivity)
  have h4 : d * (1 / 2 ^ 24) + 1 / 2 ^ 100 + d ≤ 1 / 2 ^ 23 := by
    have : d * (1 / 2 ^ 24) ≤ 1 / 2 ^ 24 * (1 / 2 ^ 24) := mul_le_mul_of_nonneg_right hd (by positivity)
    have : (1:ℝ) / 2 ^ 24 * (1 / 2 ^ 24) + 1 / 2 ^ 100 + 1 / 2 ^ 24 ≤ 1 / 2 ^ 23 := by norm_num
    linarith
  have e : (|T| + d) * (1 / 2 ^ 24) = |T| / 2 ^ 24 + d * (1 / 2 ^ 24) := by ring
  linarith

/-- `float32(116·fy − 16)` -/
theorem out_L (fy : Nat) (hf : Fin b64 fy) (F : ℝ) (hF : |F| ≤ 513) (hφ : |((toQ b64 fy : ℚ) : ℝ) - F| ≤ 1 / 2 ^ 34) :
    Fin b32 (cvt b64 b32 (SF.sub b64 (SF.mul b64 Xyz.c116 fy) Xyz.c16)) ∧
    |((toQ b32 (cvt b64 b32 (SF.sub b64 (SF.mul b64 Xyz.c116 fy) Xyz.c16)) : ℚ) : ℝ) - (116 * F - 16)| ≤ |116 * F - 16| / 2 ^ 24 + 1 / 2 ^ 23 := by
  obtain ⟨f16, v16⟩ := c16_val
  obtain ⟨f116, v116⟩ := c116_val
  have hφabs : |toQ b64 fy| ≤ 514 := by
    have h1 : |((toQ b64 fy : ℚ) : ℝ)| ≤ 514 := by
      have := abs_add_le (((toQ b64 fy : ℚ) : ℝ) - F) F
      simp only [sub_add_cancel] at this
      have : (1:ℝ) / 2 ^ 34 ≤ 1 := by norm_num
      linarith
    have : ((|toQ b64 fy| : ℚ) : ℝ) ≤ ((514 : ℚ) : ℝ) := by push_cast; exact h1
    exact (Rat.cast_le (K := ℝ)).mp this
  have hprod : |toQ b64 Xyz.c116 * toQ b64 fy| ≤ 59624 := by
    rw [v116, abs_mul, abs_of_pos (by norm_num : (0:ℚ) < 116)]; linarith
  obtain ⟨fm, hm⟩ := mul_acc b64 b64_ok (2 ^ 1023) top64 _ _ f116 hf (le_top64 (le_trans hprod (by norm_num)))
  rw [v116] at hm hprod
  have he : (59624:ℚ) * eps b64 + eta b64 ≤ 1 / 2 ^ 37 := by rw [eps64, eta64]; norm_num
  have hm1 : |toQ b64 (SF.mul b64 Xyz.c116 fy) - 116 * toQ b64 fy| ≤ 1 / 2 ^ 37 := by
    have := eps_pos b64
    nlinarith
  have hmabs : |toQ b64 (SF.mul b64 Xyz.c116 fy) - toQ b64 Xyz.c16| ≤ 59641 := by
    rw [v16]
    have h1 := abs_add_le (toQ b64 (SF.mul b64 Xyz.c116 fy) - 116 * toQ b64 fy) (116 * toQ b64 fy - 16)
    have h2 := abs_sub (116 * toQ b64 fy) 16
    rw [abs_of_pos (by norm_num : (0:ℚ) < 16)] at h2
    have e : toQ b64 (SF.mul b64 Xyz.c116 fy) - 16 = (toQ b64 (SF.mul b64 Xyz.c116 fy) - 116 * toQ b64 fy) + (116 * toQ b64 fy - 16) := by ring
    rw [e]
    have : (1:ℚ) / 2 ^ 37 ≤ 1 := by norm_num
    linarith
  obtain ⟨fs, hs⟩ := sub_acc b64 b64_ok (2 ^ 1023) top64 _ _ fm f16 (le_top64 (le_trans hmabs (by norm_num)))
  rw [v16] at hs hmabs
  have he2 : (59641:ℚ) * eps b64 + eta b64 ≤ 1 / 2 ^ 37 := by rw [eps64, eta64]; norm_num
  have hs1 : |toQ b64 (SF.sub b64 (SF.mul b64 Xyz.c116 fy) Xyz.c16) - (toQ b64 (SF.mul b64 Xyz.c116 fy) - 16)| ≤ 1 / 2 ^ 37 := by
    have := eps_pos b64
    nlinarith
  -- to ℝ
  have hm1R := (Rat.cast_le (K := ℝ)).mpr hm1
  have hs1R := (Rat.cast_le (K := ℝ)).mpr hs1
  push_cast at hm1R hs1R
  have hd : |((toQ b64 (SF.sub b64 (SF.mul b64 Xyz.c116 fy) Xyz.c16) : ℚ) : ℝ) - (116 * F - 16)| ≤ 1 / 2 ^ 26 := by
    have e : ((toQ b64 (SF.sub b64 (SF.mul b64 Xyz.c116 fy) Xyz.c16) : ℚ) : ℝ) - (116 * F - 16) =
        (((toQ b64 (SF.sub b64 (SF.mul b64 Xyz.c116 fy) Xyz.c16) : ℚ) : ℝ) - (((toQ b64 (SF.mul b64 Xyz.c116 fy) : ℚ) : ℝ) - 16))
        + ((((toQ b64 (SF.mul b64 Xyz.c116 fy) : ℚ) : ℝ) - 116 * ((toQ b64 fy : ℚ) : ℝ)) + 116 * (((toQ b64 fy : ℚ) : ℝ) - F)) := by ring
    rw [e]
    have t1 := abs_add_le (((toQ b64 (SF.sub b64 (SF.mul b64 Xyz.c116 fy) Xyz.c16) : ℚ) : ℝ) - (((toQ b64 (SF.mul b64 Xyz.c116 fy) : ℚ) : ℝ) - 16))
      ((((toQ b64 (SF.mul b64 Xyz.c116 fy) : ℚ) : ℝ) - 116 * ((toQ b64 fy : ℚ) : ℝ)) + 116 * (((toQ b64 fy : ℚ) : ℝ) - F))
    have t2 := abs_add_le (((toQ b64 (SF.mul b64 Xyz.c116 fy) : ℚ) : ℝ) - 116 * ((toQ b64 fy : ℚ) : ℝ)) (116 * (((toQ b64 fy : ℚ) : ℝ) - F))
    have t3 : |116 * (((toQ b64 fy : ℚ) : ℝ) - F)| ≤ 116 * (1 / 2 ^ 34) := by
      rw [abs_mul, abs_of_pos (by norm_num : (0:ℝ) < 116)]
      exact mul_le_mul_of_nonneg_left hφ (by norm_num)
    have : (1:ℝ) / 2 ^ 37 + (1 / 2 ^ 37 + 116 * (1 / 2 ^ 34)) ≤ 1 / 2 ^ 26 := by norm_num
    linarith
  have hT : |116 * F - 16| ≤ 2 ^ 20 := by
    have h2 := abs_sub (116 * F) 16
    rw [abs_mul, abs_of_pos (by norm_num : (0:ℝ) < 116), abs_of_pos (by norm_num : (0:ℝ) < 16)] at h2
    have : (116:ℝ) * 513 + 16 ≤ 2 ^ 20 := by norm_num
    nlinarith
  exact final32 _ fs _ (1 / 2 ^ 26) (by positivity) (by norm_num) hT hd


/-- `float32(c·(f1 − f2))` for `c = 500` or `200` -/
theorem out_ab (c : Nat) (cv : ℚ) (hc : Fin b64 c ∧ toQ b64 c = cv) (hcv0 : 0 < cv) (hcv : cv ≤ 500)
    (f1 f2 : Nat) (h1 : Fin b64 f1) (h2 : Fin b64 f2) (F1 F2 : ℝ) (hF1 : |F1| ≤ 513) (hF2 : |F2| ≤ 513)
    (hφ1 : |((toQ b64 f1 : ℚ) : ℝ) - F1| ≤ 1 / 2 ^ 34) (hφ2 : |((toQ b64 f2 : ℚ) : ℝ) - F2| ≤ 1 / 2 ^ 34) :
    Fin b32 (cvt b64 b32 (SF.mul b64 c (SF.sub b64 f1 f2))) ∧
    |((toQ b32 (cvt b64 b32 (SF.mul b64 c (SF.sub b64 f1 f2))) : ℚ) : ℝ) - (cv : ℝ) * (F1 - F2)| ≤ |(cv : ℝ) * (F1 - F2)| / 2 ^ 24 + 1 / 2 ^ 23 := by
  obtain ⟨fc, vc⟩ := hc
  have habs : ∀ (f : Nat) (F : ℝ), |F| ≤ 513 → |((toQ b64 f : ℚ) : ℝ) - F| ≤ 1 / 2 ^ 34 → |toQ b64 f| ≤ 514 := by
    intro f F hF hφ
    have h1 : |((toQ b64 f : ℚ) : ℝ)| ≤ 514 := by
      have := abs_add_le (((toQ b64 f : ℚ) : ℝ) - F) F
      simp only [sub_add_cancel] at this
      have : (1:ℝ) / 2 ^ 34 ≤ 1 := by norm_num
      linarith
    have : ((|toQ b64 f| : ℚ) : ℝ) ≤ ((514 : ℚ) : ℝ) := by push_cast; exact h1
    exact (Rat.cast_le (K := ℝ)).mp this
  have ha1 := habs f1 F1 hF1 hφ1
  have ha2 := habs f2 F2 hF2 hφ2
  have hdiff : |toQ b64 f1 - toQ b64 f2| ≤ 1028 := by
    have := abs_sub (toQ b64 f1) (toQ b64 f2); linarith
  obtain ⟨fs, hs⟩ := sub_acc b64 b64_ok (2 ^ 1023) top64 _ _ h1 h2 (le_top64 (le_trans hdiff (by norm_num)))
  have he : (1028:ℚ) * eps b64 + eta b64 ≤ 1 / 2 ^ 42 := by rw [eps64, eta64]; norm_num
  have hs1 : |toQ b64 (SF.sub b64 f1 f2) - (toQ b64 f1 - toQ b64 f2)| ≤ 1 / 2 ^ 42 := by
    have := eps_pos b64
    nlinarith
  have hsabs : |toQ b64 (SF.sub b64 f1 f2)| ≤ 1029 := by
    have := abs_add_le (toQ b64 (SF.sub b64 f1 f2) - (toQ b64 f1 - toQ b64 f2)) (toQ b64 f1 - toQ b64 f2)
    simp only [sub_add_cancel] at this
    have : (1:ℚ) / 2 ^ 42 ≤ 1 := by norm_num
    linarith
  have hprod : |toQ b64 c * toQ b64 (SF.sub b64 f1 f2)| ≤ 514500 := by
    rw [vc, abs_mul, abs_of_pos hcv0]
    calc cv * |toQ b64 (SF.sub b64 f1 f2)| ≤ 500 * 1029 := mul_le_mul hcv hsabs (abs_nonneg _) (by norm_num)
      _ = 514500 := by norm_num
  obtain ⟨fm, hm⟩ := mul_acc b64 b64_ok (2 ^ 1023) top64 _ _ fc fs (le_top64 (le_trans hprod (by norm_num)))
  rw [vc] at hm hprod
  have he2 : (514500:ℚ) * eps b64 + eta b64 ≤ 1 / 2 ^ 34 := by rw [eps64, eta64]; norm_num
  have hm1 : |toQ b64 (SF.mul b64 c (SF.sub b64 f1 f2)) - cv * toQ b64 (SF.sub b64 f1 f2)| ≤ 1 / 2 ^ 34 := by
    have := eps_pos b64
    nlinarith
  have hm1R := (Rat.cast_le (K := ℝ)).mpr hm1
  have hs1R := (Rat.cast_le (K := ℝ)).mpr hs1
  push_cast at hm1R hs1R
  have hcvR0 : (0:ℝ) < (cv : ℝ) := by exact_mod_cast hcv0
  have hcvR : (cv : ℝ) ≤ 500 := by exact_mod_cast hcv
  have hd : |((toQ b64 (SF.mul b64 c (SF.sub b64 f1 f2)) : ℚ) : ℝ) - (cv : ℝ) * (F1 - F2)| ≤ 1 / 2 ^ 24 := by
    have e : ((toQ b64 (SF.mul b64 c (SF.sub b64 f1 f2)) : ℚ) : ℝ) - (cv : ℝ) * (F1 - F2) =
        (((toQ b64 (SF.mul b64 c (SF.sub b64 f1 f2)) : ℚ) : ℝ) - (cv : ℝ) * ((toQ b64 (SF.sub b64 f1 f2) : ℚ) : ℝ))
        + (cv : ℝ) * ((((toQ b64 (SF.sub b64 f1 f2) : ℚ) : ℝ) - (((toQ b64 f1 : ℚ) : ℝ) - ((toQ b64 f2 : ℚ) : ℝ)))
          + ((((toQ b64 f1 : ℚ) : ℝ) - F1) - (((toQ b64 f2 : ℚ) : ℝ) - F2))) := by ring
    rw [e]
    have t1 := abs_add_le (((toQ b64 (SF.mul b64 c (SF.sub b64 f1 f2)) : ℚ) : ℝ) - (cv : ℝ) * ((toQ b64 (SF.sub b64 f1 f2) : ℚ) : ℝ))
      ((cv : ℝ) * ((((toQ b64 (SF.sub b64 f1 f2) : ℚ) : ℝ) - (((toQ b64 f1 : ℚ) : ℝ) - ((toQ b64 f2 : ℚ) : ℝ)))
          + ((((toQ b64 f1 : ℚ) : ℝ) - F1) - (((toQ b64 f2 : ℚ) : ℝ) - F2))))
    have t2 := abs_add_le (((toQ b64 (SF.sub b64 f1 f2) : ℚ) : ℝ) - (((toQ b64 f1 : ℚ) : ℝ) - ((toQ b64 f2 : ℚ) : ℝ)))
      ((((toQ b64 f1 : ℚ) : ℝ) - F1) - (((toQ b64 f2 : ℚ) : ℝ) - F2))
    have t3 := abs_sub (((toQ b64 f1 : ℚ) : ℝ) - F1) (((toQ b64 f2 : ℚ) : ℝ) - F2)
    have inner : |(((toQ b64 (SF.sub b64 f1 f2) : ℚ) : ℝ) - (((toQ b64 f1 : ℚ) : ℝ) - ((toQ b64 f2 : ℚ) : ℝ)))
          + ((((toQ b64 f1 : ℚ) : ℝ) - F1) - (((toQ b64 f2 : ℚ) : ℝ) - F2))| ≤ 1 / 2 ^ 42 + 2 / 2 ^ 34 := by linarith
    have t4 : |(cv : ℝ) * ((((toQ b64 (SF.sub b64 f1 f2) : ℚ) : ℝ) - (((toQ b64 f1 : ℚ) : ℝ) - ((toQ b64 f2 : ℚ) : ℝ)))
          + ((((toQ b64 f1 : ℚ) : ℝ) - F1) - (((toQ b64 f2 : ℚ) : ℝ) - F2)))| ≤ 500 * (1 / 2 ^ 42 + 2 / 2 ^ 34) := by
      rw [abs_mul, abs_of_pos hcvR0]
      exact mul_le_mul hcvR inner (abs_nonneg _) (by norm_num)
    have : (1:ℝ) / 2 ^ 34 + 500 * (1 / 2 ^ 42 + 2 / 2 ^ 34) ≤ 1 / 2 ^ 24 := by norm_num
    linarith
  have hT : |(cv : ℝ) * (F1 - F2)| ≤ 2 ^ 20 := by
    rw [abs_mul, abs_of_pos hcvR0]
    have h3 := abs_sub F1 F2
    have : |F1 - F2| ≤ 1026 := by linarith
    have : (cv : ℝ) * |F1 - F2| ≤ 500 * 1026 := mul_le_mul hcvR this (abs_nonneg _) (by norm_num)
    have : (500:ℝ) * 1026 ≤ 2 ^ 20 := by norm_num
    linarith
  exact final32 _ fm _ (1 / 2 ^ 24) (by positivity) le_rfl hT hd


/-- the driver's check on one component: when the power branch is taken, the observed `math.Pow` result was
accepted by `cbrtOk` (this is literally what `Driver/FloatOps.lean` evaluates on every `tolab` line) -/
def PowOk (v w p : Nat) : Prop :=
  (Xyz.componentToLAB v w p).2.2 = true → Ops.cbrtOk (Xyz.componentToLAB v w p).2.1 p = true

/-- **C13 (`ToLAB` in floating point; every finite float32 colour, every positive float32 white with
ratios up to 64 in magnitude, every `math.Pow` behaviour accepted by `PowSpec`).**  Each of L*, a*, b* is
finite and within one float32 rounding of its own size, plus `2⁻²³`, of the CIE 1976 definition over ℝ. -/
theorem C13_toLAB_float (c w pows : Nat × Nat × Nat)
    (hc : Fin b32 c.1 ∧ Fin b32 c.2.1 ∧ Fin b32 c.2.2)
    (hw : Fin b32 w.1 ∧ Fin b32 w.2.1 ∧ Fin b32 w.2.2)
    (hw0 : 0 < toQ b32 w.1 ∧ 0 < toQ b32 w.2.1 ∧ 0 < toQ b32 w.2.2)
    (hR : |toQ b32 c.1| ≤ 64 * toQ b32 w.1 ∧ |toQ b32 c.2.1| ≤ 64 * toQ b32 w.2.1 ∧ |toQ b32 c.2.2| ≤ 64 * toQ b32 w.2.2)
    (hpow : PowOk c.1 w.1 pows.1 ∧ PowOk c.2.1 w.2.1 pows.2.1 ∧ PowOk c.2.2 w.2.2 pows.2.2) :
    let out := Xyz.toLAB c w pows
    let ref := Lab.toLab ((toQ b32 c.1 : ℚ) : ℝ) ((toQ b32 c.2.1 : ℚ) : ℝ) ((toQ b32 c.2.2 : ℚ) : ℝ)
      ((toQ b32 w.1 : ℚ) : ℝ) ((toQ b32 w.2.1 : ℚ) : ℝ) ((toQ b32 w.2.2 : ℚ) : ℝ)
    (Fin b32 out.1 ∧ |((toQ b32 out.1 : ℚ) : ℝ) - ref.L| ≤ |ref.L| / 2 ^ 24 + 1 / 2 ^ 23) ∧
    (Fin b32 out.2.1 ∧ |((toQ b32 out.2.1 : ℚ) : ℝ) - ref.a| ≤ |ref.a| / 2 ^ 24 + 1 / 2 ^ 23) ∧
    (Fin b32 out.2.2 ∧ |((toQ b32 out.2.2 : ℚ) : ℝ) - ref.b| ≤ |ref.b| / 2 ^ 24 + 1 / 2 ^ 23) := by
  intro out ref
  obtain ⟨fx, hx, bx⟩ := comp_acc c.1 w.1 pows.1 hc.1 hw.1 hw0.1 hR.1 hpow.1
  obtain ⟨fy, hy, by_⟩ := comp_acc c.2.1 w.2.1 pows.2.1 hc.2.1 hw.2.1 hw0.2.1 hR.2.1 hpow.2.1
  obtain ⟨fz, hz, bz⟩ := comp_acc c.2.2 w.2.2 pows.2.2 hc.2.2 hw.2.2 hw0.2.2 hR.2.2 hpow.2.2
  have hdef : out = (cvt b64 b32 (SF.sub b64 (SF.mul b64 Xyz.c116 (Xyz.componentToLAB c.2.1 w.2.1 pows.2.1).1) Xyz.c16),
      cvt b64 b32 (SF.mul b64 Xyz.c500 (SF.sub b64 (Xyz.componentToLAB c.1 w.1 pows.1).1 (Xyz.componentToLAB c.2.1 w.2.1 pows.2.1).1)),
      cvt b64 b32 (SF.mul b64 Xyz.c200 (SF.sub b64 (Xyz.componentToLAB c.2.1 w.2.1 pows.2.1).1 (Xyz.componentToLAB c.2.2 w.2.2 pows.2.2).1))) := rfl
  have hL := out_L _ fy _ by_ hy
  have ha := out_ab Xyz.c500 500 c500_val (by norm_num) (by norm_num) _ _ fx fy _ _ bx by_ hx hy
  have hb := out_ab Xyz.c200 200 c200_val (by norm_num) (by norm_num) _ _ fy fz _ _ by_ bz hy hz
  rw [hdef]
  refine ⟨?_, ?_, ?_⟩
  · simpa [ref, Lab.toLab] using hL
  · simpa [ref, Lab.toLab] using ha
  · simpa [ref, Lab.toLab] using hb


theorem f_range {t : ℝ} (h1 : -2 ≤ t) (h2 : t ≤ 64) : -31 / 2 ≤ Lab.f t ∧ Lab.f t ≤ 4 := by
  constructor
  · have := Lab.f_mono h1
    have e : Lab.f (-2) = Lab.lin (-2) := Lab.f_of_le (by have := Lab.eps_pos; linarith)
    rw [e] at this
    have : Lab.lin (-2) ≥ -31 / 2 := by unfold Lab.lin Lab.kappa; norm_num
    linarith
  · have := Lab.f_mono h2
    have e : Lab.f 64 = 4 := by
      rw [Lab.f_of_ge (by unfold Lab.eps; norm_num)]
      have h := Lab.cbrt_cube (u := 4) (by norm_num)
      have e4 : (4:ℝ) ^ 3 = 64 := by norm_num
      rwa [e4] at h
    linarith

/-- **C13 (the property's own figure).** When every ratio `X/Xn, Y/Yn, Z/Zn` lies in `[−2, 64]` — which
contains `[−0.5, 2]³` against every white with components ≥ 1/4 — each of L*, a*, b* as computed in floating
point is within `10⁻³` of the CIE 1976 definition, for every `math.Pow` accepted by `PowSpec`. -/
theorem C13_toLAB_within_1e3 (c w pows : Nat × Nat × Nat)
    (hc : Fin b32 c.1 ∧ Fin b32 c.2.1 ∧ Fin b32 c.2.2)
    (hw : Fin b32 w.1 ∧ Fin b32 w.2.1 ∧ Fin b32 w.2.2)
    (hw0 : 0 < toQ b32 w.1 ∧ 0 < toQ b32 w.2.1 ∧ 0 < toQ b32 w.2.2)
    (hlo : -2 * toQ b32 w.1 ≤ toQ b32 c.1 ∧ -2 * toQ b32 w.2.1 ≤ toQ b32 c.2.1 ∧ -2 * toQ b32 w.2.2 ≤ toQ b32 c.2.2)
    (hhi : toQ b32 c.1 ≤ 64 * toQ b32 w.1 ∧ toQ b32 c.2.1 ≤ 64 * toQ b32 w.2.1 ∧ toQ b32 c.2.2 ≤ 64 * toQ b32 w.2.2)
    (hpow : PowOk c.1 w.1 pows.1 ∧ PowOk c.2.1 w.2.1 pows.2.1 ∧ PowOk c.2.2 w.2.2 pows.2.2) :
    let out := Xyz.toLAB c w pows
    let ref := Lab.toLab ((toQ b32 c.1 : ℚ) : ℝ) ((toQ b32 c.2.1 : ℚ) : ℝ) ((toQ b32 c.2.2 : ℚ) : ℝ)
      ((toQ b32 w.1 : ℚ) : ℝ) ((toQ b32 w.2.1 : ℚ) : ℝ) ((toQ b32 w.2.2 : ℚ) : ℝ)
    |((toQ b32 out.1 : ℚ) : ℝ) - ref.L| ≤ 1 / 1000 ∧ |((toQ b32 out.2.1 : ℚ) : ℝ) - ref.a| ≤ 1 / 1000 ∧
    |((toQ b32 out.2.2 : ℚ) : ℝ) - ref.b| ≤ 1 / 1000 := by
  intro out ref
  have habs : ∀ v w : ℚ, 0 < w → -2 * w ≤ v → v ≤ 64 * w → |v| ≤ 64 * w := by
    intro v w hw h1 h2; rw [abs_le]; constructor <;> linarith
  have hR := C13_toLAB_float c w pows hc hw hw0
    ⟨habs _ _ hw0.1 hlo.1 hhi.1, habs _ _ hw0.2.1 hlo.2.1 hhi.2.1, habs _ _ hw0.2.2 hlo.2.2 hhi.2.2⟩ hpow
  simp only at hR
  obtain ⟨⟨_, hL⟩, ⟨_, ha⟩, ⟨_, hb⟩⟩ := hR
  -- ranges of the three companded ratios
  have hratio : ∀ v w : ℚ, 0 < w → -2 * w ≤ v → v ≤ 64 * w → (-2:ℝ) ≤ (v:ℝ) / (w:ℝ) ∧ (v:ℝ) / (w:ℝ) ≤ 64 := by
    intro v w hw h1 h2
    have hwR : (0:ℝ) < (w:ℝ) := by exact_mod_cast hw
    have h1R : (-2:ℝ) * (w:ℝ) ≤ (v:ℝ) := by exact_mod_cast h1
    have h2R : (v:ℝ) ≤ 64 * (w:ℝ) := by exact_mod_cast h2
    exact ⟨by rw [le_div_iff₀ hwR]; exact h1R, by rw [div_le_iff₀ hwR]; exact h2R⟩
  obtain ⟨x1, x2⟩ := hratio _ _ hw0.1 hlo.1 hhi.1
  obtain ⟨y1, y2⟩ := hratio _ _ hw0.2.1 hlo.2.1 hhi.2.1
  obtain ⟨z1, z2⟩ := hratio _ _ hw0.2.2 hlo.2.2 hhi.2.2
  obtain ⟨fx1, fx2⟩ := f_range x1 x2
  obtain ⟨fy1, fy2⟩ := f_range y1 y2
  obtain ⟨fz1, fz2⟩ := f_range z1 z2
  have bL : |ref.L| ≤ 1814 := by
    simp only [ref, Lab.toLab]; rw [abs_le]; constructor <;> linarith
  have ba : |ref.a| ≤ 9750 := by
    simp only [ref, Lab.toLab]; rw [abs_le]; constructor <;> linarith
  have bb : |ref.b| ≤ 3900 := by
    simp only [ref, Lab.toLab]; rw [abs_le]; constructor <;> linarith
  have n1 : (1814:ℝ) / 2 ^ 24 + 1 / 2 ^ 23 ≤ 1 / 1000 := by norm_num
  have n2 : (9750:ℝ) / 2 ^ 24 + 1 / 2 ^ 23 ≤ 1 / 1000 := by norm_num
  have n3 : (3900:ℝ) / 2 ^ 24 + 1 / 2 ^ 23 ≤ 1 / 1000 := by norm_num
  have d1 : |ref.L| / 2 ^ 24 ≤ 1814 / 2 ^ 24 := div_le_div_of_nonneg_right bL (by positivity)
  have d2 : |ref.a| / 2 ^ 24 ≤ 9750 / 2 ^ 24 := div_le_div_of_nonneg_right ba (by positivity)
  have d3 : |ref.b| / 2 ^ 24 ≤ 3900 / 2 ^ 24 := div_le_div_of_nonneg_right bb (by positivity)
  exact ⟨by linarith, by linarith, by linarith⟩

/-- non-vacuity: the hypotheses are met by a concrete colour, white and observed `math.Pow` results
(`(0.5, 0.5, 0.5)` against `(1, 1, 1)`; `math.Pow(0.5, 1/3) = 0x3fe965fea53d6e3d`), power branch taken -/
example :
    let c := (0x3f000000, 0x3f000000, 0x3f000000)
    let w := (0x3f800000, 0x3f800000, 0x3f800000)
    (Fin b32 c.1 ∧ Fin b32 w.1 ∧ 0 < toQ b32 w.1 ∧ -2 * toQ b32 w.1 ≤ toQ b32 c.1 ∧ toQ b32 c.1 ≤ 64 * toQ b32 w.1) ∧
    (Xyz.componentToLAB c.1 w.1 0x3fe965fea53d6e3d).2.2 = true ∧
    Ops.cbrtOk (Xyz.componentToLAB c.1 w.1 0x3fe965fea53d6e3d).2.1 0x3fe965fea53d6e3d = true := by
  refine ⟨⟨⟨by decide +kernel, by decide +kernel⟩, ⟨by decide +kernel, by decide +kernel⟩, by decide +kernel, by decide +kernel, by decide +kernel⟩,
    by decide +kernel, by decide +kernel⟩


end Prism
