import Prism.Proofs.C13Float
import Prism.Proofs.Lemmas.LabRealInv

/-!
# C13 — `ColorFromLAB` in floating point (given `PowSpec` for `math.Pow(·, 3)`), and the round trip
-/

set_option exponentiation.threshold 2200

namespace Prism
open SF

/-- what the driver's `PowSpec` check on an observed `math.Pow(f, 3)` result says, for a finite `|f| ≤ 16` -/
theorem cubeOk_spec (f c : Nat) (hc64 : c < 2 * b64.signBit) (hfle : valQ b64 f ≤ 16) (h : Prism.Ops.cubeOk f c = true) :
    Fin b64 c ∧ |toQ b64 c - toQ b64 f ^ 3| ≤ valQ b64 f ^ 3 / 2 ^ 48 := by
  unfold Prism.Ops.cubeOk at h
  by_cases hfl : (isNaN b64 f || isNaN b64 c) = true
  · rw [if_pos hfl] at h; exact Bool.noConfusion h
  rw [if_neg hfl] at h
  simp only [Bool.or_eq_true, not_or, Bool.not_eq_true] at hfl
  obtain ⟨_, nc⟩ := hfl
  by_cases hsg : (isNeg b64 f != isNeg b64 c && !(isZero b64 c)) = true
  · rw [if_pos hsg] at h; exact Bool.noConfusion h
  rw [if_neg hsg] at h
  have hineq : |valQ b64 c - valQ b64 f ^ 3| ≤ valQ b64 f ^ 3 / 2 ^ 48 := by
    have hdc : (0:ℚ) < den b64 c := by exact_mod_cast den_pos' b64 c
    have hdf : (0:ℚ) < den b64 f := by exact_mod_cast den_pos' b64 f
    simp only [decide_eq_true_eq] at h
    unfold valQ
    have hD : (0:ℚ) < (den b64 f : ℚ) ^ 3 * den b64 c := by positivity
    have e1 : (num b64 c : ℚ) / den b64 c - ((num b64 f : ℚ) / den b64 f) ^ 3
        = (((num b64 c) * (den b64 f) ^ 3 : Nat) - ((num b64 f) ^ 3 * den b64 c : Nat) : ℚ) / ((den b64 f : ℚ) ^ 3 * den b64 c) := by
      push_cast; field_simp
    have e2 : ((num b64 f : ℚ) / den b64 f) ^ 3 / 2 ^ 48 = (((num b64 f) ^ 3 * den b64 c : Nat) : ℚ) / 2 ^ 48 / ((den b64 f : ℚ) ^ 3 * den b64 c) := by
      push_cast; field_simp
    rw [e1, e2, abs_div, abs_of_pos hD, div_le_div_iff_of_pos_right hD, le_div_iff₀ (by positivity)]
    set l := num b64 f ^ 3 * den b64 c with hl
    set r := num b64 c * den b64 f ^ 3 with hr
    split at h
    · rename_i hge
      have : ((l - r : Nat) : ℚ) = (l : ℚ) - r := by push_cast [Nat.cast_sub hge]; ring
      rw [abs_sub_comm, abs_of_nonneg (by rw [← this]; positivity), ← this]
      exact_mod_cast h
    · rename_i hlt
      have hle : l ≤ r := Nat.le_of_lt (Nat.lt_of_not_le hlt)
      have : ((r - l : Nat) : ℚ) = (r : ℚ) - l := by push_cast [Nat.cast_sub hle]; ring
      rw [abs_of_nonneg (by rw [← this]; positivity), ← this]
      exact_mod_cast h
  have hf0 := valQ_nonneg b64 f
  have hc0 := valQ_nonneg b64 c
  have hf3 : valQ b64 f ^ 3 ≤ 4096 := by
    have : valQ b64 f ^ 3 ≤ 16 ^ 3 := pow_le_pow_left₀ hf0 hfle 3
    linarith [show (16:ℚ) ^ 3 = 4096 by norm_num]
  constructor
  · -- finiteness of c
    have hcle : valQ b64 c ≤ 4097 := by
      have := (abs_le.mp hineq).2
      have : valQ b64 f ^ 3 / 2 ^ 48 ≤ 1 := by
        rw [div_le_one (by positivity)]; linarith [show (4096:ℚ) ≤ 2 ^ 48 by norm_num]
      linarith
    have hs := infBits_lt_signBit b64 b64_ok
    have hnan : absBits b64 c ≤ b64.infBits := by
      unfold isNaN at nc
      exact le_of_blt_false nc
    have hne : absBits b64 c ≠ b64.infBits := by
      intro hc
      have : valQ b64 c = 2 ^ 1024 := by rw [← valQ_abs, hc, valQ_inf64]
      rw [this] at hcle
      have : (4097:ℚ) < 2 ^ 1024 := by norm_num
      linarith
    exact ⟨by omega, hc64⟩
  · -- signs
    have hcases : isNeg b64 f = isNeg b64 c ∨ isZero b64 c = true := by
      by_contra hcon
      rw [not_or] at hcon
      apply hsg
      rw [Bool.and_eq_true]
      constructor
      · cases h1 : isNeg b64 f <;> cases h2 : isNeg b64 c <;> simp_all
      · simpa using hcon.2
    rcases hcases with hs | hz
    · unfold toQ
      rw [hs]
      cases isNeg b64 c
      · simpa using hineq
      · simp only [if_true]
        have e : -valQ b64 c - (-valQ b64 f) ^ 3 = -(valQ b64 c - valQ b64 f ^ 3) := by ring
        rw [e, abs_neg]; exact hineq
    · have zc : valQ b64 c = 0 := by
        have : absBits b64 c = 0 := by unfold isZero at hz; simpa using hz
        rw [← valQ_abs, this, valQ_zero]
      rw [zc] at hineq
      have h3 : valQ b64 f ^ 3 = 0 := by
        have h0 : 0 ≤ valQ b64 f ^ 3 := by positivity
        rw [zero_sub, abs_neg, abs_of_nonneg h0] at hineq
        have : valQ b64 f ^ 3 / 2 ^ 48 ≤ valQ b64 f ^ 3 / 2 := by
          apply div_le_div_of_nonneg_left h0 (by norm_num) (by norm_num)
        linarith
      have hfz : valQ b64 f = 0 := by
        have := pow_eq_zero_iff (n := 3) (by norm_num) |>.mp h3
        exact this
      have tc : toQ b64 c = 0 := by unfold toQ; rw [zc]; simp
      have tf : toQ b64 f = 0 := by unfold toQ; rw [hfz]; simp
      rw [tc, tf, h3]; simp

/-! ### small helpers for chains of rounded operations -/

theorem acc_abs {r t e η M : ℚ} (h : |r - t| ≤ |t| * e + η) (ht : |t| ≤ M) (he : 0 ≤ e) : |r - t| ≤ M * e + η := by
  have := mul_le_mul_of_nonneg_right ht he
  linarith

theorem abs_close {r t d M : ℚ} (h : |r - t| ≤ d) (ht : |t| ≤ M) : |r| ≤ M + d := by
  have := abs_add_le (r - t) t
  simp only [sub_add_cancel] at this
  linarith

theorem e64_small : eps b64 = 1 / 2 ^ 53 ∧ eta b64 ≤ eps b64 ∧ 0 < eps b64 ∧ 0 ≤ eta b64 :=
  ⟨eps64, by rw [eps64, eta64]; norm_num, eps_pos b64, (eta_pos b64).le⟩

/-- `float64(x)` of a float32 of magnitude at most 1024 -/
theorem cvt1024 (x : Nat) (hx : Fin b32 x) (hb : |toQ b32 x| ≤ 1024) :
    Fin b64 (cvt b32 b64 x) ∧ |toQ b64 (cvt b32 b64 x) - toQ b32 x| ≤ 1025 * eps b64 ∧ |toQ b64 (cvt b32 b64 x)| ≤ 1025 := by
  obtain ⟨e1, e2, e3, e4⟩ := e64_small
  obtain ⟨f1, h1⟩ := cvt_acc b32 b64 b32_ok b64_ok (2 ^ 1023) top64 x hx (le_top64 (le_trans hb (by norm_num)))
  have h2 := acc_abs h1 hb e3.le
  have h3 : |toQ b64 (cvt b32 b64 x) - toQ b32 x| ≤ 1025 * eps b64 := by linarith
  have : (1025:ℚ) * eps b64 ≤ 1 := by rw [e1]; norm_num
  exact ⟨f1, h3, by have := abs_close h3 hb; linarith⟩

/-- the three arguments of `math.Pow(·, 3)` in `ColorFromLAB`, as computed in float64 -/
theorem labF_acc (L A B : Nat) (hL : Fin b32 L) (hA : Fin b32 A) (hB : Fin b32 B)
    (bL : |toQ b32 L| ≤ 1024) (bA : |toQ b32 A| ≤ 1024) (bB : |toQ b32 B| ≤ 1024) :
    let F := Xyz.labF (L, A, B)
    let uy := (toQ b32 L + 16) / 116
    (Fin b64 F.1 ∧ |toQ b64 F.1 - (toQ b32 A / 500 + uy)| ≤ 1 / 2 ^ 38) ∧
    (Fin b64 F.2.1 ∧ |toQ b64 F.2.1 - uy| ≤ 1 / 2 ^ 38) ∧
    (Fin b64 F.2.2 ∧ |toQ b64 F.2.2 - (uy - toQ b32 B / 200)| ≤ 1 / 2 ^ 38) := by
  intro F uy
  obtain ⟨e1, e2, e3, e4⟩ := e64_small
  obtain ⟨f16, v16⟩ := c16_val
  obtain ⟨f116, v116⟩ := c116_val
  obtain ⟨f500, v500⟩ := c500_val
  obtain ⟨f200, v200⟩ := c200_val
  have hdef : F = (SF.add b64 (SF.div b64 (cvt b32 b64 A) Xyz.c500) (SF.div b64 (SF.add b64 (cvt b32 b64 L) Xyz.c16) Xyz.c116),
      SF.div b64 (SF.add b64 (cvt b32 b64 L) Xyz.c16) Xyz.c116,
      SF.sub b64 (SF.div b64 (SF.add b64 (cvt b32 b64 L) Xyz.c16) Xyz.c116) (SF.div b64 (cvt b32 b64 B) Xyz.c200)) := rfl
  -- fy
  obtain ⟨fl, hl, bl⟩ := cvt1024 L hL bL
  have hs0 : |toQ b64 (cvt b32 b64 L) + toQ b64 Xyz.c16| ≤ 1041 := by
    rw [v16]; have := abs_add_le (toQ b64 (cvt b32 b64 L)) 16
    rw [abs_of_pos (by norm_num : (0:ℚ) < 16)] at this; linarith
  obtain ⟨fs, hs⟩ := add_acc b64 b64_ok (2 ^ 1023) top64 _ _ fl f16 (le_top64 (le_trans hs0 (by norm_num)))
  have hs1 := acc_abs hs hs0 e3.le
  rw [v16] at hs1 hs0
  have hsabs : |toQ b64 (SF.add b64 (cvt b32 b64 L) Xyz.c16)| ≤ 1042 := by
    have := abs_close hs1 hs0
    have : (1041:ℚ) * eps b64 + eta b64 ≤ 1 := by rw [e1]; rw [e1] at e2; nlinarith
    linarith
  have h116 : absBits b64 Xyz.c116 ≠ 0 := toQ_ne_zero_abs b64 _ (by rw [v116]; norm_num)
  have hq0 : |toQ b64 (SF.add b64 (cvt b32 b64 L) Xyz.c16) / toQ b64 Xyz.c116| ≤ 9 := by
    rw [v116, abs_div, abs_of_pos (by norm_num : (0:ℚ) < 116), div_le_iff₀ (by norm_num)]; linarith
  obtain ⟨fy, hy⟩ := div_acc b64 b64_ok (2 ^ 1023) top64 _ _ fs f116 h116 (le_top64 (le_trans hq0 (by norm_num)))
  have hy1 := acc_abs hy hq0 e3.le
  rw [v116] at hy1 hq0
  have hyacc : |toQ b64 (SF.div b64 (SF.add b64 (cvt b32 b64 L) Xyz.c16) Xyz.c116) - uy| ≤ 30 * eps b64 := by
    have e : toQ b64 (SF.div b64 (SF.add b64 (cvt b32 b64 L) Xyz.c16) Xyz.c116) - uy =
        (toQ b64 (SF.div b64 (SF.add b64 (cvt b32 b64 L) Xyz.c16) Xyz.c116) - toQ b64 (SF.add b64 (cvt b32 b64 L) Xyz.c16) / 116)
        + ((toQ b64 (SF.add b64 (cvt b32 b64 L) Xyz.c16) - (toQ b64 (cvt b32 b64 L) + 16)) + (toQ b64 (cvt b32 b64 L) - toQ b32 L)) / 116 := by
      simp only [uy]; ring
    rw [e]
    have t1 := abs_add_le (toQ b64 (SF.div b64 (SF.add b64 (cvt b32 b64 L) Xyz.c16) Xyz.c116) - toQ b64 (SF.add b64 (cvt b32 b64 L) Xyz.c16) / 116)
      (((toQ b64 (SF.add b64 (cvt b32 b64 L) Xyz.c16) - (toQ b64 (cvt b32 b64 L) + 16)) + (toQ b64 (cvt b32 b64 L) - toQ b32 L)) / 116)
    have t2 : |((toQ b64 (SF.add b64 (cvt b32 b64 L) Xyz.c16) - (toQ b64 (cvt b32 b64 L) + 16)) + (toQ b64 (cvt b32 b64 L) - toQ b32 L)) / 116| ≤
        ((1041 * eps b64 + eta b64) + 1025 * eps b64) / 116 := by
      rw [abs_div, abs_of_pos (by norm_num : (0:ℚ) < 116)]
      apply div_le_div_of_nonneg_right _ (by norm_num : (0:ℚ) ≤ 116)
      have := abs_add_le (toQ b64 (SF.add b64 (cvt b32 b64 L) Xyz.c16) - (toQ b64 (cvt b32 b64 L) + 16)) (toQ b64 (cvt b32 b64 L) - toQ b32 L)
      linarith
    have : ((1041 * eps b64 + eta b64) + 1025 * eps b64) / 116 ≤ 20 * eps b64 := by
      rw [div_le_iff₀ (by norm_num)]; linarith
    linarith
  have huy : |uy| ≤ 9 := by
    simp only [uy]
    rw [abs_div, abs_of_pos (by norm_num : (0:ℚ) < 116), div_le_iff₀ (by norm_num)]
    have := abs_add_le (toQ b32 L) 16
    rw [abs_of_pos (by norm_num : (0:ℚ) < 16)] at this; linarith
  have h30 : (30:ℚ) * eps b64 ≤ 1 / 2 ^ 48 := by rw [e1]; norm_num
  have hyabs : |toQ b64 (SF.div b64 (SF.add b64 (cvt b32 b64 L) Xyz.c16) Xyz.c116)| ≤ 10 := by
    have := abs_close hyacc huy
    have : (1:ℚ) / 2 ^ 48 ≤ 1 := by norm_num
    linarith
  -- the a/500 and b/200 terms
  have term : ∀ (X c : Nat) (cv : ℚ), Fin b32 X → |toQ b32 X| ≤ 1024 → Fin b64 c → toQ b64 c = cv → 200 ≤ cv →
      Fin b64 (SF.div b64 (cvt b32 b64 X) c) ∧ |toQ b64 (SF.div b64 (cvt b32 b64 X) c) - toQ b32 X / cv| ≤ 12 * eps b64 ∧
      |toQ b64 (SF.div b64 (cvt b32 b64 X) c)| ≤ 6 := by
    intro X c cv hX bX fc vc hcv
    have hcv0 : 0 < cv := by linarith
    obtain ⟨fx, hx, bx⟩ := cvt1024 X hX bX
    have hc0 : absBits b64 c ≠ 0 := toQ_ne_zero_abs b64 _ (by rw [vc]; exact ne_of_gt hcv0)
    have hq : |toQ b64 (cvt b32 b64 X) / toQ b64 c| ≤ 5.125 := by
      rw [vc, abs_div, abs_of_pos hcv0, div_le_iff₀ hcv0]; nlinarith
    obtain ⟨fd, hd⟩ := div_acc b64 b64_ok (2 ^ 1023) top64 _ _ fx fc hc0 (le_top64 (le_trans hq (by norm_num)))
    have hd1 := acc_abs hd hq e3.le
    rw [vc] at hd1 hq
    have hacc : |toQ b64 (SF.div b64 (cvt b32 b64 X) c) - toQ b32 X / cv| ≤ 12 * eps b64 := by
      have e : toQ b64 (SF.div b64 (cvt b32 b64 X) c) - toQ b32 X / cv =
          (toQ b64 (SF.div b64 (cvt b32 b64 X) c) - toQ b64 (cvt b32 b64 X) / cv) + (toQ b64 (cvt b32 b64 X) - toQ b32 X) / cv := by ring
      rw [e]
      have t1 := abs_add_le (toQ b64 (SF.div b64 (cvt b32 b64 X) c) - toQ b64 (cvt b32 b64 X) / cv) ((toQ b64 (cvt b32 b64 X) - toQ b32 X) / cv)
      have t2 : |(toQ b64 (cvt b32 b64 X) - toQ b32 X) / cv| ≤ 1025 * eps b64 / 200 := by
        rw [abs_div, abs_of_pos hcv0]
        calc |toQ b64 (cvt b32 b64 X) - toQ b32 X| / cv ≤ 1025 * eps b64 / cv := div_le_div_of_nonneg_right hx hcv0.le
          _ ≤ 1025 * eps b64 / 200 := div_le_div_of_nonneg_left (by positivity) (by norm_num) hcv
      have : (1025:ℚ) * eps b64 / 200 ≤ 5.125 * eps b64 := by
        rw [div_le_iff₀ (by norm_num)]; linarith
      linarith
    refine ⟨fd, hacc, ?_⟩
    have hb2 : |toQ b32 X / cv| ≤ 5.125 := by
      rw [abs_div, abs_of_pos hcv0, div_le_iff₀ hcv0]; nlinarith
    have := abs_close hacc hb2
    have : (12:ℚ) * eps b64 ≤ 0.5 := by rw [e1]; norm_num
    linarith
  obtain ⟨fa, ha, ba⟩ := term A Xyz.c500 500 hA bA f500 v500 (by norm_num)
  obtain ⟨fb, hb, bb⟩ := term B Xyz.c200 200 hB bB f200 v200 (by norm_num)
  -- fx = a/500 + fy
  have hx0 : |toQ b64 (SF.div b64 (cvt b32 b64 A) Xyz.c500) + toQ b64 (SF.div b64 (SF.add b64 (cvt b32 b64 L) Xyz.c16) Xyz.c116)| ≤ 16 := by
    have := abs_add_le (toQ b64 (SF.div b64 (cvt b32 b64 A) Xyz.c500)) (toQ b64 (SF.div b64 (SF.add b64 (cvt b32 b64 L) Xyz.c16) Xyz.c116))
    linarith
  obtain ⟨ffx, hfx⟩ := add_acc b64 b64_ok (2 ^ 1023) top64 _ _ fa fy (le_top64 (le_trans hx0 (by norm_num)))
  have hfx1 := acc_abs hfx hx0 e3.le
  have hz0 : |toQ b64 (SF.div b64 (SF.add b64 (cvt b32 b64 L) Xyz.c16) Xyz.c116) - toQ b64 (SF.div b64 (cvt b32 b64 B) Xyz.c200)| ≤ 16 := by
    have := abs_sub (toQ b64 (SF.div b64 (SF.add b64 (cvt b32 b64 L) Xyz.c16) Xyz.c116)) (toQ b64 (SF.div b64 (cvt b32 b64 B) Xyz.c200))
    linarith
  obtain ⟨ffz, hfz⟩ := sub_acc b64 b64_ok (2 ^ 1023) top64 _ _ fy fb (le_top64 (le_trans hz0 (by norm_num)))
  have hfz1 := acc_abs hfz hz0 e3.le
  have hfin : (59:ℚ) * eps b64 + eta b64 ≤ 1 / 2 ^ 38 := by rw [e1]; rw [e1] at e2; nlinarith
  rw [hdef]
  refine ⟨⟨ffx, ?_⟩, ⟨fy, by linarith⟩, ⟨ffz, ?_⟩⟩
  · have e : toQ b64 (SF.add b64 (SF.div b64 (cvt b32 b64 A) Xyz.c500) (SF.div b64 (SF.add b64 (cvt b32 b64 L) Xyz.c16) Xyz.c116)) - (toQ b32 A / 500 + uy) =
        (toQ b64 (SF.add b64 (SF.div b64 (cvt b32 b64 A) Xyz.c500) (SF.div b64 (SF.add b64 (cvt b32 b64 L) Xyz.c16) Xyz.c116)) -
          (toQ b64 (SF.div b64 (cvt b32 b64 A) Xyz.c500) + toQ b64 (SF.div b64 (SF.add b64 (cvt b32 b64 L) Xyz.c16) Xyz.c116)))
        + ((toQ b64 (SF.div b64 (cvt b32 b64 A) Xyz.c500) - toQ b32 A / 500) + (toQ b64 (SF.div b64 (SF.add b64 (cvt b32 b64 L) Xyz.c16) Xyz.c116) - uy)) := by ring
    simp only
    rw [e]
    have t1 := abs_add_le (toQ b64 (SF.add b64 (SF.div b64 (cvt b32 b64 A) Xyz.c500) (SF.div b64 (SF.add b64 (cvt b32 b64 L) Xyz.c16) Xyz.c116)) -
          (toQ b64 (SF.div b64 (cvt b32 b64 A) Xyz.c500) + toQ b64 (SF.div b64 (SF.add b64 (cvt b32 b64 L) Xyz.c16) Xyz.c116)))
      ((toQ b64 (SF.div b64 (cvt b32 b64 A) Xyz.c500) - toQ b32 A / 500) + (toQ b64 (SF.div b64 (SF.add b64 (cvt b32 b64 L) Xyz.c16) Xyz.c116) - uy))
    have t2 := abs_add_le (toQ b64 (SF.div b64 (cvt b32 b64 A) Xyz.c500) - toQ b32 A / 500) (toQ b64 (SF.div b64 (SF.add b64 (cvt b32 b64 L) Xyz.c16) Xyz.c116) - uy)
    linarith
  · have e : toQ b64 (SF.sub b64 (SF.div b64 (SF.add b64 (cvt b32 b64 L) Xyz.c16) Xyz.c116) (SF.div b64 (cvt b32 b64 B) Xyz.c200)) - (uy - toQ b32 B / 200) =
        (toQ b64 (SF.sub b64 (SF.div b64 (SF.add b64 (cvt b32 b64 L) Xyz.c16) Xyz.c116) (SF.div b64 (cvt b32 b64 B) Xyz.c200)) -
          (toQ b64 (SF.div b64 (SF.add b64 (cvt b32 b64 L) Xyz.c16) Xyz.c116) - toQ b64 (SF.div b64 (cvt b32 b64 B) Xyz.c200)))
        + ((toQ b64 (SF.div b64 (SF.add b64 (cvt b32 b64 L) Xyz.c16) Xyz.c116) - uy) - (toQ b64 (SF.div b64 (cvt b32 b64 B) Xyz.c200) - toQ b32 B / 200)) := by ring
    simp only
    rw [e]
    have t1 := abs_add_le (toQ b64 (SF.sub b64 (SF.div b64 (SF.add b64 (cvt b32 b64 L) Xyz.c16) Xyz.c116) (SF.div b64 (cvt b32 b64 B) Xyz.c200)) -
          (toQ b64 (SF.div b64 (SF.add b64 (cvt b32 b64 L) Xyz.c16) Xyz.c116) - toQ b64 (SF.div b64 (cvt b32 b64 B) Xyz.c200)))
      ((toQ b64 (SF.div b64 (SF.add b64 (cvt b32 b64 L) Xyz.c16) Xyz.c116) - uy) - (toQ b64 (SF.div b64 (cvt b32 b64 B) Xyz.c200) - toQ b32 B / 200))
    have t2 := abs_sub (toQ b64 (SF.div b64 (SF.add b64 (cvt b32 b64 L) Xyz.c16) Xyz.c116) - uy) (toQ b64 (SF.div b64 (cvt b32 b64 B) Xyz.c200) - toQ b32 B / 200)
    linarith


/-- arithmetic core of the inverse's linear piece -/
theorem ginv_core (F k m s d e η : ℚ) (hF : |F| ≤ 13) (hk : |k - 24389 / 27| ≤ 1 / 2 ^ 40)
    (he0 : 0 < e) (he : e ≤ 1 / 2 ^ 53) (hη0 : 0 ≤ η) (hη : η ≤ e)
    (hm : |m - 116 * F| ≤ 1508 * e + η) (hs : |s - (m - 16)| ≤ 1525 * e + η) (hd : |d - s / k| ≤ 2 * e + η) :
    |d - (116 * F - 16) / (24389 / 27)| ≤ 1 / 2 ^ 45 ∧ |d| ≤ 2 := by
  have hk903 : 903 ≤ k := by have := (abs_le.mp hk).1; have : (1:ℚ) / 2 ^ 40 ≤ 1 / 4 := by norm_num
                             linarith
  have hkpos : 0 < k := by linarith
  have h116 : |116 * F - 16| ≤ 1524 := by
    have := abs_sub (116 * F) 16
    rw [abs_mul, abs_of_pos (by norm_num : (0:ℚ) < 116), abs_of_pos (by norm_num : (0:ℚ) < 16)] at this
    linarith
  have hsT : |s - (116 * F - 16)| ≤ 3035 * e := by
    have e1 : s - (116 * F - 16) = (s - (m - 16)) + (m - 116 * F) := by ring
    rw [e1]
    have := abs_add_le (s - (m - 16)) (m - 116 * F)
    linarith
  have hsabs : |s| ≤ 1525 := by
    have := abs_close hsT h116
    have : (3035:ℚ) * e ≤ 1 := by nlinarith
    linarith
  have hκ : (0:ℚ) < 24389 / 27 := by norm_num
  have hsk : |s / k - s / (24389 / 27)| ≤ 1 / 2 ^ 48 := by
    have e1 : s / k - s / (24389 / 27) = s * ((24389 / 27 - k) / (k * (24389 / 27))) := by
      field_simp
    rw [e1, abs_mul, abs_div, abs_of_pos (mul_pos hkpos hκ)]
    have h1 : |(24389:ℚ) / 27 - k| ≤ 1 / 2 ^ 40 := by rw [abs_sub_comm]; exact hk
    have h2 : (815409:ℚ) ≤ k * (24389 / 27) := by nlinarith
    have h3 : |(24389:ℚ) / 27 - k| / (k * (24389 / 27)) ≤ (1 / 2 ^ 40) / 815409 := by
      rw [div_le_div_iff₀ (mul_pos hkpos hκ) (by norm_num)]
      have := abs_nonneg ((24389:ℚ) / 27 - k)
      nlinarith
    calc |s| * (|(24389:ℚ) / 27 - k| / (k * (24389 / 27))) ≤ 1525 * ((1 / 2 ^ 40) / 815409) :=
          mul_le_mul hsabs h3 (by positivity) (by norm_num)
      _ ≤ 1 / 2 ^ 48 := by norm_num
  have hsκ : |s / (24389 / 27) - (116 * F - 16) / (24389 / 27)| ≤ 4 * e := by
    rw [← sub_div, abs_div, abs_of_pos hκ, div_le_iff₀ hκ]
    nlinarith
  constructor
  · have e1 : d - (116 * F - 16) / (24389 / 27) = (d - s / k) + ((s / k - s / (24389 / 27)) + (s / (24389 / 27) - (116 * F - 16) / (24389 / 27))) := by ring
    rw [e1]
    have t1 := abs_add_le (d - s / k) ((s / k - s / (24389 / 27)) + (s / (24389 / 27) - (116 * F - 16) / (24389 / 27)))
    have t2 := abs_add_le (s / k - s / (24389 / 27)) (s / (24389 / 27) - (116 * F - 16) / (24389 / 27))
    have : (2:ℚ) * e + η + (1 / 2 ^ 48 + 4 * e) ≤ 1 / 2 ^ 45 := by
      have : (7:ℚ) * e ≤ 7 * (1 / 2 ^ 53) := by linarith
      have : (7:ℚ) * (1 / 2 ^ 53) + 1 / 2 ^ 48 ≤ 1 / 2 ^ 45 := by norm_num
      linarith
    linarith
  · have hsk2 : |s / k| ≤ 1525 / 903 := by
      rw [abs_div, abs_of_pos hkpos, div_le_div_iff₀ hkpos (by norm_num)]
      nlinarith [abs_nonneg s]
    have := abs_close hd hsk2
    have : (2:ℚ) * e + η ≤ 1 / 10 := by nlinarith
    have : (1525:ℚ) / 903 ≤ 1.7 := by norm_num
    linarith


theorem cK_pos : 903 ≤ toQ b64 Xyz.cK := by
  obtain ⟨_, hk, _, _⟩ := cK_val
  have := (abs_le.mp hk).1
  have : (1:ℚ) / 2 ^ 40 ≤ 1 / 4 := by norm_num
  linarith

/-- the inverse's linear piece `(116·f − 16)/κ` as the code evaluates it in float64 -/
theorem ginv_acc (f : Nat) (hf : Fin b64 f) (hF : |toQ b64 f| ≤ 13) :
    Fin b64 (SF.div b64 (SF.sub b64 (SF.mul b64 Xyz.c116 f) Xyz.c16) Xyz.cK) ∧
    |toQ b64 (SF.div b64 (SF.sub b64 (SF.mul b64 Xyz.c116 f) Xyz.c16) Xyz.cK) - (116 * toQ b64 f - 16) / (24389 / 27)| ≤ 1 / 2 ^ 45 ∧
    |toQ b64 (SF.div b64 (SF.sub b64 (SF.mul b64 Xyz.c116 f) Xyz.c16) Xyz.cK)| ≤ 2 := by
  obtain ⟨e1, e2, e3, e4⟩ := e64_small
  obtain ⟨fK, hK, _, _⟩ := cK_val
  obtain ⟨f16, v16⟩ := c16_val
  obtain ⟨f116, v116⟩ := c116_val
  have hk903 := cK_pos
  have hp : |toQ b64 Xyz.c116 * toQ b64 f| ≤ 1508 := by
    rw [v116, abs_mul, abs_of_pos (by norm_num : (0:ℚ) < 116)]; linarith
  obtain ⟨fm, hm⟩ := mul_acc b64 b64_ok (2 ^ 1023) top64 _ _ f116 hf (le_top64 (le_trans hp (by norm_num)))
  have hm1 := acc_abs hm hp e3.le
  rw [v116] at hm1 hp
  have hmabs : |toQ b64 (SF.mul b64 Xyz.c116 f) - toQ b64 Xyz.c16| ≤ 1525 := by
    rw [v16]
    have h1 := abs_close hm1 hp
    have h2 := abs_sub (toQ b64 (SF.mul b64 Xyz.c116 f)) 16
    rw [abs_of_pos (by norm_num : (0:ℚ) < 16)] at h2
    have : (1508:ℚ) * eps b64 + eta b64 ≤ 1 := by rw [e1]; rw [e1] at e2; nlinarith
    linarith
  obtain ⟨fs, hs⟩ := sub_acc b64 b64_ok (2 ^ 1023) top64 _ _ fm f16 (le_top64 (le_trans hmabs (by norm_num)))
  have hs1 := acc_abs hs hmabs e3.le
  rw [v16] at hs1 hmabs
  have hsabs : |toQ b64 (SF.sub b64 (SF.mul b64 Xyz.c116 f) Xyz.c16)| ≤ 1526 := by
    have := abs_close hs1 hmabs
    have : (1525:ℚ) * eps b64 + eta b64 ≤ 1 := by rw [e1]; rw [e1] at e2; nlinarith
    linarith
  have hK0 : absBits b64 Xyz.cK ≠ 0 := toQ_ne_zero_abs b64 _ (by linarith)
  have hq : |toQ b64 (SF.sub b64 (SF.mul b64 Xyz.c116 f) Xyz.c16) / toQ b64 Xyz.cK| ≤ 2 := by
    rw [abs_div, abs_of_pos (by linarith : (0:ℚ) < toQ b64 Xyz.cK), div_le_iff₀ (by linarith)]
    linarith
  obtain ⟨fd, hd⟩ := div_acc b64 b64_ok (2 ^ 1023) top64 _ _ fs fK hK0 (le_top64 (le_trans hq (by norm_num)))
  have hd1 := acc_abs hd hq e3.le
  obtain ⟨c1, c2⟩ := ginv_core _ _ _ _ _ _ _ hF hK e3 (by rw [e1]) e4 e2 hm1 hs1 hd1
  exact ⟨fd, c1, c2⟩

/-- **One component of `ColorFromLAB`**: `componentFromLAB(f)` with the observed `math.Pow(f, 3)` accepted by the
driver's `PowSpec` check is finite and within `2⁻³²` of `finv` at the float value of `f`. -/
theorem compInv_acc (f c : Nat) (hf : Fin b64 f) (hF : |toQ b64 f| ≤ 13) (hc64 : c < 2 * b64.signBit)
    (hok : Ops.cubeOk f c = true) :
    Fin b64 (Xyz.componentFromLAB f c) ∧
    |((toQ b64 (Xyz.componentFromLAB f c) : ℚ) : ℝ) - Lab.finv ((toQ b64 f : ℚ) : ℝ)| ≤ 1 / 2 ^ 32 := by
  obtain ⟨fE, hE1, hE2⟩ := cE_val
  have hvf : valQ b64 f ≤ 16 := by rw [← abs_toQ]; linarith
  obtain ⟨fc, hcube⟩ := cubeOk_spec f c hc64 hvf hok
  have hδ : valQ b64 f ^ 3 / 2 ^ 48 ≤ 1 / 2 ^ 36 := by
    have h13 : valQ b64 f ≤ 13 := by rw [← abs_toQ]; exact hF
    have : valQ b64 f ^ 3 ≤ 13 ^ 3 := pow_le_pow_left₀ (valQ_nonneg b64 f) h13 3
    have : valQ b64 f ^ 3 / 2 ^ 48 ≤ 13 ^ 3 / 2 ^ 48 := div_le_div_of_nonneg_right this (by positivity)
    have : (13:ℚ) ^ 3 / 2 ^ 48 ≤ 1 / 2 ^ 36 := by norm_num
    linarith
  have hcubeR : |((toQ b64 c : ℚ) : ℝ) - ((toQ b64 f : ℚ) : ℝ) ^ 3| ≤ 1 / 2 ^ 36 := by
    have := (Rat.cast_le (K := ℝ)).mpr (le_trans hcube hδ)
    push_cast at this
    exact this
  have hepsq : ((216 / 24389 : ℚ) : ℝ) = Lab.eps := by unfold Lab.eps; push_cast; ring
  have hcomp : Xyz.componentFromLAB f c = if SF.gt b64 c Xyz.cE = true then c
      else SF.div b64 (SF.sub b64 (SF.mul b64 Xyz.c116 f) Xyz.c16) Xyz.cK := rfl
  have hsem := lt_sem b64 Xyz.cE c fE fc
  have hgtdef : SF.gt b64 c Xyz.cE = SF.lt b64 Xyz.cE c := rfl
  have hsmall : (1:ℝ) / 2 ^ 36 ≤ 1 / 1000 := by norm_num
  cases hgt : SF.gt b64 c Xyz.cE
  · -- linear piece
    rw [hgt] at hcomp
    simp only [Bool.false_eq_true, if_false] at hcomp
    rw [hcomp]
    rw [hgtdef] at hgt
    have hCle := hsem.2 hgt
    obtain ⟨fd, hd, _⟩ := ginv_acc f hf hF
    refine ⟨fd, ?_⟩
    have hdR : |((toQ b64 (SF.div b64 (SF.sub b64 (SF.mul b64 Xyz.c116 f) Xyz.c16) Xyz.cK) : ℚ) : ℝ) - Lab.ginv ((toQ b64 f : ℚ) : ℝ)| ≤ 1 / 2 ^ 45 := by
      have := (Rat.cast_le (K := ℝ)).mpr hd
      push_cast at this
      have e : Lab.ginv ((toQ b64 f : ℚ) : ℝ) = (116 * ((toQ b64 f : ℚ) : ℝ) - 16) / (24389 / 27) := by
        unfold Lab.ginv Lab.kappa; ring
      rw [e]; exact this
    have hCleR : ((toQ b64 c : ℚ) : ℝ) ≤ Lab.eps + 1 / 2 ^ 58 := by
      have := (Rat.cast_le (K := ℝ)).mpr (le_trans hCle hE2)
      push_cast at this
      rw [← hepsq]; push_cast; exact this
    have hgf : |Lab.ginv ((toQ b64 f : ℚ) : ℝ) - Lab.finv ((toQ b64 f : ℚ) : ℝ)| ≤ 8 / 2 ^ 36 := by
      by_cases hle : ((toQ b64 f : ℚ) : ℝ) ≤ 6 / 29
      · rw [Lab.finv_of_le hle]; simp; positivity
      · have hgt' : 6 / 29 < ((toQ b64 f : ℚ) : ℝ) := not_le.mp hle
        rw [Lab.finv_of_gt hgt']
        have hF3 : Lab.eps < ((toQ b64 f : ℚ) : ℝ) ^ 3 := (Lab.cube_gt_iff _).mpr hgt'
        have hclose : |((toQ b64 f : ℚ) : ℝ) ^ 3 - Lab.eps| ≤ 2 / 2 ^ 36 := by
          rw [abs_of_pos (by linarith)]
          have := (abs_le.mp hcubeR).1
          have : (1:ℝ) / 2 ^ 58 ≤ 1 / 2 ^ 36 := by norm_num
          linarith
        have := Lab.finv_pieces_close (by norm_num) hclose
        linarith
    have t1 := abs_sub_le (((toQ b64 (SF.div b64 (SF.sub b64 (SF.mul b64 Xyz.c116 f) Xyz.c16) Xyz.cK) : ℚ) : ℝ)) (Lab.ginv ((toQ b64 f : ℚ) : ℝ)) (Lab.finv ((toQ b64 f : ℚ) : ℝ))
    have : (1:ℝ) / 2 ^ 45 + 8 / 2 ^ 36 ≤ 1 / 2 ^ 32 := by norm_num
    linarith
  · -- the observed cube
    rw [hgt] at hcomp
    simp only [if_true] at hcomp
    rw [hcomp]
    rw [hgtdef] at hgt
    have hCge := hsem.1 hgt
    refine ⟨fc, ?_⟩
    have hCgeR : Lab.eps ≤ ((toQ b64 c : ℚ) : ℝ) := by
      have := (Rat.cast_le (K := ℝ)).mpr (le_trans hE1 hCge)
      rw [← hepsq]; exact this
    by_cases hle : ((toQ b64 f : ℚ) : ℝ) ≤ 6 / 29
    · rw [Lab.finv_of_le hle]
      have hF3 : ((toQ b64 f : ℚ) : ℝ) ^ 3 ≤ Lab.eps := by
        by_contra hc
        exact absurd ((Lab.cube_gt_iff _).mp (not_le.mp hc)) (not_lt.mpr hle)
      have hclose : |((toQ b64 f : ℚ) : ℝ) ^ 3 - Lab.eps| ≤ 1 / 2 ^ 36 := by
        rw [abs_sub_comm, abs_of_nonneg (by linarith)]
        have := (abs_le.mp hcubeR).2
        linarith
      have := Lab.finv_pieces_close hsmall hclose
      have t1 := abs_sub_le (((toQ b64 c : ℚ) : ℝ)) (((toQ b64 f : ℚ) : ℝ) ^ 3) (Lab.ginv ((toQ b64 f : ℚ) : ℝ))
      rw [abs_sub_comm (((toQ b64 f : ℚ) : ℝ) ^ 3)] at t1
      have : (1:ℝ) / 2 ^ 36 + 4 * (1 / 2 ^ 36) ≤ 1 / 2 ^ 32 := by norm_num
      linarith
    · rw [Lab.finv_of_gt (not_le.mp hle)]
      have : (1:ℝ) / 2 ^ 36 ≤ 1 / 2 ^ 32 := by norm_num
      linarith


/-- a positive finite float32 white of at most `2^64` -/
def WhiteOk (w : Nat) : Prop := Fin b32 w ∧ 0 < toQ b32 w ∧ toQ b32 w ≤ 2 ^ 64

/-- `float32(xr · float64(w))`: scaling a companded ratio back by the white -/
theorem scale_out (xr w : Nat) (hx : Fin b64 xr) (hw : WhiteOk w) (T : ℝ) (hT : |T| ≤ 2200)
    (h : |((toQ b64 xr : ℚ) : ℝ) - T| ≤ 1 / 2 ^ 28) :
    Fin b32 (cvt b64 b32 (SF.mul b64 xr (cvt b32 b64 w))) ∧
    |((toQ b32 (cvt b64 b32 (SF.mul b64 xr (cvt b32 b64 w))) : ℚ) : ℝ) - T * ((toQ b32 w : ℚ) : ℝ)| ≤
      |T * ((toQ b32 w : ℚ) : ℝ)| / 2 ^ 24 + ((toQ b32 w : ℚ) : ℝ) / 2 ^ 26 + 1 / 2 ^ 100 := by
  obtain ⟨fw, hw0, hwle⟩ := hw
  obtain ⟨e1, e2, e3, e4⟩ := e64_small
  have hy1 := pos32_ge w fw hw0
  obtain ⟨fW, hW⟩ := cvt_acc b32 b64 b32_ok b64_ok (2 ^ 1023) top64 w fw
    (le_top64 (le_trans (fin32_le w fw) (by norm_num)))
  rw [abs_of_pos hw0] at hW
  have hηW : eta b64 ≤ eps b64 * toQ b32 w := by
    have : eta b64 ≤ eps b64 * (1 / 2 ^ 149) := by rw [eps64, eta64]; norm_num
    exact le_trans this (mul_le_mul_of_nonneg_left hy1 e3.le)
  have hW1 : |toQ b64 (cvt b32 b64 w) - toQ b32 w| ≤ 2 * eps b64 * toQ b32 w := by linarith
  have hW64 : |toQ b64 (cvt b32 b64 w)| ≤ 2 * toQ b32 w := by
    have := abs_close hW1 (le_of_eq (abs_of_pos hw0))
    have : 2 * eps b64 * toQ b32 w ≤ toQ b32 w := by rw [e1]; nlinarith
    linarith
  have hXabs : |toQ b64 xr| ≤ 2201 := by
    have h1 : |((toQ b64 xr : ℚ) : ℝ)| ≤ 2201 := by
      have := abs_add_le (((toQ b64 xr : ℚ) : ℝ) - T) T
      simp only [sub_add_cancel] at this
      have : (1:ℝ) / 2 ^ 28 ≤ 1 := by norm_num
      linarith
    have : ((|toQ b64 xr| : ℚ) : ℝ) ≤ ((2201 : ℚ) : ℝ) := by push_cast; exact h1
    exact (Rat.cast_le (K := ℝ)).mp this
  have hprod : |toQ b64 xr * toQ b64 (cvt b32 b64 w)| ≤ 4402 * toQ b32 w := by
    rw [abs_mul]
    calc |toQ b64 xr| * |toQ b64 (cvt b32 b64 w)| ≤ 2201 * (2 * toQ b32 w) := mul_le_mul hXabs hW64 (abs_nonneg _) (by norm_num)
      _ = 4402 * toQ b32 w := by ring
  have hprod2 : |toQ b64 xr * toQ b64 (cvt b32 b64 w)| ≤ 2 ^ 100 := by
    have : 4402 * toQ b32 w ≤ 4402 * 2 ^ 64 := by nlinarith
    have : (4402:ℚ) * 2 ^ 64 ≤ 2 ^ 100 := by norm_num
    linarith
  obtain ⟨fP, hP⟩ := mul_acc b64 b64_ok (2 ^ 1023) top64 _ _ hx fW (le_top64 (le_trans hprod2 (by norm_num)))
  have hP1 := acc_abs hP hprod e3.le
  -- everything over ℝ
  set Wr : ℝ := ((toQ b32 w : ℚ) : ℝ) with hWr
  have hWr0 : 0 < Wr := by rw [hWr]; exact_mod_cast hw0
  have hW1R : |((toQ b64 (cvt b32 b64 w) : ℚ) : ℝ) - Wr| ≤ 2 * (1 / 2 ^ 53) * Wr := by
    have := (Rat.cast_le (K := ℝ)).mpr hW1
    rw [e1] at this; push_cast at this; exact this
  have hP1R : |((toQ b64 (SF.mul b64 xr (cvt b32 b64 w)) : ℚ) : ℝ) - ((toQ b64 xr : ℚ) : ℝ) * ((toQ b64 (cvt b32 b64 w) : ℚ) : ℝ)| ≤
      4402 * Wr * (1 / 2 ^ 53) + (1 / 2 ^ 53) * Wr := by
    have h1 : |toQ b64 (SF.mul b64 xr (cvt b32 b64 w)) - toQ b64 xr * toQ b64 (cvt b32 b64 w)| ≤ 4402 * toQ b32 w * eps b64 + eps b64 * toQ b32 w := by linarith
    have := (Rat.cast_le (K := ℝ)).mpr h1
    rw [e1] at this; push_cast at this; exact this
  have hXR : |((toQ b64 xr : ℚ) : ℝ)| ≤ 2201 := by
    have := (Rat.cast_le (K := ℝ)).mpr hXabs
    push_cast at this; exact this
  have hd : |((toQ b64 (SF.mul b64 xr (cvt b32 b64 w)) : ℚ) : ℝ) - T * Wr| ≤ Wr / 2 ^ 27 := by
    have e : ((toQ b64 (SF.mul b64 xr (cvt b32 b64 w)) : ℚ) : ℝ) - T * Wr =
        (((toQ b64 (SF.mul b64 xr (cvt b32 b64 w)) : ℚ) : ℝ) - ((toQ b64 xr : ℚ) : ℝ) * ((toQ b64 (cvt b32 b64 w) : ℚ) : ℝ))
        + (((toQ b64 xr : ℚ) : ℝ) * (((toQ b64 (cvt b32 b64 w) : ℚ) : ℝ) - Wr) + (((toQ b64 xr : ℚ) : ℝ) - T) * Wr) := by ring
    rw [e]
    have t1 := abs_add_le (((toQ b64 (SF.mul b64 xr (cvt b32 b64 w)) : ℚ) : ℝ) - ((toQ b64 xr : ℚ) : ℝ) * ((toQ b64 (cvt b32 b64 w) : ℚ) : ℝ))
      (((toQ b64 xr : ℚ) : ℝ) * (((toQ b64 (cvt b32 b64 w) : ℚ) : ℝ) - Wr) + (((toQ b64 xr : ℚ) : ℝ) - T) * Wr)
    have t2 := abs_add_le (((toQ b64 xr : ℚ) : ℝ) * (((toQ b64 (cvt b32 b64 w) : ℚ) : ℝ) - Wr)) ((((toQ b64 xr : ℚ) : ℝ) - T) * Wr)
    have t3 : |((toQ b64 xr : ℚ) : ℝ) * (((toQ b64 (cvt b32 b64 w) : ℚ) : ℝ) - Wr)| ≤ 2201 * (2 * (1 / 2 ^ 53) * Wr) := by
      rw [abs_mul]; exact mul_le_mul hXR hW1R (abs_nonneg _) (by norm_num)
    have t4 : |(((toQ b64 xr : ℚ) : ℝ) - T) * Wr| ≤ 1 / 2 ^ 28 * Wr := by
      rw [abs_mul, abs_of_pos hWr0]; exact mul_le_mul_of_nonneg_right h hWr0.le
    have : 4402 * Wr * (1 / 2 ^ 53) + (1 / 2 ^ 53) * Wr + (2201 * (2 * (1 / 2 ^ 53) * Wr) + 1 / 2 ^ 28 * Wr) ≤ Wr / 2 ^ 27 := by
      have : (4402:ℝ) * (1 / 2 ^ 53) + (1 / 2 ^ 53) + 2201 * (2 * (1 / 2 ^ 53)) + 1 / 2 ^ 28 ≤ 1 / 2 ^ 27 := by norm_num
      nlinarith
    linarith
  -- the final rounding
  have hPq : |toQ b64 (SF.mul b64 xr (cvt b32 b64 w))| ≤ 2 ^ 100 := by
    have h1 := abs_close hP1 hprod
    have : 4402 * toQ b32 w * eps b64 + eta b64 ≤ toQ b32 w := by rw [e1]; rw [e1] at hηW; nlinarith
    have : 4403 * toQ b32 w ≤ 4403 * 2 ^ 64 := by nlinarith
    have : (4403:ℚ) * 2 ^ 64 ≤ 2 ^ 100 := by norm_num
    linarith
  obtain ⟨fo, ho⟩ := cvt_acc b64 b32 b64_ok b32_ok (2 ^ 127) top32 _ fP (le_top32 hPq)
  refine ⟨fo, ?_⟩
  have hoR : |((toQ b32 (cvt b64 b32 (SF.mul b64 xr (cvt b32 b64 w))) : ℚ) : ℝ) - ((toQ b64 (SF.mul b64 xr (cvt b32 b64 w)) : ℚ) : ℝ)| ≤
      |((toQ b64 (SF.mul b64 xr (cvt b32 b64 w)) : ℚ) : ℝ)| * (1 / 2 ^ 24) + 1 / 2 ^ 100 := by
    have h1 : |toQ b32 (cvt b64 b32 (SF.mul b64 xr (cvt b32 b64 w))) - toQ b64 (SF.mul b64 xr (cvt b32 b64 w))| ≤
        |toQ b64 (SF.mul b64 xr (cvt b32 b64 w))| * (1 / 2 ^ 24) + 1 / 2 ^ 100 := by
      rw [eps32'] at ho
      have := eta32'
      linarith
    have := (Rat.cast_le (K := ℝ)).mpr h1
    push_cast at this
    exact this
  have hS : |((toQ b64 (SF.mul b64 xr (cvt b32 b64 w)) : ℚ) : ℝ)| ≤ |T * Wr| + Wr / 2 ^ 27 := by
    have := abs_add_le (((toQ b64 (SF.mul b64 xr (cvt b32 b64 w)) : ℚ) : ℝ) - T * Wr) (T * Wr)
    simp only [sub_add_cancel] at this
    linarith
  have t := abs_sub_le (((toQ b32 (cvt b64 b32 (SF.mul b64 xr (cvt b32 b64 w))) : ℚ) : ℝ)) (((toQ b64 (SF.mul b64 xr (cvt b32 b64 w)) : ℚ) : ℝ)) (T * Wr)
  have h3 : |((toQ b64 (SF.mul b64 xr (cvt b32 b64 w)) : ℚ) : ℝ)| * (1 / 2 ^ 24) ≤ (|T * Wr| + Wr / 2 ^ 27) * (1 / 2 ^ 24) :=
    mul_le_mul_of_nonneg_right hS (by positivity)
  have h4 : Wr / 2 ^ 27 * (1 / 2 ^ 24) + Wr / 2 ^ 27 ≤ Wr / 2 ^ 26 := by
    have : (1:ℝ) / 2 ^ 27 * (1 / 2 ^ 24) + 1 / 2 ^ 27 ≤ 1 / 2 ^ 26 := by norm_num
    nlinarith
  have e : (|T * Wr| + Wr / 2 ^ 27) * (1 / 2 ^ 24) = |T * Wr| / 2 ^ 24 + Wr / 2 ^ 27 * (1 / 2 ^ 24) := by ring
  linarith


theorem finv_abs_le {u : ℝ} (hu : |u| ≤ 13) : |Lab.finv u| ≤ 2197 := by
  by_cases h : u ≤ 6 / 29
  · rw [Lab.finv_of_le h]
    unfold Lab.ginv Lab.kappa
    have h1 := (abs_le.mp hu).1
    rw [abs_le]
    constructor
    · rw [le_div_iff₀ (by norm_num)]; linarith
    · rw [div_le_iff₀ (by norm_num)]; linarith
  · rw [Lab.finv_of_gt (not_le.mp h), abs_pow]
    have := pow_le_pow_left₀ (abs_nonneg u) hu 3
    linarith [show (13:ℝ) ^ 3 = 2197 by norm_num]

theorem finv_of_ge' {u : ℝ} (h : 6 / 29 ≤ u) : Lab.finv u = u ^ 3 := by
  rcases eq_or_lt_of_le h with e | l
  · rw [← e, Lab.finv_of_le le_rfl, Lab.ginv_u0, Lab.eps_eq_cube]
  · exact Lab.finv_of_gt l

theorem c8_val : Fin b32 (F32.ofNat 8) ∧ toQ b32 (F32.ofNat 8) = 8 := ⟨⟨by decide +kernel, by decide +kernel⟩, by decide +kernel⟩

/-- a float value `f` near an exact `u`, its accepted cube, and `finv` -/
theorem comp_to_spec (f c : Nat) (u : ℚ) (hf : Fin b64 f) (hu : |u| ≤ 12) (hfu : |toQ b64 f - u| ≤ 1 / 2 ^ 38)
    (hc64 : c < 2 * b64.signBit) (hok : Ops.cubeOk f c = true) :
    Fin b64 (Xyz.componentFromLAB f c) ∧ |((toQ b64 (Xyz.componentFromLAB f c) : ℚ) : ℝ) - Lab.finv (u : ℝ)| ≤ 1 / 2 ^ 28 ∧
    |Lab.finv (u : ℝ)| ≤ 2200 := by
  have hF : |toQ b64 f| ≤ 13 := by
    have := abs_close hfu hu
    have : (1:ℚ) / 2 ^ 38 ≤ 1 := by norm_num
    linarith
  obtain ⟨fx, hx⟩ := compInv_acc f c hf hF hc64 hok
  have hFR : |((toQ b64 f : ℚ) : ℝ)| ≤ 13 := by
    have := (Rat.cast_le (K := ℝ)).mpr hF; push_cast at this; exact this
  have huR : |(u : ℝ)| ≤ 13 := by
    have := (Rat.cast_le (K := ℝ)).mpr hu; push_cast at this; linarith
  have hfuR : |((toQ b64 f : ℚ) : ℝ) - (u : ℝ)| ≤ 1 / 2 ^ 38 := by
    have := (Rat.cast_le (K := ℝ)).mpr hfu; push_cast at this; exact this
  have hl := Lab.finv_lipschitz (U := 13) (by norm_num) hFR huR
  have hb := finv_abs_le huR
  refine ⟨fx, ?_, by linarith⟩
  have t := abs_sub_le (((toQ b64 (Xyz.componentFromLAB f c) : ℚ) : ℝ)) (Lab.finv ((toQ b64 f : ℚ) : ℝ)) (Lab.finv (u : ℝ))
  have : (3:ℝ) * 13 ^ 2 * (1 / 2 ^ 38) + 1 / 2 ^ 32 ≤ 1 / 2 ^ 28 := by norm_num
  have h0 := abs_nonneg (((toQ b64 f : ℚ) : ℝ) - (u : ℝ))
  nlinarith

/-- the Y channel of `ColorFromLAB`: branch on `L > 8` (float32), observed cube or `L/κ` -/
theorem y_to_spec (L c fy : Nat) (hL : Fin b32 L) (bL : |toQ b32 L| ≤ 1024) (hfy : Fin b64 fy)
    (hfu : |toQ b64 fy - (toQ b32 L + 16) / 116| ≤ 1 / 2 ^ 38)
    (hc64 : c < 2 * b64.signBit) (hok : Ops.cubeOk fy c = true) :
    let yr := if F32.gt L (F32.ofNat 8) = true then c else SF.div b64 (cvt b32 b64 L) Xyz.cK
    Fin b64 yr ∧ |((toQ b64 yr : ℚ) : ℝ) - Lab.yinv ((toQ b32 L : ℚ) : ℝ)| ≤ 1 / 2 ^ 28 ∧ |Lab.yinv ((toQ b32 L : ℚ) : ℝ)| ≤ 2200 := by
  intro yr
  obtain ⟨e1, e2, e3, e4⟩ := e64_small
  obtain ⟨f8, v8⟩ := c8_val
  have huy : |(toQ b32 L + 16) / 116| ≤ 9 := by
    rw [abs_div, abs_of_pos (by norm_num : (0:ℚ) < 116), div_le_iff₀ (by norm_num)]
    have := abs_add_le (toQ b32 L) 16
    rw [abs_of_pos (by norm_num : (0:ℚ) < 16)] at this; linarith
  have huyR : |((((toQ b32 L + 16) / 116 : ℚ)) : ℝ)| ≤ 13 := by
    have := (Rat.cast_le (K := ℝ)).mpr huy; push_cast at this ⊢; linarith
  have hspec : Lab.yinv ((toQ b32 L : ℚ) : ℝ) = Lab.finv ((((toQ b32 L + 16) / 116 : ℚ)) : ℝ) := by
    rw [Lab.yinv_eq]; push_cast; rfl
  have hbnd : |Lab.yinv ((toQ b32 L : ℚ) : ℝ)| ≤ 2200 := by
    rw [hspec]; have := finv_abs_le huyR; linarith
  have hsem := lt_sem b32 (F32.ofNat 8) L f8 hL
  have hgtdef : F32.gt L (F32.ofNat 8) = SF.lt b32 (F32.ofNat 8) L := rfl
  cases hgt : F32.gt L (F32.ofNat 8)
  · -- L ≤ 8: L/κ
    have hyr : yr = SF.div b64 (cvt b32 b64 L) Xyz.cK := by simp only [yr, hgt]; rfl
    rw [hyr]
    rw [hgtdef] at hgt
    have hLle := hsem.2 hgt
    rw [v8] at hLle
    obtain ⟨fK, hK, _, _⟩ := cK_val
    have hk903 := cK_pos
    obtain ⟨fl, hl, bl⟩ := cvt1024 L hL bL
    have hK0 : absBits b64 Xyz.cK ≠ 0 := toQ_ne_zero_abs b64 _ (by linarith)
    have hq : |toQ b64 (cvt b32 b64 L) / toQ b64 Xyz.cK| ≤ 2 := by
      rw [abs_div, abs_of_pos (by linarith : (0:ℚ) < toQ b64 Xyz.cK), div_le_iff₀ (by linarith)]; linarith
    obtain ⟨fd, hd⟩ := div_acc b64 b64_ok (2 ^ 1023) top64 _ _ fl fK hK0 (le_top64 (le_trans hq (by norm_num)))
    have hd1 := acc_abs hd hq e3.le
    refine ⟨fd, ?_, hbnd⟩
    have hacc : |toQ b64 (SF.div b64 (cvt b32 b64 L) Xyz.cK) - toQ b32 L / (24389 / 27)| ≤ 1 / 2 ^ 45 := by
      have hκ : (0:ℚ) < 24389 / 27 := by norm_num
      have hkpos : (0:ℚ) < toQ b64 Xyz.cK := by linarith
      have e : toQ b64 (SF.div b64 (cvt b32 b64 L) Xyz.cK) - toQ b32 L / (24389 / 27) =
          (toQ b64 (SF.div b64 (cvt b32 b64 L) Xyz.cK) - toQ b64 (cvt b32 b64 L) / toQ b64 Xyz.cK)
          + ((toQ b64 (cvt b32 b64 L) / toQ b64 Xyz.cK - toQ b64 (cvt b32 b64 L) / (24389 / 27)) + (toQ b64 (cvt b32 b64 L) - toQ b32 L) / (24389 / 27)) := by ring
      rw [e]
      have t1 := abs_add_le (toQ b64 (SF.div b64 (cvt b32 b64 L) Xyz.cK) - toQ b64 (cvt b32 b64 L) / toQ b64 Xyz.cK)
        ((toQ b64 (cvt b32 b64 L) / toQ b64 Xyz.cK - toQ b64 (cvt b32 b64 L) / (24389 / 27)) + (toQ b64 (cvt b32 b64 L) - toQ b32 L) / (24389 / 27))
      have t2 := abs_add_le (toQ b64 (cvt b32 b64 L) / toQ b64 Xyz.cK - toQ b64 (cvt b32 b64 L) / (24389 / 27)) ((toQ b64 (cvt b32 b64 L) - toQ b32 L) / (24389 / 27))
      have t3 : |toQ b64 (cvt b32 b64 L) / toQ b64 Xyz.cK - toQ b64 (cvt b32 b64 L) / (24389 / 27)| ≤ 1 / 2 ^ 48 := by
        have e1' : toQ b64 (cvt b32 b64 L) / toQ b64 Xyz.cK - toQ b64 (cvt b32 b64 L) / (24389 / 27) =
            toQ b64 (cvt b32 b64 L) * ((24389 / 27 - toQ b64 Xyz.cK) / (toQ b64 Xyz.cK * (24389 / 27))) := by field_simp
        rw [e1', abs_mul, abs_div, abs_of_pos (mul_pos hkpos hκ)]
        have h1 : |(24389:ℚ) / 27 - toQ b64 Xyz.cK| ≤ 1 / 2 ^ 40 := by rw [abs_sub_comm]; exact hK
        have h2 : (815409:ℚ) ≤ toQ b64 Xyz.cK * (24389 / 27) := by nlinarith
        have h3 : |(24389:ℚ) / 27 - toQ b64 Xyz.cK| / (toQ b64 Xyz.cK * (24389 / 27)) ≤ (1 / 2 ^ 40) / 815409 := by
          rw [div_le_div_iff₀ (mul_pos hkpos hκ) (by norm_num)]
          have := abs_nonneg ((24389:ℚ) / 27 - toQ b64 Xyz.cK)
          nlinarith
        calc |toQ b64 (cvt b32 b64 L)| * (|(24389:ℚ) / 27 - toQ b64 Xyz.cK| / (toQ b64 Xyz.cK * (24389 / 27))) ≤ 1025 * ((1 / 2 ^ 40) / 815409) :=
              mul_le_mul bl h3 (by positivity) (by norm_num)
          _ ≤ 1 / 2 ^ 48 := by norm_num
      have t4 : |(toQ b64 (cvt b32 b64 L) - toQ b32 L) / (24389 / 27)| ≤ 2 * eps b64 := by
        rw [abs_div, abs_of_pos hκ, div_le_iff₀ hκ]; nlinarith
      have : (2:ℚ) * eps b64 + eta b64 + (1 / 2 ^ 48 + 2 * eps b64) ≤ 1 / 2 ^ 45 := by rw [e1]; rw [e1] at e2; nlinarith
      linarith
    have hyv : Lab.yinv ((toQ b32 L : ℚ) : ℝ) = ((toQ b32 L : ℚ) : ℝ) / Lab.kappa := by
      unfold Lab.yinv
      rw [if_neg (by
        have : ((toQ b32 L : ℚ) : ℝ) ≤ 8 := by
          have := (Rat.cast_le (K := ℝ)).mpr hLle; push_cast at this; exact this
        exact not_lt.mpr this)]
    rw [hyv]
    have := (Rat.cast_le (K := ℝ)).mpr hacc
    push_cast at this
    unfold Lab.kappa
    have : (1:ℝ) / 2 ^ 45 ≤ 1 / 2 ^ 28 := by norm_num
    linarith
  · -- L ≥ 8: the observed cube
    have hyr : yr = c := by simp only [yr, hgt]; rfl
    rw [hyr]
    rw [hgtdef] at hgt
    have hLge := hsem.1 hgt
    rw [v8] at hLge
    have hF : |toQ b64 fy| ≤ 13 := by
      have := abs_close hfu huy
      have : (1:ℚ) / 2 ^ 38 ≤ 1 := by norm_num
      linarith
    have hvf : valQ b64 fy ≤ 16 := by rw [← abs_toQ]; linarith
    obtain ⟨fc, hcube⟩ := cubeOk_spec fy c hc64 hvf hok
    refine ⟨fc, ?_, hbnd⟩
    have hδ : valQ b64 fy ^ 3 / 2 ^ 48 ≤ 1 / 2 ^ 36 := by
      have h13 : valQ b64 fy ≤ 13 := by rw [← abs_toQ]; exact hF
      have : valQ b64 fy ^ 3 ≤ 13 ^ 3 := pow_le_pow_left₀ (valQ_nonneg b64 fy) h13 3
      have : valQ b64 fy ^ 3 / 2 ^ 48 ≤ 13 ^ 3 / 2 ^ 48 := div_le_div_of_nonneg_right this (by positivity)
      have : (13:ℚ) ^ 3 / 2 ^ 48 ≤ 1 / 2 ^ 36 := by norm_num
      linarith
    have hcubeR : |((toQ b64 c : ℚ) : ℝ) - ((toQ b64 fy : ℚ) : ℝ) ^ 3| ≤ 1 / 2 ^ 36 := by
      have := (Rat.cast_le (K := ℝ)).mpr (le_trans hcube hδ)
      push_cast at this; exact this
    have hFR : |((toQ b64 fy : ℚ) : ℝ)| ≤ 13 := by
      have := (Rat.cast_le (K := ℝ)).mpr hF; push_cast at this; exact this
    have hfuR : |((toQ b64 fy : ℚ) : ℝ) - ((((toQ b32 L + 16) / 116 : ℚ)) : ℝ)| ≤ 1 / 2 ^ 38 := by
      have := (Rat.cast_le (K := ℝ)).mpr hfu; push_cast at this ⊢; exact this
    have hcs := Lab.cube_sub_le hFR huyR
    have huge : (6:ℝ) / 29 ≤ ((((toQ b32 L + 16) / 116 : ℚ)) : ℝ) := by
      have h8 : (8:ℝ) ≤ ((toQ b32 L : ℚ) : ℝ) := by
        have := (Rat.cast_le (K := ℝ)).mpr hLge; push_cast at this; exact this
      push_cast
      rw [le_div_iff₀ (by norm_num)]; linarith
    rw [hspec, finv_of_ge' huge]
    have t := abs_sub_le (((toQ b64 c : ℚ) : ℝ)) (((toQ b64 fy : ℚ) : ℝ) ^ 3) (((((toQ b32 L + 16) / 116 : ℚ)) : ℝ) ^ 3)
    have : (3:ℝ) * 13 ^ 2 * (1 / 2 ^ 38) + 1 / 2 ^ 36 ≤ 1 / 2 ^ 28 := by norm_num
    have h0 := abs_nonneg (((toQ b64 fy : ℚ) : ℝ) - ((((toQ b32 L + 16) / 116 : ℚ)) : ℝ))
    nlinarith


/-- **C13 (`ColorFromLAB` in floating point; every finite float32 Lab colour with components up to 1024 in
magnitude, every positive float32 white up to `2^64`, every `math.Pow(·, 3)` accepted by `PowSpec`).**  Each of
X, Y, Z is finite — no NaN, no infinity — and within one float32 rounding of its own size, plus `white/2²⁶`, of
the CIE definition's inverse over ℝ. -/
theorem C13_fromLAB_float (lab w cubes : Nat × Nat × Nat)
    (hl : Fin b32 lab.1 ∧ Fin b32 lab.2.1 ∧ Fin b32 lab.2.2)
    (bl : |toQ b32 lab.1| ≤ 1024 ∧ |toQ b32 lab.2.1| ≤ 1024 ∧ |toQ b32 lab.2.2| ≤ 512)
    (hw : WhiteOk w.1 ∧ WhiteOk w.2.1 ∧ WhiteOk w.2.2)
    (hc64 : cubes.1 < 2 * b64.signBit ∧ cubes.2.1 < 2 * b64.signBit ∧ cubes.2.2 < 2 * b64.signBit)
    (hok : Ops.cubeOk (Xyz.labF lab).1 cubes.1 = true ∧ Ops.cubeOk (Xyz.labF lab).2.1 cubes.2.1 = true ∧
      Ops.cubeOk (Xyz.labF lab).2.2 cubes.2.2 = true) :
    let out := Xyz.fromLAB lab w cubes
    let ref := Lab.fromLab ((toQ b32 lab.1 : ℚ) : ℝ) ((toQ b32 lab.2.1 : ℚ) : ℝ) ((toQ b32 lab.2.2 : ℚ) : ℝ)
      ((toQ b32 w.1 : ℚ) : ℝ) ((toQ b32 w.2.1 : ℚ) : ℝ) ((toQ b32 w.2.2 : ℚ) : ℝ)
    (Fin b32 out.1 ∧ |((toQ b32 out.1 : ℚ) : ℝ) - ref.x| ≤ |ref.x| / 2 ^ 24 + ((toQ b32 w.1 : ℚ) : ℝ) / 2 ^ 26 + 1 / 2 ^ 100) ∧
    (Fin b32 out.2.1 ∧ |((toQ b32 out.2.1 : ℚ) : ℝ) - ref.y| ≤ |ref.y| / 2 ^ 24 + ((toQ b32 w.2.1 : ℚ) : ℝ) / 2 ^ 26 + 1 / 2 ^ 100) ∧
    (Fin b32 out.2.2 ∧ |((toQ b32 out.2.2 : ℚ) : ℝ) - ref.z| ≤ |ref.z| / 2 ^ 24 + ((toQ b32 w.2.2 : ℚ) : ℝ) / 2 ^ 26 + 1 / 2 ^ 100) := by
  intro out ref
  obtain ⟨⟨ffx, hfx⟩, ⟨ffy, hfy⟩, ⟨ffz, hfz⟩⟩ := labF_acc lab.1 lab.2.1 lab.2.2 hl.1 hl.2.1 hl.2.2 bl.1 bl.2.1 (le_trans bl.2.2 (by norm_num))
  have hlabeq : Xyz.labF (lab.1, lab.2.1, lab.2.2) = Xyz.labF lab := rfl
  rw [hlabeq] at ffx ffy ffz hfx hfy hfz
  -- magnitudes of the exact arguments
  have b16 : ∀ q : ℚ, |q| ≤ 1024 → |(q + 16) / 116| ≤ 9 := by
    intro q hq
    rw [abs_div, abs_of_pos (by norm_num : (0:ℚ) < 116), div_le_iff₀ (by norm_num)]
    have := abs_add_le q 16
    rw [abs_of_pos (by norm_num : (0:ℚ) < 16)] at this; linarith
  have hux : |toQ b32 lab.2.1 / 500 + (toQ b32 lab.1 + 16) / 116| ≤ 12 := by
    have h1 := b16 _ bl.1
    have h2 : |toQ b32 lab.2.1 / 500| ≤ 2.1 := by
      rw [abs_div, abs_of_pos (by norm_num : (0:ℚ) < 500), div_le_iff₀ (by norm_num)]; linarith [bl.2.1]
    have := abs_add_le (toQ b32 lab.2.1 / 500) ((toQ b32 lab.1 + 16) / 116)
    linarith
  have huz : |(toQ b32 lab.1 + 16) / 116 - toQ b32 lab.2.2 / 200| ≤ 12 := by
    have h1 := b16 _ bl.1
    have h2 : |toQ b32 lab.2.2 / 200| ≤ 2.6 := by
      rw [abs_div, abs_of_pos (by norm_num : (0:ℚ) < 200), div_le_iff₀ (by norm_num)]; linarith [bl.2.2]
    have := abs_sub ((toQ b32 lab.1 + 16) / 116) (toQ b32 lab.2.2 / 200)
    linarith
  obtain ⟨fxr, hxr, bxr⟩ := comp_to_spec (Xyz.labF lab).1 cubes.1 _ ffx hux hfx hc64.1 hok.1
  obtain ⟨fzr, hzr, bzr⟩ := comp_to_spec (Xyz.labF lab).2.2 cubes.2.2 _ ffz huz hfz hc64.2.2 hok.2.2
  obtain ⟨fyr, hyr, byr⟩ := y_to_spec lab.1 cubes.2.1 (Xyz.labF lab).2.1 hl.1 bl.1 ffy hfy hc64.2.1 hok.2.1
  have hX := scale_out _ w.1 fxr hw.1 _ bxr hxr
  have hY := scale_out _ w.2.1 fyr hw.2.1 _ byr hyr
  have hZ := scale_out _ w.2.2 fzr hw.2.2 _ bzr hzr
  have hdef : out = (cvt b64 b32 (SF.mul b64 (Xyz.componentFromLAB (Xyz.labF lab).1 cubes.1) (cvt b32 b64 w.1)),
      cvt b64 b32 (SF.mul b64 (if F32.gt lab.1 (F32.ofNat 8) = true then cubes.2.1 else SF.div b64 (cvt b32 b64 lab.1) Xyz.cK) (cvt b32 b64 w.2.1)),
      cvt b64 b32 (SF.mul b64 (Xyz.componentFromLAB (Xyz.labF lab).2.2 cubes.2.2) (cvt b32 b64 w.2.2))) := rfl
  rw [hdef]
  refine ⟨?_, ?_, ?_⟩
  · have e : ref.x = Lab.finv (((toQ b32 lab.2.1 / 500 + (toQ b32 lab.1 + 16) / 116 : ℚ)) : ℝ) * ((toQ b32 w.1 : ℚ) : ℝ) := by
      simp only [ref, Lab.fromLab]; push_cast; rfl
    rw [e]; exact hX
  · exact hY
  · have e : ref.z = Lab.finv ((((toQ b32 lab.1 + 16) / 116 - toQ b32 lab.2.2 / 200 : ℚ)) : ℝ) * ((toQ b32 w.2.2 : ℚ) : ℝ) := by
      simp only [ref, Lab.fromLab]; push_cast; rfl
    rw [e]; exact hZ


theorem f_range8 {t : ℝ} (h1 : 0 ≤ t) (h2 : t ≤ 8) : 4 / 29 ≤ Lab.f t ∧ Lab.f t ≤ 2 := by
  constructor
  · have := Lab.f_mono h1
    have e : Lab.f 0 = Lab.lin 0 := Lab.f_of_le Lab.eps_pos.le
    rw [e] at this
    have : Lab.lin 0 = 4 / 29 := by unfold Lab.lin; norm_num
    linarith
  · have := Lab.f_mono h2
    have e : Lab.f 8 = 2 := by
      rw [Lab.f_of_ge (by unfold Lab.eps; norm_num)]
      have h := Lab.cbrt_cube (u := 2) (by norm_num)
      have e2 : (2:ℝ) ^ 3 = 8 := by norm_num
      rwa [e2] at h
    linarith

/-- one channel of the round trip over ℝ: a perturbed argument of `finv`, scaled by the white -/
theorem rt_channel (ρ W u' O : ℝ) (hW : 0 < W) (hρ0 : 0 ≤ ρ) (hρ8 : ρ ≤ 8)
    (hu : |u' - Lab.f ρ| ≤ 1 / 2 ^ 22)
    (hO : |O - Lab.finv u' * W| ≤ |Lab.finv u' * W| / 2 ^ 24 + W / 2 ^ 26 + 1 / 2 ^ 100) :
    |O - ρ * W| ≤ W / 10 ^ 5 + 1 / 2 ^ 100 := by
  obtain ⟨f1, f2⟩ := f_range8 hρ0 hρ8
  have hfa : |Lab.f ρ| ≤ 21 / 10 := by rw [abs_le]; constructor <;> linarith
  have hua : |u'| ≤ 21 / 10 := by
    have := abs_add_le (u' - Lab.f ρ) (Lab.f ρ)
    simp only [sub_add_cancel] at this
    have : (1:ℝ) / 2 ^ 22 ≤ 1 / 100 := by norm_num
    have : |Lab.f ρ| ≤ 2 := by rw [abs_le]; constructor <;> linarith
    linarith
  have hlip := Lab.finv_lipschitz (U := 21 / 10) (by norm_num) hua hfa
  rw [Lab.C13_finv_f] at hlip
  have hd : |Lab.finv u' - ρ| ≤ 3 * (21 / 10) ^ 2 * (1 / 2 ^ 22) := by
    have := abs_nonneg (u' - Lab.f ρ)
    nlinarith
  have hfv : |Lab.finv u'| ≤ 9 := by
    have := abs_add_le (Lab.finv u' - ρ) ρ
    simp only [sub_add_cancel] at this
    rw [abs_of_nonneg hρ0] at this
    have : (3:ℝ) * (21 / 10) ^ 2 * (1 / 2 ^ 22) ≤ 1 := by norm_num
    linarith
  have hfW : |Lab.finv u' * W| ≤ 9 * W := by
    rw [abs_mul, abs_of_pos hW]; exact mul_le_mul_of_nonneg_right hfv hW.le
  have hdW : |Lab.finv u' * W - ρ * W| ≤ 3 * (21 / 10) ^ 2 * (1 / 2 ^ 22) * W := by
    rw [← sub_mul, abs_mul, abs_of_pos hW]; exact mul_le_mul_of_nonneg_right hd hW.le
  have t := abs_sub_le O (Lab.finv u' * W) (ρ * W)
  have hnum : (9:ℝ) / 2 ^ 24 + 1 / 2 ^ 26 + 3 * (21 / 10) ^ 2 * (1 / 2 ^ 22) ≤ 1 / 10 ^ 5 := by norm_num
  have h9 : |Lab.finv u' * W| / 2 ^ 24 ≤ 9 * W / 2 ^ 24 := div_le_div_of_nonneg_right hfW (by positivity)
  nlinarith


/-- **C13 (round trip in floating point).**  For every finite float32 XYZ colour with non-negative components
up to 8 times the white's, every positive float32 white up to `2^64`, and every behaviour of `math.Pow`
accepted by `PowSpec` in both directions: converting to L\*a\*b\* (float32) and back returns each component
within `white·10⁻⁵` (+ `2⁻¹⁰⁰`) of the input — no NaN, no infinity on the way. -/
theorem C13_roundtrip_float (c w pows cubes : Nat × Nat × Nat)
    (hc : Fin b32 c.1 ∧ Fin b32 c.2.1 ∧ Fin b32 c.2.2)
    (hw : WhiteOk w.1 ∧ WhiteOk w.2.1 ∧ WhiteOk w.2.2)
    (hlo : 0 ≤ toQ b32 c.1 ∧ 0 ≤ toQ b32 c.2.1 ∧ 0 ≤ toQ b32 c.2.2)
    (hhi : toQ b32 c.1 ≤ 8 * toQ b32 w.1 ∧ toQ b32 c.2.1 ≤ 8 * toQ b32 w.2.1 ∧ toQ b32 c.2.2 ≤ 8 * toQ b32 w.2.2)
    (hpow : PowOk c.1 w.1 pows.1 ∧ PowOk c.2.1 w.2.1 pows.2.1 ∧ PowOk c.2.2 w.2.2 pows.2.2)
    (hc64 : cubes.1 < 2 * b64.signBit ∧ cubes.2.1 < 2 * b64.signBit ∧ cubes.2.2 < 2 * b64.signBit)
    (hok : Ops.cubeOk (Xyz.labF (Xyz.toLAB c w pows)).1 cubes.1 = true ∧ Ops.cubeOk (Xyz.labF (Xyz.toLAB c w pows)).2.1 cubes.2.1 = true ∧
      Ops.cubeOk (Xyz.labF (Xyz.toLAB c w pows)).2.2 cubes.2.2 = true) :
    let back := Xyz.fromLAB (Xyz.toLAB c w pows) w cubes
    (Fin b32 back.1 ∧ |((toQ b32 back.1 : ℚ) : ℝ) - ((toQ b32 c.1 : ℚ) : ℝ)| ≤ ((toQ b32 w.1 : ℚ) : ℝ) / 10 ^ 5 + 1 / 2 ^ 100) ∧
    (Fin b32 back.2.1 ∧ |((toQ b32 back.2.1 : ℚ) : ℝ) - ((toQ b32 c.2.1 : ℚ) : ℝ)| ≤ ((toQ b32 w.2.1 : ℚ) : ℝ) / 10 ^ 5 + 1 / 2 ^ 100) ∧
    (Fin b32 back.2.2 ∧ |((toQ b32 back.2.2 : ℚ) : ℝ) - ((toQ b32 c.2.2 : ℚ) : ℝ)| ≤ ((toQ b32 w.2.2 : ℚ) : ℝ) / 10 ^ 5 + 1 / 2 ^ 100) := by
  intro back
  have habs : ∀ v w : ℚ, 0 < w → 0 ≤ v → v ≤ 8 * w → |v| ≤ 64 * w := by
    intro v w hw h1 h2; rw [abs_of_nonneg h1]; linarith
  have hT := C13_toLAB_float c w pows hc ⟨hw.1.1, hw.2.1.1, hw.2.2.1⟩ ⟨hw.1.2.1, hw.2.1.2.1, hw.2.2.2.1⟩
    ⟨habs _ _ hw.1.2.1 hlo.1 hhi.1, habs _ _ hw.2.1.2.1 hlo.2.1 hhi.2.1, habs _ _ hw.2.2.2.1 hlo.2.2 hhi.2.2⟩ hpow
  simp only at hT
  obtain ⟨⟨fL, hL⟩, ⟨fa, ha⟩, ⟨fb, hb⟩⟩ := hT
  -- the three ratios
  have hratio : ∀ v w : ℚ, 0 < w → 0 ≤ v → v ≤ 8 * w → (0:ℝ) ≤ (v:ℝ) / (w:ℝ) ∧ (v:ℝ) / (w:ℝ) ≤ 8 ∧ (v:ℝ) / (w:ℝ) * (w:ℝ) = (v:ℝ) ∧ (0:ℝ) < (w:ℝ) := by
    intro v w hw h1 h2
    have hwR : (0:ℝ) < (w:ℝ) := by exact_mod_cast hw
    have h1R : (0:ℝ) ≤ (v:ℝ) := by exact_mod_cast h1
    have h2R : (v:ℝ) ≤ 8 * (w:ℝ) := by exact_mod_cast h2
    exact ⟨div_nonneg h1R hwR.le, by rw [div_le_iff₀ hwR]; exact h2R, div_mul_cancel₀ _ (ne_of_gt hwR), hwR⟩
  obtain ⟨x0, x8, xe, xw⟩ := hratio _ _ hw.1.2.1 hlo.1 hhi.1
  obtain ⟨y0, y8, ye, yw⟩ := hratio _ _ hw.2.1.2.1 hlo.2.1 hhi.2.1
  obtain ⟨z0, z8, ze, zw⟩ := hratio _ _ hw.2.2.2.1 hlo.2.2 hhi.2.2
  obtain ⟨fx1, fx2⟩ := f_range8 x0 x8
  obtain ⟨fy1, fy2⟩ := f_range8 y0 y8
  obtain ⟨fz1, fz2⟩ := f_range8 z0 z8
  set ρx : ℝ := ((toQ b32 c.1 : ℚ) : ℝ) / ((toQ b32 w.1 : ℚ) : ℝ) with hρx
  set ρy : ℝ := ((toQ b32 c.2.1 : ℚ) : ℝ) / ((toQ b32 w.2.1 : ℚ) : ℝ) with hρy
  set ρz : ℝ := ((toQ b32 c.2.2 : ℚ) : ℝ) / ((toQ b32 w.2.2 : ℚ) : ℝ) with hρz
  simp only [Lab.toLab] at hL ha hb
  rw [← hρx, ← hρy] at ha
  rw [← hρy] at hL
  rw [← hρy, ← hρz] at hb
  -- sizes of the exact Lab values
  have bL : |116 * Lab.f ρy - 16| ≤ 216 := by rw [abs_le]; constructor <;> linarith
  have ba : |500 * (Lab.f ρx - Lab.f ρy)| ≤ 932 := by rw [abs_le]; constructor <;> linarith
  have bb : |200 * (Lab.f ρy - Lab.f ρz)| ≤ 373 := by rw [abs_le]; constructor <;> linarith
  set L' : ℝ := ((toQ b32 (Xyz.toLAB c w pows).1 : ℚ) : ℝ) with hL'
  set a' : ℝ := ((toQ b32 (Xyz.toLAB c w pows).2.1 : ℚ) : ℝ) with ha'
  set b' : ℝ := ((toQ b32 (Xyz.toLAB c w pows).2.2 : ℚ) : ℝ) with hb'
  have dL : |L' - (116 * Lab.f ρy - 16)| ≤ 216 / 2 ^ 24 + 1 / 2 ^ 23 := by
    have := div_le_div_of_nonneg_right bL (by positivity : (0:ℝ) ≤ 2 ^ 24); linarith
  have da : |a' - 500 * (Lab.f ρx - Lab.f ρy)| ≤ 932 / 2 ^ 24 + 1 / 2 ^ 23 := by
    have := div_le_div_of_nonneg_right ba (by positivity : (0:ℝ) ≤ 2 ^ 24); linarith
  have db : |b' - 200 * (Lab.f ρy - Lab.f ρz)| ≤ 373 / 2 ^ 24 + 1 / 2 ^ 23 := by
    have := div_le_div_of_nonneg_right bb (by positivity : (0:ℝ) ≤ 2 ^ 24); linarith
  -- magnitudes of the float Lab values, back in ℚ
  have toQbound : ∀ (q : ℚ) (T B : ℝ) (M : ℚ), |((q:ℚ):ℝ) - T| ≤ 1 → |T| ≤ B → B + 1 ≤ (M:ℝ) → |q| ≤ M := by
    intro q T B M h1 h2 h3
    have h4 : |((q:ℚ):ℝ)| ≤ (M:ℝ) := by
      have := abs_add_le (((q:ℚ):ℝ) - T) T
      simp only [sub_add_cancel] at this
      linarith
    have : ((|q| : ℚ) : ℝ) ≤ ((M : ℚ) : ℝ) := by push_cast; exact h4
    exact (Rat.cast_le (K := ℝ)).mp this
  have s1 : (216:ℝ) / 2 ^ 24 + 1 / 2 ^ 23 ≤ 1 := by norm_num
  have s2 : (932:ℝ) / 2 ^ 24 + 1 / 2 ^ 23 ≤ 1 := by norm_num
  have s3 : (373:ℝ) / 2 ^ 24 + 1 / 2 ^ 23 ≤ 1 := by norm_num
  have qL : |toQ b32 (Xyz.toLAB c w pows).1| ≤ 1024 := toQbound _ _ 216 1024 (by linarith) bL (by norm_num)
  have qa : |toQ b32 (Xyz.toLAB c w pows).2.1| ≤ 1024 := toQbound _ _ 932 1024 (by linarith) ba (by norm_num)
  have qb : |toQ b32 (Xyz.toLAB c w pows).2.2| ≤ 512 := toQbound _ _ 373 512 (by linarith) bb (by norm_num)
  have hF := C13_fromLAB_float (Xyz.toLAB c w pows) w cubes ⟨fL, fa, fb⟩ ⟨qL, qa, qb⟩ hw hc64 hok
  simp only [Lab.fromLab] at hF
  rw [← hL', ← ha', ← hb'] at hF
  obtain ⟨⟨gx, hx⟩, ⟨gy, hy⟩, ⟨gz, hz⟩⟩ := hF
  rw [Lab.yinv_eq] at hy
  -- arguments of finv against the exact companded ratios
  have ux : |(a' / 500 + (L' + 16) / 116) - Lab.f ρx| ≤ 1 / 2 ^ 22 := by
    have e : (a' / 500 + (L' + 16) / 116) - Lab.f ρx = (a' - 500 * (Lab.f ρx - Lab.f ρy)) / 500 + (L' - (116 * Lab.f ρy - 16)) / 116 := by ring
    rw [e]
    have t := abs_add_le ((a' - 500 * (Lab.f ρx - Lab.f ρy)) / 500) ((L' - (116 * Lab.f ρy - 16)) / 116)
    have t1 : |(a' - 500 * (Lab.f ρx - Lab.f ρy)) / 500| ≤ (932 / 2 ^ 24 + 1 / 2 ^ 23) / 500 := by
      rw [abs_div, abs_of_pos (by norm_num : (0:ℝ) < 500)]; exact div_le_div_of_nonneg_right da (by norm_num)
    have t2 : |(L' - (116 * Lab.f ρy - 16)) / 116| ≤ (216 / 2 ^ 24 + 1 / 2 ^ 23) / 116 := by
      rw [abs_div, abs_of_pos (by norm_num : (0:ℝ) < 116)]; exact div_le_div_of_nonneg_right dL (by norm_num)
    have : ((932:ℝ) / 2 ^ 24 + 1 / 2 ^ 23) / 500 + (216 / 2 ^ 24 + 1 / 2 ^ 23) / 116 ≤ 1 / 2 ^ 22 := by norm_num
    linarith
  have uy : |(L' + 16) / 116 - Lab.f ρy| ≤ 1 / 2 ^ 22 := by
    have e : (L' + 16) / 116 - Lab.f ρy = (L' - (116 * Lab.f ρy - 16)) / 116 := by ring
    rw [e, abs_div, abs_of_pos (by norm_num : (0:ℝ) < 116)]
    have := div_le_div_of_nonneg_right dL (by norm_num : (0:ℝ) ≤ 116)
    have : ((216:ℝ) / 2 ^ 24 + 1 / 2 ^ 23) / 116 ≤ 1 / 2 ^ 22 := by norm_num
    linarith
  have uz : |((L' + 16) / 116 - b' / 200) - Lab.f ρz| ≤ 1 / 2 ^ 22 := by
    have e : ((L' + 16) / 116 - b' / 200) - Lab.f ρz = (L' - (116 * Lab.f ρy - 16)) / 116 - (b' - 200 * (Lab.f ρy - Lab.f ρz)) / 200 := by ring
    rw [e]
    have t := abs_sub ((L' - (116 * Lab.f ρy - 16)) / 116) ((b' - 200 * (Lab.f ρy - Lab.f ρz)) / 200)
    have t1 : |(b' - 200 * (Lab.f ρy - Lab.f ρz)) / 200| ≤ (373 / 2 ^ 24 + 1 / 2 ^ 23) / 200 := by
      rw [abs_div, abs_of_pos (by norm_num : (0:ℝ) < 200)]; exact div_le_div_of_nonneg_right db (by norm_num)
    have t2 : |(L' - (116 * Lab.f ρy - 16)) / 116| ≤ (216 / 2 ^ 24 + 1 / 2 ^ 23) / 116 := by
      rw [abs_div, abs_of_pos (by norm_num : (0:ℝ) < 116)]; exact div_le_div_of_nonneg_right dL (by norm_num)
    have : ((373:ℝ) / 2 ^ 24 + 1 / 2 ^ 23) / 200 + (216 / 2 ^ 24 + 1 / 2 ^ 23) / 116 ≤ 1 / 2 ^ 22 := by norm_num
    linarith
  have rx := rt_channel ρx _ _ _ xw x0 x8 ux hx
  have ry := rt_channel ρy _ _ _ yw y0 y8 uy hy
  have rz := rt_channel ρz _ _ _ zw z0 z8 uz hz
  rw [xe] at rx
  rw [ye] at ry
  rw [ze] at rz
  exact ⟨⟨gx, rx⟩, ⟨gy, ry⟩, ⟨gz, rz⟩⟩


/-- non-vacuity of the round-trip theorem's hypotheses: `(0.5, 0.5, 0.5)` against the white `(1, 1, 1)`, with
`math.Pow(0.5, 1/3) = 0x3fe965fea53d6e3d` and cubes obtained by two float64 multiplications (which `PowSpec` accepts) -/
example :
    let c : Nat × Nat × Nat := (0x3f000000, 0x3f000000, 0x3f000000)
    let w : Nat × Nat × Nat := (0x3f800000, 0x3f800000, 0x3f800000)
    let pows : Nat × Nat × Nat := (0x3fe965fea53d6e3d, 0x3fe965fea53d6e3d, 0x3fe965fea53d6e3d)
    let F := Xyz.labF (Xyz.toLAB c w pows)
    let cube := fun f => SF.mul b64 (SF.mul b64 f f) f
    (Fin b32 c.1 ∧ 0 ≤ toQ b32 c.1 ∧ toQ b32 c.1 ≤ 8 * toQ b32 w.1) ∧ (Fin b32 w.1 ∧ 0 < toQ b32 w.1 ∧ toQ b32 w.1 ≤ 2 ^ 64) ∧
    (Xyz.componentToLAB c.1 w.1 pows.1).2.2 = true ∧ Ops.cbrtOk (Xyz.componentToLAB c.1 w.1 pows.1).2.1 pows.1 = true ∧
    (cube F.1 < 2 * b64.signBit ∧ Ops.cubeOk F.1 (cube F.1) = true) ∧
    (cube F.2.1 < 2 * b64.signBit ∧ Ops.cubeOk F.2.1 (cube F.2.1) = true) ∧
    (cube F.2.2 < 2 * b64.signBit ∧ Ops.cubeOk F.2.2 (cube F.2.2) = true) := by
  refine ⟨⟨⟨by decide +kernel, by decide +kernel⟩, by decide +kernel, by decide +kernel⟩,
    ⟨⟨by decide +kernel, by decide +kernel⟩, by decide +kernel, by decide +kernel⟩,
    by decide +kernel, by decide +kernel, ⟨by decide +kernel, by decide +kernel⟩, ⟨by decide +kernel, by decide +kernel⟩,
    ⟨by decide +kernel, by decide +kernel⟩⟩


end Prism
