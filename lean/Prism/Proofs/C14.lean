import Prism.Proofs.C14.AllAlpha

/-!
# C14 — alpha passes through exactly; linearised pixels stay validly premultiplied
-/

namespace Prism
open SF

/-- **C14 (16-bit alpha survives decode → encode).** For all 65 536 alpha values `a`: decoding gives
the float32 `a/65535` and encoding that gives back exactly `a` — so `LineariseColor` and
`EncodeColor`, whose alpha path is exactly this, leave the alpha channel bit-identical. -/
theorem C14_alpha16_roundtrip (a : Nat) (ha : a < 65536) :
    quant16 (F32.div (F32.ofNat a) f65535) = a := by
  have h := C14.alpha_chunks (a / 256) (by omega)
  have := allDepth_spec _ 8 _ h a (by omega) (by omega)
  unfold alphaRT16 at this
  simpa [force_eq] using this

/-- **C14 (8-bit alpha).** The same for the 8-bit constructors and converters. -/
theorem C14_alpha8_roundtrip (a : Nat) (ha : a < 256) :
    quant8 (F32.div (F32.ofNat a) f255) = a := by
  have := allDepth_spec _ 8 _ C14.alpha8 a (by omega) (by omega)
  unfold alphaRT8 at this
  simpa [force_eq] using this

/-- `LineariseColor` keeps alpha (alpha ≠ 0; the transparent pixel is the next theorem) -/
theorem C14_linearise_alpha (s : Space) (r g b a : Nat) (ha : a < 65536) (h0 : a ≠ 0) :
    (lineariseColor s r g b a).a = a := by
  unfold lineariseColor fromEncoded toLinearRGBA64
  have : (a == 0) = false := by simpa using h0
  simp only [this, Bool.false_eq_true, if_false]
  exact C14_alpha16_roundtrip a ha

/-- `EncodeColor` keeps alpha -/
theorem C14_encode_alpha (s : Space) (r g b a : Nat) (ha : a < 65536) (h0 : a ≠ 0) :
    (encodeColor s r g b a).a = a := by
  unfold encodeColor fromLinear toRGBA64
  have : (a == 0) = false := by simpa using h0
  simp only [this, Bool.false_eq_true, if_false]
  exact C14_alpha16_roundtrip a ha

/-- **C14 (transparent).** A fully transparent pixel decodes to the zero colour with alpha 0, and
linearises / encodes to the all-zero pixel. -/
theorem C14_transparent (s : Space) (r g b : Nat) :
    fromEncoded s r g b 0 = (⟨0, 0, 0⟩, 0) ∧ fromRGBA s r g b 0 = (⟨0, 0, 0⟩, 0) ∧ fromLinear r g b 0 = (⟨0, 0, 0⟩, 0) := by
  refine ⟨rfl, rfl, rfl⟩

theorem C14_transparent_pixel (s : Space) (r g b : Nat) :
    lineariseColor s r g b 0 = ⟨0, 0, 0, 0⟩ ∧ encodeColor s r g b 0 = ⟨0, 0, 0, 0⟩ := by
  constructor
  · show toLinearRGBA64 ⟨0, 0, 0⟩ 0 = _
    decide +kernel
  · show toRGBA64 s ⟨0, 0, 0⟩ 0 = _
    cases s <;> decide +kernel

/-- **C14 (decode alpha).** Decoding returns alpha as exactly `A/max` (one float32 division). -/
theorem C14_decode_alpha (s : Space) (r g b a : Nat) (h0 : a ≠ 0) :
    (fromEncoded s r g b a).2 = F32.div (F32.ofNat a) f65535 ∧
    (fromNRGBA s r g b a).2 = F32.div (F32.ofNat a) f255 ∧
    (fromRGBA s r g b a).2 = F32.div (F32.ofNat a) f255 := by
  have : (a == 0) = false := by simpa using h0
  refine ⟨?_, rfl, ?_⟩ <;> simp [fromEncoded, fromRGBA, this]

/-- **C14 (encode side clamps).** Alpha is written as the clamped quantisation for every float32
bit pattern: non-positive alphas give 0, alphas ≥ 1 give the maximum. -/
theorem C14_encode_alpha_clamps (N v : Nat) :
    (F32.le v F32.zero = true → quant N v = 0) ∧
    (F32.le v F32.zero = false → F32.ge v F32.one = true → quant N v = N) := by
  unfold quant
  constructor
  · intro h; simp [h]
  · intro h1 h2; simp [h1, h2]

end Prism
