import Prism.Proofs.C14.KAlpha0
import Prism.Proofs.C14.KAlpha1
import Prism.Proofs.C14.KAlpha2
import Prism.Proofs.C14.KAlpha3
import Prism.Proofs.C14.KAlpha4
import Prism.Proofs.C14.KAlpha5
import Prism.Proofs.C14.KAlpha6
import Prism.Proofs.C14.KAlpha7
import Prism.Proofs.C14.KAlpha8
import Prism.Proofs.C14.KAlpha9
import Prism.Proofs.C14.KAlpha10
import Prism.Proofs.C14.KAlpha11
import Prism.Proofs.C14.KAlpha12
import Prism.Proofs.C14.KAlpha13
import Prism.Proofs.C14.KAlpha14
import Prism.Proofs.C14.KAlpha15

namespace Prism.C14

theorem alpha_chunks : ∀ k, k < 256 → alphaChunk16 k = true := by
  intro k hk
  have h : (0 ≤ k ∧ k < 16) ∨ (16 ≤ k ∧ k < 32) ∨ (32 ≤ k ∧ k < 48) ∨ (48 ≤ k ∧ k < 64) ∨ (64 ≤ k ∧ k < 80) ∨ (80 ≤ k ∧ k < 96) ∨ (96 ≤ k ∧ k < 112) ∨ (112 ≤ k ∧ k < 128) ∨ (128 ≤ k ∧ k < 144) ∨ (144 ≤ k ∧ k < 160) ∨ (160 ≤ k ∧ k < 176) ∨ (176 ≤ k ∧ k < 192) ∨ (192 ≤ k ∧ k < 208) ∨ (208 ≤ k ∧ k < 224) ∨ (224 ≤ k ∧ k < 240) ∨ (240 ≤ k ∧ k < 256) := by omega
  rcases h with h | h | h | h | h | h | h | h | h | h | h | h | h | h | h | h
  · exact alpha_file0 k h.1 h.2
  · exact alpha_file1 k h.1 h.2
  · exact alpha_file2 k h.1 h.2
  · exact alpha_file3 k h.1 h.2
  · exact alpha_file4 k h.1 h.2
  · exact alpha_file5 k h.1 h.2
  · exact alpha_file6 k h.1 h.2
  · exact alpha_file7 k h.1 h.2
  · exact alpha_file8 k h.1 h.2
  · exact alpha_file9 k h.1 h.2
  · exact alpha_file10 k h.1 h.2
  · exact alpha_file11 k h.1 h.2
  · exact alpha_file12 k h.1 h.2
  · exact alpha_file13 k h.1 h.2
  · exact alpha_file14 k h.1 h.2
  · exact alpha_file15 k h.1 h.2

theorem alpha8 : alphaAll8 = true := by decide +kernel

end Prism.C14
