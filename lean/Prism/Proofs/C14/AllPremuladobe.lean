import Prism.Proofs.C14.KPremuladobe0
import Prism.Proofs.C14.KPremuladobe1
import Prism.Proofs.C14.KPremuladobe2
import Prism.Proofs.C14.KPremuladobe3
import Prism.Proofs.C14.KPremuladobe4
import Prism.Proofs.C14.KPremuladobe5
import Prism.Proofs.C14.KPremuladobe6
import Prism.Proofs.C14.KPremuladobe7
import Prism.Proofs.C14.KPremuladobe8
import Prism.Proofs.C14.KPremuladobe9
import Prism.Proofs.C14.KPremuladobe10
import Prism.Proofs.C14.KPremuladobe11
import Prism.Proofs.C14.KPremuladobe12
import Prism.Proofs.C14.KPremuladobe13
import Prism.Proofs.C14.KPremuladobe14
import Prism.Proofs.C14.KPremuladobe15

namespace Prism.C14

theorem premuladobe_chunks : ∀ k, k < 256 → premulChunk .adobe k = true := by
  intro k hk
  have h : (0 ≤ k ∧ k < 16) ∨ (16 ≤ k ∧ k < 32) ∨ (32 ≤ k ∧ k < 48) ∨ (48 ≤ k ∧ k < 64) ∨ (64 ≤ k ∧ k < 80) ∨ (80 ≤ k ∧ k < 96) ∨ (96 ≤ k ∧ k < 112) ∨ (112 ≤ k ∧ k < 128) ∨ (128 ≤ k ∧ k < 144) ∨ (144 ≤ k ∧ k < 160) ∨ (160 ≤ k ∧ k < 176) ∨ (176 ≤ k ∧ k < 192) ∨ (192 ≤ k ∧ k < 208) ∨ (208 ≤ k ∧ k < 224) ∨ (224 ≤ k ∧ k < 240) ∨ (240 ≤ k ∧ k < 256) := by omega
  rcases h with h | h | h | h | h | h | h | h | h | h | h | h | h | h | h | h
  · exact premuladobe_file0 k h.1 h.2
  · exact premuladobe_file1 k h.1 h.2
  · exact premuladobe_file2 k h.1 h.2
  · exact premuladobe_file3 k h.1 h.2
  · exact premuladobe_file4 k h.1 h.2
  · exact premuladobe_file5 k h.1 h.2
  · exact premuladobe_file6 k h.1 h.2
  · exact premuladobe_file7 k h.1 h.2
  · exact premuladobe_file8 k h.1 h.2
  · exact premuladobe_file9 k h.1 h.2
  · exact premuladobe_file10 k h.1 h.2
  · exact premuladobe_file11 k h.1 h.2
  · exact premuladobe_file12 k h.1 h.2
  · exact premuladobe_file13 k h.1 h.2
  · exact premuladobe_file14 k h.1 h.2
  · exact premuladobe_file15 k h.1 h.2

end Prism.C14
