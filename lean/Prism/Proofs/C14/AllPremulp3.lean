import Prism.Proofs.C14.KPremulp30
import Prism.Proofs.C14.KPremulp31
import Prism.Proofs.C14.KPremulp32
import Prism.Proofs.C14.KPremulp33
import Prism.Proofs.C14.KPremulp34
import Prism.Proofs.C14.KPremulp35
import Prism.Proofs.C14.KPremulp36
import Prism.Proofs.C14.KPremulp37
import Prism.Proofs.C14.KPremulp38
import Prism.Proofs.C14.KPremulp39
import Prism.Proofs.C14.KPremulp310
import Prism.Proofs.C14.KPremulp311
import Prism.Proofs.C14.KPremulp312
import Prism.Proofs.C14.KPremulp313
import Prism.Proofs.C14.KPremulp314
import Prism.Proofs.C14.KPremulp315

namespace Prism.C14

theorem premulp3_chunks : ∀ k, k < 256 → premulChunk .p3 k = true := by
  intro k hk
  have h : (0 ≤ k ∧ k < 16) ∨ (16 ≤ k ∧ k < 32) ∨ (32 ≤ k ∧ k < 48) ∨ (48 ≤ k ∧ k < 64) ∨ (64 ≤ k ∧ k < 80) ∨ (80 ≤ k ∧ k < 96) ∨ (96 ≤ k ∧ k < 112) ∨ (112 ≤ k ∧ k < 128) ∨ (128 ≤ k ∧ k < 144) ∨ (144 ≤ k ∧ k < 160) ∨ (160 ≤ k ∧ k < 176) ∨ (176 ≤ k ∧ k < 192) ∨ (192 ≤ k ∧ k < 208) ∨ (208 ≤ k ∧ k < 224) ∨ (224 ≤ k ∧ k < 240) ∨ (240 ≤ k ∧ k < 256) := by omega
  rcases h with h | h | h | h | h | h | h | h | h | h | h | h | h | h | h | h
  · exact premulp3_file0 k h.1 h.2
  · exact premulp3_file1 k h.1 h.2
  · exact premulp3_file2 k h.1 h.2
  · exact premulp3_file3 k h.1 h.2
  · exact premulp3_file4 k h.1 h.2
  · exact premulp3_file5 k h.1 h.2
  · exact premulp3_file6 k h.1 h.2
  · exact premulp3_file7 k h.1 h.2
  · exact premulp3_file8 k h.1 h.2
  · exact premulp3_file9 k h.1 h.2
  · exact premulp3_file10 k h.1 h.2
  · exact premulp3_file11 k h.1 h.2
  · exact premulp3_file12 k h.1 h.2
  · exact premulp3_file13 k h.1 h.2
  · exact premulp3_file14 k h.1 h.2
  · exact premulp3_file15 k h.1 h.2

end Prism.C14
