import Prism.Proofs.C14.KPremulprophoto0
import Prism.Proofs.C14.KPremulprophoto1
import Prism.Proofs.C14.KPremulprophoto2
import Prism.Proofs.C14.KPremulprophoto3
import Prism.Proofs.C14.KPremulprophoto4
import Prism.Proofs.C14.KPremulprophoto5
import Prism.Proofs.C14.KPremulprophoto6
import Prism.Proofs.C14.KPremulprophoto7
import Prism.Proofs.C14.KPremulprophoto8
import Prism.Proofs.C14.KPremulprophoto9
import Prism.Proofs.C14.KPremulprophoto10
import Prism.Proofs.C14.KPremulprophoto11
import Prism.Proofs.C14.KPremulprophoto12
import Prism.Proofs.C14.KPremulprophoto13
import Prism.Proofs.C14.KPremulprophoto14
import Prism.Proofs.C14.KPremulprophoto15

namespace Prism.C14

theorem premulprophoto_chunks : ∀ k, k < 256 → premulChunk .prophoto k = true := by
  intro k hk
  have h : (0 ≤ k ∧ k < 16) ∨ (16 ≤ k ∧ k < 32) ∨ (32 ≤ k ∧ k < 48) ∨ (48 ≤ k ∧ k < 64) ∨ (64 ≤ k ∧ k < 80) ∨ (80 ≤ k ∧ k < 96) ∨ (96 ≤ k ∧ k < 112) ∨ (112 ≤ k ∧ k < 128) ∨ (128 ≤ k ∧ k < 144) ∨ (144 ≤ k ∧ k < 160) ∨ (160 ≤ k ∧ k < 176) ∨ (176 ≤ k ∧ k < 192) ∨ (192 ≤ k ∧ k < 208) ∨ (208 ≤ k ∧ k < 224) ∨ (224 ≤ k ∧ k < 240) ∨ (240 ≤ k ∧ k < 256) := by omega
  rcases h with h | h | h | h | h | h | h | h | h | h | h | h | h | h | h | h
  · exact premulprophoto_file0 k h.1 h.2
  · exact premulprophoto_file1 k h.1 h.2
  · exact premulprophoto_file2 k h.1 h.2
  · exact premulprophoto_file3 k h.1 h.2
  · exact premulprophoto_file4 k h.1 h.2
  · exact premulprophoto_file5 k h.1 h.2
  · exact premulprophoto_file6 k h.1 h.2
  · exact premulprophoto_file7 k h.1 h.2
  · exact premulprophoto_file8 k h.1 h.2
  · exact premulprophoto_file9 k h.1 h.2
  · exact premulprophoto_file10 k h.1 h.2
  · exact premulprophoto_file11 k h.1 h.2
  · exact premulprophoto_file12 k h.1 h.2
  · exact premulprophoto_file13 k h.1 h.2
  · exact premulprophoto_file14 k h.1 h.2
  · exact premulprophoto_file15 k h.1 h.2

end Prism.C14
