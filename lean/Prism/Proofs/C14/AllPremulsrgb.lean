import Prism.Proofs.C14.KPremulsrgb0
import Prism.Proofs.C14.KPremulsrgb1
import Prism.Proofs.C14.KPremulsrgb2
import Prism.Proofs.C14.KPremulsrgb3
import Prism.Proofs.C14.KPremulsrgb4
import Prism.Proofs.C14.KPremulsrgb5
import Prism.Proofs.C14.KPremulsrgb6
import Prism.Proofs.C14.KPremulsrgb7
import Prism.Proofs.C14.KPremulsrgb8
import Prism.Proofs.C14.KPremulsrgb9
import Prism.Proofs.C14.KPremulsrgb10
import Prism.Proofs.C14.KPremulsrgb11
import Prism.Proofs.C14.KPremulsrgb12
import Prism.Proofs.C14.KPremulsrgb13
import Prism.Proofs.C14.KPremulsrgb14
import Prism.Proofs.C14.KPremulsrgb15

namespace Prism.C14

theorem premulsrgb_chunks : ∀ k, k < 256 → premulChunk .srgb k = true := by
  intro k hk
  have h : (0 ≤ k ∧ k < 16) ∨ (16 ≤ k ∧ k < 32) ∨ (32 ≤ k ∧ k < 48) ∨ (48 ≤ k ∧ k < 64) ∨ (64 ≤ k ∧ k < 80) ∨ (80 ≤ k ∧ k < 96) ∨ (96 ≤ k ∧ k < 112) ∨ (112 ≤ k ∧ k < 128) ∨ (128 ≤ k ∧ k < 144) ∨ (144 ≤ k ∧ k < 160) ∨ (160 ≤ k ∧ k < 176) ∨ (176 ≤ k ∧ k < 192) ∨ (192 ≤ k ∧ k < 208) ∨ (208 ≤ k ∧ k < 224) ∨ (224 ≤ k ∧ k < 240) ∨ (240 ≤ k ∧ k < 256) := by omega
  rcases h with h | h | h | h | h | h | h | h | h | h | h | h | h | h | h | h
  · exact premulsrgb_file0 k h.1 h.2
  · exact premulsrgb_file1 k h.1 h.2
  · exact premulsrgb_file2 k h.1 h.2
  · exact premulsrgb_file3 k h.1 h.2
  · exact premulsrgb_file4 k h.1 h.2
  · exact premulsrgb_file5 k h.1 h.2
  · exact premulsrgb_file6 k h.1 h.2
  · exact premulsrgb_file7 k h.1 h.2
  · exact premulsrgb_file8 k h.1 h.2
  · exact premulsrgb_file9 k h.1 h.2
  · exact premulsrgb_file10 k h.1 h.2
  · exact premulsrgb_file11 k h.1 h.2
  · exact premulsrgb_file12 k h.1 h.2
  · exact premulsrgb_file13 k h.1 h.2
  · exact premulsrgb_file14 k h.1 h.2
  · exact premulsrgb_file15 k h.1 h.2

end Prism.C14
