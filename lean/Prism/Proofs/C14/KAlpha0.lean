import Prism.Check.C14

/-! Kernel-checked chunks (generated boiler-plate, see lib/gen_static.py). -/
namespace Prism.C14

theorem alpha_k0 : alphaChunk16 0 = true := by decide +kernel
theorem alpha_k1 : alphaChunk16 1 = true := by decide +kernel
theorem alpha_k2 : alphaChunk16 2 = true := by decide +kernel
theorem alpha_k3 : alphaChunk16 3 = true := by decide +kernel
theorem alpha_k4 : alphaChunk16 4 = true := by decide +kernel
theorem alpha_k5 : alphaChunk16 5 = true := by decide +kernel
theorem alpha_k6 : alphaChunk16 6 = true := by decide +kernel
theorem alpha_k7 : alphaChunk16 7 = true := by decide +kernel
theorem alpha_k8 : alphaChunk16 8 = true := by decide +kernel
theorem alpha_k9 : alphaChunk16 9 = true := by decide +kernel
theorem alpha_k10 : alphaChunk16 10 = true := by decide +kernel
theorem alpha_k11 : alphaChunk16 11 = true := by decide +kernel
theorem alpha_k12 : alphaChunk16 12 = true := by decide +kernel
theorem alpha_k13 : alphaChunk16 13 = true := by decide +kernel
theorem alpha_k14 : alphaChunk16 14 = true := by decide +kernel
theorem alpha_k15 : alphaChunk16 15 = true := by decide +kernel

theorem alpha_file0 : ∀ k, 0 ≤ k → k < 16 → alphaChunk16 k = true := by
  intro k h1 h2
  have h : k = 0 ∨ k = 1 ∨ k = 2 ∨ k = 3 ∨ k = 4 ∨ k = 5 ∨ k = 6 ∨ k = 7 ∨ k = 8 ∨ k = 9 ∨ k = 10 ∨ k = 11 ∨ k = 12 ∨ k = 13 ∨ k = 14 ∨ k = 15 := by omega
  rcases h with rfl | rfl | rfl | rfl | rfl | rfl | rfl | rfl | rfl | rfl | rfl | rfl | rfl | rfl | rfl | rfl
  · exact alpha_k0
  · exact alpha_k1
  · exact alpha_k2
  · exact alpha_k3
  · exact alpha_k4
  · exact alpha_k5
  · exact alpha_k6
  · exact alpha_k7
  · exact alpha_k8
  · exact alpha_k9
  · exact alpha_k10
  · exact alpha_k11
  · exact alpha_k12
  · exact alpha_k13
  · exact alpha_k14
  · exact alpha_k15

end Prism.C14
