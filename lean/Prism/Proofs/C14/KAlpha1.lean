import Prism.Check.C14

/-! Kernel-checked chunks (generated boiler-plate, see lib/gen_static.py). -/
namespace Prism.C14

theorem alpha_k16 : alphaChunk16 16 = true := by decide +kernel
theorem alpha_k17 : alphaChunk16 17 = true := by decide +kernel
theorem alpha_k18 : alphaChunk16 18 = true := by decide +kernel
theorem alpha_k19 : alphaChunk16 19 = true := by decide +kernel
theorem alpha_k20 : alphaChunk16 20 = true := by decide +kernel
theorem alpha_k21 : alphaChunk16 21 = true := by decide +kernel
theorem alpha_k22 : alphaChunk16 22 = true := by decide +kernel
theorem alpha_k23 : alphaChunk16 23 = true := by decide +kernel
theorem alpha_k24 : alphaChunk16 24 = true := by decide +kernel
theorem alpha_k25 : alphaChunk16 25 = true := by decide +kernel
theorem alpha_k26 : alphaChunk16 26 = true := by decide +kernel
theorem alpha_k27 : alphaChunk16 27 = true := by decide +kernel
theorem alpha_k28 : alphaChunk16 28 = true := by decide +kernel
theorem alpha_k29 : alphaChunk16 29 = true := by decide +kernel
theorem alpha_k30 : alphaChunk16 30 = true := by decide +kernel
theorem alpha_k31 : alphaChunk16 31 = true := by decide +kernel

theorem alpha_file1 : ∀ k, 16 ≤ k → k < 32 → alphaChunk16 k = true := by
  intro k h1 h2
  have h : k = 16 ∨ k = 17 ∨ k = 18 ∨ k = 19 ∨ k = 20 ∨ k = 21 ∨ k = 22 ∨ k = 23 ∨ k = 24 ∨ k = 25 ∨ k = 26 ∨ k = 27 ∨ k = 28 ∨ k = 29 ∨ k = 30 ∨ k = 31 := by omega
  rcases h with rfl | rfl | rfl | rfl | rfl | rfl | rfl | rfl | rfl | rfl | rfl | rfl | rfl | rfl | rfl | rfl
  · exact alpha_k16
  · exact alpha_k17
  · exact alpha_k18
  · exact alpha_k19
  · exact alpha_k20
  · exact alpha_k21
  · exact alpha_k22
  · exact alpha_k23
  · exact alpha_k24
  · exact alpha_k25
  · exact alpha_k26
  · exact alpha_k27
  · exact alpha_k28
  · exact alpha_k29
  · exact alpha_k30
  · exact alpha_k31

end Prism.C14
