import Prism.Check.C14

/-! Kernel-checked chunks (generated boiler-plate, see lib/gen_static.py). -/
namespace Prism.C14

theorem alpha_k160 : alphaChunk16 160 = true := by decide +kernel
theorem alpha_k161 : alphaChunk16 161 = true := by decide +kernel
theorem alpha_k162 : alphaChunk16 162 = true := by decide +kernel
theorem alpha_k163 : alphaChunk16 163 = true := by decide +kernel
theorem alpha_k164 : alphaChunk16 164 = true := by decide +kernel
theorem alpha_k165 : alphaChunk16 165 = true := by decide +kernel
theorem alpha_k166 : alphaChunk16 166 = true := by decide +kernel
theorem alpha_k167 : alphaChunk16 167 = true := by decide +kernel
theorem alpha_k168 : alphaChunk16 168 = true := by decide +kernel
theorem alpha_k169 : alphaChunk16 169 = true := by decide +kernel
theorem alpha_k170 : alphaChunk16 170 = true := by decide +kernel
theorem alpha_k171 : alphaChunk16 171 = true := by decide +kernel
theorem alpha_k172 : alphaChunk16 172 = true := by decide +kernel
theorem alpha_k173 : alphaChunk16 173 = true := by decide +kernel
theorem alpha_k174 : alphaChunk16 174 = true := by decide +kernel
theorem alpha_k175 : alphaChunk16 175 = true := by decide +kernel

theorem alpha_file10 : ∀ k, 160 ≤ k → k < 176 → alphaChunk16 k = true := by
  intro k h1 h2
  have h : k = 160 ∨ k = 161 ∨ k = 162 ∨ k = 163 ∨ k = 164 ∨ k = 165 ∨ k = 166 ∨ k = 167 ∨ k = 168 ∨ k = 169 ∨ k = 170 ∨ k = 171 ∨ k = 172 ∨ k = 173 ∨ k = 174 ∨ k = 175 := by omega
  rcases h with rfl | rfl | rfl | rfl | rfl | rfl | rfl | rfl | rfl | rfl | rfl | rfl | rfl | rfl | rfl | rfl
  · exact alpha_k160
  · exact alpha_k161
  · exact alpha_k162
  · exact alpha_k163
  · exact alpha_k164
  · exact alpha_k165
  · exact alpha_k166
  · exact alpha_k167
  · exact alpha_k168
  · exact alpha_k169
  · exact alpha_k170
  · exact alpha_k171
  · exact alpha_k172
  · exact alpha_k173
  · exact alpha_k174
  · exact alpha_k175

end Prism.C14
