import Prism.Check.C14

/-! Kernel-checked chunks (generated boiler-plate, see lib/gen_static.py). -/
namespace Prism.C14

theorem alpha_k176 : alphaChunk16 176 = true := by decide +kernel
theorem alpha_k177 : alphaChunk16 177 = true := by decide +kernel
theorem alpha_k178 : alphaChunk16 178 = true := by decide +kernel
theorem alpha_k179 : alphaChunk16 179 = true := by decide +kernel
theorem alpha_k180 : alphaChunk16 180 = true := by decide +kernel
theorem alpha_k181 : alphaChunk16 181 = true := by decide +kernel
theorem alpha_k182 : alphaChunk16 182 = true := by decide +kernel
theorem alpha_k183 : alphaChunk16 183 = true := by decide +kernel
theorem alpha_k184 : alphaChunk16 184 = true := by decide +kernel
theorem alpha_k185 : alphaChunk16 185 = true := by decide +kernel
theorem alpha_k186 : alphaChunk16 186 = true := by decide +kernel
theorem alpha_k187 : alphaChunk16 187 = true := by decide +kernel
theorem alpha_k188 : alphaChunk16 188 = true := by decide +kernel
theorem alpha_k189 : alphaChunk16 189 = true := by decide +kernel
theorem alpha_k190 : alphaChunk16 190 = true := by decide +kernel
theorem alpha_k191 : alphaChunk16 191 = true := by decide +kernel

theorem alpha_file11 : ∀ k, 176 ≤ k → k < 192 → alphaChunk16 k = true := by
  intro k h1 h2
  have h : k = 176 ∨ k = 177 ∨ k = 178 ∨ k = 179 ∨ k = 180 ∨ k = 181 ∨ k = 182 ∨ k = 183 ∨ k = 184 ∨ k = 185 ∨ k = 186 ∨ k = 187 ∨ k = 188 ∨ k = 189 ∨ k = 190 ∨ k = 191 := by omega
  rcases h with rfl | rfl | rfl | rfl | rfl | rfl | rfl | rfl | rfl | rfl | rfl | rfl | rfl | rfl | rfl | rfl
  · exact alpha_k176
  · exact alpha_k177
  · exact alpha_k178
  · exact alpha_k179
  · exact alpha_k180
  · exact alpha_k181
  · exact alpha_k182
  · exact alpha_k183
  · exact alpha_k184
  · exact alpha_k185
  · exact alpha_k186
  · exact alpha_k187
  · exact alpha_k188
  · exact alpha_k189
  · exact alpha_k190
  · exact alpha_k191

end Prism.C14
