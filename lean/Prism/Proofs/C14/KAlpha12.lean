import Prism.Check.C14

/-! Kernel-checked chunks (generated boiler-plate, see lib/gen_static.py). -/
namespace Prism.C14

theorem alpha_k192 : alphaChunk16 192 = true := by decide +kernel
theorem alpha_k193 : alphaChunk16 193 = true := by decide +kernel
theorem alpha_k194 : alphaChunk16 194 = true := by decide +kernel
theorem alpha_k195 : alphaChunk16 195 = true := by decide +kernel
theorem alpha_k196 : alphaChunk16 196 = true := by decide +kernel
theorem alpha_k197 : alphaChunk16 197 = true := by decide +kernel
theorem alpha_k198 : alphaChunk16 198 = true := by decide +kernel
theorem alpha_k199 : alphaChunk16 199 = true := by decide +kernel
theorem alpha_k200 : alphaChunk16 200 = true := by decide +kernel
theorem alpha_k201 : alphaChunk16 201 = true := by decide +kernel
theorem alpha_k202 : alphaChunk16 202 = true := by decide +kernel
theorem alpha_k203 : alphaChunk16 203 = true := by decide +kernel
theorem alpha_k204 : alphaChunk16 204 = true := by decide +kernel
theorem alpha_k205 : alphaChunk16 205 = true := by decide +kernel
theorem alpha_k206 : alphaChunk16 206 = true := by decide +kernel
theorem alpha_k207 : alphaChunk16 207 = true := by decide +kernel

theorem alpha_file12 : ∀ k, 192 ≤ k → k < 208 → alphaChunk16 k = true := by
  intro k h1 h2
  have h : k = 192 ∨ k = 193 ∨ k = 194 ∨ k = 195 ∨ k = 196 ∨ k = 197 ∨ k = 198 ∨ k = 199 ∨ k = 200 ∨ k = 201 ∨ k = 202 ∨ k = 203 ∨ k = 204 ∨ k = 205 ∨ k = 206 ∨ k = 207 := by omega
  rcases h with rfl | rfl | rfl | rfl | rfl | rfl | rfl | rfl | rfl | rfl | rfl | rfl | rfl | rfl | rfl | rfl
  · exact alpha_k192
  · exact alpha_k193
  · exact alpha_k194
  · exact alpha_k195
  · exact alpha_k196
  · exact alpha_k197
  · exact alpha_k198
  · exact alpha_k199
  · exact alpha_k200
  · exact alpha_k201
  · exact alpha_k202
  · exact alpha_k203
  · exact alpha_k204
  · exact alpha_k205
  · exact alpha_k206
  · exact alpha_k207

end Prism.C14
