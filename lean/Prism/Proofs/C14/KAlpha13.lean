import Prism.Check.C14

/-! Kernel-checked chunks (generated boiler-plate, see lib/gen_static.py). -/
namespace Prism.C14

theorem alpha_k208 : alphaChunk16 208 = true := by decide +kernel
theorem alpha_k209 : alphaChunk16 209 = true := by decide +kernel
theorem alpha_k210 : alphaChunk16 210 = true := by decide +kernel
theorem alpha_k211 : alphaChunk16 211 = true := by decide +kernel
theorem alpha_k212 : alphaChunk16 212 = true := by decide +kernel
theorem alpha_k213 : alphaChunk16 213 = true := by decide +kernel
theorem alpha_k214 : alphaChunk16 214 = true := by decide +kernel
theorem alpha_k215 : alphaChunk16 215 = true := by decide +kernel
theorem alpha_k216 : alphaChunk16 216 = true := by decide +kernel
theorem alpha_k217 : alphaChunk16 217 = true := by decide +kernel
theorem alpha_k218 : alphaChunk16 218 = true := by decide +kernel
theorem alpha_k219 : alphaChunk16 219 = true := by decide +kernel
theorem alpha_k220 : alphaChunk16 220 = true := by decide +kernel
theorem alpha_k221 : alphaChunk16 221 = true := by decide +kernel
theorem alpha_k222 : alphaChunk16 222 = true := by decide +kernel
theorem alpha_k223 : alphaChunk16 223 = true := by decide +kernel

theorem alpha_file13 : ∀ k, 208 ≤ k → k < 224 → alphaChunk16 k = true := by
  intro k h1 h2
  have h : k = 208 ∨ k = 209 ∨ k = 210 ∨ k = 211 ∨ k = 212 ∨ k = 213 ∨ k = 214 ∨ k = 215 ∨ k = 216 ∨ k = 217 ∨ k = 218 ∨ k = 219 ∨ k = 220 ∨ k = 221 ∨ k = 222 ∨ k = 223 := by omega
  rcases h with rfl | rfl | rfl | rfl | rfl | rfl | rfl | rfl | rfl | rfl | rfl | rfl | rfl | rfl | rfl | rfl
  · exact alpha_k208
  · exact alpha_k209
  · exact alpha_k210
  · exact alpha_k211
  · exact alpha_k212
  · exact alpha_k213
  · exact alpha_k214
  · exact alpha_k215
  · exact alpha_k216
  · exact alpha_k217
  · exact alpha_k218
  · exact alpha_k219
  · exact alpha_k220
  · exact alpha_k221
  · exact alpha_k222
  · exact alpha_k223

end Prism.C14
