import Prism.Check.C14

/-! Kernel-checked chunks (generated boiler-plate, see lib/gen_static.py). -/
namespace Prism.C14

theorem alpha_k224 : alphaChunk16 224 = true := by decide +kernel
theorem alpha_k225 : alphaChunk16 225 = true := by decide +kernel
theorem alpha_k226 : alphaChunk16 226 = true := by decide +kernel
theorem alpha_k227 : alphaChunk16 227 = true := by decide +kernel
theorem alpha_k228 : alphaChunk16 228 = true := by decide +kernel
theorem alpha_k229 : alphaChunk16 229 = true := by decide +kernel
theorem alpha_k230 : alphaChunk16 230 = true := by decide +kernel
theorem alpha_k231 : alphaChunk16 231 = true := by decide +kernel
theorem alpha_k232 : alphaChunk16 232 = true := by decide +kernel
theorem alpha_k233 : alphaChunk16 233 = true := by decide +kernel
theorem alpha_k234 : alphaChunk16 234 = true := by decide +kernel
theorem alpha_k235 : alphaChunk16 235 = true := by decide +kernel
theorem alpha_k236 : alphaChunk16 236 = true := by decide +kernel
theorem alpha_k237 : alphaChunk16 237 = true := by decide +kernel
theorem alpha_k238 : alphaChunk16 238 = true := by decide +kernel
theorem alpha_k239 : alphaChunk16 239 = true := by decide +kernel

theorem alpha_file14 : ∀ k, 224 ≤ k → k < 240 → alphaChunk16 k = true := by
  intro k h1 h2
  have h : k = 224 ∨ k = 225 ∨ k = 226 ∨ k = 227 ∨ k = 228 ∨ k = 229 ∨ k = 230 ∨ k = 231 ∨ k = 232 ∨ k = 233 ∨ k = 234 ∨ k = 235 ∨ k = 236 ∨ k = 237 ∨ k = 238 ∨ k = 239 := by omega
  rcases h with rfl | rfl | rfl | rfl | rfl | rfl | rfl | rfl | rfl | rfl | rfl | rfl | rfl | rfl | rfl | rfl
  · exact alpha_k224
  · exact alpha_k225
  · exact alpha_k226
  · exact alpha_k227
  · exact alpha_k228
  · exact alpha_k229
  · exact alpha_k230
  · exact alpha_k231
  · exact alpha_k232
  · exact alpha_k233
  · exact alpha_k234
  · exact alpha_k235
  · exact alpha_k236
  · exact alpha_k237
  · exact alpha_k238
  · exact alpha_k239

end Prism.C14
