import Prism.Check.C14

/-! Kernel-checked chunks (generated boiler-plate, see lib/gen_static.py). -/
namespace Prism.C14

theorem alpha_k240 : alphaChunk16 240 = true := by decide +kernel
theorem alpha_k241 : alphaChunk16 241 = true := by decide +kernel
theorem alpha_k242 : alphaChunk16 242 = true := by decide +kernel
theorem alpha_k243 : alphaChunk16 243 = true := by decide +kernel
theorem alpha_k244 : alphaChunk16 244 = true := by decide +kernel
theorem alpha_k245 : alphaChunk16 245 = true := by decide +kernel
theorem alpha_k246 : alphaChunk16 246 = true := by decide +kernel
theorem alpha_k247 : alphaChunk16 247 = true := by decide +kernel
theorem alpha_k248 : alphaChunk16 248 = true := by decide +kernel
theorem alpha_k249 : alphaChunk16 249 = true := by decide +kernel
theorem alpha_k250 : alphaChunk16 250 = true := by decide +kernel
theorem alpha_k251 : alphaChunk16 251 = true := by decide +kernel
theorem alpha_k252 : alphaChunk16 252 = true := by decide +kernel
theorem alpha_k253 : alphaChunk16 253 = true := by decide +kernel
theorem alpha_k254 : alphaChunk16 254 = true := by decide +kernel
theorem alpha_k255 : alphaChunk16 255 = true := by decide +kernel

theorem alpha_file15 : ∀ k, 240 ≤ k → k < 256 → alphaChunk16 k = true := by
  intro k h1 h2
  have h : k = 240 ∨ k = 241 ∨ k = 242 ∨ k = 243 ∨ k = 244 ∨ k = 245 ∨ k = 246 ∨ k = 247 ∨ k = 248 ∨ k = 249 ∨ k = 250 ∨ k = 251 ∨ k = 252 ∨ k = 253 ∨ k = 254 ∨ k = 255 := by omega
  rcases h with rfl | rfl | rfl | rfl | rfl | rfl | rfl | rfl | rfl | rfl | rfl | rfl | rfl | rfl | rfl | rfl
  · exact alpha_k240
  · exact alpha_k241
  · exact alpha_k242
  · exact alpha_k243
  · exact alpha_k244
  · exact alpha_k245
  · exact alpha_k246
  · exact alpha_k247
  · exact alpha_k248
  · exact alpha_k249
  · exact alpha_k250
  · exact alpha_k251
  · exact alpha_k252
  · exact alpha_k253
  · exact alpha_k254
  · exact alpha_k255

end Prism.C14
