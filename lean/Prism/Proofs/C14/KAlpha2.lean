import Prism.Check.C14

/-! Kernel-checked chunks (generated boiler-plate, see lib/gen_static.py). -/
namespace Prism.C14

theorem alpha_k32 : alphaChunk16 32 = true := by decide +kernel
theorem alpha_k33 : alphaChunk16 33 = true := by decide +kernel
theorem alpha_k34 : alphaChunk16 34 = true := by decide +kernel
theorem alpha_k35 : alphaChunk16 35 = true := by decide +kernel
theorem alpha_k36 : alphaChunk16 36 = true := by decide +kernel
theorem alpha_k37 : alphaChunk16 37 = true := by decide +kernel
theorem alpha_k38 : alphaChunk16 38 = true := by decide +kernel
theorem alpha_k39 : alphaChunk16 39 = true := by decide +kernel
theorem alpha_k40 : alphaChunk16 40 = true := by decide +kernel
theorem alpha_k41 : alphaChunk16 41 = true := by decide +kernel
theorem alpha_k42 : alphaChunk16 42 = true := by decide +kernel
theorem alpha_k43 : alphaChunk16 43 = true := by decide +kernel
theorem alpha_k44 : alphaChunk16 44 = true := by decide +kernel
theorem alpha_k45 : alphaChunk16 45 = true := by decide +kernel
theorem alpha_k46 : alphaChunk16 46 = true := by decide +kernel
theorem alpha_k47 : alphaChunk16 47 = true := by decide +kernel

theorem alpha_file2 : ∀ k, 32 ≤ k → k < 48 → alphaChunk16 k = true := by
  intro k h1 h2
  have h : k = 32 ∨ k = 33 ∨ k = 34 ∨ k = 35 ∨ k = 36 ∨ k = 37 ∨ k = 38 ∨ k = 39 ∨ k = 40 ∨ k = 41 ∨ k = 42 ∨ k = 43 ∨ k = 44 ∨ k = 45 ∨ k = 46 ∨ k = 47 := by omega
  rcases h with rfl | rfl | rfl | rfl | rfl | rfl | rfl | rfl | rfl | rfl | rfl | rfl | rfl | rfl | rfl | rfl
  · exact alpha_k32
  · exact alpha_k33
  · exact alpha_k34
  · exact alpha_k35
  · exact alpha_k36
  · exact alpha_k37
  · exact alpha_k38
  · exact alpha_k39
  · exact alpha_k40
  · exact alpha_k41
  · exact alpha_k42
  · exact alpha_k43
  · exact alpha_k44
  · exact alpha_k45
  · exact alpha_k46
  · exact alpha_k47

end Prism.C14
