import Prism.Check.C14

/-! Kernel-checked chunks (generated boiler-plate, see lib/gen_static.py). -/
namespace Prism.C14

theorem alpha_k48 : alphaChunk16 48 = true := by decide +kernel
theorem alpha_k49 : alphaChunk16 49 = true := by decide +kernel
theorem alpha_k50 : alphaChunk16 50 = true := by decide +kernel
theorem alpha_k51 : alphaChunk16 51 = true := by decide +kernel
theorem alpha_k52 : alphaChunk16 52 = true := by decide +kernel
theorem alpha_k53 : alphaChunk16 53 = true := by decide +kernel
theorem alpha_k54 : alphaChunk16 54 = true := by decide +kernel
theorem alpha_k55 : alphaChunk16 55 = true := by decide +kernel
theorem alpha_k56 : alphaChunk16 56 = true := by decide +kernel
theorem alpha_k57 : alphaChunk16 57 = true := by decide +kernel
theorem alpha_k58 : alphaChunk16 58 = true := by decide +kernel
theorem alpha_k59 : alphaChunk16 59 = true := by decide +kernel
theorem alpha_k60 : alphaChunk16 60 = true := by decide +kernel
theorem alpha_k61 : alphaChunk16 61 = true := by decide +kernel
theorem alpha_k62 : alphaChunk16 62 = true := by decide +kernel
theorem alpha_k63 : alphaChunk16 63 = true := by decide +kernel

theorem alpha_file3 : ∀ k, 48 ≤ k → k < 64 → alphaChunk16 k = true := by
  intro k h1 h2
  have h : k = 48 ∨ k = 49 ∨ k = 50 ∨ k = 51 ∨ k = 52 ∨ k = 53 ∨ k = 54 ∨ k = 55 ∨ k = 56 ∨ k = 57 ∨ k = 58 ∨ k = 59 ∨ k = 60 ∨ k = 61 ∨ k = 62 ∨ k = 63 := by omega
  rcases h with rfl | rfl | rfl | rfl | rfl | rfl | rfl | rfl | rfl | rfl | rfl | rfl | rfl | rfl | rfl | rfl
  · exact alpha_k48
  · exact alpha_k49
  · exact alpha_k50
  · exact alpha_k51
  · exact alpha_k52
  · exact alpha_k53
  · exact alpha_k54
  · exact alpha_k55
  · exact alpha_k56
  · exact alpha_k57
  · exact alpha_k58
  · exact alpha_k59
  · exact alpha_k60
  · exact alpha_k61
  · exact alpha_k62
  · exact alpha_k63

end Prism.C14
