import Prism.Check.C14

/-! Kernel-checked chunks (generated boiler-plate, see lib/gen_static.py). -/
namespace Prism.C14

theorem alpha_k64 : alphaChunk16 64 = true := by decide +kernel
theorem alpha_k65 : alphaChunk16 65 = true := by decide +kernel
theorem alpha_k66 : alphaChunk16 66 = true := by decide +kernel
theorem alpha_k67 : alphaChunk16 67 = true := by decide +kernel
theorem alpha_k68 : alphaChunk16 68 = true := by decide +kernel
theorem alpha_k69 : alphaChunk16 69 = true := by decide +kernel
theorem alpha_k70 : alphaChunk16 70 = true := by decide +kernel
theorem alpha_k71 : alphaChunk16 71 = true := by decide +kernel
theorem alpha_k72 : alphaChunk16 72 = true := by decide +kernel
theorem alpha_k73 : alphaChunk16 73 = true := by decide +kernel
theorem alpha_k74 : alphaChunk16 74 = true := by decide +kernel
theorem alpha_k75 : alphaChunk16 75 = true := by decide +kernel
theorem alpha_k76 : alphaChunk16 76 = true := by decide +kernel
theorem alpha_k77 : alphaChunk16 77 = true := by decide +kernel
theorem alpha_k78 : alphaChunk16 78 = true := by decide +kernel
theorem alpha_k79 : alphaChunk16 79 = true := by decide +kernel

theorem alpha_file4 : ∀ k, 64 ≤ k → k < 80 → alphaChunk16 k = true := by
  intro k h1 h2
  have h : k = 64 ∨ k = 65 ∨ k = 66 ∨ k = 67 ∨ k = 68 ∨ k = 69 ∨ k = 70 ∨ k = 71 ∨ k = 72 ∨ k = 73 ∨ k = 74 ∨ k = 75 ∨ k = 76 ∨ k = 77 ∨ k = 78 ∨ k = 79 := by omega
  rcases h with rfl | rfl | rfl | rfl | rfl | rfl | rfl | rfl | rfl | rfl | rfl | rfl | rfl | rfl | rfl | rfl
  · exact alpha_k64
  · exact alpha_k65
  · exact alpha_k66
  · exact alpha_k67
  · exact alpha_k68
  · exact alpha_k69
  · exact alpha_k70
  · exact alpha_k71
  · exact alpha_k72
  · exact alpha_k73
  · exact alpha_k74
  · exact alpha_k75
  · exact alpha_k76
  · exact alpha_k77
  · exact alpha_k78
  · exact alpha_k79

end Prism.C14
