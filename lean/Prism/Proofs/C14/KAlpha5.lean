import Prism.Check.C14

/-! Kernel-checked chunks (generated boiler-plate, see lib/gen_static.py). -/
namespace Prism.C14

theorem alpha_k80 : alphaChunk16 80 = true := by decide +kernel
theorem alpha_k81 : alphaChunk16 81 = true := by decide +kernel
theorem alpha_k82 : alphaChunk16 82 = true := by decide +kernel
theorem alpha_k83 : alphaChunk16 83 = true := by decide +kernel
theorem alpha_k84 : alphaChunk16 84 = true := by decide +kernel
theorem alpha_k85 : alphaChunk16 85 = true := by decide +kernel
theorem alpha_k86 : alphaChunk16 86 = true := by decide +kernel
theorem alpha_k87 : alphaChunk16 87 = true := by decide +kernel
theorem alpha_k88 : alphaChunk16 88 = true := by decide +kernel
theorem alpha_k89 : alphaChunk16 89 = true := by decide +kernel
theorem alpha_k90 : alphaChunk16 90 = true := by decide +kernel
theorem alpha_k91 : alphaChunk16 91 = true := by decide +kernel
theorem alpha_k92 : alphaChunk16 92 = true := by decide +kernel
theorem alpha_k93 : alphaChunk16 93 = true := by decide +kernel
theorem alpha_k94 : alphaChunk16 94 = true := by decide +kernel
theorem alpha_k95 : alphaChunk16 95 = true := by decide +kernel

theorem alpha_file5 : ∀ k, 80 ≤ k → k < 96 → alphaChunk16 k = true := by
  intro k h1 h2
  have h : k = 80 ∨ k = 81 ∨ k = 82 ∨ k = 83 ∨ k = 84 ∨ k = 85 ∨ k = 86 ∨ k = 87 ∨ k = 88 ∨ k = 89 ∨ k = 90 ∨ k = 91 ∨ k = 92 ∨ k = 93 ∨ k = 94 ∨ k = 95 := by omega
  rcases h with rfl | rfl | rfl | rfl | rfl | rfl | rfl | rfl | rfl | rfl | rfl | rfl | rfl | rfl | rfl | rfl
  · exact alpha_k80
  · exact alpha_k81
  · exact alpha_k82
  · exact alpha_k83
  · exact alpha_k84
  · exact alpha_k85
  · exact alpha_k86
  · exact alpha_k87
  · exact alpha_k88
  · exact alpha_k89
  · exact alpha_k90
  · exact alpha_k91
  · exact alpha_k92
  · exact alpha_k93
  · exact alpha_k94
  · exact alpha_k95

end Prism.C14
