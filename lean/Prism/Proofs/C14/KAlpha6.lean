import Prism.Check.C14

/-! Kernel-checked chunks (generated boiler-plate, see lib/gen_static.py). -/
namespace Prism.C14

theorem alpha_k96 : alphaChunk16 96 = true := by decide +kernel
theorem alpha_k97 : alphaChunk16 97 = true := by decide +kernel
theorem alpha_k98 : alphaChunk16 98 = true := by decide +kernel
theorem alpha_k99 : alphaChunk16 99 = true := by decide +kernel
theorem alpha_k100 : alphaChunk16 100 = true := by decide +kernel
theorem alpha_k101 : alphaChunk16 101 = true := by decide +kernel
theorem alpha_k102 : alphaChunk16 102 = true := by decide +kernel
theorem alpha_k103 : alphaChunk16 103 = true := by decide +kernel
theorem alpha_k104 : alphaChunk16 104 = true := by decide +kernel
theorem alpha_k105 : alphaChunk16 105 = true := by decide +kernel
theorem alpha_k106 : alphaChunk16 106 = true := by decide +kernel
theorem alpha_k107 : alphaChunk16 107 = true := by decide +kernel
theorem alpha_k108 : alphaChunk16 108 = true := by decide +kernel
theorem alpha_k109 : alphaChunk16 109 = true := by decide +kernel
theorem alpha_k110 : alphaChunk16 110 = true := by decide +kernel
theorem alpha_k111 : alphaChunk16 111 = true := by decide +kernel

theorem alpha_file6 : ∀ k, 96 ≤ k → k < 112 → alphaChunk16 k = true := by
  intro k h1 h2
  have h : k = 96 ∨ k = 97 ∨ k = 98 ∨ k = 99 ∨ k = 100 ∨ k = 101 ∨ k = 102 ∨ k = 103 ∨ k = 104 ∨ k = 105 ∨ k = 106 ∨ k = 107 ∨ k = 108 ∨ k = 109 ∨ k = 110 ∨ k = 111 := by omega
  rcases h with rfl | rfl | rfl | rfl | rfl | rfl | rfl | rfl | rfl | rfl | rfl | rfl | rfl | rfl | rfl | rfl
  · exact alpha_k96
  · exact alpha_k97
  · exact alpha_k98
  · exact alpha_k99
  · exact alpha_k100
  · exact alpha_k101
  · exact alpha_k102
  · exact alpha_k103
  · exact alpha_k104
  · exact alpha_k105
  · exact alpha_k106
  · exact alpha_k107
  · exact alpha_k108
  · exact alpha_k109
  · exact alpha_k110
  · exact alpha_k111

end Prism.C14
