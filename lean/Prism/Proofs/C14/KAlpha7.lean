import Prism.Check.C14

/-! Kernel-checked chunks (generated boiler-plate, see lib/gen_static.py). -/
namespace Prism.C14

theorem alpha_k112 : alphaChunk16 112 = true := by decide +kernel
theorem alpha_k113 : alphaChunk16 113 = true := by decide +kernel
theorem alpha_k114 : alphaChunk16 114 = true := by decide +kernel
theorem alpha_k115 : alphaChunk16 115 = true := by decide +kernel
theorem alpha_k116 : alphaChunk16 116 = true := by decide +kernel
theorem alpha_k117 : alphaChunk16 117 = true := by decide +kernel
theorem alpha_k118 : alphaChunk16 118 = true := by decide +kernel
theorem alpha_k119 : alphaChunk16 119 = true := by decide +kernel
theorem alpha_k120 : alphaChunk16 120 = true := by decide +kernel
theorem alpha_k121 : alphaChunk16 121 = true := by decide +kernel
theorem alpha_k122 : alphaChunk16 122 = true := by decide +kernel
theorem alpha_k123 : alphaChunk16 123 = true := by decide +kernel
theorem alpha_k124 : alphaChunk16 124 = true := by decide +kernel
theorem alpha_k125 : alphaChunk16 125 = true := by decide +kernel
theorem alpha_k126 : alphaChunk16 126 = true := by decide +kernel
theorem alpha_k127 : alphaChunk16 127 = true := by decide +kernel

theorem alpha_file7 : ∀ k, 112 ≤ k → k < 128 → alphaChunk16 k = true := by
  intro k h1 h2
  have h : k = 112 ∨ k = 113 ∨ k = 114 ∨ k = 115 ∨ k = 116 ∨ k = 117 ∨ k = 118 ∨ k = 119 ∨ k = 120 ∨ k = 121 ∨ k = 122 ∨ k = 123 ∨ k = 124 ∨ k = 125 ∨ k = 126 ∨ k = 127 := by omega
  rcases h with rfl | rfl | rfl | rfl | rfl | rfl | rfl | rfl | rfl | rfl | rfl | rfl | rfl | rfl | rfl | rfl
  · exact alpha_k112
  · exact alpha_k113
  · exact alpha_k114
  · exact alpha_k115
  · exact alpha_k116
  · exact alpha_k117
  · exact alpha_k118
  · exact alpha_k119
  · exact alpha_k120
  · exact alpha_k121
  · exact alpha_k122
  · exact alpha_k123
  · exact alpha_k124
  · exact alpha_k125
  · exact alpha_k126
  · exact alpha_k127

end Prism.C14
