import Prism.Check.C14

/-! Kernel-checked chunks (generated boiler-plate, see lib/gen_static.py). -/
namespace Prism.C14

theorem alpha_k128 : alphaChunk16 128 = true := by decide +kernel
theorem alpha_k129 : alphaChunk16 129 = true := by decide +kernel
theorem alpha_k130 : alphaChunk16 130 = true := by decide +kernel
theorem alpha_k131 : alphaChunk16 131 = true := by decide +kernel
theorem alpha_k132 : alphaChunk16 132 = true := by decide +kernel
theorem alpha_k133 : alphaChunk16 133 = true := by decide +kernel
theorem alpha_k134 : alphaChunk16 134 = true := by decide +kernel
theorem alpha_k135 : alphaChunk16 135 = true := by decide +kernel
theorem alpha_k136 : alphaChunk16 136 = true := by decide +kernel
theorem alpha_k137 : alphaChunk16 137 = true := by decide +kernel
theorem alpha_k138 : alphaChunk16 138 = true := by decide +kernel
theorem alpha_k139 : alphaChunk16 139 = true := by decide +kernel
theorem alpha_k140 : alphaChunk16 140 = true := by decide +kernel
theorem alpha_k141 : alphaChunk16 141 = true := by decide +kernel
theorem alpha_k142 : alphaChunk16 142 = true := by decide +kernel
theorem alpha_k143 : alphaChunk16 143 = true := by decide +kernel

theorem alpha_file8 : ∀ k, 128 ≤ k → k < 144 → alphaChunk16 k = true := by
  intro k h1 h2
  have h : k = 128 ∨ k = 129 ∨ k = 130 ∨ k = 131 ∨ k = 132 ∨ k = 133 ∨ k = 134 ∨ k = 135 ∨ k = 136 ∨ k = 137 ∨ k = 138 ∨ k = 139 ∨ k = 140 ∨ k = 141 ∨ k = 142 ∨ k = 143 := by omega
  rcases h with rfl | rfl | rfl | rfl | rfl | rfl | rfl | rfl | rfl | rfl | rfl | rfl | rfl | rfl | rfl | rfl
  · exact alpha_k128
  · exact alpha_k129
  · exact alpha_k130
  · exact alpha_k131
  · exact alpha_k132
  · exact alpha_k133
  · exact alpha_k134
  · exact alpha_k135
  · exact alpha_k136
  · exact alpha_k137
  · exact alpha_k138
  · exact alpha_k139
  · exact alpha_k140
  · exact alpha_k141
  · exact alpha_k142
  · exact alpha_k143

end Prism.C14
