import Prism.Check.C14

/-! Kernel-checked chunks (generated boiler-plate, see lib/gen_static.py). -/
namespace Prism.C14

theorem alpha_k144 : alphaChunk16 144 = true := by decide +kernel
theorem alpha_k145 : alphaChunk16 145 = true := by decide +kernel
theorem alpha_k146 : alphaChunk16 146 = true := by decide +kernel
theorem alpha_k147 : alphaChunk16 147 = true := by decide +kernel
theorem alpha_k148 : alphaChunk16 148 = true := by decide +kernel
theorem alpha_k149 : alphaChunk16 149 = true := by decide +kernel
theorem alpha_k150 : alphaChunk16 150 = true := by decide +kernel
theorem alpha_k151 : alphaChunk16 151 = true := by decide +kernel
theorem alpha_k152 : alphaChunk16 152 = true := by decide +kernel
theorem alpha_k153 : alphaChunk16 153 = true := by decide +kernel
theorem alpha_k154 : alphaChunk16 154 = true := by decide +kernel
theorem alpha_k155 : alphaChunk16 155 = true := by decide +kernel
theorem alpha_k156 : alphaChunk16 156 = true := by decide +kernel
theorem alpha_k157 : alphaChunk16 157 = true := by decide +kernel
theorem alpha_k158 : alphaChunk16 158 = true := by decide +kernel
theorem alpha_k159 : alphaChunk16 159 = true := by decide +kernel

theorem alpha_file9 : ∀ k, 144 ≤ k → k < 160 → alphaChunk16 k = true := by
  intro k h1 h2
  have h : k = 144 ∨ k = 145 ∨ k = 146 ∨ k = 147 ∨ k = 148 ∨ k = 149 ∨ k = 150 ∨ k = 151 ∨ k = 152 ∨ k = 153 ∨ k = 154 ∨ k = 155 ∨ k = 156 ∨ k = 157 ∨ k = 158 ∨ k = 159 := by omega
  rcases h with rfl | rfl | rfl | rfl | rfl | rfl | rfl | rfl | rfl | rfl | rfl | rfl | rfl | rfl | rfl | rfl
  · exact alpha_k144
  · exact alpha_k145
  · exact alpha_k146
  · exact alpha_k147
  · exact alpha_k148
  · exact alpha_k149
  · exact alpha_k150
  · exact alpha_k151
  · exact alpha_k152
  · exact alpha_k153
  · exact alpha_k154
  · exact alpha_k155
  · exact alpha_k156
  · exact alpha_k157
  · exact alpha_k158
  · exact alpha_k159

end Prism.C14
