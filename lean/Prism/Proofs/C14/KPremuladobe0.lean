import Prism.Check.C14

/-! Kernel-checked chunks (generated boiler-plate, see lib/gen_static.py). -/
namespace Prism.C14

theorem premuladobe_k0 : premulChunk .adobe 0 = true := by decide +kernel
theorem premuladobe_k1 : premulChunk .adobe 1 = true := by decide +kernel
theorem premuladobe_k2 : premulChunk .adobe 2 = true := by decide +kernel
theorem premuladobe_k3 : premulChunk .adobe 3 = true := by decide +kernel
theorem premuladobe_k4 : premulChunk .adobe 4 = true := by decide +kernel
theorem premuladobe_k5 : premulChunk .adobe 5 = true := by decide +kernel
theorem premuladobe_k6 : premulChunk .adobe 6 = true := by decide +kernel
theorem premuladobe_k7 : premulChunk .adobe 7 = true := by decide +kernel
theorem premuladobe_k8 : premulChunk .adobe 8 = true := by decide +kernel
theorem premuladobe_k9 : premulChunk .adobe 9 = true := by decide +kernel
theorem premuladobe_k10 : premulChunk .adobe 10 = true := by decide +kernel
theorem premuladobe_k11 : premulChunk .adobe 11 = true := by decide +kernel
theorem premuladobe_k12 : premulChunk .adobe 12 = true := by decide +kernel
theorem premuladobe_k13 : premulChunk .adobe 13 = true := by decide +kernel
theorem premuladobe_k14 : premulChunk .adobe 14 = true := by decide +kernel
theorem premuladobe_k15 : premulChunk .adobe 15 = true := by decide +kernel

theorem premuladobe_file0 : ∀ k, 0 ≤ k → k < 16 → premulChunk .adobe k = true := by
  intro k h1 h2
  have h : k = 0 ∨ k = 1 ∨ k = 2 ∨ k = 3 ∨ k = 4 ∨ k = 5 ∨ k = 6 ∨ k = 7 ∨ k = 8 ∨ k = 9 ∨ k = 10 ∨ k = 11 ∨ k = 12 ∨ k = 13 ∨ k = 14 ∨ k = 15 := by omega
  rcases h with rfl | rfl | rfl | rfl | rfl | rfl | rfl | rfl | rfl | rfl | rfl | rfl | rfl | rfl | rfl | rfl
  · exact premuladobe_k0
  · exact premuladobe_k1
  · exact premuladobe_k2
  · exact premuladobe_k3
  · exact premuladobe_k4
  · exact premuladobe_k5
  · exact premuladobe_k6
  · exact premuladobe_k7
  · exact premuladobe_k8
  · exact premuladobe_k9
  · exact premuladobe_k10
  · exact premuladobe_k11
  · exact premuladobe_k12
  · exact premuladobe_k13
  · exact premuladobe_k14
  · exact premuladobe_k15

end Prism.C14
