import Prism.Check.C14

/-! Kernel-checked chunks (generated boiler-plate, see lib/gen_static.py). -/
namespace Prism.C14

theorem premuladobe_k16 : premulChunk .adobe 16 = true := by decide +kernel
theorem premuladobe_k17 : premulChunk .adobe 17 = true := by decide +kernel
theorem premuladobe_k18 : premulChunk .adobe 18 = true := by decide +kernel
theorem premuladobe_k19 : premulChunk .adobe 19 = true := by decide +kernel
theorem premuladobe_k20 : premulChunk .adobe 20 = true := by decide +kernel
theorem premuladobe_k21 : premulChunk .adobe 21 = true := by decide +kernel
theorem premuladobe_k22 : premulChunk .adobe 22 = true := by decide +kernel
theorem premuladobe_k23 : premulChunk .adobe 23 = true := by decide +kernel
theorem premuladobe_k24 : premulChunk .adobe 24 = true := by decide +kernel
theorem premuladobe_k25 : premulChunk .adobe 25 = true := by decide +kernel
theorem premuladobe_k26 : premulChunk .adobe 26 = true := by decide +kernel
theorem premuladobe_k27 : premulChunk .adobe 27 = true := by decide +kernel
theorem premuladobe_k28 : premulChunk .adobe 28 = true := by decide +kernel
theorem premuladobe_k29 : premulChunk .adobe 29 = true := by decide +kernel
theorem premuladobe_k30 : premulChunk .adobe 30 = true := by decide +kernel
theorem premuladobe_k31 : premulChunk .adobe 31 = true := by decide +kernel

theorem premuladobe_file1 : ∀ k, 16 ≤ k → k < 32 → premulChunk .adobe k = true := by
  intro k h1 h2
  have h : k = 16 ∨ k = 17 ∨ k = 18 ∨ k = 19 ∨ k = 20 ∨ k = 21 ∨ k = 22 ∨ k = 23 ∨ k = 24 ∨ k = 25 ∨ k = 26 ∨ k = 27 ∨ k = 28 ∨ k = 29 ∨ k = 30 ∨ k = 31 := by omega
  rcases h with rfl | rfl | rfl | rfl | rfl | rfl | rfl | rfl | rfl | rfl | rfl | rfl | rfl | rfl | rfl | rfl
  · exact premuladobe_k16
  · exact premuladobe_k17
  · exact premuladobe_k18
  · exact premuladobe_k19
  · exact premuladobe_k20
  · exact premuladobe_k21
  · exact premuladobe_k22
  · exact premuladobe_k23
  · exact premuladobe_k24
  · exact premuladobe_k25
  · exact premuladobe_k26
  · exact premuladobe_k27
  · exact premuladobe_k28
  · exact premuladobe_k29
  · exact premuladobe_k30
  · exact premuladobe_k31

end Prism.C14
