import Prism.Check.C14

/-! Kernel-checked chunks (generated boiler-plate, see lib/gen_static.py). -/
namespace Prism.C14

theorem premuladobe_k160 : premulChunk .adobe 160 = true := by decide +kernel
theorem premuladobe_k161 : premulChunk .adobe 161 = true := by decide +kernel
theorem premuladobe_k162 : premulChunk .adobe 162 = true := by decide +kernel
theorem premuladobe_k163 : premulChunk .adobe 163 = true := by decide +kernel
theorem premuladobe_k164 : premulChunk .adobe 164 = true := by decide +kernel
theorem premuladobe_k165 : premulChunk .adobe 165 = true := by decide +kernel
theorem premuladobe_k166 : premulChunk .adobe 166 = true := by decide +kernel
theorem premuladobe_k167 : premulChunk .adobe 167 = true := by decide +kernel
theorem premuladobe_k168 : premulChunk .adobe 168 = true := by decide +kernel
theorem premuladobe_k169 : premulChunk .adobe 169 = true := by decide +kernel
theorem premuladobe_k170 : premulChunk .adobe 170 = true := by decide +kernel
theorem premuladobe_k171 : premulChunk .adobe 171 = true := by decide +kernel
theorem premuladobe_k172 : premulChunk .adobe 172 = true := by decide +kernel
theorem premuladobe_k173 : premulChunk .adobe 173 = true := by decide +kernel
theorem premuladobe_k174 : premulChunk .adobe 174 = true := by decide +kernel
theorem premuladobe_k175 : premulChunk .adobe 175 = true := by decide +kernel

theorem premuladobe_file10 : ∀ k, 160 ≤ k → k < 176 → premulChunk .adobe k = true := by
  intro k h1 h2
  have h : k = 160 ∨ k = 161 ∨ k = 162 ∨ k = 163 ∨ k = 164 ∨ k = 165 ∨ k = 166 ∨ k = 167 ∨ k = 168 ∨ k = 169 ∨ k = 170 ∨ k = 171 ∨ k = 172 ∨ k = 173 ∨ k = 174 ∨ k = 175 := by omega
  rcases h with rfl | rfl | rfl | rfl | rfl | rfl | rfl | rfl | rfl | rfl | rfl | rfl | rfl | rfl | rfl | rfl
  · exact premuladobe_k160
  · exact premuladobe_k161
  · exact premuladobe_k162
  · exact premuladobe_k163
  · exact premuladobe_k164
  · exact premuladobe_k165
  · exact premuladobe_k166
  · exact premuladobe_k167
  · exact premuladobe_k168
  · exact premuladobe_k169
  · exact premuladobe_k170
  · exact premuladobe_k171
  · exact premuladobe_k172
  · exact premuladobe_k173
  · exact premuladobe_k174
  · exact premuladobe_k175

end Prism.C14
