import Prism.Check.C14

/-! Kernel-checked chunks (generated boiler-plate, see lib/gen_static.py). -/
namespace Prism.C14

theorem premuladobe_k176 : premulChunk .adobe 176 = true := by decide +kernel
theorem premuladobe_k177 : premulChunk .adobe 177 = true := by decide +kernel
theorem premuladobe_k178 : premulChunk .adobe 178 = true := by decide +kernel
theorem premuladobe_k179 : premulChunk .adobe 179 = true := by decide +kernel
theorem premuladobe_k180 : premulChunk .adobe 180 = true := by decide +kernel
theorem premuladobe_k181 : premulChunk .adobe 181 = true := by decide +kernel
theorem premuladobe_k182 : premulChunk .adobe 182 = true := by decide +kernel
theorem premuladobe_k183 : premulChunk .adobe 183 = true := by decide +kernel
theorem premuladobe_k184 : premulChunk .adobe 184 = true := by decide +kernel
theorem premuladobe_k185 : premulChunk .adobe 185 = true := by decide +kernel
theorem premuladobe_k186 : premulChunk .adobe 186 = true := by decide +kernel
theorem premuladobe_k187 : premulChunk .adobe 187 = true := by decide +kernel
theorem premuladobe_k188 : premulChunk .adobe 188 = true := by decide +kernel
theorem premuladobe_k189 : premulChunk .adobe 189 = true := by decide +kernel
theorem premuladobe_k190 : premulChunk .adobe 190 = true := by decide +kernel
theorem premuladobe_k191 : premulChunk .adobe 191 = true := by decide +kernel

theorem premuladobe_file11 : ∀ k, 176 ≤ k → k < 192 → premulChunk .adobe k = true := by
  intro k h1 h2
  have h : k = 176 ∨ k = 177 ∨ k = 178 ∨ k = 179 ∨ k = 180 ∨ k = 181 ∨ k = 182 ∨ k = 183 ∨ k = 184 ∨ k = 185 ∨ k = 186 ∨ k = 187 ∨ k = 188 ∨ k = 189 ∨ k = 190 ∨ k = 191 := by omega
  rcases h with rfl | rfl | rfl | rfl | rfl | rfl | rfl | rfl | rfl | rfl | rfl | rfl | rfl | rfl | rfl | rfl
  · exact premuladobe_k176
  · exact premuladobe_k177
  · exact premuladobe_k178
  · exact premuladobe_k179
  · exact premuladobe_k180
  · exact premuladobe_k181
  · exact premuladobe_k182
  · exact premuladobe_k183
  · exact premuladobe_k184
  · exact premuladobe_k185
  · exact premuladobe_k186
  · exact premuladobe_k187
  · exact premuladobe_k188
  · exact premuladobe_k189
  · exact premuladobe_k190
  · exact premuladobe_k191

end Prism.C14
