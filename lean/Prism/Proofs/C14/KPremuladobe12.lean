import Prism.Check.C14

/-! Kernel-checked chunks (generated boiler-plate, see lib/gen_static.py). -/
namespace Prism.C14

theorem premuladobe_k192 : premulChunk .adobe 192 = true := by decide +kernel
theorem premuladobe_k193 : premulChunk .adobe 193 = true := by decide +kernel
theorem premuladobe_k194 : premulChunk .adobe 194 = true := by decide +kernel
theorem premuladobe_k195 : premulChunk .adobe 195 = true := by decide +kernel
theorem premuladobe_k196 : premulChunk .adobe 196 = true := by decide +kernel
theorem premuladobe_k197 : premulChunk .adobe 197 = true := by decide +kernel
theorem premuladobe_k198 : premulChunk .adobe 198 = true := by decide +kernel
theorem premuladobe_k199 : premulChunk .adobe 199 = true := by decide +kernel
theorem premuladobe_k200 : premulChunk .adobe 200 = true := by decide +kernel
theorem premuladobe_k201 : premulChunk .adobe 201 = true := by decide +kernel
theorem premuladobe_k202 : premulChunk .adobe 202 = true := by decide +kernel
theorem premuladobe_k203 : premulChunk .adobe 203 = true := by decide +kernel
theorem premuladobe_k204 : premulChunk .adobe 204 = true := by decide +kernel
theorem premuladobe_k205 : premulChunk .adobe 205 = true := by decide +kernel
theorem premuladobe_k206 : premulChunk .adobe 206 = true := by decide +kernel
theorem premuladobe_k207 : premulChunk .adobe 207 = true := by decide +kernel

theorem premuladobe_file12 : ∀ k, 192 ≤ k → k < 208 → premulChunk .adobe k = true := by
  intro k h1 h2
  have h : k = 192 ∨ k = 193 ∨ k = 194 ∨ k = 195 ∨ k = 196 ∨ k = 197 ∨ k = 198 ∨ k = 199 ∨ k = 200 ∨ k = 201 ∨ k = 202 ∨ k = 203 ∨ k = 204 ∨ k = 205 ∨ k = 206 ∨ k = 207 := by omega
  rcases h with rfl | rfl | rfl | rfl | rfl | rfl | rfl | rfl | rfl | rfl | rfl | rfl | rfl | rfl | rfl | rfl
  · exact premuladobe_k192
  · exact premuladobe_k193
  · exact premuladobe_k194
  · exact premuladobe_k195
  · exact premuladobe_k196
  · exact premuladobe_k197
  · exact premuladobe_k198
  · exact premuladobe_k199
  · exact premuladobe_k200
  · exact premuladobe_k201
  · exact premuladobe_k202
  · exact premuladobe_k203
  · exact premuladobe_k204
  · exact premuladobe_k205
  · exact premuladobe_k206
  · exact premuladobe_k207

end Prism.C14
