import Prism.Check.C14

/-! Kernel-checked chunks (generated boiler-plate, see lib/gen_static.py). -/
namespace Prism.C14

theorem premuladobe_k208 : premulChunk .adobe 208 = true := by decide +kernel
theorem premuladobe_k209 : premulChunk .adobe 209 = true := by decide +kernel
theorem premuladobe_k210 : premulChunk .adobe 210 = true := by decide +kernel
theorem premuladobe_k211 : premulChunk .adobe 211 = true := by decide +kernel
theorem premuladobe_k212 : premulChunk .adobe 212 = true := by decide +kernel
theorem premuladobe_k213 : premulChunk .adobe 213 = true := by decide +kernel
theorem premuladobe_k214 : premulChunk .adobe 214 = true := by decide +kernel
theorem premuladobe_k215 : premulChunk .adobe 215 = true := by decide +kernel
theorem premuladobe_k216 : premulChunk .adobe 216 = true := by decide +kernel
theorem premuladobe_k217 : premulChunk .adobe 217 = true := by decide +kernel
theorem premuladobe_k218 : premulChunk .adobe 218 = true := by decide +kernel
theorem premuladobe_k219 : premulChunk .adobe 219 = true := by decide +kernel
theorem premuladobe_k220 : premulChunk .adobe 220 = true := by decide +kernel
theorem premuladobe_k221 : premulChunk .adobe 221 = true := by decide +kernel
theorem premuladobe_k222 : premulChunk .adobe 222 = true := by decide +kernel
theorem premuladobe_k223 : premulChunk .adobe 223 = true := by decide +kernel

theorem premuladobe_file13 : ∀ k, 208 ≤ k → k < 224 → premulChunk .adobe k = true := by
  intro k h1 h2
  have h : k = 208 ∨ k = 209 ∨ k = 210 ∨ k = 211 ∨ k = 212 ∨ k = 213 ∨ k = 214 ∨ k = 215 ∨ k = 216 ∨ k = 217 ∨ k = 218 ∨ k = 219 ∨ k = 220 ∨ k = 221 ∨ k = 222 ∨ k = 223 := by omega
  rcases h with rfl | rfl | rfl | rfl | rfl | rfl | rfl | rfl | rfl | rfl | rfl | rfl | rfl | rfl | rfl | rfl
  · exact premuladobe_k208
  · exact premuladobe_k209
  · exact premuladobe_k210
  · exact premuladobe_k211
  · exact premuladobe_k212
  · exact premuladobe_k213
  · exact premuladobe_k214
  · exact premuladobe_k215
  · exact premuladobe_k216
  · exact premuladobe_k217
  · exact premuladobe_k218
  · exact premuladobe_k219
  · exact premuladobe_k220
  · exact premuladobe_k221
  · exact premuladobe_k222
  · exact premuladobe_k223

end Prism.C14
