import Prism.Check.C14

/-! Kernel-checked chunks (generated boiler-plate, see lib/gen_static.py). -/
namespace Prism.C14

theorem premuladobe_k224 : premulChunk .adobe 224 = true := by decide +kernel
theorem premuladobe_k225 : premulChunk .adobe 225 = true := by decide +kernel
theorem premuladobe_k226 : premulChunk .adobe 226 = true := by decide +kernel
theorem premuladobe_k227 : premulChunk .adobe 227 = true := by decide +kernel
theorem premuladobe_k228 : premulChunk .adobe 228 = true := by decide +kernel
theorem premuladobe_k229 : premulChunk .adobe 229 = true := by decide +kernel
theorem premuladobe_k230 : premulChunk .adobe 230 = true := by decide +kernel
theorem premuladobe_k231 : premulChunk .adobe 231 = true := by decide +kernel
theorem premuladobe_k232 : premulChunk .adobe 232 = true := by decide +kernel
theorem premuladobe_k233 : premulChunk .adobe 233 = true := by decide +kernel
theorem premuladobe_k234 : premulChunk .adobe 234 = true := by decide +kernel
theorem premuladobe_k235 : premulChunk .adobe 235 = true := by decide +kernel
theorem premuladobe_k236 : premulChunk .adobe 236 = true := by decide +kernel
theorem premuladobe_k237 : premulChunk .adobe 237 = true := by decide +kernel
theorem premuladobe_k238 : premulChunk .adobe 238 = true := by decide +kernel
theorem premuladobe_k239 : premulChunk .adobe 239 = true := by decide +kernel

theorem premuladobe_file14 : ∀ k, 224 ≤ k → k < 240 → premulChunk .adobe k = true := by
  intro k h1 h2
  have h : k = 224 ∨ k = 225 ∨ k = 226 ∨ k = 227 ∨ k = 228 ∨ k = 229 ∨ k = 230 ∨ k = 231 ∨ k = 232 ∨ k = 233 ∨ k = 234 ∨ k = 235 ∨ k = 236 ∨ k = 237 ∨ k = 238 ∨ k = 239 := by omega
  rcases h with rfl | rfl | rfl | rfl | rfl | rfl | rfl | rfl | rfl | rfl | rfl | rfl | rfl | rfl | rfl | rfl
  · exact premuladobe_k224
  · exact premuladobe_k225
  · exact premuladobe_k226
  · exact premuladobe_k227
  · exact premuladobe_k228
  · exact premuladobe_k229
  · exact premuladobe_k230
  · exact premuladobe_k231
  · exact premuladobe_k232
  · exact premuladobe_k233
  · exact premuladobe_k234
  · exact premuladobe_k235
  · exact premuladobe_k236
  · exact premuladobe_k237
  · exact premuladobe_k238
  · exact premuladobe_k239

end Prism.C14
