import Prism.Check.C14

/-! Kernel-checked chunks (generated boiler-plate, see lib/gen_static.py). -/
namespace Prism.C14

theorem premuladobe_k240 : premulChunk .adobe 240 = true := by decide +kernel
theorem premuladobe_k241 : premulChunk .adobe 241 = true := by decide +kernel
theorem premuladobe_k242 : premulChunk .adobe 242 = true := by decide +kernel
theorem premuladobe_k243 : premulChunk .adobe 243 = true := by decide +kernel
theorem premuladobe_k244 : premulChunk .adobe 244 = true := by decide +kernel
theorem premuladobe_k245 : premulChunk .adobe 245 = true := by decide +kernel
theorem premuladobe_k246 : premulChunk .adobe 246 = true := by decide +kernel
theorem premuladobe_k247 : premulChunk .adobe 247 = true := by decide +kernel
theorem premuladobe_k248 : premulChunk .adobe 248 = true := by decide +kernel
theorem premuladobe_k249 : premulChunk .adobe 249 = true := by decide +kernel
theorem premuladobe_k250 : premulChunk .adobe 250 = true := by decide +kernel
theorem premuladobe_k251 : premulChunk .adobe 251 = true := by decide +kernel
theorem premuladobe_k252 : premulChunk .adobe 252 = true := by decide +kernel
theorem premuladobe_k253 : premulChunk .adobe 253 = true := by decide +kernel
theorem premuladobe_k254 : premulChunk .adobe 254 = true := by decide +kernel
theorem premuladobe_k255 : premulChunk .adobe 255 = true := by decide +kernel

theorem premuladobe_file15 : ∀ k, 240 ≤ k → k < 256 → premulChunk .adobe k = true := by
  intro k h1 h2
  have h : k = 240 ∨ k = 241 ∨ k = 242 ∨ k = 243 ∨ k = 244 ∨ k = 245 ∨ k = 246 ∨ k = 247 ∨ k = 248 ∨ k = 249 ∨ k = 250 ∨ k = 251 ∨ k = 252 ∨ k = 253 ∨ k = 254 ∨ k = 255 := by omega
  rcases h with rfl | rfl | rfl | rfl | rfl | rfl | rfl | rfl | rfl | rfl | rfl | rfl | rfl | rfl | rfl | rfl
  · exact premuladobe_k240
  · exact premuladobe_k241
  · exact premuladobe_k242
  · exact premuladobe_k243
  · exact premuladobe_k244
  · exact premuladobe_k245
  · exact premuladobe_k246
  · exact premuladobe_k247
  · exact premuladobe_k248
  · exact premuladobe_k249
  · exact premuladobe_k250
  · exact premuladobe_k251
  · exact premuladobe_k252
  · exact premuladobe_k253
  · exact premuladobe_k254
  · exact premuladobe_k255

end Prism.C14
