import Prism.Check.C14

/-! Kernel-checked chunks (generated boiler-plate, see lib/gen_static.py). -/
namespace Prism.C14

theorem premuladobe_k32 : premulChunk .adobe 32 = true := by decide +kernel
theorem premuladobe_k33 : premulChunk .adobe 33 = true := by decide +kernel
theorem premuladobe_k34 : premulChunk .adobe 34 = true := by decide +kernel
theorem premuladobe_k35 : premulChunk .adobe 35 = true := by decide +kernel
theorem premuladobe_k36 : premulChunk .adobe 36 = true := by decide +kernel
theorem premuladobe_k37 : premulChunk .adobe 37 = true := by decide +kernel
theorem premuladobe_k38 : premulChunk .adobe 38 = true := by decide +kernel
theorem premuladobe_k39 : premulChunk .adobe 39 = true := by decide +kernel
theorem premuladobe_k40 : premulChunk .adobe 40 = true := by decide +kernel
theorem premuladobe_k41 : premulChunk .adobe 41 = true := by decide +kernel
theorem premuladobe_k42 : premulChunk .adobe 42 = true := by decide +kernel
theorem premuladobe_k43 : premulChunk .adobe 43 = true := by decide +kernel
theorem premuladobe_k44 : premulChunk .adobe 44 = true := by decide +kernel
theorem premuladobe_k45 : premulChunk .adobe 45 = true := by decide +kernel
theorem premuladobe_k46 : premulChunk .adobe 46 = true := by decide +kernel
theorem premuladobe_k47 : premulChunk .adobe 47 = true := by decide +kernel

theorem premuladobe_file2 : ∀ k, 32 ≤ k → k < 48 → premulChunk .adobe k = true := by
  intro k h1 h2
  have h : k = 32 ∨ k = 33 ∨ k = 34 ∨ k = 35 ∨ k = 36 ∨ k = 37 ∨ k = 38 ∨ k = 39 ∨ k = 40 ∨ k = 41 ∨ k = 42 ∨ k = 43 ∨ k = 44 ∨ k = 45 ∨ k = 46 ∨ k = 47 := by omega
  rcases h with rfl | rfl | rfl | rfl | rfl | rfl | rfl | rfl | rfl | rfl | rfl | rfl | rfl | rfl | rfl | rfl
  · exact premuladobe_k32
  · exact premuladobe_k33
  · exact premuladobe_k34
  · exact premuladobe_k35
  · exact premuladobe_k36
  · exact premuladobe_k37
  · exact premuladobe_k38
  · exact premuladobe_k39
  · exact premuladobe_k40
  · exact premuladobe_k41
  · exact premuladobe_k42
  · exact premuladobe_k43
  · exact premuladobe_k44
  · exact premuladobe_k45
  · exact premuladobe_k46
  · exact premuladobe_k47

end Prism.C14
