import Prism.Check.C14

/-! Kernel-checked chunks (generated boiler-plate, see lib/gen_static.py). -/
namespace Prism.C14

theorem premuladobe_k48 : premulChunk .adobe 48 = true := by decide +kernel
theorem premuladobe_k49 : premulChunk .adobe 49 = true := by decide +kernel
theorem premuladobe_k50 : premulChunk .adobe 50 = true := by decide +kernel
theorem premuladobe_k51 : premulChunk .adobe 51 = true := by decide +kernel
theorem premuladobe_k52 : premulChunk .adobe 52 = true := by decide +kernel
theorem premuladobe_k53 : premulChunk .adobe 53 = true := by decide +kernel
theorem premuladobe_k54 : premulChunk .adobe 54 = true := by decide +kernel
theorem premuladobe_k55 : premulChunk .adobe 55 = true := by decide +kernel
theorem premuladobe_k56 : premulChunk .adobe 56 = true := by decide +kernel
theorem premuladobe_k57 : premulChunk .adobe 57 = true := by decide +kernel
theorem premuladobe_k58 : premulChunk .adobe 58 = true := by decide +kernel
theorem premuladobe_k59 : premulChunk .adobe 59 = true := by decide +kernel
theorem premuladobe_k60 : premulChunk .adobe 60 = true := by decide +kernel
theorem premuladobe_k61 : premulChunk .adobe 61 = true := by decide +kernel
theorem premuladobe_k62 : premulChunk .adobe 62 = true := by decide +kernel
theorem premuladobe_k63 : premulChunk .adobe 63 = true := by decide +kernel

theorem premuladobe_file3 : ∀ k, 48 ≤ k → k < 64 → premulChunk .adobe k = true := by
  intro k h1 h2
  have h : k = 48 ∨ k = 49 ∨ k = 50 ∨ k = 51 ∨ k = 52 ∨ k = 53 ∨ k = 54 ∨ k = 55 ∨ k = 56 ∨ k = 57 ∨ k = 58 ∨ k = 59 ∨ k = 60 ∨ k = 61 ∨ k = 62 ∨ k = 63 := by omega
  rcases h with rfl | rfl | rfl | rfl | rfl | rfl | rfl | rfl | rfl | rfl | rfl | rfl | rfl | rfl | rfl | rfl
  · exact premuladobe_k48
  · exact premuladobe_k49
  · exact premuladobe_k50
  · exact premuladobe_k51
  · exact premuladobe_k52
  · exact premuladobe_k53
  · exact premuladobe_k54
  · exact premuladobe_k55
  · exact premuladobe_k56
  · exact premuladobe_k57
  · exact premuladobe_k58
  · exact premuladobe_k59
  · exact premuladobe_k60
  · exact premuladobe_k61
  · exact premuladobe_k62
  · exact premuladobe_k63

end Prism.C14
