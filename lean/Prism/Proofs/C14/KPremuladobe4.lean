import Prism.Check.C14

/-! Kernel-checked chunks (generated boiler-plate, see lib/gen_static.py). -/
namespace Prism.C14

theorem premuladobe_k64 : premulChunk .adobe 64 = true := by decide +kernel
theorem premuladobe_k65 : premulChunk .adobe 65 = true := by decide +kernel
theorem premuladobe_k66 : premulChunk .adobe 66 = true := by decide +kernel
theorem premuladobe_k67 : premulChunk .adobe 67 = true := by decide +kernel
theorem premuladobe_k68 : premulChunk .adobe 68 = true := by decide +kernel
theorem premuladobe_k69 : premulChunk .adobe 69 = true := by decide +kernel
theorem premuladobe_k70 : premulChunk .adobe 70 = true := by decide +kernel
theorem premuladobe_k71 : premulChunk .adobe 71 = true := by decide +kernel
theorem premuladobe_k72 : premulChunk .adobe 72 = true := by decide +kernel
theorem premuladobe_k73 : premulChunk .adobe 73 = true := by decide +kernel
theorem premuladobe_k74 : premulChunk .adobe 74 = true := by decide +kernel
theorem premuladobe_k75 : premulChunk .adobe 75 = true := by decide +kernel
theorem premuladobe_k76 : premulChunk .adobe 76 = true := by decide +kernel
theorem premuladobe_k77 : premulChunk .adobe 77 = true := by decide +kernel
theorem premuladobe_k78 : premulChunk .adobe 78 = true := by decide +kernel
theorem premuladobe_k79 : premulChunk .adobe 79 = true := by decide +kernel

theorem premuladobe_file4 : ∀ k, 64 ≤ k → k < 80 → premulChunk .adobe k = true := by
  intro k h1 h2
  have h : k = 64 ∨ k = 65 ∨ k = 66 ∨ k = 67 ∨ k = 68 ∨ k = 69 ∨ k = 70 ∨ k = 71 ∨ k = 72 ∨ k = 73 ∨ k = 74 ∨ k = 75 ∨ k = 76 ∨ k = 77 ∨ k = 78 ∨ k = 79 := by omega
  rcases h with rfl | rfl | rfl | rfl | rfl | rfl | rfl | rfl | rfl | rfl | rfl | rfl | rfl | rfl | rfl | rfl
  · exact premuladobe_k64
  · exact premuladobe_k65
  · exact premuladobe_k66
  · exact premuladobe_k67
  · exact premuladobe_k68
  · exact premuladobe_k69
  · exact premuladobe_k70
  · exact premuladobe_k71
  · exact premuladobe_k72
  · exact premuladobe_k73
  · exact premuladobe_k74
  · exact premuladobe_k75
  · exact premuladobe_k76
  · exact premuladobe_k77
  · exact premuladobe_k78
  · exact premuladobe_k79

end Prism.C14
