import Prism.Check.C14

/-! Kernel-checked chunks (generated boiler-plate, see lib/gen_static.py). -/
namespace Prism.C14

theorem premuladobe_k80 : premulChunk .adobe 80 = true := by decide +kernel
theorem premuladobe_k81 : premulChunk .adobe 81 = true := by decide +kernel
theorem premuladobe_k82 : premulChunk .adobe 82 = true := by decide +kernel
theorem premuladobe_k83 : premulChunk .adobe 83 = true := by decide +kernel
theorem premuladobe_k84 : premulChunk .adobe 84 = true := by decide +kernel
theorem premuladobe_k85 : premulChunk .adobe 85 = true := by decide +kernel
theorem premuladobe_k86 : premulChunk .adobe 86 = true := by decide +kernel
theorem premuladobe_k87 : premulChunk .adobe 87 = true := by decide +kernel
theorem premuladobe_k88 : premulChunk .adobe 88 = true := by decide +kernel
theorem premuladobe_k89 : premulChunk .adobe 89 = true := by decide +kernel
theorem premuladobe_k90 : premulChunk .adobe 90 = true := by decide +kernel
theorem premuladobe_k91 : premulChunk .adobe 91 = true := by decide +kernel
theorem premuladobe_k92 : premulChunk .adobe 92 = true := by decide +kernel
theorem premuladobe_k93 : premulChunk .adobe 93 = true := by decide +kernel
theorem premuladobe_k94 : premulChunk .adobe 94 = true := by decide +kernel
theorem premuladobe_k95 : premulChunk .adobe 95 = true := by decide +kernel

theorem premuladobe_file5 : ∀ k, 80 ≤ k → k < 96 → premulChunk .adobe k = true := by
  intro k h1 h2
  have h : k = 80 ∨ k = 81 ∨ k = 82 ∨ k = 83 ∨ k = 84 ∨ k = 85 ∨ k = 86 ∨ k = 87 ∨ k = 88 ∨ k = 89 ∨ k = 90 ∨ k = 91 ∨ k = 92 ∨ k = 93 ∨ k = 94 ∨ k = 95 := by omega
  rcases h with rfl | rfl | rfl | rfl | rfl | rfl | rfl | rfl | rfl | rfl | rfl | rfl | rfl | rfl | rfl | rfl
  · exact premuladobe_k80
  · exact premuladobe_k81
  · exact premuladobe_k82
  · exact premuladobe_k83
  · exact premuladobe_k84
  · exact premuladobe_k85
  · exact premuladobe_k86
  · exact premuladobe_k87
  · exact premuladobe_k88
  · exact premuladobe_k89
  · exact premuladobe_k90
  · exact premuladobe_k91
  · exact premuladobe_k92
  · exact premuladobe_k93
  · exact premuladobe_k94
  · exact premuladobe_k95

end Prism.C14
