import Prism.Check.C14

/-! Kernel-checked chunks (generated boiler-plate, see lib/gen_static.py). -/
namespace Prism.C14

theorem premuladobe_k96 : premulChunk .adobe 96 = true := by decide +kernel
theorem premuladobe_k97 : premulChunk .adobe 97 = true := by decide +kernel
theorem premuladobe_k98 : premulChunk .adobe 98 = true := by decide +kernel
theorem premuladobe_k99 : premulChunk .adobe 99 = true := by decide +kernel
theorem premuladobe_k100 : premulChunk .adobe 100 = true := by decide +kernel
theorem premuladobe_k101 : premulChunk .adobe 101 = true := by decide +kernel
theorem premuladobe_k102 : premulChunk .adobe 102 = true := by decide +kernel
theorem premuladobe_k103 : premulChunk .adobe 103 = true := by decide +kernel
theorem premuladobe_k104 : premulChunk .adobe 104 = true := by decide +kernel
theorem premuladobe_k105 : premulChunk .adobe 105 = true := by decide +kernel
theorem premuladobe_k106 : premulChunk .adobe 106 = true := by decide +kernel
theorem premuladobe_k107 : premulChunk .adobe 107 = true := by decide +kernel
theorem premuladobe_k108 : premulChunk .adobe 108 = true := by decide +kernel
theorem premuladobe_k109 : premulChunk .adobe 109 = true := by decide +kernel
theorem premuladobe_k110 : premulChunk .adobe 110 = true := by decide +kernel
theorem premuladobe_k111 : premulChunk .adobe 111 = true := by decide +kernel

theorem premuladobe_file6 : ∀ k, 96 ≤ k → k < 112 → premulChunk .adobe k = true := by
  intro k h1 h2
  have h : k = 96 ∨ k = 97 ∨ k = 98 ∨ k = 99 ∨ k = 100 ∨ k = 101 ∨ k = 102 ∨ k = 103 ∨ k = 104 ∨ k = 105 ∨ k = 106 ∨ k = 107 ∨ k = 108 ∨ k = 109 ∨ k = 110 ∨ k = 111 := by omega
  rcases h with rfl | rfl | rfl | rfl | rfl | rfl | rfl | rfl | rfl | rfl | rfl | rfl | rfl | rfl | rfl | rfl
  · exact premuladobe_k96
  · exact premuladobe_k97
  · exact premuladobe_k98
  · exact premuladobe_k99
  · exact premuladobe_k100
  · exact premuladobe_k101
  · exact premuladobe_k102
  · exact premuladobe_k103
  · exact premuladobe_k104
  · exact premuladobe_k105
  · exact premuladobe_k106
  · exact premuladobe_k107
  · exact premuladobe_k108
  · exact premuladobe_k109
  · exact premuladobe_k110
  · exact premuladobe_k111

end Prism.C14
