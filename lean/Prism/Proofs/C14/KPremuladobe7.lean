import Prism.Check.C14

/-! Kernel-checked chunks (generated boiler-plate, see lib/gen_static.py). -/
namespace Prism.C14

theorem premuladobe_k112 : premulChunk .adobe 112 = true := by decide +kernel
theorem premuladobe_k113 : premulChunk .adobe 113 = true := by decide +kernel
theorem premuladobe_k114 : premulChunk .adobe 114 = true := by decide +kernel
theorem premuladobe_k115 : premulChunk .adobe 115 = true := by decide +kernel
theorem premuladobe_k116 : premulChunk .adobe 116 = true := by decide +kernel
theorem premuladobe_k117 : premulChunk .adobe 117 = true := by decide +kernel
theorem premuladobe_k118 : premulChunk .adobe 118 = true := by decide +kernel
theorem premuladobe_k119 : premulChunk .adobe 119 = true := by decide +kernel
theorem premuladobe_k120 : premulChunk .adobe 120 = true := by decide +kernel
theorem premuladobe_k121 : premulChunk .adobe 121 = true := by decide +kernel
theorem premuladobe_k122 : premulChunk .adobe 122 = true := by decide +kernel
theorem premuladobe_k123 : premulChunk .adobe 123 = true := by decide +kernel
theorem premuladobe_k124 : premulChunk .adobe 124 = true := by decide +kernel
theorem premuladobe_k125 : premulChunk .adobe 125 = true := by decide +kernel
theorem premuladobe_k126 : premulChunk .adobe 126 = true := by decide +kernel
theorem premuladobe_k127 : premulChunk .adobe 127 = true := by decide +kernel

theorem premuladobe_file7 : ∀ k, 112 ≤ k → k < 128 → premulChunk .adobe k = true := by
  intro k h1 h2
  have h : k = 112 ∨ k = 113 ∨ k = 114 ∨ k = 115 ∨ k = 116 ∨ k = 117 ∨ k = 118 ∨ k = 119 ∨ k = 120 ∨ k = 121 ∨ k = 122 ∨ k = 123 ∨ k = 124 ∨ k = 125 ∨ k = 126 ∨ k = 127 := by omega
  rcases h with rfl | rfl | rfl | rfl | rfl | rfl | rfl | rfl | rfl | rfl | rfl | rfl | rfl | rfl | rfl | rfl
  · exact premuladobe_k112
  · exact premuladobe_k113
  · exact premuladobe_k114
  · exact premuladobe_k115
  · exact premuladobe_k116
  · exact premuladobe_k117
  · exact premuladobe_k118
  · exact premuladobe_k119
  · exact premuladobe_k120
  · exact premuladobe_k121
  · exact premuladobe_k122
  · exact premuladobe_k123
  · exact premuladobe_k124
  · exact premuladobe_k125
  · exact premuladobe_k126
  · exact premuladobe_k127

end Prism.C14
