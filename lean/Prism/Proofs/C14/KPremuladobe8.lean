import Prism.Check.C14

/-! Kernel-checked chunks (generated boiler-plate, see lib/gen_static.py). -/
namespace Prism.C14

theorem premuladobe_k128 : premulChunk .adobe 128 = true := by decide +kernel
theorem premuladobe_k129 : premulChunk .adobe 129 = true := by decide +kernel
theorem premuladobe_k130 : premulChunk .adobe 130 = true := by decide +kernel
theorem premuladobe_k131 : premulChunk .adobe 131 = true := by decide +kernel
theorem premuladobe_k132 : premulChunk .adobe 132 = true := by decide +kernel
theorem premuladobe_k133 : premulChunk .adobe 133 = true := by decide +kernel
theorem premuladobe_k134 : premulChunk .adobe 134 = true := by decide +kernel
theorem premuladobe_k135 : premulChunk .adobe 135 = true := by decide +kernel
theorem premuladobe_k136 : premulChunk .adobe 136 = true := by decide +kernel
theorem premuladobe_k137 : premulChunk .adobe 137 = true := by decide +kernel
theorem premuladobe_k138 : premulChunk .adobe 138 = true := by decide +kernel
theorem premuladobe_k139 : premulChunk .adobe 139 = true := by decide +kernel
theorem premuladobe_k140 : premulChunk .adobe 140 = true := by decide +kernel
theorem premuladobe_k141 : premulChunk .adobe 141 = true := by decide +kernel
theorem premuladobe_k142 : premulChunk .adobe 142 = true := by decide +kernel
theorem premuladobe_k143 : premulChunk .adobe 143 = true := by decide +kernel

theorem premuladobe_file8 : ∀ k, 128 ≤ k → k < 144 → premulChunk .adobe k = true := by
  intro k h1 h2
  have h : k = 128 ∨ k = 129 ∨ k = 130 ∨ k = 131 ∨ k = 132 ∨ k = 133 ∨ k = 134 ∨ k = 135 ∨ k = 136 ∨ k = 137 ∨ k = 138 ∨ k = 139 ∨ k = 140 ∨ k = 141 ∨ k = 142 ∨ k = 143 := by omega
  rcases h with rfl | rfl | rfl | rfl | rfl | rfl | rfl | rfl | rfl | rfl | rfl | rfl | rfl | rfl | rfl | rfl
  · exact premuladobe_k128
  · exact premuladobe_k129
  · exact premuladobe_k130
  · exact premuladobe_k131
  · exact premuladobe_k132
  · exact premuladobe_k133
  · exact premuladobe_k134
  · exact premuladobe_k135
  · exact premuladobe_k136
  · exact premuladobe_k137
  · exact premuladobe_k138
  · exact premuladobe_k139
  · exact premuladobe_k140
  · exact premuladobe_k141
  · exact premuladobe_k142
  · exact premuladobe_k143

end Prism.C14
