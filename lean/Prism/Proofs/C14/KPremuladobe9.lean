import Prism.Check.C14

/-! Kernel-checked chunks (generated boiler-plate, see lib/gen_static.py). -/
namespace Prism.C14

theorem premuladobe_k144 : premulChunk .adobe 144 = true := by decide +kernel
theorem premuladobe_k145 : premulChunk .adobe 145 = true := by decide +kernel
theorem premuladobe_k146 : premulChunk .adobe 146 = true := by decide +kernel
theorem premuladobe_k147 : premulChunk .adobe 147 = true := by decide +kernel
theorem premuladobe_k148 : premulChunk .adobe 148 = true := by decide +kernel
theorem premuladobe_k149 : premulChunk .adobe 149 = true := by decide +kernel
theorem premuladobe_k150 : premulChunk .adobe 150 = true := by decide +kernel
theorem premuladobe_k151 : premulChunk .adobe 151 = true := by decide +kernel
theorem premuladobe_k152 : premulChunk .adobe 152 = true := by decide +kernel
theorem premuladobe_k153 : premulChunk .adobe 153 = true := by decide +kernel
theorem premuladobe_k154 : premulChunk .adobe 154 = true := by decide +kernel
theorem premuladobe_k155 : premulChunk .adobe 155 = true := by decide +kernel
theorem premuladobe_k156 : premulChunk .adobe 156 = true := by decide +kernel
theorem premuladobe_k157 : premulChunk .adobe 157 = true := by decide +kernel
theorem premuladobe_k158 : premulChunk .adobe 158 = true := by decide +kernel
theorem premuladobe_k159 : premulChunk .adobe 159 = true := by decide +kernel

theorem premuladobe_file9 : ∀ k, 144 ≤ k → k < 160 → premulChunk .adobe k = true := by
  intro k h1 h2
  have h : k = 144 ∨ k = 145 ∨ k = 146 ∨ k = 147 ∨ k = 148 ∨ k = 149 ∨ k = 150 ∨ k = 151 ∨ k = 152 ∨ k = 153 ∨ k = 154 ∨ k = 155 ∨ k = 156 ∨ k = 157 ∨ k = 158 ∨ k = 159 := by omega
  rcases h with rfl | rfl | rfl | rfl | rfl | rfl | rfl | rfl | rfl | rfl | rfl | rfl | rfl | rfl | rfl | rfl
  · exact premuladobe_k144
  · exact premuladobe_k145
  · exact premuladobe_k146
  · exact premuladobe_k147
  · exact premuladobe_k148
  · exact premuladobe_k149
  · exact premuladobe_k150
  · exact premuladobe_k151
  · exact premuladobe_k152
  · exact premuladobe_k153
  · exact premuladobe_k154
  · exact premuladobe_k155
  · exact premuladobe_k156
  · exact premuladobe_k157
  · exact premuladobe_k158
  · exact premuladobe_k159

end Prism.C14
