import Prism.Check.C14

/-! Kernel-checked chunks (generated boiler-plate, see lib/gen_static.py). -/
namespace Prism.C14

theorem premulp3_k0 : premulChunk .p3 0 = true := by decide +kernel
theorem premulp3_k1 : premulChunk .p3 1 = true := by decide +kernel
theorem premulp3_k2 : premulChunk .p3 2 = true := by decide +kernel
theorem premulp3_k3 : premulChunk .p3 3 = true := by decide +kernel
theorem premulp3_k4 : premulChunk .p3 4 = true := by decide +kernel
theorem premulp3_k5 : premulChunk .p3 5 = true := by decide +kernel
theorem premulp3_k6 : premulChunk .p3 6 = true := by decide +kernel
theorem premulp3_k7 : premulChunk .p3 7 = true := by decide +kernel
theorem premulp3_k8 : premulChunk .p3 8 = true := by decide +kernel
theorem premulp3_k9 : premulChunk .p3 9 = true := by decide +kernel
theorem premulp3_k10 : premulChunk .p3 10 = true := by decide +kernel
theorem premulp3_k11 : premulChunk .p3 11 = true := by decide +kernel
theorem premulp3_k12 : premulChunk .p3 12 = true := by decide +kernel
theorem premulp3_k13 : premulChunk .p3 13 = true := by decide +kernel
theorem premulp3_k14 : premulChunk .p3 14 = true := by decide +kernel
theorem premulp3_k15 : premulChunk .p3 15 = true := by decide +kernel

theorem premulp3_file0 : ∀ k, 0 ≤ k → k < 16 → premulChunk .p3 k = true := by
  intro k h1 h2
  have h : k = 0 ∨ k = 1 ∨ k = 2 ∨ k = 3 ∨ k = 4 ∨ k = 5 ∨ k = 6 ∨ k = 7 ∨ k = 8 ∨ k = 9 ∨ k = 10 ∨ k = 11 ∨ k = 12 ∨ k = 13 ∨ k = 14 ∨ k = 15 := by omega
  rcases h with rfl | rfl | rfl | rfl | rfl | rfl | rfl | rfl | rfl | rfl | rfl | rfl | rfl | rfl | rfl | rfl
  · exact premulp3_k0
  · exact premulp3_k1
  · exact premulp3_k2
  · exact premulp3_k3
  · exact premulp3_k4
  · exact premulp3_k5
  · exact premulp3_k6
  · exact premulp3_k7
  · exact premulp3_k8
  · exact premulp3_k9
  · exact premulp3_k10
  · exact premulp3_k11
  · exact premulp3_k12
  · exact premulp3_k13
  · exact premulp3_k14
  · exact premulp3_k15

end Prism.C14
