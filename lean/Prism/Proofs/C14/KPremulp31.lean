import Prism.Check.C14

/-! Kernel-checked chunks (generated boiler-plate, see lib/gen_static.py). -/
namespace Prism.C14

theorem premulp3_k16 : premulChunk .p3 16 = true := by decide +kernel
theorem premulp3_k17 : premulChunk .p3 17 = true := by decide +kernel
theorem premulp3_k18 : premulChunk .p3 18 = true := by decide +kernel
theorem premulp3_k19 : premulChunk .p3 19 = true := by decide +kernel
theorem premulp3_k20 : premulChunk .p3 20 = true := by decide +kernel
theorem premulp3_k21 : premulChunk .p3 21 = true := by decide +kernel
theorem premulp3_k22 : premulChunk .p3 22 = true := by decide +kernel
theorem premulp3_k23 : premulChunk .p3 23 = true := by decide +kernel
theorem premulp3_k24 : premulChunk .p3 24 = true := by decide +kernel
theorem premulp3_k25 : premulChunk .p3 25 = true := by decide +kernel
theorem premulp3_k26 : premulChunk .p3 26 = true := by decide +kernel
theorem premulp3_k27 : premulChunk .p3 27 = true := by decide +kernel
theorem premulp3_k28 : premulChunk .p3 28 = true := by decide +kernel
theorem premulp3_k29 : premulChunk .p3 29 = true := by decide +kernel
theorem premulp3_k30 : premulChunk .p3 30 = true := by decide +kernel
theorem premulp3_k31 : premulChunk .p3 31 = true := by decide +kernel

theorem premulp3_file1 : ∀ k, 16 ≤ k → k < 32 → premulChunk .p3 k = true := by
  intro k h1 h2
  have h : k = 16 ∨ k = 17 ∨ k = 18 ∨ k = 19 ∨ k = 20 ∨ k = 21 ∨ k = 22 ∨ k = 23 ∨ k = 24 ∨ k = 25 ∨ k = 26 ∨ k = 27 ∨ k = 28 ∨ k = 29 ∨ k = 30 ∨ k = 31 := by omega
  rcases h with rfl | rfl | rfl | rfl | rfl | rfl | rfl | rfl | rfl | rfl | rfl | rfl | rfl | rfl | rfl | rfl
  · exact premulp3_k16
  · exact premulp3_k17
  · exact premulp3_k18
  · exact premulp3_k19
  · exact premulp3_k20
  · exact premulp3_k21
  · exact premulp3_k22
  · exact premulp3_k23
  · exact premulp3_k24
  · exact premulp3_k25
  · exact premulp3_k26
  · exact premulp3_k27
  · exact premulp3_k28
  · exact premulp3_k29
  · exact premulp3_k30
  · exact premulp3_k31

end Prism.C14
