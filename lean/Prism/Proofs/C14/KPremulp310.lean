import Prism.Check.C14

/-! Kernel-checked chunks (generated boiler-plate, see lib/gen_static.py). -/
namespace Prism.C14

theorem premulp3_k160 : premulChunk .p3 160 = true := by decide +kernel
theorem premulp3_k161 : premulChunk .p3 161 = true := by decide +kernel
theorem premulp3_k162 : premulChunk .p3 162 = true := by decide +kernel
theorem premulp3_k163 : premulChunk .p3 163 = true := by decide +kernel
theorem premulp3_k164 : premulChunk .p3 164 = true := by decide +kernel
theorem premulp3_k165 : premulChunk .p3 165 = true := by decide +kernel
theorem premulp3_k166 : premulChunk .p3 166 = true := by decide +kernel
theorem premulp3_k167 : premulChunk .p3 167 = true := by decide +kernel
theorem premulp3_k168 : premulChunk .p3 168 = true := by decide +kernel
theorem premulp3_k169 : premulChunk .p3 169 = true := by decide +kernel
theorem premulp3_k170 : premulChunk .p3 170 = true := by decide +kernel
theorem premulp3_k171 : premulChunk .p3 171 = true := by decide +kernel
theorem premulp3_k172 : premulChunk .p3 172 = true := by decide +kernel
theorem premulp3_k173 : premulChunk .p3 173 = true := by decide +kernel
theorem premulp3_k174 : premulChunk .p3 174 = true := by decide +kernel
theorem premulp3_k175 : premulChunk .p3 175 = true := by decide +kernel

theorem premulp3_file10 : ∀ k, 160 ≤ k → k < 176 → premulChunk .p3 k = true := by
  intro k h1 h2
  have h : k = 160 ∨ k = 161 ∨ k = 162 ∨ k = 163 ∨ k = 164 ∨ k = 165 ∨ k = 166 ∨ k = 167 ∨ k = 168 ∨ k = 169 ∨ k = 170 ∨ k = 171 ∨ k = 172 ∨ k = 173 ∨ k = 174 ∨ k = 175 := by omega
  rcases h with rfl | rfl | rfl | rfl | rfl | rfl | rfl | rfl | rfl | rfl | rfl | rfl | rfl | rfl | rfl | rfl
  · exact premulp3_k160
  · exact premulp3_k161
  · exact premulp3_k162
  · exact premulp3_k163
  · exact premulp3_k164
  · exact premulp3_k165
  · exact premulp3_k166
  · exact premulp3_k167
  · exact premulp3_k168
  · exact premulp3_k169
  · exact premulp3_k170
  · exact premulp3_k171
  · exact premulp3_k172
  · exact premulp3_k173
  · exact premulp3_k174
  · exact premulp3_k175

end Prism.C14
