import Prism.Check.C14

/-! Kernel-checked chunks (generated boiler-plate, see lib/gen_static.py). -/
namespace Prism.C14

theorem premulp3_k176 : premulChunk .p3 176 = true := by decide +kernel
theorem premulp3_k177 : premulChunk .p3 177 = true := by decide +kernel
theorem premulp3_k178 : premulChunk .p3 178 = true := by decide +kernel
theorem premulp3_k179 : premulChunk .p3 179 = true := by decide +kernel
theorem premulp3_k180 : premulChunk .p3 180 = true := by decide +kernel
theorem premulp3_k181 : premulChunk .p3 181 = true := by decide +kernel
theorem premulp3_k182 : premulChunk .p3 182 = true := by decide +kernel
theorem premulp3_k183 : premulChunk .p3 183 = true := by decide +kernel
theorem premulp3_k184 : premulChunk .p3 184 = true := by decide +kernel
theorem premulp3_k185 : premulChunk .p3 185 = true := by decide +kernel
theorem premulp3_k186 : premulChunk .p3 186 = true := by decide +kernel
theorem premulp3_k187 : premulChunk .p3 187 = true := by decide +kernel
theorem premulp3_k188 : premulChunk .p3 188 = true := by decide +kernel
theorem premulp3_k189 : premulChunk .p3 189 = true := by decide +kernel
theorem premulp3_k190 : premulChunk .p3 190 = true := by decide +kernel
theorem premulp3_k191 : premulChunk .p3 191 = true := by decide +kernel

theorem premulp3_file11 : ∀ k, 176 ≤ k → k < 192 → premulChunk .p3 k = true := by
  intro k h1 h2
  have h : k = 176 ∨ k = 177 ∨ k = 178 ∨ k = 179 ∨ k = 180 ∨ k = 181 ∨ k = 182 ∨ k = 183 ∨ k = 184 ∨ k = 185 ∨ k = 186 ∨ k = 187 ∨ k = 188 ∨ k = 189 ∨ k = 190 ∨ k = 191 := by omega
  rcases h with rfl | rfl | rfl | rfl | rfl | rfl | rfl | rfl | rfl | rfl | rfl | rfl | rfl | rfl | rfl | rfl
  · exact premulp3_k176
  · exact premulp3_k177
  · exact premulp3_k178
  · exact premulp3_k179
  · exact premulp3_k180
  · exact premulp3_k181
  · exact premulp3_k182
  · exact premulp3_k183
  · exact premulp3_k184
  · exact premulp3_k185
  · exact premulp3_k186
  · exact premulp3_k187
  · exact premulp3_k188
  · exact premulp3_k189
  · exact premulp3_k190
  · exact premulp3_k191

end Prism.C14
