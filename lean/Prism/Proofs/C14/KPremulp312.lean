import Prism.Check.C14

/-! Kernel-checked chunks (generated boiler-plate, see lib/gen_static.py). -/
namespace Prism.C14

theorem premulp3_k192 : premulChunk .p3 192 = true := by decide +kernel
theorem premulp3_k193 : premulChunk .p3 193 = true := by decide +kernel
theorem premulp3_k194 : premulChunk .p3 194 = true := by decide +kernel
theorem premulp3_k195 : premulChunk .p3 195 = true := by decide +kernel
theorem premulp3_k196 : premulChunk .p3 196 = true := by decide +kernel
theorem premulp3_k197 : premulChunk .p3 197 = true := by decide +kernel
theorem premulp3_k198 : premulChunk .p3 198 = true := by decide +kernel
theorem premulp3_k199 : premulChunk .p3 199 = true := by decide +kernel
theorem premulp3_k200 : premulChunk .p3 200 = true := by decide +kernel
theorem premulp3_k201 : premulChunk .p3 201 = true := by decide +kernel
theorem premulp3_k202 : premulChunk .p3 202 = true := by decide +kernel
theorem premulp3_k203 : premulChunk .p3 203 = true := by decide +kernel
theorem premulp3_k204 : premulChunk .p3 204 = true := by decide +kernel
theorem premulp3_k205 : premulChunk .p3 205 = true := by decide +kernel
theorem premulp3_k206 : premulChunk .p3 206 = true := by decide +kernel
theorem premulp3_k207 : premulChunk .p3 207 = true := by decide +kernel

theorem premulp3_file12 : ∀ k, 192 ≤ k → k < 208 → premulChunk .p3 k = true := by
  intro k h1 h2
  have h : k = 192 ∨ k = 193 ∨ k = 194 ∨ k = 195 ∨ k = 196 ∨ k = 197 ∨ k = 198 ∨ k = 199 ∨ k = 200 ∨ k = 201 ∨ k = 202 ∨ k = 203 ∨ k = 204 ∨ k = 205 ∨ k = 206 ∨ k = 207 := by omega
  rcases h with rfl | rfl | rfl | rfl | rfl | rfl | rfl | rfl | rfl | rfl | rfl | rfl | rfl | rfl | rfl | rfl
  · exact premulp3_k192
  · exact premulp3_k193
  · exact premulp3_k194
  · exact premulp3_k195
  · exact premulp3_k196
  · exact premulp3_k197
  · exact premulp3_k198
  · exact premulp3_k199
  · exact premulp3_k200
  · exact premulp3_k201
  · exact premulp3_k202
  · exact premulp3_k203
  · exact premulp3_k204
  · exact premulp3_k205
  · exact premulp3_k206
  · exact premulp3_k207

end Prism.C14
