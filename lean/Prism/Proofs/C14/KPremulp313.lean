import Prism.Check.C14

/-! Kernel-checked chunks (generated boiler-plate, see lib/gen_static.py). -/
namespace Prism.C14

theorem premulp3_k208 : premulChunk .p3 208 = true := by decide +kernel
theorem premulp3_k209 : premulChunk .p3 209 = true := by decide +kernel
theorem premulp3_k210 : premulChunk .p3 210 = true := by decide +kernel
theorem premulp3_k211 : premulChunk .p3 211 = true := by decide +kernel
theorem premulp3_k212 : premulChunk .p3 212 = true := by decide +kernel
theorem premulp3_k213 : premulChunk .p3 213 = true := by decide +kernel
theorem premulp3_k214 : premulChunk .p3 214 = true := by decide +kernel
theorem premulp3_k215 : premulChunk .p3 215 = true := by decide +kernel
theorem premulp3_k216 : premulChunk .p3 216 = true := by decide +kernel
theorem premulp3_k217 : premulChunk .p3 217 = true := by decide +kernel
theorem premulp3_k218 : premulChunk .p3 218 = true := by decide +kernel
theorem premulp3_k219 : premulChunk .p3 219 = true := by decide +kernel
theorem premulp3_k220 : premulChunk .p3 220 = true := by decide +kernel
theorem premulp3_k221 : premulChunk .p3 221 = true := by decide +kernel
theorem premulp3_k222 : premulChunk .p3 222 = true := by decide +kernel
theorem premulp3_k223 : premulChunk .p3 223 = true := by decide +kernel

theorem premulp3_file13 : ∀ k, 208 ≤ k → k < 224 → premulChunk .p3 k = true := by
  intro k h1 h2
  have h : k = 208 ∨ k = 209 ∨ k = 210 ∨ k = 211 ∨ k = 212 ∨ k = 213 ∨ k = 214 ∨ k = 215 ∨ k = 216 ∨ k = 217 ∨ k = 218 ∨ k = 219 ∨ k = 220 ∨ k = 221 ∨ k = 222 ∨ k = 223 := by omega
  rcases h with rfl | rfl | rfl | rfl | rfl | rfl | rfl | rfl | rfl | rfl | rfl | rfl | rfl | rfl | rfl | rfl
  · exact premulp3_k208
  · exact premulp3_k209
  · exact premulp3_k210
  · exact premulp3_k211
  · exact premulp3_k212
  · exact premulp3_k213
  · exact premulp3_k214
  · exact premulp3_k215
  · exact premulp3_k216
  · exact premulp3_k217
  · exact premulp3_k218
  · exact premulp3_k219
  · exact premulp3_k220
  · exact premulp3_k221
  · exact premulp3_k222
  · exact premulp3_k223

end Prism.C14
