import Prism.Check.C14

/-! Kernel-checked chunks (generated boiler-plate, see lib/gen_static.py). -/
namespace Prism.C14

theorem premulp3_k224 : premulChunk .p3 224 = true := by decide +kernel
theorem premulp3_k225 : premulChunk .p3 225 = true := by decide +kernel
theorem premulp3_k226 : premulChunk .p3 226 = true := by decide +kernel
theorem premulp3_k227 : premulChunk .p3 227 = true := by decide +kernel
theorem premulp3_k228 : premulChunk .p3 228 = true := by decide +kernel
theorem premulp3_k229 : premulChunk .p3 229 = true := by decide +kernel
theorem premulp3_k230 : premulChunk .p3 230 = true := by decide +kernel
theorem premulp3_k231 : premulChunk .p3 231 = true := by decide +kernel
theorem premulp3_k232 : premulChunk .p3 232 = true := by decide +kernel
theorem premulp3_k233 : premulChunk .p3 233 = true := by decide +kernel
theorem premulp3_k234 : premulChunk .p3 234 = true := by decide +kernel
theorem premulp3_k235 : premulChunk .p3 235 = true := by decide +kernel
theorem premulp3_k236 : premulChunk .p3 236 = true := by decide +kernel
theorem premulp3_k237 : premulChunk .p3 237 = true := by decide +kernel
theorem premulp3_k238 : premulChunk .p3 238 = true := by decide +kernel
theorem premulp3_k239 : premulChunk .p3 239 = true := by decide +kernel

theorem premulp3_file14 : ∀ k, 224 ≤ k → k < 240 → premulChunk .p3 k = true := by
  intro k h1 h2
  have h : k = 224 ∨ k = 225 ∨ k = 226 ∨ k = 227 ∨ k = 228 ∨ k = 229 ∨ k = 230 ∨ k = 231 ∨ k = 232 ∨ k = 233 ∨ k = 234 ∨ k = 235 ∨ k = 236 ∨ k = 237 ∨ k = 238 ∨ k = 239 := by omega
  rcases h with rfl | rfl | rfl | rfl | rfl | rfl | rfl | rfl | rfl | rfl | rfl | rfl | rfl | rfl | rfl | rfl
  · exact premulp3_k224
  · exact premulp3_k225
  · exact premulp3_k226
  · exact premulp3_k227
  · exact premulp3_k228
  · exact premulp3_k229
  · exact premulp3_k230
  · exact premulp3_k231
  · exact premulp3_k232
  · exact premulp3_k233
  · exact premulp3_k234
  · exact premulp3_k235
  · exact premulp3_k236
  · exact premulp3_k237
  · exact premulp3_k238
  · exact premulp3_k239

end Prism.C14
