import Prism.Check.C14

/-! Kernel-checked chunks (generated boiler-plate, see lib/gen_static.py). -/
namespace Prism.C14

theorem premulp3_k240 : premulChunk .p3 240 = true := by decide +kernel
theorem premulp3_k241 : premulChunk .p3 241 = true := by decide +kernel
theorem premulp3_k242 : premulChunk .p3 242 = true := by decide +kernel
theorem premulp3_k243 : premulChunk .p3 243 = true := by decide +kernel
theorem premulp3_k244 : premulChunk .p3 244 = true := by decide +kernel
theorem premulp3_k245 : premulChunk .p3 245 = true := by decide +kernel
theorem premulp3_k246 : premulChunk .p3 246 = true := by decide +kernel
theorem premulp3_k247 : premulChunk .p3 247 = true := by decide +kernel
theorem premulp3_k248 : premulChunk .p3 248 = true := by decide +kernel
theorem premulp3_k249 : premulChunk .p3 249 = true := by decide +kernel
theorem premulp3_k250 : premulChunk .p3 250 = true := by decide +kernel
theorem premulp3_k251 : premulChunk .p3 251 = true := by decide +kernel
theorem premulp3_k252 : premulChunk .p3 252 = true := by decide +kernel
theorem premulp3_k253 : premulChunk .p3 253 = true := by decide +kernel
theorem premulp3_k254 : premulChunk .p3 254 = true := by decide +kernel
theorem premulp3_k255 : premulChunk .p3 255 = true := by decide +kernel

theorem premulp3_file15 : ∀ k, 240 ≤ k → k < 256 → premulChunk .p3 k = true := by
  intro k h1 h2
  have h : k = 240 ∨ k = 241 ∨ k = 242 ∨ k = 243 ∨ k = 244 ∨ k = 245 ∨ k = 246 ∨ k = 247 ∨ k = 248 ∨ k = 249 ∨ k = 250 ∨ k = 251 ∨ k = 252 ∨ k = 253 ∨ k = 254 ∨ k = 255 := by omega
  rcases h with rfl | rfl | rfl | rfl | rfl | rfl | rfl | rfl | rfl | rfl | rfl | rfl | rfl | rfl | rfl | rfl
  · exact premulp3_k240
  · exact premulp3_k241
  · exact premulp3_k242
  · exact premulp3_k243
  · exact premulp3_k244
  · exact premulp3_k245
  · exact premulp3_k246
  · exact premulp3_k247
  · exact premulp3_k248
  · exact premulp3_k249
  · exact premulp3_k250
  · exact premulp3_k251
  · exact premulp3_k252
  · exact premulp3_k253
  · exact premulp3_k254
  · exact premulp3_k255

end Prism.C14
