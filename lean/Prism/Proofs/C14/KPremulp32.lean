import Prism.Check.C14

/-! Kernel-checked chunks (generated boiler-plate, see lib/gen_static.py). -/
namespace Prism.C14

theorem premulp3_k32 : premulChunk .p3 32 = true := by decide +kernel
theorem premulp3_k33 : premulChunk .p3 33 = true := by decide +kernel
theorem premulp3_k34 : premulChunk .p3 34 = true := by decide +kernel
theorem premulp3_k35 : premulChunk .p3 35 = true := by decide +kernel
theorem premulp3_k36 : premulChunk .p3 36 = true := by decide +kernel
theorem premulp3_k37 : premulChunk .p3 37 = true := by decide +kernel
theorem premulp3_k38 : premulChunk .p3 38 = true := by decide +kernel
theorem premulp3_k39 : premulChunk .p3 39 = true := by decide +kernel
theorem premulp3_k40 : premulChunk .p3 40 = true := by decide +kernel
theorem premulp3_k41 : premulChunk .p3 41 = true := by decide +kernel
theorem premulp3_k42 : premulChunk .p3 42 = true := by decide +kernel
theorem premulp3_k43 : premulChunk .p3 43 = true := by decide +kernel
theorem premulp3_k44 : premulChunk .p3 44 = true := by decide +kernel
theorem premulp3_k45 : premulChunk .p3 45 = true := by decide +kernel
theorem premulp3_k46 : premulChunk .p3 46 = true := by decide +kernel
theorem premulp3_k47 : premulChunk .p3 47 = true := by decide +kernel

theorem premulp3_file2 : ∀ k, 32 ≤ k → k < 48 → premulChunk .p3 k = true := by
  intro k h1 h2
  have h : k = 32 ∨ k = 33 ∨ k = 34 ∨ k = 35 ∨ k = 36 ∨ k = 37 ∨ k = 38 ∨ k = 39 ∨ k = 40 ∨ k = 41 ∨ k = 42 ∨ k = 43 ∨ k = 44 ∨ k = 45 ∨ k = 46 ∨ k = 47 := by omega
  rcases h with rfl | rfl | rfl | rfl | rfl | rfl | rfl | rfl | rfl | rfl | rfl | rfl | rfl | rfl | rfl | rfl
  · exact premulp3_k32
  · exact premulp3_k33
  · exact premulp3_k34
  · exact premulp3_k35
  · exact premulp3_k36
  · exact premulp3_k37
  · exact premulp3_k38
  · exact premulp3_k39
  · exact premulp3_k40
  · exact premulp3_k41
  · exact premulp3_k42
  · exact premulp3_k43
  · exact premulp3_k44
  · exact premulp3_k45
  · exact premulp3_k46
  · exact premulp3_k47

end Prism.C14
