import Prism.Check.C14

/-! Kernel-checked chunks (generated boiler-plate, see lib/gen_static.py). -/
namespace Prism.C14

theorem premulp3_k48 : premulChunk .p3 48 = true := by decide +kernel
theorem premulp3_k49 : premulChunk .p3 49 = true := by decide +kernel
theorem premulp3_k50 : premulChunk .p3 50 = true := by decide +kernel
theorem premulp3_k51 : premulChunk .p3 51 = true := by decide +kernel
theorem premulp3_k52 : premulChunk .p3 52 = true := by decide +kernel
theorem premulp3_k53 : premulChunk .p3 53 = true := by decide +kernel
theorem premulp3_k54 : premulChunk .p3 54 = true := by decide +kernel
theorem premulp3_k55 : premulChunk .p3 55 = true := by decide +kernel
theorem premulp3_k56 : premulChunk .p3 56 = true := by decide +kernel
theorem premulp3_k57 : premulChunk .p3 57 = true := by decide +kernel
theorem premulp3_k58 : premulChunk .p3 58 = true := by decide +kernel
theorem premulp3_k59 : premulChunk .p3 59 = true := by decide +kernel
theorem premulp3_k60 : premulChunk .p3 60 = true := by decide +kernel
theorem premulp3_k61 : premulChunk .p3 61 = true := by decide +kernel
theorem premulp3_k62 : premulChunk .p3 62 = true := by decide +kernel
theorem premulp3_k63 : premulChunk .p3 63 = true := by decide +kernel

theorem premulp3_file3 : ∀ k, 48 ≤ k → k < 64 → premulChunk .p3 k = true := by
  intro k h1 h2
  have h : k = 48 ∨ k = 49 ∨ k = 50 ∨ k = 51 ∨ k = 52 ∨ k = 53 ∨ k = 54 ∨ k = 55 ∨ k = 56 ∨ k = 57 ∨ k = 58 ∨ k = 59 ∨ k = 60 ∨ k = 61 ∨ k = 62 ∨ k = 63 := by omega
  rcases h with rfl | rfl | rfl | rfl | rfl | rfl | rfl | rfl | rfl | rfl | rfl | rfl | rfl | rfl | rfl | rfl
  · exact premulp3_k48
  · exact premulp3_k49
  · exact premulp3_k50
  · exact premulp3_k51
  · exact premulp3_k52
  · exact premulp3_k53
  · exact premulp3_k54
  · exact premulp3_k55
  · exact premulp3_k56
  · exact premulp3_k57
  · exact premulp3_k58
  · exact premulp3_k59
  · exact premulp3_k60
  · exact premulp3_k61
  · exact premulp3_k62
  · exact premulp3_k63

end Prism.C14
