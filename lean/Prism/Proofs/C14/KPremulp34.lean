import Prism.Check.C14

/-! Kernel-checked chunks (generated boiler-plate, see lib/gen_static.py). -/
namespace Prism.C14

theorem premulp3_k64 : premulChunk .p3 64 = true := by decide +kernel
theorem premulp3_k65 : premulChunk .p3 65 = true := by decide +kernel
theorem premulp3_k66 : premulChunk .p3 66 = true := by decide +kernel
theorem premulp3_k67 : premulChunk .p3 67 = true := by decide +kernel
theorem premulp3_k68 : premulChunk .p3 68 = true := by decide +kernel
theorem premulp3_k69 : premulChunk .p3 69 = true := by decide +kernel
theorem premulp3_k70 : premulChunk .p3 70 = true := by decide +kernel
theorem premulp3_k71 : premulChunk .p3 71 = true := by decide +kernel
theorem premulp3_k72 : premulChunk .p3 72 = true := by decide +kernel
theorem premulp3_k73 : premulChunk .p3 73 = true := by decide +kernel
theorem premulp3_k74 : premulChunk .p3 74 = true := by decide +kernel
theorem premulp3_k75 : premulChunk .p3 75 = true := by decide +kernel
theorem premulp3_k76 : premulChunk .p3 76 = true := by decide +kernel
theorem premulp3_k77 : premulChunk .p3 77 = true := by decide +kernel
theorem premulp3_k78 : premulChunk .p3 78 = true := by decide +kernel
theorem premulp3_k79 : premulChunk .p3 79 = true := by decide +kernel

theorem premulp3_file4 : ∀ k, 64 ≤ k → k < 80 → premulChunk .p3 k = true := by
  intro k h1 h2
  have h : k = 64 ∨ k = 65 ∨ k = 66 ∨ k = 67 ∨ k = 68 ∨ k = 69 ∨ k = 70 ∨ k = 71 ∨ k = 72 ∨ k = 73 ∨ k = 74 ∨ k = 75 ∨ k = 76 ∨ k = 77 ∨ k = 78 ∨ k = 79 := by omega
  rcases h with rfl | rfl | rfl | rfl | rfl | rfl | rfl | rfl | rfl | rfl | rfl | rfl | rfl | rfl | rfl | rfl
  · exact premulp3_k64
  · exact premulp3_k65
  · exact premulp3_k66
  · exact premulp3_k67
  · exact premulp3_k68
  · exact premulp3_k69
  · exact premulp3_k70
  · exact premulp3_k71
  · exact premulp3_k72
  · exact premulp3_k73
  · exact premulp3_k74
  · exact premulp3_k75
  · exact premulp3_k76
  · exact premulp3_k77
  · exact premulp3_k78
  · exact premulp3_k79

end Prism.C14
