import Prism.Check.C14

/-! Kernel-checked chunks (generated boiler-plate, see lib/gen_static.py). -/
namespace Prism.C14

theorem premulp3_k80 : premulChunk .p3 80 = true := by decide +kernel
theorem premulp3_k81 : premulChunk .p3 81 = true := by decide +kernel
theorem premulp3_k82 : premulChunk .p3 82 = true := by decide +kernel
theorem premulp3_k83 : premulChunk .p3 83 = true := by decide +kernel
theorem premulp3_k84 : premulChunk .p3 84 = true := by decide +kernel
theorem premulp3_k85 : premulChunk .p3 85 = true := by decide +kernel
theorem premulp3_k86 : premulChunk .p3 86 = true := by decide +kernel
theorem premulp3_k87 : premulChunk .p3 87 = true := by decide +kernel
theorem premulp3_k88 : premulChunk .p3 88 = true := by decide +kernel
theorem premulp3_k89 : premulChunk .p3 89 = true := by decide +kernel
theorem premulp3_k90 : premulChunk .p3 90 = true := by decide +kernel
theorem premulp3_k91 : premulChunk .p3 91 = true := by decide +kernel
theorem premulp3_k92 : premulChunk .p3 92 = true := by decide +kernel
theorem premulp3_k93 : premulChunk .p3 93 = true := by decide +kernel
theorem premulp3_k94 : premulChunk .p3 94 = true := by decide +kernel
theorem premulp3_k95 : premulChunk .p3 95 = true := by decide +kernel

theorem premulp3_file5 : ∀ k, 80 ≤ k → k < 96 → premulChunk .p3 k = true := by
  intro k h1 h2
  have h : k = 80 ∨ k = 81 ∨ k = 82 ∨ k = 83 ∨ k = 84 ∨ k = 85 ∨ k = 86 ∨ k = 87 ∨ k = 88 ∨ k = 89 ∨ k = 90 ∨ k = 91 ∨ k = 92 ∨ k = 93 ∨ k = 94 ∨ k = 95 := by omega
  rcases h with rfl | rfl | rfl | rfl | rfl | rfl | rfl | rfl | rfl | rfl | rfl | rfl | rfl | rfl | rfl | rfl
  · exact premulp3_k80
  · exact premulp3_k81
  · exact premulp3_k82
  · exact premulp3_k83
  · exact premulp3_k84
  · exact premulp3_k85
  · exact premulp3_k86
  · exact premulp3_k87
  · exact premulp3_k88
  · exact premulp3_k89
  · exact premulp3_k90
  · exact premulp3_k91
  · exact premulp3_k92
  · exact premulp3_k93
  · exact premulp3_k94
  · exact premulp3_k95

end Prism.C14
