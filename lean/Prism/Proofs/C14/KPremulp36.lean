import Prism.Check.C14

/-! Kernel-checked chunks (generated boiler-plate, see lib/gen_static.py). -/
namespace Prism.C14

theorem premulp3_k96 : premulChunk .p3 96 = true := by decide +kernel
theorem premulp3_k97 : premulChunk .p3 97 = true := by decide +kernel
theorem premulp3_k98 : premulChunk .p3 98 = true := by decide +kernel
theorem premulp3_k99 : premulChunk .p3 99 = true := by decide +kernel
theorem premulp3_k100 : premulChunk .p3 100 = true := by decide +kernel
theorem premulp3_k101 : premulChunk .p3 101 = true := by decide +kernel
theorem premulp3_k102 : premulChunk .p3 102 = true := by decide +kernel
theorem premulp3_k103 : premulChunk .p3 103 = true := by decide +kernel
theorem premulp3_k104 : premulChunk .p3 104 = true := by decide +kernel
theorem premulp3_k105 : premulChunk .p3 105 = true := by decide +kernel
theorem premulp3_k106 : premulChunk .p3 106 = true := by decide +kernel
theorem premulp3_k107 : premulChunk .p3 107 = true := by decide +kernel
theorem premulp3_k108 : premulChunk .p3 108 = true := by decide +kernel
theorem premulp3_k109 : premulChunk .p3 109 = true := by decide +kernel
theorem premulp3_k110 : premulChunk .p3 110 = true := by decide +kernel
theorem premulp3_k111 : premulChunk .p3 111 = true := by decide +kernel

theorem premulp3_file6 : ∀ k, 96 ≤ k → k < 112 → premulChunk .p3 k = true := by
  intro k h1 h2
  have h : k = 96 ∨ k = 97 ∨ k = 98 ∨ k = 99 ∨ k = 100 ∨ k = 101 ∨ k = 102 ∨ k = 103 ∨ k = 104 ∨ k = 105 ∨ k = 106 ∨ k = 107 ∨ k = 108 ∨ k = 109 ∨ k = 110 ∨ k = 111 := by omega
  rcases h with rfl | rfl | rfl | rfl | rfl | rfl | rfl | rfl | rfl | rfl | rfl | rfl | rfl | rfl | rfl | rfl
  · exact premulp3_k96
  · exact premulp3_k97
  · exact premulp3_k98
  · exact premulp3_k99
  · exact premulp3_k100
  · exact premulp3_k101
  · exact premulp3_k102
  · exact premulp3_k103
  · exact premulp3_k104
  · exact premulp3_k105
  · exact premulp3_k106
  · exact premulp3_k107
  · exact premulp3_k108
  · exact premulp3_k109
  · exact premulp3_k110
  · exact premulp3_k111

end Prism.C14
