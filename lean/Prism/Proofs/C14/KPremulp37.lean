import Prism.Check.C14

/-! Kernel-checked chunks (generated boiler-plate, see lib/gen_static.py). -/
namespace Prism.C14

theorem premulp3_k112 : premulChunk .p3 112 = true := by decide +kernel
theorem premulp3_k113 : premulChunk .p3 113 = true := by decide +kernel
theorem premulp3_k114 : premulChunk .p3 114 = true := by decide +kernel
theorem premulp3_k115 : premulChunk .p3 115 = true := by decide +kernel
theorem premulp3_k116 : premulChunk .p3 116 = true := by decide +kernel
theorem premulp3_k117 : premulChunk .p3 117 = true := by decide +kernel
theorem premulp3_k118 : premulChunk .p3 118 = true := by decide +kernel
theorem premulp3_k119 : premulChunk .p3 119 = true := by decide +kernel
theorem premulp3_k120 : premulChunk .p3 120 = true := by decide +kernel
theorem premulp3_k121 : premulChunk .p3 121 = true := by decide +kernel
theorem premulp3_k122 : premulChunk .p3 122 = true := by decide +kernel
theorem premulp3_k123 : premulChunk .p3 123 = true := by decide +kernel
theorem premulp3_k124 : premulChunk .p3 124 = true := by decide +kernel
theorem premulp3_k125 : premulChunk .p3 125 = true := by decide +kernel
theorem premulp3_k126 : premulChunk .p3 126 = true := by decide +kernel
theorem premulp3_k127 : premulChunk .p3 127 = true := by decide +kernel

theorem premulp3_file7 : ∀ k, 112 ≤ k → k < 128 → premulChunk .p3 k = true := by
  intro k h1 h2
  have h : k = 112 ∨ k = 113 ∨ k = 114 ∨ k = 115 ∨ k = 116 ∨ k = 117 ∨ k = 118 ∨ k = 119 ∨ k = 120 ∨ k = 121 ∨ k = 122 ∨ k = 123 ∨ k = 124 ∨ k = 125 ∨ k = 126 ∨ k = 127 := by omega
  rcases h with rfl | rfl | rfl | rfl | rfl | rfl | rfl | rfl | rfl | rfl | rfl | rfl | rfl | rfl | rfl | rfl
  · exact premulp3_k112
  · exact premulp3_k113
  · exact premulp3_k114
  · exact premulp3_k115
  · exact premulp3_k116
  · exact premulp3_k117
  · exact premulp3_k118
  · exact premulp3_k119
  · exact premulp3_k120
  · exact premulp3_k121
  · exact premulp3_k122
  · exact premulp3_k123
  · exact premulp3_k124
  · exact premulp3_k125
  · exact premulp3_k126
  · exact premulp3_k127

end Prism.C14
