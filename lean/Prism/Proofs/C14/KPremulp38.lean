import Prism.Check.C14

/-! Kernel-checked chunks (generated boiler-plate, see lib/gen_static.py). -/
namespace Prism.C14

theorem premulp3_k128 : premulChunk .p3 128 = true := by decide +kernel
theorem premulp3_k129 : premulChunk .p3 129 = true := by decide +kernel
theorem premulp3_k130 : premulChunk .p3 130 = true := by decide +kernel
theorem premulp3_k131 : premulChunk .p3 131 = true := by decide +kernel
theorem premulp3_k132 : premulChunk .p3 132 = true := by decide +kernel
theorem premulp3_k133 : premulChunk .p3 133 = true := by decide +kernel
theorem premulp3_k134 : premulChunk .p3 134 = true := by decide +kernel
theorem premulp3_k135 : premulChunk .p3 135 = true := by decide +kernel
theorem premulp3_k136 : premulChunk .p3 136 = true := by decide +kernel
theorem premulp3_k137 : premulChunk .p3 137 = true := by decide +kernel
theorem premulp3_k138 : premulChunk .p3 138 = true := by decide +kernel
theorem premulp3_k139 : premulChunk .p3 139 = true := by decide +kernel
theorem premulp3_k140 : premulChunk .p3 140 = true := by decide +kernel
theorem premulp3_k141 : premulChunk .p3 141 = true := by decide +kernel
theorem premulp3_k142 : premulChunk .p3 142 = true := by decide +kernel
theorem premulp3_k143 : premulChunk .p3 143 = true := by decide +kernel

theorem premulp3_file8 : ∀ k, 128 ≤ k → k < 144 → premulChunk .p3 k = true := by
  intro k h1 h2
  have h : k = 128 ∨ k = 129 ∨ k = 130 ∨ k = 131 ∨ k = 132 ∨ k = 133 ∨ k = 134 ∨ k = 135 ∨ k = 136 ∨ k = 137 ∨ k = 138 ∨ k = 139 ∨ k = 140 ∨ k = 141 ∨ k = 142 ∨ k = 143 := by omega
  rcases h with rfl | rfl | rfl | rfl | rfl | rfl | rfl | rfl | rfl | rfl | rfl | rfl | rfl | rfl | rfl | rfl
  · exact premulp3_k128
  · exact premulp3_k129
  · exact premulp3_k130
  · exact premulp3_k131
  · exact premulp3_k132
  · exact premulp3_k133
  · exact premulp3_k134
  · exact premulp3_k135
  · exact premulp3_k136
  · exact premulp3_k137
  · exact premulp3_k138
  · exact premulp3_k139
  · exact premulp3_k140
  · exact premulp3_k141
  · exact premulp3_k142
  · exact premulp3_k143

end Prism.C14
