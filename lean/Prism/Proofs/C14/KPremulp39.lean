import Prism.Check.C14

/-! Kernel-checked chunks (generated boiler-plate, see lib/gen_static.py). -/
namespace Prism.C14

theorem premulp3_k144 : premulChunk .p3 144 = true := by decide +kernel
theorem premulp3_k145 : premulChunk .p3 145 = true := by decide +kernel
theorem premulp3_k146 : premulChunk .p3 146 = true := by decide +kernel
theorem premulp3_k147 : premulChunk .p3 147 = true := by decide +kernel
theorem premulp3_k148 : premulChunk .p3 148 = true := by decide +kernel
theorem premulp3_k149 : premulChunk .p3 149 = true := by decide +kernel
theorem premulp3_k150 : premulChunk .p3 150 = true := by decide +kernel
theorem premulp3_k151 : premulChunk .p3 151 = true := by decide +kernel
theorem premulp3_k152 : premulChunk .p3 152 = true := by decide +kernel
theorem premulp3_k153 : premulChunk .p3 153 = true := by decide +kernel
theorem premulp3_k154 : premulChunk .p3 154 = true := by decide +kernel
theorem premulp3_k155 : premulChunk .p3 155 = true := by decide +kernel
theorem premulp3_k156 : premulChunk .p3 156 = true := by decide +kernel
theorem premulp3_k157 : premulChunk .p3 157 = true := by decide +kernel
theorem premulp3_k158 : premulChunk .p3 158 = true := by decide +kernel
theorem premulp3_k159 : premulChunk .p3 159 = true := by decide +kernel

theorem premulp3_file9 : ∀ k, 144 ≤ k → k < 160 → premulChunk .p3 k = true := by
  intro k h1 h2
  have h : k = 144 ∨ k = 145 ∨ k = 146 ∨ k = 147 ∨ k = 148 ∨ k = 149 ∨ k = 150 ∨ k = 151 ∨ k = 152 ∨ k = 153 ∨ k = 154 ∨ k = 155 ∨ k = 156 ∨ k = 157 ∨ k = 158 ∨ k = 159 := by omega
  rcases h with rfl | rfl | rfl | rfl | rfl | rfl | rfl | rfl | rfl | rfl | rfl | rfl | rfl | rfl | rfl | rfl
  · exact premulp3_k144
  · exact premulp3_k145
  · exact premulp3_k146
  · exact premulp3_k147
  · exact premulp3_k148
  · exact premulp3_k149
  · exact premulp3_k150
  · exact premulp3_k151
  · exact premulp3_k152
  · exact premulp3_k153
  · exact premulp3_k154
  · exact premulp3_k155
  · exact premulp3_k156
  · exact premulp3_k157
  · exact premulp3_k158
  · exact premulp3_k159

end Prism.C14
