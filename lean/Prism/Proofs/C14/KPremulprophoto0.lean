import Prism.Check.C14

/-! Kernel-checked chunks (generated boiler-plate, see lib/gen_static.py). -/
namespace Prism.C14

theorem premulprophoto_k0 : premulChunk .prophoto 0 = true := by decide +kernel
theorem premulprophoto_k1 : premulChunk .prophoto 1 = true := by decide +kernel
theorem premulprophoto_k2 : premulChunk .prophoto 2 = true := by decide +kernel
theorem premulprophoto_k3 : premulChunk .prophoto 3 = true := by decide +kernel
theorem premulprophoto_k4 : premulChunk .prophoto 4 = true := by decide +kernel
theorem premulprophoto_k5 : premulChunk .prophoto 5 = true := by decide +kernel
theorem premulprophoto_k6 : premulChunk .prophoto 6 = true := by decide +kernel
theorem premulprophoto_k7 : premulChunk .prophoto 7 = true := by decide +kernel
theorem premulprophoto_k8 : premulChunk .prophoto 8 = true := by decide +kernel
theorem premulprophoto_k9 : premulChunk .prophoto 9 = true := by decide +kernel
theorem premulprophoto_k10 : premulChunk .prophoto 10 = true := by decide +kernel
theorem premulprophoto_k11 : premulChunk .prophoto 11 = true := by decide +kernel
theorem premulprophoto_k12 : premulChunk .prophoto 12 = true := by decide +kernel
theorem premulprophoto_k13 : premulChunk .prophoto 13 = true := by decide +kernel
theorem premulprophoto_k14 : premulChunk .prophoto 14 = true := by decide +kernel
theorem premulprophoto_k15 : premulChunk .prophoto 15 = true := by decide +kernel

theorem premulprophoto_file0 : ∀ k, 0 ≤ k → k < 16 → premulChunk .prophoto k = true := by
  intro k h1 h2
  have h : k = 0 ∨ k = 1 ∨ k = 2 ∨ k = 3 ∨ k = 4 ∨ k = 5 ∨ k = 6 ∨ k = 7 ∨ k = 8 ∨ k = 9 ∨ k = 10 ∨ k = 11 ∨ k = 12 ∨ k = 13 ∨ k = 14 ∨ k = 15 := by omega
  rcases h with rfl | rfl | rfl | rfl | rfl | rfl | rfl | rfl | rfl | rfl | rfl | rfl | rfl | rfl | rfl | rfl
  · exact premulprophoto_k0
  · exact premulprophoto_k1
  · exact premulprophoto_k2
  · exact premulprophoto_k3
  · exact premulprophoto_k4
  · exact premulprophoto_k5
  · exact premulprophoto_k6
  · exact premulprophoto_k7
  · exact premulprophoto_k8
  · exact premulprophoto_k9
  · exact premulprophoto_k10
  · exact premulprophoto_k11
  · exact premulprophoto_k12
  · exact premulprophoto_k13
  · exact premulprophoto_k14
  · exact premulprophoto_k15

end Prism.C14
