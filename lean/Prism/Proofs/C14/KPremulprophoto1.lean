import Prism.Check.C14

/-! Kernel-checked chunks (generated boiler-plate, see lib/gen_static.py). -/
namespace Prism.C14

theorem premulprophoto_k16 : premulChunk .prophoto 16 = true := by decide +kernel
theorem premulprophoto_k17 : premulChunk .prophoto 17 = true := by decide +kernel
theorem premulprophoto_k18 : premulChunk .prophoto 18 = true := by decide +kernel
theorem premulprophoto_k19 : premulChunk .prophoto 19 = true := by decide +kernel
theorem premulprophoto_k20 : premulChunk .prophoto 20 = true := by decide +kernel
theorem premulprophoto_k21 : premulChunk .prophoto 21 = true := by decide +kernel
theorem premulprophoto_k22 : premulChunk .prophoto 22 = true := by decide +kernel
theorem premulprophoto_k23 : premulChunk .prophoto 23 = true := by decide +kernel
theorem premulprophoto_k24 : premulChunk .prophoto 24 = true := by decide +kernel
theorem premulprophoto_k25 : premulChunk .prophoto 25 = true := by decide +kernel
theorem premulprophoto_k26 : premulChunk .prophoto 26 = true := by decide +kernel
theorem premulprophoto_k27 : premulChunk .prophoto 27 = true := by decide +kernel
theorem premulprophoto_k28 : premulChunk .prophoto 28 = true := by decide +kernel
theorem premulprophoto_k29 : premulChunk .prophoto 29 = true := by decide +kernel
theorem premulprophoto_k30 : premulChunk .prophoto 30 = true := by decide +kernel
theorem premulprophoto_k31 : premulChunk .prophoto 31 = true := by decide +kernel

theorem premulprophoto_file1 : ∀ k, 16 ≤ k → k < 32 → premulChunk .prophoto k = true := by
  intro k h1 h2
  have h : k = 16 ∨ k = 17 ∨ k = 18 ∨ k = 19 ∨ k = 20 ∨ k = 21 ∨ k = 22 ∨ k = 23 ∨ k = 24 ∨ k = 25 ∨ k = 26 ∨ k = 27 ∨ k = 28 ∨ k = 29 ∨ k = 30 ∨ k = 31 := by omega
  rcases h with rfl | rfl | rfl | rfl | rfl | rfl | rfl | rfl | rfl | rfl | rfl | rfl | rfl | rfl | rfl | rfl
  · exact premulprophoto_k16
  · exact premulprophoto_k17
  · exact premulprophoto_k18
  · exact premulprophoto_k19
  · exact premulprophoto_k20
  · exact premulprophoto_k21
  · exact premulprophoto_k22
  · exact premulprophoto_k23
  · exact premulprophoto_k24
  · exact premulprophoto_k25
  · exact premulprophoto_k26
  · exact premulprophoto_k27
  · exact premulprophoto_k28
  · exact premulprophoto_k29
  · exact premulprophoto_k30
  · exact premulprophoto_k31

end Prism.C14
