import Prism.Check.C14

/-! Kernel-checked chunks (generated boiler-plate, see lib/gen_static.py). -/
namespace Prism.C14

theorem premulprophoto_k160 : premulChunk .prophoto 160 = true := by decide +kernel
theorem premulprophoto_k161 : premulChunk .prophoto 161 = true := by decide +kernel
theorem premulprophoto_k162 : premulChunk .prophoto 162 = true := by decide +kernel
theorem premulprophoto_k163 : premulChunk .prophoto 163 = true := by decide +kernel
theorem premulprophoto_k164 : premulChunk .prophoto 164 = true := by decide +kernel
theorem premulprophoto_k165 : premulChunk .prophoto 165 = true := by decide +kernel
theorem premulprophoto_k166 : premulChunk .prophoto 166 = true := by decide +kernel
theorem premulprophoto_k167 : premulChunk .prophoto 167 = true := by decide +kernel
theorem premulprophoto_k168 : premulChunk .prophoto 168 = true := by decide +kernel
theorem premulprophoto_k169 : premulChunk .prophoto 169 = true := by decide +kernel
theorem premulprophoto_k170 : premulChunk .prophoto 170 = true := by decide +kernel
theorem premulprophoto_k171 : premulChunk .prophoto 171 = true := by decide +kernel
theorem premulprophoto_k172 : premulChunk .prophoto 172 = true := by decide +kernel
theorem premulprophoto_k173 : premulChunk .prophoto 173 = true := by decide +kernel
theorem premulprophoto_k174 : premulChunk .prophoto 174 = true := by decide +kernel
theorem premulprophoto_k175 : premulChunk .prophoto 175 = true := by decide +kernel

theorem premulprophoto_file10 : ∀ k, 160 ≤ k → k < 176 → premulChunk .prophoto k = true := by
  intro k h1 h2
  have h : k = 160 ∨ k = 161 ∨ k = 162 ∨ k = 163 ∨ k = 164 ∨ k = 165 ∨ k = 166 ∨ k = 167 ∨ k = 168 ∨ k = 169 ∨ k = 170 ∨ k = 171 ∨ k = 172 ∨ k = 173 ∨ k = 174 ∨ k = 175 := by omega
  rcases h with rfl | rfl | rfl | rfl | rfl | rfl | rfl | rfl | rfl | rfl | rfl | rfl | rfl | rfl | rfl | rfl
  · exact premulprophoto_k160
  · exact premulprophoto_k161
  · exact premulprophoto_k162
  · exact premulprophoto_k163
  · exact premulprophoto_k164
  · exact premulprophoto_k165
  · exact premulprophoto_k166
  · exact premulprophoto_k167
  · exact premulprophoto_k168
  · exact premulprophoto_k169
  · exact premulprophoto_k170
  · exact premulprophoto_k171
  · exact premulprophoto_k172
  · exact premulprophoto_k173
  · exact premulprophoto_k174
  · exact premulprophoto_k175

end Prism.C14
