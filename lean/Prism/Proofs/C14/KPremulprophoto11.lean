import Prism.Check.C14

/-! Kernel-checked chunks (generated boiler-plate, see lib/gen_static.py). -/
namespace Prism.C14

theorem premulprophoto_k176 : premulChunk .prophoto 176 = true := by decide +kernel
theorem premulprophoto_k177 : premulChunk .prophoto 177 = true := by decide +kernel
theorem premulprophoto_k178 : premulChunk .prophoto 178 = true := by decide +kernel
theorem premulprophoto_k179 : premulChunk .prophoto 179 = true := by decide +kernel
theorem premulprophoto_k180 : premulChunk .prophoto 180 = true := by decide +kernel
theorem premulprophoto_k181 : premulChunk .prophoto 181 = true := by decide +kernel
theorem premulprophoto_k182 : premulChunk .prophoto 182 = true := by decide +kernel
theorem premulprophoto_k183 : premulChunk .prophoto 183 = true := by decide +kernel
theorem premulprophoto_k184 : premulChunk .prophoto 184 = true := by decide +kernel
theorem premulprophoto_k185 : premulChunk .prophoto 185 = true := by decide +kernel
theorem premulprophoto_k186 : premulChunk .prophoto 186 = true := by decide +kernel
theorem premulprophoto_k187 : premulChunk .prophoto 187 = true := by decide +kernel
theorem premulprophoto_k188 : premulChunk .prophoto 188 = true := by decide +kernel
theorem premulprophoto_k189 : premulChunk .prophoto 189 = true := by decide +kernel
theorem premulprophoto_k190 : premulChunk .prophoto 190 = true := by decide +kernel
theorem premulprophoto_k191 : premulChunk .prophoto 191 = true := by decide +kernel

theorem premulprophoto_file11 : ∀ k, 176 ≤ k → k < 192 → premulChunk .prophoto k = true := by
  intro k h1 h2
  have h : k = 176 ∨ k = 177 ∨ k = 178 ∨ k = 179 ∨ k = 180 ∨ k = 181 ∨ k = 182 ∨ k = 183 ∨ k = 184 ∨ k = 185 ∨ k = 186 ∨ k = 187 ∨ k = 188 ∨ k = 189 ∨ k = 190 ∨ k = 191 := by omega
  rcases h with rfl | rfl | rfl | rfl | rfl | rfl | rfl | rfl | rfl | rfl | rfl | rfl | rfl | rfl | rfl | rfl
  · exact premulprophoto_k176
  · exact premulprophoto_k177
  · exact premulprophoto_k178
  · exact premulprophoto_k179
  · exact premulprophoto_k180
  · exact premulprophoto_k181
  · exact premulprophoto_k182
  · exact premulprophoto_k183
  · exact premulprophoto_k184
  · exact premulprophoto_k185
  · exact premulprophoto_k186
  · exact premulprophoto_k187
  · exact premulprophoto_k188
  · exact premulprophoto_k189
  · exact premulprophoto_k190
  · exact premulprophoto_k191

end Prism.C14
