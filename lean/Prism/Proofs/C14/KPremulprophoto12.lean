import Prism.Check.C14

/-! Kernel-checked chunks (generated boiler-plate, see lib/gen_static.py). -/
namespace Prism.C14

theorem premulprophoto_k192 : premulChunk .prophoto 192 = true := by decide +kernel
theorem premulprophoto_k193 : premulChunk .prophoto 193 = true := by decide +kernel
theorem premulprophoto_k194 : premulChunk .prophoto 194 = true := by decide +kernel
theorem premulprophoto_k195 : premulChunk .prophoto 195 = true := by decide +kernel
theorem premulprophoto_k196 : premulChunk .prophoto 196 = true := by decide +kernel
theorem premulprophoto_k197 : premulChunk .prophoto 197 = true := by decide +kernel
theorem premulprophoto_k198 : premulChunk .prophoto 198 = true := by decide +kernel
theorem premulprophoto_k199 : premulChunk .prophoto 199 = true := by decide +kernel
theorem premulprophoto_k200 : premulChunk .prophoto 200 = true := by decide +kernel
theorem premulprophoto_k201 : premulChunk .prophoto 201 = true := by decide +kernel
theorem premulprophoto_k202 : premulChunk .prophoto 202 = true := by decide +kernel
theorem premulprophoto_k203 : premulChunk .prophoto 203 = true := by decide +kernel
theorem premulprophoto_k204 : premulChunk .prophoto 204 = true := by decide +kernel
theorem premulprophoto_k205 : premulChunk .prophoto 205 = true := by decide +kernel
theorem premulprophoto_k206 : premulChunk .prophoto 206 = true := by decide +kernel
theorem premulprophoto_k207 : premulChunk .prophoto 207 = true := by decide +kernel

theorem premulprophoto_file12 : ∀ k, 192 ≤ k → k < 208 → premulChunk .prophoto k = true := by
  intro k h1 h2
  have h : k = 192 ∨ k = 193 ∨ k = 194 ∨ k = 195 ∨ k = 196 ∨ k = 197 ∨ k = 198 ∨ k = 199 ∨ k = 200 ∨ k = 201 ∨ k = 202 ∨ k = 203 ∨ k = 204 ∨ k = 205 ∨ k = 206 ∨ k = 207 := by omega
  rcases h with rfl | rfl | rfl | rfl | rfl | rfl | rfl | rfl | rfl | rfl | rfl | rfl | rfl | rfl | rfl | rfl
  · exact premulprophoto_k192
  · exact premulprophoto_k193
  · exact premulprophoto_k194
  · exact premulprophoto_k195
  · exact premulprophoto_k196
  · exact premulprophoto_k197
  · exact premulprophoto_k198
  · exact premulprophoto_k199
  · exact premulprophoto_k200
  · exact premulprophoto_k201
  · exact premulprophoto_k202
  · exact premulprophoto_k203
  · exact premulprophoto_k204
  · exact premulprophoto_k205
  · exact premulprophoto_k206
  · exact premulprophoto_k207

end Prism.C14
