import Prism.Check.C14

/-! Kernel-checked chunks (generated boiler-plate, see lib/gen_static.py). -/
namespace Prism.C14

theorem premulprophoto_k208 : premulChunk .prophoto 208 = true := by decide +kernel
theorem premulprophoto_k209 : premulChunk .prophoto 209 = true := by decide +kernel
theorem premulprophoto_k210 : premulChunk .prophoto 210 = true := by decide +kernel
theorem premulprophoto_k211 : premulChunk .prophoto 211 = true := by decide +kernel
theorem premulprophoto_k212 : premulChunk .prophoto 212 = true := by decide +kernel
theorem premulprophoto_k213 : premulChunk .prophoto 213 = true := by decide +kernel
theorem premulprophoto_k214 : premulChunk .prophoto 214 = true := by decide +kernel
theorem premulprophoto_k215 : premulChunk .prophoto 215 = true := by decide +kernel
theorem premulprophoto_k216 : premulChunk .prophoto 216 = true := by decide +kernel
theorem premulprophoto_k217 : premulChunk .prophoto 217 = true := by decide +kernel
theorem premulprophoto_k218 : premulChunk .prophoto 218 = true := by decide +kernel
theorem premulprophoto_k219 : premulChunk .prophoto 219 = true := by decide +kernel
theorem premulprophoto_k220 : premulChunk .prophoto 220 = true := by decide +kernel
theorem premulprophoto_k221 : premulChunk .prophoto 221 = true := by decide +kernel
theorem premulprophoto_k222 : premulChunk .prophoto 222 = true := by decide +kernel
theorem premulprophoto_k223 : premulChunk .prophoto 223 = true := by decide +kernel

theorem premulprophoto_file13 : ∀ k, 208 ≤ k → k < 224 → premulChunk .prophoto k = true := by
  intro k h1 h2
  have h : k = 208 ∨ k = 209 ∨ k = 210 ∨ k = 211 ∨ k = 212 ∨ k = 213 ∨ k = 214 ∨ k = 215 ∨ k = 216 ∨ k = 217 ∨ k = 218 ∨ k = 219 ∨ k = 220 ∨ k = 221 ∨ k = 222 ∨ k = 223 := by omega
  rcases h with rfl | rfl | rfl | rfl | rfl | rfl | rfl | rfl | rfl | rfl | rfl | rfl | rfl | rfl | rfl | rfl
  · exact premulprophoto_k208
  · exact premulprophoto_k209
  · exact premulprophoto_k210
  · exact premulprophoto_k211
  · exact premulprophoto_k212
  · exact premulprophoto_k213
  · exact premulprophoto_k214
  · exact premulprophoto_k215
  · exact premulprophoto_k216
  · exact premulprophoto_k217
  · exact premulprophoto_k218
  · exact premulprophoto_k219
  · exact premulprophoto_k220
  · exact premulprophoto_k221
  · exact premulprophoto_k222
  · exact premulprophoto_k223

end Prism.C14
