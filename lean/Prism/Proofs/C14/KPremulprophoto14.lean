import Prism.Check.C14

/-! Kernel-checked chunks (generated boiler-plate, see lib/gen_static.py). -/
namespace Prism.C14

theorem premulprophoto_k224 : premulChunk .prophoto 224 = true := by decide +kernel
theorem premulprophoto_k225 : premulChunk .prophoto 225 = true := by decide +kernel
theorem premulprophoto_k226 : premulChunk .prophoto 226 = true := by decide +kernel
theorem premulprophoto_k227 : premulChunk .prophoto 227 = true := by decide +kernel
theorem premulprophoto_k228 : premulChunk .prophoto 228 = true := by decide +kernel
theorem premulprophoto_k229 : premulChunk .prophoto 229 = true := by decide +kernel
theorem premulprophoto_k230 : premulChunk .prophoto 230 = true := by decide +kernel
theorem premulprophoto_k231 : premulChunk .prophoto 231 = true := by decide +kernel
theorem premulprophoto_k232 : premulChunk .prophoto 232 = true := by decide +kernel
theorem premulprophoto_k233 : premulChunk .prophoto 233 = true := by decide +kernel
theorem premulprophoto_k234 : premulChunk .prophoto 234 = true := by decide +kernel
theorem premulprophoto_k235 : premulChunk .prophoto 235 = true := by decide +kernel
theorem premulprophoto_k236 : premulChunk .prophoto 236 = true := by decide +kernel
theorem premulprophoto_k237 : premulChunk .prophoto 237 = true := by decide +kernel
theorem premulprophoto_k238 : premulChunk .prophoto 238 = true := by decide +kernel
theorem premulprophoto_k239 : premulChunk .prophoto 239 = true := by decide +kernel

theorem premulprophoto_file14 : ∀ k, 224 ≤ k → k < 240 → premulChunk .prophoto k = true := by
  intro k h1 h2
  have h : k = 224 ∨ k = 225 ∨ k = 226 ∨ k = 227 ∨ k = 228 ∨ k = 229 ∨ k = 230 ∨ k = 231 ∨ k = 232 ∨ k = 233 ∨ k = 234 ∨ k = 235 ∨ k = 236 ∨ k = 237 ∨ k = 238 ∨ k = 239 := by omega
  rcases h with rfl | rfl | rfl | rfl | rfl | rfl | rfl | rfl | rfl | rfl | rfl | rfl | rfl | rfl | rfl | rfl
  · exact premulprophoto_k224
  · exact premulprophoto_k225
  · exact premulprophoto_k226
  · exact premulprophoto_k227
  · exact premulprophoto_k228
  · exact premulprophoto_k229
  · exact premulprophoto_k230
  · exact premulprophoto_k231
  · exact premulprophoto_k232
  · exact premulprophoto_k233
  · exact premulprophoto_k234
  · exact premulprophoto_k235
  · exact premulprophoto_k236
  · exact premulprophoto_k237
  · exact premulprophoto_k238
  · exact premulprophoto_k239

end Prism.C14
