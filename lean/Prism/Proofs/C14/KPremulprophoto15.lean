import Prism.Check.C14

/-! Kernel-checked chunks (generated boiler-plate, see lib/gen_static.py). -/
namespace Prism.C14

theorem premulprophoto_k240 : premulChunk .prophoto 240 = true := by decide +kernel
theorem premulprophoto_k241 : premulChunk .prophoto 241 = true := by decide +kernel
theorem premulprophoto_k242 : premulChunk .prophoto 242 = true := by decide +kernel
theorem premulprophoto_k243 : premulChunk .prophoto 243 = true := by decide +kernel
theorem premulprophoto_k244 : premulChunk .prophoto 244 = true := by decide +kernel
theorem premulprophoto_k245 : premulChunk .prophoto 245 = true := by decide +kernel
theorem premulprophoto_k246 : premulChunk .prophoto 246 = true := by decide +kernel
theorem premulprophoto_k247 : premulChunk .prophoto 247 = true := by decide +kernel
theorem premulprophoto_k248 : premulChunk .prophoto 248 = true := by decide +kernel
theorem premulprophoto_k249 : premulChunk .prophoto 249 = true := by decide +kernel
theorem premulprophoto_k250 : premulChunk .prophoto 250 = true := by decide +kernel
theorem premulprophoto_k251 : premulChunk .prophoto 251 = true := by decide +kernel
theorem premulprophoto_k252 : premulChunk .prophoto 252 = true := by decide +kernel
theorem premulprophoto_k253 : premulChunk .prophoto 253 = true := by decide +kernel
theorem premulprophoto_k254 : premulChunk .prophoto 254 = true := by decide +kernel
theorem premulprophoto_k255 : premulChunk .prophoto 255 = true := by decide +kernel

theorem premulprophoto_file15 : ∀ k, 240 ≤ k → k < 256 → premulChunk .prophoto k = true := by
  intro k h1 h2
  have h : k = 240 ∨ k = 241 ∨ k = 242 ∨ k = 243 ∨ k = 244 ∨ k = 245 ∨ k = 246 ∨ k = 247 ∨ k = 248 ∨ k = 249 ∨ k = 250 ∨ k = 251 ∨ k = 252 ∨ k = 253 ∨ k = 254 ∨ k = 255 := by omega
  rcases h with rfl | rfl | rfl | rfl | rfl | rfl | rfl | rfl | rfl | rfl | rfl | rfl | rfl | rfl | rfl | rfl
  · exact premulprophoto_k240
  · exact premulprophoto_k241
  · exact premulprophoto_k242
  · exact premulprophoto_k243
  · exact premulprophoto_k244
  · exact premulprophoto_k245
  · exact premulprophoto_k246
  · exact premulprophoto_k247
  · exact premulprophoto_k248
  · exact premulprophoto_k249
  · exact premulprophoto_k250
  · exact premulprophoto_k251
  · exact premulprophoto_k252
  · exact premulprophoto_k253
  · exact premulprophoto_k254
  · exact premulprophoto_k255

end Prism.C14
