import Prism.Check.C14

/-! Kernel-checked chunks (generated boiler-plate, see lib/gen_static.py). -/
namespace Prism.C14

theorem premulprophoto_k32 : premulChunk .prophoto 32 = true := by decide +kernel
theorem premulprophoto_k33 : premulChunk .prophoto 33 = true := by decide +kernel
theorem premulprophoto_k34 : premulChunk .prophoto 34 = true := by decide +kernel
theorem premulprophoto_k35 : premulChunk .prophoto 35 = true := by decide +kernel
theorem premulprophoto_k36 : premulChunk .prophoto 36 = true := by decide +kernel
theorem premulprophoto_k37 : premulChunk .prophoto 37 = true := by decide +kernel
theorem premulprophoto_k38 : premulChunk .prophoto 38 = true := by decide +kernel
theorem premulprophoto_k39 : premulChunk .prophoto 39 = true := by decide +kernel
theorem premulprophoto_k40 : premulChunk .prophoto 40 = true := by decide +kernel
theorem premulprophoto_k41 : premulChunk .prophoto 41 = true := by decide +kernel
theorem premulprophoto_k42 : premulChunk .prophoto 42 = true := by decide +kernel
theorem premulprophoto_k43 : premulChunk .prophoto 43 = true := by decide +kernel
theorem premulprophoto_k44 : premulChunk .prophoto 44 = true := by decide +kernel
theorem premulprophoto_k45 : premulChunk .prophoto 45 = true := by decide +kernel
theorem premulprophoto_k46 : premulChunk .prophoto 46 = true := by decide +kernel
theorem premulprophoto_k47 : premulChunk .prophoto 47 = true := by decide +kernel

theorem premulprophoto_file2 : ∀ k, 32 ≤ k → k < 48 → premulChunk .prophoto k = true := by
  intro k h1 h2
  have h : k = 32 ∨ k = 33 ∨ k = 34 ∨ k = 35 ∨ k = 36 ∨ k = 37 ∨ k = 38 ∨ k = 39 ∨ k = 40 ∨ k = 41 ∨ k = 42 ∨ k = 43 ∨ k = 44 ∨ k = 45 ∨ k = 46 ∨ k = 47 := by omega
  rcases h with rfl | rfl | rfl | rfl | rfl | rfl | rfl | rfl | rfl | rfl | rfl | rfl | rfl | rfl | rfl | rfl
  · exact premulprophoto_k32
  · exact premulprophoto_k33
  · exact premulprophoto_k34
  · exact premulprophoto_k35
  · exact premulprophoto_k36
  · exact premulprophoto_k37
  · exact premulprophoto_k38
  · exact premulprophoto_k39
  · exact premulprophoto_k40
  · exact premulprophoto_k41
  · exact premulprophoto_k42
  · exact premulprophoto_k43
  · exact premulprophoto_k44
  · exact premulprophoto_k45
  · exact premulprophoto_k46
  · exact premulprophoto_k47

end Prism.C14
