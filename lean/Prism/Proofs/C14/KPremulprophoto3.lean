import Prism.Check.C14

/-! Kernel-checked chunks (generated boiler-plate, see lib/gen_static.py). -/
namespace Prism.C14

theorem premulprophoto_k48 : premulChunk .prophoto 48 = true := by decide +kernel
theorem premulprophoto_k49 : premulChunk .prophoto 49 = true := by decide +kernel
theorem premulprophoto_k50 : premulChunk .prophoto 50 = true := by decide +kernel
theorem premulprophoto_k51 : premulChunk .prophoto 51 = true := by decide +kernel
theorem premulprophoto_k52 : premulChunk .prophoto 52 = true := by decide +kernel
theorem premulprophoto_k53 : premulChunk .prophoto 53 = true := by decide +kernel
theorem premulprophoto_k54 : premulChunk .prophoto 54 = true := by decide +kernel
theorem premulprophoto_k55 : premulChunk .prophoto 55 = true := by decide +kernel
theorem premulprophoto_k56 : premulChunk .prophoto 56 = true := by decide +kernel
theorem premulprophoto_k57 : premulChunk .prophoto 57 = true := by decide +kernel
theorem premulprophoto_k58 : premulChunk .prophoto 58 = true := by decide +kernel
theorem premulprophoto_k59 : premulChunk .prophoto 59 = true := by decide +kernel
theorem premulprophoto_k60 : premulChunk .prophoto 60 = true := by decide +kernel
theorem premulprophoto_k61 : premulChunk .prophoto 61 = true := by decide +kernel
theorem premulprophoto_k62 : premulChunk .prophoto 62 = true := by decide +kernel
theorem premulprophoto_k63 : premulChunk .prophoto 63 = true := by decide +kernel

theorem premulprophoto_file3 : ∀ k, 48 ≤ k → k < 64 → premulChunk .prophoto k = true := by
  intro k h1 h2
  have h : k = 48 ∨ k = 49 ∨ k = 50 ∨ k = 51 ∨ k = 52 ∨ k = 53 ∨ k = 54 ∨ k = 55 ∨ k = 56 ∨ k = 57 ∨ k = 58 ∨ k = 59 ∨ k = 60 ∨ k = 61 ∨ k = 62 ∨ k = 63 := by omega
  rcases h with rfl | rfl | rfl | rfl | rfl | rfl | rfl | rfl | rfl | rfl | rfl | rfl | rfl | rfl | rfl | rfl
  · exact premulprophoto_k48
  · exact premulprophoto_k49
  · exact premulprophoto_k50
  · exact premulprophoto_k51
  · exact premulprophoto_k52
  · exact premulprophoto_k53
  · exact premulprophoto_k54
  · exact premulprophoto_k55
  · exact premulprophoto_k56
  · exact premulprophoto_k57
  · exact premulprophoto_k58
  · exact premulprophoto_k59
  · exact premulprophoto_k60
  · exact premulprophoto_k61
  · exact premulprophoto_k62
  · exact premulprophoto_k63

end Prism.C14
