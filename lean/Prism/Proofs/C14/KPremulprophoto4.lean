import Prism.Check.C14

/-! Kernel-checked chunks (generated boiler-plate, see lib/gen_static.py). -/
namespace Prism.C14

theorem premulprophoto_k64 : premulChunk .prophoto 64 = true := by decide +kernel
theorem premulprophoto_k65 : premulChunk .prophoto 65 = true := by decide +kernel
theorem premulprophoto_k66 : premulChunk .prophoto 66 = true := by decide +kernel
theorem premulprophoto_k67 : premulChunk .prophoto 67 = true := by decide +kernel
theorem premulprophoto_k68 : premulChunk .prophoto 68 = true := by decide +kernel
theorem premulprophoto_k69 : premulChunk .prophoto 69 = true := by decide +kernel
theorem premulprophoto_k70 : premulChunk .prophoto 70 = true := by decide +kernel
theorem premulprophoto_k71 : premulChunk .prophoto 71 = true := by decide +kernel
theorem premulprophoto_k72 : premulChunk .prophoto 72 = true := by decide +kernel
theorem premulprophoto_k73 : premulChunk .prophoto 73 = true := by decide +kernel
theorem premulprophoto_k74 : premulChunk .prophoto 74 = true := by decide +kernel
theorem premulprophoto_k75 : premulChunk .prophoto 75 = true := by decide +kernel
theorem premulprophoto_k76 : premulChunk .prophoto 76 = true := by decide +kernel
theorem premulprophoto_k77 : premulChunk .prophoto 77 = true := by decide +kernel
theorem premulprophoto_k78 : premulChunk .prophoto 78 = true := by decide +kernel
theorem premulprophoto_k79 : premulChunk .prophoto 79 = true := by decide +kernel

theorem premulprophoto_file4 : ∀ k, 64 ≤ k → k < 80 → premulChunk .prophoto k = true := by
  intro k h1 h2
  have h : k = 64 ∨ k = 65 ∨ k = 66 ∨ k = 67 ∨ k = 68 ∨ k = 69 ∨ k = 70 ∨ k = 71 ∨ k = 72 ∨ k = 73 ∨ k = 74 ∨ k = 75 ∨ k = 76 ∨ k = 77 ∨ k = 78 ∨ k = 79 := by omega
  rcases h with rfl | rfl | rfl | rfl | rfl | rfl | rfl | rfl | rfl | rfl | rfl | rfl | rfl | rfl | rfl | rfl
  · exact premulprophoto_k64
  · exact premulprophoto_k65
  · exact premulprophoto_k66
  · exact premulprophoto_k67
  · exact premulprophoto_k68
  · exact premulprophoto_k69
  · exact premulprophoto_k70
  · exact premulprophoto_k71
  · exact premulprophoto_k72
  · exact premulprophoto_k73
  · exact premulprophoto_k74
  · exact premulprophoto_k75
  · exact premulprophoto_k76
  · exact premulprophoto_k77
  · exact premulprophoto_k78
  · exact premulprophoto_k79

end Prism.C14
