import Prism.Check.C14

/-! Kernel-checked chunks (generated boiler-plate, see lib/gen_static.py). -/
namespace Prism.C14

theorem premulprophoto_k80 : premulChunk .prophoto 80 = true := by decide +kernel
theorem premulprophoto_k81 : premulChunk .prophoto 81 = true := by decide +kernel
theorem premulprophoto_k82 : premulChunk .prophoto 82 = true := by decide +kernel
theorem premulprophoto_k83 : premulChunk .prophoto 83 = true := by decide +kernel
theorem premulprophoto_k84 : premulChunk .prophoto 84 = true := by decide +kernel
theorem premulprophoto_k85 : premulChunk .prophoto 85 = true := by decide +kernel
theorem premulprophoto_k86 : premulChunk .prophoto 86 = true := by decide +kernel
theorem premulprophoto_k87 : premulChunk .prophoto 87 = true := by decide +kernel
theorem premulprophoto_k88 : premulChunk .prophoto 88 = true := by decide +kernel
theorem premulprophoto_k89 : premulChunk .prophoto 89 = true := by decide +kernel
theorem premulprophoto_k90 : premulChunk .prophoto 90 = true := by decide +kernel
theorem premulprophoto_k91 : premulChunk .prophoto 91 = true := by decide +kernel
theorem premulprophoto_k92 : premulChunk .prophoto 92 = true := by decide +kernel
theorem premulprophoto_k93 : premulChunk .prophoto 93 = true := by decide +kernel
theorem premulprophoto_k94 : premulChunk .prophoto 94 = true := by decide +kernel
theorem premulprophoto_k95 : premulChunk .prophoto 95 = true := by decide +kernel

theorem premulprophoto_file5 : ∀ k, 80 ≤ k → k < 96 → premulChunk .prophoto k = true := by
  intro k h1 h2
  have h : k = 80 ∨ k = 81 ∨ k = 82 ∨ k = 83 ∨ k = 84 ∨ k = 85 ∨ k = 86 ∨ k = 87 ∨ k = 88 ∨ k = 89 ∨ k = 90 ∨ k = 91 ∨ k = 92 ∨ k = 93 ∨ k = 94 ∨ k = 95 := by omega
  rcases h with rfl | rfl | rfl | rfl | rfl | rfl | rfl | rfl | rfl | rfl | rfl | rfl | rfl | rfl | rfl | rfl
  · exact premulprophoto_k80
  · exact premulprophoto_k81
  · exact premulprophoto_k82
  · exact premulprophoto_k83
  · exact premulprophoto_k84
  · exact premulprophoto_k85
  · exact premulprophoto_k86
  · exact premulprophoto_k87
  · exact premulprophoto_k88
  · exact premulprophoto_k89
  · exact premulprophoto_k90
  · exact premulprophoto_k91
  · exact premulprophoto_k92
  · exact premulprophoto_k93
  · exact premulprophoto_k94
  · exact premulprophoto_k95

end Prism.C14
