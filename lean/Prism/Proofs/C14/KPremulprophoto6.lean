import Prism.Check.C14

/-! Kernel-checked chunks (generated boiler-plate, see lib/gen_static.py). -/
namespace Prism.C14

theorem premulprophoto_k96 : premulChunk .prophoto 96 = true := by decide +kernel
theorem premulprophoto_k97 : premulChunk .prophoto 97 = true := by decide +kernel
theorem premulprophoto_k98 : premulChunk .prophoto 98 = true := by decide +kernel
theorem premulprophoto_k99 : premulChunk .prophoto 99 = true := by decide +kernel
theorem premulprophoto_k100 : premulChunk .prophoto 100 = true := by decide +kernel
theorem premulprophoto_k101 : premulChunk .prophoto 101 = true := by decide +kernel
theorem premulprophoto_k102 : premulChunk .prophoto 102 = true := by decide +kernel
theorem premulprophoto_k103 : premulChunk .prophoto 103 = true := by decide +kernel
theorem premulprophoto_k104 : premulChunk .prophoto 104 = true := by decide +kernel
theorem premulprophoto_k105 : premulChunk .prophoto 105 = true := by decide +kernel
theorem premulprophoto_k106 : premulChunk .prophoto 106 = true := by decide +kernel
theorem premulprophoto_k107 : premulChunk .prophoto 107 = true := by decide +kernel
theorem premulprophoto_k108 : premulChunk .prophoto 108 = true := by decide +kernel
theorem premulprophoto_k109 : premulChunk .prophoto 109 = true := by decide +kernel
theorem premulprophoto_k110 : premulChunk .prophoto 110 = true := by decide +kernel
theorem premulprophoto_k111 : premulChunk .prophoto 111 = true := by decide +kernel

theorem premulprophoto_file6 : ∀ k, 96 ≤ k → k < 112 → premulChunk .prophoto k = true := by
  intro k h1 h2
  have h : k = 96 ∨ k = 97 ∨ k = 98 ∨ k = 99 ∨ k = 100 ∨ k = 101 ∨ k = 102 ∨ k = 103 ∨ k = 104 ∨ k = 105 ∨ k = 106 ∨ k = 107 ∨ k = 108 ∨ k = 109 ∨ k = 110 ∨ k = 111 := by omega
  rcases h with rfl | rfl | rfl | rfl | rfl | rfl | rfl | rfl | rfl | rfl | rfl | rfl | rfl | rfl | rfl | rfl
  · exact premulprophoto_k96
  · exact premulprophoto_k97
  · exact premulprophoto_k98
  · exact premulprophoto_k99
  · exact premulprophoto_k100
  · exact premulprophoto_k101
  · exact premulprophoto_k102
  · exact premulprophoto_k103
  · exact premulprophoto_k104
  · exact premulprophoto_k105
  · exact premulprophoto_k106
  · exact premulprophoto_k107
  · exact premulprophoto_k108
  · exact premulprophoto_k109
  · exact premulprophoto_k110
  · exact premulprophoto_k111

end Prism.C14
