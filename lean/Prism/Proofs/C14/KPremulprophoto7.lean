import Prism.Check.C14

/-! Kernel-checked chunks (generated boiler-plate, see lib/gen_static.py). -/
namespace Prism.C14

theorem premulprophoto_k112 : premulChunk .prophoto 112 = true := by decide +kernel
theorem premulprophoto_k113 : premulChunk .prophoto 113 = true := by decide +kernel
theorem premulprophoto_k114 : premulChunk .prophoto 114 = true := by decide +kernel
theorem premulprophoto_k115 : premulChunk .prophoto 115 = true := by decide +kernel
theorem premulprophoto_k116 : premulChunk .prophoto 116 = true := by decide +kernel
theorem premulprophoto_k117 : premulChunk .prophoto 117 = true := by decide +kernel
theorem premulprophoto_k118 : premulChunk .prophoto 118 = true := by decide +kernel
theorem premulprophoto_k119 : premulChunk .prophoto 119 = true := by decide +kernel
theorem premulprophoto_k120 : premulChunk .prophoto 120 = true := by decide +kernel
theorem premulprophoto_k121 : premulChunk .prophoto 121 = true := by decide +kernel
theorem premulprophoto_k122 : premulChunk .prophoto 122 = true := by decide +kernel
theorem premulprophoto_k123 : premulChunk .prophoto 123 = true := by decide +kernel
theorem premulprophoto_k124 : premulChunk .prophoto 124 = true := by decide +kernel
theorem premulprophoto_k125 : premulChunk .prophoto 125 = true := by decide +kernel
theorem premulprophoto_k126 : premulChunk .prophoto 126 = true := by decide +kernel
theorem premulprophoto_k127 : premulChunk .prophoto 127 = true := by decide +kernel

theorem premulprophoto_file7 : ∀ k, 112 ≤ k → k < 128 → premulChunk .prophoto k = true := by
  intro k h1 h2
  have h : k = 112 ∨ k = 113 ∨ k = 114 ∨ k = 115 ∨ k = 116 ∨ k = 117 ∨ k = 118 ∨ k = 119 ∨ k = 120 ∨ k = 121 ∨ k = 122 ∨ k = 123 ∨ k = 124 ∨ k = 125 ∨ k = 126 ∨ k = 127 := by omega
  rcases h with rfl | rfl | rfl | rfl | rfl | rfl | rfl | rfl | rfl | rfl | rfl | rfl | rfl | rfl | rfl | rfl
  · exact premulprophoto_k112
  · exact premulprophoto_k113
  · exact premulprophoto_k114
  · exact premulprophoto_k115
  · exact premulprophoto_k116
  · exact premulprophoto_k117
  · exact premulprophoto_k118
  · exact premulprophoto_k119
  · exact premulprophoto_k120
  · exact premulprophoto_k121
  · exact premulprophoto_k122
  · exact premulprophoto_k123
  · exact premulprophoto_k124
  · exact premulprophoto_k125
  · exact premulprophoto_k126
  · exact premulprophoto_k127

end Prism.C14
