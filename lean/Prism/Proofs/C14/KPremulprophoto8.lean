import Prism.Check.C14

/-! Kernel-checked chunks (generated boiler-plate, see lib/gen_static.py). -/
namespace Prism.C14

theorem premulprophoto_k128 : premulChunk .prophoto 128 = true := by decide +kernel
theorem premulprophoto_k129 : premulChunk .prophoto 129 = true := by decide +kernel
theorem premulprophoto_k130 : premulChunk .prophoto 130 = true := by decide +kernel
theorem premulprophoto_k131 : premulChunk .prophoto 131 = true := by decide +kernel
theorem premulprophoto_k132 : premulChunk .prophoto 132 = true := by decide +kernel
theorem premulprophoto_k133 : premulChunk .prophoto 133 = true := by decide +kernel
theorem premulprophoto_k134 : premulChunk .prophoto 134 = true := by decide +kernel
theorem premulprophoto_k135 : premulChunk .prophoto 135 = true := by decide +kernel
theorem premulprophoto_k136 : premulChunk .prophoto 136 = true := by decide +kernel
theorem premulprophoto_k137 : premulChunk .prophoto 137 = true := by decide +kernel
theorem premulprophoto_k138 : premulChunk .prophoto 138 = true := by decide +kernel
theorem premulprophoto_k139 : premulChunk .prophoto 139 = true := by decide +kernel
theorem premulprophoto_k140 : premulChunk .prophoto 140 = true := by decide +kernel
theorem premulprophoto_k141 : premulChunk .prophoto 141 = true := by decide +kernel
theorem premulprophoto_k142 : premulChunk .prophoto 142 = true := by decide +kernel
theorem premulprophoto_k143 : premulChunk .prophoto 143 = true := by decide +kernel

theorem premulprophoto_file8 : ∀ k, 128 ≤ k → k < 144 → premulChunk .prophoto k = true := by
  intro k h1 h2
  have h : k = 128 ∨ k = 129 ∨ k = 130 ∨ k = 131 ∨ k = 132 ∨ k = 133 ∨ k = 134 ∨ k = 135 ∨ k = 136 ∨ k = 137 ∨ k = 138 ∨ k = 139 ∨ k = 140 ∨ k = 141 ∨ k = 142 ∨ k = 143 := by omega
  rcases h with rfl | rfl | rfl | rfl | rfl | rfl | rfl | rfl | rfl | rfl | rfl | rfl | rfl | rfl | rfl | rfl
  · exact premulprophoto_k128
  · exact premulprophoto_k129
  · exact premulprophoto_k130
  · exact premulprophoto_k131
  · exact premulprophoto_k132
  · exact premulprophoto_k133
  · exact premulprophoto_k134
  · exact premulprophoto_k135
  · exact premulprophoto_k136
  · exact premulprophoto_k137
  · exact premulprophoto_k138
  · exact premulprophoto_k139
  · exact premulprophoto_k140
  · exact premulprophoto_k141
  · exact premulprophoto_k142
  · exact premulprophoto_k143

end Prism.C14
