import Prism.Check.C14

/-! Kernel-checked chunks (generated boiler-plate, see lib/gen_static.py). -/
namespace Prism.C14

theorem premulprophoto_k144 : premulChunk .prophoto 144 = true := by decide +kernel
theorem premulprophoto_k145 : premulChunk .prophoto 145 = true := by decide +kernel
theorem premulprophoto_k146 : premulChunk .prophoto 146 = true := by decide +kernel
theorem premulprophoto_k147 : premulChunk .prophoto 147 = true := by decide +kernel
theorem premulprophoto_k148 : premulChunk .prophoto 148 = true := by decide +kernel
theorem premulprophoto_k149 : premulChunk .prophoto 149 = true := by decide +kernel
theorem premulprophoto_k150 : premulChunk .prophoto 150 = true := by decide +kernel
theorem premulprophoto_k151 : premulChunk .prophoto 151 = true := by decide +kernel
theorem premulprophoto_k152 : premulChunk .prophoto 152 = true := by decide +kernel
theorem premulprophoto_k153 : premulChunk .prophoto 153 = true := by decide +kernel
theorem premulprophoto_k154 : premulChunk .prophoto 154 = true := by decide +kernel
theorem premulprophoto_k155 : premulChunk .prophoto 155 = true := by decide +kernel
theorem premulprophoto_k156 : premulChunk .prophoto 156 = true := by decide +kernel
theorem premulprophoto_k157 : premulChunk .prophoto 157 = true := by decide +kernel
theorem premulprophoto_k158 : premulChunk .prophoto 158 = true := by decide +kernel
theorem premulprophoto_k159 : premulChunk .prophoto 159 = true := by decide +kernel

theorem premulprophoto_file9 : ∀ k, 144 ≤ k → k < 160 → premulChunk .prophoto k = true := by
  intro k h1 h2
  have h : k = 144 ∨ k = 145 ∨ k = 146 ∨ k = 147 ∨ k = 148 ∨ k = 149 ∨ k = 150 ∨ k = 151 ∨ k = 152 ∨ k = 153 ∨ k = 154 ∨ k = 155 ∨ k = 156 ∨ k = 157 ∨ k = 158 ∨ k = 159 := by omega
  rcases h with rfl | rfl | rfl | rfl | rfl | rfl | rfl | rfl | rfl | rfl | rfl | rfl | rfl | rfl | rfl | rfl
  · exact premulprophoto_k144
  · exact premulprophoto_k145
  · exact premulprophoto_k146
  · exact premulprophoto_k147
  · exact premulprophoto_k148
  · exact premulprophoto_k149
  · exact premulprophoto_k150
  · exact premulprophoto_k151
  · exact premulprophoto_k152
  · exact premulprophoto_k153
  · exact premulprophoto_k154
  · exact premulprophoto_k155
  · exact premulprophoto_k156
  · exact premulprophoto_k157
  · exact premulprophoto_k158
  · exact premulprophoto_k159

end Prism.C14
