import Prism.Check.C14

/-! Kernel-checked chunks (generated boiler-plate, see lib/gen_static.py). -/
namespace Prism.C14

theorem premulsrgb_k0 : premulChunk .srgb 0 = true := by decide +kernel
theorem premulsrgb_k1 : premulChunk .srgb 1 = true := by decide +kernel
theorem premulsrgb_k2 : premulChunk .srgb 2 = true := by decide +kernel
theorem premulsrgb_k3 : premulChunk .srgb 3 = true := by decide +kernel
theorem premulsrgb_k4 : premulChunk .srgb 4 = true := by decide +kernel
theorem premulsrgb_k5 : premulChunk .srgb 5 = true := by decide +kernel
theorem premulsrgb_k6 : premulChunk .srgb 6 = true := by decide +kernel
theorem premulsrgb_k7 : premulChunk .srgb 7 = true := by decide +kernel
theorem premulsrgb_k8 : premulChunk .srgb 8 = true := by decide +kernel
theorem premulsrgb_k9 : premulChunk .srgb 9 = true := by decide +kernel
theorem premulsrgb_k10 : premulChunk .srgb 10 = true := by decide +kernel
theorem premulsrgb_k11 : premulChunk .srgb 11 = true := by decide +kernel
theorem premulsrgb_k12 : premulChunk .srgb 12 = true := by decide +kernel
theorem premulsrgb_k13 : premulChunk .srgb 13 = true := by decide +kernel
theorem premulsrgb_k14 : premulChunk .srgb 14 = true := by decide +kernel
theorem premulsrgb_k15 : premulChunk .srgb 15 = true := by decide +kernel

theorem premulsrgb_file0 : ∀ k, 0 ≤ k → k < 16 → premulChunk .srgb k = true := by
  intro k h1 h2
  have h : k = 0 ∨ k = 1 ∨ k = 2 ∨ k = 3 ∨ k = 4 ∨ k = 5 ∨ k = 6 ∨ k = 7 ∨ k = 8 ∨ k = 9 ∨ k = 10 ∨ k = 11 ∨ k = 12 ∨ k = 13 ∨ k = 14 ∨ k = 15 := by omega
  rcases h with rfl | rfl | rfl | rfl | rfl | rfl | rfl | rfl | rfl | rfl | rfl | rfl | rfl | rfl | rfl | rfl
  · exact premulsrgb_k0
  · exact premulsrgb_k1
  · exact premulsrgb_k2
  · exact premulsrgb_k3
  · exact premulsrgb_k4
  · exact premulsrgb_k5
  · exact premulsrgb_k6
  · exact premulsrgb_k7
  · exact premulsrgb_k8
  · exact premulsrgb_k9
  · exact premulsrgb_k10
  · exact premulsrgb_k11
  · exact premulsrgb_k12
  · exact premulsrgb_k13
  · exact premulsrgb_k14
  · exact premulsrgb_k15

end Prism.C14
