import Prism.Check.C14

/-! Kernel-checked chunks (generated boiler-plate, see lib/gen_static.py). -/
namespace Prism.C14

theorem premulsrgb_k16 : premulChunk .srgb 16 = true := by decide +kernel
theorem premulsrgb_k17 : premulChunk .srgb 17 = true := by decide +kernel
theorem premulsrgb_k18 : premulChunk .srgb 18 = true := by decide +kernel
theorem premulsrgb_k19 : premulChunk .srgb 19 = true := by decide +kernel
theorem premulsrgb_k20 : premulChunk .srgb 20 = true := by decide +kernel
theorem premulsrgb_k21 : premulChunk .srgb 21 = true := by decide +kernel
theorem premulsrgb_k22 : premulChunk .srgb 22 = true := by decide +kernel
theorem premulsrgb_k23 : premulChunk .srgb 23 = true := by decide +kernel
theorem premulsrgb_k24 : premulChunk .srgb 24 = true := by decide +kernel
theorem premulsrgb_k25 : premulChunk .srgb 25 = true := by decide +kernel
theorem premulsrgb_k26 : premulChunk .srgb 26 = true := by decide +kernel
theorem premulsrgb_k27 : premulChunk .srgb 27 = true := by decide +kernel
theorem premulsrgb_k28 : premulChunk .srgb 28 = true := by decide +kernel
theorem premulsrgb_k29 : premulChunk .srgb 29 = true := by decide +kernel
theorem premulsrgb_k30 : premulChunk .srgb 30 = true := by decide +kernel
theorem premulsrgb_k31 : premulChunk .srgb 31 = true := by decide +kernel

theorem premulsrgb_file1 : ∀ k, 16 ≤ k → k < 32 → premulChunk .srgb k = true := by
  intro k h1 h2
  have h : k = 16 ∨ k = 17 ∨ k = 18 ∨ k = 19 ∨ k = 20 ∨ k = 21 ∨ k = 22 ∨ k = 23 ∨ k = 24 ∨ k = 25 ∨ k = 26 ∨ k = 27 ∨ k = 28 ∨ k = 29 ∨ k = 30 ∨ k = 31 := by omega
  rcases h with rfl | rfl | rfl | rfl | rfl | rfl | rfl | rfl | rfl | rfl | rfl | rfl | rfl | rfl | rfl | rfl
  · exact premulsrgb_k16
  · exact premulsrgb_k17
  · exact premulsrgb_k18
  · exact premulsrgb_k19
  · exact premulsrgb_k20
  · exact premulsrgb_k21
  · exact premulsrgb_k22
  · exact premulsrgb_k23
  · exact premulsrgb_k24
  · exact premulsrgb_k25
  · exact premulsrgb_k26
  · exact premulsrgb_k27
  · exact premulsrgb_k28
  · exact premulsrgb_k29
  · exact premulsrgb_k30
  · exact premulsrgb_k31

end Prism.C14
