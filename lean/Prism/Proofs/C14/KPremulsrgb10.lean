import Prism.Check.C14

/-! Kernel-checked chunks (generated boiler-plate, see lib/gen_static.py). -/
namespace Prism.C14

theorem premulsrgb_k160 : premulChunk .srgb 160 = true := by decide +kernel
theorem premulsrgb_k161 : premulChunk .srgb 161 = true := by decide +kernel
theorem premulsrgb_k162 : premulChunk .srgb 162 = true := by decide +kernel
theorem premulsrgb_k163 : premulChunk .srgb 163 = true := by decide +kernel
theorem premulsrgb_k164 : premulChunk .srgb 164 = true := by decide +kernel
theorem premulsrgb_k165 : premulChunk .srgb 165 = true := by decide +kernel
theorem premulsrgb_k166 : premulChunk .srgb 166 = true := by decide +kernel
theorem premulsrgb_k167 : premulChunk .srgb 167 = true := by decide +kernel
theorem premulsrgb_k168 : premulChunk .srgb 168 = true := by decide +kernel
theorem premulsrgb_k169 : premulChunk .srgb 169 = true := by decide +kernel
theorem premulsrgb_k170 : premulChunk .srgb 170 = true := by decide +kernel
theorem premulsrgb_k171 : premulChunk .srgb 171 = true := by decide +kernel
theorem premulsrgb_k172 : premulChunk .srgb 172 = true := by decide +kernel
theorem premulsrgb_k173 : premulChunk .srgb 173 = true := by decide +kernel
theorem premulsrgb_k174 : premulChunk .srgb 174 = true := by decide +kernel
theorem premulsrgb_k175 : premulChunk .srgb 175 = true := by decide +kernel

theorem premulsrgb_file10 : ∀ k, 160 ≤ k → k < 176 → premulChunk .srgb k = true := by
  intro k h1 h2
  have h : k = 160 ∨ k = 161 ∨ k = 162 ∨ k = 163 ∨ k = 164 ∨ k = 165 ∨ k = 166 ∨ k = 167 ∨ k = 168 ∨ k = 169 ∨ k = 170 ∨ k = 171 ∨ k = 172 ∨ k = 173 ∨ k = 174 ∨ k = 175 := by omega
  rcases h with rfl | rfl | rfl | rfl | rfl | rfl | rfl | rfl | rfl | rfl | rfl | rfl | rfl | rfl | rfl | rfl
  · exact premulsrgb_k160
  · exact premulsrgb_k161
  · exact premulsrgb_k162
  · exact premulsrgb_k163
  · exact premulsrgb_k164
  · exact premulsrgb_k165
  · exact premulsrgb_k166
  · exact premulsrgb_k167
  · exact premulsrgb_k168
  · exact premulsrgb_k169
  · exact premulsrgb_k170
  · exact premulsrgb_k171
  · exact premulsrgb_k172
  · exact premulsrgb_k173
  · exact premulsrgb_k174
  · exact premulsrgb_k175

end Prism.C14
