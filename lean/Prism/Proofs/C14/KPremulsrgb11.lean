import Prism.Check.C14

/-! Kernel-checked chunks (generated boiler-plate, see lib/gen_static.py). -/
namespace Prism.C14

theorem premulsrgb_k176 : premulChunk .srgb 176 = true := by decide +kernel
theorem premulsrgb_k177 : premulChunk .srgb 177 = true := by decide +kernel
theorem premulsrgb_k178 : premulChunk .srgb 178 = true := by decide +kernel
theorem premulsrgb_k179 : premulChunk .srgb 179 = true := by decide +kernel
theorem premulsrgb_k180 : premulChunk .srgb 180 = true := by decide +kernel
theorem premulsrgb_k181 : premulChunk .srgb 181 = true := by decide +kernel
theorem premulsrgb_k182 : premulChunk .srgb 182 = true := by decide +kernel
theorem premulsrgb_k183 : premulChunk .srgb 183 = true := by decide +kernel
theorem premulsrgb_k184 : premulChunk .srgb 184 = true := by decide +kernel
theorem premulsrgb_k185 : premulChunk .srgb 185 = true := by decide +kernel
theorem premulsrgb_k186 : premulChunk .srgb 186 = true := by decide +kernel
theorem premulsrgb_k187 : premulChunk .srgb 187 = true := by decide +kernel
theorem premulsrgb_k188 : premulChunk .srgb 188 = true := by decide +kernel
theorem premulsrgb_k189 : premulChunk .srgb 189 = true := by decide +kernel
theorem premulsrgb_k190 : premulChunk .srgb 190 = true := by decide +kernel
theorem premulsrgb_k191 : premulChunk .srgb 191 = true := by decide +kernel

theorem premulsrgb_file11 : ∀ k, 176 ≤ k → k < 192 → premulChunk .srgb k = true := by
  intro k h1 h2
  have h : k = 176 ∨ k = 177 ∨ k = 178 ∨ k = 179 ∨ k = 180 ∨ k = 181 ∨ k = 182 ∨ k = 183 ∨ k = 184 ∨ k = 185 ∨ k = 186 ∨ k = 187 ∨ k = 188 ∨ k = 189 ∨ k = 190 ∨ k = 191 := by omega
  rcases h with rfl | rfl | rfl | rfl | rfl | rfl | rfl | rfl | rfl | rfl | rfl | rfl | rfl | rfl | rfl | rfl
  · exact premulsrgb_k176
  · exact premulsrgb_k177
  · exact premulsrgb_k178
  · exact premulsrgb_k179
  · exact premulsrgb_k180
  · exact premulsrgb_k181
  · exact premulsrgb_k182
  · exact premulsrgb_k183
  · exact premulsrgb_k184
  · exact premulsrgb_k185
  · exact premulsrgb_k186
  · exact premulsrgb_k187
  · exact premulsrgb_k188
  · exact premulsrgb_k189
  · exact premulsrgb_k190
  · exact premulsrgb_k191

end Prism.C14
