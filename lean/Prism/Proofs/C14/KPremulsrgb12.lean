import Prism.Check.C14

/-! Kernel-checked chunks (generated boiler-plate, see lib/gen_static.py). -/
namespace Prism.C14

theorem premulsrgb_k192 : premulChunk .srgb 192 = true := by decide +kernel
theorem premulsrgb_k193 : premulChunk .srgb 193 = true := by decide +kernel
theorem premulsrgb_k194 : premulChunk .srgb 194 = true := by decide +kernel
theorem premulsrgb_k195 : premulChunk .srgb 195 = true := by decide +kernel
theorem premulsrgb_k196 : premulChunk .srgb 196 = true := by decide +kernel
theorem premulsrgb_k197 : premulChunk .srgb 197 = true := by decide +kernel
theorem premulsrgb_k198 : premulChunk .srgb 198 = true := by decide +kernel
theorem premulsrgb_k199 : premulChunk .srgb 199 = true := by decide +kernel
theorem premulsrgb_k200 : premulChunk .srgb 200 = true := by decide +kernel
theorem premulsrgb_k201 : premulChunk .srgb 201 = true := by decide +kernel
theorem premulsrgb_k202 : premulChunk .srgb 202 = true := by decide +kernel
theorem premulsrgb_k203 : premulChunk .srgb 203 = true := by decide +kernel
theorem premulsrgb_k204 : premulChunk .srgb 204 = true := by decide +kernel
theorem premulsrgb_k205 : premulChunk .srgb 205 = true := by decide +kernel
theorem premulsrgb_k206 : premulChunk .srgb 206 = true := by decide +kernel
theorem premulsrgb_k207 : premulChunk .srgb 207 = true := by decide +kernel

theorem premulsrgb_file12 : ∀ k, 192 ≤ k → k < 208 → premulChunk .srgb k = true := by
  intro k h1 h2
  have h : k = 192 ∨ k = 193 ∨ k = 194 ∨ k = 195 ∨ k = 196 ∨ k = 197 ∨ k = 198 ∨ k = 199 ∨ k = 200 ∨ k = 201 ∨ k = 202 ∨ k = 203 ∨ k = 204 ∨ k = 205 ∨ k = 206 ∨ k = 207 := by omega
  rcases h with rfl | rfl | rfl | rfl | rfl | rfl | rfl | rfl | rfl | rfl | rfl | rfl | rfl | rfl | rfl | rfl
  · exact premulsrgb_k192
  · exact premulsrgb_k193
  · exact premulsrgb_k194
  · exact premulsrgb_k195
  · exact premulsrgb_k196
  · exact premulsrgb_k197
  · exact premulsrgb_k198
  · exact premulsrgb_k199
  · exact premulsrgb_k200
  · exact premulsrgb_k201
  · exact premulsrgb_k202
  · exact premulsrgb_k203
  · exact premulsrgb_k204
  · exact premulsrgb_k205
  · exact premulsrgb_k206
  · exact premulsrgb_k207

end Prism.C14
