import Prism.Check.C14

/-! Kernel-checked chunks (generated boiler-plate, see lib/gen_static.py). -/
namespace Prism.C14

theorem premulsrgb_k208 : premulChunk .srgb 208 = true := by decide +kernel
theorem premulsrgb_k209 : premulChunk .srgb 209 = true := by decide +kernel
theorem premulsrgb_k210 : premulChunk .srgb 210 = true := by decide +kernel
theorem premulsrgb_k211 : premulChunk .srgb 211 = true := by decide +kernel
theorem premulsrgb_k212 : premulChunk .srgb 212 = true := by decide +kernel
theorem premulsrgb_k213 : premulChunk .srgb 213 = true := by decide +kernel
theorem premulsrgb_k214 : premulChunk .srgb 214 = true := by decide +kernel
theorem premulsrgb_k215 : premulChunk .srgb 215 = true := by decide +kernel
theorem premulsrgb_k216 : premulChunk .srgb 216 = true := by decide +kernel
theorem premulsrgb_k217 : premulChunk .srgb 217 = true := by decide +kernel
theorem premulsrgb_k218 : premulChunk .srgb 218 = true := by decide +kernel
theorem premulsrgb_k219 : premulChunk .srgb 219 = true := by decide +kernel
theorem premulsrgb_k220 : premulChunk .srgb 220 = true := by decide +kernel
theorem premulsrgb_k221 : premulChunk .srgb 221 = true := by decide +kernel
theorem premulsrgb_k222 : premulChunk .srgb 222 = true := by decide +kernel
theorem premulsrgb_k223 : premulChunk .srgb 223 = true := by decide +kernel

theorem premulsrgb_file13 : ∀ k, 208 ≤ k → k < 224 → premulChunk .srgb k = true := by
  intro k h1 h2
  have h : k = 208 ∨ k = 209 ∨ k = 210 ∨ k = 211 ∨ k = 212 ∨ k = 213 ∨ k = 214 ∨ k = 215 ∨ k = 216 ∨ k = 217 ∨ k = 218 ∨ k = 219 ∨ k = 220 ∨ k = 221 ∨ k = 222 ∨ k = 223 := by omega
  rcases h with rfl | rfl | rfl | rfl | rfl | rfl | rfl | rfl | rfl | rfl | rfl | rfl | rfl | rfl | rfl | rfl
  · exact premulsrgb_k208
  · exact premulsrgb_k209
  · exact premulsrgb_k210
  · exact premulsrgb_k211
  · exact premulsrgb_k212
  · exact premulsrgb_k213
  · exact premulsrgb_k214
  · exact premulsrgb_k215
  · exact premulsrgb_k216
  · exact premulsrgb_k217
  · exact premulsrgb_k218
  · exact premulsrgb_k219
  · exact premulsrgb_k220
  · exact premulsrgb_k221
  · exact premulsrgb_k222
  · exact premulsrgb_k223

end Prism.C14
