import Prism.Check.C14

/-! Kernel-checked chunks (generated boiler-plate, see lib/gen_static.py). -/
namespace Prism.C14

theorem premulsrgb_k224 : premulChunk .srgb 224 = true := by decide +kernel
theorem premulsrgb_k225 : premulChunk .srgb 225 = true := by decide +kernel
theorem premulsrgb_k226 : premulChunk .srgb 226 = true := by decide +kernel
theorem premulsrgb_k227 : premulChunk .srgb 227 = true := by decide +kernel
theorem premulsrgb_k228 : premulChunk .srgb 228 = true := by decide +kernel
theorem premulsrgb_k229 : premulChunk .srgb 229 = true := by decide +kernel
theorem premulsrgb_k230 : premulChunk .srgb 230 = true := by decide +kernel
theorem premulsrgb_k231 : premulChunk .srgb 231 = true := by decide +kernel
theorem premulsrgb_k232 : premulChunk .srgb 232 = true := by decide +kernel
theorem premulsrgb_k233 : premulChunk .srgb 233 = true := by decide +kernel
theorem premulsrgb_k234 : premulChunk .srgb 234 = true := by decide +kernel
theorem premulsrgb_k235 : premulChunk .srgb 235 = true := by decide +kernel
theorem premulsrgb_k236 : premulChunk .srgb 236 = true := by decide +kernel
theorem premulsrgb_k237 : premulChunk .srgb 237 = true := by decide +kernel
theorem premulsrgb_k238 : premulChunk .srgb 238 = true := by decide +kernel
theorem premulsrgb_k239 : premulChunk .srgb 239 = true := by decide +kernel

theorem premulsrgb_file14 : ∀ k, 224 ≤ k → k < 240 → premulChunk .srgb k = true := by
  intro k h1 h2
  have h : k = 224 ∨ k = 225 ∨ k = 226 ∨ k = 227 ∨ k = 228 ∨ k = 229 ∨ k = 230 ∨ k = 231 ∨ k = 232 ∨ k = 233 ∨ k = 234 ∨ k = 235 ∨ k = 236 ∨ k = 237 ∨ k = 238 ∨ k = 239 := by omega
  rcases h with rfl | rfl | rfl | rfl | rfl | rfl | rfl | rfl | rfl | rfl | rfl | rfl | rfl | rfl | rfl | rfl
  · exact premulsrgb_k224
  · exact premulsrgb_k225
  · exact premulsrgb_k226
  · exact premulsrgb_k227
  · exact premulsrgb_k228
  · exact premulsrgb_k229
  · exact premulsrgb_k230
  · exact premulsrgb_k231
  · exact premulsrgb_k232
  · exact premulsrgb_k233
  · exact premulsrgb_k234
  · exact premulsrgb_k235
  · exact premulsrgb_k236
  · exact premulsrgb_k237
  · exact premulsrgb_k238
  · exact premulsrgb_k239

end Prism.C14
