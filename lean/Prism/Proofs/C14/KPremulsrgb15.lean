import Prism.Check.C14

/-! Kernel-checked chunks (generated boiler-plate, see lib/gen_static.py). -/
namespace Prism.C14

theorem premulsrgb_k240 : premulChunk .srgb 240 = true := by decide +kernel
theorem premulsrgb_k241 : premulChunk .srgb 241 = true := by decide +kernel
theorem premulsrgb_k242 : premulChunk .srgb 242 = true := by decide +kernel
theorem premulsrgb_k243 : premulChunk .srgb 243 = true := by decide +kernel
theorem premulsrgb_k244 : premulChunk .srgb 244 = true := by decide +kernel
theorem premulsrgb_k245 : premulChunk .srgb 245 = true := by decide +kernel
theorem premulsrgb_k246 : premulChunk .srgb 246 = true := by decide +kernel
theorem premulsrgb_k247 : premulChunk .srgb 247 = true := by decide +kernel
theorem premulsrgb_k248 : premulChunk .srgb 248 = true := by decide +kernel
theorem premulsrgb_k249 : premulChunk .srgb 249 = true := by decide +kernel
theorem premulsrgb_k250 : premulChunk .srgb 250 = true := by decide +kernel
theorem premulsrgb_k251 : premulChunk .srgb 251 = true := by decide +kernel
theorem premulsrgb_k252 : premulChunk .srgb 252 = true := by decide +kernel
theorem premulsrgb_k253 : premulChunk .srgb 253 = true := by decide +kernel
theorem premulsrgb_k254 : premulChunk .srgb 254 = true := by decide +kernel
theorem premulsrgb_k255 : premulChunk .srgb 255 = true := by decide +kernel

theorem premulsrgb_file15 : ∀ k, 240 ≤ k → k < 256 → premulChunk .srgb k = true := by
  intro k h1 h2
  have h : k = 240 ∨ k = 241 ∨ k = 242 ∨ k = 243 ∨ k = 244 ∨ k = 245 ∨ k = 246 ∨ k = 247 ∨ k = 248 ∨ k = 249 ∨ k = 250 ∨ k = 251 ∨ k = 252 ∨ k = 253 ∨ k = 254 ∨ k = 255 := by omega
  rcases h with rfl | rfl | rfl | rfl | rfl | rfl | rfl | rfl | rfl | rfl | rfl | rfl | rfl | rfl | rfl | rfl
  · exact premulsrgb_k240
  · exact premulsrgb_k241
  · exact premulsrgb_k242
  · exact premulsrgb_k243
  · exact premulsrgb_k244
  · exact premulsrgb_k245
  · exact premulsrgb_k246
  · exact premulsrgb_k247
  · exact premulsrgb_k248
  · exact premulsrgb_k249
  · exact premulsrgb_k250
  · exact premulsrgb_k251
  · exact premulsrgb_k252
  · exact premulsrgb_k253
  · exact premulsrgb_k254
  · exact premulsrgb_k255

end Prism.C14
