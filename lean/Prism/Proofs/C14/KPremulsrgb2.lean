import Prism.Check.C14

/-! Kernel-checked chunks (generated boiler-plate, see lib/gen_static.py). -/
namespace Prism.C14

theorem premulsrgb_k32 : premulChunk .srgb 32 = true := by decide +kernel
theorem premulsrgb_k33 : premulChunk .srgb 33 = true := by decide +kernel
theorem premulsrgb_k34 : premulChunk .srgb 34 = true := by decide +kernel
theorem premulsrgb_k35 : premulChunk .srgb 35 = true := by decide +kernel
theorem premulsrgb_k36 : premulChunk .srgb 36 = true := by decide +kernel
theorem premulsrgb_k37 : premulChunk .srgb 37 = true := by decide +kernel
theorem premulsrgb_k38 : premulChunk .srgb 38 = true := by decide +kernel
theorem premulsrgb_k39 : premulChunk .srgb 39 = true := by decide +kernel
theorem premulsrgb_k40 : premulChunk .srgb 40 = true := by decide +kernel
theorem premulsrgb_k41 : premulChunk .srgb 41 = true := by decide +kernel
theorem premulsrgb_k42 : premulChunk .srgb 42 = true := by decide +kernel
theorem premulsrgb_k43 : premulChunk .srgb 43 = true := by decide +kernel
theorem premulsrgb_k44 : premulChunk .srgb 44 = true := by decide +kernel
theorem premulsrgb_k45 : premulChunk .srgb 45 = true := by decide +kernel
theorem premulsrgb_k46 : premulChunk .srgb 46 = true := by decide +kernel
theorem premulsrgb_k47 : premulChunk .srgb 47 = true := by decide +kernel

theorem premulsrgb_file2 : ∀ k, 32 ≤ k → k < 48 → premulChunk .srgb k = true := by
  intro k h1 h2
  have h : k = 32 ∨ k = 33 ∨ k = 34 ∨ k = 35 ∨ k = 36 ∨ k = 37 ∨ k = 38 ∨ k = 39 ∨ k = 40 ∨ k = 41 ∨ k = 42 ∨ k = 43 ∨ k = 44 ∨ k = 45 ∨ k = 46 ∨ k = 47 := by omega
  rcases h with rfl | rfl | rfl | rfl | rfl | rfl | rfl | rfl | rfl | rfl | rfl | rfl | rfl | rfl | rfl | rfl
  · exact premulsrgb_k32
  · exact premulsrgb_k33
  · exact premulsrgb_k34
  · exact premulsrgb_k35
  · exact premulsrgb_k36
  · exact premulsrgb_k37
  · exact premulsrgb_k38
  · exact premulsrgb_k39
  · exact premulsrgb_k40
  · exact premulsrgb_k41
  · exact premulsrgb_k42
  · exact premulsrgb_k43
  · exact premulsrgb_k44
  · exact premulsrgb_k45
  · exact premulsrgb_k46
  · exact premulsrgb_k47

end Prism.C14
