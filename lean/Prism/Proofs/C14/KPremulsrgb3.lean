import Prism.Check.C14

/-! Kernel-checked chunks (generated boiler-plate, see lib/gen_static.py). -/
namespace Prism.C14

theorem premulsrgb_k48 : premulChunk .srgb 48 = true := by decide +kernel
theorem premulsrgb_k49 : premulChunk .srgb 49 = true := by decide +kernel
theorem premulsrgb_k50 : premulChunk .srgb 50 = true := by decide +kernel
theorem premulsrgb_k51 : premulChunk .srgb 51 = true := by decide +kernel
theorem premulsrgb_k52 : premulChunk .srgb 52 = true := by decide +kernel
theorem premulsrgb_k53 : premulChunk .srgb 53 = true := by decide +kernel
theorem premulsrgb_k54 : premulChunk .srgb 54 = true := by decide +kernel
theorem premulsrgb_k55 : premulChunk .srgb 55 = true := by decide +kernel
theorem premulsrgb_k56 : premulChunk .srgb 56 = true := by decide +kernel
theorem premulsrgb_k57 : premulChunk .srgb 57 = true := by decide +kernel
theorem premulsrgb_k58 : premulChunk .srgb 58 = true := by decide +kernel
theorem premulsrgb_k59 : premulChunk .srgb 59 = true := by decide +kernel
theorem premulsrgb_k60 : premulChunk .srgb 60 = true := by decide +kernel
theorem premulsrgb_k61 : premulChunk .srgb 61 = true := by decide +kernel
theorem premulsrgb_k62 : premulChunk .srgb 62 = true := by decide +kernel
theorem premulsrgb_k63 : premulChunk .srgb 63 = true := by decide +kernel

theorem premulsrgb_file3 : ∀ k, 48 ≤ k → k < 64 → premulChunk .srgb k = true := by
  intro k h1 h2
  have h : k = 48 ∨ k = 49 ∨ k = 50 ∨ k = 51 ∨ k = 52 ∨ k = 53 ∨ k = 54 ∨ k = 55 ∨ k = 56 ∨ k = 57 ∨ k = 58 ∨ k = 59 ∨ k = 60 ∨ k = 61 ∨ k = 62 ∨ k = 63 := by omega
  rcases h with rfl | rfl | rfl | rfl | rfl | rfl | rfl | rfl | rfl | rfl | rfl | rfl | rfl | rfl | rfl | rfl
  · exact premulsrgb_k48
  · exact premulsrgb_k49
  · exact premulsrgb_k50
  · exact premulsrgb_k51
  · exact premulsrgb_k52
  · exact premulsrgb_k53
  · exact premulsrgb_k54
  · exact premulsrgb_k55
  · exact premulsrgb_k56
  · exact premulsrgb_k57
  · exact premulsrgb_k58
  · exact premulsrgb_k59
  · exact premulsrgb_k60
  · exact premulsrgb_k61
  · exact premulsrgb_k62
  · exact premulsrgb_k63

end Prism.C14
