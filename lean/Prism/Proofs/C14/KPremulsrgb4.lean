import Prism.Check.C14

/-! Kernel-checked chunks (generated boiler-plate, see lib/gen_static.py). -/
namespace Prism.C14

theorem premulsrgb_k64 : premulChunk .srgb 64 = true := by decide +kernel
theorem premulsrgb_k65 : premulChunk .srgb 65 = true := by decide +kernel
theorem premulsrgb_k66 : premulChunk .srgb 66 = true := by decide +kernel
theorem premulsrgb_k67 : premulChunk .srgb 67 = true := by decide +kernel
theorem premulsrgb_k68 : premulChunk .srgb 68 = true := by decide +kernel
theorem premulsrgb_k69 : premulChunk .srgb 69 = true := by decide +kernel
theorem premulsrgb_k70 : premulChunk .srgb 70 = true := by decide +kernel
theorem premulsrgb_k71 : premulChunk .srgb 71 = true := by decide +kernel
theorem premulsrgb_k72 : premulChunk .srgb 72 = true := by decide +kernel
theorem premulsrgb_k73 : premulChunk .srgb 73 = true := by decide +kernel
theorem premulsrgb_k74 : premulChunk .srgb 74 = true := by decide +kernel
theorem premulsrgb_k75 : premulChunk .srgb 75 = true := by decide +kernel
theorem premulsrgb_k76 : premulChunk .srgb 76 = true := by decide +kernel
theorem premulsrgb_k77 : premulChunk .srgb 77 = true := by decide +kernel
theorem premulsrgb_k78 : premulChunk .srgb 78 = true := by decide +kernel
theorem premulsrgb_k79 : premulChunk .srgb 79 = true := by decide +kernel

theorem premulsrgb_file4 : ∀ k, 64 ≤ k → k < 80 → premulChunk .srgb k = true := by
  intro k h1 h2
  have h : k = 64 ∨ k = 65 ∨ k = 66 ∨ k = 67 ∨ k = 68 ∨ k = 69 ∨ k = 70 ∨ k = 71 ∨ k = 72 ∨ k = 73 ∨ k = 74 ∨ k = 75 ∨ k = 76 ∨ k = 77 ∨ k = 78 ∨ k = 79 := by omega
  rcases h with rfl | rfl | rfl | rfl | rfl | rfl | rfl | rfl | rfl | rfl | rfl | rfl | rfl | rfl | rfl | rfl
  · exact premulsrgb_k64
  · exact premulsrgb_k65
  · exact premulsrgb_k66
  · exact premulsrgb_k67
  · exact premulsrgb_k68
  · exact premulsrgb_k69
  · exact premulsrgb_k70
  · exact premulsrgb_k71
  · exact premulsrgb_k72
  · exact premulsrgb_k73
  · exact premulsrgb_k74
  · exact premulsrgb_k75
  · exact premulsrgb_k76
  · exact premulsrgb_k77
  · exact premulsrgb_k78
  · exact premulsrgb_k79

end Prism.C14
