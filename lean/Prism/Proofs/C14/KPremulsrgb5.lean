import Prism.Check.C14

/-! Kernel-checked chunks (generated boiler-plate, see lib/gen_static.py). -/
namespace Prism.C14

theorem premulsrgb_k80 : premulChunk .srgb 80 = true := by decide +kernel
theorem premulsrgb_k81 : premulChunk .srgb 81 = true := by decide +kernel
theorem premulsrgb_k82 : premulChunk .srgb 82 = true := by decide +kernel
theorem premulsrgb_k83 : premulChunk .srgb 83 = true := by decide +kernel
theorem premulsrgb_k84 : premulChunk .srgb 84 = true := by decide +kernel
theorem premulsrgb_k85 : premulChunk .srgb 85 = true := by decide +kernel
theorem premulsrgb_k86 : premulChunk .srgb 86 = true := by decide +kernel
theorem premulsrgb_k87 : premulChunk .srgb 87 = true := by decide +kernel
theorem premulsrgb_k88 : premulChunk .srgb 88 = true := by decide +kernel
theorem premulsrgb_k89 : premulChunk .srgb 89 = true := by decide +kernel
theorem premulsrgb_k90 : premulChunk .srgb 90 = true := by decide +kernel
theorem premulsrgb_k91 : premulChunk .srgb 91 = true := by decide +kernel
theorem premulsrgb_k92 : premulChunk .srgb 92 = true := by decide +kernel
theorem premulsrgb_k93 : premulChunk .srgb 93 = true := by decide +kernel
theorem premulsrgb_k94 : premulChunk .srgb 94 = true := by decide +kernel
theorem premulsrgb_k95 : premulChunk .srgb 95 = true := by decide +kernel

theorem premulsrgb_file5 : ∀ k, 80 ≤ k → k < 96 → premulChunk .srgb k = true := by
  intro k h1 h2
  have h : k = 80 ∨ k = 81 ∨ k = 82 ∨ k = 83 ∨ k = 84 ∨ k = 85 ∨ k = 86 ∨ k = 87 ∨ k = 88 ∨ k = 89 ∨ k = 90 ∨ k = 91 ∨ k = 92 ∨ k = 93 ∨ k = 94 ∨ k = 95 := by omega
  rcases h with rfl | rfl | rfl | rfl | rfl | rfl | rfl | rfl | rfl | rfl | rfl | rfl | rfl | rfl | rfl | rfl
  · exact premulsrgb_k80
  · exact premulsrgb_k81
  · exact premulsrgb_k82
  · exact premulsrgb_k83
  · exact premulsrgb_k84
  · exact premulsrgb_k85
  · exact premulsrgb_k86
  · exact premulsrgb_k87
  · exact premulsrgb_k88
  · exact premulsrgb_k89
  · exact premulsrgb_k90
  · exact premulsrgb_k91
  · exact premulsrgb_k92
  · exact premulsrgb_k93
  · exact premulsrgb_k94
  · exact premulsrgb_k95

end Prism.C14
