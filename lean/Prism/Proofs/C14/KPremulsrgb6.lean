import Prism.Check.C14

/-! Kernel-checked chunks (generated boiler-plate, see lib/gen_static.py). -/
namespace Prism.C14

theorem premulsrgb_k96 : premulChunk .srgb 96 = true := by decide +kernel
theorem premulsrgb_k97 : premulChunk .srgb 97 = true := by decide +kernel
theorem premulsrgb_k98 : premulChunk .srgb 98 = true := by decide +kernel
theorem premulsrgb_k99 : premulChunk .srgb 99 = true := by decide +kernel
theorem premulsrgb_k100 : premulChunk .srgb 100 = true := by decide +kernel
theorem premulsrgb_k101 : premulChunk .srgb 101 = true := by decide +kernel
theorem premulsrgb_k102 : premulChunk .srgb 102 = true := by decide +kernel
theorem premulsrgb_k103 : premulChunk .srgb 103 = true := by decide +kernel
theorem premulsrgb_k104 : premulChunk .srgb 104 = true := by decide +kernel
theorem premulsrgb_k105 : premulChunk .srgb 105 = true := by decide +kernel
theorem premulsrgb_k106 : premulChunk .srgb 106 = true := by decide +kernel
theorem premulsrgb_k107 : premulChunk .srgb 107 = true := by decide +kernel
theorem premulsrgb_k108 : premulChunk .srgb 108 = true := by decide +kernel
theorem premulsrgb_k109 : premulChunk .srgb 109 = true := by decide +kernel
theorem premulsrgb_k110 : premulChunk .srgb 110 = true := by decide +kernel
theorem premulsrgb_k111 : premulChunk .srgb 111 = true := by decide +kernel

theorem premulsrgb_file6 : ∀ k, 96 ≤ k → k < 112 → premulChunk .srgb k = true := by
  intro k h1 h2
  have h : k = 96 ∨ k = 97 ∨ k = 98 ∨ k = 99 ∨ k = 100 ∨ k = 101 ∨ k = 102 ∨ k = 103 ∨ k = 104 ∨ k = 105 ∨ k = 106 ∨ k = 107 ∨ k = 108 ∨ k = 109 ∨ k = 110 ∨ k = 111 := by omega
  rcases h with rfl | rfl | rfl | rfl | rfl | rfl | rfl | rfl | rfl | rfl | rfl | rfl | rfl | rfl | rfl | rfl
  · exact premulsrgb_k96
  · exact premulsrgb_k97
  · exact premulsrgb_k98
  · exact premulsrgb_k99
  · exact premulsrgb_k100
  · exact premulsrgb_k101
  · exact premulsrgb_k102
  · exact premulsrgb_k103
  · exact premulsrgb_k104
  · exact premulsrgb_k105
  · exact premulsrgb_k106
  · exact premulsrgb_k107
  · exact premulsrgb_k108
  · exact premulsrgb_k109
  · exact premulsrgb_k110
  · exact premulsrgb_k111

end Prism.C14
