import Prism.Check.C14

/-! Kernel-checked chunks (generated boiler-plate, see lib/gen_static.py). -/
namespace Prism.C14

theorem premulsrgb_k112 : premulChunk .srgb 112 = true := by decide +kernel
theorem premulsrgb_k113 : premulChunk .srgb 113 = true := by decide +kernel
theorem premulsrgb_k114 : premulChunk .srgb 114 = true := by decide +kernel
theorem premulsrgb_k115 : premulChunk .srgb 115 = true := by decide +kernel
theorem premulsrgb_k116 : premulChunk .srgb 116 = true := by decide +kernel
theorem premulsrgb_k117 : premulChunk .srgb 117 = true := by decide +kernel
theorem premulsrgb_k118 : premulChunk .srgb 118 = true := by decide +kernel
theorem premulsrgb_k119 : premulChunk .srgb 119 = true := by decide +kernel
theorem premulsrgb_k120 : premulChunk .srgb 120 = true := by decide +kernel
theorem premulsrgb_k121 : premulChunk .srgb 121 = true := by decide +kernel
theorem premulsrgb_k122 : premulChunk .srgb 122 = true := by decide +kernel
theorem premulsrgb_k123 : premulChunk .srgb 123 = true := by decide +kernel
theorem premulsrgb_k124 : premulChunk .srgb 124 = true := by decide +kernel
theorem premulsrgb_k125 : premulChunk .srgb 125 = true := by decide +kernel
theorem premulsrgb_k126 : premulChunk .srgb 126 = true := by decide +kernel
theorem premulsrgb_k127 : premulChunk .srgb 127 = true := by decide +kernel

theorem premulsrgb_file7 : ∀ k, 112 ≤ k → k < 128 → premulChunk .srgb k = true := by
  intro k h1 h2
  have h : k = 112 ∨ k = 113 ∨ k = 114 ∨ k = 115 ∨ k = 116 ∨ k = 117 ∨ k = 118 ∨ k = 119 ∨ k = 120 ∨ k = 121 ∨ k = 122 ∨ k = 123 ∨ k = 124 ∨ k = 125 ∨ k = 126 ∨ k = 127 := by omega
  rcases h with rfl | rfl | rfl | rfl | rfl | rfl | rfl | rfl | rfl | rfl | rfl | rfl | rfl | rfl | rfl | rfl
  · exact premulsrgb_k112
  · exact premulsrgb_k113
  · exact premulsrgb_k114
  · exact premulsrgb_k115
  · exact premulsrgb_k116
  · exact premulsrgb_k117
  · exact premulsrgb_k118
  · exact premulsrgb_k119
  · exact premulsrgb_k120
  · exact premulsrgb_k121
  · exact premulsrgb_k122
  · exact premulsrgb_k123
  · exact premulsrgb_k124
  · exact premulsrgb_k125
  · exact premulsrgb_k126
  · exact premulsrgb_k127

end Prism.C14
