import Prism.Check.C14

/-! Kernel-checked chunks (generated boiler-plate, see lib/gen_static.py). -/
namespace Prism.C14

theorem premulsrgb_k128 : premulChunk .srgb 128 = true := by decide +kernel
theorem premulsrgb_k129 : premulChunk .srgb 129 = true := by decide +kernel
theorem premulsrgb_k130 : premulChunk .srgb 130 = true := by decide +kernel
theorem premulsrgb_k131 : premulChunk .srgb 131 = true := by decide +kernel
theorem premulsrgb_k132 : premulChunk .srgb 132 = true := by decide +kernel
theorem premulsrgb_k133 : premulChunk .srgb 133 = true := by decide +kernel
theorem premulsrgb_k134 : premulChunk .srgb 134 = true := by decide +kernel
theorem premulsrgb_k135 : premulChunk .srgb 135 = true := by decide +kernel
theorem premulsrgb_k136 : premulChunk .srgb 136 = true := by decide +kernel
theorem premulsrgb_k137 : premulChunk .srgb 137 = true := by decide +kernel
theorem premulsrgb_k138 : premulChunk .srgb 138 = true := by decide +kernel
theorem premulsrgb_k139 : premulChunk .srgb 139 = true := by decide +kernel
theorem premulsrgb_k140 : premulChunk .srgb 140 = true := by decide +kernel
theorem premulsrgb_k141 : premulChunk .srgb 141 = true := by decide +kernel
theorem premulsrgb_k142 : premulChunk .srgb 142 = true := by decide +kernel
theorem premulsrgb_k143 : premulChunk .srgb 143 = true := by decide +kernel

theorem premulsrgb_file8 : ∀ k, 128 ≤ k → k < 144 → premulChunk .srgb k = true := by
  intro k h1 h2
  have h : k = 128 ∨ k = 129 ∨ k = 130 ∨ k = 131 ∨ k = 132 ∨ k = 133 ∨ k = 134 ∨ k = 135 ∨ k = 136 ∨ k = 137 ∨ k = 138 ∨ k = 139 ∨ k = 140 ∨ k = 141 ∨ k = 142 ∨ k = 143 := by omega
  rcases h with rfl | rfl | rfl | rfl | rfl | rfl | rfl | rfl | rfl | rfl | rfl | rfl | rfl | rfl | rfl | rfl
  · exact premulsrgb_k128
  · exact premulsrgb_k129
  · exact premulsrgb_k130
  · exact premulsrgb_k131
  · exact premulsrgb_k132
  · exact premulsrgb_k133
  · exact premulsrgb_k134
  · exact premulsrgb_k135
  · exact premulsrgb_k136
  · exact premulsrgb_k137
  · exact premulsrgb_k138
  · exact premulsrgb_k139
  · exact premulsrgb_k140
  · exact premulsrgb_k141
  · exact premulsrgb_k142
  · exact premulsrgb_k143

end Prism.C14
