import Prism.Check.C14

/-! Kernel-checked chunks (generated boiler-plate, see lib/gen_static.py). -/
namespace Prism.C14

theorem premulsrgb_k144 : premulChunk .srgb 144 = true := by decide +kernel
theorem premulsrgb_k145 : premulChunk .srgb 145 = true := by decide +kernel
theorem premulsrgb_k146 : premulChunk .srgb 146 = true := by decide +kernel
theorem premulsrgb_k147 : premulChunk .srgb 147 = true := by decide +kernel
theorem premulsrgb_k148 : premulChunk .srgb 148 = true := by decide +kernel
theorem premulsrgb_k149 : premulChunk .srgb 149 = true := by decide +kernel
theorem premulsrgb_k150 : premulChunk .srgb 150 = true := by decide +kernel
theorem premulsrgb_k151 : premulChunk .srgb 151 = true := by decide +kernel
theorem premulsrgb_k152 : premulChunk .srgb 152 = true := by decide +kernel
theorem premulsrgb_k153 : premulChunk .srgb 153 = true := by decide +kernel
theorem premulsrgb_k154 : premulChunk .srgb 154 = true := by decide +kernel
theorem premulsrgb_k155 : premulChunk .srgb 155 = true := by decide +kernel
theorem premulsrgb_k156 : premulChunk .srgb 156 = true := by decide +kernel
theorem premulsrgb_k157 : premulChunk .srgb 157 = true := by decide +kernel
theorem premulsrgb_k158 : premulChunk .srgb 158 = true := by decide +kernel
theorem premulsrgb_k159 : premulChunk .srgb 159 = true := by decide +kernel

theorem premulsrgb_file9 : ∀ k, 144 ≤ k → k < 160 → premulChunk .srgb k = true := by
  intro k h1 h2
  have h : k = 144 ∨ k = 145 ∨ k = 146 ∨ k = 147 ∨ k = 148 ∨ k = 149 ∨ k = 150 ∨ k = 151 ∨ k = 152 ∨ k = 153 ∨ k = 154 ∨ k = 155 ∨ k = 156 ∨ k = 157 ∨ k = 158 ∨ k = 159 := by omega
  rcases h with rfl | rfl | rfl | rfl | rfl | rfl | rfl | rfl | rfl | rfl | rfl | rfl | rfl | rfl | rfl | rfl
  · exact premulsrgb_k144
  · exact premulsrgb_k145
  · exact premulsrgb_k146
  · exact premulsrgb_k147
  · exact premulsrgb_k148
  · exact premulsrgb_k149
  · exact premulsrgb_k150
  · exact premulsrgb_k151
  · exact premulsrgb_k152
  · exact premulsrgb_k153
  · exact premulsrgb_k154
  · exact premulsrgb_k155
  · exact premulsrgb_k156
  · exact premulsrgb_k157
  · exact premulsrgb_k158
  · exact premulsrgb_k159

end Prism.C14
