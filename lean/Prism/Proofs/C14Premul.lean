import Prism.Proofs.C02Mono
import Prism.Proofs.C01
import Prism.Proofs.C14.AllPremulsrgb
import Prism.Proofs.C14.AllPremuladobe
import Prism.Proofs.C14.AllPremulprophoto
import Prism.Proofs.C14.AllPremulp3

/-!
# C14: linearising a valid premultiplied pixel gives a valid premultiplied pixel — every pixel

For a fixed alpha `a`, the linearised channel `quant16 (fl (fl (dec16 r / α) · α))` is monotone in
the channel value `r` (the decode table is increasing — C01 —, division, multiplication and the
quantiser are monotone — `SFLemmas`, `C02Mono`).  At `r = a` it is at most `a` (kernel evaluation
for all 65 535 alphas of each space).  Hence `r ≤ a` implies the linearised channel is `≤ a`, for
all 2.1·10⁹ (channel, alpha) pairs of each curve.
-/

namespace Prism
open SF

theorem premul_chunks (s : Space) : ∀ k, k < 256 → premulChunk s k = true := by
  cases s
  · exact C14.premulsrgb_chunks
  · exact C14.premuladobe_chunks
  · exact C14.premulprophoto_chunks
  · exact C14.premulp3_chunks

theorem premulTop_ok (s : Space) (a : Nat) (ha : a < 65536) : premulTop s a = true :=
  allDepth_spec _ 8 _ (premul_chunks s (a / 256) (by omega)) a (by omega) (by omega)

/-- natural-number order of non-negative finite patterns is the IEEE order -/
theorem F32le_of_le (x y : Nat) (hy : y < 2139095040) (h : x ≤ y) : F32.le x y = true := by
  unfold F32.le SF.le SF.lt SF.eq isNaN isZero isNeg absBits
  simp only [force_eq, b32_consts.1, b32_consts.2]
  have hmx : x % 2147483648 = x := Nat.mod_eq_of_lt (by omega)
  have hmy : y % 2147483648 = y := Nat.mod_eq_of_lt (by omega)
  have hbx : Nat.ble 2147483648 x = false := ble_false (by omega)
  have hby : Nat.ble 2147483648 y = false := ble_false (by omega)
  have hnx : Nat.blt 2139095040 x = false := blt_false (by omega)
  have hny : Nat.blt 2139095040 y = false := blt_false (by omega)
  by_cases hxy : x = y
  · subst hxy; simp [hmx, hbx, hnx]
  · have hlt : Nat.blt x y = true := Nat.blt_eq.mpr (by omega)
    by_cases hz : x = 0 ∧ y = 0
    · omega
    · simp [hmx, hmy, hbx, hby, hnx, hny, hlt]
      omega

/-- one channel of `LineariseColor` for a pixel with alpha `a ≠ 0` -/
def linChannel (s : Space) (r a : Nat) : Nat :=
  quant16 (F32.mul (F32.div (dec16 s (r % 65536)) (F32.div (F32.ofNat a) f65535)) (F32.div (F32.ofNat a) f65535))

theorem lineariseColor_channels (s : Space) (r g b a : Nat) (h0 : a ≠ 0) :
    (lineariseColor s r g b a).r = linChannel s r a ∧ (lineariseColor s r g b a).g = linChannel s g a ∧
    (lineariseColor s r g b a).b = linChannel s b a := by
  have : (a == 0) = false := by simpa using h0
  unfold lineariseColor fromEncoded toLinearRGBA64 linChannel
  simp only [this, Bool.false_eq_true, if_false]
  exact ⟨trivial, trivial, trivial⟩

/-- **C14 (premultiplied stays valid — one channel).** -/
theorem linChannel_le (s : Space) (r a : Nat) (hra : r ≤ a) (ha : a < 65536) (h0 : a ≠ 0) : linChannel s r a ≤ a := by
  have ht := premulTop_ok s a ha
  unfold premulTop at ht
  have : (a == 0) = false := by simpa using h0
  simp only [this, Bool.false_or, force_eq, Bool.and_eq_true, Nat.blt_eq, Nat.ble_eq] at ht
  obtain ⟨⟨⟨⟨hα0, hαf⟩, hcf⟩, hmf⟩, htop⟩ := ht
  unfold linChannel
  have hr : r % 65536 = r := Nat.mod_eq_of_lt (by omega)
  rw [hr]
  generalize hα : F32.div (F32.ofNat a) f65535 = α at *
  have hinf := b32_consts.2
  -- the decode table is increasing
  have hdec : dec16 s r ≤ dec16 s a := by
    rcases Nat.lt_or_ge r a with hlt | hge
    · exact Nat.le_of_lt (C01_strict_mono16 s r a hlt ha)
    · have : r = a := by omega
      subst this; exact Nat.le_refl _
  have hda : FinPos b32 (dec16 s a) := by
    unfold FinPos; rw [hinf]
    have := dec16_le_one s a ha
    omega
  have hαF : FinPos b32 α := by unfold FinPos; rw [hinf]; exact hαf
  -- un-premultiply, re-premultiply: monotone
  have d1 : F32.div (dec16 s r) α ≤ F32.div (dec16 s a) α := div_mono b32 b32_ok _ _ _ hda hαF hα0 hdec
  have hcF : FinPos b32 (F32.div (dec16 s a) α) := by unfold FinPos; rw [hinf]; exact hcf
  have m1 : F32.mul (F32.div (dec16 s r) α) α ≤ F32.mul (F32.div (dec16 s a) α) α :=
    mul_mono b32 b32_ok _ _ _ hcF hαF d1
  -- the quantiser is monotone
  have hle : F32.le (F32.mul (F32.div (dec16 s r) α) α) (F32.mul (F32.div (dec16 s a) α) α) = true :=
    F32le_of_le _ _ hmf m1
  have hbound : ∀ v : Nat, v < 2139095040 → v < 4294967296 := fun v hv => by omega
  have q := quant_mono 65535 quantOk_65535 _ _ (hbound _ (by omega)) (hbound _ hmf) hle
  unfold quant16 at htop ⊢
  omega

/-- **C14 (premultiplied stays valid).** For every space and every 16-bit premultiplied pixel
`(r, g, b, a)` with `r, g, b ≤ a`: every channel of `LineariseColor`'s result is at most its alpha
channel, which is `a` itself. -/
theorem C14_premultiplied_valid (s : Space) (r g b a : Nat) (ha : a < 65536) (hr : r ≤ a) (hg : g ≤ a) (hb : b ≤ a) :
    let p := lineariseColor s r g b a
    p.r ≤ p.a ∧ p.g ≤ p.a ∧ p.b ≤ p.a ∧ p.a = a := by
  by_cases h0 : a = 0
  · subst h0
    have := (C14_transparent_pixel s r g b).1
    simp only [this]
    exact ⟨Nat.le_refl _, Nat.le_refl _, Nat.le_refl _, trivial⟩
  · have hch := lineariseColor_channels s r g b a h0
    have hal := C14_linearise_alpha s r g b a ha h0
    simp only [hch.1, hch.2.1, hch.2.2, hal]
    exact ⟨linChannel_le s r a hr ha h0, linChannel_le s g a hg ha h0, linChannel_le s b a hb ha h0, trivial⟩

/-! ### Opaque colours: the three constructors agree -/

def divOneOk (s : Space) : Bool := allDepth (fun v => F32.div (dec8 s v) F32.one == dec8 s v) 0 8

theorem divOne_ok (s : Space) : divOneOk s = true := by cases s <;> decide +kernel

theorem alpha_opaque : F32.div (F32.ofNat 255) f255 = F32.one ∧ F32.div (F32.ofNat 65535) f65535 = F32.one := by
  constructor <;> decide +kernel

/-- **C14 (opaque colours).** For an opaque 8-bit colour the non-premultiplied constructor
(`ColorFromNRGBA`), the premultiplied constructor (`ColorFromRGBA`) and the generic-colour path
(`RGBFromEncoded` on the 16-bit components `257·v` that `RGBA()` returns) give the same linear
value and alpha exactly 1. -/
theorem C14_opaque_constructors (s : Space) (r g b : Nat) (hr : r < 256) (hg : g < 256) (hb : b < 256) :
    fromRGBA s r g b 255 = fromNRGBA s r g b 255 ∧
    fromEncoded s (257 * r) (257 * g) (257 * b) 65535 = fromNRGBA s r g b 255 ∧
    (fromNRGBA s r g b 255).2 = F32.one := by
  have hd : ∀ v, v < 256 → F32.div (dec8 s v) F32.one = dec8 s v := by
    intro v hv
    have := allDepth_spec _ 8 _ (divOne_ok s) v (by omega) (by omega)
    simpa using this
  have h16 : ∀ v, v < 256 → dec16 s (257 * v % 65536) = dec8 s v := by
    intro v hv
    rw [Nat.mod_eq_of_lt (by omega), C01_dec8_eq_dec16 s v hv]
  unfold fromRGBA fromNRGBA fromEncoded
  have e1 : ((255:Nat) == 0) = false := by decide
  have e2 : ((65535:Nat) == 0) = false := by decide
  simp only [alpha_opaque.1, alpha_opaque.2, hd r hr, hd g hg, hd b hb, h16 r hr, h16 g hg, h16 b hb, e1, e2,
    Bool.false_eq_true, if_false]
  exact ⟨trivial, trivial, trivial⟩

end Prism
