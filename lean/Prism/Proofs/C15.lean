import Prism.Model.Image

/-!
# C15 — image type conversion helpers equal the standard library's conversion (partial)

`draw.Draw(dst, r, src, r.Min, draw.Src)` into a fresh image of the target type stores, for every
pixel, the target colour model's conversion of `src.At(p)` — in the model, `pixelBytes target
(src RGBA())` written at the pixel's offset (`transform … id`).  The helpers' hand-written fast
paths are byte shuffles and standard-library colour arithmetic; the identities below say those
produce the same bytes, for every pixel value.  The index logic (row striping, offsets, frame)
is C10's.

Partial: `draw.Draw`, `image.*.At/Set`, `color.*Model.Convert` are the standard library's and
are modelled (`Prism/Model/Image.lean`), validated against the real ones by the correspondence
stream (every helper × every source type × parallelism, and the `ycc`/`nrgba` arithmetic probes).
-/

namespace Prism.Img

/-- **RGBA64 → RGBA fast path.** The helper copies bytes 0, 2, 4, 6 of the 8-byte pixel: these are
the high bytes — exactly what the RGBA model's conversion stores. -/
theorem C15_rgba64_to_rgba (c : Px) :
    let b := pixelBytes .rgba64 c
    [b.getD 0 0, b.getD 2 0, b.getD 4 0, b.getD 6 0] = pixelBytes .rgba c := rfl

/-- **RGBA → RGBA64 fast path.** The helper duplicates each byte; the 16-bit value of an 8-bit
component `v` is `v·0x101`, whose high and low bytes are both `v`. -/
theorem C15_rgba_to_rgba64 (r g b a : Nat) (hr : r < 256) (hg : g < 256) (hb : b < 256) (ha : a < 256) :
    pixelBytes .rgba64 ⟨r * 257, g * 257, b * 257, a * 257⟩ =
      [UInt8.ofNat r, UInt8.ofNat r, UInt8.ofNat g, UInt8.ofNat g, UInt8.ofNat b, UInt8.ofNat b, UInt8.ofNat a, UInt8.ofNat a] := by
  have h : ∀ v, v < 256 → hi (v * 257) = UInt8.ofNat v ∧ lo (v * 257) = UInt8.ofNat v := by
    intro v hv
    have h0 : v * 257 / 256 = v := by omega
    have h1 : v * 257 / 256 % 256 = v := by rw [h0]; exact Nat.mod_eq_of_lt hv
    have h2 : v * 257 % 256 = v := by omega
    unfold hi lo
    rw [h1, h2]; exact ⟨rfl, rfl⟩
  simp only [pixelBytes, (h r hr).1, (h r hr).2, (h g hg).1, (h g hg).2, (h b hb).1, (h b hb).2, (h a ha).1, (h a ha).2]

/-- **YCbCr fast paths.** `color.YCbCrToRGB` (8-bit, used by the NRGBA helper with A = 255) is the
high byte of `color.YCbCr.RGBA()` (16-bit, used by the RGBA64 helper): for *every* `(Y, Cb, Cr)` —
all 2²⁴ triples, proved symbolically. -/
theorem C15_ycbcr_8_is_high_byte_of_16 (y cb cr : Nat) :
    ycbcrToRGB y cb cr = ((ycbcrRGBA y cb cr).r / 256, (ycbcrRGBA y cb cr).g / 256, (ycbcrRGBA y cb cr).b / 256) := by
  have key : ∀ v : Int, (if v / 65536 < 0 then 0 else if v / 65536 > 255 then 255 else (v / 65536).toNat) =
      (if v / 256 < 0 then 0 else if v / 256 > 65535 then 65535 else (v / 256).toNat) / 256 := by
    intro v
    by_cases hneg : v < 0
    · have a1 : v / 65536 < 0 := by omega
      have a2 : v / 256 < 0 := by omega
      rw [if_pos a1, if_pos a2]
    · by_cases hbig : v ≥ 16777216
      · have a1 : ¬ v / 65536 < 0 := by omega
        have a2 : v / 65536 > 255 := by omega
        have a3 : ¬ v / 256 < 0 := by omega
        have a4 : v / 256 > 65535 := by omega
        rw [if_neg a1, if_pos a2, if_neg a3, if_pos a4]
      · have a1 : ¬ v / 65536 < 0 := by omega
        have a2 : ¬ v / 65536 > 255 := by omega
        have a3 : ¬ v / 256 < 0 := by omega
        have a4 : ¬ v / 256 > 65535 := by omega
        rw [if_neg a1, if_neg a2, if_neg a3, if_neg a4]
        omega
  unfold ycbcrToRGB ycbcrRGBA
  simp only [key]

/-- the NRGBA helper's YCbCr pixel `(r, g, b, 255)` is what the NRGBA model makes of the opaque
16-bit colour -/
theorem C15_ycbcr_nrgba (y cb cr : Nat) :
    toNRGBA8 (ycbcrRGBA y cb cr) =
      ⟨(ycbcrToRGB y cb cr).1, (ycbcrToRGB y cb cr).2.1, (ycbcrToRGB y cb cr).2.2, 0xff⟩ := by
  rw [C15_ycbcr_8_is_high_byte_of_16]
  unfold toNRGBA8
  have : (ycbcrRGBA y cb cr).a = 0xffff := rfl
  simp [this]

/-- **NRGBA → RGBA64.** The helper stores `NRGBAAt(p).RGBA()`; for an opaque pixel that is `v·0x101` per
channel -/
theorem C15_nrgba_opaque (r g b : Nat) : nrgbaRGBA r g b 255 = ⟨r * 257, g * 257, b * 257, 0xffff⟩ := by
  unfold nrgbaRGBA
  congr 1 <;> omega

/-- a fully transparent NRGBA pixel premultiplies to zero -/
theorem C15_nrgba_transparent (r g b : Nat) : nrgbaRGBA r g b 0 = ⟨0, 0, 0, 0⟩ := by
  unfold nrgbaRGBA; simp

/-- **`draw.Draw` into an `*image.NRGBA` is the colour model on every valid premultiplied colour.**  The generic helper path
(`draw.Draw`, which writes through `SetRGBA64`) and `color.NRGBAModel.Convert` agree whenever `r, g, b ≤ a` — for every such
16-bit colour. -/
theorem C15_draw_nrgba_is_model_on_valid (c : Px) (hr : c.r ≤ c.a) (hg : c.g ≤ c.a) (hb : c.b ≤ c.a) (ha : c.a ≤ 0xffff) :
    toNRGBA8Draw c = toNRGBA8 c := by
  unfold toNRGBA8Draw toNRGBA8
  by_cases h1 : c.a = 0xffff
  · have e1 : c.r / 256 % 256 = c.r / 256 := Nat.mod_eq_of_lt (by omega)
    have e2 : c.g / 256 % 256 = c.g / 256 := Nat.mod_eq_of_lt (by omega)
    have e3 : c.b / 256 % 256 = c.b / 256 := Nat.mod_eq_of_lt (by omega)
    simp [h1, e1, e2, e3]
  · by_cases h0 : c.a = 0
    · have r0 : c.r = 0 := by omega
      have g0 : c.g = 0 := by omega
      have b0 : c.b = 0 := by omega
      simp [h0, r0, g0, b0]
    · simp [h1, h0]

/-- …and they differ on a stored pixel with alpha 0 and a non-zero colour (legal to store, produced by no decoder):
`SetRGBA64` keeps the colour bytes, the colour model zeroes them.  The helper, being `draw.Draw`, does what `draw.Draw` does. -/
theorem C15_draw_nrgba_keeps_colour_at_alpha_zero :
    toNRGBA8Draw ⟨0x3f3f, 0xecec, 0xe6e6, 0⟩ = ⟨0x3f, 0xec, 0xe6, 0⟩ ∧ toNRGBA8 ⟨0x3f3f, 0xecec, 0xe6e6, 0⟩ = ⟨0, 0, 0, 0⟩ := by
  decide

end Prism.Img
