import Prism.Spec.IccHeader

/-!
# C16 — ICC header fields are decoded exactly as ICC.1 lays them out

The header reader is run *symbolically* on a header whose 124 free bytes are universally
quantified variables (the four signature bytes are 'acsp'): the statement covers all 2^992
such headers at once, and whatever follows them.
-/
namespace Prism.Icc
open Prism

set_option maxRecDepth 100000 in
set_option maxHeartbeats 4000000 in
/-- **C16 (field layout).** For every header with the 'acsp' signature and every continuation `rest`,
`readHeader` succeeds, consumes exactly 128 bytes, and each field is the big-endian value at the
offset ICC.1 assigns to it (flags: bit 0 = embedded, bit 1 = cannot be used independently, counting
from the least significant bit of the 32-bit field at offset 44). -/
theorem C16_header_fields (b0 b1 b2 b3 b4 b5 b6 b7 b8 b9 b10 b11 b12 b13 b14 b15 b16 b17 b18 b19 b20 b21 b22 b23 b24 b25 b26 b27 b28 b29 b30 b31 b32 b33 b34 b35 b40 b41 b42 b43 b44 b45 b46 b47 b48 b49 b50 b51 b52 b53 b54 b55 b56 b57 b58 b59 b60 b61 b62 b63 b64 b65 b66 b67 b68 b69 b70 b71 b72 b73 b74 b75 b76 b77 b78 b79 b80 b81 b82 b83 b84 b85 b86 b87 b88 b89 b90 b91 b92 b93 b94 b95 b96 b97 b98 b99 b100 b101 b102 b103 b104 b105 b106 b107 b108 b109 b110 b111 b112 b113 b114 b115 b116 b117 b118 b119 b120 b121 b122 b123 b124 b125 b126 b127 : UInt8) (rest : List UInt8) (e : IOErr) (zl : Prog.Inflate) :
    Prog.runPure zl readHeader.run (hdr b0 b1 b2 b3 b4 b5 b6 b7 b8 b9 b10 b11 b12 b13 b14 b15 b16 b17 b18 b19 b20 b21 b22 b23 b24 b25 b26 b27 b28 b29 b30 b31 b32 b33 b34 b35 b40 b41 b42 b43 b44 b45 b46 b47 b48 b49 b50 b51 b52 b53 b54 b55 b56 b57 b58 b59 b60 b61 b62 b63 b64 b65 b66 b67 b68 b69 b70 b71 b72 b73 b74 b75 b76 b77 b78 b79 b80 b81 b82 b83 b84 b85 b86 b87 b88 b89 b90 b91 b92 b93 b94 b95 b96 b97 b98 b99 b100 b101 b102 b103 b104 b105 b106 b107 b108 b109 b110 b111 b112 b113 b114 b115 b116 b117 b118 b119 b120 b121 b122 b123 b124 b125 b126 b127 ++ rest) e {} =
      (.ok (specHeader b0 b1 b2 b3 b4 b5 b6 b7 b8 b9 b10 b11 b12 b13 b14 b15 b16 b17 b18 b19 b20 b21 b22 b23 b24 b25 b26 b27 b28 b29 b30 b31 b32 b33 b34 b35 b40 b41 b42 b43 b44 b45 b46 b47 b48 b49 b50 b51 b52 b53 b54 b55 b56 b57 b58 b59 b60 b61 b62 b63 b64 b65 b66 b67 b68 b69 b70 b71 b72 b73 b74 b75 b76 b77 b78 b79 b80 b81 b82 b83 b84 b85 b86 b87 b88 b89 b90 b91 b92 b93 b94 b95 b96 b97 b98 b99 b100 b101 b102 b103 b104 b105 b106 b107 b108 b109 b110 b111 b112 b113 b114 b115 b116 b117 b118 b119 b120 b121 b122 b123 b124 b125 b126 b127), { consumed := 128, steps := 113, alloc := 16 }) := by
  rfl

/-- the 64-bit attributes field: the two 32-bit halves are the 8-byte big-endian value -/
theorem C16_attributes_is_be64 (a b c d e f g h : UInt8) :
    be [a, b, c, d] * 4294967296 + be [e, f, g, h] = be [a, b, c, d, e, f, g, h] := by
  simp only [be, List.foldl]
  omega

/-- bit 0 / bit 1 of the flags field are bit 0 / bit 1 of its last (least significant) byte -/
theorem C16_flag_bits (a b c d : UInt8) :
    be [a, b, c, d] % 2 = d.toNat % 2 ∧ (be [a, b, c, d] / 2) % 2 = (d.toNat / 2) % 2 := by
  simp only [be, List.foldl]
  omega

/-- **C16 (version).** The version renders as `major.minor.bugfix` from the two BCD nibbles of the
second version byte. -/
theorem C16_version_string (major minorRev : Nat) :
    versionString major minorRev = s!"{major}.{minorRev / 16}.{minorRev % 16}" := rfl

/-- **C16 (signature required).** A header whose bytes 36..39 are not 'acsp' is rejected. -/
theorem C16_bad_signature_rejected (p0 p1 p2 p3 p4 p5 p6 p7 p8 p9 p10 p11 p12 p13 p14 p15 p16 p17 p18 p19 p20 p21 p22 p23 p24 p25 p26 p27 p28 p29 p30 p31 p32 p33 p34 p35 s0 s1 s2 s3 : UInt8) (rest : List UInt8)
    (hsig : ((s0.toNat * 256 + s1.toNat) * 256 + s2.toNat) * 256 + s3.toNat ≠ acsp) (e : IOErr) (zl : Prog.Inflate) :
    (Prog.runPure zl readHeader.run ([p0, p1, p2, p3, p4, p5, p6, p7, p8, p9, p10, p11, p12, p13, p14, p15, p16, p17, p18, p19, p20, p21, p22, p23, p24, p25, p26, p27, p28, p29, p30, p31, p32, p33, p34, p35, s0, s1, s2, s3] ++ rest) e {}).1 =
      .error (.bad "invalid profile file signature") := by
  have h : (((s0.toNat * 256 + s1.toNat) * 256 + s2.toNat) * 256 + s3.toNat != acsp) = true := by
    simpa using hsig
  simp only [List.cons_append, List.nil_append, readHeader, bind, ExceptT.bind, ExceptT.mk, ExceptT.run,
    Prog.bind, Parser.u32be, Parser.u16be, Parser.byte, Prog.runPure, ExceptT.bindCont, pure, ExceptT.pure,
    Parser.fail, h, if_true]

end Prism.Icc
