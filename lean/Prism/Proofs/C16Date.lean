import Prism.Model.Icc

/-!
# C16 — the creation date as an instant: the model's day count is the proleptic Gregorian calendar

`Header.CreatedAt` is `time.Date(y, mo, d, h, mi, s, 0, time.UTC)`; the model computes its Unix time with a closed-form day
count (`createdAtUnix`).  Here that closed form is shown to *be* the calendar, independently of Go's `time` package: the day
count of the first of a month is the day count of the first of the previous month plus that month's length — 31/30, and for
February 29 exactly when the year is divisible by 4 and not by 100, or by 400 — for **every** year (no bound), January follows
December, and 1970-01-01 is day 0.  These three facts determine the function on every calendar date; days, hours, minutes and
seconds are added linearly by definition (so out-of-range components carry over, as `time.Date` documents).
-/

namespace Prism.Icc

/-- days from 1970-01-01 to the first day of month `m` of year `y` -/
def dayOfMonthStart (y m : Nat) : Int := createdAtUnix.daysToMonthShift (y + 1) m

def isLeap (y : Nat) : Prop := (y % 4 = 0 ∧ y % 100 ≠ 0) ∨ y % 400 = 0

instance (y : Nat) : Decidable (isLeap y) := by unfold isLeap; infer_instance

/-- length of month `m` of year `y` -/
def monthLength (y m : Nat) : Nat :=
  if m = 2 then (if isLeap y then 29 else 28)
  else if m = 4 ∨ m = 6 ∨ m = 9 ∨ m = 11 then 30 else 31

theorem C16_epoch : createdAtUnix [1970, 1, 1, 0, 0, 0] = 0 := by decide

/-- **every month has its calendar length, in every year** -/
theorem C16_month_step (y m : Nat) (h1 : 1 ≤ m) (h2 : m ≤ 11) :
    dayOfMonthStart y (m + 1) = dayOfMonthStart y m + monthLength y m := by
  have hm : m = 1 ∨ m = 2 ∨ m = 3 ∨ m = 4 ∨ m = 5 ∨ m = 6 ∨ m = 7 ∨ m = 8 ∨ m = 9 ∨ m = 10 ∨ m = 11 := by omega
  unfold dayOfMonthStart createdAtUnix.daysToMonthShift monthLength isLeap
  rcases hm with h | h | h | h | h | h | h | h | h | h | h <;> subst h <;> simp +decide only [reduceIte] <;>
    first
    | omega
    | (by_cases hl : (y % 4 = 0 ∧ y % 100 ≠ 0) ∨ y % 400 = 0 <;> simp only [hl, if_true, if_false] <;> omega)

/-- **January follows December** -/
theorem C16_year_step (y : Nat) : dayOfMonthStart (y + 1) 1 = dayOfMonthStart y 12 + 31 := by
  unfold dayOfMonthStart createdAtUnix.daysToMonthShift
  simp +decide only [reduceIte]
  omega

/-- the instant of any stored date-time is the month's first day plus the remaining components, linearly -/
theorem C16_created_at_linear (y mo d h mi s : Nat) (hmo1 : 1 ≤ mo) (hmo2 : mo ≤ 12) :
    createdAtUnix [y, mo, d, h, mi, s] = (dayOfMonthStart y mo + (d : Int) - 1) * 86400 + h * 3600 + mi * 60 + s := by
  unfold createdAtUnix dayOfMonthStart
  have e1 : (mo + 11) / 12 = 1 := by omega
  have e2 : (mo + 11) % 12 + 1 = mo := by omega
  simp only [e1, e2]

/-- the day after 28 February is 1 March exactly in the years that are not leap years — 1900, 2100 — and 29 February exists
in 2000 and 2400 (the rule a "divisible by 4" shortcut or a missing 400-year exception gets wrong) -/
example : dayOfMonthStart 1900 3 - dayOfMonthStart 1900 2 = 28 ∧ dayOfMonthStart 2000 3 - dayOfMonthStart 2000 2 = 29 ∧
    dayOfMonthStart 2100 3 - dayOfMonthStart 2100 2 = 28 ∧ dayOfMonthStart 2400 3 - dayOfMonthStart 2400 2 = 29 := by decide

end Prism.Icc
