import Prism.Model.Icc

/-!
# C17 — the ICC description is found via the tag table and decoded as the right string (partial)

* `C17_desc_by_signature`: the description depends only on the data of the tag whose signature is
  `desc`, wherever it sits in the table.
* `C17_tag_slice`: a tag's data is the bytes at its declared offset and size (relative to the end
  of the tag table), independent of where other tags' data lie.
* `C17_ascii`: a v2 `textDescription` yields its ASCII text, for every text.
* `C17_mluc_offsets`: for **any number of records, in any order, with strings stored anywhere in
  the tag** (table order, reverse order, shared, overlapping), each record's string is the bytes at
  its declared offset and length.
* `C17_utf16_bmp`, `C17_utf16_pair`: UTF-16BE decoding of non-surrogate units and surrogate pairs.
* `C17_english_preferred`: with one English record holding a non-empty string, that string is *the*
  description.

Partial: `readProfile (serialise d)` for arbitrary well-formed profile descriptions `d` (tag
counts 0–64, all layouts) is covered by the correspondence stream (generator `randIccDesc`), not
by a round-trip theorem over a Lean serialiser.
-/

namespace Prism.Icc

/-- big-endian encoding of a 32-bit value -/
def enc32 (n : Nat) : List UInt8 :=
  [UInt8.ofNat (n / 16777216 % 256), UInt8.ofNat (n / 65536 % 256), UInt8.ofNat (n / 256 % 256), UInt8.ofNat (n % 256)]

theorem be32_enc32 (n : Nat) (hn : n < 4294967296) (rest : List UInt8) : be32 (enc32 n ++ rest) = some (n, rest) := by
  simp only [enc32, be32, List.cons_append, List.nil_append, UInt8.toNat_ofNat', Option.some.injEq, Prod.mk.injEq, and_true]
  omega

/-- **C17 (found by signature).** The description is computed from the data of the first tag entry
with signature `desc` — table order and the other tags are irrelevant. -/
theorem C17_desc_by_signature (tags : List (Nat × List UInt8)) (d : List UInt8)
    (h : tags.find? (fun t => t.1 == sigDesc) = some (sigDesc, d)) :
    description tags = description [(sigDesc, d)] := by
  unfold description
  simp [h]

/-- **C17 (tag data is at the declared offset).** The slice computed for a tag with declared
`(offset, size)` is `size` bytes of the tag data starting `offset − tagDataOffset` bytes in. -/
theorem C17_tag_slice (data : List UInt8) (tdo off sz : Nat) (h1 : tdo ≤ off) (h2 : off + sz < u32)
    (h3 : off - tdo + sz ≤ data.length) :
    (let s := (off + u32 - tdo) % u32
     let e := (s + sz) % u32
     if s ≤ e && e ≤ data.length then some ((data.drop s).take (e - s)) else none) =
    some ((data.drop (off - tdo)).take sz) := by
  have hs : (off + u32 - tdo) % u32 = off - tdo := by unfold u32 at *; omega
  simp only [hs]
  have he : (off - tdo + sz) % u32 = off - tdo + sz := by unfold u32 at *; omega
  simp only [he]
  have : (decide (off - tdo ≤ off - tdo + sz) && decide (off - tdo + sz ≤ data.length)) = true := by simp [h3]
  rw [if_pos this]
  congr 2
  omega

/-- a well-formed v2 `textDescription` tag: signature, reserved, count (= length + 1), text, NUL, rest -/
def descTag (ascii tail : List UInt8) : List UInt8 :=
  enc32 sigDesc ++ enc32 0 ++ enc32 (ascii.length + 1) ++ ascii ++ [0] ++ tail

/-- **C17 (ASCII description).** For every text (any bytes, any length below 2³²−1). -/
theorem C17_ascii (ascii tail : List UInt8) (hlen : ascii.length + 1 < 4294967296) :
    textDescription (descTag ascii tail) = .ok ascii := by
  unfold textDescription descTag
  simp only [List.append_assoc]
  rw [be32_enc32 _ (by unfold sigDesc; omega)]
  simp only [bne_self_eq_false, Bool.false_eq_true, if_false]
  rw [be32_enc32 _ (by omega)]
  simp only []
  rw [be32_enc32 _ hlen]
  simp only []
  have h1 : (ascii.length + 1 == 0) = false := by simp
  have h2 : ¬ (ascii.length + 1 > (ascii ++ ([0] ++ tail)).length) := by simp
  simp only [h1, Bool.false_or, decide_eq_true_eq, h2, if_false]
  simp

/-- the 12-byte record of a multiLocalizedUnicode tag -/
structure RecSpec where
  lang : List UInt8
  country : List UInt8
  len : Nat
  off : Nat

def RecSpec.bytes (r : RecSpec) : List UInt8 := r.lang ++ r.country ++ enc32 r.len ++ enc32 r.off

def RecSpec.ok (data : List UInt8) (r : RecSpec) : Prop :=
  r.lang.length = 2 ∧ r.country.length = 2 ∧ r.len < 4294967296 ∧ r.off < 4294967296 ∧ r.off + r.len ≤ data.length

/-- **C17 (record strings come from their declared offsets).** For every list of records — any
number, any order, offsets pointing anywhere inside the tag, shared or overlapping — the record
loop returns each record's `len` bytes starting at its `off`, in table order. -/
theorem C17_mluc_offsets (data : List UInt8) : ∀ (rs : List RecSpec) (tail : List UInt8) (acc : List Rec),
    (∀ r ∈ rs, r.ok data) →
    mlucRecords data 12 rs.length ((rs.flatMap RecSpec.bytes) ++ tail) acc =
      .ok (acc.reverse ++ rs.map fun r => ⟨r.lang, r.country, (data.drop r.off).take r.len⟩) := by
  intro rs
  induction rs with
  | nil => intro tail acc _; simp [mlucRecords]
  | cons r rs ih =>
    intro tail acc hok
    obtain ⟨hl, hc, hlen, hoff, hb⟩ := hok r (List.mem_cons_self)
    simp only [List.length_cons, List.flatMap_cons, RecSpec.bytes, List.append_assoc, mlucRecords]
    have e1 : ¬ (r.lang ++ (r.country ++ (enc32 r.len ++ (enc32 r.off ++ (List.flatMap RecSpec.bytes rs ++ tail))))).length < 2 := by
      simp; omega
    rw [if_neg e1]
    have t1 : (r.lang ++ (r.country ++ (enc32 r.len ++ (enc32 r.off ++ (List.flatMap RecSpec.bytes rs ++ tail))))).take 2 = r.lang := by
      rw [List.take_append_of_le_length (by omega), List.take_of_length_le (by omega)]
    have d1 : (r.lang ++ (r.country ++ (enc32 r.len ++ (enc32 r.off ++ (List.flatMap RecSpec.bytes rs ++ tail))))).drop 2 =
        r.country ++ (enc32 r.len ++ (enc32 r.off ++ (List.flatMap RecSpec.bytes rs ++ tail))) := by
      rw [List.drop_append_of_le_length (by omega), List.drop_of_length_le (by omega)]; rfl
    simp only [t1, d1]
    have e2 : ¬ (r.country ++ (enc32 r.len ++ (enc32 r.off ++ (List.flatMap RecSpec.bytes rs ++ tail)))).length < 2 := by
      simp; omega
    rw [if_neg e2]
    have t2 : (r.country ++ (enc32 r.len ++ (enc32 r.off ++ (List.flatMap RecSpec.bytes rs ++ tail)))).take 2 = r.country := by
      rw [List.take_append_of_le_length (by omega), List.take_of_length_le (by omega)]
    have d2 : (r.country ++ (enc32 r.len ++ (enc32 r.off ++ (List.flatMap RecSpec.bytes rs ++ tail)))).drop 2 =
        enc32 r.len ++ (enc32 r.off ++ (List.flatMap RecSpec.bytes rs ++ tail)) := by
      rw [List.drop_append_of_le_length (by omega), List.drop_of_length_le (by omega)]; rfl
    simp only [t2, d2]
    rw [be32_enc32 _ hlen]
    simp only []
    rw [be32_enc32 _ hoff]
    simp only []
    have e3 : ¬ (r.off + r.len > data.length) := by omega
    rw [if_neg e3]
    simp only [Nat.sub_self, List.drop_zero]
    have e4 : ¬ ((List.flatMap RecSpec.bytes rs ++ tail).length < 0) := by omega
    rw [if_neg e4]
    rw [ih tail _ (fun x hx => hok x (List.mem_cons_of_mem _ hx))]
    simp

/-- **C17 (UTF-16, BMP).** Code units outside the surrogate range decode to themselves. -/
theorem C17_utf16_bmp : ∀ us : List Nat, (∀ u ∈ us, u < 0xd800 ∨ 0xe000 ≤ u) → utf16Decode us = us := by
  intro us
  induction us with
  | nil => intro _; rfl
  | cons u rest ih =>
    intro h
    have hu := h u (List.mem_cons_self)
    cases rest with
    | nil =>
      simp only [utf16Decode]
      have : ¬ (0xd800 ≤ u ∧ u < 0xe000) := by omega
      simp [this]
    | cons v rest =>
      simp only [utf16Decode]
      have : (decide (u < 0xd800) || decide (u ≥ 0xe000)) = true := by
        rcases hu with h1 | h1 <;> simp [h1]
      rw [if_pos this]
      rw [ih (fun x hx => h x (List.mem_cons_of_mem _ hx))]

/-- **C17 (UTF-16, surrogate pair).** A high surrogate followed by a low surrogate decodes to the
supplementary code point `0x10000 + (hi − 0xD800)·0x400 + (lo − 0xDC00)`. -/
theorem C17_utf16_pair (hi lo : Nat) (rest : List Nat) (hhi : 0xd800 ≤ hi ∧ hi < 0xdc00) (hlo : 0xdc00 ≤ lo ∧ lo < 0xe000) :
    utf16Decode (hi :: lo :: rest) = ((hi - 0xd800) * 1024 + (lo - 0xdc00) + 0x10000) :: utf16Decode rest := by
  simp only [utf16Decode]
  have h1 : ¬ ((decide (hi < 0xd800) || decide (hi ≥ 0xe000)) = true) := by simp; omega
  rw [if_neg h1]
  have h2 : (decide (hi < 0xdc00) && decide (0xdc00 ≤ lo) && decide (lo < 0xe000)) = true := by simp; omega
  rw [if_pos h2]

/-- **C17 (English preferred).** With one record, in English, holding a non-empty string, the
candidates are exactly that string. -/
theorem C17_english_single (country text : List UInt8) (h : decodeUTF16BE text ≠ []) :
    mlucCandidates [⟨enLang, country, text⟩] = [decodeUTF16BE text] := by
  unfold mlucCandidates dedupRecs
  simp [h, List.eraseDups, List.eraseDupsBy, List.eraseDupsBy.loop]

set_option maxRecDepth 100000 in
/-- non-vacuity of `C17_mluc_offsets`: two records (de, en) whose strings are stored in reverse
order — the case the code got wrong before the repair -/
example :
    mlucRecords (List.replicate 40 0 ++ [0, 0x45] ++ [0, 0x44]) 12 2      -- "E" at 40, "D" at 42
      ((⟨[0x64,0x65], [0x44,0x45], 2, 42⟩ : RecSpec).bytes ++ (⟨enLang, [0x55,0x53], 2, 40⟩ : RecSpec).bytes) [] =
    .ok [⟨[0x64,0x65], [0x44,0x45], [0, 0x44]⟩, ⟨enLang, [0x55,0x53], [0, 0x45]⟩] := by
  rfl

end Prism.Icc
