import Prism.Proofs.Lemmas.Run
import Prism.Proofs.C17
import Prism.Spec.IccHeader

/-!
# C17: reading back a serialised profile — the tag table, for any number of tags in any layout

`tagTableBytes entries data` is the byte string of a tag table: count, the 12-byte index entries in
table order, then the tag data area.  `C17_read_tag_table` says that `readTagTable` returns, for
every entry, the bytes at its declared offset and size — for any number of entries, data placed in
any order, shared, overlapping or separated by padding.  `C17_read_profile` prepends any header the
header reader accepts (C16) and `C17_profile_description` composes with the description theorems.
-/

namespace Prism.Icc
open Prog Parser

/-- a 12-byte tag index entry -/
def entryBytes (x : Nat × Nat × Nat) : List UInt8 := enc32be x.1 ++ enc32be x.2.1 ++ enc32be x.2.2

/-- the furthest end of any tag, as `readIndex` accumulates it -/
def maxEnd (es : List (Nat × Nat × Nat)) (e0 : Nat) : Nat :=
  es.foldl (fun e x => if (x.2.1 + x.2.2) % u32 > e then (x.2.1 + x.2.2) % u32 else e) e0

theorem run3_readIndex (zl : Inflate) (e : IOErr) : ∀ (es acc : List (Nat × Nat × Nat)) (e0 : Nat) (more : List UInt8),
    (∀ x ∈ es, x.1 < u32 ∧ x.2.1 < u32 ∧ x.2.2 < u32) →
    run3 zl (readIndex es.length acc e0).run (es.flatMap entryBytes ++ more) e =
      (.ok (acc.reverse ++ es, maxEnd es e0), more) := by
  intro es
  induction es with
  | nil => intro acc e0 more _; simp [readIndex, maxEnd]; rfl
  | cons x es ih =>
    intro acc e0 more h
    obtain ⟨h1, h2, h3⟩ := h x List.mem_cons_self
    unfold u32 at h1 h2 h3
    simp only [List.length_cons, readIndex, List.flatMap_cons, entryBytes, List.append_assoc]
    rw [Parser.run3_bind, Parser.run3_u32be_enc zl _ h1]; simp only
    rw [Parser.run3_bind, Parser.run3_u32be_enc zl _ h2]; simp only
    rw [Parser.run3_bind, Parser.run3_u32be_enc zl _ h3]; simp only
    rw [ih _ _ more (fun y hy => h y (List.mem_cons_of_mem _ hy))]
    simp [maxEnd, List.reverse_cons, List.append_assoc]

theorem dedupLast_nodup : ∀ (es : List (Nat × Nat × Nat)), (es.map (·.1)).Nodup → dedupLast es = es := by
  intro es
  unfold dedupLast
  suffices h : ∀ (es acc : List (Nat × Nat × Nat)), ((acc ++ es).map (·.1)).Nodup →
      es.foldl (fun acc e => (acc.filter fun x => x.1 != e.1) ++ [e]) acc = acc ++ es by
    intro hnd; simpa using h es [] (by simpa using hnd)
  intro es
  induction es with
  | nil => intro acc _; simp
  | cons x es ih =>
    intro acc hnd
    simp only [List.foldl_cons]
    have hf : (acc.filter fun y => y.1 != x.1) = acc := by
      rw [List.filter_eq_self]
      intro y hy
      simp only [List.map_append, List.map_cons] at hnd
      have := (List.nodup_append.mp hnd).2.2 y.1 (List.mem_map_of_mem hy) x.1 List.mem_cons_self
      simpa using this
    rw [hf, ih (acc ++ [x]) (by simpa [List.append_assoc] using hnd)]
    simp [List.append_assoc]

/-- the bytes of a tag table: count, index, data area -/
def tagTableBytes (es : List (Nat × Nat × Nat)) (data : List UInt8) : List UInt8 :=
  enc32be es.length ++ es.flatMap entryBytes ++ data

/-- offset of the data area in the file -/
def tdoOf (es : List (Nat × Nat × Nat)) : Nat := 132 + es.length * 12

/-- a well-formed table: distinct signatures, every tag inside the data area, and the data area ends
where the furthest tag ends -/
structure TableOk (es : List (Nat × Nat × Nat)) (data : List UInt8) : Prop where
  sigs : (es.map (·.1)).Nodup
  fits : tdoOf es + data.length < u32
  sigLt : ∀ x ∈ es, x.1 < u32
  inside : ∀ x ∈ es, tdoOf es ≤ x.2.1 ∧ x.2.1 + x.2.2 ≤ tdoOf es + data.length
  ends : data = [] ∨ ∃ x ∈ es, x.2.1 + x.2.2 = tdoOf es + data.length

theorem maxEnd_le (B : Nat) : ∀ (es : List (Nat × Nat × Nat)) (e0 : Nat), e0 ≤ B → (∀ x ∈ es, x.2.1 + x.2.2 ≤ B) → B < u32 →
    maxEnd es e0 ≤ B ∧ e0 ≤ maxEnd es e0 ∧ ∀ x ∈ es, x.2.1 + x.2.2 ≤ maxEnd es e0 := by
  intro es
  induction es with
  | nil => intro e0 h _ _; simp [maxEnd, h]
  | cons x es ih =>
    intro e0 h0 hx hB
    have hxB := hx x List.mem_cons_self
    have hm : (x.2.1 + x.2.2) % u32 = x.2.1 + x.2.2 := Nat.mod_eq_of_lt (by omega)
    simp only [maxEnd, List.foldl_cons, hm]
    by_cases hc : x.2.1 + x.2.2 > e0
    · simp only [hc, if_true]
      have := ih (x.2.1 + x.2.2) hxB (fun y hy => hx y (List.mem_cons_of_mem _ hy)) hB
      simp only [maxEnd] at this
      refine ⟨this.1, by omega, ?_⟩
      intro y hy
      rcases List.mem_cons.mp hy with rfl | hy
      · exact this.2.1
      · exact this.2.2 y hy
    · simp only [hc, if_false]
      have := ih e0 h0 (fun y hy => hx y (List.mem_cons_of_mem _ hy)) hB
      simp only [maxEnd] at this
      refine ⟨this.1, this.2.1, ?_⟩
      intro y hy
      rcases List.mem_cons.mp hy with rfl | hy
      · omega
      · exact this.2.2 y hy

/-- **C17 (tag table).** For every well-formed table — any number of tags, their data anywhere in the
data area, in any order, shared or overlapping — `readTagTable` returns each tag's signature with
exactly the bytes at its declared offset and size, in table order. -/
theorem C17_read_tag_table (zl : Inflate) (e : IOErr) (es : List (Nat × Nat × Nat)) (data rest : List UInt8)
    (h : TableOk es data) :
    run3 zl readTagTable.run (tagTableBytes es data ++ rest) e =
      (.ok (es.map fun x => (x.1, (data.drop (x.2.1 - tdoOf es)).take x.2.2)), rest) := by
  have hfits := h.fits
  unfold u32 tdoOf at hfits
  have hn : es.length < 4294967296 := by omega
  unfold readTagTable tagTableBytes
  simp only [List.append_assoc]
  rw [Parser.run3_bind, Parser.run3_u32be_enc zl _ hn]
  simp only
  rw [Parser.run3_bind]
  have hidx := run3_readIndex zl e es [] 0 (data ++ rest) (by
    intro x hx
    have := h.inside x hx
    have := h.sigLt x hx
    unfold u32 tdoOf at *
    omega)
  rw [hidx]
  simp only [List.reverse_nil, List.nil_append]
  have hme := maxEnd_le (tdoOf es + data.length) es 0 (by omega) (fun x hx => (h.inside x hx).2) h.fits
  have htdo : (132 + es.length * 12) % u32 = tdoOf es := by unfold u32 tdoOf; omega
  rw [htdo]
  have htdl : (if maxEnd es 0 > tdoOf es then maxEnd es 0 - tdoOf es else 0) = data.length := by
    rcases h.ends with hd | ⟨x, hx, hxe⟩
    · subst hd
      simp only [List.length_nil, Nat.add_zero] at hme ⊢
      split <;> omega
    · have := hme.2.2 x hx
      split <;> omega
  rw [htdl, Parser.run3_bind]
  have hb := Parser.run3_bytesN_append zl data rest e
  rw [Parser.run3_mapErr_ok zl _ _ _ _ _ _ hb]
  dsimp only
  have hsl : (es.map fun x : Nat × Nat × Nat =>
      (let s := (x.2.1 + u32 - tdoOf es) % u32
       let e := (s + x.2.2) % u32
       if s ≤ e && e ≤ data.length then some (x.1, (data.drop s).take (e - s)) else none)) =
      es.map fun x => some (x.1, (data.drop (x.2.1 - tdoOf es)).take x.2.2) := by
    apply List.map_congr_left
    intro x hx
    have hin := h.inside x hx
    have := C17_tag_slice data (tdoOf es) x.2.1 x.2.2 hin.1 (by unfold u32 at *; omega) (by omega)
    simp only at this ⊢
    split at this
    · rename_i hc
      simp only [hc, if_true]
      simp only [Option.some.injEq] at this
      rw [this]
    · simp at this
  simp only [dedupLast_nodup es h.sigs, hsl]
  have hall : ((es.map fun x : Nat × Nat × Nat => some (x.1, (data.drop (x.2.1 - tdoOf es)).take x.2.2)).all Option.isSome) = true := by
    simp
  simp only [hall, if_true]
  rw [Parser.run3_pure]
  simp [List.filterMap_map]

/-- a header the header reader accepts with result `H`, whatever follows it -/
def HeaderOk (hb : List UInt8) (H : Header) : Prop :=
  ∀ (zl : Inflate) (more : List UInt8) (e : IOErr), run3 zl readHeader.run (hb ++ more) e = (.ok H, more)

set_option maxRecDepth 100000 in
set_option maxHeartbeats 4000000 in
/-- every 128-byte header with the 'acsp' signature is accepted, with the fields ICC.1 assigns (C16) -/
theorem headerOk_hdr (b0 b1 b2 b3 b4 b5 b6 b7 b8 b9 b10 b11 b12 b13 b14 b15 b16 b17 b18 b19 b20 b21 b22 b23 b24 b25 b26 b27 b28 b29 b30 b31 b32 b33 b34 b35 b40 b41 b42 b43 b44 b45 b46 b47 b48 b49 b50 b51 b52 b53 b54 b55 b56 b57 b58 b59 b60 b61 b62 b63 b64 b65 b66 b67 b68 b69 b70 b71 b72 b73 b74 b75 b76 b77 b78 b79 b80 b81 b82 b83 b84 b85 b86 b87 b88 b89 b90 b91 b92 b93 b94 b95 b96 b97 b98 b99 b100 b101 b102 b103 b104 b105 b106 b107 b108 b109 b110 b111 b112 b113 b114 b115 b116 b117 b118 b119 b120 b121 b122 b123 b124 b125 b126 b127 : UInt8) :
    HeaderOk (hdr b0 b1 b2 b3 b4 b5 b6 b7 b8 b9 b10 b11 b12 b13 b14 b15 b16 b17 b18 b19 b20 b21 b22 b23 b24 b25 b26 b27 b28 b29 b30 b31 b32 b33 b34 b35 b40 b41 b42 b43 b44 b45 b46 b47 b48 b49 b50 b51 b52 b53 b54 b55 b56 b57 b58 b59 b60 b61 b62 b63 b64 b65 b66 b67 b68 b69 b70 b71 b72 b73 b74 b75 b76 b77 b78 b79 b80 b81 b82 b83 b84 b85 b86 b87 b88 b89 b90 b91 b92 b93 b94 b95 b96 b97 b98 b99 b100 b101 b102 b103 b104 b105 b106 b107 b108 b109 b110 b111 b112 b113 b114 b115 b116 b117 b118 b119 b120 b121 b122 b123 b124 b125 b126 b127) (specHeader b0 b1 b2 b3 b4 b5 b6 b7 b8 b9 b10 b11 b12 b13 b14 b15 b16 b17 b18 b19 b20 b21 b22 b23 b24 b25 b26 b27 b28 b29 b30 b31 b32 b33 b34 b35 b40 b41 b42 b43 b44 b45 b46 b47 b48 b49 b50 b51 b52 b53 b54 b55 b56 b57 b58 b59 b60 b61 b62 b63 b64 b65 b66 b67 b68 b69 b70 b71 b72 b73 b74 b75 b76 b77 b78 b79 b80 b81 b82 b83 b84 b85 b86 b87 b88 b89 b90 b91 b92 b93 b94 b95 b96 b97 b98 b99 b100 b101 b102 b103 b104 b105 b106 b107 b108 b109 b110 b111 b112 b113 b114 b115 b116 b117 b118 b119 b120 b121 b122 b123 b124 b125 b126 b127) := by
  intro zl more e
  rfl

/-- **C17 (whole profile).** Any accepted header followed by any well-formed tag table: `ReadProfile`
returns the header's fields and, for every tag, the bytes at its declared offset and size. -/
theorem C17_read_profile (zl : Inflate) (e : IOErr) (hb : List UInt8) (H : Header) (hH : HeaderOk hb H)
    (es : List (Nat × Nat × Nat)) (data rest : List UInt8) (h : TableOk es data) :
    run3 zl readProfile.run (hb ++ (tagTableBytes es data ++ rest)) e =
      (.ok { header := H, tags := es.map fun x => (x.1, (data.drop (x.2.1 - tdoOf es)).take x.2.2) }, rest) := by
  unfold readProfile
  rw [Parser.run3_bind, hH zl _ e]
  simp only
  rw [Parser.run3_bind, C17_read_tag_table zl e es data rest h]
  rfl

theorem find_by_sig (f : Nat × Nat × Nat → List UInt8) (sig off sz : Nat) : ∀ (es : List (Nat × Nat × Nat)),
    (es.map (·.1)).Nodup → (sig, off, sz) ∈ es →
    (es.map fun x => (x.1, f x)).find? (fun t => t.1 == sig) = some (sig, f (sig, off, sz)) := by
  intro es
  induction es with
  | nil => intro _ hd; simp at hd
  | cons x es ih =>
    intro hnd hd
    simp only [List.map_cons, List.nodup_cons] at hnd
    rcases List.mem_cons.mp hd with rfl | hd'
    · simp [List.find?]
    · have hx : x.1 ≠ sig := by
        intro heq
        apply hnd.1
        rw [heq]
        exact List.mem_map_of_mem (f := (·.1)) hd'
      have : (x.1 == sig) = false := by simpa using hx
      simp only [List.map_cons, List.find?, this]
      exact ih hnd.2 hd'

/-- **C17 (description of a serialised profile).** If the table has a `desc` entry at `(off, sz)`, the
profile's description is the description of exactly the bytes at that offset — wherever the entry
sits in the table and wherever its data sits among the other tags' data. -/
theorem C17_profile_description (zl : Inflate) (e : IOErr) (hb : List UInt8) (H : Header) (hH : HeaderOk hb H)
    (es : List (Nat × Nat × Nat)) (data rest : List UInt8) (h : TableOk es data) (off sz : Nat)
    (hd : (sigDesc, off, sz) ∈ es) :
    ∃ p, (run3 zl readProfile.run (hb ++ (tagTableBytes es data ++ rest)) e).1 = .ok p ∧
      description p.tags = description [(sigDesc, (data.drop (off - tdoOf es)).take sz)] := by
  refine ⟨_, by rw [C17_read_profile zl e hb H hH es data rest h], ?_⟩
  apply C17_desc_by_signature
  exact find_by_sig (fun x => (data.drop (x.2.1 - tdoOf es)).take x.2.2) sigDesc off sz es h.sigs hd

/-- non-vacuity: a three-tag table whose data lie in reverse order with a shared and a padded tag -/
example : TableOk [(0x63707274, 168 + 20, 8), (sigDesc, 168, 16), (0x77747074, 168 + 20, 8)] (List.replicate 28 7) := by
  refine ⟨by decide, by decide, by decide, by decide, Or.inr ⟨(0x63707274, 188, 8), by decide, by decide⟩⟩

end Prism.Icc
