import Prism.Proofs.C17

/-!
# C17 — every Unicode text survives the UTF-16 decoding of a description

`utf16Encode` is UTF-16 as the Unicode standard defines it (one unit below U+10000, a surrogate pair above).  For **every**
list of Unicode scalar values — any length, BMP and supplementary characters in any mixture — decoding the encoding returns
the text (`C17_utf16_roundtrip`); on the bytes: `units` of the big-endian serialisation are the units (`C17_units_of_be`).
So a description stored as the standard prescribes is returned character for character, whatever it says.
-/

namespace Prism.Icc

/-- a Unicode scalar value: a code point that is not a surrogate -/
def IsScalar (c : Nat) : Prop := c < 0xd800 ∨ (0xe000 ≤ c ∧ c < 0x110000)

instance (c : Nat) : Decidable (IsScalar c) := by unfold IsScalar; infer_instance

/-- UTF-16 (Unicode §3.9, D91) -/
def utf16Encode1 (c : Nat) : List Nat :=
  if c < 0x10000 then [c] else [0xd800 + (c - 0x10000) / 1024, 0xdc00 + (c - 0x10000) % 1024]

def utf16Encode (cs : List Nat) : List Nat := cs.flatMap utf16Encode1

/-- big-endian serialisation of code units -/
def unitsBE : List Nat → List UInt8
  | [] => []
  | u :: us => UInt8.ofNat (u / 256) :: UInt8.ofNat (u % 256) :: unitsBE us

theorem utf16Decode_bmp_cons (u : Nat) (rest : List Nat) (hu : u < 0xd800 ∨ 0xe000 ≤ u) :
    utf16Decode (u :: rest) = u :: utf16Decode rest := by
  cases rest with
  | nil =>
    simp only [utf16Decode]
    have : ¬ (0xd800 ≤ u ∧ u < 0xe000) := by omega
    simp [this]
  | cons v rest =>
    simp only [utf16Decode]
    have : (decide (u < 0xd800) || decide (u ≥ 0xe000)) = true := by
      rcases hu with h1 | h1 <;> simp [h1]
    rw [if_pos this]

/-- **C17 (UTF-16 round trip).** For every text of Unicode scalar values. -/
theorem C17_utf16_roundtrip : ∀ cs : List Nat, (∀ c ∈ cs, IsScalar c) → utf16Decode (utf16Encode cs) = cs
  | [], _ => rfl
  | c :: cs, h => by
    have hc := h c List.mem_cons_self
    have ih := C17_utf16_roundtrip cs (fun x hx => h x (List.mem_cons_of_mem _ hx))
    unfold utf16Encode at ih ⊢
    rw [List.flatMap_cons]
    unfold utf16Encode1
    by_cases hb : c < 0x10000
    · rw [if_pos hb]
      have : c < 0xd800 ∨ 0xe000 ≤ c := by rcases hc with h1 | h1 <;> omega
      show utf16Decode (c :: List.flatMap _ cs) = _
      rw [utf16Decode_bmp_cons c _ this]
      unfold utf16Encode1 at ih
      rw [ih]
    · rw [if_neg hb]
      have hlt : c < 0x110000 := by rcases hc with h1 | h1 <;> omega
      show utf16Decode ((0xd800 + (c - 0x10000) / 1024) :: (0xdc00 + (c - 0x10000) % 1024) :: List.flatMap _ cs) = _
      rw [C17_utf16_pair _ _ _ (by omega) (by omega)]
      unfold utf16Encode1 at ih
      rw [ih]
      congr 1
      omega

/-- the units of a big-endian serialisation are the units (16-bit units) -/
theorem C17_units_of_be : ∀ us : List Nat, (∀ u ∈ us, u < 0x10000) → units (unitsBE us) = us
  | [], _ => rfl
  | u :: us, h => by
    have hu := h u List.mem_cons_self
    have ih := C17_units_of_be us (fun x hx => h x (List.mem_cons_of_mem _ hx))
    simp only [unitsBE, units, ih]
    congr 1
    have h1 : u / 256 < 256 := by omega
    have h2 : u % 256 < 256 := by omega
    rw [UInt8.toNat_ofNat_of_lt' (by omega), UInt8.toNat_ofNat_of_lt' (by omega)]
    omega

theorem utf16Encode_units_lt : ∀ cs : List Nat, (∀ c ∈ cs, IsScalar c) → ∀ u ∈ utf16Encode cs, u < 0x10000 := by
  intro cs h u hu
  unfold utf16Encode at hu
  rw [List.mem_flatMap] at hu
  obtain ⟨c, hc, huc⟩ := hu
  have hs := h c hc
  unfold utf16Encode1 at huc
  by_cases hb : c < 0x10000
  · rw [if_pos hb] at huc
    simp only [List.mem_singleton] at huc
    omega
  · rw [if_neg hb] at huc
    have hlt : c < 0x110000 := by rcases hs with h1 | h1 <;> omega
    simp only [List.mem_cons, List.not_mem_nil, or_false] at huc
    rcases huc with h1 | h1 <;> omega

/-- **C17 (a stored text is returned character for character).** The UTF-16BE bytes of any text of Unicode scalar values decode
to the UTF-8 of exactly that text. -/
theorem C17_text_roundtrip (cs : List Nat) (h : ∀ c ∈ cs, IsScalar c) :
    decodeUTF16BE (unitsBE (utf16Encode cs)) = cs.flatMap utf8 := by
  unfold decodeUTF16BE
  rw [C17_units_of_be _ (utf16Encode_units_lt cs h), C17_utf16_roundtrip cs h]

/-- non-vacuity: ASCII, Latin-1, CJK, a supplementary character and U+FEFF in first position -/
example : ∀ c ∈ [0xfeff, 0x44, 0xe9, 0x4e2d, 0x1f600, 0x10ffff], IsScalar c := by decide

end Prism.Icc
