import Prism.Proofs.C17Text

/-!
# C17 — the bytes returned are UTF-8

`utf8` (the model of Go's `string([]rune)`) against the definition of UTF-8 (Unicode §3.9, table 3-6) written as a decoder of
one sequence: for **every** code point below U+110000, decoding the bytes `utf8` produces gives the code point back, and the
sequence has the length the standard assigns to its range.
-/

namespace Prism.Icc

/-- UTF-8, one well-formed sequence (bit distribution of Unicode table 3-6; range checks on lead and continuation bytes) -/
def utf8Decode1 : List UInt8 → Option Nat
  | [a] => if a.toNat < 0x80 then some a.toNat else none
  | [a, b] =>
    if 0xc0 ≤ a.toNat ∧ a.toNat < 0xe0 ∧ 0x80 ≤ b.toNat ∧ b.toNat < 0xc0 then some ((a.toNat - 0xc0) * 64 + (b.toNat - 0x80)) else none
  | [a, b, c] =>
    if 0xe0 ≤ a.toNat ∧ a.toNat < 0xf0 ∧ 0x80 ≤ b.toNat ∧ b.toNat < 0xc0 ∧ 0x80 ≤ c.toNat ∧ c.toNat < 0xc0 then
      some ((a.toNat - 0xe0) * 4096 + (b.toNat - 0x80) * 64 + (c.toNat - 0x80)) else none
  | [a, b, c, d] =>
    if 0xf0 ≤ a.toNat ∧ a.toNat < 0xf8 ∧ 0x80 ≤ b.toNat ∧ b.toNat < 0xc0 ∧ 0x80 ≤ c.toNat ∧ c.toNat < 0xc0 ∧ 0x80 ≤ d.toNat ∧ d.toNat < 0xc0 then
      some ((a.toNat - 0xf0) * 262144 + (b.toNat - 0x80) * 4096 + (c.toNat - 0x80) * 64 + (d.toNat - 0x80)) else none
  | _ => none

theorem utf8Decode1_one (a : UInt8) : utf8Decode1 [a] = if a.toNat < 0x80 then some a.toNat else none := rfl
theorem utf8Decode1_two (a b : UInt8) : utf8Decode1 [a, b] =
    if 0xc0 ≤ a.toNat ∧ a.toNat < 0xe0 ∧ 0x80 ≤ b.toNat ∧ b.toNat < 0xc0 then some ((a.toNat - 0xc0) * 64 + (b.toNat - 0x80)) else none := rfl
theorem utf8Decode1_three (a b c : UInt8) : utf8Decode1 [a, b, c] =
    if 0xe0 ≤ a.toNat ∧ a.toNat < 0xf0 ∧ 0x80 ≤ b.toNat ∧ b.toNat < 0xc0 ∧ 0x80 ≤ c.toNat ∧ c.toNat < 0xc0 then
      some ((a.toNat - 0xe0) * 4096 + (b.toNat - 0x80) * 64 + (c.toNat - 0x80)) else none := rfl
theorem utf8Decode1_four (a b c d : UInt8) : utf8Decode1 [a, b, c, d] =
    if 0xf0 ≤ a.toNat ∧ a.toNat < 0xf8 ∧ 0x80 ≤ b.toNat ∧ b.toNat < 0xc0 ∧ 0x80 ≤ c.toNat ∧ c.toNat < 0xc0 ∧ 0x80 ≤ d.toNat ∧ d.toNat < 0xc0 then
      some ((a.toNat - 0xf0) * 262144 + (b.toNat - 0x80) * 4096 + (c.toNat - 0x80) * 64 + (d.toNat - 0x80)) else none := rfl

theorem toNat_ofNat_lt (n : Nat) (h : n < 256) : (UInt8.ofNat n).toNat = n := UInt8.toNat_ofNat_of_lt' (by omega)

/-- **C17 (the output is UTF-8).** For every code point below U+110000. -/
theorem C17_utf8_roundtrip (c : Nat) (h : c < 0x110000) : utf8Decode1 (utf8 c) = some c := by
  unfold utf8
  by_cases h1 : c < 0x80
  · rw [if_pos h1]
    rw [utf8Decode1_one, toNat_ofNat_lt c (by omega), if_pos h1]
  · rw [if_neg h1]
    by_cases h2 : c < 0x800
    · rw [if_pos h2]
      have e1 := toNat_ofNat_lt (0xc0 + c / 64) (by omega)
      have e2 := toNat_ofNat_lt (0x80 + c % 64) (by omega)
      rw [utf8Decode1_two, e1, e2]
      rw [if_pos (by omega)]
      refine congrArg some ?_
      omega
    · rw [if_neg h2]
      by_cases h3 : c < 0x10000
      · rw [if_pos h3]
        have e1 := toNat_ofNat_lt (0xe0 + c / 4096) (by omega)
        have e2 := toNat_ofNat_lt (0x80 + (c / 64) % 64) (by omega)
        have e3 := toNat_ofNat_lt (0x80 + c % 64) (by omega)
        rw [utf8Decode1_three, e1, e2, e3]
        rw [if_pos (by omega)]
        refine congrArg some ?_
        omega
      · rw [if_neg h3]
        have e1 := toNat_ofNat_lt (0xf0 + c / 262144) (by omega)
        have e2 := toNat_ofNat_lt (0x80 + (c / 4096) % 64) (by omega)
        have e3 := toNat_ofNat_lt (0x80 + (c / 64) % 64) (by omega)
        have e4 := toNat_ofNat_lt (0x80 + c % 64) (by omega)
        rw [utf8Decode1_four, e1, e2, e3, e4]
        rw [if_pos (by omega)]
        refine congrArg some ?_
        omega

/-- the length the standard assigns to each range -/
theorem C17_utf8_length (c : Nat) :
    (utf8 c).length = if c < 0x80 then 1 else if c < 0x800 then 2 else if c < 0x10000 then 3 else 4 := by
  unfold utf8
  split
  · rfl
  · split
    · rfl
    · split <;> rfl

end Prism.Icc
