import Prism.Proofs.Lemmas.Pulled
import Prism.Proofs.Lemmas.PulledAuto
import Prism.Proofs.Lemmas.Stack
import Prism.Gen.Consts

/-!
# C18 — metadata is read without consuming the image body
-/

namespace Prism

/-- **C18 (read-ahead bound).** For every extractor, every source and every delivery schedule:
when the loader returns, the number of bytes it has pulled from the source is the number of
bytes the extractor consumed plus what is left in the bufio buffer, which is at most one
buffer. However many megabytes follow, they are never pulled. -/
theorem C18_pulled_bound {α : Type} (zl : Prog.Inflate) (p : Prog α) (s : Src) :
    let st := (loadSt zl p (.src s)).2.2
    st.under.pulled = s.delivered + st.consumed + st.buf.length ∧ st.buf.length ≤ bufSize := by
  have h0 : ({ under := .src s } : Stack).Acct s.delivered := ⟨s, rfl, by simp, by simp [bufSize]⟩
  have h := Prog.runStack_acct zl s.delivered p _ h0
  obtain ⟨s', hu, hd, hb⟩ := h
  simp only [loadSt]
  refine ⟨?_, hb⟩
  rw [hu]; exact hd

/-- the bound in the property's terms: at most 64 KiB beyond what the extractor consumed -/
theorem C18_within_64k {α : Type} (zl : Prog.Inflate) (p : Prog α) (s : Src) (h0 : s.delivered = 0) :
    (loadSt zl p (.src s)).2.2.under.pulled ≤ (loadSt zl p (.src s)).2.2.consumed + 65536 := by
  have := C18_pulled_bound zl p s
  simp only at this
  rw [this.1, h0]
  have hb := this.2
  unfold bufSize at hb
  omega

/-- the model's buffer size is the size of the first read the real loaders issue (regenerated) -/
theorem C18_bufsize_matches_code :
    Gen.pngFirstRead = bufSize ∧ Gen.jpegFirstRead = bufSize ∧ Gen.webpFirstRead = bufSize ∧ Gen.autoFirstRead = bufSize := by
  decide

/-- **C18 (prefix determinism).** The result depends only on the bytes: loading a file truncated
after the last byte the extractor consumed gives the same result.  Stated through the functional
meaning: two inputs on which the extractor's run coincides give the same result — in particular
`pre ++ body` and `pre` whenever the run on `pre ++ body` never reads past `pre`. -/
theorem C18_result_is_functional {α : Type} (zl : Prog.Inflate) (p : Prog α) (r : Rd) :
    (load zl p r).1 = (Prog.runPure zl p r.contents.1 r.contents.2 {}).1 := load_result zl p r

/-- the number of bytes each candidate tried by `autometa.Load` consumed (its parser's own consumption) -/
def Auto.stageConsumed (zl : Prog.Inflate) : List (Prog (Except PErr Meta)) → Rd → List Nat
  | [], _ => []
  | p :: ps, r =>
    (loadSt zl p r).2.2.consumed ::
      (match (loadSt zl p r).1 with
       | .ok _ => []
       | .error _ => Auto.stageConsumed zl ps (loadSt zl p r).2.1)

/-- **C18 (auto-detecting loader, any chain of candidates).** Each candidate reads the stream the
previous one returned (rewind buffer first, then the source).  If no candidate's parser consumed more
than `B` bytes, the source has been pulled at most `B` bytes plus one bufio buffer beyond where it
stood — the candidates' read-aheads do not add up, and the body is never pulled.  Proved for every
list of extractor programs, every reader (any nesting of rewind buffers), every schedule. -/
theorem C18_auto_chain (zl : Prog.Inflate) (ps : List (Prog (Except PErr Meta))) :
    ∀ (r : Rd) (B : Nat), (∀ c ∈ Auto.stageConsumed zl ps r, c ≤ B) →
      (Auto.loadList zl ps r).2.net = r.net ∧
      ((Auto.loadList zl ps r).2.pulled : Int) ≤ max (r.pulled : Int) (r.net + B + bufSize) := by
  induction ps with
  | nil => intro r B _; simp [Auto.loadList]
  | cons p ps ih =>
    intro r B hB
    obtain ⟨g1, _, g3⟩ := loadSt_g zl p r
    have hc : (loadSt zl p r).2.2.consumed ≤ B := hB _ (by simp [Auto.stageConsumed])
    have hstep : ((loadSt zl p r).2.1.pulled : Int) ≤ max (r.pulled : Int) (r.net + B + bufSize) := by
      refine le_trans g3 (max_le_max le_rfl ?_)
      have : ((loadSt zl p r).2.2.consumed : Int) ≤ B := by exact_mod_cast hc
      omega
    have hload : load zl p r = ((loadSt zl p r).1, (loadSt zl p r).2.1) := rfl
    simp only [Auto.loadList, hload]
    cases hres : (loadSt zl p r).1 with
    | ok m => simp only; exact ⟨g1, hstep⟩
    | error e =>
      simp only
      have hB' : ∀ c ∈ Auto.stageConsumed zl ps (loadSt zl p r).2.1, c ≤ B := by
        intro c hcm
        apply hB
        simp only [Auto.stageConsumed, hres, List.mem_cons]
        right; exact hcm
      obtain ⟨i1, i2⟩ := ih (loadSt zl p r).2.1 B hB'
      refine ⟨i1.trans g1, le_trans i2 ?_⟩
      rw [g1]
      exact max_le hstep (le_max_right _ _)

/-- in the property's terms: a fresh source, all three real extractors — the auto loader pulls at most
64 KiB beyond the largest consumption of any candidate it tried -/
theorem C18_auto_within_64k (zl : Prog.Inflate) (fuel : Nat) (s : Src) (h0 : s.delivered = 0) (B : Nat)
    (hB : ∀ c ∈ Auto.stageConsumed zl (Auto.progs fuel) (.src s), c ≤ B) :
    (Auto.load zl fuel (.src s)).2.pulled ≤ B + 65536 := by
  have h := (C18_auto_chain zl (Auto.progs fuel) (.src s) B hB).2
  simp only [Rd.net, Rd.pulled, Rd.buffered, h0] at h
  unfold Auto.load
  have hb : (bufSize : Int) = 4096 := rfl
  have : ((Auto.loadList zl (Auto.progs fuel) (.src s)).2.pulled : Int) ≤ B + 4096 := by
    refine le_trans h (max_le (by omega) (by omega))
  omega

end Prism
