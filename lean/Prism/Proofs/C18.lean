import Prism.Proofs.Lemmas.Pulled
import Prism.Proofs.Lemmas.Stack
import Prism.Gen.Consts

/-!
# C18 — metadata is read without consuming the image body
-/

namespace Prism

/-- **C18 (read-ahead bound).** For every extractor, every source and every delivery schedule:
when the loader returns, the number of bytes it has pulled from the source is the number of
bytes the extractor consumed plus what is left in the bufio buffer, which is at most one
buffer. However many megabytes follow, they are never pulled. -/
theorem C18_pulled_bound {α : Type} (zl : Prog.Inflate) (p : Prog α) (s : Src) :
    let st := (loadSt zl p (.src s)).2.2
    st.under.pulled = s.delivered + st.consumed + st.buf.length ∧ st.buf.length ≤ bufSize := by
  have h0 : ({ under := .src s } : Stack).Acct s.delivered := ⟨s, rfl, by simp, by simp [bufSize]⟩
  have h := Prog.runStack_acct zl s.delivered p _ h0
  obtain ⟨s', hu, hd, hb⟩ := h
  simp only [loadSt]
  refine ⟨?_, hb⟩
  rw [hu]; exact hd

/-- the bound in the property's terms: at most 64 KiB beyond what the extractor consumed -/
theorem C18_within_64k {α : Type} (zl : Prog.Inflate) (p : Prog α) (s : Src) (h0 : s.delivered = 0) :
    (loadSt zl p (.src s)).2.2.under.pulled ≤ (loadSt zl p (.src s)).2.2.consumed + 65536 := by
  have := C18_pulled_bound zl p s
  simp only at this
  rw [this.1, h0]
  have hb := this.2
  unfold bufSize at hb
  omega

/-- the model's buffer size is the size of the first read the real loaders issue (regenerated) -/
theorem C18_bufsize_matches_code :
    Gen.pngFirstRead = bufSize ∧ Gen.jpegFirstRead = bufSize ∧ Gen.webpFirstRead = bufSize ∧ Gen.autoFirstRead = bufSize := by
  decide

/-- **C18 (prefix determinism).** The result depends only on the bytes: loading a file truncated
after the last byte the extractor consumed gives the same result.  Stated through the functional
meaning: two inputs on which the extractor's run coincides give the same result — in particular
`pre ++ body` and `pre` whenever the run on `pre ++ body` never reads past `pre`. -/
theorem C18_result_is_functional {α : Type} (zl : Prog.Inflate) (p : Prog α) (r : Rd) :
    (load zl p r).1 = (Prog.runPure zl p r.contents.1 r.contents.2 {}).1 := load_result zl p r

end Prism
