import Prism.Proofs.C05Chunks

/-!
# C18 — the PNG extractor leaves the image body unread

For every PNG of the shape signature · IHDR · (any ancillary chunks) · IDAT header · `rest`: the extractor's run ends with
exactly `rest` — the IDAT payload and everything behind it — still unread, whatever `rest` is and however long.  With
`C18_pulled_bound` (the loader pulls at most one 4096-byte buffer beyond what the extractor consumed) this is the property's
"without consuming the image body" for the PNG loader, for every body.
-/

namespace Prism.Png
open Prog Parser

theorem C18_png_body_unread (zl : Inflate) (e : IOErr) (w h : Nat) (hw : w < 4294967296) (hh : h < 4294967296)
    (d ct cm fm il : UInt8) (crc : List UInt8) (hcrc : crc.length = 4) (cs : List Anc) (hcs : ∀ c ∈ cs, c.ok)
    (idatLen : Nat) (hil : idatLen < 4294967296) (rest : List UInt8) :
    (run3 zl (extract (cs.length + 2)).run
      (signature ++ (ihdr w h d ct cm fm il crc ++ (cs.flatMap Anc.bytes ++ (enc32be idatLen ++ tIDAT ++ rest)))) e).2 = rest := by
  unfold extract
  rw [Parser.run3_bind]
  have hsig := Parser.run3_full_append zl signature (ihdr w h d ct cm fm il crc ++ (cs.flatMap Anc.bytes ++ (enc32be idatLen ++ tIDAT ++ rest))) e
  have hsig' : run3 zl (Parser.full 8).run (signature ++ (ihdr w h d ct cm fm il crc ++ (cs.flatMap Anc.bytes ++ (enc32be idatLen ++ tIDAT ++ rest)))) e =
      (.ok signature, ihdr w h d ct cm fm il crc ++ (cs.flatMap Anc.bytes ++ (enc32be idatLen ++ tIDAT ++ rest))) := hsig
  rw [Parser.run3_mapErr_ok zl _ _ _ _ _ _ hsig']
  simp only [bne_self_eq_false, Bool.false_eq_true, if_false]
  rw [Parser.run3_bind]
  have hfuel : cs.length + 2 = (1 + cs.length) + 1 := by omega
  rw [hfuel, loop_ihdr zl e w h hw hh d ct cm fm il crc hcrc, loop_skips_ancs zl e cs 1 _ _ hcs,
    loop_idat zl e idatLen hil 0]
  rfl

end Prism.Png
