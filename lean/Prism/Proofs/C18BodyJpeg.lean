import Prism.Proofs.C06Stream

/-!
# C18 — the JPEG extractor leaves the scan data unread

For every JPEG of the shape SOI · (any well-formed segments) · SOS segment or EOI · `rest`: whatever the extractor returns, the
input it leaves unread ends with `rest` — the entropy-coded data and everything behind it is never consumed, whatever it is
and however long (the extractor may stop even earlier, once everything has been found).
-/

namespace Prism.Jpeg
open Prog Parser

theorem loop_items_rest (zl : Inflate) (e : IOErr) (tb rest : List UInt8) (ht : termOk tb) :
    ∀ (items : List Item) (fuel : Nat) (st : St), (∀ it ∈ items, it.ok) →
    ∃ pre, run3 zl (loop (fuel + items.length + 1) st).run (items.flatMap Item.bytes ++ (tb ++ rest)) e =
      (.ok (.done (absLoop items st)), pre ++ rest) := by
  intro items
  induction items with
  | nil =>
    intro fuel st _
    exact ⟨[], by simpa [absLoop] using loop_term zl e fuel st tb ht rest⟩
  | cons it items ih =>
    intro fuel st h
    have hf : fuel + (it :: items).length + 1 = (fuel + items.length + 1) + 1 := by simp only [List.length_cons]; omega
    rw [hf, List.flatMap_cons, List.append_assoc, loop_item zl e it (h it List.mem_cons_self)]
    by_cases hs : (applySeg st it.t.toNat it.d).2 = true
    · refine ⟨List.flatMap Item.bytes items ++ tb, ?_⟩
      rw [if_pos hs]
      simp only [absLoop, hs, if_true, List.append_assoc]
    · rw [if_neg hs]
      obtain ⟨pre, hr⟩ := ih fuel (applySeg st it.t.toNat it.d).1 (fun x hx => h x (List.mem_cons_of_mem _ hx))
      refine ⟨pre, ?_⟩
      rw [hr]
      simp only [absLoop, hs, Bool.false_eq_true, if_false]

/-- **C18 (JPEG: the scan data is left unread).** -/
theorem C18_jpeg_body_unread (zl : Inflate) (e : IOErr) (tb rest : List UInt8) (ht : termOk tb) (items : List Item)
    (h : ∀ it ∈ items, it.ok) :
    ∃ pre, (run3 zl (extract (items.length + 1)).run (markerBytes 0xd8 ++ (items.flatMap Item.bytes ++ (tb ++ rest))) e).2 = pre ++ rest := by
  unfold extract
  rw [Parser.run3_bind, run3_readSegment_marker zl 0xd8 (by decide)]
  simp only
  have h8 : ((0xd8 : UInt8).toNat != 0xd8) = false := by decide
  simp only [h8, Bool.false_eq_true, if_false]
  rw [Parser.run3_bind]
  obtain ⟨pre, hr⟩ := loop_items_rest zl e tb rest ht items 0 {} h
  have hf : 0 + items.length + 1 = items.length + 1 := by omega
  rw [hf] at hr
  rw [hr]
  simp only
  refine ⟨pre, ?_⟩
  cases finish (absLoop items {}) with
  | ok md => rfl
  | error err => rfl

end Prism.Jpeg
