import Prism.Proofs.C06Png

/-!
# C18 — a PNG with an embedded profile: everything after the iCCP chunk is left unread

With IHDR and the profile found, the extractor stops: for every PNG of the shape signature · IHDR · (any ancillary chunks) ·
iCCP (any name, any stream zlib accepts) · `rest`, the run ends with exactly `rest` unread — the remaining ancillary chunks, the
IDAT chunks, everything.
-/

namespace Prism.Png
open Prog Parser

theorem C18_png_icc_body_unread (zl : Inflate) (e : IOErr) (w h : Nat) (hw : w < 4294967296) (hh : h < 4294967296)
    (d ct cm fm il : UInt8) (crc : List UInt8) (hcrc : crc.length = 4) (cs : List Anc) (hcs : ∀ c ∈ cs, c.ok)
    (name z crc2 p : List UInt8) (hname : name.length ≤ 79) (hnz : ∀ b ∈ name, b ≠ 0) (hz : 0 < z.length)
    (hlen : name.length + 2 + z.length < 4294967296) (hcrc2 : crc2.length = 4) (hp : zl z = .ok p) (hpne : p ≠ [])
    (rest : List UInt8) :
    (run3 zl (extract (cs.length + 2)).run
      (signature ++ (ihdr w h d ct cm fm il crc ++ (cs.flatMap Anc.bytes ++ (iccp name z crc2 ++ rest)))) e).2 = rest := by
  unfold extract
  rw [Parser.run3_bind]
  have hsig' : run3 zl (Parser.full 8).run (signature ++ (ihdr w h d ct cm fm il crc ++ (cs.flatMap Anc.bytes ++ (iccp name z crc2 ++ rest)))) e =
      (.ok signature, ihdr w h d ct cm fm il crc ++ (cs.flatMap Anc.bytes ++ (iccp name z crc2 ++ rest))) :=
    Parser.run3_full_append zl signature _ e
  rw [Parser.run3_mapErr_ok zl _ _ _ _ _ _ hsig']
  simp only [bne_self_eq_false, Bool.false_eq_true, if_false]
  rw [Parser.run3_bind]
  have hfuel : cs.length + 2 = (1 + cs.length) + 1 := by omega
  rw [hfuel, loop_ihdr zl e w h hw hh d ct cm fm il crc hcrc, loop_skips_ancs zl e cs 1 _ _ hcs,
    loop_iccp_ok zl e name z crc2 p hname hnz hz hlen hcrc2 hp hpne 0 _]
  rfl

end Prism.Png
