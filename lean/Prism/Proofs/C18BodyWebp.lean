import Prism.Proofs.C06Webp

/-!
# C18 — the WebP extractor leaves the bitstream unread

For every WebP header of each of the three kinds and every continuation `rest`: the extractor's run ends with exactly `rest`
unread — the VP8/VP8L bitstream after the bytes that hold the dimensions, the chunks after the VP8X header (alpha plane,
animation frames, the image chunk), or what follows the ICCP chunk when the header flags one.
-/

namespace Prism.Webp
open Prog Parser

/-- VP8 (lossy): the ten bytes of the frame header are read, the partition data is not -/
theorem C18_webp_vp8_body_unread (s0 s1 s2 s3 l0 l1 l2 l3 t0 t1 t2 b3 b4 b5 b6 : UInt8) (rest : List UInt8) (e : IOErr) (zl : Inflate) :
    (run3 zl extract.run
      ([0x52,0x49,0x46,0x46, s0, s1, s2, s3, 0x57,0x45,0x42,0x50, 0x56,0x50,0x38,0x20, l0, l1, l2, l3,
        t0, t1, t2, 0x9d, 0x01, 0x2a, b3, b4, b5, b6] ++ rest) e).2 = rest := by
  rfl

/-- VP8L (lossless): the signature byte and the four bytes of packed dimensions are read -/
theorem C18_webp_vp8l_body_unread (s0 s1 s2 s3 l0 l1 l2 l3 b0 b1 b2 b3 : UInt8) (rest : List UInt8) (e : IOErr) (zl : Inflate) :
    (run3 zl extract.run
      ([0x52,0x49,0x46,0x46, s0, s1, s2, s3, 0x57,0x45,0x42,0x50, 0x56,0x50,0x38,0x4c, l0, l1, l2, l3,
        0x2f, b0, b1, b2, b3] ++ rest) e).2 = rest := by
  rfl

/-- VP8X without the ICC flag: nothing behind the ten-byte header is read -/
theorem C18_webp_vp8x_body_unread (zl : Inflate) (e : IOErr) (s0 s1 s2 s3 flags r0 r1 r2 w0 w1 w2 h0 h1 h2 : UInt8)
    (hf : (flags.toNat / 32) % 2 = 0) (rest : List UInt8) :
    (run3 zl extract.run (vp8xPrefix s0 s1 s2 s3 flags r0 r1 r2 w0 w1 w2 h0 h1 h2 ++ rest) e).2 = rest := by
  rw [run3_extract_vp8x]
  have : ((flags.toNat / 32) % 2 == 1) = false := by simp [hf]
  simp only [this, Bool.false_eq_true, if_false]

/-- VP8X with the ICC flag and an ICCP chunk of any payload: exactly what follows the payload is left -/
theorem C18_webp_iccp_body_unread (zl : Inflate) (e : IOErr) (s0 s1 s2 s3 flags r0 r1 r2 w0 w1 w2 h0 h1 h2 : UInt8)
    (hf : (flags.toNat / 32) % 2 = 1) (p : List UInt8) (hp : p.length < 4294967296) (rest : List UInt8) :
    (run3 zl extract.run (vp8xPrefix s0 s1 s2 s3 flags r0 r1 r2 w0 w1 w2 h0 h1 h2 ++ (tICCP ++ enc32le p.length ++ p ++ rest)) e).2 = rest := by
  rw [run3_extract_vp8x]
  have : ((flags.toNat / 32) % 2 == 1) = true := by simp [hf]
  simp only [this, if_true]
  have hr : run3 zl (readICCP 10).run (tICCP ++ enc32le p.length ++ p ++ rest) e = (.ok p, rest) := by
    unfold readICCP
    have hz : (10 + 4294967296 - 10) % 4294967296 = 0 := by decide
    rw [hz, Parser.run3_bind]
    simp only [Parser.skip]
    rw [Parser.run3_pure]
    simp only
    rw [Parser.run3_bind]
    have hh : run3 zl chunkHeader.run (tICCP ++ enc32le p.length ++ p ++ rest) e = (.ok (tICCP, p.length), p ++ rest) := by
      unfold chunkHeader
      rw [Parser.run3_bind]
      have h4 : run3 zl (Parser.full 4).run (tICCP ++ enc32le p.length ++ p ++ rest) e = (.ok tICCP, enc32le p.length ++ (p ++ rest)) := by
        have := Parser.run3_full_append zl tICCP (enc32le p.length ++ (p ++ rest)) e
        rw [List.append_assoc, List.append_assoc]
        exact this
      rw [Parser.run3_mapErr_ok zl _ _ _ _ _ _ h4]
      simp only
      rw [Parser.run3_bind, run3_u32le_enc zl _ hp]
      rfl
    rw [hh]
    simp only [bne_self_eq_false, Bool.false_eq_true, if_false]
    exact Parser.run3_bytesN_append zl p rest e
  rw [hr]

end Prism.Webp
