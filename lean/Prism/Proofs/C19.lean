import Prism.Proofs.Lemmas.Stack

/-!
# C19 — auto-detection behaves exactly like the matching format-specific loader
-/

namespace Prism

/-- **C19.** For every input (any bytes, any delivery schedule, any fault): the auto-detecting
loader returns what the first of the PNG, JPEG and WebP extractors that succeeds returns *on
the complete input, from its first byte*, or an error when none does; and in every case the
returned stream has the complete input's contents. -/
theorem C19_auto (zl : Prog.Inflate) (fuel : Nat) (r : Rd) :
    (Auto.load zl fuel r).1 = Auto.firstSuccess zl r.contents.1 r.contents.2 (Auto.progs fuel) ∧
    (Auto.load zl fuel r).2.contents = r.contents := Auto.loadList_spec zl _ r

/-- when no candidate succeeds: no metadata, an error -/
theorem C19_none (zl : Prog.Inflate) (fuel : Nat) (r : Rd)
    (h : ∀ p ∈ Auto.progs fuel, ∃ e, (Prog.runPure zl p r.contents.1 r.contents.2 {}).1 = .error e) :
    (Auto.load zl fuel r).1 = .error (.bad "unrecognised image format") := by
  rw [(C19_auto zl fuel r).1]
  unfold Auto.progs at h ⊢
  obtain ⟨e1, h1⟩ := h (Png.extract fuel).run (by simp)
  obtain ⟨e2, h2⟩ := h (Jpeg.extract fuel).run (by simp)
  obtain ⟨e3, h3⟩ := h Webp.extract.run (by simp)
  simp only [Auto.firstSuccess, h1, h2, h3]

/-- the auto loader agrees with the format-specific loader that is first to succeed -/
theorem C19_matches_specific (zl : Prog.Inflate) (fuel : Nat) (r : Rd) (m : Meta)
    (hpng : (load zl (Png.extract fuel).run r).1 = .ok m) : (Auto.load zl fuel r).1 = .ok m := by
  rw [(C19_auto zl fuel r).1]
  rw [load_result] at hpng
  simp only [Auto.progs, Auto.firstSuccess, hpng]

/-- non-vacuity: a polyglot (PNG signature followed by a WebP file) is not a PNG, not a JPEG, and
— read from its first byte — not a WebP either -/
example :
    (Auto.load (fun _ => .error "") 20 (.src { rest := Png.signature ++
        [0x52,0x49,0x46,0x46, 4,0,0,0, 0x57,0x45,0x42,0x50, 0x56,0x50,0x38,0x4c, 5,0,0,0, 0x2f, 0xff,0x3f,0,0], sched := [3] })).1 =
      .error (.bad "unrecognised image format") := by
  rfl

end Prism
