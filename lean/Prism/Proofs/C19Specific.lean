import Prism.Proofs.C19

/-!
# C19 — the auto-detecting loader and each format-specific loader

`C19_matches_specific` is the PNG case.  Here the other two: if the PNG loader fails on a reader and the JPEG loader succeeds
on it, the auto loader returns the JPEG loader's metadata; if both fail and the WebP loader succeeds, the WebP loader's — for
every reader (any bytes, delivery schedule, fault) and every inflate behaviour.  And when all three fail, it fails
(`C19_none`, restated on the loaders).
-/

namespace Prism

theorem C19_matches_jpeg (zl : Prog.Inflate) (fuel : Nat) (r : Rd) (m : Meta) (e1 : PErr)
    (hpng : (load zl (Png.extract fuel).run r).1 = .error e1)
    (hjpeg : (load zl (Jpeg.extract fuel).run r).1 = .ok m) : (Auto.load zl fuel r).1 = .ok m := by
  rw [(C19_auto zl fuel r).1]
  rw [load_result] at hpng hjpeg
  simp only [Auto.progs, Auto.firstSuccess, hpng, hjpeg]

theorem C19_matches_webp (zl : Prog.Inflate) (fuel : Nat) (r : Rd) (m : Meta) (e1 e2 : PErr)
    (hpng : (load zl (Png.extract fuel).run r).1 = .error e1)
    (hjpeg : (load zl (Jpeg.extract fuel).run r).1 = .error e2)
    (hwebp : (load zl Webp.extract.run r).1 = .ok m) : (Auto.load zl fuel r).1 = .ok m := by
  rw [(C19_auto zl fuel r).1]
  rw [load_result] at hpng hjpeg hwebp
  simp only [Auto.progs, Auto.firstSuccess, hpng, hjpeg, hwebp]

theorem C19_all_fail (zl : Prog.Inflate) (fuel : Nat) (r : Rd) (e1 e2 e3 : PErr)
    (hpng : (load zl (Png.extract fuel).run r).1 = .error e1)
    (hjpeg : (load zl (Jpeg.extract fuel).run r).1 = .error e2)
    (hwebp : (load zl Webp.extract.run r).1 = .error e3) :
    (Auto.load zl fuel r).1 = .error (.bad "unrecognised image format") ∧ (Auto.load zl fuel r).2.contents = r.contents := by
  refine ⟨?_, (C19_auto zl fuel r).2⟩
  rw [(C19_auto zl fuel r).1]
  rw [load_result] at hpng hjpeg hwebp
  simp only [Auto.progs, Auto.firstSuccess, hpng, hjpeg, hwebp]

end Prism
