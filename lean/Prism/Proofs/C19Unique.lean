import Prism.Proofs.C19Specific
import Prism.Proofs.C09Cost

/-!
# C19 — at most one of the three format-specific extractors accepts an input

An input the PNG extractor accepts starts with 0x89, one the JPEG extractor accepts with 0xFF, one the WebP extractor accepts
with 'R' — so "the first candidate that succeeds" is "the candidate that succeeds": for every input at most one exists.
-/

namespace Prism
open Prog Parser

theorem jpeg_ok_first (zl : Inflate) (fuel : Nat) (inp : List UInt8) (e : IOErr) (m : Meta)
    (h : (run3 zl (Jpeg.extract fuel).run inp e).1 = .ok m) : inp.head? = some 0xff := by
  cases inp with
  | nil =>
    exfalso
    unfold Jpeg.extract Jpeg.readSegment at h
    rw [Parser.run3_bind, Parser.run3_bind] at h
    have hb : run3 zl Parser.byte.run [] e = (.error (.io e), []) := rfl
    rw [hb] at h
    cases h
  | cons b rest =>
    by_cases hb : b = 0xff
    · rw [hb]; rfl
    · exfalso
      unfold Jpeg.extract Jpeg.readSegment at h
      rw [Parser.run3_bind, Parser.run3_bind, Parser.run3_byte_cons] at h
      simp only at h
      have : (b != 0xff) = true := by simp [hb]
      rw [if_pos this, Parser.run3_fail] at h
      cases h

theorem mapErr_full_err (zl : Inflate) (n : Nat) (inp : List UInt8) (e : IOErr) (f : PErr → PErr) (h : ¬ n ≤ inp.length) :
    ∃ err, (run3 zl (Parser.mapErr (Parser.full n) f).run inp e).1 = .error err := by
  obtain ⟨err, herr⟩ := rfr_err inp e n h
  refine ⟨f (.io err), ?_⟩
  unfold Parser.mapErr Parser.full ExceptT.mk ExceptT.run
  rw [Prog.run3_bind]
  simp only [run3, herr]

theorem png_ok_first (zl : Inflate) (fuel : Nat) (inp : List UInt8) (e : IOErr) (m : Meta)
    (h : (run3 zl (Png.extract fuel).run inp e).1 = .ok m) : inp.head? = some 0x89 := by
  unfold Png.extract at h
  rw [Parser.run3_bind] at h
  by_cases h8 : 8 ≤ inp.length
  · have hf : run3 zl (Parser.full 8).run inp e = (.ok (inp.take 8), inp.drop 8) := by
      unfold Parser.full ExceptT.mk ExceptT.run
      simp only [run3, readFullResult, h8, if_true]
    rw [Parser.run3_mapErr_ok zl _ _ _ _ _ _ hf] at h
    simp only at h
    by_cases hs : inp.take 8 = Png.signature
    · cases inp with
      | nil => simp at h8
      | cons b rest =>
        have : (b :: rest).take 8 = b :: rest.take 7 := rfl
        rw [this] at hs
        unfold Png.signature at hs
        injection hs with hb _
        rw [hb]; rfl
    · exfalso
      have : (inp.take 8 != Png.signature) = true := by simp [hs]
      rw [if_pos this, Parser.run3_fail] at h
      cases h
  · exfalso
    obtain ⟨err', he⟩ := mapErr_full_err zl 8 inp e _ h8
    generalize hx : run3 zl (Parser.mapErr (Parser.full 8) _).run inp e = x at h he
    obtain ⟨r, rest⟩ := x
    simp only at he
    subst he
    cases h

theorem webp_chunkHeader_ty (zl : Inflate) (inp rest : List UInt8) (e : IOErr) (ty : List UInt8) (len : Nat)
    (h : run3 zl Webp.chunkHeader.run inp e = (.ok (ty, len), rest)) : ty = inp.take 4 ∧ 4 ≤ inp.length := by
  unfold Webp.chunkHeader at h
  rw [Parser.run3_bind] at h
  by_cases h4 : 4 ≤ inp.length
  · have hf : run3 zl (Parser.full 4).run inp e = (.ok (inp.take 4), inp.drop 4) := by
      unfold Parser.full ExceptT.mk ExceptT.run
      simp only [run3, readFullResult, h4, if_true]
    rw [Parser.run3_mapErr_ok zl _ _ _ _ _ _ hf] at h
    simp only at h
    rw [Parser.run3_bind] at h
    cases hu : run3 zl Parser.u32le.run (inp.drop 4) e with
    | mk r rest' =>
      rw [hu] at h
      cases r with
      | ok l =>
        simp only at h
        rw [Parser.run3_pure] at h
        injection h with h1 _
        injection h1 with h2
        injection h2 with h3 _
        exact ⟨h3.symm, h4⟩
      | error err => simp only at h; cases h
  · exfalso
    obtain ⟨err', he⟩ := mapErr_full_err zl 4 inp e _ h4
    generalize hx : run3 zl (Parser.mapErr (Parser.full 4) _).run inp e = x at h he
    obtain ⟨r, rest'⟩ := x
    simp only at he
    subst he
    cases h

theorem webp_ok_first (zl : Inflate) (inp : List UInt8) (e : IOErr) (m : Meta)
    (h : (run3 zl Webp.extract.run inp e).1 = .ok m) : inp.head? = some 0x52 := by
  unfold Webp.extract at h
  rw [Parser.run3_bind] at h
  cases hch : run3 zl Webp.chunkHeader.run inp e with
  | mk r rest =>
    rw [hch] at h
    cases r with
    | error err => cases h
    | ok p =>
      obtain ⟨ty, len⟩ := p
      simp only at h
      obtain ⟨hty, h4⟩ := webp_chunkHeader_ty zl inp rest e ty len hch
      by_cases hr : ty = Webp.tRIFF
      · cases inp with
        | nil => simp at h4
        | cons b tl =>
          rw [hr] at hty
          have : (b :: tl).take 4 = b :: tl.take 3 := rfl
          rw [this] at hty
          unfold Webp.tRIFF at hty
          injection hty with hb _
          rw [← hb]; rfl
      · exfalso
        have : (ty != Webp.tRIFF) = true := by simp [hr]
        rw [if_pos this, Parser.run3_fail] at h
        cases h

/-- **C19 (at most one candidate).** For every input, source error, inflate behaviour and fuel: no two of the three
format-specific extractors accept it. -/
theorem C19_at_most_one_format (zl : Inflate) (fuel : Nat) (inp : List UInt8) (e : IOErr) (m1 m2 : Meta) :
    ¬ ((run3 zl (Png.extract fuel).run inp e).1 = .ok m1 ∧ (run3 zl (Jpeg.extract fuel).run inp e).1 = .ok m2) ∧
    ¬ ((run3 zl (Png.extract fuel).run inp e).1 = .ok m1 ∧ (run3 zl Webp.extract.run inp e).1 = .ok m2) ∧
    ¬ ((run3 zl (Jpeg.extract fuel).run inp e).1 = .ok m1 ∧ (run3 zl Webp.extract.run inp e).1 = .ok m2) := by
  refine ⟨?_, ?_, ?_⟩
  · rintro ⟨h1, h2⟩
    have a := png_ok_first zl fuel inp e m1 h1
    have b := jpeg_ok_first zl fuel inp e m2 h2
    rw [a] at b; cases b
  · rintro ⟨h1, h2⟩
    have a := png_ok_first zl fuel inp e m1 h1
    have b := webp_ok_first zl inp e m2 h2
    rw [a] at b; cases b
  · rintro ⟨h1, h2⟩
    have a := jpeg_ok_first zl fuel inp e m1 h1
    have b := webp_ok_first zl inp e m2 h2
    rw [a] at b; cases b

end Prism
