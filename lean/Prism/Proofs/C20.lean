import Mathlib.Tactic.Ring
import Mathlib.Tactic.FieldSimp
import Mathlib.Tactic.Linarith
import Mathlib.Algebra.Field.Basic
import Prism.Model.Matrix

/-!
# C20 — generated primaries matrices and the 3×3 algebra beneath them

The Go code (`matrix/matrix3.go`, `ciexyz/ciexyz.go`) is a fixed sequence of `+ − × ÷` on
float64.  Here the *same expressions* are written once over an arbitrary field (`Prism.Alg`),
and the algebraic laws are proved there.  `Prism/Model/Matrix.lean` is the same text over the
bit-exact float64 model (tied to the code by the bit-exact correspondence stream); the
singular-matrix clause is proved on that float model, for every float content.
-/

namespace Prism.Alg

variable {K : Type} [Field K]
set_option linter.unusedSectionVars false

/-- columns, as `matrix.Matrix3` stores them: `m.cJ.I` is `m[J][I]` -/
structure V3 (K : Type) where
  x : K
  y : K
  z : K

structure M3 (K : Type) where
  c0 : V3 K
  c1 : V3 K
  c2 : V3 K

@[ext] theorem V3.ext' {a b : V3 K} (hx : a.x = b.x) (hy : a.y = b.y) (hz : a.z = b.z) : a = b := by
  cases a; cases b; simp_all

@[ext] theorem M3.ext' {a b : M3 K} (h0 : a.c0 = b.c0) (h1 : a.c1 = b.c1) (h2 : a.c2 = b.c2) : a = b := by
  cases a; cases b; simp_all

def dot (a b : V3 K) : K := a.x * b.x + a.y * b.y + a.z * b.z
def mulS (v : V3 K) (s : K) : V3 K := ⟨v.x * s, v.y * s, v.z * s⟩
def transpose (m : M3 K) : M3 K :=
  ⟨⟨m.c0.x, m.c1.x, m.c2.x⟩, ⟨m.c0.y, m.c1.y, m.c2.y⟩, ⟨m.c0.z, m.c1.z, m.c2.z⟩⟩
/-- `Matrix3.MulV` -/
def mulV (m : M3 K) (v : V3 K) : V3 K :=
  ⟨m.c0.x * v.x + m.c1.x * v.y + m.c2.x * v.z,
   m.c0.y * v.x + m.c1.y * v.y + m.c2.y * v.z,
   m.c0.z * v.x + m.c1.z * v.y + m.c2.z * v.z⟩
/-- `Matrix3.MulM` -/
def mulM (m o : M3 K) : M3 K :=
  let t := transpose m
  ⟨⟨dot t.c0 o.c0, dot t.c1 o.c0, dot t.c2 o.c0⟩,
   ⟨dot t.c0 o.c1, dot t.c1 o.c1, dot t.c2 o.c1⟩,
   ⟨dot t.c0 o.c2, dot t.c1 o.c2, dot t.c2 o.c2⟩⟩
def one : M3 K := ⟨⟨1, 0, 0⟩, ⟨0, 1, 0⟩, ⟨0, 0, 1⟩⟩

/-- the determinant as `Matrix3.Inverse` computes it -/
def det (m : M3 K) : K :=
  m.c0.x * (m.c1.y * m.c2.z - m.c2.y * m.c1.z) + m.c1.x * (-(m.c0.y * m.c2.z - m.c2.y * m.c0.z)) +
    m.c2.x * (m.c0.y * m.c1.z - m.c1.y * m.c0.z)

/-- `Matrix3.Inverse` (adjugate over determinant), for a non-zero determinant -/
def inverse (m : M3 K) : M3 K :=
  let d := det m
  ⟨⟨(m.c1.y * m.c2.z - m.c2.y * m.c1.z) / d, (-(m.c0.y * m.c2.z - m.c2.y * m.c0.z)) / d, (m.c0.y * m.c1.z - m.c1.y * m.c0.z) / d⟩,
   ⟨(-(m.c1.x * m.c2.z - m.c2.x * m.c1.z)) / d, (m.c0.x * m.c2.z - m.c2.x * m.c0.z) / d, (-(m.c0.x * m.c1.z - m.c1.x * m.c0.z)) / d⟩,
   ⟨(m.c1.x * m.c2.y - m.c2.x * m.c1.y) / d, (-(m.c0.x * m.c2.y - m.c2.x * m.c0.y)) / d, (m.c0.x * m.c1.y - m.c1.x * m.c0.y) / d⟩⟩

/-- **C20 (inverse).** `m · m⁻¹ = 1` whenever the determinant is non-zero. -/
theorem C20_mul_inverse (m : M3 K) (h : det m ≠ 0) : mulM m (inverse m) = one := by
  have hd : det m = m.c0.x * (m.c1.y * m.c2.z - m.c2.y * m.c1.z) + m.c1.x * (-(m.c0.y * m.c2.z - m.c2.y * m.c0.z)) +
    m.c2.x * (m.c0.y * m.c1.z - m.c1.y * m.c0.z) := rfl
  ext <;> simp only [mulM, inverse, transpose, dot, one] <;> field_simp <;> rw [hd] <;> ring

/-- **C20 (inverse, other side).** `m⁻¹ · m = 1`. -/
theorem C20_inverse_mul (m : M3 K) (h : det m ≠ 0) : mulM (inverse m) m = one := by
  have hd : det m = m.c0.x * (m.c1.y * m.c2.z - m.c2.y * m.c1.z) + m.c1.x * (-(m.c0.y * m.c2.z - m.c2.y * m.c0.z)) +
    m.c2.x * (m.c0.y * m.c1.z - m.c1.y * m.c0.z) := rfl
  ext <;> simp only [mulM, inverse, transpose, dot, one] <;> field_simp <;> rw [hd] <;> ring

/-- **C20 (product acts as composition).** `(m · o) v = m (o v)` -/
theorem C20_mulM_mulV (m o : M3 K) (v : V3 K) : mulV (mulM m o) v = mulV m (mulV o v) := by
  ext <;> simp only [mulV, mulM, transpose, dot] <;> ring

/-- **C20 (transpose is an involution).** -/
theorem C20_transpose_transpose (m : M3 K) : transpose (transpose m) = m := by
  ext <;> rfl

theorem C20_mulM_one (m : M3 K) : mulM m one = m := by
  ext <;> simp [mulM, transpose, dot, one]

/-- `ColorFromXYY`: `X = x·Y/y`, `Y`, `Z = (1 − x − y)·Y/y` -/
def fromXYY (x y yy : K) : V3 K := ⟨x * yy / y, yy, (1 - x - y) * yy / y⟩

/-- `TransformToXYZForXYYPrimaries` -/
def transformToXYZ (r g b w : V3 K) : M3 K :=
  let m : M3 K := ⟨r, g, b⟩
  let s := mulV (inverse m) w
  ⟨mulS m.c0 s.x, mulS m.c1 s.y, mulS m.c2 s.z⟩

/-- **C20 (white).** The generated RGB→XYZ matrix maps `(1,1,1)` to the white point's XYZ, for
every primaries matrix with non-zero determinant. -/
theorem C20_white (r g b w : V3 K) (h : det (⟨r, g, b⟩ : M3 K) ≠ 0) :
    mulV (transformToXYZ r g b w) ⟨1, 1, 1⟩ = w := by
  have h1 : mulV (transformToXYZ r g b w) ⟨1, 1, 1⟩ = mulV (⟨r, g, b⟩ : M3 K) (mulV (inverse ⟨r, g, b⟩) w) := by
    ext <;> simp only [mulV, transformToXYZ, mulS] <;> ring
  rw [h1, ← C20_mulM_mulV, C20_mul_inverse _ h]
  ext <;> simp [mulV, one]

/-- **C20 (primaries).** Each unit primary maps to a multiple of that primary's XYZ — i.e. a
colour of that primary's chromaticity. -/
theorem C20_primary_r (r g b w : V3 K) :
    mulV (transformToXYZ r g b w) ⟨1, 0, 0⟩ = mulS r (mulV (inverse ⟨r, g, b⟩) w).x := by
  ext <;> simp [mulV, transformToXYZ, mulS]
theorem C20_primary_g (r g b w : V3 K) :
    mulV (transformToXYZ r g b w) ⟨0, 1, 0⟩ = mulS g (mulV (inverse ⟨r, g, b⟩) w).y := by
  ext <;> simp [mulV, transformToXYZ, mulS]
theorem C20_primary_b (r g b w : V3 K) :
    mulV (transformToXYZ r g b w) ⟨0, 0, 1⟩ = mulS b (mulV (inverse ⟨r, g, b⟩) w).z := by
  ext <;> simp [mulV, transformToXYZ, mulS]

/-- non-vacuity over ℚ: a concrete invertible matrix -/
example : det (⟨⟨2, 0, 0⟩, ⟨0, 3, 0⟩, ⟨1, 0, 5⟩⟩ : M3 ℚ) ≠ 0 := by
  norm_num [det]

end Prism.Alg
