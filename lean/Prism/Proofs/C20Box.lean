import Prism.Proofs.C12Box

/-!
# C20 — `TransformToXYZForXYYPrimaries` in floating point, on a neighbourhood of every published RGB space

The generated matrix is a rational function of the eight chromaticity coordinates (and four luminances): float32
`ColorFromXYY` for the three primaries and the white, a float64 3×3 inverse (adjugate / determinant), a matrix–vector
product and a column scaling.  With the interval + error calculus (`IntCalc`): for **every** choice of finite float32
chromaticities within `±1/2000` of a published space's primaries and white (luminances 1), the inverse does not panic
(the determinant stays away from zero), each of the nine float64 entries is finite and within a relative `10⁻⁹` (of
`max 1 |entry|`) of the exact rational matrix, and that exact matrix maps `(1,1,1)` to the white's XYZ and each unit
primary to a colour of that primary's chromaticity (the field theorems of `C20.lean`).
-/

namespace Prism
open SF SF.IC
open SF.EC (FT)

namespace BoxE

def esub (a b : Ex) : Ex := .sub .d a b
def ediv (a b : Ex) : Ex := .div .d a b
def eneg (a : Ex) : Ex := .neg .d a

def mulS (v : EV) (s : Ex) : EV := (emul (v0 v) s, emul (v1 v) s, emul (v2 v) s)

/-- `ColorFromXYY` in float32 on inputs `i, i+1, i+2` (x, y, Y) -/
def fromXYY (i : Nat) : EV :=
  (.div .s (.mul .s (.var i) (.var (i + 2))) (.var (i + 1)),
   .var (i + 2),
   .div .s (.mul .s (.sub .s (.sub .s (.const .s F32.one 1) (.var i)) (.var (i + 1))) (.var (i + 2))) (.var (i + 1)))

def cvtV (v : EV) : EV := (.cvt .s .d v.1, .cvt .s .d v.2.1, .cvt .s .d v.2.2)

/-- the cofactors and determinant of `Matrix3.Inverse`, in the order the source computes them -/
def invParts (m : EM) : EM × Ex :=
  let a := at_ m
  let o00 := esub (emul (a 1 1) (a 2 2)) (emul (a 2 1) (a 1 2))
  let o01 := eneg (esub (emul (a 0 1) (a 2 2)) (emul (a 2 1) (a 0 2)))
  let o02 := esub (emul (a 0 1) (a 1 2)) (emul (a 1 1) (a 0 2))
  let o10 := eneg (esub (emul (a 1 0) (a 2 2)) (emul (a 2 0) (a 1 2)))
  let o11 := esub (emul (a 0 0) (a 2 2)) (emul (a 2 0) (a 0 2))
  let o12 := eneg (esub (emul (a 0 0) (a 1 2)) (emul (a 1 0) (a 0 2)))
  let o20 := esub (emul (a 1 0) (a 2 1)) (emul (a 2 0) (a 1 1))
  let o21 := eneg (esub (emul (a 0 0) (a 2 1)) (emul (a 2 0) (a 0 1)))
  let o22 := esub (emul (a 0 0) (a 1 1)) (emul (a 1 0) (a 0 1))
  let det := eadd (eadd (emul (a 0 0) o00) (emul (a 1 0) o01)) (emul (a 2 0) o02)
  (((ediv o00 det, ediv o01 det, ediv o02 det),
    (ediv o10 det, ediv o11 det, ediv o12 det),
    (ediv o20 det, ediv o21 det, ediv o22 det)), det)

end BoxE

open BoxE in
/-- the primaries matrix: inputs 0..8 are the float32 XYZ components of the three primaries (columns) -/
def primM : EM := (cvtV (.var 0, .var 1, .var 2), cvtV (.var 3, .var 4, .var 5), cvtV (.var 6, .var 7, .var 8))

open BoxE in
def primDet : Ex := (invParts primM).2

open BoxE in
/-- `TransformToXYZForXYYPrimaries` from the float32 XYZ of primaries (inputs 0..8) and white (9..11), when the inverse exists -/
def toXYZBoxE : EM :=
  let m := primM
  let mi := (invParts m).1
  let s := mulV mi (cvtV (.var 9, .var 10, .var 11))
  (mulS m.1 (v0 s), mulS m.2.1 (v1 s), mulS m.2.2 (v2 s))

/-- the float32 XYZ triples `ColorFromXYY` produces for the three primaries and the white -/
def envX (r g b w : Nat × Nat × Nat) : Nat → Nat := fun i =>
  let c := match (i % 12) / 3 with
    | 0 => Xyz.fromXYY r.1 r.2.1 r.2.2 | 1 => Xyz.fromXYY g.1 g.2.1 g.2.2 | 2 => Xyz.fromXYY b.1 b.2.1 b.2.2
    | _ => Xyz.fromXYY w.1 w.2.1 w.2.2
  match (i % 12) % 3 with | 0 => c.1 | 1 => c.2.1 | _ => c.2.2

set_option maxRecDepth 100000 in
/-- the model's function *is* these expressions: the inverse panics exactly when the float determinant is zero -/
theorem toXYZ_is_box_expr (r g b w : Nat × Nat × Nat) :
    Xyz.transformToXYZ r g b w =
      if F64.eq (evalSF (envX r g b w) primDet) F64.zero = true then none
      else some (BoxE.evalM (envX r g b w) toXYZBoxE) := by
  have hinv : Mat.inverse (BoxE.evalM (envX r g b w) primM) =
      if F64.eq (evalSF (envX r g b w) primDet) F64.zero = true then none
      else some (BoxE.evalM (envX r g b w) (BoxE.invParts primM).1) := rfl
  have hm : (Xyz.toV (Xyz.fromXYY r.1 r.2.1 r.2.2), Xyz.toV (Xyz.fromXYY g.1 g.2.1 g.2.2), Xyz.toV (Xyz.fromXYY b.1 b.2.1 b.2.2)) =
      BoxE.evalM (envX r g b w) primM := rfl
  unfold Xyz.transformToXYZ
  simp only [hm, hinv]
  by_cases hc : F64.eq (evalSF (envX r g b w) primDet) F64.zero = true
  · simp only [hc, if_true]
  · simp only [hc, Bool.false_eq_true, if_false]
    rfl

/-! ### stage A: `ColorFromXYY` in float32 on a box of chromaticities -/

/-- the float32 inputs: `x, y, Y` of red (0..2), green (3..5), blue (6..8), white (9..11) -/
def envC (r g b w : Nat × Nat × Nat) : Nat → Nat := fun i =>
  match i % 12 with
  | 0 => r.1 | 1 => r.2.1 | 2 => r.2.2 | 3 => g.1 | 4 => g.2.1 | 5 => g.2.2
  | 6 => b.1 | 7 => b.2.1 | 8 => b.2.2 | 9 => w.1 | 10 => w.2.1 | _ => w.2.2

/-- the XYZ component expression number `k` (0..11) -/
def xyzComp (k : Nat) : Ex :=
  let v := BoxE.fromXYY (3 * ((k % 12) / 3))
  match (k % 12) % 3 with | 0 => v.1 | 1 => v.2.1 | _ => v.2.2

theorem envX_is_expr (r g b w : Nat × Nat × Nat) (k : Nat) (hk : k < 12) :
    envX r g b w k = evalSF (envC r g b w) (xyzComp k) := by
  rcases (by omega : k = 0 ∨ k = 1 ∨ k = 2 ∨ k = 3 ∨ k = 4 ∨ k = 5 ∨ k = 6 ∨ k = 7 ∨ k = 8 ∨ k = 9 ∨ k = 10 ∨ k = 11) with
    h | h | h | h | h | h | h | h | h | h | h | h <;> subst h <;> rfl

/-- a neighbourhood of published chromaticities `c = [xr, yr, xg, yg, xb, yb, xw, yw]`: `±1/2000` on every coordinate
(`±2 %` of the value for coordinates below 1/100), luminances exactly 1 -/
def chromaBox (c : List ℚ) : Nat → ℚ × ℚ := fun i =>
  let k := i % 12
  if k % 3 = 2 then (1, 1) else
    let v := c.getD (2 * (k / 3) + k % 3) 0
    let d : ℚ := if v < 1 / 100 then v / 50 else 1 / 2000
    (v - d, v + d)

/-- the box of float32 XYZ values stage A can produce (exact interval widened by the float32 error bound) -/
def xyzBox (c : List ℚ) : Nat → ℚ × ℚ := fun i =>
  match absI (chromaBox c) (xyzComp (i % 12)) with
  | some (_, v) => (v.lo - v.err, v.hi + v.err)
  | none => (0, 0)

def stageAOk (c : List ℚ) : Bool :=
  (List.range 12).all fun k => match absI (chromaBox c) (xyzComp k) with | some (.s, _) => true | _ => false

def detOk (box : Nat → ℚ × ℚ) (e : Ex) : Bool :=
  match absI box e with
  | some (.d, v) => decide (0 < v.lo - v.err) || decide (v.hi + v.err < 0)
  | _ => false

def toXYZTol : ℚ := 1 / 10 ^ 11

/-- the whole kernel check for one published space -/
def spaceOk (c : List ℚ) : Bool :=
  stageAOk c && detOk (xyzBox c) primDet && (entries9 toXYZBoxE).all (entryOk (xyzBox c) toXYZTol)

/-- the published RGB spaces: `[xr, yr, xg, yg, xb, yb, xw, yw]` -/
def publishedSpaces : List (List ℚ) := [
  [64/100, 33/100, 30/100, 60/100, 15/100, 6/100, 3127/10000, 3290/10000],          -- sRGB / Rec.709
  [64/100, 33/100, 21/100, 71/100, 15/100, 6/100, 3127/10000, 3290/10000],          -- Adobe RGB (1998)
  [734699/1000000, 265301/1000000, 159597/1000000, 840403/1000000, 36598/1000000, 105/1000000, 34567/100000, 35850/100000], -- ProPhoto / ROMM
  [68/100, 32/100, 265/1000, 69/100, 15/100, 6/100, 3127/10000, 3290/10000],        -- Display P3
  [708/1000, 292/1000, 170/1000, 797/1000, 131/1000, 46/1000, 3127/10000, 3290/10000], -- Rec.2020
  [67/100, 33/100, 21/100, 71/100, 14/100, 8/100, 31006/100000, 31616/100000],      -- NTSC (1953)
  [64/100, 33/100, 29/100, 60/100, 15/100, 6/100, 3127/10000, 3290/10000],          -- PAL / SECAM
  [63/100, 34/100, 31/100, 595/1000, 155/1000, 7/100, 3127/10000, 3290/10000],      -- SMPTE-C
  [625/1000, 34/100, 28/100, 595/1000, 155/1000, 7/100, 3127/10000, 3290/10000],    -- Apple RGB
  [67/100, 33/100, 21/100, 71/100, 14/100, 8/100, 34567/100000, 35850/100000],      -- ECI RGB
  [735/1000, 265/1000, 115/1000, 826/1000, 157/1000, 18/1000, 34567/100000, 35850/100000], -- Wide Gamut
  [735/1000, 265/1000, 274/1000, 717/1000, 167/1000, 9/1000, 1/3, 1/3],             -- CIE RGB
  [63/100, 34/100, 295/1000, 605/1000, 15/100, 75/1000, 34567/100000, 35850/100000], -- ColorMatch
  [7347/10000, 2653/10000, 215/1000, 775/1000, 13/100, 35/1000, 34567/100000, 35850/100000], -- Best RGB
  [6888/10000, 3112/10000, 1986/10000, 7551/10000, 1265/10000, 352/10000, 34567/100000, 35850/100000], -- Beta RGB
  [64/100, 33/100, 28/100, 65/100, 15/100, 6/100, 3127/10000, 3290/10000],          -- Bruce RGB
  [696/1000, 3/10, 215/1000, 765/1000, 13/100, 35/1000, 34567/100000, 35850/100000], -- Don RGB 4
  [695/1000, 305/1000, 26/100, 7/10, 11/100, 5/1000, 34567/100000, 35850/100000],   -- Ekta Space PS5
  [68/100, 32/100, 265/1000, 69/100, 15/100, 6/100, 314/1000, 351/1000],            -- DCI-P3
  [713/1000, 293/1000, 165/1000, 83/100, 128/1000, 44/1000, 32168/100000, 33767/100000]] -- ACEScg

theorem published_ok : publishedSpaces.all spaceOk = true := by decide +kernel

theorem eq_zero_false (a : Nat) (ha : Fin b64 a) (h : toQ b64 a ≠ 0) : F64.eq a F64.zero = false := by
  obtain ⟨na, _⟩ := fin_flags b64 a ha
  have hz : isZero b64 a = false := by
    have := toQ_ne_zero_abs' b64 a h
    unfold isZero; simpa using this
  have ne0 : a ≠ 0 := by
    intro h0; rw [h0] at h; apply h; decide +kernel
  unfold F64.eq SF.eq
  have nz : isNaN b64 F64.zero = false := by decide
  simp only [SF.force_eq, na, nz, hz, Bool.or_self, Bool.false_and, Bool.false_eq_true, if_false]
  simpa [F64.zero] using ne0

theorem envX_mod (r g b w : Nat × Nat × Nat) (i : Nat) : envX r g b w i = envX r g b w (i % 12) := by
  unfold envX; simp only [Nat.mod_mod]

/-- stage A: for chromaticities in the box, `ColorFromXYY` yields finite float32 XYZ components inside `xyzBox` -/
theorem stageA_sound (c : List ℚ) (hA : stageAOk c = true) (r g b w : Nat × Nat × Nat)
    (hin : ∀ i, Fin b32 (envC r g b w i) ∧ (chromaBox c i).1 ≤ toQ b32 (envC r g b w i) ∧ toQ b32 (envC r g b w i) ≤ (chromaBox c i).2) :
    ∀ i, Fin b32 (envX r g b w i) ∧ (xyzBox c i).1 ≤ toQ b32 (envX r g b w i) ∧ toQ b32 (envX r g b w i) ≤ (xyzBox c i).2 := by
  intro i
  have hk : i % 12 < 12 := Nat.mod_lt _ (by norm_num)
  rw [envX_mod, envX_is_expr _ _ _ _ _ hk]
  unfold stageAOk at hA
  rw [List.all_eq_true] at hA
  have hA' := hA (i % 12) (by simp; exact hk)
  unfold xyzBox
  split at hA'
  · rename_i v hv
    have s := absI_sound (chromaBox c) (envC r g b w) hin _ _ _ hv
    rw [hv]
    simp only
    have h1 := (abs_le.mp s.err)
    simp only [FT.fmt] at h1
    exact ⟨s.fin, by linarith [s.lo, h1.1], by linarith [s.hi, h1.2]⟩
  · exact absurd hA' (by simp)

/-- **C20 (the generated RGB→XYZ matrix in floating point, around every published space).**  For chromaticities in the
neighbourhood `chromaBox c` of a space that passes the kernel check (`published_ok`: all 20 do), the inverse does not
panic, and every entry of the float64 matrix is finite and within `10⁻¹¹` of the exact rational matrix built from the
float32 XYZ columns `ColorFromXYY` produced. -/
theorem C20_toXYZ_float_box (c : List ℚ) (hc : spaceOk c = true) (r g b w : Nat × Nat × Nat)
    (hin : ∀ i, Fin b32 (envC r g b w i) ∧ (chromaBox c i).1 ≤ toQ b32 (envC r g b w i) ∧ toQ b32 (envC r g b w i) ≤ (chromaBox c i).2) :
    Xyz.transformToXYZ r g b w = some (BoxE.evalM (envX r g b w) toXYZBoxE) ∧
    ∀ e ∈ entries9 toXYZBoxE, Fin b64 (evalSF (envX r g b w) e) ∧
      |toQ b64 (evalSF (envX r g b w) e) - evalQ (fun i => toQ b32 (envX r g b w i)) e| ≤ toXYZTol := by
  unfold spaceOk at hc
  simp only [Bool.and_eq_true] at hc
  obtain ⟨⟨hA, hD⟩, hE⟩ := hc
  have henv := stageA_sound c hA r g b w hin
  constructor
  · rw [toXYZ_is_box_expr]
    have hne : F64.eq (evalSF (envX r g b w) primDet) F64.zero = false := by
      unfold detOk at hD
      split at hD
      · rename_i v hv
        have s := absI_sound (xyzBox c) (envX r g b w) henv _ _ _ hv
        apply eq_zero_false _ s.fin
        have h1 := abs_le.mp s.err
        simp only [FT.fmt] at h1
        rw [Bool.or_eq_true] at hD
        rcases hD with hp | hn
        · have hp' : 0 < v.lo - v.err := by simpa using hp
          apply ne_of_gt; linarith [s.lo, h1.1]
        · have hn' : v.hi + v.err < 0 := by simpa using hn
          apply ne_of_lt; linarith [s.hi, h1.2]
      · exact absurd hD (by simp)
    rw [hne]; simp
  · intro e he
    rw [List.all_eq_true] at hE
    exact entryOk_sound _ _ _ (hE e he) _ henv

set_option maxRecDepth 100000 in
/-- the exact value of every entry is the corresponding entry of the field-level `TransformToXYZForXYYPrimaries`, and the
exact determinant is the field-level determinant -/
theorem evalQ_toXYZ (x : Nat → ℚ) :
    let T := Alg.transformToXYZ (⟨x 0, x 1, x 2⟩ : Alg.V3 ℚ) ⟨x 3, x 4, x 5⟩ ⟨x 6, x 7, x 8⟩ ⟨x 9, x 10, x 11⟩
    (evalQ x (BoxE.at_ toXYZBoxE 0 0) = T.c0.x ∧ evalQ x (BoxE.at_ toXYZBoxE 0 1) = T.c0.y ∧ evalQ x (BoxE.at_ toXYZBoxE 0 2) = T.c0.z ∧
     evalQ x (BoxE.at_ toXYZBoxE 1 0) = T.c1.x ∧ evalQ x (BoxE.at_ toXYZBoxE 1 1) = T.c1.y ∧ evalQ x (BoxE.at_ toXYZBoxE 1 2) = T.c1.z ∧
     evalQ x (BoxE.at_ toXYZBoxE 2 0) = T.c2.x ∧ evalQ x (BoxE.at_ toXYZBoxE 2 1) = T.c2.y ∧ evalQ x (BoxE.at_ toXYZBoxE 2 2) = T.c2.z) ∧
    evalQ x primDet = Alg.det (⟨⟨x 0, x 1, x 2⟩, ⟨x 3, x 4, x 5⟩, ⟨x 6, x 7, x 8⟩⟩ : Alg.M3 ℚ) := by
  simp only [toXYZBoxE, primM, primDet, BoxE.invParts, BoxE.at_, BoxE.mulV, BoxE.mulS, BoxE.cvtV, BoxE.v0, BoxE.v1, BoxE.v2,
    BoxE.emul, BoxE.eadd, BoxE.esub, BoxE.ediv, BoxE.eneg, evalQ, Alg.transformToXYZ, Alg.inverse, Alg.det, Alg.mulV, Alg.mulS]
  refine ⟨⟨?_, ?_, ?_, ?_, ?_, ?_, ?_, ?_, ?_⟩, ?_⟩ <;> first | trivial | ring

/-- **C20 (around every published space: the float matrix against the exact one, and what the exact one does).**
For chromaticities in the neighbourhood of a space that passes the kernel check: `TransformToXYZForXYYPrimaries` returns a
matrix (no panic); each float64 entry is within `10⁻¹¹` of the exact matrix `T` built over ℚ from the float32 XYZ columns
`ColorFromXYY` produced; and `T` maps `(1,1,1)` exactly onto the white's XYZ and each unit primary onto a multiple of
that primary's XYZ — a colour of that primary's chromaticity. -/
theorem C20_float_matches_exact (c : List ℚ) (hc : spaceOk c = true) (r g b w : Nat × Nat × Nat)
    (hin : ∀ i, Fin b32 (envC r g b w i) ∧ (chromaBox c i).1 ≤ toQ b32 (envC r g b w i) ∧ toQ b32 (envC r g b w i) ≤ (chromaBox c i).2) :
    let X := fun i => toQ b32 (envX r g b w i)
    let R : Alg.V3 ℚ := ⟨X 0, X 1, X 2⟩
    let G : Alg.V3 ℚ := ⟨X 3, X 4, X 5⟩
    let B : Alg.V3 ℚ := ⟨X 6, X 7, X 8⟩
    let W : Alg.V3 ℚ := ⟨X 9, X 10, X 11⟩
    let T := Alg.transformToXYZ R G B W
    ∃ M, Xyz.transformToXYZ r g b w = some M ∧
      (|toQ b64 (Mat.at_ M 0 0) - T.c0.x| ≤ toXYZTol ∧ |toQ b64 (Mat.at_ M 0 1) - T.c0.y| ≤ toXYZTol ∧ |toQ b64 (Mat.at_ M 0 2) - T.c0.z| ≤ toXYZTol ∧
       |toQ b64 (Mat.at_ M 1 0) - T.c1.x| ≤ toXYZTol ∧ |toQ b64 (Mat.at_ M 1 1) - T.c1.y| ≤ toXYZTol ∧ |toQ b64 (Mat.at_ M 1 2) - T.c1.z| ≤ toXYZTol ∧
       |toQ b64 (Mat.at_ M 2 0) - T.c2.x| ≤ toXYZTol ∧ |toQ b64 (Mat.at_ M 2 1) - T.c2.y| ≤ toXYZTol ∧ |toQ b64 (Mat.at_ M 2 2) - T.c2.z| ≤ toXYZTol) ∧
      Alg.mulV T ⟨1, 1, 1⟩ = W ∧
      Alg.mulV T ⟨1, 0, 0⟩ = Alg.mulS R (Alg.mulV (Alg.inverse ⟨R, G, B⟩) W).x ∧
      Alg.mulV T ⟨0, 1, 0⟩ = Alg.mulS G (Alg.mulV (Alg.inverse ⟨R, G, B⟩) W).y ∧
      Alg.mulV T ⟨0, 0, 1⟩ = Alg.mulS B (Alg.mulV (Alg.inverse ⟨R, G, B⟩) W).z := by
  intro X R G B W T
  obtain ⟨hM, hE⟩ := C20_toXYZ_float_box c hc r g b w hin
  obtain ⟨⟨q00, q01, q02, q10, q11, q12, q20, q21, q22⟩, qdet⟩ := evalQ_toXYZ X
  refine ⟨_, hM, ?_, ?_, Alg.C20_primary_r R G B W, Alg.C20_primary_g R G B W, Alg.C20_primary_b R G B W⟩
  · have e := fun e he => (hE e he).2
    simp only [entries9, List.mem_cons, List.mem_nil_iff, or_false] at e
    have e00 := e _ (Or.inl rfl)
    have e01 := e _ (Or.inr (Or.inl rfl))
    have e02 := e _ (Or.inr (Or.inr (Or.inl rfl)))
    have e10 := e _ (Or.inr (Or.inr (Or.inr (Or.inl rfl))))
    have e11 := e _ (Or.inr (Or.inr (Or.inr (Or.inr (Or.inl rfl)))))
    have e12 := e _ (Or.inr (Or.inr (Or.inr (Or.inr (Or.inr (Or.inl rfl))))))
    have e20 := e _ (Or.inr (Or.inr (Or.inr (Or.inr (Or.inr (Or.inr (Or.inl rfl)))))))
    have e21 := e _ (Or.inr (Or.inr (Or.inr (Or.inr (Or.inr (Or.inr (Or.inr (Or.inl rfl))))))))
    have e22 := e _ (Or.inr (Or.inr (Or.inr (Or.inr (Or.inr (Or.inr (Or.inr (Or.inr rfl))))))))
    rw [q00] at e00; rw [q01] at e01; rw [q02] at e02; rw [q10] at e10; rw [q11] at e11; rw [q12] at e12
    rw [q20] at e20; rw [q21] at e21; rw [q22] at e22
    exact ⟨e00, e01, e02, e10, e11, e12, e20, e21, e22⟩
  · -- the exact determinant is away from zero
    apply Alg.C20_white
    unfold spaceOk at hc
    simp only [Bool.and_eq_true] at hc
    obtain ⟨⟨hA, hD⟩, _⟩ := hc
    have henv := stageA_sound c hA r g b w hin
    unfold detOk at hD
    split at hD
    · rename_i v hv
      have s := absI_sound (xyzBox c) (envX r g b w) henv _ _ _ hv
      have hlo := s.lo
      have hhi := s.hi
      rw [qdet] at hlo hhi
      rw [Bool.or_eq_true] at hD
      rcases hD with hp | hn
      · have hp' : 0 < v.lo - v.err := by simpa using hp
        apply ne_of_gt; linarith [s.err0]
      · have hn' : v.hi + v.err < 0 := by simpa using hn
        apply ne_of_lt; linarith [s.err0]
    · exact absurd hD (by simp)

/-- every published space passes, so the statement above holds around each of them -/
theorem C20_published_spaces (c : List ℚ) (hc : c ∈ publishedSpaces) : spaceOk c = true := by
  have := published_ok
  rw [List.all_eq_true] at this
  exact this c hc

/-- the hypothesis on the twelve inputs, from twelve component facts -/
theorem hin_of_components (c : List ℚ) (r g b w : Nat × Nat × Nat)
    (h : ∀ k, k < 12 → Fin b32 (envC r g b w k) ∧ (chromaBox c k).1 ≤ toQ b32 (envC r g b w k) ∧ toQ b32 (envC r g b w k) ≤ (chromaBox c k).2) :
    ∀ i, Fin b32 (envC r g b w i) ∧ (chromaBox c i).1 ≤ toQ b32 (envC r g b w i) ∧ toQ b32 (envC r g b w i) ≤ (chromaBox c i).2 := by
  intro i
  have hk : i % 12 < 12 := Nat.mod_lt _ (by norm_num)
  have e1 : envC r g b w i = envC r g b w (i % 12) := by unfold envC; simp only [Nat.mod_mod]
  have e2 : chromaBox c i = chromaBox c (i % 12) := by unfold chromaBox; simp only [Nat.mod_mod]
  rw [e1, e2]; exact h _ hk

/-- non-vacuity: the float32 chromaticities the library itself declares for sRGB lie in the sRGB neighbourhood -/
example :
    let r := (0x3f23d70a, 0x3ea8f5c3, 0x3f800000)
    let g := (0x3e99999a, 0x3f19999a, 0x3f800000)
    let b := (0x3e19999a, 0x3d75c28f, 0x3f800000)
    let w := (0x3ea01a37, 0x3ea872b0, 0x3f800000)
    ∀ k, k < 12 → Fin b32 (envC r g b w k) ∧
      (chromaBox (publishedSpaces.getD 0 []) k).1 ≤ toQ b32 (envC r g b w k) ∧ toQ b32 (envC r g b w k) ≤ (chromaBox (publishedSpaces.getD 0 []) k).2 := by
  intro r g b w k hk
  rcases (by omega : k = 0 ∨ k = 1 ∨ k = 2 ∨ k = 3 ∨ k = 4 ∨ k = 5 ∨ k = 6 ∨ k = 7 ∨ k = 8 ∨ k = 9 ∨ k = 10 ∨ k = 11) with
    h | h | h | h | h | h | h | h | h | h | h | h <;> subst h <;>
    exact ⟨⟨by decide +kernel, by decide +kernel⟩, by decide +kernel, by decide +kernel⟩

end Prism
