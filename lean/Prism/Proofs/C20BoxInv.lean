import Prism.Proofs.C20Box

/-!
# C20 — `TransformFromXYZForXYYPrimaries` and the product of the two generated matrices, around every published space

`TransformFromXYZForXYYPrimaries` is `Matrix3.Inverse` of the matrix `TransformToXYZForXYYPrimaries` generated.  Same
method as `C20Box.lean` (the analysed expression is the model's function, by `rfl` and one case split on the panic
branch; the kernel evaluates the interval + error calculus on the box of XYZ columns): around each of the 20 published
spaces the second inverse does not panic either, each entry of the XYZ→RGB matrix is within `10⁻¹⁰` of the exact inverse
of the exact RGB→XYZ matrix, and the float64 product `from · to` (`Matrix3.MulM`) is within `10⁻¹⁰` of the identity,
entry by entry.
-/

namespace Prism
open SF SF.IC
open SF.EC (FT)

open BoxE in
def fromXYZBoxE : EM := (invParts toXYZBoxE).1
open BoxE in
def toDet : Ex := (invParts toXYZBoxE).2
open BoxE in
/-- `from.MulM(to)` -/
def prodBoxE : EM := mulM fromXYZBoxE toXYZBoxE

def invTol : ℚ := 1 / 10 ^ 10

def spaceOkInv (c : List ℚ) : Bool :=
  spaceOk c && detOk (xyzBox c) toDet && (entries9 fromXYZBoxE).all (entryOk (xyzBox c) invTol) &&
    (entries9 prodBoxE).all (entryOk (xyzBox c) invTol)

theorem published_inv_ok : publishedSpaces.all spaceOkInv = true := by decide +kernel

set_option maxRecDepth 100000 in
/-- the model's `TransformFromXYZForXYYPrimaries` in terms of the expressions -/
theorem fromXYZ_is_box_expr (r g b w : Nat × Nat × Nat)
    (h1 : F64.eq (evalSF (envX r g b w) primDet) F64.zero = false) :
    Xyz.transformFromXYZ r g b w =
      if F64.eq (evalSF (envX r g b w) toDet) F64.zero = true then none
      else some (BoxE.evalM (envX r g b w) fromXYZBoxE) := by
  have hto := toXYZ_is_box_expr r g b w
  rw [h1] at hto
  simp only [Bool.false_eq_true, if_false] at hto
  have hinv : Mat.inverse (BoxE.evalM (envX r g b w) toXYZBoxE) =
      if F64.eq (evalSF (envX r g b w) toDet) F64.zero = true then none
      else some (BoxE.evalM (envX r g b w) fromXYZBoxE) := rfl
  unfold Xyz.transformFromXYZ
  rw [hto]
  exact hinv

/-- the exact values of a matrix of expressions, as a column-major algebraic matrix -/
def algOf (x : Nat → ℚ) (m : EM) : Alg.M3 ℚ :=
  ⟨⟨evalQ x (BoxE.at_ m 0 0), evalQ x (BoxE.at_ m 0 1), evalQ x (BoxE.at_ m 0 2)⟩,
   ⟨evalQ x (BoxE.at_ m 1 0), evalQ x (BoxE.at_ m 1 1), evalQ x (BoxE.at_ m 1 2)⟩,
   ⟨evalQ x (BoxE.at_ m 2 0), evalQ x (BoxE.at_ m 2 1), evalQ x (BoxE.at_ m 2 2)⟩⟩

/-- the inverse expression evaluates, exactly, to the field-level inverse (adjugate over determinant) -/
theorem algOf_inv (x : Nat → ℚ) (m : EM) :
    algOf x (BoxE.invParts m).1 = Alg.inverse (algOf x m) ∧ evalQ x (BoxE.invParts m).2 = Alg.det (algOf x m) := by
  obtain ⟨⟨a, b, c⟩, ⟨d, e, f⟩, ⟨g, h, i⟩⟩ := m
  simp only [algOf, BoxE.invParts, BoxE.at_, BoxE.emul, BoxE.eadd, BoxE.esub, BoxE.ediv, BoxE.eneg, evalQ, Alg.inverse, Alg.det]
  exact ⟨trivial, trivial⟩

theorem algOf_mulM (x : Nat → ℚ) (a b : EM) : algOf x (BoxE.mulM a b) = Alg.mulM (algOf x a) (algOf x b) := by
  obtain ⟨⟨a0, a1, a2⟩, ⟨a3, a4, a5⟩, ⟨a6, a7, a8⟩⟩ := a
  obtain ⟨⟨b0, b1, b2⟩, ⟨b3, b4, b5⟩, ⟨b6, b7, b8⟩⟩ := b
  simp only [algOf, BoxE.mulM, BoxE.transpose, BoxE.dot, BoxE.at_, BoxE.v0, BoxE.v1, BoxE.v2, BoxE.emul, BoxE.eadd, evalQ,
    Alg.mulM, Alg.transpose, Alg.dot]

theorem algOf_toXYZ (x : Nat → ℚ) :
    algOf x toXYZBoxE = Alg.transformToXYZ (⟨x 0, x 1, x 2⟩ : Alg.V3 ℚ) ⟨x 3, x 4, x 5⟩ ⟨x 6, x 7, x 8⟩ ⟨x 9, x 10, x 11⟩ := by
  obtain ⟨⟨q00, q01, q02, q10, q11, q12, q20, q21, q22⟩, _⟩ := evalQ_toXYZ x
  unfold algOf
  rw [q00, q01, q02, q10, q11, q12, q20, q21, q22]

/-- entry (column `c`, row `r`) of an algebraic matrix -/
def algAt (m : Alg.M3 ℚ) (c r : Nat) : ℚ :=
  let col := match c with | 0 => m.c0 | 1 => m.c1 | _ => m.c2
  match r with | 0 => col.x | 1 => col.y | _ => col.z

theorem algOf_at (x : Nat → ℚ) (m : EM) (c r : Nat) (hc : c < 3) (hr : r < 3) :
    evalQ x (BoxE.at_ m c r) = algAt (algOf x m) c r := by
  rcases (by omega : c = 0 ∨ c = 1 ∨ c = 2) with rfl | rfl | rfl <;>
  rcases (by omega : r = 0 ∨ r = 1 ∨ r = 2) with rfl | rfl | rfl <;> rfl

theorem evalM_at (env : Nat → Nat) (m : EM) (c r : Nat) (hc : c < 3) (hr : r < 3) :
    Mat.at_ (BoxE.evalM env m) c r = evalSF env (BoxE.at_ m c r) := by
  rcases (by omega : c = 0 ∨ c = 1 ∨ c = 2) with rfl | rfl | rfl <;>
  rcases (by omega : r = 0 ∨ r = 1 ∨ r = 2) with rfl | rfl | rfl <;> rfl

theorem at_mem_entries9 (m : EM) (c r : Nat) (hc : c < 3) (hr : r < 3) : BoxE.at_ m c r ∈ entries9 m := by
  rcases (by omega : c = 0 ∨ c = 1 ∨ c = 2) with rfl | rfl | rfl <;>
  rcases (by omega : r = 0 ∨ r = 1 ∨ r = 2) with rfl | rfl | rfl <;> simp [entries9]

theorem mulM_evalM (env : Nat → Nat) (a b : EM) :
    Mat.mulM (BoxE.evalM env a) (BoxE.evalM env b) = BoxE.evalM env (BoxE.mulM a b) := rfl

/-- **C20 (the XYZ→RGB matrix and the product, around every published space).**  For chromaticities in the
neighbourhood of a space that passes the kernel check (`published_inv_ok`: all 20 do): `TransformFromXYZForXYYPrimaries`
returns a matrix `F` (neither inverse panics); each entry of `F` is within `10⁻¹⁰` of the exact inverse of the exact
RGB→XYZ matrix `T`; `T⁻¹·T = 1` exactly; and the float64 product `F.MulM(M)` of the two generated matrices is within
`10⁻¹⁰` of the identity, entry by entry. -/
theorem C20_fromXYZ_float_box (c : List ℚ) (hc : spaceOkInv c = true) (r g b w : Nat × Nat × Nat)
    (hin : ∀ i, Fin b32 (envC r g b w i) ∧ (chromaBox c i).1 ≤ toQ b32 (envC r g b w i) ∧ toQ b32 (envC r g b w i) ≤ (chromaBox c i).2) :
    let X := fun i => toQ b32 (envX r g b w i)
    let T := Alg.transformToXYZ (⟨X 0, X 1, X 2⟩ : Alg.V3 ℚ) ⟨X 3, X 4, X 5⟩ ⟨X 6, X 7, X 8⟩ ⟨X 9, X 10, X 11⟩
    ∃ M F, Xyz.transformToXYZ r g b w = some M ∧ Xyz.transformFromXYZ r g b w = some F ∧
      (∀ col row, col < 3 → row < 3 → |toQ b64 (Mat.at_ F col row) - algAt (Alg.inverse T) col row| ≤ invTol) ∧
      Alg.mulM (Alg.inverse T) T = Alg.one ∧
      (∀ col row, col < 3 → row < 3 → |toQ b64 (Mat.at_ (Mat.mulM F M) col row) - algAt Alg.one col row| ≤ invTol) := by
  intro X T
  unfold spaceOkInv at hc
  simp only [Bool.and_eq_true] at hc
  obtain ⟨⟨⟨hS, hD2⟩, hF⟩, hP⟩ := hc
  obtain ⟨hM, _⟩ := C20_toXYZ_float_box c hS r g b w hin
  have hS' := hS
  unfold spaceOk at hS'
  simp only [Bool.and_eq_true] at hS'
  obtain ⟨⟨hA, _⟩, _⟩ := hS'
  have henv := stageA_sound c hA r g b w hin
  -- the first determinant is not zero (else the to-matrix would be `none`)
  have h1 : F64.eq (evalSF (envX r g b w) primDet) F64.zero = false := by
    have h := toXYZ_is_box_expr r g b w
    rw [hM] at h
    cases hq : F64.eq (evalSF (envX r g b w) primDet) F64.zero
    · rfl
    · rw [hq] at h; simp at h
  -- the second determinant: float value non-zero, exact value non-zero
  have hdet2 : F64.eq (evalSF (envX r g b w) toDet) F64.zero = false ∧ evalQ X toDet ≠ 0 := by
    unfold detOk at hD2
    split at hD2
    · rename_i v hv
      have s := absI_sound (xyzBox c) (envX r g b w) henv _ _ _ hv
      have h1' := abs_le.mp s.err
      simp only [FT.fmt] at h1'
      rw [Bool.or_eq_true] at hD2
      rcases hD2 with hp | hn
      · have hp' : 0 < v.lo - v.err := by simpa using hp
        exact ⟨eq_zero_false _ s.fin (by apply ne_of_gt; linarith [s.lo, h1'.1]), by apply ne_of_gt; linarith [s.lo, s.err0]⟩
      · have hn' : v.hi + v.err < 0 := by simpa using hn
        exact ⟨eq_zero_false _ s.fin (by apply ne_of_lt; linarith [s.hi, h1'.2]), by apply ne_of_lt; linarith [s.hi, s.err0]⟩
    · exact absurd hD2 (by simp)
  have hFeq : Xyz.transformFromXYZ r g b w = some (BoxE.evalM (envX r g b w) fromXYZBoxE) := by
    rw [fromXYZ_is_box_expr r g b w h1, hdet2.1]; simp
  -- exact side
  have hTo : algOf X toXYZBoxE = T := algOf_toXYZ X
  obtain ⟨hInv, hDetQ⟩ := algOf_inv X toXYZBoxE
  rw [hTo] at hInv hDetQ
  have hdetT : Alg.det T ≠ 0 := by rw [← hDetQ]; exact hdet2.2
  have hone : Alg.mulM (Alg.inverse T) T = Alg.one := Alg.C20_inverse_mul T hdetT
  have hProd : algOf X prodBoxE = Alg.one := by
    unfold prodBoxE
    rw [algOf_mulM, hTo]
    have : algOf X fromXYZBoxE = Alg.inverse T := hInv
    rw [this, hone]
  refine ⟨_, _, hM, hFeq, ?_, hone, ?_⟩
  · intro col row hcol hrow
    rw [List.all_eq_true] at hF
    have := (entryOk_sound _ _ _ (hF _ (at_mem_entries9 fromXYZBoxE col row hcol hrow)) _ henv).2
    rw [evalM_at _ _ _ _ hcol hrow]
    have e : evalQ X (BoxE.at_ fromXYZBoxE col row) = algAt (Alg.inverse T) col row := by
      rw [algOf_at X _ _ _ hcol hrow]
      have : algOf X fromXYZBoxE = Alg.inverse T := hInv
      rw [this]
    rw [← e]; exact this
  · intro col row hcol hrow
    rw [List.all_eq_true] at hP
    have := (entryOk_sound _ _ _ (hP _ (at_mem_entries9 prodBoxE col row hcol hrow)) _ henv).2
    rw [mulM_evalM, evalM_at _ _ _ _ hcol hrow]
    have e : evalQ X (BoxE.at_ prodBoxE col row) = algAt Alg.one col row := by
      rw [algOf_at X _ _ _ hcol hrow, hProd]
    rw [← e]; exact this

theorem C20_published_spaces_inv (c : List ℚ) (hc : c ∈ publishedSpaces) : spaceOkInv c = true := by
  have := published_inv_ok
  rw [List.all_eq_true] at this
  exact this c hc

end Prism
