import Prism.Spec.Curves
import Prism.Proofs.Lemmas.RpowLift
import Prism.Check.C01
import Mathlib.Tactic.Linarith
import Mathlib.Tactic.Positivity
import Mathlib.Tactic.FieldSimp
import Mathlib.Tactic.Ring

/-!
# Soundness of the integer decision procedure `entryOk` w.r.t. the real-valued curves
-/

namespace Prism
open SF Real

/-- real value of a finite non-negative binary32 bit pattern -/
noncomputable def f32ToReal (t : Nat) : ℝ := (num b32 t : ℝ) / (den b32 t : ℝ)

theorem den_pos (f : Fmt) (b : Nat) : 0 < den f b := by
  unfold den
  simp only [force_eq]
  split_ifs <;> first | exact Nat.one_pos | (rw [Nat.shiftLeft_eq, Nat.one_mul]; exact Nat.two_pow_pos _)

theorem ratWithin_sound (tn td yn yd : Nat) (htd : 0 < td) (hyd : 0 < yd)
    (h : ratWithin tn td yn yd = true) :
    |(tn:ℝ)/td - (yn:ℝ)/yd| ≤ 3 / 10000000 := by
  unfold ratWithin at h
  simp only [force_eq, Nat.ble_eq, epsD, epsN] at h
  have htd' : (0:ℝ) < td := by exact_mod_cast htd
  have hyd' : (0:ℝ) < yd := by exact_mod_cast hyd
  have key : (tn:ℝ)/td - (yn:ℝ)/yd = ((tn:ℝ)*yd - (yn:ℝ)*td)/((td:ℝ)*yd) := by
    field_simp
  rw [key, abs_div, abs_of_pos (mul_pos htd' hyd'), div_le_div_iff₀ (mul_pos htd' hyd') (by norm_num)]
  split at h
  · rename_i hle
    have hc : ((yn * td - tn * yd : ℕ) : ℝ) = (yn:ℝ)*td - (tn:ℝ)*yd := by
      rw [Nat.cast_sub hle]; push_cast; ring
    have h' : ((yn * td - tn * yd : ℕ) : ℝ) * 10000000 ≤ 3 * (td:ℝ) * yd := by exact_mod_cast h
    rw [hc] at h'
    have hle' : (tn:ℝ)*yd ≤ (yn:ℝ)*td := by exact_mod_cast hle
    rw [abs_of_nonpos (by linarith)]
    linarith
  · rename_i hle
    have hle2 : yn * td ≤ tn * yd := by omega
    have hc : ((tn * yd - yn * td : ℕ) : ℝ) = (tn:ℝ)*yd - (yn:ℝ)*td := by
      rw [Nat.cast_sub hle2]; push_cast; ring
    have h' : ((tn * yd - yn * td : ℕ) : ℝ) * 10000000 ≤ 3 * (td:ℝ) * yd := by exact_mod_cast h
    rw [hc] at h'
    have hle' : (yn:ℝ)*td ≤ (tn:ℝ)*yd := by exact_mod_cast hle2
    rw [abs_of_nonneg (by linarith)]
    linarith

theorem powWithin_sound (tn td yn yd p q : Nat) (htd : 0 < td) (hyd : 0 < yd) (hq : 0 < q)
    (h : powWithin tn td yn yd p q = true) :
    |(tn:ℝ)/td - ((yn:ℝ)/yd) ^ ((p:ℝ)/(q:ℝ))| ≤ 3 / 10000000 := by
  unfold powWithin at h
  simp only [force_eq, Nat.ble_eq, epsD, epsN, Bool.and_eq_true, Bool.or_eq_true] at h
  obtain ⟨hlo, hhi⟩ := h
  have htd' : (0:ℝ) < td := by exact_mod_cast htd
  have hyd' : (0:ℝ) < yd := by exact_mod_cast hyd
  have hy : (0:ℝ) ≤ (yn:ℝ)/yd := by positivity
  have hdd : (0:ℝ) < (td:ℝ) * 10000000 := by positivity
  have hydp : (0:ℝ) < (yd:ℝ)^p := by positivity
  have hddq : (0:ℝ) < ((td:ℝ) * 10000000)^q := by positivity
  rw [abs_le]
  constructor
  · -- y^(p/q) ≤ t + ε
    have hhi' : ((yn:ℝ)^p) * ((td:ℝ) * 10000000)^q ≤ ((tn:ℝ) * 10000000 + 3 * td)^q * (yd:ℝ)^p := by
      exact_mod_cast hhi
    have ha : (0:ℝ) ≤ ((tn:ℝ) * 10000000 + 3 * td) / ((td:ℝ) * 10000000) := by positivity
    have hpow : ((yn:ℝ)/yd)^p ≤ (((tn:ℝ) * 10000000 + 3 * td) / ((td:ℝ) * 10000000))^q := by
      rw [div_pow, div_pow, div_le_div_iff₀ hydp hddq]
      exact hhi'
    have := (rpow_div_le_iff ha hy hq).mpr hpow
    have e : ((tn:ℝ) * 10000000 + 3 * td) / ((td:ℝ) * 10000000) = (tn:ℝ)/td + 3/10000000 := by
      field_simp
    rw [e] at this
    linarith
  · -- t − ε ≤ y^(p/q)
    have hnn : (0:ℝ) ≤ ((yn:ℝ)/yd) ^ ((p:ℝ)/(q:ℝ)) := Real.rpow_nonneg hy _
    rcases hlo with hlo | hlo
    · -- t ≤ ε
      have hlo' : (tn:ℝ) * 10000000 ≤ 3 * td := by exact_mod_cast hlo
      have : (tn:ℝ)/td ≤ 3/10000000 := by
        rw [div_le_div_iff₀ htd' (by norm_num)]; linarith
      linarith
    · by_cases hcmp : tn * 10000000 ≤ 3 * td
      · have hlo' : (tn:ℝ) * 10000000 ≤ 3 * td := by exact_mod_cast hcmp
        have : (tn:ℝ)/td ≤ 3/10000000 := by
          rw [div_le_div_iff₀ htd' (by norm_num)]; linarith
        linarith
      · have hcmp' : 3 * td ≤ tn * 10000000 := by omega
        have hc : ((tn * 10000000 - 3 * td : ℕ) : ℝ) = (tn:ℝ) * 10000000 - 3 * td := by
          rw [Nat.cast_sub hcmp']; push_cast; ring
        have hlo' : (((tn * 10000000 - 3 * td : ℕ) : ℝ))^q * (yd:ℝ)^p ≤ ((yn:ℝ)^p) * ((td:ℝ) * 10000000)^q := by
          exact_mod_cast hlo
        rw [hc] at hlo'
        have hge : (0:ℝ) ≤ (tn:ℝ) * 10000000 - 3 * td := by
          have : (3:ℝ) * td ≤ (tn:ℝ) * 10000000 := by exact_mod_cast hcmp'
          linarith
        have ha : (0:ℝ) ≤ ((tn:ℝ) * 10000000 - 3 * td) / ((td:ℝ) * 10000000) := by positivity
        have hpow : (((tn:ℝ) * 10000000 - 3 * td) / ((td:ℝ) * 10000000))^q ≤ ((yn:ℝ)/yd)^p := by
          rw [div_pow, div_pow, div_le_div_iff₀ hddq hydp]
          exact hlo'
        have := (le_rpow_div_iff ha hy hq).mpr hpow
        have e : ((tn:ℝ) * 10000000 - 3 * td) / ((td:ℝ) * 10000000) = (tn:ℝ)/td - 3/10000000 := by
          field_simp
        rw [e] at this
        linarith

/-- **Soundness of `entryOk`.** If the Boolean check passes, the float32 with bit pattern `t`
is within `3·10⁻⁷` of the published decoding of `c/N`. -/
theorem entryOk_sound (cv : Curve) (hwf : cv.WF) (N c t : Nat) (hN : 0 < N)
    (h : entryOk cv N c t = true) :
    |f32ToReal t - cv.eotf ((c:ℝ)/N)| ≤ 3 / 10000000 := by
  obtain ⟨hthrD, hslN, hslD, hoffD, hq⟩ := hwf
  unfold entryOk at h
  simp only [force_eq, Bool.and_eq_true] at h
  obtain ⟨_, h⟩ := h
  have hN' : (0:ℝ) < N := by exact_mod_cast hN
  have hthrD' : (0:ℝ) < cv.thrD := by exact_mod_cast hthrD
  unfold f32ToReal Curve.eotf
  split at h
  · -- linear segment
    rename_i hlin
    have hlinR : cv.linearAt ((c:ℝ)/N) := by
      unfold Curve.linearAt Curve.thr
      unfold Curve.isLinear at hlin
      split at hlin
      · rename_i hs
        left; refine ⟨hs, ?_⟩
        rw [Nat.blt_eq] at hlin
        rw [div_lt_div_iff₀ hN' hthrD']
        exact_mod_cast hlin
      · rename_i hs
        right; refine ⟨by simpa using hs, ?_⟩
        rw [Nat.ble_eq] at hlin
        rw [div_le_div_iff₀ hN' hthrD']
        exact_mod_cast hlin
    rw [if_pos hlinR]
    have := ratWithin_sound _ _ _ _ (den_pos b32 t) (Nat.mul_pos hN hslN) h
    have e : (c:ℝ)/N / cv.slope = ((c * cv.slopeD : ℕ):ℝ) / ((N * cv.slopeN : ℕ):ℝ) := by
      unfold Curve.slope
      have h1 : (0:ℝ) < cv.slopeN := by exact_mod_cast hslN
      have h2 : (0:ℝ) < cv.slopeD := by exact_mod_cast hslD
      push_cast; field_simp
    rw [e]; exact this
  · rename_i hlin
    have hlinR : ¬ cv.linearAt ((c:ℝ)/N) := by
      unfold Curve.linearAt Curve.thr
      unfold Curve.isLinear at hlin
      split at hlin
      · rename_i hs
        rw [Nat.blt_eq] at hlin
        rintro (⟨_, hlt⟩ | ⟨hs', _⟩)
        · rw [div_lt_div_iff₀ hN' hthrD'] at hlt
          exact hlin (by exact_mod_cast hlt)
        · rw [hs] at hs'; exact absurd hs' (by decide)
      · rename_i hs
        rw [Nat.ble_eq] at hlin
        rintro (⟨hs', _⟩ | ⟨_, hle⟩)
        · exact hs hs'
        · rw [div_le_div_iff₀ hN' hthrD'] at hle
          exact hlin (by exact_mod_cast hle)
    rw [if_neg hlinR]
    have hyd : 0 < (cv.offD + cv.offN) * N := Nat.mul_pos (by omega) hN
    have := powWithin_sound _ _ _ _ cv.p cv.q (den_pos b32 t) hyd hq h
    have e : ((c:ℝ)/N + cv.off) / (1 + cv.off) =
        ((c * cv.offD + cv.offN * N : ℕ):ℝ) / (((cv.offD + cv.offN) * N : ℕ):ℝ) := by
      unfold Curve.off
      have h1 : (0:ℝ) < cv.offD := by exact_mod_cast hoffD
      have h3 : (0:ℝ) ≤ cv.offN := by positivity
      have h2 : (0:ℝ) < (cv.offD:ℝ) + cv.offN := by linarith
      push_cast; field_simp
    rw [e]; exact this

end Prism
