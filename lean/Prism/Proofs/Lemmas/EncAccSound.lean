import Prism.Check.C02Acc
import Prism.Spec.Curves
import Prism.Proofs.Lemmas.RpowLift
import Mathlib.Tactic.Linarith
import Mathlib.Tactic.Positivity
import Mathlib.Tactic.FieldSimp
import Mathlib.Tactic.Ring
import Mathlib.Tactic.NormNum

/-!
# Soundness of the integer accuracy check of the encode tables against the EOTF over ℝ
-/

namespace Prism
open Real

theorem isLinear_iff (cv : Curve) (hwf : cv.WF) (c N : Nat) (hN : 0 < N) :
    cv.isLinear c N = true ↔ cv.linearAt ((c:ℝ)/N) := by
  obtain ⟨hthrD, _, _, _, _⟩ := hwf
  have hN' : (0:ℝ) < N := by exact_mod_cast hN
  have hthrD' : (0:ℝ) < cv.thrD := by exact_mod_cast hthrD
  unfold Curve.linearAt Curve.thr Curve.isLinear
  cases hs : cv.strict
  · simp only [Bool.false_eq_true, if_false, false_and, true_and, false_or, Nat.ble_eq]
    rw [div_le_div_iff₀ hN' hthrD']
    constructor
    · intro h; exact_mod_cast h
    · intro h; exact_mod_cast h
  · simp only [if_true, true_and, Bool.true_eq_false, false_and, or_false, Nat.blt_eq]
    rw [div_lt_div_iff₀ hN' hthrD']
    constructor
    · intro h; exact_mod_cast h
    · intro h; exact_mod_cast h

/-- the argument of the power segment as a fraction of naturals -/
theorem pow_arg (cv : Curve) (hwf : cv.WF) (vn vd : Nat) (hvd : 0 < vd) :
    ((vn:ℝ)/vd + cv.off) / (1 + cv.off) =
      ((vn * cv.offD + cv.offN * vd : ℕ):ℝ) / (((cv.offD + cv.offN) * vd : ℕ):ℝ) := by
  obtain ⟨_, _, _, hoffD, _⟩ := hwf
  unfold Curve.off
  have h1 : (0:ℝ) < cv.offD := by exact_mod_cast hoffD
  have h3 : (0:ℝ) ≤ cv.offN := by positivity
  have h2 : (0:ℝ) < (cv.offD:ℝ) + cv.offN := by linarith
  have h4 : (0:ℝ) < vd := by exact_mod_cast hvd
  push_cast; field_simp

theorem eotfLe_sound (cv : Curve) (hwf : cv.WF) (vn vd i N : Nat) (hvd : 0 < vd) (hN : 0 < N)
    (h : eotfLe cv vn vd i N = true) : cv.eotf ((vn:ℝ)/vd) ≤ (i:ℝ)/N := by
  have hwf' := hwf
  obtain ⟨hthrD, hslN, hslD, hoffD, hq⟩ := hwf
  have hN' : (0:ℝ) < N := by exact_mod_cast hN
  have hvd' : (0:ℝ) < vd := by exact_mod_cast hvd
  unfold eotfLe at h
  unfold Curve.eotf
  split at h
  · rename_i hl
    rw [if_pos ((isLinear_iff cv hwf' vn vd hvd).mp hl)]
    rw [Nat.ble_eq] at h
    unfold Curve.slope
    have h1 : (0:ℝ) < cv.slopeN := by exact_mod_cast hslN
    have h2 : (0:ℝ) < cv.slopeD := by exact_mod_cast hslD
    have h' : (vn:ℝ) * cv.slopeD * N ≤ i * vd * cv.slopeN := by exact_mod_cast h
    rw [div_div, div_le_div_iff₀ (by positivity) hN']
    have : (vn:ℝ) * N ≤ i * (vd * (cv.slopeN / cv.slopeD)) := by
      rw [show (i:ℝ) * (vd * (cv.slopeN / cv.slopeD)) = (i * vd * cv.slopeN) / cv.slopeD from by ring]
      rw [le_div_iff₀ h2]; linarith
    linarith
  · rename_i hl
    have hl' : ¬ cv.linearAt ((vn:ℝ)/vd) := fun hc => hl ((isLinear_iff cv hwf' vn vd hvd).mpr hc)
    rw [if_neg hl']
    simp only [force_eq, Nat.ble_eq] at h
    rw [pow_arg cv hwf' vn vd hvd]
    set yn := vn * cv.offD + cv.offN * vd
    set yd := (cv.offD + cv.offN) * vd
    have hyd : 0 < yd := Nat.mul_pos (by omega) hvd
    have hyd' : (0:ℝ) < yd := by exact_mod_cast hyd
    have hy : (0:ℝ) ≤ (yn:ℝ)/yd := by positivity
    have ha : (0:ℝ) ≤ (i:ℝ)/N := by positivity
    rw [rpow_div_le_iff ha hy hq, div_pow, div_pow, div_le_div_iff₀ (by positivity) (by positivity)]
    exact_mod_cast h

theorem eotfGe_sound (cv : Curve) (hwf : cv.WF) (vn vd i N : Nat) (hvd : 0 < vd) (hN : 0 < N)
    (h : eotfGe cv vn vd i N = true) : (i:ℝ)/N ≤ cv.eotf ((vn:ℝ)/vd) := by
  have hwf' := hwf
  obtain ⟨hthrD, hslN, hslD, hoffD, hq⟩ := hwf
  have hN' : (0:ℝ) < N := by exact_mod_cast hN
  have hvd' : (0:ℝ) < vd := by exact_mod_cast hvd
  unfold eotfGe at h
  unfold Curve.eotf
  split at h
  · rename_i hl
    rw [if_pos ((isLinear_iff cv hwf' vn vd hvd).mp hl)]
    rw [Nat.ble_eq] at h
    unfold Curve.slope
    have h1 : (0:ℝ) < cv.slopeN := by exact_mod_cast hslN
    have h2 : (0:ℝ) < cv.slopeD := by exact_mod_cast hslD
    have h' : (i:ℝ) * vd * cv.slopeN ≤ vn * cv.slopeD * N := by exact_mod_cast h
    rw [div_div, div_le_div_iff₀ hN' (by positivity)]
    have : (i:ℝ) * (vd * (cv.slopeN / cv.slopeD)) ≤ vn * N := by
      rw [show (i:ℝ) * (vd * (cv.slopeN / cv.slopeD)) = (i * vd * cv.slopeN) / cv.slopeD from by ring]
      rw [div_le_iff₀ h2]; linarith
    linarith
  · rename_i hl
    have hl' : ¬ cv.linearAt ((vn:ℝ)/vd) := fun hc => hl ((isLinear_iff cv hwf' vn vd hvd).mpr hc)
    rw [if_neg hl']
    simp only [force_eq, Nat.ble_eq] at h
    rw [pow_arg cv hwf' vn vd hvd]
    set yn := vn * cv.offD + cv.offN * vd
    set yd := (cv.offD + cv.offN) * vd
    have hyd : 0 < yd := Nat.mul_pos (by omega) hvd
    have hyd' : (0:ℝ) < yd := by exact_mod_cast hyd
    have hy : (0:ℝ) ≤ (yn:ℝ)/yd := by positivity
    have ha : (0:ℝ) ≤ (i:ℝ)/N := by positivity
    rw [le_rpow_div_iff ha hy hq, div_pow, div_pow, div_le_div_iff₀ (by positivity) (by positivity)]
    exact_mod_cast h

/-- `EOTF 0 = 0` for the published curves' data -/
theorem eotf_zero (cv : Curve) (hwf : cv.WF) (hoff : cv.offN = 0 → 0 < cv.p) (hp : 0 < cv.p)
    (hlin0 : cv.isLinear 0 1 = true ∨ cv.offN = 0) : cv.eotf 0 = 0 := by
  obtain ⟨hthrD, hslN, hslD, hoffD, hq⟩ := hwf
  unfold Curve.eotf
  split
  · simp
  · rename_i hl
    rcases hlin0 with h | h
    · exact absurd ((isLinear_iff cv ⟨hthrD, hslN, hslD, hoffD, hq⟩ 0 1 (by omega)).mp h |> fun x => by simpa using x) hl
    · unfold Curve.off; rw [h]
      simp only [Nat.cast_zero, zero_div, add_zero, div_one]
      apply Real.zero_rpow
      have : (0:ℝ) < (cv.p:ℝ) / cv.q := by positivity
      exact ne_of_gt this

end Prism

namespace Prism
open Real

/-- **Soundness of `encAccOk`.** -/
theorem encAccOk_sound (cv : Curve) (hwf : cv.WF) (h0 : cv.eotf 0 = 0) (h1 : cv.eotf 1 = 1)
    (N mx e1 e2 i c : Nat) (hN : 0 < N) (hmx : 0 < mx) (he2 : 0 < e2) (hi : i ≤ N)
    (h : encAccOk cv N mx e1 e2 i c = true) :
    cv.eotf (max 0 (((c:ℝ) - 1/2 - (e1:ℝ)/e2) / mx)) ≤ (i:ℝ)/N ∧
      (i:ℝ)/N ≤ cv.eotf (min 1 (((c:ℝ) + 1/2 + (e1:ℝ)/e2) / mx)) := by
  unfold encAccOk at h
  simp only [force_eq, Bool.and_eq_true, Bool.or_eq_true, Nat.ble_eq] at h
  obtain ⟨hlo, hhi⟩ := h
  have hN' : (0:ℝ) < N := by exact_mod_cast hN
  have hmx' : (0:ℝ) < mx := by exact_mod_cast hmx
  have he2' : (0:ℝ) < e2 := by exact_mod_cast he2
  have hdd : 0 < 2 * e2 * mx := by positivity
  have hdd' : (0:ℝ) < ((2 * e2 * mx : ℕ) : ℝ) := by exact_mod_cast hdd
  have elo : ((c:ℝ) - 1/2 - (e1:ℝ)/e2) / mx = ((2 * c * e2 : ℕ) - ((e2 + 2 * e1 : ℕ) : ℝ)) / ((2 * e2 * mx : ℕ) : ℝ) := by
    push_cast; field_simp; ring
  have ehi : ((c:ℝ) + 1/2 + (e1:ℝ)/e2) / mx = (((2 * c * e2 + (e2 + 2 * e1) : ℕ)) : ℝ) / ((2 * e2 * mx : ℕ) : ℝ) := by
    push_cast; field_simp; ring
  have hin : (0:ℝ) ≤ (i:ℝ)/N := by positivity
  have hi1 : (i:ℝ)/N ≤ 1 := by rw [div_le_one hN']; exact_mod_cast hi
  constructor
  · rcases hlo with hle | hle
    · have : ((c:ℝ) - 1/2 - (e1:ℝ)/e2) / mx ≤ 0 := by
        rw [elo]; apply div_nonpos_of_nonpos_of_nonneg _ hdd'.le
        have : ((2 * c * e2 : ℕ) : ℝ) ≤ ((e2 + 2 * e1 : ℕ) : ℝ) := by exact_mod_cast hle
        linarith
      rw [max_eq_left this, h0]; exact hin
    · by_cases hc : 2 * c * e2 ≤ e2 + 2 * e1
      · have : ((c:ℝ) - 1/2 - (e1:ℝ)/e2) / mx ≤ 0 := by
          rw [elo]; apply div_nonpos_of_nonpos_of_nonneg _ hdd'.le
          have : ((2 * c * e2 : ℕ) : ℝ) ≤ ((e2 + 2 * e1 : ℕ) : ℝ) := by exact_mod_cast hc
          linarith
        rw [max_eq_left this, h0]; exact hin
      · have hlt : e2 + 2 * e1 < 2 * c * e2 := by omega
        have hs := eotfLe_sound cv hwf _ _ i N hdd hN hle
        have ecast : (((2 * c * e2 - (e2 + 2 * e1) : ℕ)) : ℝ) = ((2 * c * e2 : ℕ) : ℝ) - ((e2 + 2 * e1 : ℕ) : ℝ) := by
          rw [Nat.cast_sub (Nat.le_of_lt hlt)]
        rw [ecast, ← elo] at hs
        have hpos : 0 ≤ ((c:ℝ) - 1/2 - (e1:ℝ)/e2) / mx := by
          rw [elo]; apply div_nonneg _ hdd'.le
          have : ((e2 + 2 * e1 : ℕ) : ℝ) ≤ ((2 * c * e2 : ℕ) : ℝ) := by exact_mod_cast (Nat.le_of_lt hlt)
          linarith
        rw [max_eq_right hpos]; exact hs
  · rcases hhi with hge | hge
    · have : 1 ≤ ((c:ℝ) + 1/2 + (e1:ℝ)/e2) / mx := by
        rw [ehi, le_div_iff₀ hdd']
        have : ((2 * e2 * mx : ℕ) : ℝ) ≤ ((2 * c * e2 + (e2 + 2 * e1) : ℕ) : ℝ) := by exact_mod_cast hge
        linarith
      rw [min_eq_left this, h1]; exact hi1
    · by_cases hc : 2 * e2 * mx ≤ 2 * c * e2 + (e2 + 2 * e1)
      · have : 1 ≤ ((c:ℝ) + 1/2 + (e1:ℝ)/e2) / mx := by
          rw [ehi, le_div_iff₀ hdd']
          have : ((2 * e2 * mx : ℕ) : ℝ) ≤ ((2 * c * e2 + (e2 + 2 * e1) : ℕ) : ℝ) := by exact_mod_cast hc
          linarith
        rw [min_eq_left this, h1]; exact hi1
      · have hs := eotfGe_sound cv hwf _ _ i N hdd hN hge
        rw [← ehi] at hs
        have hlt1 : ((c:ℝ) + 1/2 + (e1:ℝ)/e2) / mx ≤ 1 := by
          rw [ehi, div_le_one hdd']
          have : ((2 * c * e2 + (e2 + 2 * e1) : ℕ) : ℝ) ≤ ((2 * e2 * mx : ℕ) : ℝ) := by exact_mod_cast (Nat.le_of_lt (Nat.lt_of_not_le hc))
          exact this
        rw [min_eq_right hlt1]; exact hs

end Prism
