import Prism.Proofs.Lemmas.Run
import Prism.Model.Jpeg

/-!
# Evaluating the JPEG segment reader on concrete segment encodings
-/

namespace Prism.Jpeg
open Prog Parser

/-- big-endian 16-bit encoding -/
def enc16be (n : Nat) : List UInt8 := [UInt8.ofNat (n / 256 % 256), UInt8.ofNat (n % 256)]

theorem run3_u16be_enc (zl : Inflate) (n : Nat) (hn : n < 65536) (rest : List UInt8) (e : IOErr) :
    run3 zl Parser.u16be.run (enc16be n ++ rest) e = (.ok n, rest) := by
  unfold Parser.u16be enc16be
  simp only [List.cons_append, List.nil_append]
  rw [Parser.run3_bind, Parser.run3_byte_cons]; simp only
  rw [Parser.run3_bind, Parser.run3_byte_cons]; simp only
  rw [Parser.run3_pure]
  simp only [UInt8.toNat_ofNat', Prod.mk.injEq, Except.ok.injEq, and_true]
  omega

/-- a marker segment with a length field: `FF t len(2) data` -/
def segBytes (t : UInt8) (d : List UInt8) : List UInt8 := 0xff :: t :: (enc16be (d.length + 2) ++ d)

/-- a stand-alone marker: `FF t` -/
def markerBytes (t : UInt8) : List UInt8 := [0xff, t]

theorem withLength_not_standalone (t : Nat) (h : withLength t = true) : standalone t = false := by
  unfold withLength at h
  unfold standalone
  simp only [Bool.or_eq_true, Bool.and_eq_true, beq_iff_eq, decide_eq_true_eq] at h
  simp only [Bool.or_eq_false_iff, Bool.and_eq_false_iff, beq_eq_false_iff_ne, decide_eq_false_iff_not]
  omega

theorem run3_makeMarker_len (zl : Inflate) (t : Nat) (ht : withLength t = true) (n : Nat) (hn : n < 65536)
    (rest : List UInt8) (e : IOErr) :
    run3 zl (makeMarker t).run (enc16be n ++ rest) e = (.ok (t, (n : Int) - 2), rest) := by
  unfold makeMarker
  rw [withLength_not_standalone _ ht]
  simp only [Bool.false_eq_true, if_false, ht, if_true]
  rw [Parser.run3_bind, run3_u16be_enc zl n hn]
  rfl

theorem run3_readSegment_len (zl : Inflate) (t : UInt8) (d : List UInt8) (ht : withLength t.toNat = true)
    (hd : d.length + 2 < 65536) (rest : List UInt8) (e : IOErr) :
    run3 zl readSegment.run (segBytes t d ++ rest) e = (.ok (t.toNat, d), rest) := by
  unfold readSegment segBytes
  simp only [List.cons_append]
  rw [Parser.run3_bind, Parser.run3_byte_cons]
  simp only [bne_self_eq_false, Bool.false_eq_true, if_false]
  rw [Parser.run3_bind, Parser.run3_byte_cons]
  simp only
  rw [Parser.run3_bind, List.append_assoc, run3_makeMarker_len zl _ ht _ hd]
  simp only
  cases d with
  | nil =>
    simp only [List.length_nil, Nat.zero_add]
    rfl
  | cons b d =>
    have hpos : ((((b :: d).length + 2 : Nat) : Int) - 2 > 0) := by simp only [List.length_cons]; omega
    simp only [hpos, if_true]
    have hn : (((b :: d).length + 2 : Nat) : Int).toNat - 0 = (b :: d).length + 2 := by omega
    have hn2 : ((((b :: d).length + 2 : Nat) : Int) - 2).toNat = (b :: d).length := by omega
    rw [hn2, Parser.run3_bind, Parser.run3_full_append]
    rfl

theorem run3_readSegment_marker (zl : Inflate) (t : UInt8) (ht : standalone t.toNat = true) (rest : List UInt8) (e : IOErr) :
    run3 zl readSegment.run (markerBytes t ++ rest) e = (.ok (t.toNat, []), rest) := by
  unfold readSegment markerBytes
  simp only [List.cons_append, List.nil_append]
  rw [Parser.run3_bind, Parser.run3_byte_cons]
  simp only [bne_self_eq_false, Bool.false_eq_true, if_false]
  rw [Parser.run3_bind, Parser.run3_byte_cons]
  simp only
  rw [Parser.run3_bind]
  unfold makeMarker
  simp only [ht, if_true]
  rfl

end Prism.Jpeg
