import Prism.Proofs.C13

/-!
# Real-analysis facts about the CIE companding function used by the float-level C13 theorem

`f` is globally Lipschitz with constant `K = 841/108 = κ/116` (the linear piece is the tangent of the
cube root at the junction `ε`, and the cube root is flatter than that beyond `ε`); a number whose cube
is within a relative `δ` of `t` is within `t^(1/3)·δ` of the cube root.
-/

namespace Prism.Lab
open Real

noncomputable def K : ℝ := 841 / 108

theorem K_pos : (0:ℝ) < K := by unfold K; norm_num

/-- the linear piece -/
noncomputable def lin (t : ℝ) : ℝ := (kappa * t + 16) / 116

theorem lin_sub (s t : ℝ) : lin t - lin s = K * (t - s) := by
  unfold lin K kappa; ring

theorem lin_eps : lin eps = 6 / 29 := by unfold lin kappa eps; norm_num

theorem f_of_le {t : ℝ} (h : t ≤ eps) : f t = lin t := by
  unfold f lin; rw [if_neg (not_lt.mpr h)]

theorem f_of_gt {t : ℝ} (h : eps < t) : f t = t ^ ((1:ℝ)/3) := by
  unfold f; rw [if_pos h]

theorem cbrt_eps : eps ^ ((1:ℝ)/3) = 6 / 29 := by
  rw [eps_eq_cube, cbrt_cube (by norm_num)]

/-- at and beyond the junction `f` is the cube root -/
theorem f_of_ge {t : ℝ} (h : eps ≤ t) : f t = t ^ ((1:ℝ)/3) := by
  rcases eq_or_lt_of_le h with e | l
  · rw [← e, f_of_le le_rfl, lin_eps, cbrt_eps]
  · exact f_of_gt l

theorem cbrt_ge {t : ℝ} (h : eps ≤ t) : 6 / 29 ≤ t ^ ((1:ℝ)/3) := by
  rw [← cbrt_eps]
  exact Real.rpow_le_rpow eps_pos.le h (by norm_num)

/-- two numbers at least `6/29` are no further apart than `K` times the distance of their cubes -/
theorem cube_gap {a b : ℝ} (ha : 6 / 29 ≤ a) (hb : 6 / 29 ≤ b) : |b - a| ≤ K * |b ^ 3 - a ^ 3| := by
  have hfac : b ^ 3 - a ^ 3 = (b - a) * (b ^ 2 + a * b + a ^ 2) := by ring
  have hq : (108:ℝ) / 841 ≤ b ^ 2 + a * b + a ^ 2 := by nlinarith
  rw [hfac, abs_mul, abs_of_pos (by linarith : (0:ℝ) < b ^ 2 + a * b + a ^ 2)]
  have h0 := abs_nonneg (b - a)
  unfold K
  nlinarith

/-- `f` is `K`-Lipschitz on the whole real line -/
theorem f_lipschitz (s t : ℝ) : |f t - f s| ≤ K * |t - s| := by
  wlog hst : s ≤ t generalizing s t
  · have := this t s (le_of_not_ge hst)
    rwa [abs_sub_comm (f t), abs_sub_comm t]
  by_cases ht : t ≤ eps
  · have hs : s ≤ eps := le_trans hst ht
    rw [f_of_le ht, f_of_le hs, lin_sub, abs_mul, abs_of_pos K_pos]
  · have ht' : eps ≤ t := le_of_lt (not_le.mp ht)
    by_cases hs : eps ≤ s
    · rw [f_of_ge ht', f_of_ge hs]
      have h := cube_gap (cbrt_ge hs) (cbrt_ge ht')
      rwa [cube_cbrt (le_trans eps_pos.le ht'), cube_cbrt (le_trans eps_pos.le hs)] at h
    · have hs' : s ≤ eps := le_of_lt (not_le.mp hs)
      have h1 : |f t - f eps| ≤ K * |t - eps| := by
        rw [f_of_ge ht', f_of_ge le_rfl]
        have h := cube_gap (cbrt_ge le_rfl) (cbrt_ge ht')
        rwa [cube_cbrt (le_trans eps_pos.le ht'), cube_cbrt eps_pos.le] at h
      have h2 : |f eps - f s| ≤ K * |eps - s| := by
        rw [f_of_le le_rfl, f_of_le hs', lin_sub, abs_mul, abs_of_pos K_pos]
      have e1 : |t - eps| = t - eps := abs_of_nonneg (by linarith)
      have e2 : |eps - s| = eps - s := abs_of_nonneg (by linarith)
      have e3 : |t - s| = t - s := abs_of_nonneg (by linarith)
      calc |f t - f s| = |(f t - f eps) + (f eps - f s)| := by ring_nf
        _ ≤ |f t - f eps| + |f eps - f s| := abs_add_le _ _
        _ ≤ K * |t - eps| + K * |eps - s| := add_le_add h1 h2
        _ = K * |t - s| := by rw [e1, e2, e3]; ring

/-- between the junction and a threshold just above it, the tangent and the cube root differ by at most
`K` times the distance from the junction -/
theorem lin_near_f {t : ℝ} (h : eps ≤ t) : |lin t - f t| ≤ K * (t - eps) := by
  rw [f_of_ge h]
  have h1 : lin t = 6 / 29 + K * (t - eps) := by
    have := lin_sub eps t
    rw [lin_eps] at this; linarith
  have h2 := cbrt_ge h
  have h3 : t ^ ((1:ℝ)/3) ≤ lin t := by
    -- the cube root lies below its tangent at ε: Lipschitz from ε
    have := f_lipschitz eps t
    rw [f_of_ge h, f_of_ge le_rfl, cbrt_eps, abs_of_nonneg (by linarith : (0:ℝ) ≤ t - eps)] at this
    have := (abs_le.mp this).2
    linarith
  rw [abs_of_nonneg (by linarith)]
  linarith

/-- a non-negative `p` whose cube is within `t·δ` of `t ≥ ε` is within `t^(1/3)·δ` of the cube root -/
theorem cbrt_close {t p δ : ℝ} (ht : eps ≤ t) (hp : 0 ≤ p) (h : |p ^ 3 - t| ≤ t * δ) :
    |p - t ^ ((1:ℝ)/3)| ≤ t ^ ((1:ℝ)/3) * δ := by
  set q := t ^ ((1:ℝ)/3) with hq
  have hq0 : 6 / 29 ≤ q := cbrt_ge ht
  have hq3 : q ^ 3 = t := cube_cbrt (le_trans eps_pos.le ht)
  have hfac : p ^ 3 - q ^ 3 = (p - q) * (p ^ 2 + p * q + q ^ 2) := by ring
  have hge : q ^ 2 ≤ p ^ 2 + p * q + q ^ 2 := by nlinarith
  rw [← hq3, hfac, abs_mul, abs_of_pos (by nlinarith : (0:ℝ) < p ^ 2 + p * q + q ^ 2)] at h
  have h0 := abs_nonneg (p - q)
  have hq2 : 0 < q ^ 2 := by positivity
  -- |p-q| q² ≤ |p-q| (…) ≤ q³ δ
  have h1 : |p - q| * q ^ 2 ≤ q ^ 3 * δ := le_trans (mul_le_mul_of_nonneg_left hge h0) h
  have : |p - q| * q ^ 2 ≤ (q * δ) * q ^ 2 := by nlinarith
  exact le_of_mul_le_mul_right this hq2

/-- bounds on `f` from bounds on its argument -/
theorem f_abs_le {t C : ℝ} (h : |t| ≤ C) : |f t| ≤ K * C + 1 := by
  have h0 : f 0 = lin 0 := f_of_le eps_pos.le
  have := f_lipschitz 0 t
  rw [sub_zero, h0] at this
  have hl : lin 0 = 4 / 29 := by unfold lin; norm_num
  rw [hl] at this
  have h2 : |f t| ≤ |f t - 4 / 29| + 4 / 29 := by
    have := abs_add_le (f t - 4 / 29) (4 / 29)
    rw [abs_of_pos (by norm_num : (0:ℝ) < 4 / 29)] at this
    simpa using this
  have h3 : K * |t| ≤ K * C := mul_le_mul_of_nonneg_left h K_pos.le
  linarith

end Prism.Lab
