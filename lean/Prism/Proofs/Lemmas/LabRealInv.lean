import Prism.Proofs.Lemmas.LabReal

/-!
# Real-analysis facts about the inverse companding function `finv`
-/

namespace Prism.Lab
open Real

/-- the linear piece of the inverse -/
noncomputable def ginv (u : ℝ) : ℝ := (116 * u - 16) / kappa

theorem ginv_sub (u v : ℝ) : ginv u - ginv v = 108 / 841 * (u - v) := by
  unfold ginv kappa; ring

theorem ginv_u0 : ginv (6 / 29) = eps := by unfold ginv kappa eps; norm_num

theorem cube_gt_iff (u : ℝ) : u ^ 3 > eps ↔ u > 6 / 29 := by
  rw [eps_eq_cube]
  exact (Odd.strictMono_pow (by decide : Odd 3)).lt_iff_lt

theorem finv_of_gt {u : ℝ} (h : 6 / 29 < u) : finv u = u ^ 3 := by
  unfold finv; rw [if_pos ((cube_gt_iff u).mpr h)]

theorem finv_of_le {u : ℝ} (h : u ≤ 6 / 29) : finv u = ginv u := by
  unfold finv ginv; rw [if_neg (fun hc => absurd ((cube_gt_iff u).mp hc) (not_lt.mpr h))]

theorem cube_sub_le {u v U : ℝ} (hu : |u| ≤ U) (hv : |v| ≤ U) : |u ^ 3 - v ^ 3| ≤ 3 * U ^ 2 * |u - v| := by
  have hfac : u ^ 3 - v ^ 3 = (u - v) * (u ^ 2 + u * v + v ^ 2) := by ring
  rw [hfac, abs_mul, mul_comm]
  apply mul_le_mul_of_nonneg_right _ (abs_nonneg _)
  have h1 : u ^ 2 ≤ U ^ 2 := sq_le_sq' (by linarith [(abs_le.mp hu).1]) (abs_le.mp hu).2
  have h2 : v ^ 2 ≤ U ^ 2 := sq_le_sq' (by linarith [(abs_le.mp hv).1]) (abs_le.mp hv).2
  have h3 : |u * v| ≤ U ^ 2 := by
    rw [abs_mul, sq]; exact mul_le_mul hu hv (abs_nonneg _) (le_trans (abs_nonneg _) hu)
  have h4 : 0 ≤ u ^ 2 + u * v + v ^ 2 := by nlinarith [sq_nonneg (u + v), sq_nonneg u, sq_nonneg v]
  rw [abs_of_nonneg h4]
  have := (abs_le.mp h3).2
  linarith

/-- `finv` is `3U²`-Lipschitz on `[-U, U]` for `U ≥ 1` -/
theorem finv_lipschitz {u v U : ℝ} (hU : 1 ≤ U) (hu : |u| ≤ U) (hv : |v| ≤ U) : |finv u - finv v| ≤ 3 * U ^ 2 * |u - v| := by
  wlog hvu : v ≤ u generalizing u v
  · have := this hv hu (le_of_not_ge hvu)
    rwa [abs_sub_comm (finv u), abs_sub_comm u]
  have hU2 : (1:ℝ) ≤ U ^ 2 := by nlinarith
  have hd : 0 ≤ u - v := by linarith
  by_cases h1 : u ≤ 6 / 29
  · have h2 : v ≤ 6 / 29 := le_trans hvu h1
    rw [finv_of_le h1, finv_of_le h2, ginv_sub, abs_mul, abs_of_pos (by norm_num : (0:ℝ) < 108 / 841)]
    have := abs_nonneg (u - v)
    nlinarith
  · have h1' : 6 / 29 < u := not_le.mp h1
    by_cases h2 : v ≤ 6 / 29
    · rw [finv_of_gt h1', finv_of_le h2]
      have e : u ^ 3 - ginv v = (u ^ 3 - (6 / 29) ^ 3) + (ginv (6 / 29) - ginv v) := by
        rw [ginv_u0, eps_eq_cube]; ring
      have hU0 : |(6 / 29 : ℝ)| ≤ U := by rw [abs_of_pos (by norm_num)]; linarith
      have c1 := cube_sub_le hu hU0
      have p1 : 0 ≤ u ^ 3 - (6 / 29) ^ 3 := by
        have := (Odd.strictMono_pow (by decide : Odd 3)).monotone h1'.le
        simpa using sub_nonneg.mpr this
      rw [abs_of_nonneg p1, abs_of_nonneg (by linarith : (0:ℝ) ≤ u - 6 / 29)] at c1
      have p2 : ginv (6 / 29) - ginv v = 108 / 841 * (6 / 29 - v) := ginv_sub _ _
      have p3 : 0 ≤ 6 / 29 - v := by linarith
      rw [e, abs_of_nonneg (by rw [p2]; nlinarith), abs_of_nonneg hd, p2]
      nlinarith
    · have h2' : 6 / 29 < v := not_le.mp h2
      rw [finv_of_gt h1', finv_of_gt h2']
      exact cube_sub_le hu hv

/-- near the junction the two pieces of the inverse are within `4δ` of each other -/
theorem finv_pieces_close {u δ : ℝ} (hδ : δ ≤ 1 / 1000) (h : |u ^ 3 - eps| ≤ δ) : |ginv u - u ^ 3| ≤ 4 * δ := by
  have hδ0 : 0 ≤ δ := le_trans (abs_nonneg _) h
  have hu3 : eps - δ ≤ u ^ 3 := by have := (abs_le.mp h).1; linarith
  have hepsv : eps = 216 / 24389 := rfl
  have hu0 : 0 ≤ u := by
    by_contra hc
    have hneg : u < 0 := not_le.mp hc
    have : u ^ 3 < 0 := by
      have := Odd.pow_neg (by decide : Odd 3) hneg
      exact this
    rw [hepsv] at hu3; linarith
  have hfac : u ^ 3 - (6 / 29) ^ 3 = (u - 6 / 29) * (u ^ 2 + u * (6 / 29) + (6 / 29) ^ 2) := by ring
  have hq : (36:ℝ) / 841 ≤ u ^ 2 + u * (6 / 29) + (6 / 29) ^ 2 := by nlinarith
  have hd : |u - 6 / 29| * (36 / 841) ≤ δ := by
    rw [eps_eq_cube, hfac, abs_mul, abs_of_pos (by linarith : (0:ℝ) < u ^ 2 + u * (6 / 29) + (6 / 29) ^ 2)] at h
    have := abs_nonneg (u - 6 / 29)
    nlinarith
  have hg : ginv u - eps = 108 / 841 * (u - 6 / 29) := by rw [← ginv_u0]; exact ginv_sub _ _
  have hge : |ginv u - eps| ≤ 3 * δ := by
    rw [hg, abs_mul, abs_of_pos (by norm_num : (0:ℝ) < 108 / 841)]
    nlinarith
  have t := abs_sub_le (ginv u) eps (u ^ 3)
  rw [abs_sub_comm eps (u ^ 3)] at t
  linarith

/-- the Y channel's own branch is the same function -/
theorem yinv_eq (L : ℝ) : yinv L = finv ((L + 16) / 116) := by
  unfold yinv
  by_cases h : L > 8
  · rw [if_pos h, finv_of_gt (by rw [lt_div_iff₀ (by norm_num)]; linarith)]
  · rw [if_neg h, finv_of_le (by rw [div_le_iff₀ (by norm_num)]; linarith [not_lt.mp h])]
    unfold ginv; field_simp; ring

end Prism.Lab
