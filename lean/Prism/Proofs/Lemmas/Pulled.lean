import Prism.Model.Reader

/-!
# Read-ahead accounting (C18): bytes pulled from the source = bytes handed to the parser +
  bytes sitting in the bufio buffer, and the buffer never holds more than `bufSize`
-/

namespace Prism

/-- the accounting invariant over a plain source with `d0` bytes delivered before the loader started -/
def Stack.Acct (d0 : Nat) (st : Stack) : Prop :=
  ∃ s : Src, st.under = .src s ∧ s.delivered = d0 + st.consumed + st.buf.length ∧ st.buf.length ≤ bufSize

theorem Src.read_delivered (s : Src) (req : Nat) :
    (s.read req).2.2.delivered = s.delivered + (s.read req).1.length ∧ (s.read req).1.length ≤ req := by
  unfold Src.read
  split
  · simp
  · simp only [List.length_take]
    refine ⟨by trivial, ?_⟩
    have : s.chunkSize req ≤ req := by unfold Src.chunkSize; simp only; omega
    omega

theorem Stack.underRead_acct (st : Stack) (s : Src) (req : Nat) (h : st.under = .src s) :
    ∃ s', (st.underRead req).2.2.under = .src s' ∧
      s'.delivered = s.delivered + (st.underRead req).1.length ∧
      (st.underRead req).1.length ≤ req ∧
      (st.underRead req).2.2.buf = st.buf ∧ (st.underRead req).2.2.consumed = st.consumed ∧
      (st.underRead req).2.2.pend = st.pend := by
  unfold Stack.underRead
  rw [h]
  simp only [Rd.read]
  have := Src.read_delivered s req
  exact ⟨(s.read req).2.2, by trivial, this.1, this.2, by trivial, by trivial, by trivial⟩

theorem Stack.readByte_acct (d0 : Nat) (st : Stack) (h : st.Acct d0) : (st.readByte).2.Acct d0 := by
  obtain ⟨s, hu, hd, hb⟩ := h
  unfold Stack.readByte
  cases hbuf : st.buf with
  | cons b rest =>
    simp only
    refine ⟨s, hu, ?_, ?_⟩
    · simp only; rw [hbuf] at hd; simp only [List.length_cons] at hd; omega
    · simp only; rw [hbuf] at hb; simp only [List.length_cons] at hb; omega
  | nil =>
    simp only
    cases hp : st.pend with
    | some e => simp only; exact ⟨s, hu, by simpa [hbuf] using hd, by simp [hbuf]⟩
    | none =>
      simp only
      obtain ⟨s', h1, h2, h3, h4, h5, _⟩ := Stack.underRead_acct st s bufSize hu
      generalize st.underRead bufSize = r at h1 h2 h3 h4 h5
      obtain ⟨c, e, st'⟩ := r
      simp only at h1 h2 h3 h4 h5 ⊢
      cases hc : c with
      | nil =>
        simp only
        subst hc
        refine ⟨s', h1, ?_, ?_⟩
        · rw [h2, h4, h5, hd]; simp
        · rw [h4]; exact hb
      | cons b rest =>
        simp only
        subst hc
        refine ⟨s', h1, ?_, ?_⟩
        · simp only [List.length_cons] at h2 ⊢
          rw [h2, h5, hd, hbuf]; simp; omega
        · simp only [List.length_cons] at h3 ⊢; omega

theorem Stack.read_acct (d0 : Nat) (st : Stack) (n : Nat) (h : st.Acct d0) : (st.read n).2.2.Acct d0 := by
  obtain ⟨s, hu, hd, hb⟩ := h
  unfold Stack.read
  cases hbuf : st.buf with
  | cons b rest =>
    simp only
    refine ⟨s, hu, ?_, ?_⟩
    · simp only [List.length_take, List.length_drop]
      rw [hbuf] at hd
      omega
    · simp only [List.length_drop]; rw [hbuf] at hb; omega
  | nil =>
    simp only
    cases hp : st.pend with
    | some e => simp only; exact ⟨s, hu, by simpa [hbuf] using hd, by simp [hbuf]⟩
    | none =>
      simp only
      by_cases hbig : n ≥ bufSize
      · simp only [hbig, if_true]
        obtain ⟨s', h1, h2, h3, h4, h5, _⟩ := Stack.underRead_acct st s n hu
        generalize st.underRead n = r at h1 h2 h3 h4 h5
        obtain ⟨c, e, st'⟩ := r
        simp only at h1 h2 h3 h4 h5 ⊢
        refine ⟨s', h1, ?_, ?_⟩
        · simp only; rw [h2, h4, h5, hd, hbuf]; simp; omega
        · simp only; rw [h4, hbuf]; simp
      · simp only [hbig, if_false]
        obtain ⟨s', h1, h2, h3, h4, h5, _⟩ := Stack.underRead_acct st s bufSize hu
        generalize st.underRead bufSize = r at h1 h2 h3 h4 h5
        obtain ⟨c, e, st'⟩ := r
        simp only at h1 h2 h3 h4 h5 ⊢
        cases hc : c with
        | nil =>
          simp only
          subst hc
          refine ⟨s', h1, ?_, ?_⟩
          · rw [h2, h4, h5, hd]; simp
          · rw [h4]; exact hb
        | cons b rest =>
          simp only
          subst hc
          refine ⟨s', h1, ?_, ?_⟩
          · simp only [List.length_take, List.length_drop]
            rw [h2, h5, hd, hbuf]
            simp only [List.length_nil, List.length_cons]
            omega
          · simp only [List.length_drop]; omega

theorem Stack.readFullLoop_acct (d0 : Nat) : ∀ (fuel need : Nat) (acc : List (List UInt8)) (st : Stack),
    st.Acct d0 → (Stack.readFullLoop fuel need acc st).2.Acct d0 := by
  intro fuel
  induction fuel with
  | zero => intro need acc st h; exact h
  | succ fuel ih =>
    intro need acc st h
    unfold Stack.readFullLoop
    split
    · exact h
    · have hr := Stack.read_acct d0 st need h
      generalize st.read need = r at hr
      obtain ⟨c, e, st'⟩ := r
      simp only at hr ⊢
      cases e with
      | none => simp only; exact ih _ _ _ hr
      | some err =>
        simp only
        split <;> exact hr

theorem Stack.acct_lazy (d0 : Nat) (st : Stack) (b : Bool) (h : st.Acct d0) :
    ({ st with lazyUsed := b } : Stack).Acct d0 := h

theorem Prog.runStack_acct {α : Type} (zl : Prog.Inflate) (d0 : Nat) (p : Prog α) :
    ∀ st : Stack, st.Acct d0 → (Prog.runStack zl p st).2.Acct d0 := by
  induction p with
  | ret a => intro st h; exact h
  | readByte k ih => intro st h; simp only [Prog.runStack]; exact ih _ _ (Stack.readByte_acct d0 st h)
  | readFull n eager k ih =>
    intro st h
    simp only [Prog.runStack]
    exact ih _ _ (Stack.acct_lazy d0 _ _ (Stack.readFullLoop_acct d0 _ _ _ st h))
  | inflate z k ih => intro st h; simp only [Prog.runStack]; exact ih _ _ h

end Prism
