import Prism.Model.Auto
import Prism.Proofs.Lemmas.Pulled
import Mathlib.Tactic.Ring
import Mathlib.Tactic.Linarith

/-!
# Read-ahead accounting through a chain of loaders (`autometa`)

Each loader returns `io.MultiReader(rewind, r)` and the next candidate reads *that*.  Two quantities
of a reader `r` carry the accounting through the chain:

* `r.pulled`   — bytes pulled from the original source so far,
* `r.buffered` — bytes sitting in rewind buffers in front of the source.

Reading `k` bytes from `r` raises `pulled − buffered` by exactly `k` (`Rd.read_net`), and the source is
touched only once every buffer in front of it is empty (`Rd.read_front`).  A loader hands back a reader
with the same `pulled − buffered` it was given (`loadSt_net`): what it took is back in front.  Hence
through any chain of candidates the source is never pulled further than the furthest any *single*
candidate got: its consumption plus one bufio buffer (`loadList_pulled`).
-/

namespace Prism

def Rd.buffered : Rd → Nat
  | .src _ => 0
  | .multi buf inner => buf.length + inner.buffered

/-- `pulled − buffered` -/
def Rd.net (r : Rd) : Int := (r.pulled : Int) - r.buffered

theorem Rd.read_net : ∀ (r : Rd) (req : Nat),
    (r.read req).2.2.net = r.net + (r.read req).1.length ∧ (r.read req).1.length ≤ req
  | .src s, req => by
    have h := Src.read_delivered s req
    simp only [Rd.read, Rd.net, Rd.pulled, Rd.buffered]
    refine ⟨?_, h.2⟩
    rw [h.1]; push_cast; ring
  | .multi [] inner, req => by
    have ih := Rd.read_net inner req
    simp only [Rd.read, Rd.net, Rd.pulled, Rd.buffered, List.length_nil, Nat.zero_add] at ih ⊢
    exact ih
  | .multi (b :: bs) inner, req => by
    simp only [Rd.read, Rd.net, Rd.pulled, Rd.buffered, List.length_take, List.length_drop]
    refine ⟨?_, Nat.min_le_left _ _⟩
    have : min req (b :: bs).length ≤ (b :: bs).length := Nat.min_le_right _ _
    omega

/-- the source is pulled only when nothing is buffered in front of it -/
theorem Rd.read_front : ∀ (r : Rd) (req : Nat) (p0 : Nat), (r.pulled = p0 ∨ r.buffered = 0) →
    ((r.read req).2.2.pulled = p0 ∨ (r.read req).2.2.buffered = 0)
  | .src s, req, p0, _ => by right; simp [Rd.read, Rd.buffered]
  | .multi [] inner, req, p0, h => by
    have ih := Rd.read_front inner req p0 (by simpa [Rd.pulled, Rd.buffered] using h)
    simpa [Rd.read, Rd.pulled, Rd.buffered] using ih
  | .multi (b :: bs) inner, req, p0, h => by
    rcases h with h | h
    · left; simpa [Rd.read, Rd.pulled] using h
    · simp [Rd.buffered] at h

theorem Rd.pulled_mono : ∀ (r : Rd) (req : Nat), r.pulled ≤ (r.read req).2.2.pulled
  | .src s, req => by
    have h := Src.read_delivered s req
    simp only [Rd.read, Rd.pulled]; rw [h.1]; omega
  | .multi [] inner, req => by simpa [Rd.read, Rd.pulled] using Rd.pulled_mono inner req
  | .multi (b :: bs) inner, req => by simp [Rd.read, Rd.pulled]

/-- accounting invariant of a stack over an arbitrary reader: `q0` is the reader's initial
`pulled − buffered`, `p0` its initial `pulled` -/
structure Stack.AcctG (q0 : Int) (p0 : Nat) (st : Stack) : Prop where
  net : st.under.net = q0 + st.consumed + st.buf.length
  cap : st.buf.length ≤ bufSize
  tee : st.tee.length = st.consumed + st.buf.length
  front : st.under.pulled = p0 ∨ st.under.buffered = 0
  mono : p0 ≤ st.under.pulled

theorem Stack.tee_cons (st : Stack) (c : List UInt8) :
    ({ st with teeRev := if c.isEmpty then st.teeRev else c :: st.teeRev } : Stack).tee.length = st.tee.length + c.length := by
  unfold Stack.tee
  cases c with
  | nil => simp
  | cons a as => simp [List.length_flatten]

theorem Stack.underRead_g (st : Stack) (req : Nat) (p0 : Nat)
    (hf : st.under.pulled = p0 ∨ st.under.buffered = 0) (hm : p0 ≤ st.under.pulled) :
    let r := st.underRead req
    r.2.2.under.net = st.under.net + r.1.length ∧ r.1.length ≤ req ∧
      r.2.2.buf = st.buf ∧ r.2.2.consumed = st.consumed ∧ r.2.2.pend = st.pend ∧
      r.2.2.tee.length = st.tee.length + r.1.length ∧
      (r.2.2.under.pulled = p0 ∨ r.2.2.under.buffered = 0) ∧ p0 ≤ r.2.2.under.pulled := by
  have h1 := Rd.read_net st.under req
  have h2 := Rd.read_front st.under req p0 hf
  have h3 := Rd.pulled_mono st.under req
  unfold Stack.underRead
  generalize st.under.read req = rr at h1 h2 h3
  obtain ⟨c, e, u⟩ := rr
  simp only at h1 h2 h3 ⊢
  refine ⟨h1.1, h1.2, trivial, trivial, trivial, ?_, h2, by omega⟩
  exact Stack.tee_cons st c

theorem Stack.readByte_g (q0 : Int) (p0 : Nat) (st : Stack) (h : st.AcctG q0 p0) : (st.readByte).2.AcctG q0 p0 := by
  obtain ⟨hn, hc, ht, hf, hm⟩ := h
  unfold Stack.readByte
  cases hbuf : st.buf with
  | cons b rest =>
    simp only
    rw [hbuf] at hn hc ht
    simp only [List.length_cons] at hn hc ht
    exact ⟨by simp only; push_cast at hn ⊢; omega, by simp only; omega, by show st.tee.length = _; simp only; omega, hf, hm⟩
  | nil =>
    simp only
    rw [hbuf] at hn hc ht
    cases hp : st.pend with
    | some e =>
      simp only
      exact ⟨by simpa [hbuf] using hn, by simp [hbuf], by show st.tee.length = _; simpa [hbuf] using ht, hf, hm⟩
    | none =>
      simp only
      obtain ⟨g1, g2, g3, g4, _, g6, g7, g8⟩ := Stack.underRead_g st bufSize p0 hf hm
      generalize st.underRead bufSize = r at g1 g2 g3 g4 g6 g7 g8
      obtain ⟨c, e, st'⟩ := r
      simp only at g1 g2 g3 g4 g6 g7 g8 ⊢
      cases hcc : c with
      | nil =>
        subst hcc
        simp only [List.length_nil] at g1 g6 ⊢
        refine ⟨?_, ?_, ?_, g7, g8⟩
        · rw [g1, g4, g3, hbuf]; simpa using hn
        · rw [g3, hbuf]; simp
        · rw [g6, g4, g3, hbuf]; simpa using ht
      | cons b rest =>
        subst hcc
        simp only [List.length_cons] at g1 g2 g6 ⊢
        refine ⟨?_, ?_, ?_, g7, g8⟩
        · simp only [List.length_nil, Nat.add_zero, Int.natCast_zero] at hn
          show st'.under.net = q0 + ((st'.consumed + 1 : Nat) : Int) + (rest.length : Int)
          rw [g1, g4, hn]; push_cast; ring
        · show rest.length ≤ bufSize; omega
        · show st'.tee.length = st'.consumed + 1 + rest.length
          simp only [List.length_nil, Nat.add_zero] at ht
          rw [g6, g4, ht]; omega

theorem Stack.read_g (q0 : Int) (p0 : Nat) (st : Stack) (n : Nat) (h : st.AcctG q0 p0) : (st.read n).2.2.AcctG q0 p0 := by
  obtain ⟨hn, hc, ht, hf, hm⟩ := h
  unfold Stack.read
  cases hbuf : st.buf with
  | cons b rest =>
    simp only
    rw [hbuf] at hn hc ht
    refine ⟨?_, ?_, ?_, hf, hm⟩
    · show st.under.net = q0 + ((st.consumed + ((b :: rest).take n).length : Nat) : Int) + (((b :: rest).drop n).length : Int)
      simp only [List.length_take, List.length_drop]
      rw [hn]; push_cast
      have : min n (b :: rest).length ≤ (b :: rest).length := Nat.min_le_right _ _
      omega
    · show ((b :: rest).drop n).length ≤ bufSize
      simp only [List.length_drop]; omega
    · show st.tee.length = st.consumed + ((b :: rest).take n).length + ((b :: rest).drop n).length
      simp only [List.length_take, List.length_drop]
      have : min n (b :: rest).length ≤ (b :: rest).length := Nat.min_le_right _ _
      omega
  | nil =>
    simp only
    rw [hbuf] at hn hc ht
    simp only [List.length_nil, Nat.add_zero, Int.natCast_zero, Int.add_zero] at hn ht
    cases hp : st.pend with
    | some e =>
      simp only
      exact ⟨by simpa [hbuf] using hn, by simp [hbuf], by show st.tee.length = _; simpa [hbuf] using ht, hf, hm⟩
    | none =>
      simp only
      by_cases hbig : n ≥ bufSize
      · simp only [hbig, if_true]
        obtain ⟨g1, g2, g3, g4, _, g6, g7, g8⟩ := Stack.underRead_g st n p0 hf hm
        generalize st.underRead n = r at g1 g2 g3 g4 g6 g7 g8
        obtain ⟨c, e, st'⟩ := r
        simp only at g1 g2 g3 g4 g6 g7 g8 ⊢
        refine ⟨?_, ?_, ?_, g7, g8⟩
        · show st'.under.net = q0 + ((st'.consumed + c.length : Nat) : Int) + (st'.buf.length : Int)
          rw [g1, g4, g3, hbuf, hn]; push_cast; simp; ring
        · show st'.buf.length ≤ bufSize; rw [g3, hbuf]; simp
        · show st'.tee.length = st'.consumed + c.length + st'.buf.length
          rw [g6, g4, g3, hbuf, ht]; simp
      · simp only [hbig, if_false]
        obtain ⟨g1, g2, g3, g4, _, g6, g7, g8⟩ := Stack.underRead_g st bufSize p0 hf hm
        generalize st.underRead bufSize = r at g1 g2 g3 g4 g6 g7 g8
        obtain ⟨c, e, st'⟩ := r
        simp only at g1 g2 g3 g4 g6 g7 g8 ⊢
        cases hcc : c with
        | nil =>
          subst hcc
          simp only [List.length_nil] at g1 g6 ⊢
          refine ⟨?_, ?_, ?_, g7, g8⟩
          · rw [g1, g4, g3, hbuf, hn]; simp
          · rw [g3, hbuf]; simp
          · rw [g6, g4, g3, hbuf, ht]; simp
        | cons b rest =>
          subst hcc
          simp only at g1 g2 g6 ⊢
          refine ⟨?_, ?_, ?_, g7, g8⟩
          · show st'.under.net = q0 + ((st'.consumed + ((b :: rest).take n).length : Nat) : Int) + (((b :: rest).drop n).length : Int)
            simp only [List.length_take, List.length_drop]
            rw [g1, g4, hn]; push_cast
            have : min n (b :: rest).length ≤ (b :: rest).length := Nat.min_le_right _ _
            omega
          · show ((b :: rest).drop n).length ≤ bufSize
            simp only [List.length_drop]; omega
          · show st'.tee.length = st'.consumed + ((b :: rest).take n).length + ((b :: rest).drop n).length
            simp only [List.length_take, List.length_drop]
            rw [g6, g4, ht]
            have : min n (b :: rest).length ≤ (b :: rest).length := Nat.min_le_right _ _
            omega

theorem Stack.readFullLoop_g (q0 : Int) (p0 : Nat) : ∀ (fuel need : Nat) (acc : List (List UInt8)) (st : Stack),
    st.AcctG q0 p0 → (Stack.readFullLoop fuel need acc st).2.AcctG q0 p0 := by
  intro fuel
  induction fuel with
  | zero => intro need acc st h; exact h
  | succ fuel ih =>
    intro need acc st h
    unfold Stack.readFullLoop
    split
    · exact h
    · have hr := Stack.read_g q0 p0 st need h
      generalize st.read need = r at hr
      obtain ⟨c, e, st'⟩ := r
      simp only at hr ⊢
      cases e with
      | none => simp only; exact ih _ _ _ hr
      | some err =>
        simp only
        split <;> exact hr

theorem Stack.acctG_lazy (q0 : Int) (p0 : Nat) (st : Stack) (b : Bool) (h : st.AcctG q0 p0) :
    ({ st with lazyUsed := b } : Stack).AcctG q0 p0 := ⟨h.net, h.cap, h.tee, h.front, h.mono⟩

theorem Prog.runStack_g {α : Type} (zl : Prog.Inflate) (q0 : Int) (p0 : Nat) (p : Prog α) :
    ∀ st : Stack, st.AcctG q0 p0 → (Prog.runStack zl p st).2.AcctG q0 p0 := by
  induction p with
  | ret a => intro st h; exact h
  | readByte k ih => intro st h; simp only [Prog.runStack]; exact ih _ _ (Stack.readByte_g q0 p0 st h)
  | readFull n eager k ih =>
    intro st h
    simp only [Prog.runStack]
    exact ih _ _ (Stack.acctG_lazy q0 p0 _ _ (Stack.readFullLoop_g q0 p0 _ _ _ st h))
  | inflate z k ih => intro st h; simp only [Prog.runStack]; exact ih _ _ h

/-- one loader over any reader: the reader it returns has the same `pulled − buffered`, and the
source was pulled no further than `max(pulled before, net + consumed + one buffer)` -/
theorem loadSt_g {α : Type} (zl : Prog.Inflate) (p : Prog α) (r : Rd) :
    let res := loadSt zl p r
    res.2.1.net = r.net ∧ r.pulled ≤ res.2.1.pulled ∧
      ((res.2.1.pulled : Int) ≤ max (r.pulled : Int) (r.net + res.2.2.consumed + bufSize)) := by
  have h0 : ({ under := r } : Stack).AcctG r.net r.pulled :=
    ⟨by simp, by simp [bufSize], by simp [Stack.tee], Or.inl rfl, Nat.le_refl _⟩
  have h := Prog.runStack_g zl r.net r.pulled p _ h0
  simp only [loadSt]
  generalize Prog.runStack zl p { under := r } = out at h
  obtain ⟨a, st⟩ := out
  obtain ⟨hn, hc, ht, hf, hm⟩ := h
  simp only at hn hc ht hf hm ⊢
  refine ⟨?_, hm, ?_⟩
  · simp only [Rd.net, Rd.pulled, Rd.buffered] at hn ⊢
    rw [ht]; push_cast; omega
  · simp only [Rd.pulled]
    rcases hf with hf | hf
    · rw [hf]; exact le_max_left _ _
    · have : (st.under.pulled : Int) = r.net + st.consumed + st.buf.length := by
        simp only [Rd.net] at hn ⊢; rw [hf] at hn; push_cast at hn; omega
      rw [this]
      apply le_trans _ (le_max_right _ _)
      have : (st.buf.length : Int) ≤ bufSize := by exact_mod_cast hc
      omega

end Prism
