import Prism.Model.Reader

/-!
# Lemmas about the reader stack (all by induction; no bound on data, schedules or programs)
-/

namespace Prism

/-! ### sources and multi-readers -/

theorem Src.read_contents (s : Src) (req : Nat) :
    s.rest = (s.read req).1 ++ (s.read req).2.2.rest ∧ (s.read req).2.2.endErr = s.endErr := by
  unfold Src.read
  split
  · simp_all
  · simp [List.take_append_drop]

theorem Rd.read_contents (r : Rd) (req : Nat) :
    r.contents.1 = (r.read req).1 ++ (r.read req).2.2.contents.1 ∧
    (r.read req).2.2.contents.2 = r.contents.2 := by
  induction r with
  | src s =>
    have := Src.read_contents s req
    simp only [Rd.read, Rd.contents]
    exact this
  | multi buf inner ih =>
    cases buf with
    | nil =>
      simp only [Rd.read, Rd.contents, List.nil_append]
      exact ih
    | cons b bs =>
      simp only [Rd.read, Rd.contents]
      constructor
      · rw [← List.append_assoc, List.take_append_drop]
      · trivial

/-- a read reports an error only when nothing is left afterwards, and it is the terminal error -/
theorem Src.read_err (s : Src) (req : Nat) (err : IOErr) (h : (s.read req).2.1 = some err) :
    (s.read req).2.2.rest = [] ∧ err = s.endErr := by
  unfold Src.read at h ⊢
  by_cases he : s.rest.isEmpty = true
  · simp only [he, if_true, Option.some.injEq] at h ⊢
    exact ⟨by simpa using he, h.symm⟩
  · simp only [he, Bool.false_eq_true, if_false] at h ⊢
    by_cases h2 : ((List.drop (s.chunkSize req) s.rest).isEmpty && s.eofWithData) = true
    · simp only [h2, if_true, Option.some.injEq] at h
      simp only [Bool.and_eq_true, List.isEmpty_iff] at h2
      exact ⟨h2.1, h.symm⟩
    · simp [h2] at h

theorem Rd.read_err (r : Rd) (req : Nat) (err : IOErr) (h : (r.read req).2.1 = some err) :
    (r.read req).2.2.contents.1 = [] ∧ err = r.contents.2 := by
  induction r with
  | src s =>
    simp only [Rd.read, Rd.contents] at h ⊢
    exact Src.read_err s req err h
  | multi buf inner ih =>
    cases buf with
    | nil =>
      simp only [Rd.read, Rd.contents, List.nil_append] at h ⊢
      exact ih h
    | cons b bs => simp [Rd.read] at h

/-- conformity: a request of at least one byte on a non-exhausted reader delivers at least one byte -/
theorem Src.read_progress (s : Src) (req : Nat) (hreq : 1 ≤ req) (hne : s.rest ≠ []) :
    (s.read req).1 ≠ [] := by
  unfold Src.read
  have he : s.rest.isEmpty = false := by
    cases h : s.rest with
    | nil => exact absurd h hne
    | cons _ _ => rfl
  simp only [he]
  have hk : 1 ≤ s.chunkSize req := by
    unfold Src.chunkSize
    simp only
    omega
  cases h : s.rest with
  | nil => exact absurd h hne
  | cons a as =>
    have : s.chunkSize req = (s.chunkSize req - 1) + 1 := by omega
    simp only [Bool.false_eq_true, if_false]
    rw [this, List.take_succ_cons]
    simp

theorem Rd.read_progress (r : Rd) (req : Nat) (hreq : 1 ≤ req) (hne : r.contents.1 ≠ []) :
    (r.read req).1 ≠ [] := by
  induction r with
  | src s =>
    simp only [Rd.read, Rd.contents] at hne ⊢
    exact Src.read_progress s req hreq hne
  | multi buf inner ih =>
    cases buf with
    | nil =>
      simp only [Rd.read, Rd.contents, List.nil_append] at hne ⊢
      exact ih hne
    | cons b bs =>
      simp only [Rd.read]
      have : req = (req - 1) + 1 := by omega
      rw [this, List.take_succ_cons]
      simp

/-- an exhausted reader answers `(0, terminal error)` and stays exhausted -/
theorem Rd.read_exhausted (r : Rd) (req : Nat) (h : r.contents.1 = []) :
    (r.read req).1 = [] ∧ (r.read req).2.1 = some r.contents.2 := by
  induction r with
  | src s =>
    simp only [Rd.contents] at h
    simp only [Rd.read, Rd.contents, Src.read, h, List.isEmpty_nil, if_true, and_self]
  | multi buf inner ih =>
    cases buf with
    | nil =>
      simp only [Rd.contents, List.nil_append] at h
      simp only [Rd.read, Rd.contents]
      exact ih h
    | cons b bs => simp [Rd.contents] at h

theorem Rd.read_length_le (r : Rd) (req : Nat) : (r.read req).1.length ≤ req := by
  induction r with
  | src s =>
    simp only [Rd.read, Src.read]
    split
    · simp
    · simp only [List.length_take]
      have : s.chunkSize req ≤ req := by
        unfold Src.chunkSize; simp only; omega
      omega
  | multi buf inner ih =>
    cases buf with
    | nil => simp only [Rd.read]; exact ih
    | cons b bs => simp only [Rd.read, List.length_take]; omega

end Prism

namespace Prism

/-! ### the bufio/tee stack -/

/-- what the parser has yet to see -/
def Stack.view (st : Stack) : List UInt8 := st.buf ++ st.under.contents.1
def Stack.endErr (st : Stack) : IOErr := st.under.contents.2
/-- rewind buffer followed by what the underlying reader still holds: the C07 quantity -/
def Stack.all (st : Stack) : List UInt8 := st.tee ++ st.under.contents.1
/-- a stored error is only ever the terminal error of an exhausted underlying reader -/
def Stack.Inv (st : Stack) : Prop :=
  ∀ e, st.pend = some e → st.under.contents.1 = [] ∧ e = st.endErr

theorem flatten_reverse_cons (c : List UInt8) (l : List (List UInt8)) :
    (c :: l).reverse.flatten = l.reverse.flatten ++ c := by
  simp [List.reverse_cons, List.flatten_append]

structure UnderSpec (st : Stack) (req : Nat) (c : List UInt8) (e : Option IOErr) (st' : Stack) : Prop where
  contents : st.under.contents.1 = c ++ st'.under.contents.1
  endErr : st'.endErr = st.endErr
  tee : st'.tee = st.tee ++ c
  buf : st'.buf = st.buf
  pend : st'.pend = st.pend
  err : ∀ err, e = some err → st'.under.contents.1 = [] ∧ err = st.endErr
  progress : 1 ≤ req → st.under.contents.1 ≠ [] → c ≠ []
  exhausted : st.under.contents.1 = [] → c = [] ∧ e = some st.endErr
  len : c.length ≤ req

theorem Stack.underRead_spec (st : Stack) (req : Nat) :
    UnderSpec st req (st.underRead req).1 (st.underRead req).2.1 (st.underRead req).2.2 := by
  have h1 := Rd.read_contents st.under req
  have h2 := Rd.read_err st.under req
  have h3 := Rd.read_progress st.under req
  have h4 := Rd.read_exhausted st.under req
  have h5 := Rd.read_length_le st.under req
  unfold Stack.underRead
  constructor
  · exact h1.1
  · exact h1.2
  · simp only [Stack.tee]
    split
    · rename_i he
      have : (st.under.read req).1 = [] := by simpa using he
      simp [this]
    · rw [flatten_reverse_cons]
  · rfl
  · rfl
  · intro err he
    have := h2 err he
    exact ⟨this.1, this.2⟩
  · exact h3
  · intro h; exact h4 h
  · exact h5

/-- `ReadByte` on the stack is "next byte of the view, or the terminal error" -/
theorem Stack.readByte_spec (st : Stack) (hI : st.Inv) :
    (st.readByte).2.Inv ∧ (st.readByte).2.endErr = st.endErr ∧ (st.readByte).2.all = st.all ∧
    (st.view = [] → (st.readByte).1 = .error st.endErr ∧ (st.readByte).2.view = []) ∧
    (∀ b v, st.view = b :: v → (st.readByte).1 = .ok b ∧ (st.readByte).2.view = v) := by
  unfold Stack.readByte
  cases hb : st.buf with
  | cons b rest =>
    simp only
    refine ⟨?_, rfl, ?_, ?_, ?_⟩
    · intro e he; exact hI e he
    · simp [Stack.all, Stack.tee]
    · intro hv; simp [Stack.view, hb] at hv
    · intro b' v hv
      simp only [Stack.view, hb, List.cons_append, List.cons.injEq] at hv
      exact ⟨by rw [hv.1], by simp [Stack.view, hv.2]⟩
  | nil =>
    simp only
    cases hp : st.pend with
    | some e =>
      simp only
      obtain ⟨hc, he⟩ := hI e hp
      refine ⟨?_, rfl, ?_, ?_, ?_⟩
      · intro e' h'; simp at h'
      · simp [Stack.all, Stack.tee]
      · intro _; exact ⟨by rw [he], by simp [Stack.view, hb, hc]⟩
      · intro b v hv; simp [Stack.view, hb, hc] at hv
    | none =>
      simp only
      have hs := Stack.underRead_spec st bufSize
      generalize st.underRead bufSize = r at hs
      obtain ⟨c, e, st'⟩ := r
      simp only at hs ⊢
      cases hcc : c with
      | cons b rest =>
        simp only
        subst hcc
        refine ⟨?_, ?_, ?_, ?_, ?_⟩
        · intro e' h'
          simp only at h'
          obtain ⟨h1, h2⟩ := hs.err e' h'
          exact ⟨h1, by simp only [Stack.endErr] at *; rw [h2]; exact hs.endErr.symm⟩
        · exact hs.endErr
        · simp only [Stack.all, Stack.tee] at *
          have := hs.tee
          simp only [Stack.tee] at this
          rw [this, hs.contents]; simp [List.append_assoc]
        · intro hv
          simp only [Stack.view, hb, List.nil_append] at hv
          rw [hs.contents] at hv; simp at hv
        · intro b' v hv
          simp only [Stack.view, hb, List.nil_append] at hv
          rw [hs.contents] at hv
          simp only [List.cons_append, List.cons.injEq] at hv
          exact ⟨by rw [hv.1], by simp [Stack.view, hv.2]⟩
      | nil =>
        simp only
        subst hcc
        refine ⟨?_, ?_, ?_, ?_, ?_⟩
        · intro e' h'
          have := hs.pend; rw [hp] at this; rw [this] at h'; simp at h'
        · exact hs.endErr
        · simp only [Stack.all]
          rw [hs.tee, hs.contents]; simp
        · intro hv
          simp only [Stack.view, hb, List.nil_append] at hv
          obtain ⟨_, h2⟩ := hs.exhausted hv
          subst h2
          refine ⟨rfl, ?_⟩
          simp only [Stack.view, hs.buf, hb, List.nil_append]
          rw [hs.contents] at hv; simpa using hv
        · intro b v hv
          simp only [Stack.view, hb, List.nil_append] at hv
          have := hs.progress (by unfold bufSize; omega) (by rw [hv]; simp)
          exact absurd rfl this

end Prism

namespace Prism

structure ReadSpec (st : Stack) (n : Nat) (c : List UInt8) (e : Option IOErr) (st' : Stack) : Prop where
  inv : st'.Inv
  endErr : st'.endErr = st.endErr
  all : st'.all = st.all
  view : st.view = c ++ st'.view
  len : c.length ≤ n
  progress : st.view ≠ [] → c ≠ []
  err : ∀ err, e = some err → err = st.endErr ∧ st'.view = []
  exhausted : st.view = [] → c = [] ∧ e = some st.endErr

/-- `(*bufio.Reader).Read(p)`, `len p = n ≥ 1` -/
theorem Stack.read_spec (st : Stack) (n : Nat) (hn : 1 ≤ n) (hI : st.Inv) :
    ReadSpec st n (st.read n).1 (st.read n).2.1 (st.read n).2.2 := by
  unfold Stack.read
  cases hb : st.buf with
  | cons b rest =>
    simp only
    constructor
    · intro e he; exact hI e he
    · rfl
    · simp [Stack.all, Stack.tee]
    · simp only [Stack.view, hb]
      rw [← List.append_assoc, List.take_append_drop]
    · simp only [List.length_take]; omega
    · intro _
      have : n = (n - 1) + 1 := by omega
      rw [this, List.take_succ_cons]; simp
    · intro err he; simp at he
    · intro hv; simp [Stack.view, hb] at hv
  | nil =>
    simp only
    cases hp : st.pend with
    | some e =>
      simp only
      obtain ⟨hc, he⟩ := hI e hp
      constructor
      · intro e' h'; simp at h'
      · rfl
      · simp [Stack.all, Stack.tee]
      · simp [Stack.view, hb]
      · simp
      · intro hv; simp [Stack.view, hb, hc] at hv
      · intro err h'
        simp only [Option.some.injEq] at h'
        exact ⟨by rw [← h', he], by simp [Stack.view, hb, hc]⟩
      · intro _; exact ⟨rfl, by rw [he]⟩
    | none =>
      simp only
      by_cases hbig : n ≥ bufSize
      · simp only [hbig, if_true]
        have hs := Stack.underRead_spec st n
        generalize st.underRead n = r at hs
        obtain ⟨c, e, st'⟩ := r
        simp only at hs ⊢
        constructor
        · intro e' h'
          simp only at h'
          have := hs.pend; rw [hp] at this; rw [this] at h'; simp at h'
        · exact hs.endErr
        · simp only [Stack.all, Stack.tee] at *
          have := hs.tee; simp only [Stack.tee] at this
          rw [this, hs.contents]; simp [List.append_assoc]
        · simp only [Stack.view, hb, hs.buf, List.nil_append]; exact hs.contents
        · exact hs.len
        · intro hv
          simp only [Stack.view, hb, List.nil_append] at hv
          exact hs.progress hn hv
        · intro err he
          obtain ⟨h1, h2⟩ := hs.err err he
          exact ⟨by simp only [Stack.endErr]; exact h2, by simp [Stack.view, hs.buf, hb, h1]⟩
        · intro hv
          simp only [Stack.view, hb, List.nil_append] at hv
          exact hs.exhausted hv
      · simp only [hbig, if_false]
        have hs := Stack.underRead_spec st bufSize
        generalize st.underRead bufSize = r at hs
        obtain ⟨c, e, st'⟩ := r
        simp only at hs ⊢
        cases hcc : c with
        | nil =>
          simp only
          subst hcc
          constructor
          · intro e' h'
            have := hs.pend; rw [hp] at this; rw [this] at h'; simp at h'
          · exact hs.endErr
          · simp only [Stack.all]; rw [hs.tee, hs.contents]; simp
          · simp only [Stack.view, hb, hs.buf, List.nil_append]; simpa using hs.contents
          · simp
          · intro hv
            simp only [Stack.view, hb, List.nil_append] at hv
            exact absurd rfl (hs.progress (by unfold bufSize; omega) hv)
          · intro err he
            have hex : st.under.contents.1 = [] := by
              cases hne : st.under.contents.1 with
              | nil => rfl
              | cons a l => exact absurd rfl (hs.progress (by unfold bufSize; omega) (by rw [hne]; simp))
            obtain ⟨_, h2⟩ := hs.exhausted hex
            subst h2
            simp only [Option.getD_some, Option.some.injEq] at he
            refine ⟨he.symm, ?_⟩
            simp only [Stack.view, hs.buf, hb, List.nil_append]
            rw [hs.contents] at hex; simpa using hex
          · intro hv
            simp only [Stack.view, hb, List.nil_append] at hv
            obtain ⟨_, h2⟩ := hs.exhausted hv
            subst h2
            exact ⟨rfl, rfl⟩
        | cons b rest =>
          simp only
          subst hcc
          constructor
          · intro e' h'
            simp only at h'
            obtain ⟨h1, h2⟩ := hs.err e' h'
            exact ⟨h1, by simp only [Stack.endErr] at *; rw [h2]; exact hs.endErr.symm⟩
          · exact hs.endErr
          · simp only [Stack.all, Stack.tee] at *
            have := hs.tee; simp only [Stack.tee] at this
            rw [this, hs.contents]; simp [List.append_assoc]
          · simp only [Stack.view, hb, List.nil_append]
            rw [hs.contents, ← List.append_assoc, List.take_append_drop]
          · simp only [List.length_take]; omega
          · intro _
            have : n = (n - 1) + 1 := by omega
            rw [this, List.take_succ_cons]; simp
          · intro err he; simp at he
          · intro hv
            simp only [Stack.view, hb, List.nil_append] at hv
            rw [hs.contents] at hv; simp at hv

end Prism

namespace Prism

theorem all_isEmpty_iff (acc : List (List UInt8)) :
    acc.all List.isEmpty = true ↔ acc.reverse.flatten = [] := by
  induction acc with
  | nil => simp
  | cons a l ih =>
    simp only [List.all_cons, Bool.and_eq_true, List.reverse_cons, List.flatten_append,
      List.flatten_cons, List.flatten_nil, List.append_nil, List.append_eq_nil_iff, ih, List.isEmpty_iff]
    constructor
    · intro h; exact ⟨h.2, h.1⟩
    · intro h; exact ⟨h.2, h.1⟩

/-- the error `io.ReadFull` reports when the data runs out after `got` bytes -/
def shortErr (endErr : IOErr) (got : List UInt8) : IOErr :=
  if endErr = .eof ∧ got ≠ [] then .unexpectedEof else endErr

theorem Stack.readFullLoop_spec : ∀ (fuel need : Nat) (acc : List (List UInt8)) (st : Stack),
    st.Inv → need < fuel →
    (Stack.readFullLoop fuel need acc st).2.Inv ∧
    (Stack.readFullLoop fuel need acc st).2.endErr = st.endErr ∧
    (Stack.readFullLoop fuel need acc st).2.all = st.all ∧
    (need ≤ st.view.length →
      (Stack.readFullLoop fuel need acc st).1 = .ok (acc.reverse.flatten ++ st.view.take need) ∧
      (Stack.readFullLoop fuel need acc st).2.view = st.view.drop need) ∧
    (st.view.length < need →
      (Stack.readFullLoop fuel need acc st).1 = .error (shortErr st.endErr (acc.reverse.flatten ++ st.view)) ∧
      (Stack.readFullLoop fuel need acc st).2.view = []) := by
  intro fuel
  induction fuel with
  | zero => intro need acc st _ h; omega
  | succ fuel ih =>
    intro need acc st hI hf
    unfold Stack.readFullLoop
    by_cases hz : need = 0
    · subst hz
      simp only [beq_self_eq_true, if_true]
      refine ⟨hI, ?_, ?_, ?_, ?_⟩
      · first | rfl | trivial
      · first | rfl | trivial
      · intro _; simp
      · intro h; omega
    · have hz' : (need == 0) = false := by simpa using hz
      simp only [hz', Bool.false_eq_true, if_false]
      have hs := Stack.read_spec st need (by omega) hI
      generalize st.read need = r at hs
      obtain ⟨c, e, st'⟩ := r
      simp only at hs ⊢
      have hview := hs.view
      have hlen : st.view.length = c.length + st'.view.length := by rw [hview]; simp
      cases he : e with
      | none =>
        simp only
        subst he
        have hcne : c ≠ [] := by
          apply hs.progress
          intro hv
          have := (hs.exhausted hv).2
          simp at this
        have hcl : 0 < c.length := List.length_pos_iff.mpr hcne
        have hrec := ih (need - c.length) (c :: acc) st' hs.inv (by omega)
        obtain ⟨r1, r2, r3, r4, r5⟩ := hrec
        refine ⟨r1, by rw [r2, hs.endErr], by rw [r3, hs.all], ?_, ?_⟩
        · intro hle
          obtain ⟨a1, a2⟩ := r4 (by have := hs.len; omega)
          constructor
          · rw [a1, flatten_reverse_cons, hview, List.take_append, List.take_of_length_le hs.len]
            simp [List.append_assoc]
          · rw [a2, hview, List.drop_append, List.drop_of_length_le hs.len]
            simp
        · intro hlt
          obtain ⟨a1, a2⟩ := r5 (by omega)
          constructor
          · rw [a1, flatten_reverse_cons, hs.endErr, hview]
            simp [List.append_assoc]
          · exact a2
      | some err =>
        simp only
        subst he
        obtain ⟨herr, hv'⟩ := hs.err err rfl
        have hvc : st.view = c := by rw [hview, hv']; simp
        by_cases hn0 : need - c.length = 0
        · have hn0' : (need - c.length == 0) = true := by simpa using hn0
          simp only [hn0', if_true]
          have hceq : c.length = need := by have := hs.len; omega
          refine ⟨hs.inv, hs.endErr, hs.all, ?_, ?_⟩
          · intro _
            constructor
            · rw [flatten_reverse_cons, hvc, List.take_of_length_le (by omega)]
            · rw [hv', hvc, List.drop_of_length_le (by omega)]
          · intro hlt; rw [hvc] at hlt; omega
        · have hn0' : (need - c.length == 0) = false := by simpa using hn0
          simp only [hn0', Bool.false_eq_true, if_false]
          refine ⟨hs.inv, hs.endErr, hs.all, ?_, ?_⟩
          · intro hle; rw [hvc] at hle; omega
          · intro _
            refine ⟨?_, hv'⟩
            congr 1
            unfold shortErr
            rw [hvc, herr]
            have hga : (!(c.isEmpty && acc.all List.isEmpty)) = true ↔ (acc.reverse.flatten ++ c) ≠ [] := by
              constructor
              · intro h hh
                have hh' := List.append_eq_nil_iff.mp hh
                have h1 := (all_isEmpty_iff acc).mpr hh'.1
                have h2 : c.isEmpty = true := by simp [hh'.2]
                simp [h1, h2] at h
              · intro h
                cases hc : c.isEmpty with
                | false => simp
                | true =>
                  cases hall : acc.all List.isEmpty with
                  | false => simp
                  | true =>
                    exfalso; apply h
                    exact List.append_eq_nil_iff.mpr ⟨(all_isEmpty_iff acc).mp hall, by simpa using hc⟩
            by_cases hcond : st.endErr = IOErr.eof ∧ (acc.reverse.flatten ++ c) ≠ []
            · have h1 : (st.endErr == IOErr.eof) = true := by simp [hcond.1]
              have h2 := hga.mpr hcond.2
              simp [hcond, h1, h2]
            · rw [if_neg hcond]
              by_cases h1 : st.endErr = IOErr.eof
              · have h2 : ¬ (acc.reverse.flatten ++ c) ≠ [] := fun h => hcond ⟨h1, h⟩
                have h3 : (!(c.isEmpty && acc.all List.isEmpty)) = false := by
                  cases hq : (!(c.isEmpty && acc.all List.isEmpty)) with
                  | false => rfl
                  | true => exact absurd (hga.mp hq) h2
                simp [h3]
              · have : (st.endErr == IOErr.eof) = false := by simpa using h1
                simp [this]

/-- **`io.ReadFull` / `binary.ReadBytes` over the stack = `readFullResult` on the view**, for every
schedule of the underlying source. -/
theorem Stack.readFull_spec (st : Stack) (n : Nat) (hI : st.Inv) :
    (st.readFull n).2.Inv ∧ (st.readFull n).2.endErr = st.endErr ∧ (st.readFull n).2.all = st.all ∧
    (st.readFull n).1 = (Prog.readFullResult st.view st.endErr n).1 ∧
    (st.readFull n).2.view = (Prog.readFullResult st.view st.endErr n).2 := by
  unfold Stack.readFull
  obtain ⟨h1, h2, h3, h4, h5⟩ := Stack.readFullLoop_spec (n + 1) n [] st hI (by omega)
  refine ⟨h1, h2, h3, ?_, ?_⟩
  · unfold Prog.readFullResult
    by_cases hle : n ≤ st.view.length
    · simp only [hle, if_true]
      rw [(h4 hle).1]; simp
    · simp only [hle, if_false]
      rw [(h5 (by omega)).1]
      unfold shortErr
      simp only [List.reverse_nil, List.flatten_nil, List.nil_append]
      by_cases he : st.endErr = IOErr.eof
      · simp only [he, true_and, if_true]
        cases hv : st.view with
        | nil => simp
        | cons a l => simp
      · simp [he]
  · unfold Prog.readFullResult
    by_cases hle : n ≤ st.view.length
    · simp only [hle, if_true]; exact (h4 hle).2
    · simp only [hle, if_false]
      rw [(h5 (by omega)).2]
      split <;> rfl

end Prism
