import Mathlib.Analysis.SpecialFunctions.Pow.Real

/-!
# Lifting lemmas: a comparison with a rational power over ℝ is a comparison of integer powers
-/

namespace Prism
open Real

theorem le_rpow_div_iff {a y : ℝ} (ha : 0 ≤ a) (hy : 0 ≤ y) {p q : ℕ} (hq : 0 < q) :
    a ≤ y ^ ((p : ℝ) / (q : ℝ)) ↔ a ^ q ≤ y ^ p := by
  have hq' : (0 : ℝ) < q := by exact_mod_cast hq
  have h1 : y ^ ((p : ℝ) / (q : ℝ)) = (y ^ p) ^ ((q : ℝ)⁻¹) := by
    rw [div_eq_mul_inv, Real.rpow_mul hy, Real.rpow_natCast]
  rw [h1]
  have hyp : (0 : ℝ) ≤ y ^ p := pow_nonneg hy p
  constructor
  · intro h
    have := pow_le_pow_left₀ ha h q
    rwa [← Real.rpow_natCast ((y ^ p) ^ ((q : ℝ)⁻¹)) q, ← Real.rpow_mul hyp,
      inv_mul_cancel₀ (ne_of_gt hq'), Real.rpow_one] at this
  · intro h
    have h2 : a = (a ^ q) ^ ((q : ℝ)⁻¹) := by
      rw [← Real.rpow_natCast a q, ← Real.rpow_mul ha, mul_inv_cancel₀ (ne_of_gt hq'), Real.rpow_one]
    rw [h2]
    exact Real.rpow_le_rpow (pow_nonneg ha q) h (inv_nonneg.mpr hq'.le)

theorem rpow_div_le_iff {a y : ℝ} (ha : 0 ≤ a) (hy : 0 ≤ y) {p q : ℕ} (hq : 0 < q) :
    y ^ ((p : ℝ) / (q : ℝ)) ≤ a ↔ y ^ p ≤ a ^ q := by
  have hq' : (0 : ℝ) < q := by exact_mod_cast hq
  have h1 : y ^ ((p : ℝ) / (q : ℝ)) = (y ^ p) ^ ((q : ℝ)⁻¹) := by
    rw [div_eq_mul_inv, Real.rpow_mul hy, Real.rpow_natCast]
  rw [h1]
  have hyp : (0 : ℝ) ≤ y ^ p := pow_nonneg hy p
  constructor
  · intro h
    have h0 : (0:ℝ) ≤ (y ^ p) ^ ((q : ℝ)⁻¹) := Real.rpow_nonneg hyp _
    have := pow_le_pow_left₀ h0 h q
    rwa [← Real.rpow_natCast ((y ^ p) ^ ((q : ℝ)⁻¹)) q, ← Real.rpow_mul hyp,
      inv_mul_cancel₀ (ne_of_gt hq'), Real.rpow_one] at this
  · intro h
    have h2 : a = (a ^ q) ^ ((q : ℝ)⁻¹) := by
      rw [← Real.rpow_natCast a q, ← Real.rpow_mul ha, mul_inv_cancel₀ (ne_of_gt hq'), Real.rpow_one]
    rw [h2]
    exact Real.rpow_le_rpow hyp h (inv_nonneg.mpr hq'.le)

end Prism
