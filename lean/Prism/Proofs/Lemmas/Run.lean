import Prism.Model.Prog

/-!
# Compositional reasoning about parser programs on byte lists

`run3` is `runPure` without the cost accounting but *with* the remaining input, so that a
program can be evaluated piece by piece: `run3_bind`.
-/

namespace Prism
open Prog

/-- result and remaining input of a program on a byte list -/
def Prog.run3 {α : Type} (zl : Inflate) : Prog α → List UInt8 → IOErr → α × List UInt8
  | .ret a, inp, _ => (a, inp)
  | .readByte k, inp, e =>
    match inp with
    | [] => run3 zl (k (.error e)) [] e
    | b :: rest => run3 zl (k (.ok b)) rest e
  | .readFull n _ k, inp, e =>
    let r := readFullResult inp e n
    run3 zl (k r.1) r.2 e
  | .inflate z k, inp, e => run3 zl (k (zl z)) inp e

theorem Prog.runPure_eq_run3 {α : Type} (zl : Inflate) (p : Prog α) :
    ∀ (inp : List UInt8) (e : IOErr) (c : Cost), (runPure zl p inp e c).1 = (run3 zl p inp e).1 := by
  induction p with
  | ret a => intro inp e c; rfl
  | readByte k ih =>
    intro inp e c
    cases inp with
    | nil => simp only [runPure, run3]; exact ih _ _ _ _
    | cons b rest => simp only [runPure, run3]; exact ih _ _ _ _
  | readFull n eager k ih => intro inp e c; simp only [runPure, run3]; exact ih _ _ _ _
  | inflate z k ih => intro inp e c; simp only [runPure, run3]; exact ih _ _ _ _

theorem Prog.run3_bind {α β : Type} (zl : Inflate) (p : Prog α) (f : α → Prog β) :
    ∀ (inp : List UInt8) (e : IOErr),
      run3 zl (p.bind f) inp e = run3 zl (f (run3 zl p inp e).1) (run3 zl p inp e).2 e := by
  induction p with
  | ret a => intro inp e; rfl
  | readByte k ih =>
    intro inp e
    cases inp with
    | nil => simp only [Prog.bind, run3]; exact ih _ _ _
    | cons b rest => simp only [Prog.bind, run3]; exact ih _ _ _
  | readFull n eager k ih => intro inp e; simp only [Prog.bind, run3]; exact ih _ _ _
  | inflate z k ih => intro inp e; simp only [Prog.bind, run3]; exact ih _ _ _

/-- sequencing in the `Parser` monad (`ExceptT PErr Prog`) -/
theorem Parser.run3_bind {α β : Type} (zl : Inflate) (x : Parser α) (f : α → Parser β) (inp : List UInt8) (e : IOErr) :
    run3 zl (x >>= f).run inp e =
      match run3 zl x.run inp e with
      | (.ok a, rest) => run3 zl (f a).run rest e
      | (.error err, rest) => (.error err, rest) := by
  show run3 zl (ExceptT.bind x f).run inp e = _
  unfold ExceptT.bind ExceptT.run ExceptT.mk
  show run3 zl (Prog.bind x (ExceptT.bindCont f)) inp e = _
  rw [Prog.run3_bind]
  cases h : run3 zl x inp e with
  | mk r rest =>
    cases r with
    | ok a => rfl
    | error err => rfl

theorem Parser.run3_pure {α : Type} (zl : Inflate) (a : α) (inp : List UInt8) (e : IOErr) :
    run3 zl (pure a : Parser α).run inp e = (.ok a, inp) := rfl

theorem Parser.run3_fail {α : Type} (zl : Inflate) (err : PErr) (inp : List UInt8) (e : IOErr) :
    run3 zl (Parser.fail err : Parser α).run inp e = (.error err, inp) := rfl

theorem Parser.run3_byte_cons (zl : Inflate) (b : UInt8) (rest : List UInt8) (e : IOErr) :
    run3 zl Parser.byte.run (b :: rest) e = (.ok b, rest) := rfl

theorem readFullResult_append (d rest : List UInt8) (e : IOErr) :
    readFullResult (d ++ rest) e d.length = (.ok d, rest) := by
  unfold readFullResult
  simp

theorem Parser.run3_full_append (zl : Inflate) (d rest : List UInt8) (e : IOErr) :
    run3 zl (Parser.full d.length).run (d ++ rest) e = (.ok d, rest) := by
  show run3 zl (Prog.readFull d.length true _) (d ++ rest) e = _
  simp only [run3, readFullResult_append]

theorem Parser.run3_bytesN_append (zl : Inflate) (d rest : List UInt8) (e : IOErr) :
    run3 zl (Parser.bytesN d.length).run (d ++ rest) e = (.ok d, rest) := by
  show run3 zl (Prog.readFull d.length false _) (d ++ rest) e = _
  simp only [run3, readFullResult_append]

/-- skipping `n` bytes that are there -/
theorem Parser.run3_skip_append (zl : Inflate) (e : IOErr) : ∀ (d rest : List UInt8),
    run3 zl (Parser.skip d.length).run (d ++ rest) e = (.ok (), rest) := by
  intro d
  induction d with
  | nil => intro rest; rfl
  | cons b d ih =>
    intro rest
    simp only [List.length_cons, Parser.skip, List.cons_append]
    rw [Parser.run3_bind, Parser.run3_byte_cons]
    exact ih rest

/-- big-endian 32-bit encoding -/
def enc32be (n : Nat) : List UInt8 :=
  [UInt8.ofNat (n / 16777216 % 256), UInt8.ofNat (n / 65536 % 256), UInt8.ofNat (n / 256 % 256), UInt8.ofNat (n % 256)]

theorem Parser.run3_u32be_enc (zl : Inflate) (n : Nat) (hn : n < 4294967296) (rest : List UInt8) (e : IOErr) :
    run3 zl Parser.u32be.run (enc32be n ++ rest) e = (.ok n, rest) := by
  unfold Parser.u32be enc32be
  simp only [List.cons_append, List.nil_append]
  rw [Parser.run3_bind, Parser.run3_byte_cons]; simp only
  rw [Parser.run3_bind, Parser.run3_byte_cons]; simp only
  rw [Parser.run3_bind, Parser.run3_byte_cons]; simp only
  rw [Parser.run3_bind, Parser.run3_byte_cons]; simp only
  rw [Parser.run3_pure]
  simp only [UInt8.toNat_ofNat', Prod.mk.injEq, Except.ok.injEq, and_true]
  omega

theorem Parser.run3_mapErr_ok {α : Type} (zl : Inflate) (p : Parser α) (f : PErr → PErr) (inp rest : List UInt8) (e : IOErr) (a : α)
    (h : run3 zl p.run inp e = (.ok a, rest)) : run3 zl (Parser.mapErr p f).run inp e = (.ok a, rest) := by
  show run3 zl (Prog.bind p.run _) inp e = _
  rw [Prog.run3_bind, h]
  rfl

theorem Parser.run3_attempt {α : Type} (zl : Inflate) (p : Parser α) (inp : List UInt8) (e : IOErr) :
    run3 zl (Parser.attempt p).run inp e = (.ok (run3 zl p.run inp e).1, (run3 zl p.run inp e).2) := by
  show run3 zl (Prog.bind p.run _) inp e = _
  rw [Prog.run3_bind]
  rfl

end Prism
