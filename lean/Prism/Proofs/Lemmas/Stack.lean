import Prism.Proofs.Lemmas.Reader
import Prism.Model.Auto

/-!
# Programs over the reader stack: the composition theorems behind C07, C08, C18, C19
-/

namespace Prism

theorem Stack.view_lazy (st : Stack) (b : Bool) : ({ st with lazyUsed := b } : Stack).view = st.view := rfl
theorem Stack.all_lazy (st : Stack) (b : Bool) : ({ st with lazyUsed := b } : Stack).all = st.all := rfl
theorem Stack.endErr_lazy (st : Stack) (b : Bool) : ({ st with lazyUsed := b } : Stack).endErr = st.endErr := rfl
theorem Stack.inv_lazy (st : Stack) (b : Bool) (h : st.Inv) : ({ st with lazyUsed := b } : Stack).Inv := h

/-- **Composition theorem.** For *every* program, inflate oracle, stack state (any underlying
reader, any schedule) and cost: running the program over the stack yields the value its
functional meaning assigns to the bytes the stack has yet to deliver; and the rewind buffer
followed by the untouched remainder is unchanged. -/
theorem Prog.runStack_spec {α : Type} (zl : Prog.Inflate) (p : Prog α) :
    ∀ (st : Stack) (c : Prog.Cost), st.Inv →
      (Prog.runStack zl p st).1 = (Prog.runPure zl p st.view st.endErr c).1 ∧
      (Prog.runStack zl p st).2.all = st.all ∧
      (Prog.runStack zl p st).2.endErr = st.endErr := by
  induction p with
  | ret a => intro st c _; exact ⟨rfl, rfl, rfl⟩
  | readByte k ih =>
    intro st c hI
    obtain ⟨h1, h2, h3, h4, h5⟩ := Stack.readByte_spec st hI
    simp only [Prog.runStack]
    cases hv : st.view with
    | nil =>
      obtain ⟨r1, r2⟩ := h4 hv
      simp only [Prog.runPure]
      rw [r1]
      have := ih (.error st.endErr) (st.readByte).2 { c with steps := c.steps + 1 } h1
      rw [r2, h2] at this
      exact ⟨this.1, by rw [this.2.1, h3], this.2.2⟩
    | cons b v =>
      obtain ⟨r1, r2⟩ := h5 b v hv
      simp only [Prog.runPure]
      rw [r1]
      have := ih (.ok b) (st.readByte).2 { c with consumed := c.consumed + 1, steps := c.steps + 1 } h1
      rw [r2, h2] at this
      exact ⟨this.1, by rw [this.2.1, h3], this.2.2⟩
  | readFull n eager k ih =>
    intro st c hI
    obtain ⟨h1, h2, h3, h4, h5⟩ := Stack.readFull_spec st n hI
    simp only [Prog.runStack, Prog.runPure]
    have := ih (st.readFull n).1 { (st.readFull n).2 with lazyUsed := (st.readFull n).2.lazyUsed || (!eager && n != 0) }
      { c with consumed := c.consumed + (if n ≤ st.view.length then n else st.view.length), steps := c.steps + 1, alloc := c.alloc + Prog.readAlloc eager n (if n ≤ st.view.length then n else st.view.length), efail := c.efail + (if eager && !(decide (n ≤ st.view.length)) then n else 0) }
      (Stack.inv_lazy _ _ h1)
    rw [Stack.view_lazy, Stack.endErr_lazy, h5, h2] at this
    rw [← h4]
    exact ⟨this.1, (this.2.1.trans (Stack.all_lazy _ _)).trans h3, this.2.2⟩
  | inflate z k ih =>
    intro st c hI
    simp only [Prog.runStack, Prog.runPure]
    exact ih (zl z) st _ hI

theorem Stack.init_inv (r : Rd) : ({ under := r } : Stack).Inv := by
  intro e h; simp at h

/-- **C07 core.** Whatever the extractor does (`p` is arbitrary), whatever the schedule and fault of
the source: the stream `Load` returns has exactly the contents the source had. -/
theorem load_contents {α : Type} (zl : Prog.Inflate) (p : Prog α) (r : Rd) :
    (load zl p r).2.contents = r.contents := by
  unfold load loadSt
  obtain ⟨_, h2, h3⟩ := Prog.runStack_spec zl p { under := r } {} (Stack.init_inv r)
  simp only [Rd.contents]
  simp only [Stack.all, Stack.endErr] at h2 h3
  have t0 : ({ under := r } : Stack).tee = [] := rfl
  rw [t0] at h2
  apply Prod.ext
  · simpa using h2
  · simpa using h3

/-- **C08 core.** The extractor's result is its functional meaning on the source's contents —
no schedule, buffering or chunking appears on the right-hand side. -/
theorem load_result {α : Type} (zl : Prog.Inflate) (p : Prog α) (r : Rd) :
    (load zl p r).1 = (Prog.runPure zl p r.contents.1 r.contents.2 {}).1 := by
  unfold load loadSt
  obtain ⟨h1, _, _⟩ := Prog.runStack_spec zl p { under := r } {} (Stack.init_inv r)
  simpa [Stack.view, Stack.endErr] using h1

/-- **C19 core.** The auto-detecting loop returns what the first succeeding candidate returns on
the complete input, and its stream has the source's contents. -/
theorem Auto.loadList_spec (zl : Prog.Inflate) (ps : List (Prog (Except PErr Meta))) :
    ∀ r : Rd, (Auto.loadList zl ps r).1 = Auto.firstSuccess zl r.contents.1 r.contents.2 ps ∧
      (Auto.loadList zl ps r).2.contents = r.contents := by
  induction ps with
  | nil => intro r; exact ⟨rfl, rfl⟩
  | cons p ps ih =>
    intro r
    have hr := load_result zl p r
    have hc := load_contents zl p r
    unfold Auto.loadList Auto.firstSuccess
    generalize Prism.load zl p r = q at hr hc
    obtain ⟨a, r'⟩ := q
    simp only at hr hc
    rw [← hr]
    cases a with
    | ok m => exact ⟨rfl, hc⟩
    | error e =>
      simp only
      have := ih r'
      rw [hc] at this
      exact this

end Prism
