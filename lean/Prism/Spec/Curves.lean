import Mathlib.Analysis.SpecialFunctions.Pow.Real
import Prism.Check.Curves

/-!
# The published electro-optical transfer functions, over ℝ

These are the specifications C01/C02/C04 are stated against.  They are written twice: once
in the form a reader can compare with the standards (`srgbEOTF`, `adobeEOTF`,
`prophotoEOTF`), and once generically from the `Curve` data the integer decision procedure
consumes (`Curve.eotf`); `*_eotf_eq` proves the two agree.
-/

namespace Prism
open Real

/-- IEC 61966-2-1 (sRGB), also used by Display P3 -/
noncomputable def srgbEOTF (v : ℝ) : ℝ :=
  if v ≤ 0.04045 then v / 12.92 else ((v + 0.055) / 1.055) ^ (2.4 : ℝ)

/-- Adobe RGB (1998): gamma 563/256 = 2.19921875 -/
noncomputable def adobeEOTF (v : ℝ) : ℝ := v ^ ((563 : ℝ) / 256)

/-- ROMM RGB / ProPhoto RGB (ISO 22028-2): `Et = 1/512`, linear slope 16, gamma 1.8 -/
noncomputable def prophotoEOTF (v : ℝ) : ℝ :=
  if v < 16 * (1 / 512) then v / 16 else v ^ (1.8 : ℝ)

noncomputable def Curve.thr (cv : Curve) : ℝ := (cv.thrN : ℝ) / cv.thrD
noncomputable def Curve.off (cv : Curve) : ℝ := (cv.offN : ℝ) / cv.offD
noncomputable def Curve.slope (cv : Curve) : ℝ := (cv.slopeN : ℝ) / cv.slopeD

/-- is `v` on the linear segment -/
def Curve.linearAt (cv : Curve) (v : ℝ) : Prop :=
  (cv.strict = true ∧ v < cv.thr) ∨ (cv.strict = false ∧ v ≤ cv.thr)

open Classical in
noncomputable def Curve.eotf (cv : Curve) (v : ℝ) : ℝ :=
  if cv.linearAt v then v / cv.slope
  else ((v + cv.off) / (1 + cv.off)) ^ ((cv.p : ℝ) / (cv.q : ℝ))

/-- well-formedness of the curve data (all denominators positive) -/
def Curve.WF (cv : Curve) : Prop :=
  0 < cv.thrD ∧ 0 < cv.slopeN ∧ 0 < cv.slopeD ∧ 0 < cv.offD ∧ 0 < cv.q

instance (cv : Curve) : Decidable cv.WF := by unfold Curve.WF; infer_instance

theorem Curve.srgb_wf : Curve.srgb.WF := by decide
theorem Curve.adobe_wf : Curve.adobe.WF := by decide
theorem Curve.prophoto_wf : Curve.prophoto.WF := by decide

theorem srgb_eotf_eq (v : ℝ) : Curve.srgb.eotf v = srgbEOTF v := by
  unfold Curve.eotf srgbEOTF Curve.linearAt Curve.thr Curve.slope Curve.off Curve.srgb
  simp only [Bool.false_eq_true, false_and, true_and, false_or]
  have e1 : ((4045 : ℕ) : ℝ) / ((100000 : ℕ) : ℝ) = 0.04045 := by norm_num
  have e2 : ((1292 : ℕ) : ℝ) / ((100 : ℕ) : ℝ) = 12.92 := by norm_num
  have e3 : ((55 : ℕ) : ℝ) / ((1000 : ℕ) : ℝ) = 0.055 := by norm_num
  have e4 : ((12 : ℕ) : ℝ) / ((5 : ℕ) : ℝ) = 2.4 := by norm_num
  have e5 : (1 : ℝ) + 0.055 = 1.055 := by norm_num
  rw [e1, e2, e3, e4, e5]

/-- on the domain of encoded values (`v ≥ 0`) the generic form is the published function -/
theorem adobe_eotf_eq (v : ℝ) (hv : 0 ≤ v) : Curve.adobe.eotf v = adobeEOTF v := by
  unfold Curve.eotf adobeEOTF Curve.linearAt Curve.thr Curve.slope Curve.off Curve.adobe
  simp only [Bool.true_eq_false, false_and, true_and, or_false]
  have h : ¬ v < ((0 : ℕ) : ℝ) / ((1 : ℕ) : ℝ) := by norm_num; exact hv
  rw [if_neg h]; norm_num

theorem prophoto_eotf_eq (v : ℝ) : Curve.prophoto.eotf v = prophotoEOTF v := by
  unfold Curve.eotf prophotoEOTF Curve.linearAt Curve.thr Curve.slope Curve.off Curve.prophoto
  simp only [Bool.true_eq_false, false_and, true_and, or_false]
  have e1 : ((16 : ℕ) : ℝ) / ((512 : ℕ) : ℝ) = 16 * (1 / 512) := by norm_num
  have e2 : ((16 : ℕ) : ℝ) / ((1 : ℕ) : ℝ) = 16 := by norm_num
  have e3 : ((0 : ℕ) : ℝ) / ((1 : ℕ) : ℝ) = 0 := by norm_num
  have e4 : ((9 : ℕ) : ℝ) / ((5 : ℕ) : ℝ) = 1.8 := by norm_num
  rw [e1, e2, e3, e4]; simp

end Prism
