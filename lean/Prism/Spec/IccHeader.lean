import Prism.Model.Icc
set_option linter.unusedVariables false

/-! Generated statement helper for C16 (lib/gen_static.py writes nothing here; this file is hand-maintained text produced once by a script): the ICC header reader applied to a *symbolic* 128-byte header. -/
namespace Prism.Icc
open Prism

/-- big-endian value of a byte list -/
def be : List UInt8 → Nat
  | [] => 0
  | a :: rest => rest.foldl (fun acc b => acc * 256 + b.toNat) a.toNat

/-- a 128-byte header carrying the 'acsp' signature at offset 36, all other bytes arbitrary -/
def hdr (b0 b1 b2 b3 b4 b5 b6 b7 b8 b9 b10 b11 b12 b13 b14 b15 b16 b17 b18 b19 b20 b21 b22 b23 b24 b25 b26 b27 b28 b29 b30 b31 b32 b33 b34 b35 b40 b41 b42 b43 b44 b45 b46 b47 b48 b49 b50 b51 b52 b53 b54 b55 b56 b57 b58 b59 b60 b61 b62 b63 b64 b65 b66 b67 b68 b69 b70 b71 b72 b73 b74 b75 b76 b77 b78 b79 b80 b81 b82 b83 b84 b85 b86 b87 b88 b89 b90 b91 b92 b93 b94 b95 b96 b97 b98 b99 b100 b101 b102 b103 b104 b105 b106 b107 b108 b109 b110 b111 b112 b113 b114 b115 b116 b117 b118 b119 b120 b121 b122 b123 b124 b125 b126 b127 : UInt8) : List UInt8 :=
  [b0, b1, b2, b3, b4, b5, b6, b7, b8, b9, b10, b11, b12, b13, b14, b15, b16, b17, b18, b19, b20, b21, b22, b23, b24, b25, b26, b27, b28, b29, b30, b31, b32, b33, b34, b35, 0x61, 0x63, 0x73, 0x70, b40, b41, b42, b43, b44, b45, b46, b47, b48, b49, b50, b51, b52, b53, b54, b55, b56, b57, b58, b59, b60, b61, b62, b63, b64, b65, b66, b67, b68, b69, b70, b71, b72, b73, b74, b75, b76, b77, b78, b79, b80, b81, b82, b83, b84, b85, b86, b87, b88, b89, b90, b91, b92, b93, b94, b95, b96, b97, b98, b99, b100, b101, b102, b103, b104, b105, b106, b107, b108, b109, b110, b111, b112, b113, b114, b115, b116, b117, b118, b119, b120, b121, b122, b123, b124, b125, b126, b127]

/-- what ICC.1 says each field is: the big-endian integer at its offset and width -/
def specHeader (b0 b1 b2 b3 b4 b5 b6 b7 b8 b9 b10 b11 b12 b13 b14 b15 b16 b17 b18 b19 b20 b21 b22 b23 b24 b25 b26 b27 b28 b29 b30 b31 b32 b33 b34 b35 b40 b41 b42 b43 b44 b45 b46 b47 b48 b49 b50 b51 b52 b53 b54 b55 b56 b57 b58 b59 b60 b61 b62 b63 b64 b65 b66 b67 b68 b69 b70 b71 b72 b73 b74 b75 b76 b77 b78 b79 b80 b81 b82 b83 b84 b85 b86 b87 b88 b89 b90 b91 b92 b93 b94 b95 b96 b97 b98 b99 b100 b101 b102 b103 b104 b105 b106 b107 b108 b109 b110 b111 b112 b113 b114 b115 b116 b117 b118 b119 b120 b121 b122 b123 b124 b125 b126 b127 : UInt8) : Header :=
  { size := be [b0, b1, b2, b3], cmm := be [b4, b5, b6, b7], major := b8.toNat, minorRev := b9.toNat,
    deviceClass := be [b12, b13, b14, b15], colorSpace := be [b16, b17, b18, b19], pcs := be [b20, b21, b22, b23],
    date := [be [b24, b25], be [b26, b27], be [b28, b29], be [b30, b31], be [b32, b33], be [b34, b35]],
    platform := be [b40, b41, b42, b43],
    embedded := be [b44, b45, b46, b47] % 2 == 1, dependsOnEmbedded := (be [b44, b45, b46, b47] / 2) % 2 == 1,
    manufacturer := be [b48, b49, b50, b51], model := be [b52, b53, b54, b55], attributes := be [b56, b57, b58, b59] * 4294967296 + be [b60, b61, b62, b63], intent := be [b64, b65, b66, b67],
    illuminant := [be [b68, b69, b70, b71], be [b72, b73, b74, b75], be [b76, b77, b78, b79]], creator := be [b80, b81, b82, b83],
    profileID := [b84, b85, b86, b87, b88, b89, b90, b91, b92, b93, b94, b95, b96, b97, b98, b99] }

end Prism.Icc
