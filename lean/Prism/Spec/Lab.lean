import Mathlib.Analysis.SpecialFunctions.Pow.Real

/-!
# CIE 1976 L*a*b* (CIE 15), over ℝ — the specification C13 is stated against
-/

namespace Prism.Lab
open Real

/-- ε = 216/24389 = (6/29)³ and κ = 24389/27 = (29/3)³ -/
noncomputable def eps : ℝ := 216 / 24389
noncomputable def kappa : ℝ := 24389 / 27

/-- the CIE companding function -/
noncomputable def f (t : ℝ) : ℝ := if t > eps then t ^ ((1 : ℝ) / 3) else (kappa * t + 16) / 116

/-- its inverse, as `componentFromLAB` computes it -/
noncomputable def finv (u : ℝ) : ℝ := if u ^ 3 > eps then u ^ 3 else (116 * u - 16) / kappa

structure LabColor where
  L : ℝ
  a : ℝ
  b : ℝ

/-- XYZ → L*a*b* relative to white `(xn, yn, zn)` -/
noncomputable def toLab (x y z xn yn zn : ℝ) : LabColor :=
  ⟨116 * f (y / yn) - 16, 500 * (f (x / xn) - f (y / yn)), 200 * (f (y / yn) - f (z / zn))⟩

/-- L*a*b* → XYZ relative to white `(xn, yn, zn)`, as `ColorFromLAB` is written: the Y channel branches on
`L > κ·ε = 8` (which is the same function as `finv ((L + 16)/116)`, see `yinv_eq`) -/
noncomputable def yinv (L : ℝ) : ℝ := if L > 8 then ((L + 16) / 116) ^ 3 else L / kappa

structure XYZColor where
  x : ℝ
  y : ℝ
  z : ℝ

noncomputable def fromLab (L a b xn yn zn : ℝ) : XYZColor :=
  ⟨finv (a / 500 + (L + 16) / 116) * xn, yinv L * yn, finv ((L + 16) / 116 - b / 200) * zn⟩

end Prism.Lab
