#!/bin/sh
# usage: lib/confirm_seed.sh <ID> <outdir-of-agent>  -> confirms a seeded change in a scratch worktree
# (outside /repo and /verif) and prints a JSON fragment with what was run and observed.
ID="$1"; SRC="$2"
export GOFLAGS=-mod=mod GOPROXY=off GOSUMDB=off GOTOOLCHAIN=local
W=/tmp/seedcheck-$ID
git -C /repo worktree remove --force $W >/dev/null 2>&1
git -C /repo worktree add -q --detach $W HEAD || exit 2
cd $W
cp -r "$SRC"/demo/* . 2>/dev/null
DEMO_PKGS=$(cd "$SRC/demo" && find . -name '*_test.go' -exec dirname {} \; | sort -u | tr '\n' ' ')
# demo on the unchanged tree
CLEAN=pass
for p in $DEMO_PKGS; do go test -vet=off -count=1 -timeout 20m $p >/tmp/seedcheck-$ID.clean.log 2>&1 || CLEAN=fail; done
git apply "$SRC/patch.diff" || { echo "{\"id\":\"$ID\",\"error\":\"patch does not apply\"}"; exit 2; }
BUILD=ok; go build ./... >/dev/null 2>&1 || BUILD=fail
# existing suite (demo files moved aside)
mkdir -p /tmp/seedcheck-$ID.demo && for p in $DEMO_PKGS; do for f in $(cd "$SRC/demo" && find $p -maxdepth 1 -name '*_test.go'); do mv $f /tmp/seedcheck-$ID.demo/$(echo $f | tr '/' '_'); done; done
SUITE=pass; go test -vet=off -count=1 -timeout 20m ./... >/tmp/seedcheck-$ID.suite.log 2>&1 || SUITE=fail
cp -r "$SRC"/demo/* . 2>/dev/null
MUT=pass
for p in $DEMO_PKGS; do timeout 1500 go test -vet=off -count=1 -timeout 20m $p >/tmp/seedcheck-$ID.mut.log 2>&1 || MUT=fail; done
cd /
git -C /repo worktree remove --force $W
rm -rf /tmp/seedcheck-$ID.demo
echo "{\"id\":\"$ID\",\"build_with_patch\":\"$BUILD\",\"existing_suite_with_patch\":\"$SUITE\",\"demo_without_patch\":\"$CLEAN\",\"demo_with_patch\":\"$MUT\",\"demo_packages\":\"$DEMO_PKGS\"}"
