#!/usr/bin/env python3
"""Writes lean/Prism/Audit/<ID>.lean: `#print axioms` for every property theorem (every theorem
named C<nn>_* in lean/Prism/Proofs/<ID>.lean), and prints the theorem lists for lib/props.py."""
import os, re, json
HERE = os.path.dirname(os.path.abspath(__file__))
LEAN = os.path.join(HERE, "..", "lean")
out = {}
for n in range(1, 21):
    pid = "C%02d" % n
    p = os.path.join(LEAN, "Prism", "Proofs", pid + ".lean")
    if not os.path.exists(p):
        continue
    src = open(p, encoding="utf-8").read()
    names = []
    full = []
    ns = []
    for line in src.split("\n"):
        m = re.match(r"^namespace\s+(\S+)", line)
        if m:
            ns.append(m.group(1))
        m = re.match(r"^end\s+(\S+)", line)
        if m and ns and ns[-1] == m.group(1):
            ns.pop()
        m = re.match(r"^theorem\s+(%s_\w+)" % pid, line)
        if m:
            names.append(m.group(1))
            full.append(".".join(ns + [m.group(1)]))
    L = ["import Prism.Proofs." + pid, ""]
    for nm in full:
        L.append("#print axioms " + nm)
    open(os.path.join(LEAN, "Prism", "Audit", pid + ".lean"), "w").write("\n".join(L) + "\n")
    out[pid] = names
json.dump(out, open(os.path.join(HERE, "theorems.json"), "w"), indent=1)
print({k: len(v) for k, v in out.items()})
