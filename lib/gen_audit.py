#!/usr/bin/env python3
"""Writes lean/Prism/Audit/<ID>.lean: `#print axioms` for every property theorem (every theorem
named C<nn>_* in any lean/Prism/Proofs/C*.lean; a theorem belongs to the property its name starts
with, whichever file it is in), and lib/theorems.json: per property the theorem names and the
modules that hold them (the check's build targets)."""
import os, re, json, glob
HERE = os.path.dirname(os.path.abspath(__file__))
LEAN = os.path.join(HERE, "..", "lean")
thms = {"C%02d" % n: [] for n in range(1, 21)}      # pid -> [(short, full, module)]
for p in sorted(glob.glob(os.path.join(LEAN, "Prism", "Proofs", "C*.lean"))):
    mod = "Prism.Proofs." + os.path.basename(p)[:-5]
    src = open(p, encoding="utf-8").read()
    ns = []
    for line in src.split("\n"):
        m = re.match(r"^namespace\s+(\S+)", line)
        if m:
            ns.append(m.group(1))
        m = re.match(r"^end\s+(\S+)", line)
        if m and ns and ns[-1] == m.group(1):
            ns.pop()
        m = re.match(r"^theorem\s+(C\d\d)_(\w+)", line)
        if m and m.group(1) in thms:
            short = m.group(1) + "_" + m.group(2)
            thms[m.group(1)].append((short, ".".join(ns + [short]), mod))
out = {}
for pid, lst in thms.items():
    if not lst:
        continue
    main = "Prism.Proofs." + pid
    mods = [main] + sorted({m for _, _, m in lst if m != main})
    L = ["import " + m for m in mods] + [""]
    for _, full, _ in lst:
        L.append("#print axioms " + full)
    open(os.path.join(LEAN, "Prism", "Audit", pid + ".lean"), "w").write("\n".join(L) + "\n")
    out[pid] = {"theorems": [s for s, _, _ in lst], "modules": mods}
json.dump(out, open(os.path.join(HERE, "theorems.json"), "w"), indent=1)
print({k: len(v["theorems"]) for k, v in out.items()})
