#!/usr/bin/env python3
"""Writes MANIFEST.json from lib/props.py (one source of truth)."""
import json, os, sys
HERE = os.path.dirname(os.path.abspath(__file__))
sys.path.insert(0, HERE)
from props import PROPS
VERIF = os.path.dirname(HERE)
props = [json.loads(l) for l in open(os.path.join(VERIF, "properties.jsonl"))]
checks = []
na = []
for p in props:
    pid = p["id"]
    if pid in PROPS and PROPS[pid].get("claimed", True):
        P = PROPS[pid]
        checks.append({
            "property_id": pid,
            "quick_cmd": "./check %s --tier quick" % pid,
            "thorough_cmd": "./check %s --tier thorough" % pid,
            "evidence_file": "/verif/evidence/%s.json" % pid,
            "replay_cmd_template": "./check %s --replay {path}" % pid,
            "engine": "lean4-proof+correspondence",
            "level_claimed": {"category": "proof", "text": P["level_text"], "design_ref": "DESIGN.md §4 " + pid},
            "level_note": P["level_note"],
            "technique": P.get("technique", "Lean 4 theorems about a formal model; model tied to the code by regenerated data and a bit-exact correspondence check"),
        })
    else:
        na.append({"property_id": pid, "reason": (PROPS.get(pid, {}) or {}).get("na_reason", "check not built yet in this round; the design (DESIGN.md §4) claims it by Lean proof + correspondence")})
m = {
    "version": 1,
    "setup_cmd": "./setup.sh",
    "hooks": {
        "guard": "verif",
        "enable": "go build -tags verif (the harness is built with the tag on; no hook exists in /repo at present)",
        "baseline_off_cmd": "cd /repo && GOFLAGS=-mod=mod go test -vet=off -count=1 ./...",
        "source_commits": [],
        "add_only": True,
    },
    "engines": [{
        "name": "lean4-proof+correspondence",
        "path": "/verif/check",
        "serves_properties": [c["property_id"] for c in checks],
        "kind_free_text": "Lean 4 theorems (kernel-checked, axioms audited) about formal models in /verif/lean; models tied to /repo on every run by regenerated data (pv dump -> Prism/Gen) and by a line-protocol correspondence check between the Go harness (real code, in-process) and the compiled Lean model driver",
    }],
    "checks": checks,
    "not_applicable": na,
    "notes": "See DESIGN.md. Every check: build harness against /repo working tree -> regenerate data -> lake build theorems (+ axiom audit) -> correspondence -> on failure search for a concrete failing input on the real code.",
}
json.dump(m, open(os.path.join(VERIF, "MANIFEST.json"), "w"), indent=1)
print("checks:", len(checks), "not_applicable:", len(na))
