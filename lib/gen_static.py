#!/usr/bin/env python3
"""Writes the static (committed) boiler-plate proof files: one `decide +kernel` theorem per
256-entry chunk of every regenerated decode table, grouped 16 per file so that lake checks
them on all cores.  The files do not depend on the table contents; the kernel re-evaluates
them whenever Prism/Gen/*.lean changes.  Run once when the layout changes."""
import os, sys
root = os.path.join(os.path.dirname(os.path.abspath(__file__)), "..", "lean", "Prism", "Proofs", "C01")
os.makedirs(root, exist_ok=True)
spaces = ["srgb", "adobe", "prophoto", "p3"]
imports = []
for s in spaces:
    S = s.capitalize()
    for j in range(16):
        name = f"K{S}{j}"
        imports.append(f"import Prism.Proofs.C01.{name}")
        L = ["import Prism.Check.C01", "", "/-! Kernel-checked chunks of the regenerated 16-bit decode table (generated boiler-plate). -/",
             "namespace Prism.C01", ""]
        for i in range(16):
            k = 16 * j + i
            L.append(f"theorem {s}_k{k} : chunkOk16 .{s} {k} = true := by decide +kernel")
        L.append("")
        L.append(f"theorem {s}_file{j} : ∀ k, {16*j} ≤ k → k < {16*j+16} → chunkOk16 .{s} k = true := by")
        L.append("  intro k h1 h2")
        alts = " ∨ ".join(f"k = {16*j+i}" for i in range(16))
        L.append(f"  have h : {alts} := by omega")
        L.append("  rcases h with " + " | ".join(["rfl"] * 16))
        for i in range(16):
            L.append(f"  · exact {s}_k{16*j+i}")
        L += ["", "end Prism.C01", ""]
        open(os.path.join(root, name + ".lean"), "w").write("\n".join(L))
# assembly
L = imports + ["", "/-! Assembly of the chunk theorems into one statement per table (generated boiler-plate). -/",
               "namespace Prism.C01", ""]
for s in spaces:
    L.append(f"theorem {s}_chunks : ∀ k, k < 256 → chunkOk16 .{s} k = true := by")
    L.append("  intro k hk")
    alts = " ∨ ".join(f"({16*j} ≤ k ∧ k < {16*j+16})" for j in range(16))
    L.append(f"  have h : {alts} := by omega")
    L.append("  rcases h with " + " | ".join(["h"] * 16))
    for j in range(16):
        L.append(f"  · exact {s}_file{j} k h.1 h.2")
    L.append("")
    L.append(f"theorem {s}_dec8 : tableOk8 .{s} = true := by decide +kernel")
    L.append(f"theorem {s}_endpoints : endpointsOk .{s} = true := by decide +kernel")
    L.append("")
L += ["end Prism.C01", ""]
open(os.path.join(root, "All.lean"), "w").write("\n".join(L))
print("wrote", len(imports) + 1, "files")


def gen_family(prop, imp, fam, pred, nfiles=16, per=16, extra_all=""):
    """16 files x 16 theorems `pred k = true` by decide +kernel, plus per-file and overall assembly."""
    root2 = os.path.join(os.path.dirname(os.path.abspath(__file__)), "..", "lean", "Prism", "Proofs", prop)
    os.makedirs(root2, exist_ok=True)
    imports = []
    for j in range(nfiles):
        name = f"K{fam.capitalize()}{j}"
        imports.append(f"import Prism.Proofs.{prop}.{name}")
        L = [f"import {imp}", "", "/-! Kernel-checked chunks (generated boiler-plate, see lib/gen_static.py). -/", f"namespace Prism.{prop}", ""]
        for i in range(per):
            k = per * j + i
            L.append(f"theorem {fam}_k{k} : {pred} {k} = true := by decide +kernel")
        L.append("")
        L.append(f"theorem {fam}_file{j} : ∀ k, {per*j} ≤ k → k < {per*j+per} → {pred} k = true := by")
        L.append("  intro k h1 h2")
        L.append("  have h : " + " ∨ ".join(f"k = {per*j+i}" for i in range(per)) + " := by omega")
        L.append("  rcases h with " + " | ".join(["rfl"] * per))
        for i in range(per):
            L.append(f"  · exact {fam}_k{per*j+i}")
        L += ["", f"end Prism.{prop}", ""]
        open(os.path.join(root2, name + ".lean"), "w").write("\n".join(L))
    L = imports + ["", f"namespace Prism.{prop}", ""]
    L.append(f"theorem {fam}_chunks : ∀ k, k < {nfiles*per} → {pred} k = true := by")
    L.append("  intro k hk")
    L.append("  have h : " + " ∨ ".join(f"({per*j} ≤ k ∧ k < {per*j+per})" for j in range(nfiles)) + " := by omega")
    L.append("  rcases h with " + " | ".join(["h"] * nfiles))
    for j in range(nfiles):
        L.append(f"  · exact {fam}_file{j} k h.1 h.2")
    L.append("")
    if extra_all:
        L.append(extra_all)
    L += [f"end Prism.{prop}", ""]
    open(os.path.join(root2, f"All{fam.capitalize()}.lean"), "w").write("\n".join(L))

gen_family("C14", "Prism.Check.C14", "alpha", "alphaChunk16",
           extra_all="theorem alpha8 : alphaAll8 = true := by decide +kernel\n")
print("wrote C14 alpha family")
for sp in ["srgb", "adobe", "prophoto", "p3"]:
    gen_family("C14", "Prism.Check.C14", "premul" + sp, f"premulChunk .{sp}")
print("wrote C14 premul families")

for sp in ["srgb", "adobe", "prophoto", "p3"]:
    gen_family("C02", "Prism.Check.C02", "enc" + sp, f"enc16ChunkOk .{sp}",
               extra_all=f"theorem enc{sp}_8 : enc8TableOk .{sp} = true := by decide +kernel\ntheorem enc{sp}_ends : encEndpointsOk .{sp} = true := by decide +kernel\n")
print("wrote C02 families")

for sp in ["srgb", "adobe", "prophoto", "p3"]:
    gen_family("C02", "Prism.Check.C02Acc", "acc" + sp, f"enc16AccChunk .{sp}",
               extra_all=f"theorem acc{sp}_8 : enc8AccTable .{sp} = true := by decide +kernel\n")
print("wrote C02 accuracy families")
