#!/bin/sh
# usage: lib/mut_test.sh <patch.diff> <ID> [<ID>...]   (add -R as first arg to apply the patch reversed)
# Applies a seeded change to /repo, runs the named checks, restores /repo.  For rehearsal only.
REV=""
if [ "$1" = "-R" ]; then REV="-R"; shift; fi
PATCH="$1"; shift
cd /verif
git -C /repo apply $REV "$PATCH" || { echo "patch does not apply"; exit 2; }
( cd /repo && GOFLAGS=-mod=mod GOPROXY=off GOSUMDB=off GOTOOLCHAIN=local go build ./... ) || echo "BUILD FAILS"
for id in "$@"; do
  out=$(./check "$id" 2>&1 | grep -E "^(VIOLATION|OK|KNOWN)" | head -6)
  echo "[$id] $out"
done
git -C /repo checkout -- .
git -C /repo status --short | head -3
rm -f /verif/replays/*.json.keep 2>/dev/null
