"""Shared machinery of ./check: build, regenerate, prove, audit, correspond, search, report."""
import fcntl
import hashlib
import json
import os
import re
import shutil
import subprocess
import sys
import time

from props import PROPS, COMMON_TRUSTED

VERIF = os.path.dirname(os.path.dirname(os.path.abspath(__file__)))
LEAN = os.path.join(VERIF, "lean")
HARNESS = os.path.join(VERIF, "harness")
WORK = os.path.join(VERIF, "work")
REPO = os.environ.get("VERIF_REPO", "/repo")
PV = os.path.join(HARNESS, "pv")
DRIVER = os.path.join(LEAN, ".lake", "build", "bin", "driver")
ALLOWED_AXIOMS = {"propext", "Classical.choice", "Quot.sound"}
NCPU = os.cpu_count() or 4


def goenv():
    e = dict(os.environ)
    e.update({"GOFLAGS": "-mod=mod", "GOPROXY": "off", "GOSUMDB": "off", "GOTOOLCHAIN": "local",
              "CGO_ENABLED": e.get("CGO_ENABLED", "0")})
    return e


def sh(cmd, cwd=None, env=None, timeout=3600, stdin=None, cpus=None):
    """cpus=k restricts the child to k CPUs (sched_setaffinity), which is what runtime.NumCPU reports."""
    t0 = time.time()
    pre = None
    if cpus:
        try:
            avail = sorted(os.sched_getaffinity(0))
            if len(avail) >= cpus:
                chosen = set(avail[:cpus])
                pre = lambda: os.sched_setaffinity(0, chosen)
        except (AttributeError, OSError):
            pre = None
    try:
        p = subprocess.run(cmd, cwd=cwd, env=env, stdout=subprocess.PIPE, stderr=subprocess.STDOUT,
                           timeout=timeout, stdin=stdin, preexec_fn=pre)
        out = p.stdout.decode("utf-8", "replace")
        return p.returncode, out, time.time() - t0
    except subprocess.TimeoutExpired as ex:
        out = (ex.stdout or b"").decode("utf-8", "replace")
        return 124, out + "\n[timeout after %ds]" % timeout, time.time() - t0


class Lock:
    """Serialises the steps that write shared build state (harness binary, Gen files, .lake)."""

    def __init__(self, name="build"):
        os.makedirs(WORK, exist_ok=True)
        self.path = os.path.join(WORK, "." + name + ".lock")

    def __enter__(self):
        self.f = open(self.path, "w")
        fcntl.flock(self.f, fcntl.LOCK_EX)
        return self

    def __exit__(self, *a):
        fcntl.flock(self.f, fcntl.LOCK_UN)
        self.f.close()


def build_harness():
    """go build of the harness against /repo's working tree (hooks tag on)."""
    src = os.path.join(REPO, "go.sum")
    if os.path.exists(src):
        shutil.copyfile(src, os.path.join(HARNESS, "go.sum"))
    # the replace directive in go.mod points at /repo; honour VERIF_REPO for scratch worktrees
    if REPO != "/repo":
        rc, out, _ = sh(["go", "mod", "edit", "-replace", "github.com/mandykoh/prism=" + REPO], cwd=HARNESS, env=goenv())
    rc, out, dt = sh(["go", "build", "-tags", "verif", "-o", PV, "."], cwd=HARNESS, env=goenv(), timeout=600)
    if REPO != "/repo":
        sh(["go", "mod", "edit", "-replace", "github.com/mandykoh/prism=/repo"], cwd=HARNESS, env=goenv())
    return rc == 0, out


def regen():
    rc, out, dt = sh([PV, "dump", os.path.join(LEAN, "Prism", "Gen")], timeout=600)
    return rc == 0, out


def envprobe(wdir):
    """The regenerated data (tables, coefficients, matrices) must not depend on the process
    environment the library is first used in: re-run the dumper in fresh processes under other
    GOMAXPROCS values, on other numbers of CPUs (affinity: what runtime.NumCPU reports) and with another
    part of the library used first, and compare with lean/Prism/Gen byte for byte.  Returns a list of problems."""
    import filecmp, shutil
    problems = []
    gen = os.path.join(LEAN, "Prism", "Gen")
    for n, first in (("1", ""), ("3", "encode"), ("7", "decode"), ("5", "xyz")):
        d = os.path.join(wdir, "envdump_" + n)
        shutil.rmtree(d, ignore_errors=True)
        os.makedirs(d, exist_ok=True)
        e = dict(os.environ)
        e["GOMAXPROCS"] = n
        if first:
            e["PV_FIRSTUSE"] = first
        penv = {"GOMAXPROCS": n, "PV_CPUS": n}
        if first:
            penv["PV_FIRSTUSE"] = first
        if n != "1":
            for nm in env_names_read_by_repo():
                if nm not in ("GOMAXPROCS",):
                    e[nm] = "1"
                    penv[nm] = "1"
        rc, out, dt = sh([PV, "dump", d], env=e, timeout=600, cpus=int(n))
        diff = []
        if rc == 0:
            for f in sorted(os.listdir(gen)):
                if f.endswith(".lean") and f != "Access.lean":
                    if not os.path.exists(os.path.join(d, f)) or not filecmp.cmp(os.path.join(gen, f), os.path.join(d, f), shallow=False):
                        diff.append(f)
        shutil.rmtree(d, ignore_errors=True)
        if rc != 0 or diff:
            problems.append({"kind": "env", "env": penv, "probe": True,
                             "what": ("the code's tables/constants depend on the process environment / order of first use: with %s the dumper %s" %
                                      (" ".join("%s=%s" % kv for kv in sorted(penv.items())), ("regenerates different data in " + ", ".join(diff[:6])) if rc == 0 else "fails")),
                             "failed_modules": ["Prism.Gen." + f[:-5] + " (regenerated under GOMAXPROCS=%s on %s CPUs: the kernel-checked theorems are about the default-environment data)" % (n, n) for f in diff[:6]],
                             "detail": out[-1500:]})
            break
    # ... and on a 32-bit build (GOARCH=386: `int` is 32 bits wide) when this machine can build and run one
    if not problems:
        exe = os.path.join(wdir, "pv386")
        e = goenv()
        e["GOARCH"] = "386"
        rc, out, dt = sh(["go", "build", "-tags", "verif", "-o", exe, "."], cwd=HARNESS, env=e, timeout=900)
        if rc == 0:
            d = os.path.join(wdir, "envdump_386")
            shutil.rmtree(d, ignore_errors=True)
            os.makedirs(d, exist_ok=True)
            rc, out, dt = sh([exe, "dump", d], env=dict(os.environ), timeout=600)
            cannot_run = rc != 0 and ("exec format error" in out.lower() or "cannot execute" in out.lower() or rc == 126)
            diff = []
            if rc == 0:
                for f in sorted(os.listdir(gen)):
                    if f.endswith(".lean") and f != "Access.lean":
                        if not os.path.exists(os.path.join(d, f)) or not filecmp.cmp(os.path.join(gen, f), os.path.join(d, f), shallow=False):
                            diff.append(f)
            shutil.rmtree(d, ignore_errors=True)
            if not cannot_run and (rc != 0 or diff):
                penv = {"GOARCH": "386"}
                problems.append({"kind": "env", "env": penv, "probe": True,
                                 "what": ("the code's tables/constants depend on the width of int: a GOARCH=386 build of the dumper %s" %
                                          (("regenerates different data in " + ", ".join(diff[:6])) if rc == 0 else "fails")),
                                 "failed_modules": ["Prism.Gen." + f[:-5] + " (regenerated by a GOARCH=386 build: the kernel-checked theorems are about the amd64 data)" for f in diff[:6]],
                                 "detail": out[-1500:]})
    return problems


def lake_build(targets, timeout=5400):
    rc, out, dt = sh(["lake", "build"] + targets, cwd=LEAN, timeout=timeout)
    failed = re.findall(r"^- (\S+)$", out, flags=re.M)
    errors = re.findall(r"^error: (.*)$", out, flags=re.M)
    return rc == 0, out, failed, errors


def audit(pid):
    """#print axioms on every property theorem; returns list of (name, axioms, ok)."""
    f = os.path.join("Prism", "Audit", pid + ".lean")
    if not os.path.exists(os.path.join(LEAN, f)):
        return [], "no audit file"
    rc, out, dt = sh(["lake", "env", "lean", f], cwd=LEAN, timeout=1800)
    res = []
    flat = re.sub(r"\n\s+", " ", out)
    for m in re.finditer(r"'([^']+)' depends on axioms: \[([^\]]*)\]", flat):
        ax = [a.strip() for a in m.group(2).split(",") if a.strip()]
        res.append((m.group(1), ax, all(a in ALLOWED_AXIOMS for a in ax)))
    for m in re.finditer(r"'([^']+)' does not depend on any axioms", flat):
        res.append((m.group(1), [], True))
    if rc != 0:
        res.append(("<audit file failed to elaborate>", [out[-2000:]], False))
    return res, out


def grep_forbidden():
    """sorry / admit / axiom / native_decide / bv_decide / implemented_by / unsafe anywhere in the
    Lean sources (comments excluded)."""
    hits = []
    pat = re.compile(r"\b(sorry|admit|native_decide|bv_decide|implemented_by|maxHeartbeats 0)\b|^\s*axiom\s|^\s*unsafe\s")
    for root, _, files in os.walk(os.path.join(LEAN, "Prism")):
        for fn in files:
            if not fn.endswith(".lean"):
                continue
            p = os.path.join(root, fn)
            if os.sep + "Gen" + os.sep in p:
                continue
            incomment = 0
            for ln, line in enumerate(open(p, encoding="utf-8"), 1):
                s = line
                # strip block comments (approximate but conservative: nested depth tracking)
                outp = ""
                i = 0
                while i < len(s):
                    if s.startswith("/-", i):
                        incomment += 1
                        i += 2
                    elif s.startswith("-/", i) and incomment:
                        incomment -= 1
                        i += 2
                    else:
                        if not incomment:
                            outp += s[i]
                        i += 1
                outp = outp.split("--")[0]
                if pat.search(outp):
                    hits.append("%s:%d: %s" % (os.path.relpath(p, LEAN), ln, outp.strip()))
    return hits


def run_driver_sharded(ops_path, out_path, timeout):
    """Pipes ops through the model driver, NCPU processes over contiguous shards."""
    lines = open(ops_path, "rb").read().split(b"\n")
    if lines and lines[-1] == b"":
        lines.pop()
    n = len(lines)
    if n == 0:
        open(out_path, "w").close()
        return True, ""
    shards = min(NCPU, max(1, n // 8))
    # interleave so that expensive neighbouring ops are spread out
    parts = [lines[i::shards] for i in range(shards)]
    procs = []
    d = os.path.dirname(out_path)
    for i, part in enumerate(parts):
        ip = os.path.join(d, "shard%d.in" % i)
        op = os.path.join(d, "shard%d.out" % i)
        with open(ip, "wb") as f:
            f.write(b"\n".join(part) + b"\n")
        procs.append((subprocess.Popen([DRIVER], stdin=open(ip, "rb"), stdout=open(op, "wb"), stderr=subprocess.PIPE), ip, op))
    ok = True
    msg = ""
    deadline = time.time() + timeout
    outs = []
    for p, ip, op in procs:
        try:
            _, err = p.communicate(timeout=max(1, deadline - time.time()))
        except subprocess.TimeoutExpired:
            p.kill()
            ok = False
            msg += "driver timeout; "
            err = b""
        if p.returncode != 0:
            ok = False
            msg += "driver exit %s: %s; " % (p.returncode, err.decode("utf-8", "replace")[-500:])
        o = open(op, "rb").read().split(b"\n")
        if o and o[-1] == b"":
            o.pop()
        outs.append(o)
    merged = [b""] * n
    for i, o in enumerate(outs):
        idxs = range(i, n, shards)
        for j, k in enumerate(idxs):
            merged[k] = o[j] if j < len(o) else b"<missing>"
    with open(out_path, "wb") as f:
        f.write(b"\n".join(merged) + b"\n")
    for _, ip, op in procs:
        for x in (ip, op):
            try:
                os.remove(x)
            except OSError:
                pass
    return ok, msg


def set_match(impl, model):
    """A model token `k=∈x|y|z` stands for a set of admissible answers (Go map iteration picks
    one): the implementation's token must be `k=<one of them>`. All other tokens must be equal."""
    if "∈" not in model and "=[" not in model:
        return False
    ta, tb = impl.split(" "), model.split(" ")
    if len(ta) != len(tb):
        return False
    for x, y in zip(ta, tb):
        if x == y:
            continue
        if "=[" in y and y.endswith("]") and ".." in y:
            k, rng = y.split("=[", 1)
            lo, hi = rng[:-1].split("..")
            if not x.startswith(k + "="):
                return False
            try:
                v = int(x[len(k) + 1:])
            except ValueError:
                return False
            if not (int(lo) <= v <= int(hi)):
                return False
        elif "=∈" in y:
            k, alts = y.split("=∈", 1)
            if not x.startswith(k + "="):
                return False
            if x[len(k) + 1:] not in alts.split("|"):
                return False
        else:
            return False
    return True


def corr(pid, tier, seed, wdir, timeout):
    """Returns (ok, info dict). info has lines, mismatches[], stats."""
    os.makedirs(wdir, exist_ok=True)
    for fn in ("ops.txt", "impl.txt", "model.txt", "stats.json"):
        try:
            os.remove(os.path.join(wdir, fn))
        except OSError:
            pass
    env = goenv()
    env["GOMEMLIMIT"] = env.get("GOMEMLIMIT", "8GiB")
    rc, out, dt = sh([PV, "corr", pid, tier, str(seed), wdir], env=env, timeout=timeout)
    info = {"harness_s": round(dt, 2), "harness_rc": rc, "harness_out": out[-4000:]}
    if rc != 0:
        info["error"] = "correspondence harness failed (exit %d)" % rc
        # the library killed the harness process (panic in a worker goroutine, fatal error, timeout):
        # the case that was running is the failing input
        try:
            cur = open(os.path.join(wdir, "current_case.txt"), encoding="utf-8", errors="replace").read()
        except OSError:
            cur = None
        if cur and ("panic:" in out or "fatal error:" in out or "goroutine " in out or rc == 124):
            tb = out[out.find("panic:"):][:1500] if "panic:" in out else out[-1500:]
            info["crash"] = {"key": "%s/crash/%s" % (pid, hashlib.sha1(tb[:200].encode()).hexdigest()[:10]),
                             "what": "the library brought the process down (%s) while running this case" % ("timeout" if rc == 124 else "panic / fatal error outside any recover"),
                             "case": cur[:6000], "traceback": tb}
        return False, info
    t0 = time.time()
    ok, msg = run_driver_sharded(os.path.join(wdir, "ops.txt"), os.path.join(wdir, "model.txt"), timeout)
    info["driver_s"] = round(time.time() - t0, 2)
    if not ok:
        info["error"] = "model driver failed: " + msg
    ops = open(os.path.join(wdir, "ops.txt"), encoding="utf-8", errors="replace").read().split("\n")
    impl = open(os.path.join(wdir, "impl.txt"), encoding="utf-8", errors="replace").read().split("\n")
    model = open(os.path.join(wdir, "model.txt"), encoding="utf-8", errors="replace").read().split("\n")
    n = len(ops) - 1 if ops and ops[-1] == "" else len(ops)
    mism = []
    for i in range(n):
        a = impl[i] if i < len(impl) else "<missing>"
        b = model[i] if i < len(model) else "<missing>"
        if a != b and not set_match(a, b):
            mism.append({"line": i, "op": ops[i][:4000], "impl": a[:4000], "model": b[:4000]})
    info["lines"] = n
    info["mismatch_count"] = len(mism)
    info["mismatches"] = mism[:50]
    try:
        info["stats"] = json.load(open(os.path.join(wdir, "stats.json")))
    except Exception as ex:  # noqa
        info["stats"] = {"error": str(ex)}
    return ok and not mism, info


HOSTILE_ENVS = [
    {"LANG": "de_DE.UTF-8", "LC_ALL": "de_DE.UTF-8", "LC_MESSAGES": "de_DE.UTF-8", "LANGUAGE": "de", "TZ": "Pacific/Kiritimati", "GOMAXPROCS": "3"},
    {"LANG": "ja_JP.UTF-8", "LC_ALL": "ja_JP.UTF-8", "LC_MESSAGES": "ja_JP.UTF-8", "LANGUAGE": "ja", "TZ": "America/St_Johns", "GOMAXPROCS": "7"},
]


def env_names_read_by_repo():
    """Names of environment variables the library's (non-test) source reads through os.Getenv / os.LookupEnv
    with a literal argument.  They are not an alarm by themselves; they tell the environment probes which
    variables to set."""
    names = set()
    for root, dirs, files in os.walk(REPO):
        dirs[:] = [d for d in dirs if not d.startswith(".") and d not in ("examples", "test-images", "test-profiles")]
        for f in files:
            if f.endswith(".go") and not f.endswith("_test.go"):
                try:
                    src = open(os.path.join(root, f), encoding="utf-8", errors="replace").read()
                except OSError:
                    continue
                for m in re.finditer(r'os\.(?:Getenv|LookupEnv)\(\s*"([A-Za-z_][A-Za-z0-9_]*)"', src):
                    names.add(m.group(1))
    return sorted(names)


def hostile_envs():
    envs = [dict(e) for e in HOSTILE_ENVS]
    extra = [n for n in env_names_read_by_repo() if n not in envs[0]]
    for i, e in enumerate(envs):
        for n in extra:
            e[n] = ["1", "true"][i % 2]
    return envs


def envrun(pid, tier, seed, wdir, timeout):
    """The same correspondence cases in a fresh process under another locale / time zone / GOMAXPROCS:
    what the library returns must still be what the model says (the model has no environment).
    Reuses ops.txt/model.txt of the main run; returns (problems, directs, info)."""
    problems, directs, info = [], [], {}
    try:
        ops0 = open(os.path.join(wdir, "ops.txt"), encoding="utf-8", errors="replace").read().split("\n")
        model = open(os.path.join(wdir, "model.txt"), encoding="utf-8", errors="replace").read().split("\n")
    except OSError:
        return problems, directs, {"skipped": "no main run"}
    for k, he in enumerate(hostile_envs()[:(2 if tier == "thorough" else 1)]):
        d = os.path.join(wdir, "envrun%d" % k)
        os.makedirs(d, exist_ok=True)
        env = goenv()
        env["GOMEMLIMIT"] = env.get("GOMEMLIMIT", "8GiB")
        env.update(he)
        rc, out, dt = sh([PV, "corr", pid, tier, str(seed), d], env=env, timeout=timeout)
        info["env%d_s" % k] = round(dt, 2)
        tag = ",".join("%s=%s" % kv for kv in sorted(he.items()) if kv[0] not in ("LC_ALL", "LC_MESSAGES", "LANGUAGE"))
        if rc != 0:
            problems.append({"kind": "env", "env": he, "what": "the correspondence harness fails under " + tag, "detail": out[-1500:]})
            continue
        ops = open(os.path.join(d, "ops.txt"), encoding="utf-8", errors="replace").read().split("\n")
        impl = open(os.path.join(d, "impl.txt"), encoding="utf-8", errors="replace").read().split("\n")
        mism = []
        if ops == ops0:
            for i in range(len(ops)):
                a = impl[i] if i < len(impl) else "<missing>"
                b = model[i] if i < len(model) else "<missing>"
                if a != b and not set_match(a, b):
                    mism.append({"line": i, "op": ops[i][:4000], "impl": a[:4000], "model": b[:4000], "env": he})
        else:
            info["env%d_note" % k] = "the generated cases differ under this environment (not compared line by line)"
        try:
            st = json.load(open(os.path.join(d, "stats.json")))
            for dd in (st.get("extra", {}) or {}).get("direct", []) or []:
                dd = dict(dd)
                dd["process_env"] = he
                dd["key"] = str(dd.get("key")) + "/env:" + tag
                directs.append(dd)
        except Exception:
            pass
        if mism:
            problems.append({"kind": "corr", "env": he,
                             "what": "under %s the library's answers differ from the model on %d operations (they agree in the default environment)" % (tag, len(mism)),
                             "mismatches": mism[:20]})
        for fn in ("ops.txt", "impl.txt", "stats.json"):
            try:
                os.remove(os.path.join(d, fn))
            except OSError:
                pass
    return problems, directs, info


def corr_directs_under(pid, tier, seed, wdir, penv, timeout):
    """After an environment probe found different data: run the property's own oracles (the direct checks
    inside the correspondence harness) on the real code in that environment — PV_CPUS is the number of
    CPUs the process is confined to — and return the concrete failing inputs they find."""
    d = os.path.join(wdir, "envprobe_corr")
    os.makedirs(d, exist_ok=True)
    env = goenv()
    env["GOMEMLIMIT"] = env.get("GOMEMLIMIT", "8GiB")
    env.update(penv)
    cpus = int(penv.get("PV_CPUS", 0) or 0) or None
    exe = os.path.join(wdir, "pv386") if penv.get("GOARCH") == "386" and os.path.exists(os.path.join(wdir, "pv386")) else PV
    rc, out, dt = sh([exe, "corr", pid, tier, str(seed), d], env=env, timeout=timeout, cpus=cpus)
    directs = []
    tag = ",".join("%s=%s" % kv for kv in sorted(penv.items()))
    try:
        st = json.load(open(os.path.join(d, "stats.json")))
        for dd in (st.get("extra", {}) or {}).get("direct", []) or []:
            dd = dict(dd)
            dd["process_env"] = dict(penv, note="PV_CPUS = number of CPUs the process may run on (sched_setaffinity / taskset)")
            dd["key"] = str(dd.get("key")) + "/env:" + tag
            directs.append(dd)
    except Exception:
        pass
    for fn in ("ops.txt", "impl.txt", "stats.json"):
        try:
            os.remove(os.path.join(d, fn))
        except OSError:
            pass
    return directs


def racerun(tier, wdir, pid="C11"):
    """C11 search: fresh -race processes whose goroutines meet at first use. Returns list of findings."""
    findings = []
    env = goenv()
    env["CGO_ENABLED"] = "1"
    exe = os.path.join(wdir, "racerun.bin")
    rc, out, dt = sh(["go", "build", "-race", "-o", exe, "./racerun"], cwd=HARNESS, env=env, timeout=900)
    info = {"build_s": round(dt, 1), "trials": 0, "races": 0}
    if rc != 0:
        info["error"] = "cannot build the -race stress program: " + out[-800:]
        return findings, info
    img = os.path.join(REPO, "test-images", "pizza-rgb8-srgb.jpg")
    if pid != "C11" and tier == "quick":
        combos = [(8, 3), (16, 4), (33, 7), (8, 16), (4, 5), (64, 6), (2, 2)]
    else:
      combos = ([(2, 1), (8, 4), (64, 16), (8, 3), (16, 5), (8, 6), (33, 7), (2, 3), (3, 5), (16, 7), (64, 3), (5, 6), (8, 12)] if tier == "quick"
              else [(n, p) for n in (2, 8, 64) for p in (1, 3, 4, 5, 6, 7, 12, 16)] * 3)
    digests = set()
    for n, procs in combos:
        e = dict(env)
        e["GOMAXPROCS"] = str(procs)
        e["GORACE"] = "halt_on_error=0 exitcode=66"
        rc, out, dt = sh([exe, str(n), img], env=e, timeout=300)
        info["trials"] += 1
        for line in out.splitlines():
            if line.startswith("digest "):
                digests.add((n, line))
        if "DATA RACE" in out or rc == 66:
            info["races"] += 1
            if len(findings) < 3:
                m = re.search(r"WARNING: DATA RACE\n(.*?)\n\n", out, flags=re.S)
                findings.append({"key": pid + "/race/" + hashlib.sha1((m.group(1) if m else out)[:400].encode()).hexdigest()[:12],
                                 "what": "the race detector reports a data race at first use (N=%d goroutines, GOMAXPROCS=%d)" % (n, procs),
                                 "goroutines": n, "gomaxprocs": procs, "report": out[:3000]})
        elif rc != 0:
            findings.append({"key": pid + "/crash", "what": "stress program failed (exit %d)" % rc, "report": out[-2000:]})
    # every call returns its sequential value: same N => same digest in every trial
    byn = {}
    for n, d in digests:
        byn.setdefault(n, set()).add(d)
    for n, ds in byn.items():
        if len(ds) > 1:
            findings.append({"key": pid + "/value/%d" % n, "what": "concurrent calls returned different values in different trials", "digests": sorted(ds)})
    try:
        os.remove(exe)
    except OSError:
        pass
    return findings, info


def load_known():
    p = os.path.join(VERIF, "known_findings.jsonl")
    res = []
    if os.path.exists(p):
        for line in open(p, encoding="utf-8"):
            line = line.strip()
            if line and not line.startswith("#"):
                try:
                    res.append(json.loads(line))
                except Exception:
                    pass
    return res


def next_replay_path(pid):
    d = os.path.join(VERIF, "replays")
    os.makedirs(d, exist_ok=True)
    k = 1
    while os.path.exists(os.path.join(d, "%s-%d.json" % (pid, k))):
        k += 1
    return os.path.join(d, "%s-%d.json" % (pid, k))


def search(pid, kind, payload, wdir, env_extra=None):
    """Ask the Go side to evaluate the property's own oracle on the real code.
    Returns dict {found: bool, witness: ..., detail: ...}."""
    req = os.path.join(wdir, "search_req.json")
    json.dump({"kind": kind, "payload": payload}, open(req, "w"))
    env = goenv()
    env.update(env_extra or (payload.get("env") if isinstance(payload, dict) else None) or {})
    exe = os.path.join(wdir, "pv386") if env.get("GOARCH") == "386" and os.path.exists(os.path.join(wdir, "pv386")) else PV
    rc, out, dt = sh([exe, "search", pid, req], env=env, timeout=900, cpus=(int(env.get("PV_CPUS", 0) or 0) or None))
    res = {"found": False, "detail": out[-4000:], "rc": rc}
    for line in out.splitlines():
        if line.startswith("WITNESS "):
            try:
                res["witness"] = json.loads(line[len("WITNESS "):])
                res["found"] = True
                if env_extra or (isinstance(payload, dict) and payload.get("env")):
                    res["witness"]["process_env"] = env_extra or payload.get("env")
                    res["witness"]["key"] = str(res["witness"].get("key")) + "/env:" + ",".join(
                        "%s=%s" % kv for kv in sorted((env_extra or payload.get("env")).items()))
            except Exception:
                pass
    return res


def write_evidence(pid, ev):
    d = os.path.join(VERIF, "evidence")
    os.makedirs(d, exist_ok=True)
    tmp = os.path.join(d, pid + ".json.tmp")
    json.dump(ev, open(tmp, "w"), indent=1, sort_keys=False)
    os.replace(tmp, os.path.join(d, pid + ".json"))


def run_check(pid, tier, seed):
    if pid not in PROPS:
        print("unknown property", pid)
        return 2
    P = PROPS[pid]
    t0 = time.time()
    wdir = os.path.join(WORK, pid)
    os.makedirs(wdir, exist_ok=True)
    problems = []      # each: dict(kind, what, detail, witness?)
    steps = {}
    thorough = tier == "thorough"

    # ---- 1-3: build, regen, prove (serialised: shared build state) --------------------------
    with Lock():
        ok, out = build_harness()
        steps["build_harness"] = ok
        if not ok:
            problems.append({"kind": "build", "what": "harness does not build against /repo's working tree",
                             "detail": out[-3000:]})
        else:
            ok, out = regen()
            steps["regen"] = ok
            if not ok:
                problems.append({"kind": "regen", "what": "pv dump failed (panic or error while reading the code's data)",
                                 "detail": out[-3000:]})
            if ok and P.get("envprobe"):
                problems += envprobe(wdir)
                steps["envprobe"] = "GOMAXPROCS and CPUs 1 / 3+encode-first / 7+decode-first / 5+xyz-first; GOARCH=386 build: " + ("data differs" if any(p["kind"] == "env" for p in problems) else "identical data")
        targets = list(P.get("targets", [])) + ["driver"]
        tb0 = time.time()
        ok, out, failed, errors = lake_build(targets)
        steps["lake_build"] = ok
        steps["lake_build_s"] = round(time.time() - tb0, 1)
        if not ok:
            # the driver may have failed only because a proof module failed; try to build it alone
            problems.append({"kind": "proof", "what": "theorem modules no longer check: " + ", ".join(failed or ["?"]),
                             "failed_modules": failed, "detail": "\n".join(errors)[:3000] or out[-3000:]})
            ok2, out2, _, _ = lake_build(["driver"])
            steps["driver_build"] = ok2
        aud, aud_out = audit(pid) if steps.get("lake_build") else ([], "skipped: build failed")
        forb = grep_forbidden()
        if thorough and steps.get("lake_build"):
            # independent re-check of the compiled property module by leanchecker
            lc = []
            for tgt in P.get("targets", []):
                rc, o, dt = sh(["lake", "env", "leanchecker", tgt], cwd=LEAN, timeout=3600)
                lc.append({"module": tgt, "ok": rc == 0, "s": round(dt, 1), "tail": o[-300:]})
                if rc != 0:
                    problems.append({"kind": "proof", "what": "leanchecker rejects " + tgt, "detail": o[-2000:]})
            steps["leanchecker"] = lc

    bad_ax = [a for a in aud if not a[2]]
    if bad_ax:
        problems.append({"kind": "audit", "what": "theorem depends on an axiom outside propext/Classical.choice/Quot.sound",
                         "detail": json.dumps(bad_ax)[:2000]})
    if forb:
        problems.append({"kind": "audit", "what": "forbidden construct in Lean sources", "detail": "\n".join(forb)[:2000]})
    expected = P.get("theorems", [])
    have = {a[0].split(".")[-1] for a in aud}
    missing = [t for t in expected if t not in have]
    if steps.get("lake_build") and missing:
        problems.append({"kind": "audit", "what": "property theorems missing from the audit: " + ", ".join(missing), "detail": aud_out[-1500:]})

    # ---- 4: correspondence ---------------------------------------------------------------------
    cinfo = {}
    if P.get("corr", True) and steps.get("build_harness") and os.path.exists(DRIVER):
        okc, cinfo = corr(pid, tier, seed, wdir, P.get("corr_timeout", 3000))
        steps["corr"] = okc
        if not okc:
            problems.append({"kind": "corr", "what": cinfo.get("error") or
                             ("model and implementation disagree on %d of %d operations" % (cinfo.get("mismatch_count", 0), cinfo.get("lines", 0))),
                             "mismatches": cinfo.get("mismatches", [])[:20], "detail": cinfo.get("harness_out", "")[-1500:]})

    # ---- 4a: the same cases under another process environment ------------------------------------
    extra_direct = []
    if P.get("envrun") and steps.get("corr"):
        eprob, edir, einfo = envrun(pid, tier, seed, wdir, P.get("corr_timeout", 3000))
        problems += eprob
        steps["envrun"] = einfo
        extra_direct_env = edir
    else:
        extra_direct_env = []

    # ---- 4b: property-specific extra exploration (search only, never the claim) -------------------
    if P.get("extra") == "racerun" and steps.get("build_harness"):
        fnd, rinfo = racerun(tier, wdir, pid)
        steps["racerun"] = rinfo
        extra_direct = fnd
    extra_direct = list(extra_direct) + extra_direct_env
    for pr in problems:
        if pr.get("probe") and steps.get("build_harness"):
            extra_direct += corr_directs_under(pid, tier, seed, wdir, pr["env"], P.get("corr_timeout", 3000))[:8]

    # ---- 5: search for a concrete failing input ------------------------------------------------
    known = [k for k in load_known() if k.get("property") == pid and k.get("status") == "open"]
    violations = []
    known_hits = []
    for pr in problems:
        s = {"found": False}
        if steps.get("build_harness"):
            s = search(pid, pr["kind"], pr, wdir)
        pr["search"] = s
        wit = s.get("witness")
        key = (wit or {}).get("key") if isinstance(wit, dict) else None
        matched = None
        if key:
            for k in known:
                if k.get("key") == key:
                    matched = k
        if matched is not None:
            known_hits.append((matched, pr))
        else:
            violations.append(pr)

    # findings flagged by the harness itself as direct property violations on the real code
    # (lines "DIRECT <json>" in stats.extra.direct)
    directs = list((cinfo.get("stats", {}).get("extra", {}) or {}).get("direct", []) or []) + extra_direct
    if cinfo.get("crash"):
        directs.append(cinfo["crash"])
    if directs:
        # a concrete failing input on the real code explains the broken proof / correspondence:
        # report the witnesses instead of a witness-less line per broken step
        violations = [v for v in violations if v.get("search", {}).get("found")]
    seen_keys = set()
    for d in directs:
        # one line per kind of failure (first two components of the key), at most four lines
        kkey = "/".join(str(d.get("key", "")).split("/")[:3])
        if kkey in seen_keys or len(seen_keys) >= 4:
            continue
        seen_keys.add(kkey)
        matched = None
        for k in known:
            if k.get("key") == d.get("key"):
                matched = k
        if matched is not None:
            known_hits.append((matched, {"kind": "direct", "what": d.get("what"), "search": {"found": True, "witness": d}}))
        else:
            violations.append({"kind": "direct", "what": d.get("what", "property oracle failed on the real code"),
                               "search": {"found": True, "witness": d}})

    # ---- 6: report -----------------------------------------------------------------------------
    wall = time.time() - t0
    stats = cinfo.get("stats", {}) if cinfo else {}
    thms = [{"name": a[0], "axioms": a[1], "ok": a[2]} for a in aud]
    obligations = max(len(expected), len(thms), 1)
    discharged = len([a for a in aud if a[2] and (not expected or a[0].split(".")[-1] in expected)]) if steps.get("lake_build") else 0
    if not expected:
        discharged = len([a for a in aud if a[2]])
    samples = list(stats.get("samples", []))[:12]
    samples += [{"theorem": t["name"], "axioms": t["axioms"]} for t in thms[:6]]
    if not samples:
        samples = [{"note": "no case was generated (build failed)"}]
    classes = stats.get("classes", {})
    ev = {
        "property_id": pid,
        "tier": tier,
        "seed": seed,
        "level": "proof",
        "coverage": {
            "obligations": obligations,
            "discharged": discharged,
            "checker_cmd": "cd lean && lake build %s && lake env lean Prism/Audit/%s.lean%s" % (
                " ".join(P.get("targets", [])), pid, " && lake env leanchecker <module>" if thorough else ""),
            "trusted_base": COMMON_TRUSTED + P.get("trusted", []),
            "theorems": thms,
            "evaluations": int(stats.get("lines", 0)) + int((stats.get("extra", {}) or {}).get("codes_evaluated", 0) or 0),
            "distinct_nontrivial": int(stats.get("distinct_ops", 0)),
            "rule": P.get("rule", "one line per operation sent both to the real code and to the Lean model; distinct = distinct operation lines"),
            "samples": samples,
            "exhaustive": bool((stats.get("extra", {}) or {}).get("exhaustive", False)),
            "generator_classes": classes,
            "correspondence": {k: cinfo.get(k) for k in ("lines", "mismatch_count", "harness_s", "driver_s") if k in cinfo},
            "extra": stats.get("extra", {}),
            "steps": steps,
        },
        "assumptions": P.get("assumptions", []),
        "wall_s": round(wall, 2),
        "violations": len(violations),
    }
    rr = steps.get("racerun")
    if isinstance(rr, dict) and rr.get("trials"):
        cov = ev["coverage"]
        cov["evaluations"] = int(cov.get("evaluations", 0)) + int(rr["trials"])
        cov["distinct_nontrivial"] = int(cov.get("distinct_nontrivial", 0)) + int(rr["trials"])
        cov["rule"] = "each -race trial is a fresh process with N goroutines released together at first use (distinct (N, GOMAXPROCS) trials); the access summary itself is regenerated and kernel-checked"
        cov["samples"] = [{"race_trials": rr["trials"], "races": rr.get("races", 0)}] + cov["samples"]
    if discharged < 1:
        # schema: a proof-level file needs discharged >= 1; a run in which nothing was discharged
        # reports its counts under other keys and falls back to the exploration-style keys
        cov = ev["coverage"]
        cov["obligations_total"] = cov.pop("obligations")
        cov["discharged_count"] = cov.pop("discharged")
        cov["evaluations"] = max(1, cov["evaluations"])
        cov["distinct_nontrivial"] = max(2, cov["distinct_nontrivial"])
    write_evidence(pid, ev)

    for k, pr in known_hits:
        print("KNOWN-FINDING: property=%s %s" % (pid, k.get("what", k.get("key"))))
    if violations:
        for pr in violations:
            path = next_replay_path(pid)
            found = pr.get("search", {}).get("found", False)
            rep = {"property": pid, "tier": tier, "seed": seed, "kind": pr["kind"], "what": pr["what"],
                   "failing_input_found": found, "witness": pr.get("search", {}).get("witness"),
                   "no_longer_checks": pr.get("failed_modules") or (["correspondence stream " + pid] if pr["kind"] == "corr" else [pr["kind"]]),
                   "mismatches": pr.get("mismatches"), "detail": pr.get("detail"), "search_detail": pr.get("search", {}).get("detail"),
                   "replay_cmd": "./check %s --replay %s" % (pid, os.path.relpath(path, VERIF))}
            json.dump(rep, open(path, "w"), indent=1)
            print("VIOLATION property=%s replay=%s%s" % (pid, os.path.relpath(path, VERIF), "" if found else " no-failing-input-found"))
        sys.stdout.flush()
        return 1
    print("OK property=%s tier=%s theorems=%d/%d corr_lines=%s wall=%.1fs" % (pid, tier, discharged, obligations, cinfo.get("lines"), wall))
    return 0


def replay(pid, path):
    """Re-runs the witness of a replay file on the real code (Go oracle)."""
    if not os.path.isabs(path):
        path = os.path.join(VERIF, path)
    rep = json.load(open(path))
    with Lock():
        ok, out = build_harness()
    if not ok:
        print("harness build failed:\n" + out[-2000:])
        return 2
    wdir = os.path.join(WORK, pid)
    os.makedirs(wdir, exist_ok=True)
    s = search(pid, "replay", rep, wdir)
    print(json.dumps(s, indent=1)[:6000])
    if s.get("found"):
        print("VIOLATION property=%s replay=%s" % (pid, os.path.relpath(path, VERIF)))
        return 1
    print("replay did not reproduce a property failure on the current tree")
    return 0
