#!/usr/bin/env python3
"""usage: save_seed.py <name> <property> <agent-out-dir> <confirm-json> <initially> <now> <what it needs>"""
import sys, os, json, shutil
name, prop, src, confirm, initially, now, needs = sys.argv[1:8]
dst = os.path.join("/verif/seeded", name)
os.makedirs(dst, exist_ok=True)
shutil.copyfile(os.path.join(src, "patch.diff"), os.path.join(dst, "patch.diff"))
if os.path.isdir(os.path.join(dst, "demo")):
    shutil.rmtree(os.path.join(dst, "demo"))
shutil.copytree(os.path.join(src, "demo"), os.path.join(dst, "demo"))
if os.path.exists(os.path.join(src, "README.md")):
    shutil.copyfile(os.path.join(src, "README.md"), os.path.join(dst, "README.agent.md"))
meta = {"breaks_property": prop, "source": "independent sub-agent given only the property text and a scratch worktree",
        "needs_to_manifest": needs,
        "confirmed_by_me": json.loads(confirm),
        "what_i_ran": ["lib/confirm_seed.sh (scratch worktree outside /repo and /verif): go build ./...; go test -vet=off -count=1 ./... with the patch; the demo with and without the patch",
                       "lib/mut_test.sh seeded/%s/patch.diff %s (git -C /repo apply; ./check; git -C /repo checkout -- .)" % (name, prop)],
        "detection_first_attempt": initially, "detection_now": now}
json.dump(meta, open(os.path.join(dst, "meta.json"), "w"), indent=1)
print("saved", dst)
