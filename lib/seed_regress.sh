#!/bin/sh
# usage: lib/seed_regress.sh [name...]   -> for each seeded change: apply to /repo, run its property's quick
# check, record the outcome in seeded/<name>/detection.json, restore /repo.  Rehearsal tool, not a registered check.
cd /verif
names="$@"; [ -z "$names" ] && names=$(ls seeded)
for n in $names; do
  d=seeded/$n; [ -f $d/patch.diff ] || continue
  prop=$(python3 -c "import json;print(json.load(open('$d/meta.json'))['breaks_property'])")
  git -C /repo apply /verif/$d/patch.diff || { echo "$n: patch does not apply"; continue; }
  rm -f replays/$prop-*.json
  out=$(timeout 1500 ./check $prop 2>&1 | grep -E "^(VIOLATION|OK|KNOWN)")
  git -C /repo checkout -- . && git -C /repo clean -fdq
  python3 - "$n" "$prop" "$out" <<'PY'
import sys, json, glob, os
n, prop, out = sys.argv[1:4]
lines = [l for l in out.splitlines() if l]
res = {"property": prop, "check_output": lines, "caught": any(l.startswith("VIOLATION") for l in lines), "witnesses": []}
for p in sorted(glob.glob("/verif/replays/%s-*.json" % prop))[:4]:
    try:
        r = json.load(open(p))
        w = r.get("witness") or {}
        res["witnesses"].append({"kind": r.get("kind"), "what": r.get("what"), "failing_input_found": r.get("failing_input_found"), "key": w.get("key") if isinstance(w, dict) else None})
    except Exception as e:
        pass
json.dump(res, open("/verif/seeded/%s/detection.json" % n, "w"), indent=1)
print(n, "CAUGHT" if res["caught"] else "MISSED", "; ".join("%s[%s]" % (w["kind"], w["key"]) for w in res["witnesses"])[:200])
PY
done
git -C /repo status --short | head -3
rm -f replays/*.json
