#!/bin/sh
# Builds the framework from files on disk only (offline): Go harness, regenerated data,
# all Lean theorem modules and the model driver.
set -e
cd "$(dirname "$0")"
export GOFLAGS=-mod=mod GOPROXY=off GOSUMDB=off GOTOOLCHAIN=local CGO_ENABLED=0
mkdir -p work evidence replays
cp /repo/go.sum harness/go.sum
(cd harness && go build -tags verif -o pv .)
./harness/pv dump lean/Prism/Gen
(cd lean && lake build Prism driver)
echo setup done
